import DocsModel.Model.Bytes
import DocsModel.Model.Entry
import DocsModel.Model.Spec
import DocsModel.Model.Tables
