import DocsModel.Model.Bytes
import DocsModel.Model.Entry
import DocsModel.Model.Spec
import DocsModel.Model.Tables
import DocsModel.Model.QuerySpec
import DocsModel.Model.Postcard
import DocsModel.Model.Heads
import DocsModel.Model.FilterText
