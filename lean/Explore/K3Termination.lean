import DocsModel.Model.Ranger
open Ranger Spec

def mkE (i : Nat) : Entry :=
  { ns := [1], author := [2], key := [i.toUInt8], ts := 5, len := 1, hash := [(i + 1).toUInt8], fp := [(2 ^ i).toUInt8] }

def subsetOf (mask n : Nat) : List Entry :=
  (List.range n).filterMap fun i => if (mask / 2 ^ i) % 2 = 1 then some (mkE i) else none

def build (es : List Entry) : Store := es.foldl (fun s e => (Spec.put s e).1) []

def main : IO Unit := do
  let n := 8
  let mut worst := 0
  let mut bad := 0
  for k in [3, 5] do
    for ms in [0, 1] do
      for ma in List.range (2 ^ n) do
        for mb in List.range (2 ^ n) do
          let a := build (subsetOf ma n)
          let b := build (subsetOf mb n)
          let cfg : Config := { maxSetSize := ms, splitFactor := k }
          let r := session mapOps cfg (fun _ => true) (fun _ => 2) 300 a b (initialMessage mapOps a)
          let len := r.1.length
          if len > worst then
            worst := len
            IO.println s!"k={k} ms={ms} a={ma} b={mb} len={len}"
          if len > 300 then
            bad := bad + 1
          -- also: did they converge?
          if len ≤ 300 && (r.2.1 != r.2.2) then
            IO.println s!"DIVERGED k={k} ms={ms} a={ma} b={mb}"
  IO.println s!"worst={worst} nonterminating={bad}"
