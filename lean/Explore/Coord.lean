import DocsModel.Model.Coord
import Std.Data.HashSet
open Coord

def actions (s : Sys) (maxDials : Nat) : List Action :=
  let dials := if s.dials < maxDials then [Action.dial false false, .dial false true, .dial true false, .dial true true] else []
  let perNode := fun (n : Bool) =>
    let x := s.node n
    (if (firstRequesting x.ctasks).isSome then [Action.deliverReq n, .loseReq n] else []) ++
    ((List.range x.ctasks.length).filterMap fun i =>
      match x.ctasks[i]? with
      | some t => if t.phase == .requesting then none else some (Action.completeConnect n i true)
      | none => none) ++
    (x.atasks.map fun sid => Action.completeAccept n sid true) ++
    (if x.declinedAcc.isEmpty then [] else [Action.completeDeclined n])
  dials ++ perNode false ++ perNode true

/-- canonical key: forget finished sessions and counters that do not influence behaviour -/
def key (s : Sys) : Sys :=
  { s with sessions := s.sessions.filter (fun ss => !(ss.initDone && ss.accDone)),
           a := { s.a with followUps := 0 }, b := { s.b with followUps := 0 } }

partial def explore (fix : Bool) (maxDials : Nat) (frontier : Array (Sys × List Action)) (seen : Std.HashSet Sys) (count : Nat)
    (bad1 bad2 : Option (List Action)) : Nat × Option (List Action) × Option (List Action) :=
  if frontier.isEmpty then (count, bad1, bad2) else
  let (next, seen, count, bad1, bad2) := frontier.foldl
    (fun (acc : Array (Sys × List Action) × Std.HashSet Sys × Nat × Option (List Action) × Option (List Action)) (st : Sys × List Action) =>
      let (next, seen, count, bad1, bad2) := acc
      let (s, tr) := st
      let bad1 := if bad1.isNone && (inProgress s).length > 1 then some tr.reverse else bad1
      let bad2 := if bad2.isNone && quiescent s && !(s.a.st == .idle && s.b.st == .idle) then some tr.reverse else bad2
      let (next, seen) := (actions s maxDials).foldl (fun (acc : Array (Sys × List Action) × Std.HashSet Sys) a =>
        let s' := step fix s a
        let k := key s'
        if acc.2.contains k then acc else (acc.1.push (s', a :: tr), acc.2.insert k)) (next, seen)
      (next, seen, count + 1, bad1, bad2))
    (#[], seen, count, bad1, bad2)
  explore fix maxDials next seen count bad1 bad2

def main (args : List String) : IO Unit := do
  let maxDials := (args.head? >>= String.toNat?).getD 3
  for bg in [true, false] do
    for fix in [false, true] do
      let s0 : Sys := { bGreater := bg }
      let (n, b1, b2) := explore fix maxDials #[(s0, [])] (Std.HashSet.emptyWithCapacity.insert (key s0)) 0 none none
      IO.println s!"maxDials={maxDials} bGreater={bg} fix={fix} states={n}"
      IO.println s!"  two sessions in progress: {repr b1}"
      IO.println s!"  quiescent but busy: {repr b2}"
