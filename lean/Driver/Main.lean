import DocsModel.Model.Bytes
import DocsModel.Model.Entry
import DocsModel.Model.Spec
import DocsModel.Model.Tables
import DocsModel.Model.QuerySpec
import DocsModel.Model.Postcard
import DocsModel.Model.Heads
import DocsModel.Model.FilterText
import DocsModel.Model.Migrations
import DocsModel.Model.Ranger
import DocsModel.Model.Replica
import DocsModel.Model.Events
import DocsModel.Model.Actor
import DocsModel.Model.Rpc
import DocsModel.Model.Node
import DocsModel.Model.Codec
import DocsModel.Model.Session
import DocsModel.Model.Coord
import DocsModel.Model.Txn
import DocsModel.Model.Swarm
import DocsModel.Model.Live
/-!
Line-protocol driver: one output line per input line. The Rust harness pipes the same operation
lines it applied to the real crate and compares the two output streams.
-/

open Spec

def parseNat? (s : String) : Option Nat := s.toNat?

def parseBool? (s : String) : Option Bool :=
  if s = "1" then some true else if s = "0" then some false else none

/-- entry token: `ns,author,key,ts,len,hash,sig,nsok,auok[,fp]` (hex byte strings, `-` = empty) -/
def parseEntry? (tok : String) : Option Entry :=
  match tok.splitOn "," with
  | [ns, au, key, ts, len, hash, sig, nsok, auok, fp] => do
    pure { ns := ← Bytes.ofHex ns, author := ← Bytes.ofHex au, key := ← Bytes.ofHex key,
           ts := ← parseNat? ts, len := ← parseNat? len, hash := ← Bytes.ofHex hash,
           sig := ← parseNat? sig, nsSigOk := ← parseBool? nsok, authorSigOk := ← parseBool? auok,
           fp := ← Bytes.ofHex fp }
  | [ns, au, key, ts, len, hash, sig, nsok, auok] => do
    pure { ns := ← Bytes.ofHex ns, author := ← Bytes.ofHex au, key := ← Bytes.ofHex key,
           ts := ← parseNat? ts, len := ← parseNat? len, hash := ← Bytes.ofHex hash,
           sig := ← parseNat? sig, nsSigOk := ← parseBool? nsok, authorSigOk := ← parseBool? auok }
  | _ => none

def showBool (b : Bool) : String := if b then "1" else "0"

def showEntry (e : Entry) : String :=
  ",".intercalate [e.ns.toHex, e.author.toHex, e.key.toHex, toString e.ts, toString e.len,
    e.hash.toHex, toString e.sig, showBool e.nsSigOk, showBool e.authorSigOk] ++
    (if e.fp.isEmpty then "" else "," ++ e.fp.toHex)

def showEntries (es : List Entry) : String :=
  "entries " ++ toString es.length ++ " " ++ ";".intercalate (es.map showEntry)

structure World where
  specStores : List (Nat × Spec.Store) := []
  offered : List (Nat × List Entry) := []
  tstores : List (Nat × Tables.T) := []
  /-- `Store::open_replicas` per store -/
  openSets : List (Nat × List Bytes) := []
  /-- successful peer registrations per store, newest first: `(ns, nanos, peer)` (for the MRU specification) -/
  regs : List (Nat × List (Bytes × Nat × Bytes)) := []
  /-- capability imports per store since the document was (re-)created: `(ns, kind)` (for the C07 specification) -/
  imports : List (Nat × List (Bytes × Nat)) := []
  /-- `SyncOutcome` of the session in progress, per store -/
  outcomes : List (Nat × Replica.Outcome) := []
  /-- named snapshots of entry sets (for the join specification) -/
  snaps : List (String × List Entry) := []
  /-- replicas with subscribers (C12) and the cursor into their applied log -/
  evs : List (Nat × Events.State × Nat) := []
  /-- store actors (C14) -/
  actors : List (Nat × Actor.AState) := []
  /-- two-node coordination systems (C11) -/
  coords : List (Nat × Coord.Sys) := []
  /-- persistent stores with their transaction layer (C06) -/
  pstores : List (Nat × Txn.P) := []
  /-- swarms of replicas (C04) -/
  swarms : List (Nat × Swarm.S) := []
  /-- specification bookkeeping for C15: the policy last set per (store, document) since the
  document was (re-)created -/
  policySpec : List ((Nat × Bytes) × Tables.Policy) := []
  /-- specification bookkeeping for C14: the sync switch per (actor, open document), from the
  history of acknowledged requests: the first open sets it, further opens can only enable it,
  set-sync sets it, the last close forgets it -/
  syncSpec : List ((Nat × Bytes) × Bool) := []
  /-- subscribers of an open document according to the history of acknowledged requests -/
  subsSpec : List ((Nat × Bytes) × Nat) := []
  /-- specification bookkeeping for C14: handles per (actor, document) = opens − releases -/
  handleCounts : List ((Nat × Bytes) × Nat) := []
  /-- docs nodes seen through the client API (`Model/Node.lean`) -/
  nodes : List (Nat × DocNode.NState) := []
  /-- specification bookkeeping for a node: per (node, document) the accepted writes since the
  document was (re-)created, merged by the abstract store of C02 -/
  nodeDocs : List ((Nat × Bytes) × Spec.Store) := []
  /-- the policy last set per (node, document) since the document was (re-)created -/
  nodePolicy : List ((Nat × Bytes) × Tables.Policy) := []
  /-- acknowledged peer registrations per (node, document) since it was (re-)created, oldest first -/
  nodeRegs : List ((Nat × Bytes) × List Bytes) := []
  /-- live actors (`Model/Live.lean`) -/
  lives : List (Nat × Live.LState) := []
  /-- what the store answers to `get_sync_peers` per (live actor, document): the registrations the live
  actor made, folded by the bounded MRU step of C17 -/
  liveRegs : List ((Nat × Bytes) × List Bytes) := []
  /-- which fields of a live actor's lines are printed (the part of the handlers a property is about) -/
  liveViews : List (Nat × String) := []

namespace World

def getSpec (w : World) (sid : Nat) : Option Spec.Store := w.specStores.lookup sid
def setSpec (w : World) (sid : Nat) (s : Spec.Store) : World :=
  { w with specStores := (sid, s) :: w.specStores.filter (·.1 != sid) }
def getOffered (w : World) (sid : Nat) : List Entry := (w.offered.lookup sid).getD []
def addOffered (w : World) (sid : Nat) (e : Entry) : World :=
  { w with offered := (sid, e :: w.getOffered sid) :: w.offered.filter (·.1 != sid) }

def getT (w : World) (sid : Nat) : Option Tables.T := w.tstores.lookup sid
def setT (w : World) (sid : Nat) (t : Tables.T) : World :=
  { w with tstores := (sid, t) :: w.tstores.filter (·.1 != sid) }

end World

open Tables in
def parseKeyFilter? (s : String) : Option KeyFilter :=
  if s = "any" then some .any
  else match s.splitOn ":" with
    | ["exact", h] => (Bytes.ofHex h).map .exact
    | ["pre", h] => (Bytes.ofHex h).map .pre
    | _ => none

open Tables in
def parseAuthorFilter? (s : String) : Option AuthorFilter :=
  if s = "*" then some .any else (Bytes.ofHex s).map .exact

open Tables in
/-- `<kind> <author|*> <keyfilter> <limit|-> <offset> <incl> <desc>` -/
def parseQuery? : List String → Option Query
  | [kind, au, kf, lim, off, incl, desc] => do
    let kind ← (match kind with
      | "flat-ak" => some (QueryKind.flat .authorKey)
      | "flat-ka" => some (QueryKind.flat .keyAuthor)
      | "latest" => some QueryKind.latestPerKey
      | _ => none)
    let limit ← (if lim = "-" then some none else (parseNat? lim).map some)
    pure { kind, author := ← parseAuthorFilter? au, key := ← parseKeyFilter? kf, limit,
           offset := ← parseNat? off, includeEmpty := ← parseBool? incl, desc := ← parseBool? desc }
  | _ => none

def World.getOpen (w : World) (sid : Nat) : List Bytes := (w.openSets.lookup sid).getD []
def World.setOpen (w : World) (sid : Nat) (l : List Bytes) : World :=
  { w with openSets := (sid, l) :: w.openSets.filter (·.1 != sid) }

open Tables in
/-- policy token: `E:` / `N:` followed by comma separated `p:<hex>` / `x:<hex>` filters -/
def parsePolicy? (s : String) : Option Policy :=
  match s.splitOn ":" with
  | kind :: _ =>
    let body := (s.drop (kind.length + 1)).toString
    let fs := if body = "" then some [] else
      (body.splitOn ",").mapM (fun f =>
        match f.splitOn "=" with
        | ["p", h] => (Bytes.ofHex h).map FilterKind.pre
        | ["x", h] => (Bytes.ofHex h).map FilterKind.exact
        | _ => none)
    match kind, fs with
    | "E", some fs => some (.everythingExcept fs)
    | "N", some fs => some (.nothingExcept fs)
    | _, _ => none
  | _ => none

open Tables in
def showPolicy (p : Policy) : String :=
  let showF := fun (f : FilterKind) => match f with
    | .pre b => "p=" ++ b.toHex
    | .exact b => "x=" ++ b.toHex
  match p with
  | .everythingExcept fs => "E:" ++ ",".intercalate (fs.map showF)
  | .nothingExcept fs => "N:" ++ ",".intercalate (fs.map showF)

/-- heads token: `author=ts;author=ts` or `-` -/
def parseHeads? (s : String) : Option Heads.H :=
  if s = "-" then some [] else
  (s.splitOn ";").foldlM (fun h item =>
    match item.splitOn "=" with
    | [a, ts] => do pure (Heads.insert h (← Bytes.ofHex a) (← parseNat? ts))
    | _ => none) []

def showHeadsMap (h : Heads.H) : String :=
  if h.isEmpty then "-" else ";".intercalate (h.map fun (a, ts) => a.toHex ++ "=" ++ toString ts)

open Ranger in
def parseValues? (s : String) : Option (List (Entry × Status)) :=
  if s = "-" then some [] else
  (s.splitOn "/").mapM fun v =>
    match v.splitOn "~" with
    | [e, st] => do pure (← parseEntry? e, ← parseNat? st)
    | _ => none

open Ranger in
def parsePart? (s : String) : Option Part :=
  match s.splitOn ";" with
  | ["F", x, y, fp] => do pure (.fingerprint ⟨← Bytes.ofHex x, ← Bytes.ofHex y⟩ (← Bytes.ofHex fp))
  | ["I", x, y, hl, vs] => do
    pure (.item ⟨← Bytes.ofHex x, ← Bytes.ofHex y⟩ (← parseValues? vs) (← parseBool? hl))
  | _ => none

open Ranger in
def parseMessage? (s : String) : Option Message :=
  if s = "-" then some [] else (s.splitOn "|").mapM parsePart?

open Ranger in
def showValues (vs : List (Entry × Status)) : String :=
  if vs.isEmpty then "-" else "/".intercalate (vs.map fun (e, st) => showEntry e ++ "~" ++ toString st)

open Ranger in
def showPart : Part → String
  | .fingerprint r fp => "F;" ++ r.x.toHex ++ ";" ++ r.y.toHex ++ ";" ++ fp.toHex
  | .item r vs hl => "I;" ++ r.x.toHex ++ ";" ++ r.y.toHex ++ ";" ++ showBool hl ++ ";" ++ showValues vs

open Ranger in
def showMessage (m : Message) : String :=
  if m.isEmpty then "-" else "|".intercalate (m.map showPart)

open Ranger in
def showStep {S : Type} (st : Step S) (o : Replica.Outcome) : String :=
  "reply " ++ (match st.reply with | some m => showMessage m | none => "none") ++
  " ins " ++ showValues st.inserted ++
  " out " ++ toString o.numRecv ++ " " ++ toString o.numSent ++ " " ++ showHeadsMap o.headsReceived

def showEvent (ev : Events.Event) : String :=
  if ev.remote then
    "R~" ++ showEntry ev.entry ++ "~" ++ ev.peer.toHex ++ "~" ++ toString ev.status ++ "~" ++ showBool ev.shouldDownload
  else "L~" ++ showEntry ev.entry

def showEvents (l : List Events.Event) : String :=
  "events " ++ toString l.length ++ " " ++ ";".intercalate (l.map showEvent)

def World.getEv (w : World) (sid : Nat) : Option (Events.State × Nat) := w.evs.lookup sid
def World.setEv (w : World) (sid : Nat) (s : Events.State) (cursor : Nat) : World :=
  { w with evs := (sid, s, cursor) :: w.evs.filter (·.1 != sid) }

def showReplicaResult : Replica.InsertResult → String
  | .ok n => "inserted " ++ toString n
  | .newerEntryExists => "notinserted"
  | .failed .invalidNamespace => "err:invalid-namespace"
  | .failed .badSignature => "err:bad-signature"
  | .failed .tooFarInTheFuture => "err:future"
  | .failed .invalidEmptyEntry => "err:invalid-empty"

def World.getActor (w : World) (sid : Nat) : Option Actor.AState := w.actors.lookup sid
def World.setActor (w : World) (sid : Nat) (a : Actor.AState) : World :=
  { w with actors := (sid, a) :: w.actors.filter (·.1 != sid) }

def showReply : Actor.Reply → String
  | .ok => "ok"
  | .okBool b => "ok " ++ showBool b
  | .inserted n => "inserted " ++ toString n
  | .notInserted => "notinserted"
  | .entry (some e) => "some " ++ showEntry e
  | .entry none => "none"
  | .entries es => showEntries es
  | .message => "ok"
  | .syncReply m => "reply " ++ (match m with | some m => showMessage m | none => "none")
  | .state sync subs handles => "state " ++ showBool sync ++ " " ++ toString subs ++ " " ++ toString handles
  | .secret raw => "secret " ++ raw.toHex
  | .errNotOpen => "err:not-open"
  | .errNotFound => "err:not-found"
  | .errSyncDisabled => "err:sync-disabled"
  | .errReadOnly => "err:read-only"
  | .errNotClosed => "err:not-closed"
  | .errValidation => "err:validation"

/-- parse a client-API request (`Model/Rpc.lean`) -/
def parseApiReq? : List String → Option Rpc.Req
  | ["import", ns, kind, raw] => do pure (.importNs (← Bytes.ofHex ns) (← parseNat? kind) (← Bytes.ofHex raw))
  | ["open", ns] => do pure (.openDoc (← Bytes.ofHex ns))
  | ["close", ns] => do pure (.closeDoc (← Bytes.ofHex ns))
  | ["set", tok] => do let e ← parseEntry? tok; pure (.setHash e.ns e)
  | ["drop", ns] => do pure (.dropDoc (← Bytes.ofHex ns))
  | ["getexact", ns, au, key, incl] => do
    pure (.getExact (← Bytes.ofHex ns) (← Bytes.ofHex au) (← Bytes.ofHex key) (← parseBool? incl))
  | ["status", ns] => do pure (.status (← Bytes.ofHex ns))
  | _ => none

/-- parse an actor action: `<kind> args…` -/
def parseAction? : List String → Option Actor.Action
  | ["open", ns, sync, sub] => do pure (.openR (← Bytes.ofHex ns) (← parseBool? sync) (← parseBool? sub))
  | ["close", ns] => do pure (.close (← Bytes.ofHex ns))
  | ["setsync", ns, b] => do pure (.setSync (← Bytes.ofHex ns) (← parseBool? b))
  | ["sub", ns] => do pure (.subscribe (← Bytes.ofHex ns))
  | ["unsub", ns] => do pure (.unsubscribe (← Bytes.ofHex ns))
  | ["local", tok] => do let e ← parseEntry? tok; pure (.insertLocal e.ns e)
  | ["remote", ns, now, tok] => do pure (.insertRemote (← Bytes.ofHex ns) (← parseNat? now) (← parseEntry? tok))
  | ["getexact", ns, au, key, incl] => do
    pure (.getExact (← Bytes.ofHex ns) (← Bytes.ofHex au) (← Bytes.ofHex key) (← parseBool? incl))
  | ["getmany", ns] => do pure (.getMany (← Bytes.ofHex ns))
  | ["syncinit", ns] => do pure (.syncInitial (← Bytes.ofHex ns))
  | ["syncproc", ns, now, msg] => do pure (.syncProcess (← Bytes.ofHex ns) (← parseNat? now) (← parseMessage? msg))
  | ["state", ns] => do pure (.getState (← Bytes.ofHex ns))
  | ["drop", ns] => do pure (.dropReplica (← Bytes.ofHex ns))
  | ["import", ns, kind, raw] => do pure (.importNamespace (← Bytes.ofHex ns) (← parseNat? kind) (← Bytes.ofHex raw))
  | ["export", ns] => do pure (.exportSecret (← Bytes.ofHex ns))
  | _ => none

namespace WireTok
open Codec

def showValue (v : WEntry × Nat) : String :=
  ".".intercalate [v.1.auSig.toHex, v.1.nsSig.toHex, v.1.id.toHex, toString v.1.len, v.1.hash.toHex, toString v.1.ts, toString v.2]

def showPart : WPart → String
  | .fp x y fp => ",".intercalate ["F", x.toHex, y.toHex, fp.toHex]
  | .item x y vs hl => ",".intercalate ["I", x.toHex, y.toHex, showBool hl,
      if vs.isEmpty then "-" else "+".intercalate (vs.map showValue)]

def showMsg (m : WMsg) : String := if m.isEmpty then "-" else "|".intercalate (m.map showPart)

def showFrame : Frame → String
  | .init ns m => "init;" ++ ns.toHex ++ ";" ++ showMsg m
  | .sync m => "sync;" ++ showMsg m
  | .abort r => "abort;" ++ toString r

def parseValue? (s : String) : Option (WEntry × Nat) :=
  match s.splitOn "." with
  | [au, ns, id, len, hash, ts, st] => do
    pure ({ auSig := ← Bytes.ofHex au, nsSig := ← Bytes.ofHex ns, id := ← Bytes.ofHex id, len := ← parseNat? len,
            hash := ← Bytes.ofHex hash, ts := ← parseNat? ts }, ← parseNat? st)
  | _ => none

def parsePart? (s : String) : Option WPart :=
  match s.splitOn "," with
  | ["F", x, y, fp] => do pure (.fp (← Bytes.ofHex x) (← Bytes.ofHex y) (← Bytes.ofHex fp))
  | ["I", x, y, hl, vs] => do
    let vals ← if vs = "-" then some [] else (vs.splitOn "+").mapM parseValue?
    pure (.item (← Bytes.ofHex x) (← Bytes.ofHex y) vals (← parseBool? hl))
  | _ => none

def parseMsg? (s : String) : Option WMsg := if s = "-" then some [] else (s.splitOn "|").mapM parsePart?

def parseFrame? (s : String) : Option Frame :=
  match s.splitOn ";" with
  | ["init", ns, m] => do pure (.init (← Bytes.ofHex ns) (← parseMsg? m))
  | ["sync", m] => do pure (.sync (← parseMsg? m))
  | ["abort", r] => do pure (.abort (← parseNat? r))
  | _ => none

end WireTok

namespace SessTok
open Session

def parseItem? (s : String) : Option Item :=
  match s.splitOn "@" with
  | ["garbage"] => some .garbage
  | ["init", ns, m] => do pure (.frame (.init (← Bytes.ofHex ns) (← parseMessage? m)))
  | ["sync", m] => do pure (.frame (.sync (← parseMessage? m)))
  | ["abort", r] => do pure (.frame (.abort (← parseNat? r)))
  | _ => none

def showFrame : Frame → String
  | .init ns m => "init@" ++ ns.toHex ++ "@" ++ showMessage m
  | .sync m => "sync@" ++ showMessage m
  | .abort r => "abort@" ++ toString r

def showWritten (l : List Frame) : String :=
  toString l.length ++ ":" ++ (if l.isEmpty then "-" else "#".intercalate (l.map showFrame))

def showOutcome (o : Replica.Outcome) : String :=
  toString o.numRecv ++ "/" ++ toString o.numSent

def parseAccept? (s : String) : Option Accept :=
  if s = "allow" then some .allow
  else match s.splitOn ":" with
    | ["reject", r] => (parseNat? r).map .reject
    | _ => none

def parseEnd? (s : String) : Option StreamEnd :=
  if s = "eof" then some .eof else if s = "trunc" then some .truncated else none

end SessTok

namespace CoordTok
open Coord

def parseAction? : List String → Option Action
  | ["dial", n, r] => do pure (.dial (← parseBool? n) (← parseBool? r))
  | ["deliver", n] => do pure (.deliverReq (← parseBool? n))
  | ["lose", n] => do pure (.loseReq (← parseBool? n))
  | ["cc", n, i] => do pure (.completeConnect (← parseBool? n) (← parseNat? i))
  | ["ca", n, sid] => do pure (.completeAccept (← parseBool? n) (← parseNat? sid))
  | ["cd", n] => do pure (.completeDeclined (← parseBool? n))
  | _ => none

def showNode (x : Node) : String :=
  (if x.syncing then (match x.st with | .idle => "0" | .conn => "1" | .acc => "2") ++ "," ++ showBool x.resync else "-") ++
  "," ++ toString x.dialsMade

def showSys (s : Sys) : String :=
  "a=" ++ showNode s.a ++ " b=" ++ showNode s.b ++ " sessions=" ++ toString s.sessions.length

end CoordTok

def parseTxnOp? : List String → Option Txn.Op
  | ["put", tok] => (parseEntry? tok).map .put
  | ["importns", ns, kind, raw] => do pure (.importNs (← Bytes.ofHex ns) (← parseNat? kind) (← Bytes.ofHex raw))
  | ["remove", ns] => do pure (.remove (← Bytes.ofHex ns))
  | ["peer", ns, nanos, peer] => do pure (.peer (← Bytes.ofHex ns) (← parseNat? nanos) (← Bytes.ofHex peer))
  | ["policy", ns, pol] => do pure (.policy (← Bytes.ofHex ns) (← parsePolicy? pol))
  | ["flush"] => some .flush
  | ["readtables"] => some .readTables
  | ["readowned"] => some .readSnapshotOwned
  | ["readsnap"] => some .readSnapshot
  | _ => none

def showInsertResult : Tables.InsertResult → String
  | .inserted n => "inserted " ++ toString n
  | .notInserted => "notinserted"
  | .notFound => "err:not-found"
  | .readOnly => "err:read-only"

def showHeads (hs : List (Bytes × Nat × Bytes)) : String :=
  "heads " ++ toString hs.length ++ " " ++
    ";".intercalate (hs.map fun (a, ts, k) => a.toHex ++ ":" ++ toString ts ++ ":" ++ k.toHex)

/-- sort a list of entries by id (insertion sort through `insertSorted`; ids are unique in a join
under `PayloadFunctional`, duplicates by id would be collapsed — the harness flags those cases) -/
def sortById (es : List Entry) : List Entry := es.foldl (fun acc e => insertSorted e acc) []

/-- an entry reaches replica `i` of swarm `sid` through `insert_remote_entry` -/
def swarmDeliver (w : World) (short : Bool) (sid i ns now tok : String) : World × String :=
  match parseNat? sid, parseNat? i, Bytes.ofHex ns, parseNat? now, parseEntry? tok with
  | some sid, some i, some ns, some now, some e =>
    match w.swarms.lookup sid with
    | some s =>
      if !(Swarm.written s).contains e then (w, "foreign-entry")
      else if !Replica.validateEmpty e then (w, "err:invalid-empty")
      else match Replica.validateEntry now ns e with
        | some .invalidNamespace => (w, "err:invalid-namespace")
        | some .badSignature => (w, "err:bad-signature")
        | some .tooFarInTheFuture => (w, "err:future")
        | some .invalidEmptyEntry => (w, "err:invalid-empty")
        | none =>
          let out := (Spec.put (s.st i) e).2
          let s' := Swarm.step s (.deliver i e true)
          ({ w with swarms := (sid, s') :: w.swarms.filter (·.1 != sid) },
            match out with
            | .notInserted => "notinserted"
            | .inserted n => if short then "inserted" else "inserted " ++ toString n)
    | none => (w, "no-store")
  | _, _, _, _, _ => (w, "bad-op")


/-! ## the docs node (`Model/Node.lean`) -/

def parseNodeReq? : List String → Option DocNode.Req
  | ["create", ns, raw] => do pure (.create (← Bytes.ofHex ns) (← Bytes.ofHex raw))
  | ["import", ns, kind, raw] => do pure (.importNs (← Bytes.ofHex ns) (← parseNat? kind) (← Bytes.ofHex raw))
  | ["open", ns] => do pure (.openDoc (← Bytes.ofHex ns))
  | ["close", ns] => do pure (.closeDoc (← Bytes.ofHex ns))
  | ["status", ns] => do pure (.status (← Bytes.ofHex ns))
  | ["drop", ns] => do pure (.dropDoc (← Bytes.ofHex ns))
  | ["set", tok] => do let e ← parseEntry? tok; pure (.setHash e.ns e)
  | ["insert", tok] => do let e ← parseEntry? tok; pure (.insertDoc e.ns e)
  | ["getexact", ns, au, key, incl] => do
    pure (.getExact (← Bytes.ofHex ns) (← Bytes.ofHex au) (← Bytes.ofHex key) (← parseBool? incl))
  | "getmany" :: ns :: q => do pure (.getMany (← Bytes.ofHex ns) (← parseQuery? q))
  | ["setpolicy", ns, pol] => do pure (.setPolicy (← Bytes.ofHex ns) (← parsePolicy? pol))
  | ["getpolicy", ns] => do pure (.getPolicy (← Bytes.ofHex ns))
  | ["peers", ns] => do pure (.getSyncPeers (← Bytes.ofHex ns))
  | ["regpeer", ns, nanos, peer] => do pure (.registerPeer (← Bytes.ofHex ns) (← parseNat? nanos) (← Bytes.ofHex peer))
  | ["startsync", ns] => do pure (.startSync (← Bytes.ofHex ns))
  | ["leave", ns] => do pure (.leave (← Bytes.ofHex ns))
  | ["share", ns, w] => do pure (.share (← Bytes.ofHex ns) (← parseBool? w))
  | ["subscribe", ns] => do pure (.subscribe (← Bytes.ofHex ns))
  | ["aimport", a, raw] => do pure (.authorImport (← Bytes.ofHex a) (← Bytes.ofHex raw))
  | ["aexport", a] => do pure (.authorExport (← Bytes.ofHex a))
  | ["adelete", a] => do pure (.authorDelete (← Bytes.ofHex a))
  | ["alist"] => some .authorList
  | ["adefault"] => some .authorDefault
  | ["asetdefault", a] => do pure (.authorSetDefault (← Bytes.ofHex a))
  | ["hashes"] => some .contentHashes
  | ["list"] => some .listDocs
  | _ => none

def sortHex (l : List Bytes) : List String :=
  ((l.map (·.toHex)).toArray.qsort (fun a b => a < b)).toList.eraseDups

def showNodeReply (quiet : Bool) : DocNode.Reply → String
  | .act r => (match quiet, r with | true, .inserted _ => "inserted" | _, r => showReply r)
  | .wrote r subs =>
    (match quiet, r with | true, .inserted _ => "inserted" | _, r => showReply r) ++
      " events=" ++ ",".intercalate (subs.map toString)
  | .policy p => "policy " ++ showPolicy p
  | .peers none => "peers none"
  | .peers (some l) => "peers " ++ ",".intercalate (l.map (·.toHex))
  | .author none => "author none"
  | .author (some raw) => "author " ++ raw.toHex
  | .authors l => "authors " ++ ",".intercalate (l.map (·.toHex))
  | .authorId a => "id " ++ a.toHex
  | .hashes l => "hashes " ++ ",".intercalate (sortHex l)
  | .docs l => "namespaces " ++ ";".intercalate (l.map fun (ns, k) => ns.toHex ++ "=" ++ toString k)
  | .ticket kind raw => "ticket " ++ toString kind ++ " " ++ raw.toHex
  | .subscribed id => "subscribed " ++ toString id
  | .errAuthorNotFound => "err:author-not-found"
  | .errEntryIsEmpty => "err:entry-is-empty"
  | .errDefaultAuthor => "err:default-author"
  | .errNoDocument => "err:no-document"

namespace LiveTok
open Live

def parseBytesList? (s : String) : Option (List Bytes) :=
  if s = "-" then some [] else (s.splitOn ",").mapM Bytes.ofHex

def parseIn? : List String → Option In
  | ["start", ns, okk, known] => do pure (.startSync (← Bytes.ofHex ns) (← parseBool? okk) (← parseBytesList? known))
  | ["leave", ns, kill, okk] => do pure (.leave (← Bytes.ofHex ns) (← parseBool? kill) (← parseBool? okk))
  | ["sub", ns, c] => do pure (.subscribe (← Bytes.ofHex ns) (← parseNat? c))
  | ["dropchan", c] => do pure (.dropChan (← parseNat? c))
  | ["nup", ns, p] => do pure (.neighborUp (← Bytes.ofHex ns) (← Bytes.ofHex p))
  | ["ndown", ns, p] => do pure (.neighborDown (← Bytes.ofHex ns) (← Bytes.ofHex p))
  | ["local", ns, e] => do pure (.localInsert (← Bytes.ofHex ns) (← Bytes.ofHex e))
  | ["remote", ns, h, f, fv, sd, st, bc] => do
    pure (.remoteInsert (← Bytes.ofHex ns) (← Bytes.ofHex h) (← Bytes.ofHex f) (← parseBool? fv) (← parseBool? sd)
      (← parseNat? st) (← parseBool? bc))
  | ["dlready", ns, h, okk] => do pure (.downloadReady (← Bytes.ofHex ns) (← Bytes.ofHex h) (← parseBool? okk))
  | ["cready", ns, node, h, bc] => do
    pure (.contentReady (← Bytes.ofHex ns) (← Bytes.ofHex node) (← Bytes.ofHex h) (← parseBool? bc))
  | ["report", f, ns, heads, ours] => do
    pure (.syncReport (← Bytes.ofHex f) (← Bytes.ofHex ns) (← Bytes.ofHex heads) (← parseHeads? ours))
  | ["accept", ns, p] => do pure (.acceptRequest (← Bytes.ofHex ns) (← Bytes.ofHex p))
  | ["dial", ns, p, r] => do pure (.dialRequest (← Bytes.ofHex ns) (← Bytes.ofHex p) (← parseNat? r))
  | ["cfin", ns, p, r, "ok", recv, sent, heads] => do
    pure (.connectFinished (← Bytes.ofHex ns) (← Bytes.ofHex p) (← parseNat? r)
      (.ok (← parseNat? recv) (← parseNat? sent) (← parseHeads? heads)))
  | ["cfin", ns, p, r, "already"] => do
    pure (.connectFinished (← Bytes.ofHex ns) (← Bytes.ofHex p) (← parseNat? r) .abortAlready)
  | ["cfin", ns, p, r, "err"] => do
    pure (.connectFinished (← Bytes.ofHex ns) (← Bytes.ofHex p) (← parseNat? r) .err)
  | ["afin", "ok", ns, p, recv, sent, heads] => do
    pure (.acceptFinished (.ok (← Bytes.ofHex ns) (← Bytes.ofHex p) (← parseNat? recv) (← parseNat? sent) (← parseHeads? heads)))
  | ["afin", "already"] => some (.acceptFinished .abortAlready)
  | ["afin", "named", ns, p] => do pure (.acceptFinished (.errNamed (← Bytes.ofHex ns) (← Bytes.ofHex p)))
  | ["afin", "unnamed"] => some (.acceptFinished .errUnnamed)
  | _ => none

def showEv : Ev → String
  | .contentReady h => "content-ready:" ++ h.toHex
  | .neighborUp p => "neighbor-up:" ++ p.toHex
  | .neighborDown p => "neighbor-down:" ++ p.toHex
  | .syncFinished p o r => "sync-finished:" ++ p.toHex ++ ":" ++ toString o ++ ":" ++
      (match r with | some (a, b) => "ok:" ++ toString a ++ ":" ++ toString b | none => "failed")
  | .pendingContentReady => "pending-content-ready"

def insSorted (x : String) : List String → List String
  | [] => [x]
  | y :: ys => if x < y then x :: y :: ys else y :: insSorted x ys
def sortStrings (l : List String) : List String := l.foldr insSorted []

def joinOr (l : List String) : String := if l.isEmpty then "-" else ",".intercalate l

/-- the fields a view shows: `all`, or the part of the handlers one property is about -/
def inView (view field : String) : Bool :=
  match view with
  | "C04" => ["bcasts", "events", "reply", "docs", "topics"].contains field
  | "C15" => ["downloads", "byhash", "byns", "missing", "providers", "docs"].contains field
  | "C11" => ["dials", "reply", "slots", "docs"].contains field
  | "C17" => ["peers", "reply"].contains field
  | _ => true

/-- the outputs of one step, per kind (the order across kinds is not observable) -/
def showOuts (view : String) (outs : List Out) : String :=
  let dials := outs.filterMap fun | .dial ns p r => some (ns.toHex ++ ":" ++ p.toHex ++ ":" ++ toString r) | _ => none
  let bcasts := outs.filterMap fun | .broadcast ns nb pl => some (ns.toHex ++ ":" ++ showBool nb ++ ":" ++ pl.toHex) | _ => none
  let dls := outs.filterMap fun | .download ns h n => some (ns.toHex ++ ":" ++ h.toHex ++ ":" ++ n.toHex) | _ => none
  let chans := ((outs.filterMap fun | .event c _ => some c | _ => none).eraseDups)
  let evs := sortStrings (chans.map fun c =>
    toString c ++ "=" ++ "+".intercalate (outs.filterMap fun | .event c' ev => if c' = c then some (showEv ev) else none | _ => none))
  let rep := outs.filterMap fun | .reply b => some ("reply:" ++ showBool b) | .acceptOutcome c => some ("accept:" ++ toString c) | _ => none
  " ".intercalate (
    (if inView view "dials" then ["dials=" ++ joinOr dials] else []) ++
    (if inView view "bcasts" then ["bcasts=" ++ joinOr bcasts] else []) ++
    (if inView view "downloads" then ["downloads=" ++ joinOr dls] else []) ++
    (if inView view "events" then ["events=" ++ joinOr evs] else []) ++
    (if inView view "reply" then [joinOr rep] else []))

def showSt : Coord.St → String | .idle => "0" | .conn => "1" | .acc => "2"

/-- the state as the hook's snapshots show it; `watch` = the (document, peer) slots to print -/
def showState (view : String) (s : LState) (watch : List (Bytes × Bytes)) : String :=
  let docs := sortStrings (s.docs.map fun d => d.ns.toHex ++ ":" ++ showBool d.mayEmit)
  let topics := sortStrings (s.topics.map (·.toHex))
  let bh := sortStrings (s.byHash.map fun (h, ns) => h.toHex ++ ":" ++ "+".intercalate (sortStrings (ns.map (·.toHex))))
  let bn := sortStrings (s.byNs.map fun (n, hs) => n.toHex ++ ":" ++ "+".intercalate (sortStrings (hs.map (·.toHex))))
  let missing := sortStrings (s.missing.map (·.toHex))
  let prov := sortStrings (s.providers.map fun (h, n) => h.toHex ++ ":" ++ n.toHex)
  let slots := watch.map fun (ns, p) => match s.slot? ns p with
    | some (st, r) => showSt st ++ showBool r
    | none => "--"
  " ".intercalate (
    (if inView view "docs" then ["docs=" ++ joinOr docs] else []) ++
    (if inView view "topics" then ["topics=" ++ joinOr topics] else []) ++
    (if inView view "byhash" then ["byhash=" ++ joinOr bh] else []) ++
    (if inView view "byns" then ["byns=" ++ joinOr bn] else []) ++
    (if inView view "missing" then ["missing=" ++ joinOr missing] else []) ++
    (if inView view "providers" then ["providers=" ++ joinOr prov] else []) ++
    (if inView view "slots" then ["slots=" ++ joinOr slots] else []))

end LiveTok

/-- the live actor (`Model/Live.lean`) -/
def stepLive (w : World) : List String → Option (World × String)
  | ["lnew", sid, maxmsg, smaller, view] => do
    let sid ← parseNat? sid
    let st : Live.LState := { maxMessageSize := ← parseNat? maxmsg, smallerPeers := ← LiveTok.parseBytesList? smaller }
    pure ({ w with lives := (sid, st) :: w.lives.filter (·.1 != sid),
                   liveRegs := w.liveRegs.filter (·.1.1 != sid),
                   liveViews := (sid, view) :: w.liveViews.filter (·.1 != sid) }, "ok")
  | "lstep" :: sid :: rest => do
    let sid ← parseNat? sid
    let i ← LiveTok.parseIn? rest
    match w.lives.lookup sid with
    | none => pure (w, "no-store")
    | some s =>
      let (s', outs) := Live.step s i
      -- `register_useful_peer` reaches the store: the bounded MRU list of C17
      let regs := outs.foldl (fun (regs : List ((Nat × Bytes) × List Bytes)) o => match o with
        | .register ns p =>
          let cur := (regs.lookup (sid, ns)).getD []
          ((sid, ns), Tables.mruStep cur p) :: regs.filter (·.1 != (sid, ns))
        | _ => regs) w.liveRegs
      pure ({ w with lives := (sid, s') :: w.lives.filter (·.1 != sid), liveRegs := regs }, LiveTok.showOuts ((w.liveViews.lookup sid).getD "all") outs)
  | "lstate" :: sid :: watch => do
    let sid ← parseNat? sid
    let watch ← watch.mapM fun t => match t.splitOn ":" with
      | [ns, p] => do pure (← Bytes.ofHex ns, ← Bytes.ofHex p)
      | _ => none
    match w.lives.lookup sid with
    | none => pure (w, "no-store")
    | some s => pure (w, LiveTok.showState ((w.liveViews.lookup sid).getD "all") s watch)
  | ["lpeers", sid, ns] => do
    let sid ← parseNat? sid
    let ns ← Bytes.ofHex ns
    pure (w, if LiveTok.inView ((w.liveViews.lookup sid).getD "all") "peers"
      then "peers " ++ LiveTok.joinOr (((w.liveRegs.lookup (sid, ns)).getD []).map (·.toHex)) else "peers")
  | _ => none

/-- requests to a node, and the specification lines about it. The bookkeeping for the
specification follows the acknowledged requests only, never the model's state. -/
def stepNode (w : World) : List String → Option (World × String)
  | ["nnew", sid, a, raw] => do
    let sid ← parseNat? sid
    pure ({ w with nodes := (sid, DocNode.init (← Bytes.ofHex a) (← Bytes.ofHex raw)) :: w.nodes.filter (·.1 != sid) }, "ok")
  | "node" :: sid :: rest => do
    let sid ← parseNat? sid
    let quiet := rest.head? == some "setq" || rest.head? == some "insertq"
    let rest := match rest with | "setq" :: r => "set" :: r | "insertq" :: r => "insert" :: r | r => r
    let req ← parseNodeReq? rest
    match w.nodes.lookup sid with
    | none => pure (w, "no-store")
    | some st =>
      let (st', out) := DocNode.step st req
      -- a write refused before it reaches the replica announces nothing either
      let shown := match req, out with
        | .setHash _ _, .errAuthorNotFound => "err:author-not-found events="
        | .insertDoc _ _, .errAuthorNotFound => "err:author-not-found events="
        | .insertDoc _ _, .errEntryIsEmpty => "err:entry-is-empty events="
        | _, out => showNodeReply quiet out
      pure ({ w with nodes := (sid, st') :: w.nodes.filter (·.1 != sid) }, shown)
  -- history for the specification: an acknowledged write / policy / registration / (re-)creation / removal
  | ["nhist", sid, "wrote", tok] => do
    let sid ← parseNat? sid
    let e ← parseEntry? tok
    let st := (w.nodeDocs.lookup (sid, e.ns)).getD []
    pure ({ w with nodeDocs := ((sid, e.ns), (Spec.put st e).1) :: w.nodeDocs.filter (·.1 != (sid, e.ns)) }, "ok")
  | ["nhist", sid, "policy", ns, pol] => do
    let sid ← parseNat? sid
    let ns ← Bytes.ofHex ns
    let pol ← parsePolicy? pol
    pure ({ w with nodePolicy := ((sid, ns), pol) :: w.nodePolicy.filter (·.1 != (sid, ns)) }, "ok")
  | ["nhist", sid, "peer", ns, peer] => do
    let sid ← parseNat? sid
    let ns ← Bytes.ofHex ns
    let peer ← Bytes.ofHex peer
    let l := (w.nodeRegs.lookup (sid, ns)).getD []
    pure ({ w with nodeRegs := ((sid, ns), l ++ [peer]) :: w.nodeRegs.filter (·.1 != (sid, ns)) }, "ok")
  | ["nhist", sid, "imported", ns, kind] => do
    let sid ← parseNat? sid
    let ns ← Bytes.ofHex ns
    let kind ← parseNat? kind
    let hist := (w.imports.lookup (1000 + sid)).getD []
    pure ({ w with imports := (1000 + sid, (ns, kind) :: hist) :: w.imports.filter (·.1 != 1000 + sid) }, "ok")
  -- C15 / C17: setting a policy and registering a peer succeed exactly for a document that exists
  -- (imported or created and not removed since)
  | ["nsknown", sid, ns] => do
    let sid ← parseNat? sid
    let ns ← Bytes.ofHex ns
    let hist := (w.imports.lookup (1000 + sid)).getD []
    pure (w, if hist.any (·.1 == ns) then "ok" else "err:no-document")
  | ["nslist", sid] => do
    let sid ← parseNat? sid
    let hist := (w.imports.lookup (1000 + sid)).getD []
    let docs := (hist.map (·.1)).eraseDups
    let sorted := docs.toArray.qsort (fun a b => decide (a < b)) |>.toList
    pure (w, "namespaces " ++ ";".intercalate (sorted.map fun ns =>
      ns.toHex ++ "=" ++ (if hist.any (fun h => h.1 == ns && h.2 == 1) then "1" else "2")))
  | ["nhist", sid, "dropped", ns] => do
    let sid ← parseNat? sid
    let ns ← Bytes.ofHex ns
    pure ({ w with imports := (1000 + sid, ((w.imports.lookup (1000 + sid)).getD []).filter (·.1 != ns)) :: w.imports.filter (·.1 != 1000 + sid)
                   nodeDocs := w.nodeDocs.filter (·.1 != (sid, ns))
                   nodePolicy := w.nodePolicy.filter (·.1 != (sid, ns))
                   nodeRegs := w.nodeRegs.filter (·.1 != (sid, ns)) }, "ok")
  -- C05 at the client API: the query specification over the merge of the acknowledged writes
  | "nsquery" :: sid :: ns :: q => do
    let sid ← parseNat? sid
    let ns ← Bytes.ofHex ns
    let q ← parseQuery? q
    pure (w, showEntries (QuerySpec.spec ((w.nodeDocs.lookup (sid, ns)).getD []) ns q))
  | ["nsexact", sid, ns, au, key, incl] => do
    let sid ← parseNat? sid
    let ns ← Bytes.ofHex ns
    let au ← Bytes.ofHex au
    let key ← Bytes.ofHex key
    let incl ← parseBool? incl
    let hit := ((w.nodeDocs.lookup (sid, ns)).getD []).find? (fun e => e.author == au && e.key == key && (incl || !e.isEmpty))
    pure (w, match hit with | some e => "some " ++ showEntry e | none => "none")
  -- C15: the policy set last, or the default
  | ["nspolicy", sid, ns] => do
    let sid ← parseNat? sid
    let ns ← Bytes.ofHex ns
    pure (w, "policy " ++ showPolicy ((w.nodePolicy.lookup (sid, ns)).getD Tables.Policy.default))
  -- C17: the five most recently registered distinct peers, most recent first
  | ["nspeers", sid, ns] => do
    let sid ← parseNat? sid
    let ns ← Bytes.ofHex ns
    let l := Tables.mruSpec [] ((w.nodeRegs.lookup (sid, ns)).getD [])
    pure (w, if l.isEmpty then "peers none" else "peers " ++ ",".intercalate (l.map (·.toHex)))
  -- C16: the protected content hashes are those of the entries held in any document of the node
  | ["nshashes", sid] => do
    let sid ← parseNat? sid
    let es := (w.nodeDocs.filter (·.1.1 == sid)).flatMap (·.2)
    pure (w, "hashes " ++ ",".intercalate (sortHex (es.map (·.hash))))
  -- an expectation stated by the harness itself (a check that needs no model)
  | ["expect", x] => some (w, x)
  | _ => none

def step (w : World) (line : String) : World × String :=
  let toks := (line.trimAscii.toString.splitOn " ").filter (· ≠ "")
  match stepNode w toks with
  | some r => r
  | none =>
  match stepLive w toks with
  | some r => r
  | none =>
  match toks with
  | [] => (w, "")
  | "#" :: _ => (w, line)
  | ["reset"] => ({}, "ok")
  | ["new", sid] =>
    match parseNat? sid with
    | some sid => ((w.setSpec sid []), "ok")
    | none => (w, "bad-op")
  -- Spec.put on store sid; the entry is recorded as offered
  | ["put", sid, tok] =>
    match parseNat? sid, parseEntry? tok with
    | some sid, some e =>
      match w.getSpec sid with
      | some s =>
        let (s', out) := Spec.put s e
        let w := (w.setSpec sid s').addOffered sid e
        match out with
        | .notInserted => (w, "notinserted")
        | .inserted n => (w, "inserted " ++ toString n)
      | none => (w, "no-store")
    | _, _ => (w, "bad-op")
  -- an entry written somewhere in a swarm: recorded as offered (for `join`), applied nowhere
  | ["soffer", sid, tok] =>
    match parseNat? sid, parseEntry? tok with
    | some sid, some e => (w.addOffered sid e, "ok")
    | _, _ => (w, "bad-op")
  -- `Replica::insert`: the emptiness guard, then `put` (a refused write was never offered)
  | ["insertlocal", sid, tok] =>
    match parseNat? sid, parseEntry? tok with
    | some sid, some e =>
      if Replica.insertGuard e then (w, "err:entry-is-empty") else
      match w.getSpec sid with
      | some s =>
        let (s', out) := Spec.put s e
        let w := (w.setSpec sid s').addOffered sid e
        match out with
        | .notInserted => (w, "notinserted")
        | .inserted n => (w, "inserted " ++ toString n)
      | none => (w, "no-store")
    | _, _ => (w, "bad-op")
  -- `put` through a caller that does not learn the number of removed entries (`hash_and_insert`)
  | ["putq", sid, tok] =>
    match parseNat? sid, parseEntry? tok with
    | some sid, some e =>
      match w.getSpec sid with
      | some s =>
        let (s', out) := Spec.put s e
        let w := (w.setSpec sid s').addOffered sid e
        match out with
        | .notInserted => (w, "notinserted")
        | .inserted _ => (w, "inserted")
      | none => (w, "no-store")
    | _, _ => (w, "bad-op")
  | ["dump", sid] =>
    match parseNat? sid with
    | some sid =>
      match w.getSpec sid with
      | some s => (w, showEntries s)
      | none => (w, "no-store")
    | none => (w, "bad-op")
  | ["getexact", sid, ns, au, key, incl] =>
    match parseNat? sid, Bytes.ofHex ns, Bytes.ofHex au, Bytes.ofHex key, parseBool? incl with
    | some sid, some ns, some au, some key, some incl =>
      match w.getSpec sid with
      | some s =>
        match s.find? (fun e => e.ns == ns && e.author == au && e.key == key) with
        | some e => if incl || !e.isEmpty then (w, "some " ++ showEntry e) else (w, "none")
        | none => (w, "none")
      | none => (w, "no-store")
    | _, _, _, _, _ => (w, "bad-op")
  -- the oracle: the merge of everything offered to store sid
  | ["join", sid] =>
    match parseNat? sid with
    | some sid => (w, showEntries (sortById (Spec.join (w.getOffered sid))))
    | none => (w, "bad-op")
  -- ---- table level (Tables.lean) ----
  | ["tnew", sid] =>
    match parseNat? sid with
    | some sid => (w.setT sid {}, "ok")
    | none => (w, "bad-op")
  | ["tns", sid, ns, kind, raw] =>
    match parseNat? sid, Bytes.ofHex ns, parseNat? kind, Bytes.ofHex raw with
    | some sid, some ns, some kind, some raw =>
      match w.getT sid with
      | some t =>
        let (t', out) := Tables.importNamespace t ns kind raw
        let oldImports := (w.imports.lookup sid).getD []
        let w := { w with imports := (sid, (ns, kind) :: oldImports) :: w.imports.filter (·.1 != sid) }
        (w.setT sid t', match out with | .inserted => "inserted" | .upgraded => "upgraded" | .noChange => "nochange")
      | none => (w, "no-store")
    | _, _, _, _ => (w, "bad-op")
  -- the same through a caller that only learns whether the import succeeded
  | ["tnsq", sid, ns, kind, raw] =>
    match parseNat? sid, Bytes.ofHex ns, parseNat? kind, Bytes.ofHex raw with
    | some sid, some ns, some kind, some raw =>
      match w.getT sid with
      | some t =>
        let oldImports := (w.imports.lookup sid).getD []
        let w := { w with imports := (sid, (ns, kind) :: oldImports) :: w.imports.filter (·.1 != sid) }
        (w.setT sid (Tables.importNamespace t ns kind raw).1, "ok")
      | none => (w, "no-store")
    | _, _, _, _ => (w, "bad-op")
  | ["tput", sid, tok] =>
    match parseNat? sid, parseEntry? tok with
    | some sid, some e =>
      match w.getT sid with
      | some t =>
        let (t', out) := Tables.put t e
        (w.setT sid t', match out with | .notInserted => "notinserted" | .inserted n => "inserted " ++ toString n)
      | none => (w, "no-store")
    | _, _ => (w, "bad-op")
  | "tquery" :: sid :: ns :: rest =>
    match parseNat? sid, Bytes.ofHex ns, parseQuery? rest with
    | some sid, some ns, some q =>
      match w.getT sid with
      | some t => (w, showEntries (Tables.query t ns q))
      | none => (w, "no-store")
    | _, _, _ => (w, "bad-op")
  -- the specification of a query, evaluated on the entries currently in the records table
  | "squery" :: sid :: ns :: rest =>
    match parseNat? sid, Bytes.ofHex ns, parseQuery? rest with
    | some sid, some ns, some q =>
      match w.getT sid with
      | some t => (w, showEntries (QuerySpec.spec t.records ns q))
      | none => (w, "no-store")
    | _, _, _ => (w, "bad-op")
  | ["tgetexact", sid, ns, au, key, incl] =>
    match parseNat? sid, Bytes.ofHex ns, Bytes.ofHex au, Bytes.ofHex key, parseBool? incl with
    | some sid, some ns, some au, some key, some incl =>
      match w.getT sid with
      | some t =>
        match Tables.getExact t.records ns au key incl with
        | some e => (w, "some " ++ showEntry e)
        | none => (w, "none")
      | none => (w, "no-store")
    | _, _, _, _, _ => (w, "bad-op")
  | ["theads", sid, ns] =>
    match parseNat? sid, Bytes.ofHex ns with
    | some sid, some ns =>
      match w.getT sid with
      | some t => (w, showHeads (Tables.latestForEachAuthor t ns))
      | none => (w, "no-store")
    | _, _ => (w, "bad-op")
  -- remote insert through `Store::open_replica` + `insert_remote_entry`
  | ["tputns", sid, tok] =>
    match parseNat? sid, parseEntry? tok with
    | some sid, some e =>
      match w.getT sid with
      | some t =>
        let (t', out) := Tables.remotePut t e
        (w.setT sid t', showInsertResult out)
      | none => (w, "no-store")
    | _, _ => (w, "bad-op")
  -- local insert / delete: needs the write capability (kind 1)
  | ["tlocal", sid, tok] =>
    match parseNat? sid, parseEntry? tok with
    | some sid, some e =>
      match w.getT sid with
      | some t =>
        let (t', out) := Tables.localPut t e
        (w.setT sid t', showInsertResult out)
      | none => (w, "no-store")
    | _, _ => (w, "bad-op")
  -- `tlocal` through a caller that does not learn the number of removed entries
  | ["tlocalq", sid, tok] =>
    match parseNat? sid, parseEntry? tok with
    | some sid, some e =>
      match w.getT sid with
      | some t =>
        let (t', out) := Tables.localPut t e
        (w.setT sid t', match out with | .inserted _ => "inserted" | o => showInsertResult o)
      | none => (w, "no-store")
    | _, _ => (w, "bad-op")
  -- `Replica::insert` on the tables: the emptiness guard, then as `tlocal`
  | ["tinsert", sid, tok] =>
    match parseNat? sid, parseEntry? tok with
    | some sid, some e =>
      if Replica.insertGuard e then (w, "err:entry-is-empty") else
      match w.getT sid with
      | some t =>
        let (t', out) := Tables.localPut t e
        (w.setT sid t', showInsertResult out)
      | none => (w, "no-store")
    | _, _ => (w, "bad-op")
  -- specification of capabilities: a document is writable iff a write capability was ever imported
  | ["scaps", sid] =>
    match parseNat? sid with
    | some sid =>
      let hist := (w.imports.lookup sid).getD []
      let docs := (hist.map (·.1)).eraseDups
      let sorted := docs.toArray.qsort (fun a b => decide (a < b)) |>.toList
      (w, "namespaces " ++ ";".intercalate (sorted.map fun ns =>
        ns.toHex ++ "=" ++ (if hist.any (fun h => h.1 == ns && h.2 == 1) then "1" else "2")))
    | none => (w, "bad-op")
  | ["swritable", sid, ns] =>
    match parseNat? sid, Bytes.ofHex ns with
    | some sid, some ns =>
      let hist := ((w.imports.lookup sid).getD []).filter (·.1 == ns)
      (w, if hist.isEmpty then "none" else if hist.any (·.2 == 1) then "1" else "0")
    | _, _ => (w, "bad-op")
  -- ---- reconciliation (Ranger.lean, Replica.lean) ----
  | ["tinit", sid, ns] =>
    match parseNat? sid, Bytes.ofHex ns with
    | some sid, some ns =>
      match w.getT sid with
      | some t => (w, "msg " ++ showMessage (Ranger.initialMessage (Ranger.tableOps ns) t))
      | none => (w, "no-store")
    | _, _ => (w, "bad-op")
  | ["oreset", sid] =>
    match parseNat? sid with
    | some sid => ({ w with outcomes := w.outcomes.filter (·.1 != sid) }, "ok")
    | none => (w, "bad-op")
  -- `Replica::sync_process_message` on the tables of store sid
  | ["tproc", sid, ns, now, maxSet, split, msg] =>
    match parseNat? sid, Bytes.ofHex ns, parseNat? now, parseNat? maxSet, parseNat? split, parseMessage? msg with
    | some sid, some ns, some now, some maxSet, some split, some msg =>
      match w.getT sid with
      | some t =>
        let o := (w.outcomes.lookup sid).getD {}
        let (st, o') := Replica.syncProcessMessage { maxSetSize := maxSet, splitFactor := split } t ns now msg o
        let w := { w.setT sid st.store with outcomes := (sid, o') :: w.outcomes.filter (·.1 != sid) }
        (w, showStep st o')
      | none => (w, "no-store")
    | _, _, _, _, _, _ => (w, "bad-op")
  -- the same without counters (for comparison with backends that keep none)
  | ["tprocplain", sid, ns, now, maxSet, split, msg] =>
    match parseNat? sid, Bytes.ofHex ns, parseNat? now, parseNat? maxSet, parseNat? split, parseMessage? msg with
    | some sid, some ns, some now, some maxSet, some split, some msg =>
      match w.getT sid with
      | some t =>
        let st := Ranger.processMessage (Ranger.tableOps ns) { maxSetSize := maxSet, splitFactor := split }
          (Replica.syncValidate now ns) (fun _ => 2) t msg
        (w.setT sid st.store, "reply " ++ (match st.reply with | some m => showMessage m | none => "none") ++
          " ins " ++ showValues st.inserted)
      | none => (w, "no-store")
    | _, _, _, _, _, _ => (w, "bad-op")
  -- `Replica::insert_remote_entry` with validation
  | ["tremote", sid, ns, now, tok] =>
    match parseNat? sid, Bytes.ofHex ns, parseNat? now, parseEntry? tok with
    | some sid, some ns, some now, some e =>
      match w.getT sid with
      | some t =>
        let (t', r) := Replica.insertRemoteEntry t ns now e
        (w.setT sid t', match r with
          | .ok n => "inserted " ++ toString n
          | .newerEntryExists => "notinserted"
          | .failed .invalidNamespace => "err:invalid-namespace"
          | .failed .badSignature => "err:bad-signature"
          | .failed .tooFarInTheFuture => "err:future"
          | .failed .invalidEmptyEntry => "err:invalid-empty")
      | none => (w, "no-store")
    | _, _, _, _ => (w, "bad-op")
  -- the same protocol on the reference ordered map (a Spec.Store)
  | ["minit", sid] =>
    match parseNat? sid with
    | some sid =>
      match w.getSpec sid with
      | some s => (w, "msg " ++ showMessage (Ranger.initialMessage Ranger.mapOps s))
      | none => (w, "no-store")
    | none => (w, "bad-op")
  | ["mproc", sid, ns, now, maxSet, split, msg] =>
    match parseNat? sid, Bytes.ofHex ns, parseNat? now, parseNat? maxSet, parseNat? split, parseMessage? msg with
    | some sid, some ns, some now, some maxSet, some split, some msg =>
      match w.getSpec sid with
      | some s =>
        let st := Ranger.processMessage Ranger.mapOps { maxSetSize := maxSet, splitFactor := split }
          (Replica.syncValidate now ns) (fun _ => 2) s msg
        (w.setSpec sid st.store, "reply " ++ (match st.reply with | some m => showMessage m | none => "none") ++
          " ins " ++ showValues st.inserted)
      | none => (w, "no-store")
    | _, _, _, _, _, _ => (w, "bad-op")
  -- snapshots and the join specification of a session
  -- ---- a swarm of replicas (Swarm.lean) ----
  | ["wnew", sid] =>
    match parseNat? sid with
    | some sid => ({ w with swarms := (sid, {}) :: w.swarms.filter (·.1 != sid) }, "ok")
    | none => (w, "bad-op")
  | ["wlocal", sid, i, tok] =>
    match parseNat? sid, parseNat? i, parseEntry? tok with
    | some sid, some i, some e =>
      match w.swarms.lookup sid with
      | some s =>
        let out := (Spec.put (s.st i) e).2
        let s' := Swarm.step s (.localWrite i e)
        ({ w with swarms := (sid, s') :: w.swarms.filter (·.1 != sid) },
          match out with | .notInserted => "notinserted" | .inserted n => "inserted " ++ toString n)
      | none => (w, "no-store")
    | _, _, _ => (w, "bad-op")
  | ["wlocalq", sid, i, tok] =>
    match parseNat? sid, parseNat? i, parseEntry? tok with
    | some sid, some i, some e =>
      match w.swarms.lookup sid with
      | some s =>
        let out := (Spec.put (s.st i) e).2
        let s' := Swarm.step s (.localWrite i e)
        ({ w with swarms := (sid, s') :: w.swarms.filter (·.1 != sid) },
          match out with | .notInserted => "notinserted" | .inserted _ => "inserted")
      | none => (w, "no-store")
    | _, _, _ => (w, "bad-op")
  -- `Replica::insert` at replica i: refused by the emptiness guard, nothing is written anywhere
  | ["wrefused", sid, _i, tok] =>
    match parseNat? sid, parseEntry? tok with
    | some _, some e => (w, if Replica.insertGuard e then "err:entry-is-empty" else "not-refused")
    | _, _ => (w, "bad-op")
  -- an entry reaches replica i by gossip; `now` is i's clock
  | ["wdeliver", sid, i, ns, now, tok] => swarmDeliver w false sid i ns now tok
  -- … or inside a message of a session (only the verdict is observable)
  | ["wcarry", sid, i, ns, now, tok] => swarmDeliver w true sid i ns now tok
  | ["wsession", sid, i, j] =>
    match parseNat? sid, parseNat? i, parseNat? j with
    | some sid, some i, some j =>
      match w.swarms.lookup sid with
      | some s => ({ w with swarms := (sid, Swarm.step s (.session i j)) :: w.swarms.filter (·.1 != sid) }, "ok")
      | none => (w, "no-store")
    | _, _, _ => (w, "bad-op")
  | ["wrestart", sid, i] =>
    match parseNat? sid, parseNat? i with
    | some sid, some i =>
      match w.swarms.lookup sid with
      | some s => ({ w with swarms := (sid, Swarm.step s (.restart i)) :: w.swarms.filter (·.1 != sid) }, "ok")
      | none => (w, "no-store")
    | _, _ => (w, "bad-op")
  | ["wdump", sid, i] =>
    match parseNat? sid, parseNat? i with
    | some sid, some i =>
      match w.swarms.lookup sid with
      | some s => (w, showEntries (s.st i))
      | none => (w, "no-store")
    | _, _ => (w, "bad-op")
  -- specification: the merge of all accepted local writes
  | ["wjoin", sid] =>
    match parseNat? sid with
    | some sid =>
      match w.swarms.lookup sid with
      | some s => (w, showEntries (sortById (Spec.join (Swarm.written s))))
      | none => (w, "no-store")
    | none => (w, "bad-op")
  -- specification: every entry of the given (real) replica state was written by some replica
  | ["wsubset", sid, toks] =>
    match parseNat? sid with
    | some sid =>
      match w.swarms.lookup sid with
      | some s =>
        let es := if toks == "-" then some [] else (toks.splitOn ";").mapM parseEntry?
        match es with
        | some es =>
          match es.find? (fun e => !(Swarm.written s).contains e) with
          | some e => (w, "foreign:" ++ showEntry e)
          | none => (w, "ok")
        | none => (w, "bad-op")
      | none => (w, "no-store")
    | none => (w, "bad-op")
  -- hypothesis of `closing_round_converges`: the closing round of complete sessions `a-b,c-d,…`
  -- connects every writer to each of the replicas 0..n-1
  | ["wconnects", sid, n, pairs] =>
    match parseNat? sid, parseNat? n with
    | some sid, some n =>
      match w.swarms.lookup sid with
      | some s =>
        let steps := (pairs.splitOn ",").filterMap fun p =>
          match p.splitOn "-" with
          | [a, b] => do pure (Swarm.Step.session (← parseNat? a) (← parseNat? b))
          | _ => none
        (w, if Swarm.connects n (s.w.map (·.1)) steps then "connected" else "not-connected")
      | none => (w, "no-store")
    | _, _ => (w, "bad-op")
  -- ---- the transaction layer of a persistent store (Txn.lean) ----
  | ["pnew", sid] =>
    match parseNat? sid with
    | some sid => ({ w with pstores := (sid, {}) :: w.pstores.filter (·.1 != sid) }, "ok")
    | none => (w, "bad-op")
  | "prun" :: sid :: split :: aged :: rest =>
    match parseNat? sid, parseBool? split,
          (if aged = "-" then some [] else (aged.splitOn ",").mapM parseNat?), parseTxnOp? rest with
    | some sid, some split, some aged, some op =>
      match w.pstores.lookup sid with
      | some p =>
        let p' := Txn.P.run split (fun i => aged.contains i) p op
        ({ w with pstores := (sid, p') :: w.pstores.filter (·.1 != sid) }, "accesses=" ++ toString p'.accesses)
      | none => (w, "no-store")
    | _, _, _, _ => (w, "bad-op")
  -- what a reopened copy of the database file shows: the durable tables become table store `tid`
  | ["pcrash", sid, tid] =>
    match parseNat? sid, parseNat? tid with
    | some sid, some tid =>
      match w.pstores.lookup sid with
      | some p => (w.setT tid (Tables.reopen p.durable), "ok")
      | none => (w, "no-store")
    | _, _ => (w, "bad-op")
  -- ---- session coordination between two nodes (Coord.lean) ----
  | ["cnew", sid, bg, sa, sb] =>
    match parseNat? sid, parseBool? bg, parseBool? sa, parseBool? sb with
    | some sid, some bg, some sa, some sb =>
      ({ w with coords := (sid, { bGreater := bg, a := { syncing := sa }, b := { syncing := sb } }) :: w.coords.filter (·.1 != sid) }, "ok")
    | _, _, _, _ => (w, "bad-op")
  | "cstep" :: sid :: fix :: rest =>
    match parseNat? sid, parseBool? fix, CoordTok.parseAction? rest with
    | some sid, some fix, some a =>
      match w.coords.lookup sid with
      | some s =>
        let s' := Coord.step fix s a
        ({ w with coords := (sid, s') :: w.coords.filter (·.1 != sid) }, CoordTok.showSys s')
      | none => (w, "no-store")
    | _, _, _ => (w, "bad-op")
  -- the current state (a step that the protocol model does not see, e.g. a report without news)
  | ["csnap", sid, _fix] =>
    match parseNat? sid with
    | some sid =>
      match w.coords.lookup sid with
      | some s => (w, CoordTok.showSys s)
      | none => (w, "no-store")
    | none => (w, "bad-op")
  -- specifications of C11 evaluated on the model state
  | ["cspec", sid] =>
    match parseNat? sid with
    | some sid =>
      match w.coords.lookup sid with
      | some s =>
        (w, "inprogress<=1:" ++ showBool ((Coord.inProgress s).length ≤ 1) ++
            " quiescent:" ++ showBool (Coord.quiescent s) ++
            " ready:" ++ showBool ((s.a.st == .idle || !s.a.syncing) && (s.b.st == .idle || !s.b.syncing)))
      | none => (w, "no-store")
    | none => (w, "bad-op")
  -- ---- the two ends of a session (Session.lean) over the table model ----
  | "bobrun" :: sid :: ns :: now :: accept :: failFrom :: e :: items =>
    match parseNat? sid, Bytes.ofHex ns, parseNat? now, SessTok.parseAccept? accept,
          (if failFrom = "-" then some none else (parseNat? failFrom).map some), SessTok.parseEnd? e,
          items.mapM SessTok.parseItem? with
    | some sid, some ns, some now, some accept, some failFrom, some e, some items =>
      match w.getT sid with
      | some t =>
        let out := Session.bobRun (Session.tableActor ns now failFrom) (fun _ => accept) items e { t := t }
        let res := (match out.result with
          | .ok n => "ok " ++ n.toHex
          | .aborted n r => "aborted " ++ n.toHex ++ " " ++ toString r
          | .failed => "failed") ++ ",names=" ++ (match out.nsAtExit with | some n => n.toHex | none => "none")
        (w.setT sid out.store.t,
          "result=" ++ res ++ " written=" ++ SessTok.showWritten out.written ++ " outcome=" ++
          (match out.progress with | some o => SessTok.showOutcome o | none => "unavailable"))
      | none => (w, "no-store")
    | _, _, _, _, _, _, _ => (w, "bad-op")
  | "alicerun" :: sid :: ns :: now :: failFrom :: e :: items =>
    match parseNat? sid, Bytes.ofHex ns, parseNat? now,
          (if failFrom = "-" then some none else (parseNat? failFrom).map some), SessTok.parseEnd? e,
          items.mapM SessTok.parseItem? with
    | some sid, some ns, some now, some failFrom, some e, some items =>
      match w.getT sid with
      | some t =>
        let out := Session.aliceRun (Session.tableActor ns now failFrom) ns items e { t := t }
        let res := match out.result with
          | .ok o => "ok " ++ SessTok.showOutcome o
          | .remoteAbort r => "remote-abort " ++ toString r
          | .failed => "failed"
        (w.setT sid out.store.t,
          "result=" ++ res ++ " written=" ++ SessTok.showWritten out.written)
      | none => (w, "no-store")
    | _, _, _, _, _, _ => (w, "bad-op")
  -- ---- wire encodings (Codec.lean) ----
  | ["cencode", tok] =>
    match WireTok.parseFrame? tok with
    | some f => (w, match Codec.encFrame f with | some b => "ok " ++ b.toHex | none => "err")
    | none => (w, "bad-op")
  | ["cencmsg", tok] =>
    match WireTok.parseMsg? tok with
    | some m => (w, "ok " ++ (Codec.encMsg m).toHex)
    | none => (w, "bad-op")
  -- `Capability::merge`: `capmerge <ns> <kind> <raw> <ns'> <kind'> <raw'>`
  | ["capmerge", ns, k, raw, ns2, k2, raw2] =>
    match Bytes.ofHex ns, parseNat? k, Bytes.ofHex raw, Bytes.ofHex ns2, parseNat? k2, Bytes.ofHex raw2 with
    | some ns, some k, some raw, some ns2, some k2, some raw2 =>
      (w, match Tables.capMerge (ns, k, raw) (ns2, k2, raw2) with
        | none => "err:namespace-mismatch"
        | some (changed, res) => "ok " ++ showBool changed ++ " " ++ res.1.toHex ++ " " ++ toString res.2.1 ++ " " ++ res.2.2.toHex)
    | _, _, _, _, _, _ => (w, "bad-op")
  -- a gossip message as `receive_loop` decodes it (`postcard::from_bytes::<Op>`), re-encoded
  | ["gdecode", hx] =>
    match Bytes.ofHex hx with
    | some b =>
      (w, match Codec.decGOp b with
        | some o =>
          let tag := match o with | .put _ => 0 | .contentReady _ => 1 | .syncReport _ _ => 2
          "ok " ++ toString tag ++ " " ++ (Codec.encGOp o).toHex
        | none => "err")
    | none => (w, "bad-op")
  | ["cdecmsg", hx] =>
    match Bytes.ofHex hx with
    | some b => (w, match Codec.decMsg b with | some (m, _) => "ok " ++ WireTok.showMsg m | none => "err")
    | none => (w, "bad-op")
  | ["cdecentry", hx] =>
    match Bytes.ofHex hx with
    | some b => (w, match Codec.decEntry b with | some (e, _) => "ok " ++ WireTok.showValue (e, 0) | none => "err")
    | none => (w, "bad-op")
  -- feed chunks (separated by `/`) to the incremental frame decoder
  | ["cfeed", chunks] =>
    match (chunks.splitOn "/").mapM Bytes.ofHex with
    | some cs =>
      let (fs, st) := Codec.feedChunks [] cs
      (w, "frames " ++ toString fs.length ++ " " ++ "#".intercalate (fs.map WireTok.showFrame) ++
        (match st with | some rest => " needmore " ++ toString rest.length | none => " error"))
    | none => (w, "bad-op")
  -- ---- the store actor (Actor.lean) ----
  | ["anew", sid] =>
    match parseNat? sid with
    | some sid => (w.setActor sid {}, "ok")
    | none => (w, "bad-op")
  | "act" :: sid :: rest =>
    -- `localq` / `remoteq`: the same requests through calls that do not report the removal count
    let quiet := rest.head? == some "localq" || rest.head? == some "remoteq"
    let rest := match rest with
      | "localq" :: r => "local" :: r
      | "remoteq" :: r => "remote" :: r
      | r => r
    let showReply := fun (r : Actor.Reply) => match quiet, r with
      | true, .inserted _ => "inserted"
      | _, r => showReply r
    match parseNat? sid, parseAction? rest with
    | some sid, some a =>
      match w.getActor sid with
      | some st =>
        let (st', r) := Actor.step st a
        let bump := fun (w : World) (ns : Bytes) (f : Nat → Nat) =>
          let c := (w.handleCounts.lookup (sid, ns)).getD 0
          { w with handleCounts := ((sid, ns), f c) :: w.handleCounts.filter (·.1 != (sid, ns)) }
        let w := match a, r with
          | .openR ns _ _, .ok => bump w ns (· + 1)
          | .close ns, _ => bump w ns (· - 1)
          | .dropReplica ns, _ => bump w ns (· - 1)
          | _, _ => w
        -- the sync switch according to the history (C14 specification `ssync`)
        let cnt := fun (ns : Bytes) => (w.handleCounts.lookup (sid, ns)).getD 0
        let setS := fun (w : World) (ns : Bytes) (b : Option Bool) =>
          let rest := w.syncSpec.filter (·.1 != (sid, ns))
          match b with
          | some b => { w with syncSpec := ((sid, ns), b) :: rest }
          | none => { w with syncSpec := rest }
        let w := match a, r with
          | .openR ns sync _, .ok =>
            -- `cnt` was already bumped above: 1 means this was the first handle
            if cnt ns ≤ 1 then setS w ns (some sync)
            else setS w ns (some (((w.syncSpec.lookup (sid, ns)).getD false) || sync))
          | .setSync ns b, .ok => setS w ns (some b)
          | .close ns, .okBool true => setS w ns none
          | .dropReplica ns, .ok => setS w ns none
          | _, _ => w
        -- subscribers according to the history (C14 specification `ssubs`): an acknowledged open with
        -- a subscription or an acknowledged subscribe adds one, an unsubscribe removes one, closing
        -- the last handle (or dropping the document) forgets them
        let getN := fun (w : World) (ns : Bytes) => (w.subsSpec.lookup (sid, ns)).getD 0
        let setN := fun (w : World) (ns : Bytes) (n : Nat) =>
          { w with subsSpec := ((sid, ns), n) :: w.subsSpec.filter (·.1 != (sid, ns)) }
        let w := match a, r with
          | .openR ns _ true, .ok => setN w ns (getN w ns + 1)
          | .subscribe ns, .ok => setN w ns (getN w ns + 1)
          | .unsubscribe ns, .ok => setN w ns (getN w ns - 1)
          | .close ns, .okBool true => setN w ns 0
          | .dropReplica ns, .ok => setN w ns 0
          | _, _ => w
        -- capability history of the actor's store (for the C07 specification `swritable`): a
        -- successful import is recorded, a successful drop forgets the document
        let hist := (w.imports.lookup sid).getD []
        let w := match a, r with
          | .importNamespace ns kind _, .ok =>
            { w with imports := (sid, (ns, kind) :: hist) :: w.imports.filter (·.1 != sid) }
          | .dropReplica ns, .ok =>
            { w with imports := (sid, hist.filter (·.1 != ns)) :: w.imports.filter (·.1 != sid) }
          | _, _ => w
        (w.setActor sid st', showReply r)
      | none => (w, "no-store")
    | _, _ => (w, "bad-op")
  -- a request of the client API handled by `Rpc.step` on actor sid
  | "api" :: sid :: rest =>
    -- `setq`: `set_hash` does not report the removal count
    let quiet := rest.head? == some "setq"
    let rest := match rest with
      | "setq" :: r => "set" :: r
      | r => r
    match parseNat? sid, parseApiReq? rest with
    | some sid, some r =>
      match w.getActor sid with
      | some st =>
        let (st', out) := Rpc.step st r
        (w.setActor sid st', match quiet, out with | true, .inserted _ => "inserted" | _, o => showReply o)
      | none => (w, "no-store")
    | _, _ => (w, "bad-op")
  | ["apilist", sid] =>
    match parseNat? sid with
    | some sid =>
      match w.getActor sid with
      | some st => (w, "namespaces " ++ ";".intercalate ((Rpc.list st).map fun (ns, kind) => ns.toHex ++ "=" ++ toString kind))
      | none => (w, "no-store")
    | none => (w, "bad-op")
  -- history of the client API for the specification `swritable`: an import (kind 1 write, 2 read)
  -- that was answered ok, or a drop that was answered ok
  | ["shist", sid, "import", ns, kind] =>
    match parseNat? sid, Bytes.ofHex ns, parseNat? kind with
    | some sid, some ns, some kind =>
      let hist := (w.imports.lookup sid).getD []
      ({ w with imports := (sid, (ns, kind) :: hist) :: w.imports.filter (·.1 != sid) }, "ok")
    | _, _, _ => (w, "bad-op")
  | ["shist", sid, "drop", ns] =>
    match parseNat? sid, Bytes.ofHex ns with
    | some sid, some ns =>
      let hist := (w.imports.lookup sid).getD []
      ({ w with imports := (sid, hist.filter (·.1 != ns)) :: w.imports.filter (·.1 != sid) }, "ok")
    | _, _ => (w, "bad-op")
  -- specification: close reports whether the document is closed afterwards (no handle left by the
  -- history of acknowledged opens and releases)
  | ["sclose", sid, ns] =>
    match parseNat? sid, Bytes.ofHex ns with
    | some sid, some ns => (w, if (w.handleCounts.lookup (sid, ns)).getD 0 > 0 then "ok 0" else "ok 1")
    | _, _ => (w, "bad-op")
  -- specification: a drop is refused exactly while, after releasing its own handle, the document
  -- still holds one (by the history of acknowledged opens and releases)
  | ["sdrop", sid, ns] =>
    match parseNat? sid, Bytes.ofHex ns with
    | some sid, some ns => (w, if (w.handleCounts.lookup (sid, ns)).getD 0 > 0 then "refused" else "allowed")
    | _, _ => (w, "bad-op")
  -- specification: the number of subscribers of an open document according to the request history
  | ["ssubs", sid, ns] =>
    match parseNat? sid, Bytes.ofHex ns with
    | some sid, some ns => (w, toString ((w.subsSpec.lookup (sid, ns)).getD 0))
    | _, _ => (w, "bad-op")
  -- specification: the sync switch of an open document according to the request history
  | ["ssync", sid, ns] =>
    match parseNat? sid, Bytes.ofHex ns with
    | some sid, some ns =>
      (w, match w.syncSpec.lookup (sid, ns) with | some true => "1" | some false => "0" | none => "closed")
    | _, _ => (w, "bad-op")
  -- the store handed back by shutdown: every record of every document
  | ["adump", sid] =>
    match parseNat? sid with
    | some sid =>
      match w.getActor sid with
      | some st => (w, showEntries st.t.records)
      | none => (w, "no-store")
    | none => (w, "bad-op")
  -- specification of the handle count: opens minus releases, from the history of requests
  | ["shandles", sid, ns] =>
    match parseNat? sid, Bytes.ofHex ns with
    | some sid, some ns =>
      let c := (w.handleCounts.lookup (sid, ns)).getD 0
      (w, if c > 0 then "usable handles=" ++ toString c else "closed")
    | _, _ => (w, "bad-op")
  -- ---- events and subscribers (Events.lean) ----
  | ["enew", sid, ns, kind, raw] =>
    match parseNat? sid, Bytes.ofHex ns, parseNat? kind, Bytes.ofHex raw with
    | some sid, some ns, some kind, some raw =>
      (w.setEv sid { t := (Tables.importNamespace {} ns kind raw).1 } 0, "ok")
    | _, _, _, _ => (w, "bad-op")
  | ["eimport", sid, ns, kind, raw] =>
    match parseNat? sid, Bytes.ofHex ns, parseNat? kind, Bytes.ofHex raw with
    | some sid, some ns, some kind, some raw =>
      match w.getEv sid with
      | some (s, c) => (w.setEv sid (Events.importCap s ns kind raw) c, "ok")
      | none => (w, "no-store")
    | _, _, _, _ => (w, "bad-op")
  | ["esub", sid, id] =>
    match parseNat? sid, parseNat? id with
    | some sid, some id =>
      match w.getEv sid with
      | some (s, c) => (w.setEv sid (Events.subscribe s id) c, "ok")
      | none => (w, "no-store")
    | _, _ => (w, "bad-op")
  | ["eunsub", sid, id] =>
    match parseNat? sid, parseNat? id with
    | some sid, some id =>
      match w.getEv sid with
      | some (s, c) => (w.setEv sid (Events.unsubscribe s id) c, "ok")
      | none => (w, "no-store")
    | _, _ => (w, "bad-op")
  | ["edrop", sid, id] =>
    match parseNat? sid, parseNat? id with
    | some sid, some id =>
      match w.getEv sid with
      | some (s, c) => (w.setEv sid (Events.dropReceiver s id) c, "ok")
      | none => (w, "no-store")
    | _, _ => (w, "bad-op")
  | ["elocal", sid, tok] =>
    match parseNat? sid, parseEntry? tok with
    | some sid, some e =>
      match w.getEv sid with
      | some (s, c) =>
        let (s', r) := Events.localInsertCap s e
        (w.setEv sid s' c, showInsertResult r)
      | none => (w, "no-store")
    | _, _ => (w, "bad-op")
  | ["eremote", sid, ns, now, peer, status, tok] =>
    match parseNat? sid, Bytes.ofHex ns, parseNat? now, Bytes.ofHex peer, parseNat? status, parseEntry? tok with
    | some sid, some ns, some now, some peer, some status, some e =>
      match w.getEv sid with
      | some (s, c) =>
        let (s', r) := Events.remoteInsert s ns now e peer status
        (w.setEv sid s' c, showReplicaResult r)
      | none => (w, "no-store")
    | _, _, _, _, _, _ => (w, "bad-op")
  | ["emsg", sid, ns, now, peer, msg] =>
    match parseNat? sid, Bytes.ofHex ns, parseNat? now, Bytes.ofHex peer, parseMessage? msg with
    | some sid, some ns, some now, some peer, some msg =>
      match w.getEv sid with
      | some (s, c) =>
        let (s', st, o) := Events.syncProcess {} s ns now msg peer {}
        (w.setEv sid s' c, showStep st o)
      | none => (w, "no-store")
    | _, _, _, _, _ => (w, "bad-op")
  -- the same requests as answered through the store actor (no removal count, no inserted list)
  | ["elocalres", sid, tok] =>
    match parseNat? sid, parseEntry? tok with
    | some sid, some e =>
      match w.getEv sid with
      | some (s, c) =>
        let (s', r) := Events.localInsertCap s e
        (w.setEv sid s' c, match r with | .inserted _ => "inserted" | .notInserted => "notinserted" | r => showInsertResult r)
      | none => (w, "no-store")
    | _, _ => (w, "bad-op")
  | ["eremoteres", sid, ns, now, peer, status, tok] =>
    match parseNat? sid, Bytes.ofHex ns, parseNat? now, Bytes.ofHex peer, parseNat? status, parseEntry? tok with
    | some sid, some ns, some now, some peer, some status, some e =>
      match w.getEv sid with
      | some (s, c) =>
        let (s', r) := Events.remoteInsert s ns now e peer status
        (w.setEv sid s' c, match r with | .ok _ => "inserted" | .newerEntryExists => "notinserted" | .failed _ => "err:validation")
      | none => (w, "no-store")
    | _, _, _, _, _, _ => (w, "bad-op")
  | ["emsgres", sid, ns, now, peer, msg] =>
    match parseNat? sid, Bytes.ofHex ns, parseNat? now, Bytes.ofHex peer, parseMessage? msg with
    | some sid, some ns, some now, some peer, some msg =>
      match w.getEv sid with
      | some (s, c) =>
        let (s', st, o) := Events.syncProcess {} s ns now msg peer {}
        (w.setEv sid s' c, "reply " ++ (match st.reply with | some m => showMessage m | none => "none") ++
          " out " ++ toString o.numRecv ++ " " ++ toString o.numSent ++ " " ++ showHeadsMap o.headsReceived)
      | none => (w, "no-store")
    | _, _, _, _, _ => (w, "bad-op")
  | ["sdeltaskip", sid] =>
    match parseNat? sid with
    | some sid =>
      match w.getEv sid with
      | some (s, _) => (w.setEv sid s s.applied.length, "ok")
      | none => (w, "no-store")
    | none => (w, "bad-op")
  | ["epolicy", sid, ns, pol] =>
    match parseNat? sid, Bytes.ofHex ns, parsePolicy? pol with
    | some sid, some ns, some pol =>
      match w.getEv sid with
      | some (s, c) =>
        match Tables.setDownloadPolicy s.t ns pol with
        | some t' => (w.setEv sid { s with t := t' } c, "ok")
        | none => (w, "err:no-document")
      | none => (w, "no-store")
    | _, _, _ => (w, "bad-op")
  -- what a subscriber channel has received since it was last drained
  | ["einbox", sid, id] =>
    match parseNat? sid, parseNat? id with
    | some sid, some id =>
      match w.getEv sid with
      | some (s, c) =>
        let got := Events.inboxOf s id
        (w.setEv sid { s with inbox := s.inbox.filter (·.1 != id) } c, showEvents got)
      | none => (w, "no-store")
    | _, _ => (w, "bad-op")
  -- specification: the entries applied since the last call, as events, in order
  | ["sdelta", sid] =>
    match parseNat? sid with
    | some sid =>
      match w.getEv sid with
      | some (s, c) => (w.setEv sid s s.applied.length, showEvents (s.applied.drop c))
      | none => (w, "no-store")
    | none => (w, "bad-op")
  | ["edump", sid, ns] =>
    match parseNat? sid, Bytes.ofHex ns with
    | some sid, some ns =>
      match w.getEv sid with
      | some (s, _) => (w, showEntries (Tables.query s.t ns { includeEmpty := true }))
      | none => (w, "no-store")
    | _, _ => (w, "bad-op")
  -- specification of C03: an entry that was accepted must be valid
  | ["simplies", accepted, ns, now, tok] =>
    match parseBool? accepted, Bytes.ofHex ns, parseNat? now, parseEntry? tok with
    | some accepted, some ns, some now, some e =>
      (w, if !accepted || decide (Replica.Valid now ns e) then "ok" else "violation:accepted-an-invalid-entry")
    | _, _, _, _ => (w, "bad-op")
  -- a specification that is a constant (e.g. `mirror=1`)
  | ["sconst", text] => (w, text)
  | ["snap", name, sid, ns] =>
    match parseNat? sid, Bytes.ofHex ns with
    | some sid, some ns =>
      match w.getT sid with
      | some t => ({ w with snaps := (name, t.records.filter (·.ns == ns)) :: w.snaps.filter (·.1 != name) }, "ok")
      | none => (w, "no-store")
    | _, _ => (w, "bad-op")
  | "sjoin" :: names =>
    let all := names.flatMap fun n => (w.snaps.lookup n).getD []
    (w, showEntries (sortById (Spec.join all)))
  -- delete derived tables (as plain redb would) and open the database again
  -- the same for a database whose write capabilities live in the first-generation table
  | ["tmigrate", sid, dl, dk, "v1"] =>
    match parseNat? sid, parseBool? dl, parseBool? dk with
    | some sid, some dl, some dk =>
      match w.getT sid with
      | some t =>
        let old := Tables.toV1 (Tables.dropDerived t dl dk)
        (w.setT sid (Tables.reopenV1 old.1 old.2), "ok")
      | none => (w, "no-store")
    | _, _, _ => (w, "bad-op")
  | ["tmigrate", sid, dl, dk] =>
    match parseNat? sid, parseBool? dl, parseBool? dk with
    | some sid, some dl, some dk =>
      match w.getT sid with
      | some t => (w.setT sid (Tables.reopen (Tables.dropDerived t dl dk)), "ok")
      | none => (w, "no-store")
    | _, _, _ => (w, "bad-op")
  -- plain reopen: migrations run, and do nothing on an up-to-date database
  | ["treopen", sid] =>
    match parseNat? sid with
    | some sid =>
      match w.getT sid with
      | some t => (w.setT sid (Tables.reopen t), "ok")
      | none => (w, "no-store")
    | none => (w, "bad-op")
  | ["tclean", sid, ns] =>
    match parseNat? sid, Bytes.ofHex ns with
    | some sid, some ns =>
      match w.getT sid with
      | some t =>
        let dirty : List String :=
          (if t.records.any (·.ns == ns) then ["records"] else []) ++
          (if t.byKey.any (fun k => k.1 == ns && (Tables.recGet t.records k.1 k.2.2 k.2.1).isSome) then ["by-key"] else []) ++
          (if t.latest.any (·.1 == ns) then ["heads"] else []) ++
          (if t.peers.any (·.1 == ns) then ["peers"] else []) ++
          (if t.policies.any (·.1 == ns) then ["policy"] else []) ++
          (if t.namespaces.any (·.1 == ns) then ["capability"] else [])
        (w, if dirty.isEmpty then "clean" else "dirty:" ++ "+".intercalate dirty)
      | none => (w, "no-store")
    | _, _ => (w, "bad-op")
  -- specification of the useful-peer list: the five most recently registered distinct peers
  | ["speers", sid, ns] =>
    match parseNat? sid, Bytes.ofHex ns with
    | some sid, some ns =>
      let hist := ((w.regs.lookup sid).getD []).filter (·.1 == ns)   -- newest first
      let mru := Tables.mruSpec [] (hist.reverse.map (·.2.2))
      (w, if mru.isEmpty then "none" else "peers " ++ toString mru.length ++ " " ++ ";".intercalate (mru.map Bytes.toHex))
    | _, _ => (w, "bad-op")
  | ["shashes", sid] =>
    match parseNat? sid with
    | some sid =>
      match w.getT sid with
      | some t =>
        let hs := (t.namespaces.flatMap fun (ns, _, _) => (t.records.filter (·.ns == ns)).map (·.hash.toHex))
        let sorted := hs.toArray.qsort (· < ·) |>.toList
        (w, "hashes " ++ toString sorted.length ++ " " ++ ";".intercalate sorted)
      | none => (w, "no-store")
    | none => (w, "bad-op")
  | ["shasnews", sid, ns, heads] =>
    match parseNat? sid, Bytes.ofHex ns, parseHeads? heads with
    | some sid, some ns, some theirs =>
      match w.getT sid with
      | some t =>
        let n := (theirs.filter fun (a, ts) =>
          (t.records.filter (fun e => e.ns == ns && e.author == a)).all (fun e => decide (ts > e.ts))).length
        (w, "news " ++ toString n)
      | none => (w, "no-store")
    | _, _, _ => (w, "bad-op")
  -- specification of the reaction to a sync report (C13 at the engine): dial exactly on news, i.e.
  -- when some reported author is unknown or reported with a timestamp newer than all we hold
  | ["snewsdial", sid, ns, heads] =>
    match parseNat? sid, Bytes.ofHex ns, parseHeads? heads with
    | some sid, some ns, some theirs =>
      match w.getT sid with
      | some t =>
        let n := (theirs.filter fun (a, ts) =>
          (t.records.filter (fun e => e.ns == ns && e.author == a)).all (fun e => decide (ts > e.ts))).length
        (w, if n > 0 then "dial" else "quiet")
      | none => (w, "no-store")
    | _, _, _ => (w, "bad-op")
  | ["topen", sid, ns] =>
    match parseNat? sid, Bytes.ofHex ns with
    | some sid, some ns =>
      match w.getT sid with
      | some t =>
        match Tables.nsGet t ns with
        | some (kind, _) => (w.setOpen sid (ns :: (w.getOpen sid).filter (· != ns)), "ok " ++ toString kind)
        | none => (w, "err:not-found")
      | none => (w, "no-store")
    | _, _ => (w, "bad-op")
  | ["tclose", sid, ns] =>
    match parseNat? sid, Bytes.ofHex ns with
    | some sid, some ns => (w.setOpen sid ((w.getOpen sid).filter (· != ns)), "ok")
    | _, _ => (w, "bad-op")
  | ["tremove", sid, ns] =>
    match parseNat? sid, Bytes.ofHex ns with
    | some sid, some ns =>
      match w.getT sid with
      | some t =>
        if (w.getOpen sid).contains ns then (w, "err:not-closed")
        else
          let old := (w.regs.lookup sid).getD []
          let oldImports := (w.imports.lookup sid).getD []
          ({ w.setT sid (Tables.removeReplica t ns) with
             policySpec := w.policySpec.filter (·.1 != (sid, ns)),
             regs := (sid, old.filter (·.1 != ns)) :: w.regs.filter (·.1 != sid),
             imports := (sid, oldImports.filter (·.1 != ns)) :: w.imports.filter (·.1 != sid) }, "ok")
      | none => (w, "no-store")
    | _, _ => (w, "bad-op")
  | ["tpeer", sid, ns, nanos, peer] =>
    match parseNat? sid, Bytes.ofHex ns, parseNat? nanos, Bytes.ofHex peer with
    | some sid, some ns, some nanos, some peer =>
      match w.getT sid with
      | some t =>
        match Tables.registerUsefulPeer t ns nanos peer with
        | some t' =>
          let old := (w.regs.lookup sid).getD []
          ({ w.setT sid t' with regs := (sid, (ns, nanos, peer) :: old) :: w.regs.filter (·.1 != sid) }, "ok")
        | none => (w, "err:no-document")
      | none => (w, "no-store")
    | _, _, _, _ => (w, "bad-op")
  | ["tpeers", sid, ns] =>
    match parseNat? sid, Bytes.ofHex ns with
    | some sid, some ns =>
      match w.getT sid with
      | some t =>
        match Tables.getSyncPeers t ns with
        | some l => (w, "peers " ++ toString l.length ++ " " ++ ";".intercalate (l.map Bytes.toHex))
        | none => (w, "none")
      | none => (w, "no-store")
    | _, _ => (w, "bad-op")
  | ["tsetpolicy", sid, ns, pol] =>
    match parseNat? sid, Bytes.ofHex ns, parsePolicy? pol with
    | some sid, some ns, some pol =>
      match w.getT sid with
      | some t =>
        match Tables.setDownloadPolicy t ns pol with
        | some t' =>
          ({ w.setT sid t' with policySpec := ((sid, ns), pol) :: w.policySpec.filter (·.1 != (sid, ns)) }, "ok")
        | none => (w, "err:no-document")
      | none => (w, "no-store")
    | _, _, _ => (w, "bad-op")
  | ["tgetpolicy", sid, ns] =>
    match parseNat? sid, Bytes.ofHex ns with
    | some sid, some ns =>
      match w.getT sid with
      | some t => (w, showPolicy (Tables.getDownloadPolicy t ns))
      | none => (w, "no-store")
    | _, _ => (w, "bad-op")
  -- specification: the policy of a document is the one set last since it was (re-)created, the
  -- default otherwise
  | ["sgetpolicy", sid, ns] =>
    match parseNat? sid, Bytes.ofHex ns with
    | some sid, some ns => (w, showPolicy ((w.policySpec.lookup (sid, ns)).getD Tables.Policy.default))
    | _, _ => (w, "bad-op")
  -- specification: a document can be removed only while no replica of it is open (by the history
  -- of opens and closes)
  | ["sisopen", sid, ns] =>
    match parseNat? sid, Bytes.ofHex ns with
    | some sid, some ns => (w, if (w.getOpen sid).contains ns then "open" else "closed")
    | _, _ => (w, "bad-op")
  | ["policymatch", pol, key] =>
    match parsePolicy? pol, Bytes.ofHex key with
    | some pol, some key => (w, showBool (pol.matches key))
    | _, _ => (w, "bad-op")
  | ["thashes", sid] =>
    match parseNat? sid with
    | some sid =>
      match w.getT sid with
      | some t =>
        let hs := (Tables.contentHashes t).map Bytes.toHex
        let sorted := hs.toArray.qsort (· < ·) |>.toList
        (w, "hashes " ++ toString sorted.length ++ " " ++ ";".intercalate sorted)
      | none => (w, "no-store")
    | none => (w, "bad-op")
  | ["tnamespaces", sid] =>
    match parseNat? sid with
    | some sid =>
      match w.getT sid with
      | some t => (w, "namespaces " ++ ";".intercalate (t.namespaces.map fun (ns, kind, _) => ns.toHex ++ "=" ++ toString kind))
      | none => (w, "no-store")
    | none => (w, "bad-op")
  | ["thasnews", sid, ns, heads] =>
    match parseNat? sid, Bytes.ofHex ns, parseHeads? heads with
    | some sid, some ns, some theirs =>
      match w.getT sid with
      | some t =>
        let ours : Heads.H := (Tables.latestForEachAuthor t ns).foldl (fun h (a, ts, _) => Heads.insert h a ts) []
        (w, "news " ++ toString (Heads.hasNewsFor theirs ours))
      | none => (w, "no-store")
    | _, _, _ => (w, "bad-op")
  -- the specification of heads: greatest timestamp per author among the entries held
  -- the specification of head keys: the key recorded with a head is the key of an entry of that author
  -- with that timestamp held in the document (which one, among several, is not prescribed)
  | ["sheadkeys", sid, ns, heads] =>
    match parseNat? sid, Bytes.ofHex ns with
    | some sid, some ns =>
      match w.getT sid with
      | some t =>
        let items := if heads = "-" then [] else heads.splitOn ";"
        let bad := items.filter (fun it =>
          match it.splitOn ":" with
          | [a, ts, k] =>
            match Bytes.ofHex a, parseNat? ts, Bytes.ofHex k with
            | some a, some ts, some k => !(t.records.any (fun e => e.ns == ns && e.author == a && e.ts == ts && e.key == k))
            | _, _, _ => true
          | _ => true)
        (w, match bad with
          | [] => "head-keys-name-held-entries"
          | b :: _ => "head-names-no-entry:" ++ b)
      | none => (w, "no-store")
    | _, _ => (w, "bad-op")
  | ["sheads", sid, ns] =>
    match parseNat? sid, Bytes.ofHex ns with
    | some sid, some ns =>
      match w.getT sid with
      | some t =>
        let h : Heads.H := (t.records.filter (·.ns == ns)).foldl (fun h e => Heads.insert h e.author e.ts) []
        (w, "headts " ++ showHeadsMap h)
      | none => (w, "no-store")
    | _, _ => (w, "bad-op")
  | ["hencode", lim, heads] =>
    match (if lim = "-" then some none else (parseNat? lim).map some), parseHeads? heads with
    | some lim, some h =>
      match Heads.encode h lim with
      | some b => (w, "ok " ++ b.toHex)
      | none => (w, "err")
    | _, _ => (w, "bad-op")
  -- specification: an encoding never exceeds its limit
  | ["hfits", _, _] => (w, "fits 1")
  -- specification: encoding under a limit succeeds whenever the empty list (one byte) fits — the
  -- newest heads that fit are kept, the others dropped; it is never refused because heads were many
  | ["hencodes", lim, _] =>
    (w, match (if lim = "-" then some none else (parseNat? lim).map some) with
        | some none => "ok"
        | some (some l) => if l ≥ 1 then "ok" else "err"
        | none => "bad-op")
  -- specification: what is kept is the longest newest-first prefix whose encoding fits
  | ["hkept", lim, heads] =>
    match (if lim = "-" then some none else (parseNat? lim).map some), parseHeads? heads with
    | some lim, some h =>
      let newestFirst := (Heads.sortTA (h.map (fun (a, ts) => (ts, a)))).reverse
      let k := match lim with
        | none => newestFirst.length
        | some l => ((List.range (newestFirst.length + 1)).reverse.find?
            (fun k => (Heads.encItems (newestFirst.take k)).length ≤ l)).getD 0
      let kept : Heads.H := (newestFirst.take k).foldl (fun acc (ts, a) => Heads.insert acc a ts) []
      (w, "ok " ++ showHeadsMap kept)
    | _, _ => (w, "bad-op")
  -- specification of the download decision, in the words of the property
  | ["spolicymatch", pol, key] =>
    match parsePolicy? pol, Bytes.ofHex key with
    | some pol, some key =>
      let filterMatches := fun (f : Tables.FilterKind) => match f with
        | .pre p => decide (p <+: key)
        | .exact k => decide (k = key)
      let r := match pol with
        | .everythingExcept fs => !fs.any filterMatches
        | .nothingExcept fs => fs.any filterMatches
      (w, showBool r)
    | _, _ => (w, "bad-op")
  | ["filtertext", tok, utf8] =>
    match tok.splitOn "=", parseBool? utf8 with
    | [k, h], some utf8 =>
      match Bytes.ofHex h with
      | some b =>
        let f : Option Tables.FilterKind := if k = "x" then some (.exact b) else if k = "p" then some (.pre b) else none
        match f with
        | some f =>
          let text := FilterText.display f utf8
          let back := match FilterText.parse text with
            | some (.exact b) => "ok x=" ++ b.toHex
            | some (.pre b) => "ok p=" ++ b.toHex
            | none => "err"
          (w, text.toHex ++ " " ++ back)
        | none => (w, "bad-op")
      | none => (w, "bad-op")
    | _, _ => (w, "bad-op")
  | ["filterid", tok] => (w, "ok " ++ tok)
  | ["filterparse", hx] =>
    match Bytes.ofHex hx with
    | some text =>
      (w, match FilterText.parse text with
        | some (.exact b) => "ok x=" ++ b.toHex
        | some (.pre b) => "ok p=" ++ b.toHex
        | none => "err")
    | none => (w, "bad-op")
  | ["hdecode", hx] =>
    match Bytes.ofHex hx with
    | some b =>
      match Heads.decode b with
      | some h => (w, "ok " ++ showHeadsMap h)
      | none => (w, "err")
    | none => (w, "bad-op")
  | _ => (w, "bad-op")

partial def loop (hin hout : IO.FS.Stream) (w : World) : IO Unit := do
  let line ← hin.getLine
  if line.isEmpty then
    hout.flush
    return ()
  -- `actdrop …`: a request whose caller stopped waiting; it is applied like `act …`, its reply is lost
  let (w', out) :=
    if line.startsWith "actdrop " then ((step w ("act " ++ (line.drop 8).toString)).1, "abandoned")
    -- `abandoned <any request>`: the same for every other kind of request
    else if line.startsWith "abandoned " then ((step w (line.drop 10).toString).1, "abandoned")
    else step w line
  hout.putStrLn out
  loop hin hout w'

def main : IO Unit := do
  loop (← IO.getStdin) (← IO.getStdout) {}
