import DocsModel.Model.Bytes
import DocsModel.Model.Entry
import DocsModel.Model.Spec
import DocsModel.Model.Tables
import DocsModel.Model.QuerySpec
/-!
Line-protocol driver: one output line per input line. The Rust harness pipes the same operation
lines it applied to the real crate and compares the two output streams.
-/

open Spec

def parseNat? (s : String) : Option Nat := s.toNat?

def parseBool? (s : String) : Option Bool :=
  if s = "1" then some true else if s = "0" then some false else none

/-- entry token: `ns,author,key,ts,len,hash,sig,nsok,auok[,fp]` (hex byte strings, `-` = empty) -/
def parseEntry? (tok : String) : Option Entry :=
  match tok.splitOn "," with
  | [ns, au, key, ts, len, hash, sig, nsok, auok, fp] => do
    pure { ns := ← Bytes.ofHex ns, author := ← Bytes.ofHex au, key := ← Bytes.ofHex key,
           ts := ← parseNat? ts, len := ← parseNat? len, hash := ← Bytes.ofHex hash,
           sig := ← parseNat? sig, nsSigOk := ← parseBool? nsok, authorSigOk := ← parseBool? auok,
           fp := ← Bytes.ofHex fp }
  | [ns, au, key, ts, len, hash, sig, nsok, auok] => do
    pure { ns := ← Bytes.ofHex ns, author := ← Bytes.ofHex au, key := ← Bytes.ofHex key,
           ts := ← parseNat? ts, len := ← parseNat? len, hash := ← Bytes.ofHex hash,
           sig := ← parseNat? sig, nsSigOk := ← parseBool? nsok, authorSigOk := ← parseBool? auok }
  | _ => none

def showBool (b : Bool) : String := if b then "1" else "0"

def showEntry (e : Entry) : String :=
  ",".intercalate [e.ns.toHex, e.author.toHex, e.key.toHex, toString e.ts, toString e.len,
    e.hash.toHex, toString e.sig, showBool e.nsSigOk, showBool e.authorSigOk]

def showEntries (es : List Entry) : String :=
  "entries " ++ toString es.length ++ " " ++ ";".intercalate (es.map showEntry)

structure World where
  specStores : List (Nat × Spec.Store) := []
  offered : List (Nat × List Entry) := []
  tstores : List (Nat × Tables.T) := []

namespace World

def getSpec (w : World) (sid : Nat) : Option Spec.Store := w.specStores.lookup sid
def setSpec (w : World) (sid : Nat) (s : Spec.Store) : World :=
  { w with specStores := (sid, s) :: w.specStores.filter (·.1 != sid) }
def getOffered (w : World) (sid : Nat) : List Entry := (w.offered.lookup sid).getD []
def addOffered (w : World) (sid : Nat) (e : Entry) : World :=
  { w with offered := (sid, e :: w.getOffered sid) :: w.offered.filter (·.1 != sid) }

def getT (w : World) (sid : Nat) : Option Tables.T := w.tstores.lookup sid
def setT (w : World) (sid : Nat) (t : Tables.T) : World :=
  { w with tstores := (sid, t) :: w.tstores.filter (·.1 != sid) }

end World

open Tables in
def parseKeyFilter? (s : String) : Option KeyFilter :=
  if s = "any" then some .any
  else match s.splitOn ":" with
    | ["exact", h] => (Bytes.ofHex h).map .exact
    | ["pre", h] => (Bytes.ofHex h).map .pre
    | _ => none

open Tables in
def parseAuthorFilter? (s : String) : Option AuthorFilter :=
  if s = "*" then some .any else (Bytes.ofHex s).map .exact

open Tables in
/-- `<kind> <author|*> <keyfilter> <limit|-> <offset> <incl> <desc>` -/
def parseQuery? : List String → Option Query
  | [kind, au, kf, lim, off, incl, desc] => do
    let kind ← (match kind with
      | "flat-ak" => some (QueryKind.flat .authorKey)
      | "flat-ka" => some (QueryKind.flat .keyAuthor)
      | "latest" => some QueryKind.latestPerKey
      | _ => none)
    let limit ← (if lim = "-" then some none else (parseNat? lim).map some)
    pure { kind, author := ← parseAuthorFilter? au, key := ← parseKeyFilter? kf, limit,
           offset := ← parseNat? off, includeEmpty := ← parseBool? incl, desc := ← parseBool? desc }
  | _ => none

def showHeads (hs : List (Bytes × Nat × Bytes)) : String :=
  "heads " ++ toString hs.length ++ " " ++
    ";".intercalate (hs.map fun (a, ts, k) => a.toHex ++ ":" ++ toString ts ++ ":" ++ k.toHex)

/-- sort a list of entries by id (insertion sort through `insertSorted`; ids are unique in a join
under `PayloadFunctional`, duplicates by id would be collapsed — the harness flags those cases) -/
def sortById (es : List Entry) : List Entry := es.foldl (fun acc e => insertSorted e acc) []

def step (w : World) (line : String) : World × String :=
  let toks := (line.trimAscii.toString.splitOn " ").filter (· ≠ "")
  match toks with
  | [] => (w, "")
  | "#" :: _ => (w, line)
  | ["reset"] => ({}, "ok")
  | ["new", sid] =>
    match parseNat? sid with
    | some sid => ((w.setSpec sid []), "ok")
    | none => (w, "bad-op")
  -- Spec.put on store sid; the entry is recorded as offered
  | ["put", sid, tok] =>
    match parseNat? sid, parseEntry? tok with
    | some sid, some e =>
      match w.getSpec sid with
      | some s =>
        let (s', out) := Spec.put s e
        let w := (w.setSpec sid s').addOffered sid e
        match out with
        | .notInserted => (w, "notinserted")
        | .inserted n => (w, "inserted " ++ toString n)
      | none => (w, "no-store")
    | _, _ => (w, "bad-op")
  | ["dump", sid] =>
    match parseNat? sid with
    | some sid =>
      match w.getSpec sid with
      | some s => (w, showEntries s)
      | none => (w, "no-store")
    | none => (w, "bad-op")
  | ["getexact", sid, ns, au, key, incl] =>
    match parseNat? sid, Bytes.ofHex ns, Bytes.ofHex au, Bytes.ofHex key, parseBool? incl with
    | some sid, some ns, some au, some key, some incl =>
      match w.getSpec sid with
      | some s =>
        match s.find? (fun e => e.ns == ns && e.author == au && e.key == key) with
        | some e => if incl || !e.isEmpty then (w, "some " ++ showEntry e) else (w, "none")
        | none => (w, "none")
      | none => (w, "no-store")
    | _, _, _, _, _ => (w, "bad-op")
  -- the oracle: the merge of everything offered to store sid
  | ["join", sid] =>
    match parseNat? sid with
    | some sid => (w, showEntries (sortById (Spec.join (w.getOffered sid))))
    | none => (w, "bad-op")
  -- ---- table level (Tables.lean) ----
  | ["tnew", sid] =>
    match parseNat? sid with
    | some sid => (w.setT sid {}, "ok")
    | none => (w, "bad-op")
  | ["tns", sid, ns, kind, raw] =>
    match parseNat? sid, Bytes.ofHex ns, parseNat? kind, Bytes.ofHex raw with
    | some sid, some ns, some kind, some raw =>
      match w.getT sid with
      | some t =>
        let (t', out) := Tables.importNamespace t ns kind raw
        (w.setT sid t', match out with | .inserted => "inserted" | .upgraded => "upgraded" | .noChange => "nochange")
      | none => (w, "no-store")
    | _, _, _, _ => (w, "bad-op")
  | ["tput", sid, tok] =>
    match parseNat? sid, parseEntry? tok with
    | some sid, some e =>
      match w.getT sid with
      | some t =>
        let (t', out) := Tables.put t e
        (w.setT sid t', match out with | .notInserted => "notinserted" | .inserted n => "inserted " ++ toString n)
      | none => (w, "no-store")
    | _, _ => (w, "bad-op")
  | "tquery" :: sid :: ns :: rest =>
    match parseNat? sid, Bytes.ofHex ns, parseQuery? rest with
    | some sid, some ns, some q =>
      match w.getT sid with
      | some t => (w, showEntries (Tables.query t ns q))
      | none => (w, "no-store")
    | _, _, _ => (w, "bad-op")
  -- the specification of a query, evaluated on the entries currently in the records table
  | "squery" :: sid :: ns :: rest =>
    match parseNat? sid, Bytes.ofHex ns, parseQuery? rest with
    | some sid, some ns, some q =>
      match w.getT sid with
      | some t => (w, showEntries (QuerySpec.spec t.records ns q))
      | none => (w, "no-store")
    | _, _, _ => (w, "bad-op")
  | ["tgetexact", sid, ns, au, key, incl] =>
    match parseNat? sid, Bytes.ofHex ns, Bytes.ofHex au, Bytes.ofHex key, parseBool? incl with
    | some sid, some ns, some au, some key, some incl =>
      match w.getT sid with
      | some t =>
        match Tables.getExact t.records ns au key incl with
        | some e => (w, "some " ++ showEntry e)
        | none => (w, "none")
      | none => (w, "no-store")
    | _, _, _, _, _ => (w, "bad-op")
  | ["theads", sid, ns] =>
    match parseNat? sid, Bytes.ofHex ns with
    | some sid, some ns =>
      match w.getT sid with
      | some t => (w, showHeads (Tables.latestForEachAuthor t ns))
      | none => (w, "no-store")
    | _, _ => (w, "bad-op")
  | _ => (w, "bad-op")

partial def loop (hin hout : IO.FS.Stream) (w : World) : IO Unit := do
  let line ← hin.getLine
  if line.isEmpty then
    hout.flush
    return ()
  let (w', out) := step w line
  hout.putStrLn out
  loop hin hout w'

def main : IO Unit := do
  loop (← IO.getStdin) (← IO.getStdout) {}
