import DocsModel.Model.Rpc
/-!
# A docs node as its clients see it (`src/api/actor.rs`, `src/engine.rs`, `src/engine/live.rs`,
the pass-through arms of `src/actor.rs`)

`Rpc.lean` models the capability-related handlers only. This file models every handler of
`RpcActor` that does not need a second node, together with the parts of the engine they go
through:

* `Engine::start_sync` / `Engine::leave` (`LiveActor::start_sync`, `LiveActor::leave`) with an
  empty peer list: the live actor keeps its own handle on the document (opened with `sync` and a
  subscription), remembered in `NamespaceStates`;
* `Engine::subscribe`: a client subscription is a sender held by the open replica; it lives until
  the document is closed completely;
* the default author (`DefaultAuthor::{get,set}`, refused deletion);
* the store actor's arms that only forward to the store: queries, download policies, the
  useful-peer list, authors, the document list, the content hashes handed to the blob store's
  garbage-collection protection (`gc_protect_task`).

A request is one step; the reply is the step's output. The handlers are sequential compositions of
store-actor requests with `?` error propagation, transcribed in that order.
-/

namespace DocNode
open Spec Actor Tables

structure NState where
  a : AState := {}
  /-- `NamespaceStates` of the live actor: the documents it is syncing -/
  syncing : List Bytes := []
  /-- documents whose open replica still holds the live actor's event sender -/
  liveSub : List Bytes := []
  /-- client subscriptions (`Engine::subscribe`) whose sender the open replica still holds; the flag
  says that the receiving end is gone: `doc_drop` makes the live actor drop its half of every
  subscription of the document (`leave` with `kill_subscribers`), which ends the merged stream and
  with it the task that held the receiver. The replica notices at the next event it sends. -/
  apiSubs : List (Nat × Bytes × Bool) := []
  nextSub : Nat := 0
  defaultAuthor : Bytes := []
deriving Repr

inductive Req where
  /-- `doc_create` with the secret the handler drew -/
  | create (ns raw : Bytes)
  | importNs (ns : Bytes) (kind : Nat) (raw : Bytes)
  | openDoc (ns : Bytes)
  | closeDoc (ns : Bytes)
  | status (ns : Bytes)
  | dropDoc (ns : Bytes)
  /-- `doc_del` (and a write whose shape the replica accepts) with the entry the replica signs; the
  author is `e.author` -/
  | setHash (ns : Bytes) (e : Entry)
  /-- `doc_set_hash` / `doc_set`: `Replica::insert`, which first refuses a zero length or the empty
  hash, then does as `setHash` -/
  | insertDoc (ns : Bytes) (e : Entry)
  | getExact (ns author key : Bytes) (includeEmpty : Bool)
  | getMany (ns : Bytes) (q : Query)
  | setPolicy (ns : Bytes) (p : Policy)
  | getPolicy (ns : Bytes)
  | getSyncPeers (ns : Bytes)
  /-- `SyncHandle::register_useful_peer`, what the live actor does after a successful session -/
  | registerPeer (ns : Bytes) (nanos : Nat) (peer : Bytes)
  /-- `doc_start_sync` with no peers (the stored useful peers are not dialable in this model) -/
  | startSync (ns : Bytes)
  | leave (ns : Bytes)
  | share (ns : Bytes) (write : Bool)
  | subscribe (ns : Bytes)
  | authorImport (a raw : Bytes)
  | authorExport (a : Bytes)
  | authorDelete (a : Bytes)
  | authorList
  | authorDefault
  | authorSetDefault (a : Bytes)
  /-- `SyncHandle::content_hashes` as `gc_protect_task` calls it -/
  | contentHashes
  | listDocs
deriving Repr

inductive Reply where
  /-- a reply the handler passes on from the store actor -/
  | act (r : Actor.Reply)
  /-- a write: the store actor's reply and the client subscriptions that are sent the event -/
  | wrote (r : Actor.Reply) (subs : List Nat)
  | policy (p : Policy)
  | peers (l : Option (List Bytes))
  | author (raw : Option Bytes)
  | authors (l : List Bytes)
  | authorId (a : Bytes)
  | hashes (l : List Bytes)
  | docs (l : List (Bytes × Nat))
  | ticket (kind : Nat) (raw : Bytes)
  | subscribed (id : Nat)
  | errAuthorNotFound
  /-- `InsertError::EntryIsEmpty` -/
  | errEntryIsEmpty
  | errDefaultAuthor
  /-- the store's "document not created" -/
  | errNoDocument
deriving Repr, DecidableEq

def authorGet (t : T) (a : Bytes) : Option Bytes := (t.authors.find? (fun r => r.1 == a)).map (·.2)

def authorInsert (r : Bytes × Bytes) : List (Bytes × Bytes) → List (Bytes × Bytes)
  | [] => [r]
  | x :: xs =>
    if r.1 < x.1 then r :: x :: xs
    else if x.1 < r.1 then x :: authorInsert r xs
    else r :: xs

/-- senders die with the `ReplicaInfo` that holds them: forget those of documents no longer open -/
def prune (s : NState) : NState :=
  { s with liveSub := s.liveSub.filter (fun ns => (getOpen s.a ns).isSome)
           apiSubs := s.apiSubs.filter (fun p => (getOpen s.a p.2.1).isSome) }

def withA (s : NState) (p : AState × Actor.Reply) : NState × Reply := ({ s with a := p.1 }, .act p.2)

/-- `LiveActor::start_sync` with no peers -/
def startSyncL (s : NState) (ns : Bytes) : NState × Actor.Reply :=
  if s.syncing.contains ns then (s, .ok)
  else
    match Actor.step s.a (.openR ns true true) with
    | (a', .ok) => ({ s with a := a', syncing := ns :: s.syncing, liveSub := ns :: s.liveSub.filter (· != ns) }, .ok)
    | (a', r) => ({ s with a := a' }, r)

/-- `ReplicaAction::Unsubscribe` with the live actor's sender: the open check, then the sender is
removed if the replica holds it -/
def unsubscribeLive (s : NState) (ns : Bytes) : NState × Actor.Reply :=
  if s.liveSub.contains ns then
    match Actor.step s.a (.unsubscribe ns) with
    | (a', r) => ({ s with a := a', liveSub := s.liveSub.filter (· != ns) }, r)
  else
    match getOpen s.a ns with
    | none => (s, .errNotOpen)
    | some _ => (s, .ok)

/-- `LiveActor::leave` (`kill_subscribers` only concerns the live actor's own event subscribers) -/
def leaveL (s : NState) (ns : Bytes) : NState × Actor.Reply :=
  if s.syncing.contains ns then
    let s := { s with syncing := s.syncing.filter (· != ns) }
    match Actor.step s.a (.setSync ns false) with
    | (a1, .ok) =>
      match unsubscribeLive { s with a := a1 } ns with
      | (s2, .ok) =>
        -- `sync.close(namespace).await?`: the reply (closed or not) is dropped
        ({ s2 with a := (Actor.step s2.a (.close ns)).1 }, .ok)
      | (s2, r) => (s2, r)
    | (a1, r) => ({ s with a := a1 }, r)
  else (s, .ok)

/-- `doc_create` / `doc_import`: the actor's import, then an open with default options -/
def importThenOpen (s : NState) (ns : Bytes) (kind : Nat) (raw : Bytes) : NState × Reply :=
  match Actor.step s.a (.importNamespace ns kind raw) with
  | (a1, .ok) => withA s (Actor.step a1 (.openR ns false false))
  | p => withA s p

/-- `leave` with `kill_subscribers`: the client streams of the document end -/
def markGone (s : NState) (ns : Bytes) : NState :=
  { s with apiSubs := s.apiSubs.map (fun p => if p.2.1 == ns then (p.1, p.2.1, true) else p) }

/-- a local write with the entry the replica signs: `get_author` comes first, then the open replica;
`Subscribers::send` tries every sender of the document and drops those whose receiver is gone -/
def writeLocal (s : NState) (ns : Bytes) (e : Entry) : NState × Reply :=
  match authorGet s.a.t e.author with
  | none => (s, .errAuthorNotFound)
  | some _ =>
    match Actor.step s.a (.insertLocal ns e) with
    | (a', .inserted n) =>
      -- `Subscribers::send`: every sender of the document is tried; those whose receiver is gone are dropped
      let gone := s.apiSubs.filter (fun p => p.2.1 == ns && p.2.2)
      let a'' := gone.foldl (fun a _ => (Actor.step a (.unsubscribe ns)).1) a'
      ({ s with a := a'', apiSubs := s.apiSubs.filter (fun p => !(p.2.1 == ns && p.2.2)) },
        .wrote (.inserted n) ((s.apiSubs.filter (fun p => p.2.1 == ns && !p.2.2)).map (·.1)))
    | (a', r) => ({ s with a := a' }, .wrote r [])

def stepRaw (s : NState) : Req → NState × Reply
  | .create ns raw => importThenOpen s ns 1 raw
  | .importNs ns kind raw => importThenOpen s ns kind raw
  | .openDoc ns => withA s (Actor.step s.a (.openR ns false false))
  | .closeDoc ns => ({ s with a := (Actor.step s.a (.close ns)).1 }, .act .ok)
  | .status ns => withA s (Actor.step s.a (.getState ns))
  | .dropDoc ns =>
    match leaveL s ns with
    | (s1, .ok) =>
      -- `kill_subscribers`: the client streams of this document end here, whatever the removal answers
      withA (markGone s1 ns) (Actor.step s1.a (.dropReplica ns))
    | (s1, r) => (s1, .act r)
  | .setHash ns e => writeLocal s ns e
  | .insertDoc ns e =>
    -- `get_author`, the open replica, then the guard of `Replica::insert`
    match authorGet s.a.t e.author with
    | none => (s, .errAuthorNotFound)
    | some _ =>
      match getOpen s.a ns with
      | none => (s, .wrote .errNotOpen [])
      | some _ => if Replica.insertGuard e then (s, .errEntryIsEmpty) else writeLocal s ns e
  | .getExact ns author key incl => withA s (Actor.step s.a (.getExact ns author key incl))
  | .getMany ns q =>
    match getOpen s.a ns with
    | none => (s, .act .errNotOpen)
    | some _ => (s, .act (.entries (Tables.query s.a.t ns q)))
  | .setPolicy ns p =>
    match Tables.setDownloadPolicy s.a.t ns p with
    | none => (s, .errNoDocument)
    | some t' => ({ s with a := { s.a with t := t' } }, .act .ok)
  | .getPolicy ns => (s, .policy (Tables.getDownloadPolicy s.a.t ns))
  | .getSyncPeers ns =>
    match getOpen s.a ns with
    | none => (s, .act .errNotOpen)
    | some _ => (s, .peers (Tables.getSyncPeers s.a.t ns))
  | .registerPeer ns nanos peer =>
    match Tables.registerUsefulPeer s.a.t ns nanos peer with
    | none => (s, .errNoDocument)
    | some t' => ({ s with a := { s.a with t := t' } }, .act .ok)
  | .startSync ns => let (s', r) := startSyncL s ns; (s', .act r)
  | .leave ns => let (s', r) := leaveL s ns; (s', .act r)
  | .share ns write =>
    if write then
      match Actor.step s.a (.exportSecret ns) with
      | (_, .secret raw) =>
        match startSyncL s ns with
        | (s', .ok) => (s', .ticket 1 raw)
        | (s', r) => (s', .act r)
      | (_, r) => (s, .act r)
    else
      match startSyncL s ns with
      | (s', .ok) => (s', .ticket 2 ns)
      | (s', r) => (s', .act r)
  | .subscribe ns =>
    match Actor.step s.a (.subscribe ns) with
    | (a', .ok) =>
      ({ s with a := a', apiSubs := s.apiSubs ++ [(s.nextSub, ns, false)], nextSub := s.nextSub + 1 }, .subscribed s.nextSub)
    | (a', r) => ({ s with a := a' }, .act r)
  | .authorImport a raw =>
    ({ s with a := { s.a with t := { s.a.t with authors := authorInsert (a, raw) s.a.t.authors } } }, .authorId a)
  | .authorExport a => (s, .author (authorGet s.a.t a))
  | .authorDelete a =>
    if a = s.defaultAuthor then (s, .errDefaultAuthor)
    else ({ s with a := { s.a with t := { s.a.t with authors := s.a.t.authors.filter (fun r => r.1 != a) } } }, .act .ok)
  | .authorList => (s, .authors (s.a.t.authors.map (·.1)))
  | .authorDefault => (s, .authorId s.defaultAuthor)
  | .authorSetDefault a =>
    match authorGet s.a.t a with
    | none => (s, .errAuthorNotFound)
    | some _ => ({ s with defaultAuthor := a }, .act .ok)
  | .contentHashes => (s, .hashes (Tables.contentHashes s.a.t))
  | .listDocs => (s, .docs (s.a.t.namespaces.map fun r => (r.1, r.2.1)))

def step (s : NState) (r : Req) : NState × Reply :=
  let (s', out) := stepRaw s r
  (prune s', out)

def run (s : NState) (rs : List Req) : NState × List Reply :=
  rs.foldl (fun (acc : NState × List Reply) r => let (s', o) := step acc.1 r; (s', acc.2 ++ [o])) (s, [])

/-- a node after start-up: the default author exists in the store (`DefaultAuthor::load`) -/
def init (author raw : Bytes) : NState :=
  { a := { t := { authors := [(author, raw)] } }, defaultAuthor := author }

end DocNode
