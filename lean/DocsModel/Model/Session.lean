import DocsModel.Model.Replica
/-!
# The two ends of a sync session (`src/net/codec.rs`: `run_alice`, `BobState::run`, `into_outcome`)

Both are total functions of: what the peer sends (a finite list of frames or undecodable bytes,
ended by a clean close or by a close in the middle of a frame), the accept decision, and the
replies of the store actor (`call`), which may fail (replica closed, sync disabled, actor gone).
-/

namespace Session
open Ranger Replica

/-- frames with logical messages -/
inductive Frame where
  | init (ns : Bytes) (m : Message)
  | sync (m : Message)
  | abort (reason : Nat)
deriving Repr, DecidableEq

/-- what arrives from the peer -/
inductive Item where
  | frame (f : Frame)
  /-- bytes that do not decode to a frame -/
  | garbage
deriving Repr, DecidableEq

inductive StreamEnd where
  | eof
  /-- the stream ends inside a frame -/
  | truncated
deriving Repr, DecidableEq

inductive Accept where
  | allow
  | reject (reason : Nat)
deriving Repr, DecidableEq

/-- the store actor as seen from a session: state, and one `sync_process_message` call that may
fail (`none`) -/
structure Actor (S : Type) where
  call : S → (ns : Bytes) → Message → Outcome → Option (S × Option Message × Outcome)
  initial : S → (ns : Bytes) → Option Message

inductive BobResult where
  | ok (ns : Bytes)
  | aborted (ns : Bytes) (reason : Nat)
  | failed
deriving Repr, DecidableEq

structure BobOut (S : Type) where
  result : BobResult
  /-- frames written to the peer, in order -/
  written : List Frame
  /-- `self.progress`: what `into_outcome()` unwraps -/
  progress : Option Outcome
  store : S
  /-- number of store calls made -/
  calls : Nat
  /-- `self.namespace` when `run` returns: what `state.namespace()` tells `handle_connection`, which
  puts it into the error it reports when closing the streams fails -/
  nsAtExit : Option Bytes := none

/-- `BobState::run` (with the F7 repair: the progress stays in place during a store call) -/
def bobLoop {S : Type} (actor : Actor S) (accept : Bytes → Accept) :
    List Item → StreamEnd → (nsOpt : Option Bytes) → (progress : Option Outcome) → S →
    (written : List Frame) → (calls : Nat) → BobOut S
  | [], .eof, ns, progress, s, written, calls =>
    -- the stream closed: fine if a namespace was negotiated
    match ns with
    | some n => { result := .ok n, written, progress, store := s, calls, nsAtExit := ns }
    | none => { result := .failed, written, progress, store := s, calls, nsAtExit := ns }
  | [], .truncated, ns, progress, s, written, calls =>
    { result := .failed, written, progress, store := s, calls, nsAtExit := ns }
  | .garbage :: _, _, ns, progress, s, written, calls =>
    { result := .failed, written, progress, store := s, calls, nsAtExit := ns }
  | .frame f :: rest, e, ns, progress, s, written, calls =>
    let fail : BobOut S := { result := .failed, written, progress, store := s, calls, nsAtExit := ns }
    -- the two arms that reach the store
    let process := fun (n : Bytes) (m : Message) (nsAfter : Option Bytes) =>
      match progress with
      | none => fail   -- unreachable: `progress` is never taken
      | some p =>
        match actor.call s n m p with
        -- (in the init arm the document is recorded before the failed call is looked at)
        | none => { result := .failed, written, progress, store := s, calls := calls + 1, nsAtExit := nsAfter }
        | some (s', reply, p') =>
          match reply with
          | some r => bobLoop actor accept rest e nsAfter (some p') s' (written ++ [.sync r]) (calls + 1)
          | none => { result := .ok n, written, progress := some p', store := s', calls := calls + 1, nsAtExit := nsAfter }
    match f, ns with
    | .init n m, none =>
      match accept n with
      | .reject reason =>
        { result := .aborted n reason, written := written ++ [.abort reason], progress, store := s, calls, nsAtExit := ns }
      | .allow => process n m (some n)
    | .sync m, some n => process n m (some n)
    | .init _ _, some _ => fail
    | .sync _, none => fail
    | .abort _, _ => fail

def bobRun {S : Type} (actor : Actor S) (accept : Bytes → Accept) (items : List Item) (e : StreamEnd) (s : S) :
    BobOut S :=
  bobLoop actor accept items e none (some {}) s [] 0

/-- what `net::handle_connection` reports to the live actor: the session's result, unless closing the
streams fails (the peer went away), in which case a close error that names the document
`state.namespace()` knows of -/
inductive Accepted where
  | finished (ns : Bytes)
  | abort (ns : Bytes) (reason : Nat)
  /-- `AcceptError::Sync` / `AcceptError::Close` with the document they name, if any -/
  | error (ns : Option Bytes)
deriving Repr, DecidableEq

def handleConnection {S : Type} (out : BobOut S) (closeFails : Bool) : Accepted :=
  if closeFails then .error out.nsAtExit
  else match out.result with
    | .ok n => .finished n
    | .aborted n r => .abort n r
    | .failed => .error out.nsAtExit

inductive AliceResult where
  | ok (o : Outcome)
  | remoteAbort (reason : Nat)
  | failed
deriving Repr

structure AliceOut (S : Type) where
  result : AliceResult
  written : List Frame
  store : S
  calls : Nat

/-- the message loop of `run_alice` -/
def aliceLoop {S : Type} (actor : Actor S) (ns : Bytes) :
    List Item → StreamEnd → (progress : Outcome) → S → (written : List Frame) → (calls : Nat) → AliceOut S
  | [], .eof, progress, s, written, calls => { result := .ok progress, written, store := s, calls }
  | [], .truncated, _, s, written, calls => { result := .failed, written, store := s, calls }
  | .garbage :: _, _, _, s, written, calls => { result := .failed, written, store := s, calls }
  | .frame (.init _ _) :: _, _, _, s, written, calls => { result := .failed, written, store := s, calls }
  | .frame (.abort r) :: _, _, _, s, written, calls => { result := .remoteAbort r, written, store := s, calls }
  | .frame (.sync m) :: rest, e, progress, s, written, calls =>
    match actor.call s ns m progress with
    | none => { result := .failed, written, store := s, calls := calls + 1 }
    | some (s', reply, p') =>
      match reply with
      | some r => aliceLoop actor ns rest e p' s' (written ++ [.sync r]) (calls + 1)
      | none => { result := .ok p', written, store := s', calls := calls + 1 }

/-- `run_alice`: the initial message, then the loop -/
def aliceRun {S : Type} (actor : Actor S) (ns : Bytes) (items : List Item) (e : StreamEnd) (s : S) : AliceOut S :=
  match actor.initial s ns with
  | none => { result := .failed, written := [], store := s, calls := 0 }
  | some m0 => aliceLoop actor ns items e {} s [.init ns m0] 0

/-! ## the store actor over the table model -/

/-- an open replica of document `ns0` with sync enabled, whose calls fail from call number
`failFrom` on (the replica was closed, sync was disabled or the actor was shut down); requests for
another document fail (it is not open) -/
structure TState where
  t : Tables.T
  done : Nat := 0

def tableActor (ns0 : Bytes) (now : Nat) (failFrom : Option Nat) : Actor TState where
  call s ns m o :=
    if ns ≠ ns0 then none
    else if (match failFrom with | some k => decide (s.done ≥ k) | none => false) then none
    else
      let (st, o') := syncProcessMessage {} s.t ns now m o
      some ({ t := st.store, done := s.done + 1 }, st.reply, o')
  initial s ns :=
    if ns ≠ ns0 then none
    else if (match failFrom with | some k => decide (s.done ≥ k) | none => false) then none
    else some (initialMessage (tableOps ns) s.t)

end Session
