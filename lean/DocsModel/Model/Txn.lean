import DocsModel.Model.Replica
/-!
# The store's transaction layer (`src/store/fs.rs`: `tables`, `modify`, `flush`, `snapshot`,
`snapshot_owned`, `modify_in_current`)

`durable` is what a reopened database shows (redb commits atomically and recovers to the last
commit — trusted). Every `tables()` / `modify()` access may find the open write transaction older
than `MAX_COMMIT_DELAY` and commit it first: that is decided by the oracle `aged`, indexed by a
global access counter.
-/

namespace Txn
open Tables

inductive Cur where
  | none
  | read
  | write (work : T)
deriving Repr

structure P where
  durable : T := {}
  cur : Cur := .none
  /-- number of `tables()` / `modify()` accesses so far -/
  accesses : Nat := 0
deriving Repr

/-- the state operations see -/
def P.view (p : P) : T := match p.cur with | .write w => w | _ => p.durable

/-- `tables()` (f = id) / `modify(f)`: maybe commit an aged write transaction, then continue (or
begin) a write transaction and apply `f` -/
def P.access (p : P) (aged : Nat → Bool) (f : T → T) : P :=
  let (durable, work) := match p.cur with
    | .write w => if aged p.accesses then (w, w) else (p.durable, w)
    | _ => (p.durable, p.durable)
  { durable, cur := .write (f work), accesses := p.accesses + 1 }

/-- `modify_in_current` (F10 repair): continue the open write transaction without the age check -/
def P.accessInCurrent (p : P) (aged : Nat → Bool) (f : T → T) : P :=
  match p.cur with
  | .write w => { p with cur := .write (f w) }
  | _ => p.access aged f

/-- `flush()` (also the first half of `snapshot_owned`, i.e. of `get_many` / `content_hashes`) -/
def P.flush (p : P) : P :=
  match p.cur with
  | .write w => { p with durable := w, cur := .none }
  | _ => { p with cur := .none }

/-- `snapshot()` (`list_namespaces`, `list_authors`) -/
def P.snapshot (p : P) : P :=
  match p.cur with
  | .write w => { p with durable := w, cur := .read }
  | .none => { p with cur := .read }
  | .read => p

/-- the process dies: only what was committed remains -/
def P.crash (p : P) : P := { durable := p.durable, cur := .none, accesses := p.accesses }

/-! ## store operations as sequences of accesses -/

inductive Op where
  /-- `open_replica` + `insert_remote_entry` of a valid entry -/
  | put (e : Entry)
  | importNs (ns : Bytes) (kind : Nat) (raw : Bytes)
  | remove (ns : Bytes)
  | peer (ns : Bytes) (nanos : Nat) (peerId : Bytes)
  | policy (ns : Bytes) (pol : Policy)
  | flush
  /-- a read through `tables()` (`get_exact`, `get_latest_for_each_author`, …) -/
  | readTables
  /-- a read through `snapshot_owned()` (`get_many`, `content_hashes`): commits -/
  | readSnapshotOwned
  /-- a read through `snapshot()` (`list_namespaces`): commits -/
  | readSnapshot
deriving Repr

/-- what the operation does to the tables when it runs to completion -/
def Op.effect (t : T) : Op → T
  | .put e => (remotePut t e).1
  | .importNs ns kind raw => (importNamespace t ns kind raw).1
  | .remove ns => removeReplica t ns
  | .peer ns nanos pid => (registerUsefulPeer t ns nanos pid).getD t
  | .policy ns pol => (setDownloadPolicy t ns pol).getD t
  | _ => t

/-- the prune half of `put` -/
def prunedRecords (t : T) (e : Entry) : T := { t with records := (removePrefixFiltered t.records e).2 }

/-- run one operation; `splitPut = true` is the code before the F10 repair (`entry_put` through
`modify`, with the age check) -/
def P.run (splitPut : Bool) (aged : Nat → Bool) (p : P) : Op → P
  | .put e =>
    -- open_replica: load_replica_info
    let p := p.access aged id
    match nsGet p.view e.ns with
    | none => p
    | some _ =>
      -- prefixes_of
      let p := p.access aged id
      if (parents p.view.records e.ns e.author e.key).any (fun q => decide (Entry.valueLe e q)) then p
      else
        -- remove_prefix_filtered, then entry_put
        let p := p.access aged (fun t => prunedRecords t e)
        let p := if splitPut then p.access aged (fun t => entryPut t e) else p.accessInCurrent aged (fun t => entryPut t e)
        -- get_download_policy for the event
        p.access aged id
  | .importNs ns kind raw => p.access aged (fun t => (importNamespace t ns kind raw).1)
  | .remove ns => p.access aged (fun t => removeReplica t ns)
  | .peer ns nanos pid => p.access aged (fun t => (registerUsefulPeer t ns nanos pid).getD t)
  | .policy ns pol => p.access aged (fun t => (setDownloadPolicy t ns pol).getD t)
  | .flush => p.flush
  | .readTables => p.access aged id
  | .readSnapshotOwned => p.flush
  | .readSnapshot => p.snapshot

def P.runAll (splitPut : Bool) (aged : Nat → Bool) (p : P) (ops : List Op) : P :=
  ops.foldl (P.run splitPut aged) p

end Txn
