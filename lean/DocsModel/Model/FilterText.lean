import DocsModel.Model.Tables
/-!
# Textual form of `FilterKind` (`impl Display` / `impl FromStr` in `src/store.rs`)

Text is handled as its UTF-8 bytes; `:` is ASCII, so `str::split_once(':')` is a byte-level split.
Whether a byte string is valid UTF-8 is decided outside the model and passed in as `utf8`.
-/

namespace FilterText
open Tables

def colon : UInt8 := 58

/-- the ASCII bytes of `"prefix"`, `"exact"`, `"utf8"`, `"hex"` -/
def kPrefix : Bytes := [112, 114, 101, 102, 105, 120]
def kExact : Bytes := [101, 120, 97, 99, 116]
def kUtf8 : Bytes := [117, 116, 102, 56]
def kHex : Bytes := [104, 101, 120]

/-- lower-case hex, as `hex::encode` -/
def hexEncode (b : Bytes) : Bytes :=
  b.flatMap fun x =>
    let d := fun (n : Nat) => if n < 10 then UInt8.ofNat (48 + n) else UInt8.ofNat (87 + n)
    [d (x.toNat / 16), d (x.toNat % 16)]

def hexVal (c : UInt8) : Option Nat :=
  if 48 ≤ c.toNat ∧ c.toNat ≤ 57 then some (c.toNat - 48)
  else if 97 ≤ c.toNat ∧ c.toNat ≤ 102 then some (c.toNat - 87)
  else if 65 ≤ c.toNat ∧ c.toNat ≤ 70 then some (c.toNat - 55)
  else none

/-- `hex::decode`: even length, both cases accepted -/
def hexDecode : Bytes → Option Bytes
  | [] => some []
  | [_] => none
  | a :: b :: rest =>
    match hexVal a, hexVal b, hexDecode rest with
    | some x, some y, some r => some (UInt8.ofNat (x * 16 + y) :: r)
    | _, _, _ => none

/-- `Display for FilterKind` -/
def display (f : FilterKind) (utf8 : Bool) : Bytes :=
  let (kind, bytes) := match f with
    | .pre b => (kPrefix, b)
    | .exact b => (kExact, b)
  if utf8 then kind ++ [colon] ++ kUtf8 ++ [colon] ++ bytes
  else kind ++ [colon] ++ kHex ++ [colon] ++ hexEncode bytes

/-- `str::split_once(':')` -/
def splitOnce : Bytes → Option (Bytes × Bytes)
  | [] => none
  | c :: rest =>
    if c = colon then some ([], rest)
    else match splitOnce rest with
      | some (a, b) => some (c :: a, b)
      | none => none

/-- `FromStr for FilterKind` -/
def parse (s : Bytes) : Option FilterKind :=
  match splitOnce s with
  | none => none
  | some (kind, rest) =>
    match splitOnce rest with
    | none => none
    | some (encoding, rest) =>
      let isExact : Option Bool :=
        if kind = kExact then some true else if kind = kPrefix then some false else none
      match isExact with
      | none => none
      | some ex =>
        let decoded : Option Bytes :=
          if encoding = kUtf8 then some rest
          else if encoding = kHex then hexDecode rest
          else none
        match decoded with
        | none => none
        | some d => some (if ex then .exact d else .pre d)

end FilterText
