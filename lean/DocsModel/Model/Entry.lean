import DocsModel.Model.Bytes
/-!
# Entries (`SignedEntry`, `Record`, `RecordIdentifier` of `src/sync.rs`)

Signatures are opaque to the model: `sig` identifies the pair of signature byte strings, and
`nsSigOk` / `authorSigOk` say whether `iroh::PublicKey::verify` accepts them over the entry's
canonical bytes (Ed25519 is part of the trusted base, not of the model).
-/

structure Entry where
  ns : Bytes
  author : Bytes
  key : Bytes
  ts : Nat
  len : Nat
  hash : Bytes
  sig : Nat := 0
  nsSigOk : Bool := true
  authorSigOk : Bool := true
  /-- `RangeEntry::as_fingerprint`: BLAKE3 over namespace ‖ author ‖ key ‖ timestamp ‖ hash. The hash
  function is outside the model; the harness supplies the value with the entry. -/
  fp : Bytes := []
deriving DecidableEq, Repr, Inhabited

namespace Entry

/-- BLAKE3 of the empty input: `Hash::EMPTY`. -/
def emptyHash : Bytes :=
  [0xaf,0x13,0x49,0xb9,0xf5,0xf9,0xa1,0xa6,0xa0,0x40,0x4d,0xea,0x36,0xdc,0xc9,0x49,
   0x9b,0xcb,0x25,0xc9,0xad,0xc1,0x12,0xb7,0xcc,0x9a,0x93,0xca,0xe4,0x1f,0x32,0x62]

/-- `Record::is_empty`: a deletion marker -/
def isEmpty (e : Entry) : Bool := e.hash == emptyHash

/-- `impl Ord for Record`: timestamp, then content hash (`len` does not take part). -/
def valueLe (a b : Entry) : Prop := a.ts < b.ts ∨ (a.ts = b.ts ∧ a.hash ≤ b.hash)

instance (a b : Entry) : Decidable (valueLe a b) := by unfold valueLe; exact inferInstance

/-- same `RecordIdentifier` -/
def sameId (a b : Entry) : Prop := a.ns = b.ns ∧ a.author = b.author ∧ a.key = b.key

instance (a b : Entry) : Decidable (sameId a b) := by unfold sameId; exact inferInstance

/-- order of the `records-1` table key `(namespace, author, key)`; redb compares tuple keys
element-wise and byte strings lexicographically. -/
def idLt (a b : Entry) : Prop :=
  a.ns < b.ns ∨ (a.ns = b.ns ∧ (a.author < b.author ∨ (a.author = b.author ∧ a.key < b.key)))

instance (a b : Entry) : Decidable (idLt a b) := by unfold idLt; exact inferInstance

/-- `RecordIdentifier` as the code holds it: one byte string `namespace ‖ author ‖ key`. -/
def idBytes (e : Entry) : Bytes := e.ns ++ e.author ++ e.key

/-- `p` is at the same namespace and author, at a key that is a prefix of `e`'s key. -/
def covers (p e : Entry) : Prop := p.ns = e.ns ∧ p.author = e.author ∧ p.key <+: e.key

instance (p e : Entry) : Decidable (covers p e) := by unfold covers; exact inferInstance

/-- `p` dominates `e`: it covers it and is not older. A stored `p` makes `put e` answer
`NotInserted`; an inserted `p` removes a stored `e`. -/
def dom (p e : Entry) : Prop := covers p e ∧ valueLe e p

instance (p e : Entry) : Decidable (dom p e) := by unfold dom; exact inferInstance

end Entry
