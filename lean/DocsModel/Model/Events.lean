import DocsModel.Model.Replica
/-!
# Insert events and subscribers (`Subscribers`, `Event`, `insert_entry`, the `on_insert` callback)

An open replica keeps a list of subscriber channels. `Subscribers::send` delivers the event to
every channel in order and drops the channels whose receiver is gone.
-/

namespace Events
open Spec Ranger Replica

structure Event where
  entry : Entry
  /-- `RemoteInsert` (true) or `LocalInsert` (false) -/
  remote : Bool
  /-- providing peer (remote events) -/
  peer : Bytes := []
  /-- content status reported by the peer (remote events) -/
  status : Nat := 0
  /-- `should_download`: what the download policy says for the key (remote events) -/
  shouldDownload : Bool := false
deriving DecidableEq, Repr

structure State where
  t : Tables.T := {}
  /-- subscribed channels, in subscription order -/
  subs : List Nat := []
  /-- channels whose receiver has been dropped -/
  closed : List Nat := []
  /-- what each channel has received, oldest first -/
  inbox : List (Nat × List Event) := []
  /-- every applied entry as an event, oldest first (the reference log) -/
  applied : List Event := []
deriving Repr

def inboxOf (s : State) (id : Nat) : List Event := (s.inbox.lookup id).getD []

def deliver (inbox : List (Nat × List Event)) (id : Nat) (ev : Event) : List (Nat × List Event) :=
  (id, ((inbox.lookup id).getD []) ++ [ev]) :: inbox.filter (·.1 != id)

/-- `Subscribers::send`: every open channel gets the event; closed ones are forgotten -/
def emit (s : State) (ev : Event) : State :=
  let live := s.subs.filter (fun id => !s.closed.contains id)
  { s with subs := live,
           inbox := live.foldl (fun ib id => deliver ib id ev) s.inbox,
           applied := s.applied ++ [ev] }

/-- `send_with`: nothing happens (not even the pruning of closed channels) without subscribers -/
def emitIfAny (s : State) (ev : Event) : State :=
  if s.subs.isEmpty then { s with applied := s.applied ++ [ev] } else emit s ev

def subscribe (s : State) (id : Nat) : State := { s with subs := s.subs ++ [id] }
def unsubscribe (s : State) (id : Nat) : State := { s with subs := s.subs.filter (· != id) }
def dropReceiver (s : State) (id : Nat) : State := { s with closed := id :: s.closed }

/-- `Replica::insert` / `delete_prefix` (write capability present): `insert_entry` with local origin -/
def localInsert (s : State) (e : Entry) : State × Tables.InsertResult :=
  match Tables.put s.t e with
  | (t', .inserted n) => (emit { s with t := t' } { entry := e, remote := false }, .inserted n)
  | (_, .notInserted) => (s, .notInserted)

/-- `Replica::insert` / `delete_prefix` through the open replica: the write capability is needed
(the copy of the capability an open replica holds equals the stored one, C14 `OpenInv`) -/
def localInsertCap (s : State) (e : Entry) : State × Tables.InsertResult :=
  match Tables.nsGet s.t e.ns with
  | some (1, _) => localInsert s e
  | some _ => (s, .readOnly)
  | none => (s, .notFound)

/-- `ImportNamespace` while the replica is open: the capability row (and the open copy) change,
the subscribers stay -/
def importCap (s : State) (ns : Bytes) (kind : Nat) (raw : Bytes) : State :=
  { s with t := (Tables.importNamespace s.t ns kind raw).1 }

/-- `Replica::insert_remote_entry` -/
def remoteInsert (s : State) (ns : Bytes) (now : Nat) (e : Entry) (peer : Bytes) (status : Nat) :
    State × Replica.InsertResult :=
  match insertRemoteEntry s.t ns now e with
  | (t', .ok n) =>
    (emit { s with t := t' }
      { entry := e, remote := true, peer := peer, status := status,
        shouldDownload := (Tables.getDownloadPolicy t' ns).matches e.key }, .ok n)
  | (_, r) => (s, r)

/-- `Replica::sync_process_message`: one `RemoteInsert` per entry that `process_message` inserted,
in insertion order, with the download policy read once before processing -/
def syncProcess (cfg : Config) (s : State) (ns : Bytes) (now : Nat) (msg : Message) (peer : Bytes)
    (o : Replica.Outcome) : State × Step Tables.T × Replica.Outcome :=
  let policy := Tables.getDownloadPolicy s.t ns
  let (st, o') := syncProcessMessage cfg s.t ns now msg o
  let s' := st.inserted.foldl (fun s (v : Entry × Status) =>
    emitIfAny s { entry := v.1, remote := true, peer := peer, status := v.2,
                  shouldDownload := policy.matches v.1.key }) { s with t := st.store }
  (s', st, o')

end Events
