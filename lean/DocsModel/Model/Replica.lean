import DocsModel.Model.Ranger
/-!
# `Replica` (`src/sync.rs`): validation and the two ingress paths

`validateEntry` / `validateEmpty` as written; `insertRemoteEntry` (`Replica::insert_remote_entry`)
and `syncProcessMessage` (`Replica::sync_process_message`: the validate callback handed to
`process_message`, the counters of `SyncOutcome`, the events).
-/

namespace Replica
open Spec Ranger

/-- `MAX_TIMESTAMP_FUTURE_SHIFT`: ten minutes in microseconds -/
def maxFutureShift : Nat := 600000000

inductive Failure where
  | invalidNamespace
  | badSignature
  | tooFarInTheFuture
  | invalidEmptyEntry
deriving Repr, DecidableEq

/-- `Entry::validate_empty`: the empty hash exactly when the length is zero -/
def validateEmpty (e : Entry) : Bool := (e.hash == Entry.emptyHash) == (e.len == 0)

/-- `validate_entry` for a non-local origin -/
def validateEntry (now : Nat) (ns : Bytes) (e : Entry) : Option Failure :=
  if e.ns ≠ ns then some .invalidNamespace
  else if !(e.nsSigOk && e.authorSigOk) then some .badSignature
  else if e.ts > now + maxFutureShift then some .tooFarInTheFuture
  else none

/-- the guard at the top of `Replica::insert`: a local write with a zero length *or* the empty hash
is refused (`InsertError::EntryIsEmpty`) before anything else happens -/
def insertGuard (e : Entry) : Bool := e.len == 0 || e.hash == Entry.emptyHash

inductive InsertResult where
  | ok (removed : Nat)
  | newerEntryExists
  | failed (f : Failure)
deriving Repr, DecidableEq

/-- `Replica::insert_remote_entry` on an open replica of document `ns` -/
def insertRemoteEntry (t : Tables.T) (ns : Bytes) (now : Nat) (e : Entry) : Tables.T × InsertResult :=
  if !validateEmpty e then (t, .failed .invalidEmptyEntry)
  else match validateEntry now ns e with
    | some f => (t, .failed f)
    | none =>
      match Tables.put t e with
      | (t', .inserted n) => (t', .ok n)
      | (t', .notInserted) => (t', .newerEntryExists)

/-- the validate callback of `sync_process_message` (with the F3 repair: both checks) -/
def syncValidate (now : Nat) (ns : Bytes) (e : Entry) : Bool :=
  validateEmpty e && (validateEntry now ns e).isNone

/-- `SyncOutcome` counters -/
structure Outcome where
  numRecv : Nat := 0
  numSent : Nat := 0
  /-- `heads_received`: greatest timestamp seen per author in received values -/
  headsReceived : List (Bytes × Nat) := []
deriving Repr

def bumpHeads (h : List (Bytes × Nat)) (a : Bytes) (ts : Nat) : List (Bytes × Nat) :=
  match h with
  | [] => [(a, ts)]
  | (b, t) :: rest =>
    if a < b then (a, ts) :: (b, t) :: rest
    else if b < a then (b, t) :: bumpHeads rest a ts
    else (b, max t ts) :: rest

/-- `Replica::sync_process_message` on the tables; content status of outgoing entries is
`Missing` (no callback registered) -/
def syncProcessMessage (cfg : Config) (t : Tables.T) (ns : Bytes) (now : Nat) (msg : Message) (o : Outcome) :
    Step Tables.T × Outcome :=
  let vals := msg.flatMap fun p => match p with | .item _ vs _ => vs | .fingerprint _ _ => []
  let o := { o with numRecv := o.numRecv + valueCount msg,
                    headsReceived := vals.foldl (fun h v => bumpHeads h v.1.author v.1.ts) o.headsReceived }
  let st := processMessage (tableOps ns) cfg (syncValidate now ns) (fun _ => 2) t msg
  let o := match st.reply with
    | some r => { o with numSent := o.numSent + valueCount r }
    | none => o
  (st, o)

end Replica

namespace Replica
open Spec Ranger

/-- A session between two replicas of document `ns` with `SyncOutcome` bookkeeping
(`run_alice` / `BobState::run`): `msg` is in flight to `b`. Returns whether the session completed
within the fuel, the number of messages, and both sides. -/
def sessionO (cfg : Config) (ns : Bytes) (now : Nat) :
    (fuel : Nat) → (a : Tables.T × Outcome) → (b : Tables.T × Outcome) → (msg : Message) →
    Bool × Nat × (Tables.T × Outcome) × (Tables.T × Outcome)
  | 0, a, b, _ => (false, 0, a, b)
  | fuel + 1, a, b, msg =>
    let (st, ob) := syncProcessMessage cfg b.1 ns now msg b.2
    match st.reply with
    | none => (true, 1, a, (st.store, ob))
    | some reply =>
      let (done, n, b', a') := sessionO cfg ns now fuel (st.store, ob) a reply
      (done, n + 1, a', b')

end Replica

namespace Replica

/-- **What "valid" means (C03)**: in the replica's document, both signatures verify over exactly
the entry's content, at most ten minutes ahead of the local clock, and a proper deletion marker or
a proper non-empty record. -/
def Valid (now : Nat) (ns : Bytes) (e : Entry) : Prop :=
  e.ns = ns ∧ e.nsSigOk = true ∧ e.authorSigOk = true ∧ e.ts ≤ now + maxFutureShift ∧
  ((e.hash = Entry.emptyHash ∧ e.len = 0) ∨ (e.hash ≠ Entry.emptyHash ∧ e.len ≠ 0))

instance (now : Nat) (ns : Bytes) (e : Entry) : Decidable (Valid now ns e) := by
  unfold Valid; exact inferInstance

end Replica
