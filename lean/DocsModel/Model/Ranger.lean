import DocsModel.Model.Tables
/-!
# Range-based set reconciliation (`src/ranger.rs`)

`processMessage` transcribes `Store::process_message` line by line over an abstract store
interface, so that the same function runs on the redb tables (`tableOps`) and on a plain ordered map
(`mapOps`). Keys are `RecordIdentifier`s = `namespace ‖ author ‖ key` byte strings.
-/

namespace Ranger
open Spec

structure Range where
  x : Bytes
  y : Bytes
deriving DecidableEq, Repr

/-- `Range::contains` -/
def Range.contains (r : Range) (t : Bytes) : Prop :=
  if r.x = r.y then True
  else if r.x < r.y then r.x ≤ t ∧ t < r.y
  else r.x ≤ t ∨ t < r.y

instance (r : Range) (t : Bytes) : Decidable (r.contains t) := by
  unfold Range.contains; split; exact inferInstance; split <;> exact inferInstance

/-- `ContentStatus`: 0 complete, 1 incomplete, 2 missing -/
abbrev Status := Nat

inductive Part where
  | fingerprint (range : Range) (fp : Bytes)
  | item (range : Range) (values : List (Entry × Status)) (haveLocal : Bool)
deriving Repr, DecidableEq

abbrev Message := List Part

structure Config where
  maxSetSize : Nat := 1
  splitFactor : Nat := 2
deriving Repr

/-- the store primitives `process_message` uses -/
structure Ops (S : Type) where
  getFirst : S → Bytes
  /-- entries of the range, in the backend's iteration order -/
  getRange : S → Range → List Entry
  getFingerprint : S → Range → Bytes
  put : S → Entry → S × Outcome

/-- `Fingerprint::empty()` -/
def emptyFp : Bytes := Entry.emptyHash

/-- `Message::init` -/
def initialMessage {S : Type} (ops : Ops S) (s : S) : Message :=
  let x := ops.getFirst s
  [.fingerprint ⟨x, x⟩ (ops.getFingerprint s ⟨x, x⟩)]

def valueCount (m : Message) : Nat :=
  (m.map fun p => match p with | .item _ vs _ => vs.length | .fingerprint _ _ => 0).sum

/-- the split of a mismatching range into sub-ranges (`Case3 Recurse`) -/
def splitRanges (cfg : Config) (range : Range) (els : List Entry) : List Range :=
  let n := els.length
  let k := cfg.splitFactor
  -- first index whose key is `>= range.x` (iteration order: the wrapped-around low part comes first)
  let startIndex := (els.takeWhile (fun el => decide (el.idBytes < range.x))).length
  let pivot := fun (i : Nat) =>
    let i := i % k
    let offset := (n * (i + 1)) / k
    let offset := (startIndex + offset) % n
    ((els[offset]?).map (·.idBytes)).getD []
  if range.x = range.y then
    (List.range k).filterMap fun i =>
      let x := pivot i; let y := pivot (i + 1)
      if x ≠ y then some ⟨x, y⟩ else none
  else
    [⟨range.x, pivot 0⟩] ++
    ((List.range (k - 2)).filterMap fun i =>
      let x := pivot i; let y := pivot (i + 1)
      if x ≠ y then some ⟨x, y⟩ else none) ++
    [⟨pivot (k - 2), range.y⟩]

/-- result of processing one message: new store, reply, and the entries inserted (with the
content status the peer reported), in insertion order -/
structure Step (S : Type) where
  store : S
  reply : Option Message
  inserted : List (Entry × Status)

/-- `Store::process_message`. `validate` is the validate callback, `statusOf` the content status
callback for outgoing entries. -/
def processMessage {S : Type} (ops : Ops S) (cfg : Config) (validate : Entry → Bool)
    (statusOf : Entry → Status) (s : S) (msg : Message) : Step S :=
  let items := msg.filterMap fun p => match p with
    | .item r vs hl => some (r, vs, hl) | .fingerprint _ _ => none
  let fps := msg.filterMap fun p => match p with
    | .fingerprint r fp => some (r, fp) | .item _ _ _ => none
  -- Process item messages
  let (s, out, evs) := items.foldl (fun (acc : S × List Part × List (Entry × Status)) it =>
    let (s, out, evs) := acc
    let (range, values, haveLocal) := it
    -- our entries of the range that the peer does not have at least as new
    let diff : Option (List (Entry × Status)) :=
      if haveLocal then none
      else some (((ops.getRange s range).filter fun our =>
        !values.any fun (their, _) => decide (Entry.sameId our their) && decide (Entry.valueLe our their)).map
          fun e => (e, statusOf e))
    -- Store incoming values
    let (s, evs) := values.foldl (fun (acc : S × List (Entry × Status)) v =>
      let (s, evs) := acc
      if validate v.1 then
        match ops.put s v.1 with
        | (s', .inserted _) => (s', evs ++ [v])
        | (s', .notInserted) => (s', evs)
      else (s, evs)) (s, evs)
    let out := match diff with
      | some d => if d.isEmpty then out else out ++ [.item range d true]
      | none => out
    (s, out, evs)) (s, [], [])
  -- Process fingerprint messages
  let out := fps.foldl (fun out (it : Range × Bytes) =>
    let (range, fp) := it
    let localFp := ops.getFingerprint s range
    if localFp = fp then out
    else
      let els := ops.getRange s range
      if els.length ≤ 1 ∨ fp = emptyFp then
        out ++ [.item range (els.map fun e => (e, statusOf e)) false]
      else
        out ++ (splitRanges cfg range els).map fun r =>
          let chunk := ops.getRange s r
          if chunk.length > cfg.maxSetSize then .fingerprint r (ops.getFingerprint s r)
          else .item r (chunk.map fun e => (e, statusOf e)) false) out
  { store := s, reply := if out.isEmpty then none else some out, inserted := evs }

/-! ## backends -/

/-- the redb tables of one replica (`StoreInstance`) -/
def tableOps (ns : Bytes) : Ops Tables.T where
  getFirst t := Tables.getFirst t ns
  getRange t r := Tables.getRange t ns r.x r.y
  getFingerprint t r := Tables.getFingerprint t ns r.x r.y
  put t e := Tables.put t e

/-- a plain ordered map holding one document: the reference definitions -/
def mapOps : Ops Spec.Store where
  getFirst s := match s with | e :: _ => e.idBytes | [] => Tables.zero32 ++ Tables.zero32
  getRange s r := s.filter fun e => decide (r.contains e.idBytes)
  getFingerprint s r :=
    (s.filter fun e => decide (r.contains e.idBytes)).foldl (fun acc e => Tables.xorBytes acc e.fp) emptyFp
  put s e := Spec.put s e

/-! ## a two-party session -/

/-- Alternate the two sides until one has nothing to reply (or the fuel runs out).
`msg` travels to `b`. Returns the transcript (every message sent, first the one given) and both stores. -/
def session {S : Type} (ops : Ops S) (cfg : Config) (validate : Entry → Bool) (statusOf : Entry → Status) :
    (fuel : Nat) → (a b : S) → (msg : Message) → List Message × S × S
  | 0, a, b, msg => ([msg], a, b)
  | fuel + 1, a, b, msg =>
    let st := processMessage ops cfg validate statusOf b msg
    match st.reply with
    | none => ([msg], a, st.store)
    | some reply =>
      -- roles swap: the reply travels to `a`
      let (tr, b', a') := session ops cfg validate statusOf fuel st.store a reply
      (msg :: tr, a', b')

end Ranger
