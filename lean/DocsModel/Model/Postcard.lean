import DocsModel.Model.Bytes
/-!
# postcard primitives (`postcard-1.1.3`, `src/varint.rs`, `src/de/deserializer.rs`)

`u64`/`usize` are LEB128 varints of at most 10 bytes whose last byte is at most 1; over-long
encodings (`0x80 0x00` for 0) are accepted by the decoder; `from_bytes` ignores trailing bytes.
-/

namespace Postcard

/-- `varint_u64`: at most nine continuation bytes and a final one -/
def encVarintAux : (fuel : Nat) → Nat → Bytes
  | 0, n => [UInt8.ofNat n]
  | fuel + 1, n =>
    if n < 128 then [UInt8.ofNat n]
    else UInt8.ofNat (n % 128 + 128) :: encVarintAux fuel (n / 128)

def encVarint (n : Nat) : Bytes := encVarintAux 9 n

/-- `try_take_varint_u64` (also `usize` on 64-bit): at most 10 bytes, the tenth at most 1 -/
def decVarintAux : (fuel : Nat) → (i : Nat) → (acc : Nat) → Bytes → Option (Nat × Bytes)
  | 0, _, _, _ => none
  | _ + 1, _, _, [] => none
  | fuel + 1, i, acc, b :: rest =>
    let out := acc + (b.toNat % 128) * 2 ^ (7 * i)
    if b.toNat < 128 then
      if i = 9 ∧ b.toNat > 1 then none else some (out, rest)
    else decVarintAux fuel (i + 1) out rest

def decVarint (bs : Bytes) : Option (Nat × Bytes) := decVarintAux 10 0 0 bs

/-- `u32` varint (`varint_max::<u32>() = 5`, last byte at most 15) -/
def decVarint32Aux : (fuel : Nat) → (i : Nat) → (acc : Nat) → Bytes → Option (Nat × Bytes)
  | 0, _, _, _ => none
  | _ + 1, _, _, [] => none
  | fuel + 1, i, acc, b :: rest =>
    let out := acc + (b.toNat % 128) * 2 ^ (7 * i)
    if b.toNat < 128 then
      if i = 4 ∧ b.toNat > 15 then none else some (out, rest)
    else decVarint32Aux fuel (i + 1) out rest

/-- take exactly `n` raw bytes -/
def takeN (n : Nat) (bs : Bytes) : Option (Bytes × Bytes) :=
  if bs.length < n then none else some (bs.take n, bs.drop n)

/-- a byte string: varint length, then the bytes -/
def encBytes (b : Bytes) : Bytes := encVarint b.length ++ b

def decBytes (bs : Bytes) : Option (Bytes × Bytes) := do
  let (n, rest) ← decVarint bs
  takeN n rest

end Postcard
