import DocsModel.Model.Swarm
import DocsModel.Model.Live
/-!
# A swarm of nodes: replica + live actor each, connected by gossip

`Model/Swarm.lean` lets *any* written entry reach *any* replica. Here the path an entry really takes is
spelled out: an applied local write is reported to the node's live actor (`on_replica_event`), which
hands a `Put` to gossip only while the document is synced and its topic is active
(`Live.step … (.localInsert …)`); the gossip network delivers a message handed to it to any node, any
number of times, in any order, or never; the receiving node's loop offers the entry to its replica
(`insert_remote_entry`); if it is applied, the replica reports it to that node's live actor, which
decides about the download and never re-broadcasts it.

`encE` is the wire form of an entry (postcard of the signed entry; C09: it round-trips, so the network
can carry the entry itself).
-/

namespace GossipSwarm
open Spec

structure G where
  sw : Swarm.S := {}
  live : Nat → Live.LState := fun _ => {}
  /-- `Put` messages handed to gossip so far, with the node that sent them -/
  net : List (Nat × Entry) := []

inductive GStep where
  /-- `start_sync` on node `i` (the replica opens) / `leave` -/
  | startSync (i : Nat)
  | leave (i : Nat)
  /-- `Replica::insert` / `delete_prefix` on node `i` -/
  | localWrite (i : Nat) (e : Entry)
  /-- the `k`-th message handed to gossip reaches node `j`: `valid` is the verdict of `j`'s validation,
  `direct` whether it came straight from a neighbour, `shouldDl` the policy's verdict, `blob` whether
  the content is already there -/
  | gossipDeliver (j k : Nat) (valid direct shouldDl blob : Bool)
  | session (i j : Nat)
  | restart (i : Nat)
deriving Repr

def updL (f : Nat → Live.LState) (i : Nat) (v : Live.LState) : Nat → Live.LState := fun k => if k = i then v else f k

variable (ns : Bytes) (encE : Entry → Bytes)

def step (g : G) : GStep → G
  | .startSync i => { g with live := updL g.live i (Live.step (g.live i) (.startSync ns true [])).1 }
  | .leave i => { g with live := updL g.live i (Live.step (g.live i) (.leave ns false true)).1 }
  | .localWrite i e =>
    match put (g.sw.st i) e with
    | (_, .inserted _) =>
      -- the replica reports the applied write to the live actor
      let (l', outs) := Live.step (g.live i) (.localInsert ns (encE e))
      { sw := Swarm.step g.sw (.localWrite i e), live := updL g.live i l',
        net := if outs.isEmpty then g.net else g.net ++ [(i, e)] }
    | (_, .notInserted) => g
  | .gossipDeliver j k valid direct shouldDl blob =>
    match g.net[k]? with
    | none => g
    | some (i, e) =>
      if valid then
        match put (g.sw.st j) e with
        | (_, .inserted _) =>
          -- applied: the replica reports it; the live actor decides about the download
          let l' := (Live.step (g.live j) (.remoteInsert ns e.hash [i.toUInt8] true shouldDl (if direct then 0 else 2) blob)).1
          { g with sw := Swarm.step g.sw (.deliver j e true), live := updL g.live j l' }
        | (_, .notInserted) => { g with sw := Swarm.step g.sw (.deliver j e true) }
      else g
  | .session i j => { g with sw := Swarm.step g.sw (.session i j) }
  | .restart i => { g with sw := Swarm.step g.sw (.restart i) }

def run (g : G) (steps : List GStep) : G := steps.foldl (step ns encE) g

/-- the step of the abstract swarm that a step of this system amounts to (none: the replicas do not move) -/
def absStep (g : G) : GStep → Option Swarm.Step
  | .startSync _ => none
  | .leave _ => none
  | .localWrite i e => some (.localWrite i e)
  | .gossipDeliver j k valid _ _ _ =>
    match g.net[k]? with
    | none => none
    | some (_, e) => if valid then some (.deliver j e true) else none
  | .session i j => some (.session i j)
  | .restart i => some (.restart i)

/-- the abstract history of a history -/
def absRun (g : G) : List GStep → List Swarm.Step
  | [] => []
  | σ :: rest => (absStep g σ).toList ++ absRun (step ns encE g σ) rest

end GossipSwarm
