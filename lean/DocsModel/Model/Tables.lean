import DocsModel.Model.Spec
/-!
# The redb tables of `src/store/fs.rs`

A table is a list sorted by its key; `range` is the filter of the sorted list by the bounds, in
order — that is the ordered-map contract of a redb table and it is *assumed* (redb is part of the
trusted base). Everything built on it mirrors the Rust code function by function:
`bounds.rs` (`RecordsBounds`, `ByKeyBounds`), `fs.rs` (`get_exact`, `parents`, `entry_put`,
`remove_prefix_filtered`, `get_first`, `get_range`, `get_fingerprint`, `remove_replica`,
`register_useful_peer`, …), `query.rs` + `util.rs` (`QueryIterator`, `LatestPerKeySelector`).
-/

namespace Tables
open Spec

inductive Bound (α : Type) where
  | incl (a : α)
  | excl (a : α)
  | unb
deriving Repr

/-- a key made of three byte strings, compared element-wise (redb tuple keys) -/
abbrev K3 := Bytes × Bytes × Bytes

def lt3 (a b : K3) : Prop :=
  a.1 < b.1 ∨ (a.1 = b.1 ∧ (a.2.1 < b.2.1 ∨ (a.2.1 = b.2.1 ∧ a.2.2 < b.2.2)))

instance (a b : K3) : Decidable (lt3 a b) := by unfold lt3; exact inferInstance

def inRange3 (lo hi : Bound K3) (k : K3) : Prop :=
  (match lo with | .incl l => ¬ lt3 k l | .excl l => lt3 l k | .unb => True) ∧
  (match hi with | .incl h => ¬ lt3 h k | .excl h => lt3 k h | .unb => True)

instance (lo hi : Bound K3) (k : K3) : Decidable (inRange3 lo hi k) := by
  unfold inRange3; cases lo <;> cases hi <;> exact inferInstance

def zero32 : Bytes := List.replicate 32 0
def ff32 : Bytes := List.replicate 32 255

/-! ## `bounds.rs` -/

inductive KeyFilter where
  | any
  | exact (k : Bytes)
  | pre (p : Bytes)
deriving Repr, DecidableEq

def KeyFilter.matches : KeyFilter → Bytes → Bool
  | .any, _ => true
  | .exact k, key => k == key
  | .pre p, key => key.startsWith p

inductive AuthorFilter where
  | any
  | exact (a : Bytes)
deriving Repr, DecidableEq

def AuthorFilter.matches : AuthorFilter → Bytes → Bool
  | .any, _ => true
  | .exact a, author => a == author

/-- `RecordsBounds::namespace_end` -/
def recNamespaceEnd (ns : Bytes) : Bound K3 :=
  match Bytes.incrementByOne ns with
  | (true, nsEnd) => .excl (nsEnd, zero32, [])
  | (false, _) => .unb

/-- `RecordsBounds::namespace` -/
def recNamespace (ns : Bytes) : Bound K3 × Bound K3 := (.incl (ns, zero32, []), recNamespaceEnd ns)

/-- `RecordsBounds::author_key` -/
def recAuthorKey (ns author : Bytes) (kf : KeyFilter) : Bound K3 × Bound K3 :=
  let key : Bytes := match kf with | .any => [] | .exact k => k | .pre p => p
  let start : K3 := (ns, author, key)
  let hi : Bound K3 :=
    match kf with
    | .exact _ => .incl start
    | _ =>
      match Bytes.prefixSucc key with
      | some keyEnd => .excl (ns, author, keyEnd)
      | none =>
        match Bytes.incrementByOne author with
        | (true, authorEnd) => .excl (ns, authorEnd, [])
        | (false, _) =>
          match Bytes.incrementByOne ns with
          | (true, nsEnd) => .excl (nsEnd, zero32, [])
          | (false, _) => .unb
  (.incl start, hi)

/-- `RecordsBounds::author_prefix` -/
def recAuthorPrefix (ns author pre : Bytes) := recAuthorKey ns author (.pre pre)

/-- `ByKeyBounds::namespace`; by-key rows are `(namespace, key, author)` -/
def byKeyNamespace (ns : Bytes) : Bound K3 × Bound K3 :=
  (.incl (ns, [], zero32),
   match Bytes.incrementByOne ns with
   | (true, nsEnd) => .excl (nsEnd, [], zero32)
   | (false, _) => .unb)

/-- `ByKeyBounds::new` -/
def byKeyBounds (ns : Bytes) : KeyFilter → Bound K3 × Bound K3
  | .any => byKeyNamespace ns
  | .exact key => (.incl (ns, key, zero32), .incl (ns, key, ff32))
  | .pre p =>
    (.incl (ns, p, zero32),
     match Bytes.prefixSucc p with
     | some keyEnd => .excl (ns, keyEnd, zero32)
     | none =>
       match Bytes.incrementByOne ns with
       | (true, nsEnd) => .excl (nsEnd, [], zero32)
       | (false, _) => .unb)

/-! ## the tables -/

/-- download policy (`store.rs`) -/
inductive FilterKind where
  | pre (b : Bytes)
  | exact (b : Bytes)
deriving Repr, DecidableEq

def FilterKind.matches : FilterKind → Bytes → Bool
  | .pre p, key => key.startsWith p
  | .exact k, key => k == key

inductive Policy where
  | nothingExcept (fs : List FilterKind)
  | everythingExcept (fs : List FilterKind)
deriving Repr, DecidableEq

def Policy.default : Policy := .everythingExcept []

/-- `DownloadPolicy::matches` -/
def Policy.matches : Policy → Bytes → Bool
  | .nothingExcept fs, key => fs.any (·.matches key)
  | .everythingExcept fs, key => fs.all (fun f => !f.matches key)

structure T where
  /-- `records-1`: `(namespace, author, key) → (timestamp, signatures, len, hash)`; a row is an `Entry` -/
  records : List Entry := []
  /-- `records-by-key-1`: `(namespace, key, author) → ()` -/
  byKey : List K3 := []
  /-- `latest-by-author-1`: `(namespace, author) → (timestamp, key)` -/
  latest : List (Bytes × Bytes × Nat × Bytes) := []
  /-- `namespaces-2`: `namespace → (kind, 32 bytes)`; kind 1 = write (bytes = secret), 2 = read -/
  namespaces : List (Bytes × Nat × Bytes) := []
  /-- `sync-peers-1` multimap: `namespace → {(nanos, peer)}`, values sorted -/
  peers : List (Bytes × Nat × Bytes) := []
  /-- `download-policy-1` -/
  policies : List (Bytes × Policy) := []
  /-- `authors-1` -/
  authors : List (Bytes × Bytes) := []
deriving Repr

def rk (e : Entry) : K3 := (e.ns, e.author, e.key)

/-- `table.range(bounds)` on the records table -/
def recRange (recs : List Entry) (b : Bound K3 × Bound K3) : List Entry :=
  recs.filter (fun e => decide (inRange3 b.1 b.2 (rk e)))

/-- `table.get((ns, author, key))` -/
def recGet (recs : List Entry) (ns author key : Bytes) : Option Entry :=
  recs.find? (fun e => e.ns == ns && e.author == author && e.key == key)

/-- `get_exact` of `fs.rs` -/
def getExact (recs : List Entry) (ns author key : Bytes) (includeEmpty : Bool) : Option Entry :=
  (recGet recs ns author key).filter (fun e => includeEmpty || !e.isEmpty)

/-- sorted insert into a `K3`-keyed set -/
def k3Insert (k : K3) : List K3 → List K3
  | [] => [k]
  | x :: xs =>
    if lt3 k x then k :: x :: xs
    else if lt3 x k then x :: k3Insert k xs
    else k :: xs

def k3Range (rows : List K3) (b : Bound K3 × Bound K3) : List K3 :=
  rows.filter (fun k => decide (inRange3 b.1 b.2 k))

/-- `parents()`: the stored entries (deletion markers included) at every prefix of `key`, the
empty key included, shortest prefix first. -/
def parents (recs : List Entry) (ns author key : Bytes) : List Entry :=
  (Bytes.inits key).filterMap (fun k => getExact recs ns author k true)

/-- `remove_prefix_filtered` with `predicate = |value| entry.value() >= value`:
`extract_from_if` over `RecordsBounds::author_prefix`. Only the records table is touched. -/
def removePrefixFiltered (recs : List Entry) (e : Entry) : Nat × List Entry :=
  let b := recAuthorPrefix e.ns e.author e.key
  let hit := fun (c : Entry) => decide (inRange3 b.1 b.2 (rk c)) && decide (Entry.valueLe c e)
  ((recs.filter hit).length, recs.filter (fun c => !hit c))

def latestGet (l : List (Bytes × Bytes × Nat × Bytes)) (ns author : Bytes) : Option (Nat × Bytes) :=
  (l.find? (fun r => r.1 == ns && r.2.1 == author)).map (fun r => (r.2.2.1, r.2.2.2))

def lt2 (a b : Bytes × Bytes) : Prop := a.1 < b.1 ∨ (a.1 = b.1 ∧ a.2 < b.2)
instance (a b : Bytes × Bytes) : Decidable (lt2 a b) := by unfold lt2; exact inferInstance

def latestInsert (r : Bytes × Bytes × Nat × Bytes) :
    List (Bytes × Bytes × Nat × Bytes) → List (Bytes × Bytes × Nat × Bytes)
  | [] => [r]
  | x :: xs =>
    if lt2 (r.1, r.2.1) (x.1, x.2.1) then r :: x :: xs
    else if lt2 (x.1, x.2.1) (r.1, r.2.1) then x :: latestInsert r xs
    else r :: xs

/-- `entry_put`: three tables; the head only moves forward. -/
def entryPut (t : T) (e : Entry) : T :=
  let latest :=
    match latestGet t.latest e.ns e.author with
    | some (ts, _) => if e.ts ≥ ts then latestInsert (e.ns, e.author, e.ts, e.key) t.latest else t.latest
    | none => latestInsert (e.ns, e.author, e.ts, e.key) t.latest
  { t with
    records := insertSorted e t.records
    byKey := k3Insert (e.ns, e.key, e.author) t.byKey
    latest := latest }

/-- `ranger::Store::put` on the tables -/
def put (t : T) (e : Entry) : T × Outcome :=
  if (parents t.records e.ns e.author e.key).any (fun p => decide (Entry.valueLe e p)) then
    (t, .notInserted)
  else
    let (n, recs) := removePrefixFiltered t.records e
    (entryPut { t with records := recs } e, .inserted n)

inductive InsertResult where
  | inserted (removed : Nat)
  | notInserted
  | notFound
  | readOnly
deriving Repr, DecidableEq

/-- `Store::open_replica` + `Replica::insert_remote_entry` of an entry that passes validation:
the document has to exist; any capability will do. -/
def remotePut (t : T) (e : Entry) : T × InsertResult :=
  match (t.namespaces.find? (fun r => r.1 == e.ns)) with
  | none => (t, .notFound)
  | some _ =>
    match put t e with
    | (t', .inserted n) => (t', .inserted n)
    | (t', .notInserted) => (t', .notInserted)

/-- `Store::open_replica` + `Replica::insert` / `delete_prefix`: the stored capability has to be
a write capability (kind 1). -/
def localPut (t : T) (e : Entry) : T × InsertResult :=
  match (t.namespaces.find? (fun r => r.1 == e.ns)) with
  | none => (t, .notFound)
  | some (_, kind, _) =>
    if kind ≠ 1 then (t, .readOnly) else
    match put t e with
    | (t', .inserted n) => (t', .inserted n)
    | (t', .notInserted) => (t', .notInserted)

/-! ## `StoreInstance` range primitives (for namespace `ns`) -/

/-- `get_first`: id bytes of the first record of the namespace, or the all-zero default id -/
def getFirst (t : T) (ns : Bytes) : Bytes :=
  match recRange t.records (recNamespace ns) with
  | e :: _ => e.idBytes
  | [] => zero32 ++ zero32

/-- `RecordIdentifier::to_byte_tuple` -/
def idTuple (id : Bytes) : K3 := (id.take 32, (id.drop 32).take 32, id.drop 64)

/-- `get_range`: the three arms of the `Ordering` match; the wrap-around arm yields the low part
(`start ≤ t < y`) first, then the high part (`x ≤ t ≤ end`). -/
def getRange (t : T) (ns : Bytes) (x y : Bytes) : List Entry :=
  if x = y then recRange t.records (recNamespace ns)
  else if x < y then recRange t.records (.incl (idTuple x), .excl (idTuple y))
  else
    recRange t.records ((recNamespace ns).1, .excl (idTuple y)) ++
    recRange t.records (.incl (idTuple x), recNamespaceEnd ns)

def xorBytes (a b : Bytes) : Bytes := List.zipWith (· ^^^ ·) a b

/-- `get_fingerprint`: XOR of the entry fingerprints over `get_range`, starting from
`Fingerprint::empty()` = BLAKE3 of the empty string -/
def getFingerprint (t : T) (ns : Bytes) (x y : Bytes) : Bytes :=
  (getRange t ns x y).foldl (fun acc e => xorBytes acc e.fp) Entry.emptyHash

/-! ## queries (`query.rs`, `util.rs`) -/

inductive SortBy where | keyAuthor | authorKey
deriving Repr, DecidableEq

inductive QueryKind where
  | flat (sortBy : SortBy)
  | latestPerKey
deriving Repr, DecidableEq

structure Query where
  kind : QueryKind := .flat .authorKey
  author : AuthorFilter := .any
  key : KeyFilter := .any
  limit : Option Nat := none
  offset : Nat := 0
  includeEmpty : Bool := false
  desc : Bool := false
deriving Repr

/-- `LatestPerKeySelector` run over a key-sorted stream: for each run of equal keys the first entry
whose timestamp is not exceeded later in the run (replacement only on strictly greater). -/
def selectLatest : Option Entry → List Entry → List Entry
  | none, [] => []
  | some last, [] => [last]
  | none, e :: rest => selectLatest (some e) rest
  | some last, e :: rest =>
    if last.key = e.key then
      if e.ts > last.ts then selectLatest (some e) rest else selectLatest (some last) rest
    else last :: selectLatest (some e) rest

/-- the rows a query iterates, before offset and limit -/
def queryRows (t : T) (ns : Bytes) (q : Query) : List Entry :=
  let dir := fun {α : Type} (l : List α) => if q.desc then l.reverse else l
  let keepEmpty := fun (e : Entry) => q.includeEmpty || !e.isEmpty
  -- `IndexKind::from`
  let viaRecords (af : AuthorFilter) (kf : KeyFilter) : List Entry :=
    match af with
    | .exact a => (dir (recRange t.records (recAuthorKey ns a kf))).filter keepEmpty
    | .any => (dir (recRange t.records (recNamespace ns))).filter (fun e => kf.matches e.key && keepEmpty e)
  let viaIndex (kf : KeyFilter) (af : AuthorFilter) (latest : Bool) : List Entry :=
    let rows := dir (k3Range t.byKey (byKeyBounds ns kf))
    -- author filter on the index row (not when grouping), then the lookup that skips stale rows
    let rows := rows.filter (fun k => latest || af.matches k.2.2)
    let es := rows.filterMap (fun k => recGet t.records k.1 k.2.2 k.2.1)
    let es := if latest then (selectLatest none es).filter (fun e => af.matches e.author) else es
    es.filter keepEmpty
  match q.kind with
  | .flat .keyAuthor =>
    match q.author with
    | .any => viaIndex q.key .any false
    | a => viaRecords a q.key
  | .flat .authorKey => viaRecords q.author q.key
  | .latestPerKey => viaIndex q.key q.author true

/-- `QueryIterator`: skip `offset`, stop after `limit` -/
def query (t : T) (ns : Bytes) (q : Query) : List Entry :=
  let rows := (queryRows t ns q).drop q.offset
  match q.limit with
  | some l => rows.take l
  | none => rows

/-! ## heads, namespaces, peers, policies -/

/-- `get_latest_for_each_author`: `(author, timestamp, key)` for `(ns, 00…) ..= (ns, FF…)` -/
def latestForEachAuthor (t : T) (ns : Bytes) : List (Bytes × Nat × Bytes) :=
  (t.latest.filter (fun r => r.1 == ns && decide (zero32 ≤ r.2.1) && decide (r.2.1 ≤ ff32))).map
    (fun r => (r.2.1, r.2.2.1, r.2.2.2))

/-- `content_hashes`: hashes of all records of all namespaces, in table order -/
def contentHashes (t : T) : List Bytes := t.records.map (·.hash)

def nsGet (t : T) (ns : Bytes) : Option (Nat × Bytes) :=
  (t.namespaces.find? (fun r => r.1 == ns)).map (·.2)

def nsInsert (r : Bytes × Nat × Bytes) : List (Bytes × Nat × Bytes) → List (Bytes × Nat × Bytes)
  | [] => [r]
  | x :: xs =>
    if r.1 < x.1 then r :: x :: xs
    else if x.1 < r.1 then x :: nsInsert r xs
    else r :: xs

inductive ImportOutcome where | inserted | upgraded | noChange
deriving Repr, DecidableEq

/-- `Capability::merge` on `(namespace id, kind, key bytes)`: refused for another document's
capability; the only change is the upgrade from read (2) to write (1). `none` = `NamespaceMismatch`,
otherwise whether the capability changed and what it is afterwards. -/
def capMerge (self other : Bytes × Nat × Bytes) : Option (Bool × (Bytes × Nat × Bytes)) :=
  if other.1 ≠ self.1 then none
  else if self.2.1 = 2 ∧ other.2.1 = 1 then some (true, other)
  else some (false, self)

/-- `import_namespace` + `Capability::merge`; `kind` 1 = write, 2 = read. The namespace id is
supplied with the capability (for a write capability it is the public key of the secret). -/
def importNamespace (t : T) (ns : Bytes) (kind : Nat) (raw : Bytes) : T × ImportOutcome :=
  match nsGet t ns with
  | some (k0, raw0) =>
    if k0 = 2 ∧ kind = 1 then ({ t with namespaces := nsInsert (ns, 1, raw) t.namespaces }, .upgraded)
    else ({ t with namespaces := nsInsert (ns, k0, raw0) t.namespaces }, .noChange)
  | none => ({ t with namespaces := nsInsert (ns, kind, raw) t.namespaces }, .inserted)

/-- `remove_replica` (the open check is done by the caller) -/
def removeReplica (t : T) (ns : Bytes) : T :=
  let rb := recNamespace ns
  let kb := byKeyNamespace ns
  { t with
    records := t.records.filter (fun e => !decide (inRange3 rb.1 rb.2 (rk e)))
    byKey := t.byKey.filter (fun k => !decide (inRange3 kb.1 kb.2 k))
    latest := t.latest.filter (fun r => !(r.1 == ns && decide (zero32 ≤ r.2.1) && decide (r.2.1 ≤ ff32)))
    namespaces := t.namespaces.filter (fun r => r.1 != ns)
    peers := t.peers.filter (fun r => r.1 != ns)
    policies := t.policies.filter (fun r => r.1 != ns) }

def ltPeer (a b : Nat × Bytes) : Prop := a.1 < b.1 ∨ (a.1 = b.1 ∧ a.2 < b.2)
instance (a b : Nat × Bytes) : Decidable (ltPeer a b) := by unfold ltPeer; exact inferInstance

/-- values of the multimap for one namespace, ascending by `(nanos, peer)` -/
def peersOf (t : T) (ns : Bytes) : List (Nat × Bytes) :=
  (t.peers.filter (fun r => r.1 == ns)).map (·.2)

def peerInsertSorted (v : Nat × Bytes) : List (Nat × Bytes) → List (Nat × Bytes)
  | [] => [v]
  | x :: xs =>
    if ltPeer v x then v :: x :: xs
    else if ltPeer x v then x :: peerInsertSorted v xs
    else v :: xs

def setPeersOf (t : T) (ns : Bytes) (vs : List (Nat × Bytes)) : T :=
  { t with peers := t.peers.filter (fun r => r.1 != ns) ++ vs.map (fun v => (ns, v)) }

/-- the branches of `register_useful_peer` on the document's value set (ascending by `(nanos, peer)`) -/
def regStep (cur : List (Nat × Bytes)) (nanos : Nat) (peer : Bytes) : List (Nat × Bytes) :=
  match cur with
  | [] => [(nanos, peer)]
  | (oldestNanos, oldestPeer) :: rest =>
    if oldestPeer = peer then
      -- the oldest entry is this peer: replace it
      peerInsertSorted (nanos, peer) (cur.filter (· != (oldestNanos, oldestPeer)))
    else
      let len := 1 + rest.length
      match rest.find? (fun v => v.2 == peer) with
      | some (prevNanos, _) =>
        -- the peer was present: replace its entry
        peerInsertSorted (nanos, peer) (cur.filter (· != (prevNanos, peer)))
      | none =>
        -- a new peer: add it and evict the oldest if the cache is over its size
        let ins := peerInsertSorted (nanos, peer) cur
        if len + 1 > 5 then ins.filter (· != (oldestNanos, oldestPeer)) else ins

/-- `register_useful_peer`; `none` = "document not created" -/
def registerUsefulPeer (t : T) (ns : Bytes) (nanos : Nat) (peer : Bytes) : Option T :=
  match nsGet t ns with
  | none => none
  | some _ => some (setPeersOf t ns (regStep (peersOf t ns) nanos peer))

/-- most recent first: what `get_sync_peers` returns -/
def mru (l : List (Nat × Bytes)) : List Bytes := l.reverse.map (·.2)

/-- one step of the specification: the newly registered peer moves to the front, without
duplicate, and the list is cut to five -/
def mruStep (prev : List Bytes) (p : Bytes) : List Bytes := (p :: prev.filter (· != p)).take 5

/-- a registration history (peers with times, oldest first) applied to a document's value set -/
def runRegs (cur : List (Nat × Bytes)) : List (Nat × Bytes) → List (Nat × Bytes)
  | [] => cur
  | (t, p) :: rest => runRegs (regStep cur t p) rest

/-- specification of the list after a history of registrations (oldest first) -/
def mruSpec (prev : List Bytes) : List Bytes → List Bytes
  | [] => prev
  | p :: rest => mruSpec (mruStep prev p) rest

/-- `get_sync_peers`: most recent first; `none` when empty -/
def getSyncPeers (t : T) (ns : Bytes) : Option (List Bytes) :=
  match (peersOf t ns).reverse.map (·.2) with
  | [] => none
  | l => some l

/-- `set_download_policy`; `none` = "document not created" -/
def setDownloadPolicy (t : T) (ns : Bytes) (p : Policy) : Option T :=
  match nsGet t ns with
  | none => none
  | some _ => some { t with policies := (ns, p) :: t.policies.filter (fun r => r.1 != ns) }

def getDownloadPolicy (t : T) (ns : Bytes) : Policy :=
  ((t.policies.find? (fun r => r.1 == ns)).map (·.2)).getD Policy.default

/-- `has_news_for`: number of authors for which `theirs` names a strictly newer timestamp, or an
author unknown to `ours` (`AuthorHeads` are maps author → timestamp) -/
def hasNewsFor (theirs ours : List (Bytes × Nat)) : Nat :=
  (theirs.filter (fun (a, ts) =>
    match ours.find? (fun o => o.1 == a) with
    | some (_, tsOurs) => decide (ts > tsOurs)
    | none => true)).length

end Tables
