import DocsModel.Model.Replica
/-!
# The store actor (`src/actor.rs`): `OpenReplicas` and the action dispatcher

One step per dequeued action; the reply is the step's output. Requests are processed strictly in
queue order (`async_channel` FIFO, single consumer — trusted).
-/

namespace Actor
open Spec

structure OpenRep where
  /-- the in-memory copy of the capability held by `ReplicaInfo`: kind (1 write, 2 read) and bytes -/
  kind : Nat
  raw : Bytes
  sync : Bool
  handles : Nat
  subscribers : Nat
deriving Repr, DecidableEq

structure AState where
  t : Tables.T := {}
  /-- `OpenReplicas` -/
  states : List (Bytes × OpenRep) := []
  /-- `Store::open_replicas` -/
  storeOpen : List Bytes := []
deriving Repr

inductive Action where
  | openR (ns : Bytes) (sync subscribe : Bool)
  | close (ns : Bytes)
  | setSync (ns : Bytes) (sync : Bool)
  | subscribe (ns : Bytes)
  | unsubscribe (ns : Bytes)
  /-- `InsertLocal` / `DeletePrefix` with the entry the replica will sign (author known to the store) -/
  | insertLocal (ns : Bytes) (e : Entry)
  | insertRemote (ns : Bytes) (now : Nat) (e : Entry)
  | getExact (ns author key : Bytes) (includeEmpty : Bool)
  | getMany (ns : Bytes)
  | syncInitial (ns : Bytes)
  /-- `SyncProcessMessage` (default reconciliation settings; the `SyncOutcome` travels with the
  caller and is not part of the actor's state) -/
  | syncProcess (ns : Bytes) (now : Nat) (msg : Ranger.Message)
  | getState (ns : Bytes)
  | dropReplica (ns : Bytes)
  | importNamespace (ns : Bytes) (kind : Nat) (raw : Bytes)
  | exportSecret (ns : Bytes)
deriving Repr

inductive Reply where
  | ok
  | okBool (b : Bool)
  | inserted (removed : Nat)
  | notInserted
  | entry (e : Option Entry)
  | entries (es : List Entry)
  | message
  /-- reply of `SyncProcessMessage`: the answer, if any -/
  | syncReply (m : Option Ranger.Message)
  | state (sync : Bool) (subscribers handles : Nat)
  | secret (raw : Bytes)
  | errNotOpen
  | errNotFound
  | errSyncDisabled
  | errReadOnly
  | errNotClosed
  | errValidation
deriving Repr, DecidableEq

def getOpen (s : AState) (ns : Bytes) : Option OpenRep := s.states.lookup ns
def setOpen (s : AState) (ns : Bytes) (r : OpenRep) : AState :=
  { s with states := (ns, r) :: s.states.filter (·.1 != ns) }
def delOpen (s : AState) (ns : Bytes) : AState :=
  { s with states := s.states.filter (·.1 != ns) }

/-- `Actor::close`: `OpenReplicas::close` and, when it reports closed, `Store::close_replica` -/
def closeR (s : AState) (ns : Bytes) : AState × Bool :=
  match getOpen s ns with
  | none => ({ s with storeOpen := s.storeOpen.filter (· != ns) }, true)
  | some r =>
    if r.handles - 1 = 0 then
      ({ delOpen s ns with storeOpen := s.storeOpen.filter (· != ns) }, true)
    else (setOpen s ns { r with handles := r.handles - 1 }, false)

def step (s : AState) : Action → AState × Reply
  | .openR ns sync sub =>
    match getOpen s ns with
    | none =>
      -- `load_replica_info`: the document has to exist; it is marked open in the store
      match Tables.nsGet s.t ns with
      | none => (s, .errNotFound)
      | some (kind, raw) =>
        ({ setOpen s ns { kind, raw, sync, handles := 1, subscribers := if sub then 1 else 0 } with
           storeOpen := ns :: s.storeOpen.filter (· != ns) }, .ok)
    | some r =>
      (setOpen s ns { r with handles := r.handles + 1, sync := r.sync || sync,
                             subscribers := r.subscribers + (if sub then 1 else 0) }, .ok)
  | .close ns => let (s', b) := closeR s ns; (s', .okBool b)
  | .setSync ns sync =>
    match getOpen s ns with
    | none => (s, .errNotOpen)
    | some r => (setOpen s ns { r with sync }, .ok)
  | .subscribe ns =>
    match getOpen s ns with
    | none => (s, .errNotOpen)
    | some r => (setOpen s ns { r with subscribers := r.subscribers + 1 }, .ok)
  | .unsubscribe ns =>
    match getOpen s ns with
    | none => (s, .errNotOpen)
    | some r => (setOpen s ns { r with subscribers := r.subscribers - 1 }, .ok)
  | .insertLocal ns e =>
    match getOpen s ns with
    | none => (s, .errNotOpen)
    | some r =>
      -- `secret_key()` of the *open copy* of the capability
      if r.kind ≠ 1 then (s, .errReadOnly)
      else match Tables.put s.t e with
        | (t', .inserted n) => ({ s with t := t' }, .inserted n)
        | (_, .notInserted) => (s, .notInserted)
  | .insertRemote ns now e =>
    match getOpen s ns with
    | none => (s, .errNotOpen)
    | some r =>
      if !r.sync then (s, .errSyncDisabled)
      else match Replica.insertRemoteEntry s.t ns now e with
        | (t', .ok n) => ({ s with t := t' }, .inserted n)
        | (_, .newerEntryExists) => (s, .notInserted)
        | (_, .failed _) => (s, .errValidation)
  | .getExact ns author key incl =>
    match getOpen s ns with
    | none => (s, .errNotOpen)
    | some _ => (s, .entry (Tables.getExact s.t.records ns author key incl))
  | .getMany ns =>
    match getOpen s ns with
    | none => (s, .errNotOpen)
    | some _ => (s, .entries (Tables.query s.t ns { includeEmpty := true }))
  | .syncInitial ns =>
    match getOpen s ns with
    | none => (s, .errNotOpen)
    | some r => if !r.sync then (s, .errSyncDisabled) else (s, .message)
  | .syncProcess ns now msg =>
    match getOpen s ns with
    | none => (s, .errNotOpen)
    | some r =>
      if !r.sync then (s, .errSyncDisabled)
      else
        let st := (Replica.syncProcessMessage {} s.t ns now msg {}).1
        ({ s with t := st.store }, .syncReply st.reply)
  | .getState ns =>
    match getOpen s ns with
    | none => (s, .errNotOpen)
    | some r => (s, .state r.sync r.subscribers r.handles)
  | .dropReplica ns =>
    -- one handle is released first, then `remove_replica`, which refuses while still open
    let (s', _) := closeR s ns
    if s'.storeOpen.contains ns then (s', .errNotClosed)
    else ({ s' with t := Tables.removeReplica s'.t ns }, .ok)
  | .importNamespace ns kind raw =>
    let (t', out) := Tables.importNamespace s.t ns kind raw
    let s' := { s with t := t' }
    -- on an upgrade the open copy is merged too
    match out, getOpen s' ns with
    | .upgraded, some r => (setOpen s' ns { r with kind := 1, raw := raw }, .ok)
    | _, _ => (s', .ok)
  | .exportSecret ns =>
    match getOpen s ns with
    | none => (s, .errNotOpen)
    | some r => if r.kind = 1 then (s, .secret r.raw) else (s, .errReadOnly)

def run (s : AState) (as : List Action) : AState × List Reply :=
  as.foldl (fun (acc : AState × List Reply) a => let (s', r) := step acc.1 a; (s', acc.2 ++ [r])) (s, [])

end Actor
