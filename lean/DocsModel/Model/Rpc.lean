import DocsModel.Model.Actor
/-!
# The client API's request handlers (`src/api/actor.rs`: `RpcActor::doc_*`)

Each handler is a short sequence of store-actor requests. A document is never joined to live sync
here (`start_sync` is not modelled), so `leave` inside `doc_drop` does nothing.
-/

namespace Rpc
open Spec Actor

inductive Req where
  /-- `doc_import`: `import_namespace` then `open` with default options -/
  | importNs (ns : Bytes) (kind : Nat) (raw : Bytes)
  /-- `doc_open` -/
  | openDoc (ns : Bytes)
  /-- `doc_close` (the reply does not say whether the document was closed) -/
  | closeDoc (ns : Bytes)
  /-- `doc_set_hash` / `doc_del` with the entry the replica signs -/
  | setHash (ns : Bytes) (e : Entry)
  /-- `doc_drop` -/
  | dropDoc (ns : Bytes)
  /-- `doc_get_exact` -/
  | getExact (ns author key : Bytes) (includeEmpty : Bool)
  /-- `doc_status` -/
  | status (ns : Bytes)
deriving Repr

def step (s : AState) : Req → AState × Reply
  | .importNs ns kind raw =>
    let (s1, r1) := Actor.step s (.importNamespace ns kind raw)
    match r1 with
    | .ok => Actor.step s1 (.openR ns false false)
    | r => (s1, r)
  | .openDoc ns => Actor.step s (.openR ns false false)
  | .closeDoc ns => ((Actor.step s (.close ns)).1, .ok)
  | .setHash ns e => Actor.step s (.insertLocal ns e)
  | .dropDoc ns => Actor.step s (.dropReplica ns)
  | .getExact ns a k incl => Actor.step s (.getExact ns a k incl)
  | .status ns => Actor.step s (.getState ns)

def run (s : AState) (rs : List Req) : AState × List Reply :=
  rs.foldl (fun (acc : AState × List Reply) a => let (s', r) := step acc.1 a; (s', acc.2 ++ [r])) (s, [])

/-- `doc_list`: the capability table, in table order -/
def list (s : AState) : List (Bytes × Nat) := s.t.namespaces.map fun r => (r.1, r.2.1)

end Rpc
