import DocsModel.Model.Postcard
/-!
# Wire encodings (`src/net/codec.rs`, serde derives of `src/ranger.rs` and `src/sync.rs`)

postcard layout of the reconciliation messages and of the session frames, and the 4-byte
big-endian length framing of `SyncCodec`. Signatures are 64 raw bytes each (author first), hashes,
fingerprints and namespace ids 32 raw bytes, record identifiers a length-prefixed byte string of at
least 64 bytes (F8 repair), `u64`s varints, enum tags `u32` varints, `bool` one byte 0/1.
-/

namespace Codec
open Postcard

structure WEntry where
  auSig : Bytes
  nsSig : Bytes
  id : Bytes
  len : Nat
  hash : Bytes
  ts : Nat
deriving DecidableEq, Repr

inductive WPart where
  | fp (x y fp : Bytes)
  | item (x y : Bytes) (values : List (WEntry × Nat)) (haveLocal : Bool)
deriving DecidableEq, Repr

abbrev WMsg := List WPart

inductive Frame where
  | init (ns : Bytes) (m : WMsg)
  | sync (m : WMsg)
  | abort (reason : Nat)
deriving DecidableEq, Repr

/-! ## encoders -/

def encEntry (e : WEntry) : Bytes :=
  e.auSig ++ e.nsSig ++ encBytes e.id ++ encVarint e.len ++ e.hash ++ encVarint e.ts

def encValue (v : WEntry × Nat) : Bytes := encEntry v.1 ++ encVarint v.2

def encPart : WPart → Bytes
  | .fp x y fp => encVarint 0 ++ encBytes x ++ encBytes y ++ fp
  | .item x y vs hl =>
    encVarint 1 ++ encBytes x ++ encBytes y ++ encVarint vs.length ++ vs.flatMap encValue ++ [if hl then 1 else 0]

def encMsg (m : WMsg) : Bytes := encVarint m.length ++ m.flatMap encPart

def encFramePayload : Frame → Bytes
  | .init ns m => encVarint 0 ++ ns ++ encMsg m
  | .sync m => encVarint 1 ++ encMsg m
  | .abort r => encVarint 2 ++ encVarint r

/-- 4-byte big-endian length -/
def be32 (n : Nat) : Bytes :=
  [UInt8.ofNat (n / 16777216 % 256), UInt8.ofNat (n / 65536 % 256), UInt8.ofNat (n / 256 % 256), UInt8.ofNat (n % 256)]

def ofBe32 (b : Bytes) : Nat :=
  match b with
  | [a, b, c, d] => a.toNat * 16777216 + b.toNat * 65536 + c.toNat * 256 + d.toNat
  | _ => 0

/-- `MAX_MESSAGE_SIZE` = 1 GiB -/
def maxMessageSize : Nat := 1073741824

/-- `SyncCodec::encode` (into an empty buffer); `none` = "message too large" -/
def encFrame (f : Frame) : Option Bytes :=
  let p := encFramePayload f
  if p.length ≤ maxMessageSize then some (be32 p.length ++ p) else none

/-! ## decoders -/

/-- a `u32` enum tag -/
def decTag (bs : Bytes) : Option (Nat × Bytes) := decVarint32Aux 5 0 0 bs

/-- `Vec<T>`: `n` elements -/
def decList {α : Type} (dec : Bytes → Option (α × Bytes)) : Nat → Bytes → Option (List α × Bytes)
  | 0, bs => some ([], bs)
  | n + 1, bs => do
    let (x, rest) ← dec bs
    let (xs, rest) ← decList dec n rest
    pure (x :: xs, rest)

/-- `RecordIdentifier`: a byte string of at least 64 bytes (F8) -/
def decId (bs : Bytes) : Option (Bytes × Bytes) := do
  let (id, rest) ← decBytes bs
  if id.length < 64 then none else pure (id, rest)

def decEntry (bs : Bytes) : Option (WEntry × Bytes) := do
  let (auSig, rest) ← takeN 64 bs
  let (nsSig, rest) ← takeN 64 rest
  let (id, rest) ← decId rest
  let (len, rest) ← decVarint rest
  let (hash, rest) ← takeN 32 rest
  let (ts, rest) ← decVarint rest
  pure ({ auSig, nsSig, id, len, hash, ts }, rest)

def decValue (bs : Bytes) : Option ((WEntry × Nat) × Bytes) := do
  let (e, rest) ← decEntry bs
  let (st, rest) ← decTag rest
  if st > 2 then none else pure ((e, st), rest)

def decBool (bs : Bytes) : Option (Bool × Bytes) :=
  match bs with
  | b :: rest => if b = 0 then some (false, rest) else if b = 1 then some (true, rest) else none
  | [] => none

def decPart (bs : Bytes) : Option (WPart × Bytes) := do
  let (tag, rest) ← decTag bs
  if tag = 0 then do
    let (x, rest) ← decId rest
    let (y, rest) ← decId rest
    let (fp, rest) ← takeN 32 rest
    pure (.fp x y fp, rest)
  else if tag = 1 then do
    let (x, rest) ← decId rest
    let (y, rest) ← decId rest
    let (n, rest) ← decVarint rest
    -- every value takes at least 200 bytes: a count beyond the input cannot be satisfied
    if n > rest.length then none else
    let (vs, rest) ← decList decValue n rest
    let (hl, rest) ← decBool rest
    pure (.item x y vs hl, rest)
  else none

def decMsg (bs : Bytes) : Option (WMsg × Bytes) := do
  let (n, rest) ← decVarint bs
  if n > rest.length then none else
  decList decPart n rest

/-- `postcard::from_bytes::<Message>` on a frame payload (trailing bytes are ignored) -/
def decFramePayload (bs : Bytes) : Option Frame := do
  let (tag, rest) ← decTag bs
  if tag = 0 then do
    let (ns, rest) ← takeN 32 rest
    let (m, _) ← decMsg rest
    pure (.init ns m)
  else if tag = 1 then do
    let (m, _) ← decMsg rest
    pure (.sync m)
  else if tag = 2 then do
    let (r, _) ← decTag rest
    if r > 2 then none else pure (.abort r)
  else none

inductive DecodeResult where
  | frame (f : Frame) (rest : Bytes)
  | needMore
  | error
deriving DecidableEq, Repr

/-- `SyncCodec::decode` on the current buffer -/
def decodeOne (buf : Bytes) : DecodeResult :=
  if buf.length < 4 then .needMore
  else if ofBe32 (buf.take 4) > maxMessageSize then .error
  else if buf.length < 4 + ofBe32 (buf.take 4) then .needMore
  else match decFramePayload ((buf.drop 4).take (ofBe32 (buf.take 4))) with
    | some f => .frame f (buf.drop (4 + ofBe32 (buf.take 4)))
    | none => .error

/-- decode as many frames as the buffer holds (fuel = buffer length suffices: every frame consumes ≥ 4 bytes) -/
def decodeAll : (fuel : Nat) → Bytes → List Frame × Option Bytes
  | 0, buf => ([], some buf)
  | fuel + 1, buf =>
    match decodeOne buf with
    | .frame f rest => let (fs, r) := decodeAll fuel rest; (f :: fs, r)
    | .needMore => ([], some buf)
    | .error => ([], none)

/-- `FramedRead`: feed chunks one after the other; returns the frames produced and the final
buffer (`none` after a decoder error) -/
def feedChunks : (buf : Bytes) → List Bytes → List Frame × Option Bytes
  | buf, [] => ([], some buf)
  | buf, c :: cs =>
    match decodeAll ((buf ++ c).length + 1) (buf ++ c) with
    | (fs, some rest) => let (fs', r) := feedChunks rest cs; (fs ++ fs', r)
    | (fs, none) => (fs, none)

/-! ## gossip messages (`engine/live.rs` `Op`, decoded by `engine/gossip.rs::receive_loop`) -/

inductive GOp where
  /-- `Op::Put(SignedEntry)` -/
  | put (e : WEntry)
  /-- `Op::ContentReady(Hash)` -/
  | contentReady (hash : Bytes)
  /-- `Op::SyncReport(SyncReport { namespace, heads })`; `heads` are encoded `AuthorHeads` -/
  | syncReport (ns heads : Bytes)
deriving DecidableEq, Repr

def encGOp : GOp → Bytes
  | .put e => encVarint 0 ++ encEntry e
  | .contentReady h => encVarint 1 ++ h
  | .syncReport ns heads => encVarint 2 ++ ns ++ encBytes heads

/-- `postcard::from_bytes::<Op>` (trailing bytes are ignored) -/
def decGOp (bs : Bytes) : Option GOp := do
  let (tag, rest) ← decTag bs
  if tag = 0 then do
    let (e, _) ← decEntry rest
    pure (.put e)
  else if tag = 1 then do
    let (h, _) ← takeN 32 rest
    pure (.contentReady h)
  else if tag = 2 then do
    let (ns, rest) ← takeN 32 rest
    let (heads, _) ← decBytes rest
    pure (.syncReport ns heads)
  else none

/-- what `receive_loop` does with a received message: the request it sends on -/
inductive GossipEffect where
  /-- `SyncHandle::insert_remote(namespace, entry, from, status)`: status 0 complete (the message came
  directly from a neighbour), 2 missing -/
  | insertRemote (e : WEntry) (from_ : Bytes) (status : Nat)
  | neighborContentReady (node hash : Bytes)
  | incomingSyncReport (from_ ns heads : Bytes)
  /-- undecodable bytes end the receive loop of the document with an error -/
  | loopFails
deriving DecidableEq, Repr

def gossipReceive (content from_ : Bytes) (direct : Bool) : GossipEffect :=
  match decGOp content with
  | some (.put e) => .insertRemote e from_ (if direct then 0 else 2)
  | some (.contentReady h) => .neighborContentReady from_ h
  | some (.syncReport ns heads) => .incomingSyncReport from_ ns heads
  | none => .loopFails

end Codec
