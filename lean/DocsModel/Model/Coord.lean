/-!
# Session coordination between two nodes (`src/engine/state.rs`, handlers of `src/engine/live.rs`)

Two nodes `A` (false) and `B` (true) and one document. Per node the `PeerState` for the other
node; connect tasks and accept tasks are explicit (a task is alive from its spawn until the live
actor has processed its completion). The scheduler picks any enabled action.
-/

namespace Coord

inductive St where
  | idle
  | conn      -- `Running { origin: Connect(_) }`
  | acc       -- `Running { origin: Accept }`
deriving DecidableEq, Repr, Inhabited, Hashable

/-- phase of a connect task (one dial) of a node -/
inductive CPhase where
  | requesting            -- the request is on its way
  | declined (already : Bool)   -- the peer answered Abort (AlreadySyncing or another reason); completion pending
  | failedToConnect       -- the request was lost; completion pending
  | inSession (sid : Nat) -- accepted: this is the initiating end of session `sid`
deriving DecidableEq, Repr, Hashable

structure CTask where
  phase : CPhase
  reason : Nat
deriving DecidableEq, Repr, Hashable

structure Node where
  syncing : Bool := true
  st : St := .idle
  resync : Bool := false
  ctasks : List CTask := []
  /-- accept tasks alive at this node: session ids they serve -/
  atasks : List Nat := []
  /-- accept tasks that declined (completion pending): `already` flag -/
  declinedAcc : List Bool := []
  /-- dials made as a follow-up of a finished session (`SyncReason::Resync`) -/
  followUps : Nat := 0
  /-- dials made in total -/
  dialsMade : Nat := 0
deriving DecidableEq, Repr, Hashable

structure Session where
  id : Nat
  init : Bool
  initDone : Bool := false
  accDone : Bool := false
deriving DecidableEq, Repr, Hashable

structure Sys where
  a : Node := {}
  b : Node := {}
  /-- is B's id the greater one? (`expected_sync_direction`) -/
  bGreater : Bool := true
  sessions : List Session := []
  nextSid : Nat := 0
deriving DecidableEq, Repr, Hashable

def Sys.node (s : Sys) (n : Bool) : Node := if n then s.b else s.a
def Sys.upd (s : Sys) (n : Bool) (f : Node → Node) : Sys := if n then { s with b := f s.b } else { s with a := f s.a }
def Sys.greater (s : Sys) (n : Bool) : Bool := if n then s.bGreater else !s.bGreater
def Sys.dials (s : Sys) : Nat := s.a.dialsMade + s.b.dialsMade

/-! ## node-level transitions -/

/-- `PeerState::start_connect` (+ the spawn of the connect task in `sync_with_peer`) -/
def Node.startConnect (x : Node) (report : Bool) (reason : Nat) : Node :=
  if !x.syncing then x
  else if x.st = .idle then
    { x with st := .conn, resync := false, ctasks := x.ctasks ++ [{ phase := .requesting, reason }],
             dialsMade := x.dialsMade + 1 }
  else if report then { x with resync := true }
  else x

/-- `PeerState::finish` + the follow-up of `on_sync_finished`: the slot is freed whatever the
origin; if it was running and a resync was requested, dial again -/
def Node.finish (x : Node) : Node :=
  if x.st = .idle then x
  else if x.resync then
    let y := ({ x with st := .idle } : Node).startConnect false 3
    { y with followUps := y.followUps + 1 }
  else { x with st := .idle }

/-- the F9 repair (`connect_declined` + follow-up): a dial declined with `AlreadySyncing` frees the
slot if the dial still occupies it -/
def Node.connectDeclined (x : Node) : Node :=
  if x.st = .conn then
    if x.resync then
      let y := ({ x with st := .idle } : Node).startConnect false 3
      { y with followUps := y.followUps + 1 }
    else { x with st := .idle }
  else x

def Node.eraseC (x : Node) (i : Nat) : Node := { x with ctasks := x.ctasks.eraseIdx i }
def Node.eraseA (x : Node) (sid : Nat) : Node := { x with atasks := x.atasks.erase sid }

def setPhase (l : List CTask) (i : Nat) (p : CPhase) : List CTask :=
  l.mapIdx (fun j t => if j = i then { t with phase := p } else t)

def Node.setPhase (x : Node) (i : Nat) (p : CPhase) : Node := { x with ctasks := Coord.setPhase x.ctasks i p }
def Node.accept (x : Node) (sid : Nat) : Node := { x with st := .acc, resync := false, atasks := x.atasks ++ [sid] }
def Node.addDeclined (x : Node) (already : Bool) : Node := { x with declinedAcc := x.declinedAcc ++ [already] }
def Node.popDeclined (x : Node) : Node := { x with declinedAcc := x.declinedAcc.tail }

/-- the decision of `accept_request` for a request of the other node: `none` = Allow,
`some already` = Reject(AlreadySyncing) / Reject(NotFound) -/
def Node.acceptDecision (x : Node) (greater : Bool) : Option Bool :=
  if !x.syncing then some false
  else match x.st with
    | .idle => none
    | .acc => some true
    | .conn => if greater then none else some true

inductive Action where
  /-- node `n` decides to dial (new neighbour / direct join: `report = false`; sync report: `true`) -/
  | dial (n : Bool) (report : Bool)
  /-- the oldest outstanding request of node `n` reaches the other node (accept / decline) -/
  | deliverReq (n : Bool)
  /-- the oldest outstanding request of node `n` is lost -/
  | loseReq (n : Bool)
  /-- node `n`'s live actor processes the completion of its `i`-th connect task -/
  | completeConnect (n : Bool) (i : Nat)
  /-- node `n`'s live actor processes the completion of its accept task for session `sid` -/
  | completeAccept (n : Bool) (sid : Nat)
  /-- node `n`'s live actor processes the completion of an accept task that declined -/
  | completeDeclined (n : Bool)
deriving Repr, DecidableEq, Hashable

def firstRequesting (l : List CTask) : Option Nat := l.findIdx? (fun t => t.phase == .requesting)

def markDone (l : List Session) (sid : Nat) (initEnd : Bool) : List Session :=
  l.map (fun ss => if ss.id = sid then (if initEnd then { ss with initDone := true } else { ss with accDone := true }) else ss)

/-- one scheduler step; `fix` = with the F9 repair -/
def step (fix : Bool) (s : Sys) : Action → Sys
  | .dial n report => s.upd n (·.startConnect report (if report then 2 else 1))
  | .deliverReq n =>
    match firstRequesting (s.node n).ctasks with
    | none => s
    | some i =>
      match (s.node (!n)).acceptDecision (s.greater (!n)) with
      | none =>
        let sid := s.nextSid
        let s' := (s.upd (!n) (·.accept sid)).upd n (·.setPhase i (.inSession sid))
        { s' with sessions := s'.sessions ++ [{ id := sid, init := n }], nextSid := sid + 1 }
      | some already =>
        (s.upd (!n) (·.addDeclined already)).upd n (·.setPhase i (.declined already))
  | .loseReq n =>
    match firstRequesting (s.node n).ctasks with
    | none => s
    | some i => s.upd n (·.setPhase i .failedToConnect)
  | .completeConnect n i =>
    match (s.node n).ctasks[i]? with
    | none => s
    | some t =>
      match t.phase with
      | .requesting => s
      | .declined true =>
        -- `RemoteAbort(AlreadySyncing)`
        if fix then s.upd n (fun x => (x.eraseC i).connectDeclined) else s.upd n (·.eraseC i)
      | .declined false => s.upd n (fun x => (x.eraseC i).finish)
      | .failedToConnect => s.upd n (fun x => (x.eraseC i).finish)
      | .inSession sid =>
        let s' := s.upd n (fun x => (x.eraseC i).finish)
        { s' with sessions := markDone s'.sessions sid true }
  | .completeAccept n sid =>
    if (s.node n).atasks.contains sid then
      let s' := s.upd n (fun x => (x.eraseA sid).finish)
      { s' with sessions := markDone s'.sessions sid false }
    else s
  | .completeDeclined n =>
    -- `AlreadySyncing`: nothing; `NotFound`: `finish` on a document that is not syncing does nothing
    s.upd n (·.popDeclined)

/-- sessions in progress: neither end has finished -/
def inProgress (s : Sys) : List Session := s.sessions.filter (fun ss => !ss.initDone && !ss.accDone)

/-- nothing in flight: no connect task, no accept task, no declined completion pending -/
def quiescent (s : Sys) : Bool :=
  s.a.ctasks.isEmpty && s.b.ctasks.isEmpty && s.a.atasks.isEmpty && s.b.atasks.isEmpty &&
  s.a.declinedAcc.isEmpty && s.b.declinedAcc.isEmpty

def run (fix : Bool) (s : Sys) (as : List Action) : Sys := as.foldl (step fix) s

end Coord
