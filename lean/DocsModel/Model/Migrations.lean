import DocsModel.Model.Tables
/-!
# `src/store/fs/migrations.rs`: rebuilding the derived tables when a database is opened

`migration_001_populate_latest_table` runs when the head table is empty and the records table is
not; `migration_004_populate_by_key_index` runs when the by-key index is empty. (002/003 concern
the pre-0.1 namespace table and are not modelled.)
-/

namespace Tables

/-- the `HashMap` update of migration 001 for one record, in table order: later records with a
timestamp `>=` replace the head -/
def headStep (heads : List (Bytes × Bytes × Nat × Bytes)) (e : Entry) : List (Bytes × Bytes × Nat × Bytes) :=
  match latestGet heads e.ns e.author with
  | some (ts, _) => if e.ts ≥ ts then latestInsert (e.ns, e.author, e.ts, e.key) heads else heads
  | none => latestInsert (e.ns, e.author, e.ts, e.key) heads

def migration001 (t : T) : T :=
  if !t.latest.isEmpty || t.records.isEmpty then t
  else { t with latest := t.records.foldl headStep [] }

def migration004 (t : T) : T :=
  if !t.byKey.isEmpty then t
  else { t with byKey := t.records.foldl (fun idx e => k3Insert (e.ns, e.key, e.author) idx) [] }

/-- `Store::persistent` on an existing file: `run_migrations` -/
def reopen (t : T) : T := migration004 (migration001 t)

/-- a database written by an earlier version: without the head table and/or the by-key index -/
def dropDerived (t : T) (dropLatest dropByKey : Bool) : T :=
  { t with latest := if dropLatest then [] else t.latest, byKey := if dropByKey then [] else t.byKey }

end Tables
