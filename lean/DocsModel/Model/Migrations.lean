import DocsModel.Model.Tables
/-!
# `src/store/fs/migrations.rs`: rebuilding the derived tables when a database is opened

`migration_001_populate_latest_table` runs when the head table is empty and the records table is
not; `migration_004_populate_by_key_index` runs when the by-key index is empty.
`migration_002_namespaces_populate_v2` / `003` copy a first-generation capability table
(`namespaces-1`: id → secret) into the current one as write capabilities and delete it.
-/

namespace Tables

/-- the `HashMap` update of migration 001 for one record, in table order: later records with a
timestamp `>=` replace the head -/
def headStep (heads : List (Bytes × Bytes × Nat × Bytes)) (e : Entry) : List (Bytes × Bytes × Nat × Bytes) :=
  match latestGet heads e.ns e.author with
  | some (ts, _) => if e.ts ≥ ts then latestInsert (e.ns, e.author, e.ts, e.key) heads else heads
  | none => latestInsert (e.ns, e.author, e.ts, e.key) heads

def migration001 (t : T) : T :=
  if !t.latest.isEmpty || t.records.isEmpty then t
  else { t with latest := t.records.foldl headStep [] }

def migration004 (t : T) : T :=
  if !t.byKey.isEmpty then t
  else { t with byKey := t.records.foldl (fun idx e => k3Insert (e.ns, e.key, e.author) idx) [] }

/-- `migration_002` (+ `003`): every row `id → secret` of the first-generation table becomes the
row `id → (write, secret)` of the current table (replacing a row with the same id); the old table is
deleted afterwards -/
def migration002 (t : T) (v1 : List (Bytes × Bytes)) : T :=
  v1.foldl (fun t r => { t with namespaces := nsInsert (r.1, 1, r.2) t.namespaces }) t

/-- a database from before the current capability table: the write capabilities live in
`namespaces-1` (read capabilities did not exist then; rows of that kind stay where they are) -/
def toV1 (t : T) : T × List (Bytes × Bytes) :=
  ({ t with namespaces := t.namespaces.filter (fun r => r.2.1 != 1) },
   (t.namespaces.filter (fun r => r.2.1 == 1)).map fun r => (r.1, r.2.2))

/-- `Store::persistent` on an existing file: `run_migrations` -/
def reopen (t : T) : T := migration004 (migration001 t)

/-- the same with a first-generation capability table present (order of `run_migrations`: 001, 002,
003, 004) -/
def reopenV1 (t : T) (v1 : List (Bytes × Bytes)) : T := migration004 (migration002 (migration001 t) v1)

/-- a database written by an earlier version: without the head table and/or the by-key index -/
def dropDerived (t : T) (dropLatest dropByKey : Bool) : T :=
  { t with latest := if dropLatest then [] else t.latest, byKey := if dropByKey then [] else t.byKey }

end Tables
