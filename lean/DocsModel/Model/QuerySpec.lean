import DocsModel.Model.Tables
/-!
# What a query is supposed to return (specification of C05)

Written without reference to tables, bounds or indexes: filter the entries of the document, sort
them, apply the window.
-/

namespace QuerySpec
open Tables

/-- insertion sort by a strict order given as a boolean function -/
def insertBy (lt : Entry → Entry → Bool) (e : Entry) : List Entry → List Entry
  | [] => [e]
  | x :: xs => if lt e x then e :: x :: xs else x :: insertBy lt e xs

def sortBy (lt : Entry → Entry → Bool) (l : List Entry) : List Entry :=
  l.foldr (insertBy lt) []

/-- author, then key -/
def ltAuthorKey (a b : Entry) : Bool :=
  decide (a.author < b.author ∨ (a.author = b.author ∧ a.key < b.key))

/-- key, then author -/
def ltKeyAuthor (a b : Entry) : Bool :=
  decide (a.key < b.key ∨ (a.key = b.key ∧ a.author < b.author))

def window (q : Query) (l : List Entry) : List Entry :=
  let l := l.drop q.offset
  match q.limit with
  | some n => l.take n
  | none => l

/-- the latest entry of each key: the entries (all authors) of one key in iteration order
(ascending or descending author), of which the first one with the greatest timestamp wins -/
def winnerOf (group : List Entry) : Option Entry :=
  group.foldl (fun best e =>
    match best with
    | none => some e
    | some b => if e.ts > b.ts then some e else some b) none

/-- distinct keys of a key-sorted list, in order -/
def keysOf (l : List Entry) : List Bytes := (l.map (·.key)).eraseDups

def spec (entries : List Entry) (ns : Bytes) (q : Query) : List Entry :=
  let doc := entries.filter (fun e => e.ns == ns)
  let dir := fun (l : List Entry) => if q.desc then l.reverse else l
  let keepEmpty := fun (e : Entry) => q.includeEmpty || !e.isEmpty
  match q.kind with
  | .flat sb =>
    let matching := doc.filter (fun e => q.author.matches e.author && q.key.matches e.key && keepEmpty e)
    let sorted := match sb, q.author with
      | .keyAuthor, .any => sortBy ltKeyAuthor matching
      | _, _ => sortBy ltAuthorKey matching
    window q (dir sorted)
  | .latestPerKey =>
    -- key filter before grouping; author filter and deletion-marker filter on the winner
    let cands := dir (sortBy ltKeyAuthor (doc.filter (fun e => q.key.matches e.key)))
    let winners := (keysOf cands).filterMap (fun k => winnerOf (cands.filter (fun e => e.key == k)))
    window q (winners.filter (fun e => q.author.matches e.author && keepEmpty e))

end QuerySpec
