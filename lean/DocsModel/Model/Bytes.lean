/-!
# Byte strings

Keys, namespace ids, author ids and hashes are byte strings ordered lexicographically,
exactly as `bytes::Bytes`, `[u8; 32]` and `&[u8]` are ordered in the Rust code (and as redb
orders the elements of its tuple keys).

This file mirrors `src/store/fs/bounds.rs`: `increment_by_one` (used for the fixed width ids)
and `prefix_successor` (used for the variable length key prefix).
-/

abbrev Bytes := List UInt8

namespace Bytes

/-- `increment_by_one(value: &mut [u8]) -> bool` of `bounds.rs`: increments the last byte that is
not 255, zeroing the 255 bytes behind it. Returns the success flag and the mutated buffer. -/
def incrementByOne : Bytes → Bool × Bytes
  | [] => (false, [])
  | b :: rest =>
    match incrementByOne rest with
    | (true, r) => (true, b :: r)
    | (false, r) => if b = 255 then (false, 0 :: r) else (true, (b + 1) :: r)

/-- `prefix_successor(value: &mut Vec<u8>) -> bool` of `bounds.rs`: drops trailing 255 bytes and
increments the last remaining byte. `none` = the function returned `false`. -/
def prefixSucc : Bytes → Option Bytes
  | [] => none
  | b :: rest =>
    match prefixSucc rest with
    | some r => some (b :: r)
    | none => if b = 255 then none else some [b + 1]

/-- `key.starts_with(prefix)` -/
def startsWith (key pre : Bytes) : Bool := pre.isPrefixOf key

/-- All prefixes of a key, shortest (the empty key) first: what `parents()` in `store/fs.rs`
returns the hits of, after its final `reverse()`. -/
def inits : Bytes → List Bytes
  | [] => [[]]
  | b :: rest => [] :: (inits rest).map (b :: ·)

def hexDigit (n : Nat) : Char :=
  if n < 10 then Char.ofNat (48 + n) else Char.ofNat (87 + n)

/-- lower-case hex, `-` for the empty string (so that every value is one token) -/
def toHex (b : Bytes) : String :=
  if b.isEmpty then "-" else
  String.ofList (b.flatMap fun x => [hexDigit (x.toNat / 16), hexDigit (x.toNat % 16)])

def hexVal (c : Char) : Option Nat :=
  if '0' ≤ c ∧ c ≤ '9' then some (c.toNat - 48)
  else if 'a' ≤ c ∧ c ≤ 'f' then some (c.toNat - 87)
  else if 'A' ≤ c ∧ c ≤ 'F' then some (c.toNat - 55)
  else none

def ofHexChars : List Char → Option Bytes
  | [] => some []
  | [_] => none
  | a :: b :: rest => do
    let x ← hexVal a
    let y ← hexVal b
    let r ← ofHexChars rest
    pure (UInt8.ofNat (x * 16 + y) :: r)

def ofHex (s : String) : Option Bytes :=
  if s = "-" then some [] else ofHexChars s.toList

end Bytes
