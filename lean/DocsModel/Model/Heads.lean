import DocsModel.Model.Postcard
/-!
# `AuthorHeads` (`src/heads.rs`)

A map author → timestamp (a `BTreeMap`, here a list sorted by author without duplicates).
-/

namespace Heads

abbrev H := List (Bytes × Nat)

/-- `AuthorHeads::insert`: keep the maximum -/
def insert (h : H) (author : Bytes) (ts : Nat) : H :=
  match h with
  | [] => [(author, ts)]
  | (a, t) :: rest =>
    if author < a then (author, ts) :: (a, t) :: rest
    else if a < author then (a, t) :: insert rest author ts
    else (a, max t ts) :: rest

def get (h : H) (author : Bytes) : Option Nat := (h.find? (·.1 == author)).map (·.2)

/-- `has_news_for`: how many authors `self` can offer something newer for -/
def hasNewsFor (self other : H) : Nat :=
  (self.filter (fun (a, ts) =>
    match get other a with
    | some tsTheirs => decide (ts > tsTheirs)
    | none => true)).length

/-- insertion sort of `(timestamp, author)` pairs, ascending — `by_timestamp.sort()` -/
def insertTA (x : Nat × Bytes) : List (Nat × Bytes) → List (Nat × Bytes)
  | [] => [x]
  | y :: ys => if x.1 < y.1 ∨ (x.1 = y.1 ∧ x.2 < y.2) then x :: y :: ys else y :: insertTA x ys

def sortTA (l : List (Nat × Bytes)) : List (Nat × Bytes) := l.foldr insertTA []

/-- postcard of `Vec<(u64, AuthorId)>` -/
def encItems (items : List (Nat × Bytes)) : Bytes :=
  Postcard.encVarint items.length ++ items.flatMap (fun (ts, a) => Postcard.encVarint ts ++ a)

/-- the loop of `encode`: push newest first, stop (dropping the last pushed) once the size exceeds the limit -/
def takeFitting (limit : Nat) : (acc : List (Nat × Bytes)) → List (Nat × Bytes) → List (Nat × Bytes)
  | acc, [] => acc
  | acc, x :: xs =>
    if (encItems (acc ++ [x])).length > limit then acc else takeFitting limit (acc ++ [x]) xs

/-- `AuthorHeads::encode(size_limit)`; `none` = error (limit below the empty encoding) -/
def encode (h : H) (limit : Option Nat) : Option Bytes :=
  let newestFirst := (sortTA (h.map (fun (a, ts) => (ts, a)))).reverse
  match limit with
  | none => some (encItems newestFirst)
  | some l =>
    let enc := encItems (takeFitting l [] newestFirst)
    if enc.length ≤ l then some enc else none

def decItems : (n : Nat) → Bytes → Option (List (Nat × Bytes))
  | 0, _ => some []
  | n + 1, bs => do
    let (ts, rest) ← Postcard.decVarint bs
    let (a, rest) ← Postcard.takeN 32 rest
    let more ← decItems n rest
    pure ((ts, a) :: more)

/-- `AuthorHeads::decode`: trailing bytes are ignored, duplicates keep the maximum -/
def decode (bs : Bytes) : Option H := do
  let (n, rest) ← Postcard.decVarint bs
  -- a length prefix larger than the input cannot be satisfied
  if n > rest.length then none else
  let items ← decItems n rest
  pure (items.foldl (fun h (ts, a) => insert h a ts) [])

end Heads
