import DocsModel.Model.Entry
/-!
# The replica as a set of entries: `ranger::Store::put` over an ordered map

This is `put` of `src/ranger.rs` with the store primitives given by their *ordered-map
definitions* (what `SimpleStore` in the crate's tests implements):
`prefixes_of` = all stored entries of the same author whose key is a prefix, and
`remove_prefix_filtered` = remove the same-author entries whose key starts with the key and that
satisfy the predicate. The store is a list kept sorted by `(namespace, author, key)`.
-/

namespace Spec

abbrev Store := List Entry

inductive Outcome where
  | notInserted
  | inserted (removed : Nat)
deriving DecidableEq, Repr

/-- insert into a list sorted by id, replacing an entry with the same id -/
def insertSorted (e : Entry) : Store → Store
  | [] => [e]
  | x :: xs =>
    if Entry.idLt e x then e :: x :: xs
    else if Entry.idLt x e then x :: insertSorted e xs
    else e :: xs

/-- `Store::put` -/
def put (s : Store) (e : Entry) : Store × Outcome :=
  -- for prefix_entry in self.prefixes_of(entry.key()): if entry.value() <= prefix_entry.value()
  if s.any (fun p => decide (Entry.dom p e)) then (s, .notInserted)
  else
    -- remove_prefix_filtered(entry.key(), |value| entry.value() >= value)
    let removed := s.filter (fun c => decide (Entry.dom e c))
    let kept := s.filter (fun c => !decide (Entry.dom e c))
    (insertSorted e kept, .inserted removed.length)

/-- apply a sequence of offers to a store -/
def run (s : Store) (offers : List Entry) : Store := offers.foldl (fun s e => (put s e).1) s

/-- `e` is maximal in `O`: nothing else in `O` dominates it -/
def isMax (O : List Entry) (e : Entry) : Prop := ∀ p ∈ O, Entry.dom p e → p = e

instance (O : List Entry) (e : Entry) : Decidable (isMax O e) := by unfold isMax; exact inferInstance

/-- The merge of a collection of offered entries under newest-wins and prefix deletion: the
offered entries that no other offered entry dominates. -/
def join (O : List Entry) : List Entry := O.filter (fun e => decide (isMax O e))

end Spec
