import DocsModel.Model.Replica
/-!
# A swarm of replicas of one document

Any number of replicas (indexed by `Nat`), each a replica state in the sense of `Spec` (what
`ranger::Store::put` maintains). The steps are what the live engine does to a replica
(`src/engine/live.rs`, `src/engine/gossip.rs`, `src/net.rs`):

* `localWrite i e` — `Replica::insert` / `delete_prefix` on replica `i` (the entry, with the
  timestamp taken from `i`'s own, possibly skewed, clock, is given); accepted writes are broadcast,
  i.e. recorded in `w`;
* `deliver i e valid` — a copy of an entry that some replica wrote reaches replica `i` through
  `insert_remote_entry`: a gossip `Op::Put` (`gossip.rs::receive_loop`) — any entry ever broadcast,
  any number of times, in any order; never delivering is loss — or one value of a reconciliation
  message of a session that may be cut short after any message. `valid` is the verdict of `i`'s
  validation (`validate_entry`: signatures, namespace, future bound against `i`'s clock);
* `session i j` — a reconciliation session between `i` and `j` run to completion while every
  entry either side holds passes the other's validation: both end with the merge (C01);
* `restart i` — the replica is closed and opened again from its store.
-/

namespace Swarm
open Spec

structure S where
  st : Nat → Store := fun _ => []
  /-- the accepted local writes so far, with the replica that made them -/
  w : List (Nat × Entry) := []

def upd (f : Nat → Store) (i : Nat) (v : Store) : Nat → Store := fun k => if k = i then v else f k

def written (s : S) : List Entry := s.w.map (·.2)

/-- both replica states after a complete session -/
def merge (a b : Store) : Store := run [] (a ++ b)

inductive Step where
  | localWrite (i : Nat) (e : Entry)
  | deliver (i : Nat) (e : Entry) (valid : Bool)
  | session (i j : Nat)
  | restart (i : Nat)
deriving Repr

def Step.isWrite : Step → Bool
  | .localWrite _ _ => true
  | _ => false

def step (s : S) : Step → S
  | .localWrite i e =>
    match put (s.st i) e with
    | (s', .inserted _) => { st := upd s.st i s', w := (i, e) :: s.w }
    | (_, .notInserted) => s
  | .deliver i e valid =>
    if valid = true ∧ e ∈ written s then { s with st := upd s.st i (put (s.st i) e).1 } else s
  | .session i j =>
    { s with st := upd (upd s.st i (merge (s.st i) (s.st j))) j (merge (s.st i) (s.st j)) }
  | .restart _ => s

def run (s : S) (steps : List Step) : S := steps.foldl step s

/-- which replicas a piece of knowledge held by the replicas `K` has reached after one step:
complete sessions carry it across -/
def spread (K : List Nat) : Step → List Nat
  | .session a b => if a ∈ K ∨ b ∈ K then a :: b :: K else K
  | _ => K

def reach (K : List Nat) (steps : List Step) : List Nat := steps.foldl spread K

/-- the closing round reaches every one of the `n` replicas from every replica that wrote -/
def connects (n : Nat) (origins : List Nat) (closing : List Step) : Bool :=
  origins.all fun o => (List.range n).all fun j => (reach [o] closing).contains j

end Swarm
