import DocsModel.Model.Codec
import DocsModel.Model.Heads
import DocsModel.Model.Coord
/-!
# The live actor's handlers (`src/engine/live.rs`, `src/engine/state.rs`, `GossipState` of `src/engine/gossip.rs`)

One node. Every handler that `LiveActor::run_inner` dispatches to is a step of this model:
`start_sync`, `leave`, `Subscribe`, `NeighborUp` / `NeighborDown`, `on_replica_event` (local insert →
gossip `Put`; remote insert → download decision), `start_download`, `on_download_ready`,
`on_neighbor_content_ready`, `on_sync_report`, `accept_sync_request`, `sync_with_peer`,
`on_sync_via_connect_finished`, `on_sync_via_accept_finished`, `on_sync_finished`.

What the handlers ask of other components is an *output* of the step (gossip broadcast, download
request, dial, event to a subscriber, `register_useful_peer`); what other components answer is an
*input* of the step (whether the blob store already has the content, what the store's heads are,
whether opening the replica succeeded, which useful peers the store remembers).

`QueuedHashes` keeps two maps (`by_hash`, `by_namespace`); the model keeps the set of
`(hash, document)` pairs both are views of (`byHash` / `byNs` below are what the harness compares the
two real maps with).
-/

namespace Live

/-- `SyncReason`: 0 `DirectJoin`, 1 `NewNeighbor`, 2 `SyncReport`, 3 `Resync` -/
abbrev Reason := Nat

structure Doc where
  ns : Bytes
  /-- `may_emit_ready` -/
  mayEmit : Bool := false
  /-- `PeerState` per node seen so far: slot and `resync_requested` -/
  peers : List (Bytes × Coord.St × Bool) := []
deriving DecidableEq, Repr

/-- events of the live actor (`live::Event`) -/
inductive Ev where
  | contentReady (hash : Bytes)
  | neighborUp (peer : Bytes)
  | neighborDown (peer : Bytes)
  /-- `SyncFinished`: peer, origin (0 = accept, `1 + reason` = connect), `some (recv, sent)` or failed -/
  | syncFinished (peer : Bytes) (origin : Nat) (result : Option (Nat × Nat))
  | pendingContentReady
deriving DecidableEq, Repr

inductive Out where
  /-- `GossipState::broadcast` (`neighbors = false`) / `broadcast_neighbors` with the encoded `Op` -/
  | broadcast (ns : Bytes) (neighbors : Bool) (payload : Bytes)
  /-- `Downloader::download_with_opts` for the hash; `node` is the provider just recorded -/
  | download (ns hash node : Bytes)
  /-- an event delivered to a subscriber channel -/
  | event (chan : Nat) (ev : Ev)
  /-- a connect task is spawned (`start_connect` returned true) -/
  | dial (ns peer : Bytes) (reason : Reason)
  /-- `SyncHandle::register_useful_peer` -/
  | register (ns peer : Bytes)
  /-- the answer to `AcceptSyncRequest`: 0 allow, 1 reject(already syncing), 2 reject(not found) -/
  | acceptOutcome (code : Nat)
  /-- the reply of `start_sync` / `leave` -/
  | reply (ok : Bool)
deriving DecidableEq, Repr

structure LState where
  /-- is this node's id greater than every peer's id it is asked about? decided per peer by the harness:
  the ids greater than ours -/
  smallerPeers : List Bytes := []
  /-- `NamespaceStates` -/
  docs : List Doc := []
  /-- `GossipState::active` -/
  topics : List Bytes := []
  /-- `QueuedHashes`: `(hash, document)` pairs, oldest first, no duplicates -/
  queued : List (Bytes × Bytes) := []
  /-- `missing_hashes` -/
  missing : List Bytes := []
  /-- `hash_providers` -/
  providers : List (Bytes × Bytes) := []
  /-- `SubscribersMap`: channels per document, in subscription order -/
  subs : List (Bytes × List Nat) := []
  /-- channels whose receiving end is gone -/
  closed : List Nat := []
  /-- `Gossip::max_message_size` -/
  maxMessageSize : Nat := 4096
deriving Repr

/-! ## small helpers -/

def LState.doc? (s : LState) (ns : Bytes) : Option Doc := s.docs.find? (·.ns == ns)
def LState.syncing (s : LState) (ns : Bytes) : Bool := (s.doc? ns).isSome
def LState.updDoc (s : LState) (ns : Bytes) (f : Doc → Doc) : LState :=
  { s with docs := s.docs.map (fun d => if d.ns == ns then f d else d) }

def Doc.slot (d : Doc) (peer : Bytes) : Coord.St × Bool := (d.peers.lookup peer).getD (.idle, false)
def Doc.setSlot (d : Doc) (peer : Bytes) (x : Coord.St × Bool) : Doc :=
  { d with peers := (peer, x) :: d.peers.filter (·.1 != peer) }

def LState.slot? (s : LState) (ns peer : Bytes) : Option (Coord.St × Bool) := (s.doc? ns).map (·.slot peer)

def LState.queuedHash (s : LState) (h : Bytes) : Bool := s.queued.any (·.1 == h)
def LState.queuedNs (s : LState) (ns : Bytes) : Bool := s.queued.any (·.2 == ns)
def LState.enqueue (s : LState) (h ns : Bytes) : LState :=
  if s.queued.contains (h, ns) then s else { s with queued := s.queued ++ [(h, ns)] }

/-- `QueuedHashes::remove_hash`: the documents that have no queued hash left afterwards -/
def LState.removeHash (s : LState) (h : Bytes) : LState × List Bytes :=
  let hit := (s.queued.filter (·.1 == h)).map (·.2)
  let rest := s.queued.filter (·.1 != h)
  ({ s with queued := rest }, hit.filter (fun ns => !rest.any (·.2 == ns)))

def insertSet (l : List Bytes) (x : Bytes) : List Bytes := if l.contains x then l else l ++ [x]

/-- `SubscribersMap::send` -/
def LState.send (s : LState) (ns : Bytes) (ev : Ev) : LState × List Out :=
  match s.subs.lookup ns with
  | none => (s, [])
  | some chans =>
    let live := chans.filter (fun c => !s.closed.contains c)
    let subs' := if live.isEmpty then s.subs.filter (·.1 != ns)
                 else s.subs.map (fun (n, cs) => if n == ns then (n, live) else (n, cs))
    ({ s with subs := subs' }, live.map (fun c => .event c ev))

/-- `LiveActor::broadcast_neighbors` (gated by `is_syncing`) → `GossipState::broadcast_neighbors`
(gated by the topic being active) -/
def LState.bcastNeighbors (s : LState) (ns : Bytes) (payload : Bytes) : List Out :=
  if s.syncing ns && s.topics.contains ns then [.broadcast ns true payload] else []

/-- `sync_with_peer` = `NamespaceStates::start_connect` + spawn -/
def LState.syncWithPeer (s : LState) (ns peer : Bytes) (reason : Reason) : LState × List Out :=
  match s.doc? ns with
  | none => (s, [])
  | some d =>
    match d.slot peer with
    | (.idle, _) => (s.updDoc ns (·.setSlot peer (.conn, false)), [.dial ns peer reason])
    | (st, resync) => (if reason = 2 then s.updDoc ns (·.setSlot peer (st, true)) else
                        -- the entry is created by the lookup even when nothing changes
                        s.updDoc ns (·.setSlot peer (st, resync)), [])

/-- `hash_providers.entry(hash).or_default().insert(node)` -/
def LState.addProvider (s : LState) (hash node : Bytes) : LState :=
  if s.providers.contains (hash, node) then s else { s with providers := s.providers ++ [(hash, node)] }

/-- `start_download` -/
def LState.startDownload (s : LState) (ns hash node : Bytes) (onlyIfMissing blobComplete : Bool) :
    LState × List Out :=
  if blobComplete then ({ s with missing := s.missing.filter (· != hash) }, [])
  else if s.queuedHash hash then ((s.addProvider hash node).enqueue hash ns, [])
  else if !onlyIfMissing || s.missing.contains hash then
    ({ (s.addProvider hash node).enqueue hash ns with missing := s.missing.filter (· != hash) },
      [.download ns hash node])
  else (s.addProvider hash node, [])

/-- how a connect task ended -/
inductive ConnRes where
  /-- `Ok(SyncFinished)`: entries received, entries sent, heads received -/
  | ok (recv sent : Nat) (heads : Heads.H)
  /-- `Err(RemoteAbort(AlreadySyncing))` -/
  | abortAlready
  | err
deriving DecidableEq, Repr

/-- how an accept task ended -/
inductive AccRes where
  | ok (ns peer : Bytes) (recv sent : Nat) (heads : Heads.H)
  /-- `Err(Abort { reason: AlreadySyncing })` -/
  | abortAlready
  /-- an error that names peer and document -/
  | errNamed (ns peer : Bytes)
  /-- an error before the first message was read -/
  | errUnnamed
deriving DecidableEq, Repr

/-- the part of `on_sync_finished` after a successful `NamespaceStates::finish`: the `SyncFinished` event,
then `PendingContentReady` (now, or once the queued downloads are done), then the follow-up dial -/
def LState.afterFinish (s : LState) (ns peer : Bytes) (origin : Nat) (res : Option (Nat × Nat)) (resync : Bool) :
    LState × List Out :=
  let r2 := s.send ns (.syncFinished peer origin res)
  let r3 : LState × List Out :=
    if r2.1.queuedNs ns then (r2.1.updDoc ns (fun d => { d with mayEmit := true }), [])
    else ((r2.1.send ns .pendingContentReady).1.updDoc ns (fun d => { d with mayEmit := false }),
          (r2.1.send ns .pendingContentReady).2)
  let r4 : LState × List Out := if resync then r3.1.syncWithPeer ns peer 3 else (r3.1, [])
  (r4.1, r2.2 ++ r3.2 ++ r4.2)

/-- what a session that ended well leads to before the slot is looked at: the peer is registered as
useful and, if entries were received, the heads are reported to the neighbours -/
def LState.finishedOuts (s : LState) (ns peer : Bytes) (res : Option (Nat × Nat × Heads.H)) : List Out :=
  match res with
  | none => []
  | some (recv, _, heads) =>
    [.register ns peer] ++
      (if recv > 0 then
        match Heads.encode heads (some s.maxMessageSize) with
        | some b => s.bcastNeighbors ns (Codec.encGOp (.syncReport ns b))
        | none => []
       else [])

/-- `on_sync_finished`; `origin` 0 = accept, `1 + reason` = connect; `res = some (recv, sent, heads)` on success -/
def LState.onSyncFinished (s : LState) (ns peer : Bytes) (origin : Nat) (res : Option (Nat × Nat × Heads.H)) :
    LState × List Out :=
  -- `NamespaceStates::finish`
  match s.doc? ns with
  | none => (s, s.finishedOuts ns peer res)
  | some d =>
    match d.slot peer with
    | (.idle, resync) => (s.updDoc ns (·.setSlot peer (.idle, resync)), s.finishedOuts ns peer res)
    | (_, resync) =>
      let r := (s.updDoc ns (·.setSlot peer (.idle, resync))).afterFinish ns peer origin
                 (res.map fun (r, st, _) => (r, st)) resync
      (r.1, s.finishedOuts ns peer res ++ r.2)

/-- `on_download_ready`, per document whose last queued hash has just completed: `PendingContentReady`
if a finished sync is waiting for it (`may_emit_ready`, which clears the flag) -/
def emitReady (acc : LState × List Out) (n : Bytes) : LState × List Out :=
  match acc.1.doc? n with
  | some d =>
    if d.mayEmit then
      let r := (acc.1.updDoc n (fun d => { d with mayEmit := false })).send n .pendingContentReady
      (r.1, acc.2 ++ r.2)
    else acc
  | none => acc

/-- `join_peers`: every known peer is dialled (`DirectJoin`) -/
def dialKnown (ns : Bytes) (acc : LState × List Out) (p : Bytes) : LState × List Out :=
  ((acc.1.syncWithPeer ns p 0).1, acc.2 ++ (acc.1.syncWithPeer ns p 0).2)

inductive In where
  /-- `start_sync(ns, [])`: `openOk` = the store actor opened the replica; `known` = the useful peers
  the store remembers for the document -/
  | startSync (ns : Bytes) (openOk : Bool) (known : List Bytes)
  /-- `leave`; `storeOk` = the store actor's `set_sync(false)`, `unsubscribe`, `close` all succeed (they fail
  when the replica is no longer open there) -/
  | leave (ns : Bytes) (kill : Bool) (storeOk : Bool)
  | subscribe (ns : Bytes) (chan : Nat)
  /-- the receiving end of a subscriber channel goes away -/
  | dropChan (chan : Nat)
  | neighborUp (ns peer : Bytes)
  | neighborDown (ns peer : Bytes)
  /-- `on_replica_event(LocalInsert)`; `entry` = the postcard bytes of the signed entry -/
  | localInsert (ns entry : Bytes)
  /-- `on_replica_event(RemoteInsert)`; `status` 0 complete, 1 incomplete, 2 missing -/
  | remoteInsert (ns hash from_ : Bytes) (fromValid shouldDownload : Bool) (status : Nat) (blobComplete : Bool)
  | downloadReady (ns hash : Bytes) (ok : Bool)
  /-- `NeighborContentReady` -/
  | contentReady (ns node hash : Bytes) (blobComplete : Bool)
  /-- `IncomingSyncReport`; `ours` = the heads the store holds for the document -/
  | syncReport (from_ ns heads : Bytes) (ours : Heads.H)
  | acceptRequest (ns peer : Bytes)
  | dialRequest (ns peer : Bytes) (reason : Reason)
  | connectFinished (ns peer : Bytes) (reason : Reason) (res : ConnRes)
  | acceptFinished (res : AccRes)
deriving Repr

def step (s : LState) : In → LState × List Out
  | .startSync ns openOk known =>
    if !s.syncing ns && !openOk then (s, [.reply false])
    else
      let s := if s.syncing ns then s else { s with docs := s.docs ++ [{ ns }] }
      -- `join_peers`: the topic is joined, then every known peer is dialled
      let s := { s with topics := insertSet s.topics ns }
      let r := known.foldl (dialKnown ns) (s, [])
      (r.1, r.2 ++ [.reply true])
  | .leave ns kill storeOk =>
    if s.syncing ns then
      -- `state.remove` comes first; then `set_sync(false)?`, `unsubscribe?`, `close?`, then `gossip.quit`
      let s := { s with docs := s.docs.filter (·.ns != ns) }
      if storeOk then
        let s := { s with topics := s.topics.filter (· != ns) }
        (if kill then { s with subs := s.subs.filter (·.1 != ns) } else s, [.reply true])
      else (s, [.reply false])
    else (if kill then { s with subs := s.subs.filter (·.1 != ns) } else s, [.reply true])
  | .subscribe ns chan =>
    let cur := (s.subs.lookup ns).getD []
    ({ s with subs := if (s.subs.lookup ns).isSome
                       then s.subs.map (fun (n, cs) => if n == ns then (n, cs ++ [chan]) else (n, cs))
                       else s.subs ++ [(ns, cur ++ [chan])] }, [])
  | .dropChan chan => ({ s with closed := chan :: s.closed }, [])
  | .neighborUp ns peer =>
    let (s, o1) := s.syncWithPeer ns peer 1
    let (s, o2) := s.send ns (.neighborUp peer)
    (s, o1 ++ o2)
  | .neighborDown ns peer => s.send ns (.neighborDown peer)
  | .localInsert ns entry =>
    if s.syncing ns && s.topics.contains ns then (s, [.broadcast ns false (Postcard.encVarint 0 ++ entry)]) else (s, [])
  | .remoteInsert ns hash from_ fromValid shouldDownload status blobComplete =>
    if shouldDownload then
      if status = 0 then
        if fromValid then s.startDownload ns hash from_ false blobComplete else (s, [])
      else ({ s with missing := insertSet s.missing hash }, [])
    else (s, [])
  | .downloadReady ns hash ok =>
    let (s, completed) := s.removeHash hash
    let (s, o1) :=
      if ok then
        let (s, o) := s.send ns (.contentReady hash)
        (s, o ++ s.bcastNeighbors ns (Codec.encGOp (.contentReady hash)))
      else ({ s with missing := insertSet s.missing hash }, [])
    completed.foldl emitReady (s, o1)
  | .contentReady ns node hash blobComplete => s.startDownload ns hash node true blobComplete
  | .syncReport from_ ns heads ours =>
    if !s.syncing ns then (s, [])
    else match Heads.decode heads with
      | none => (s, [])
      | some theirs => if Heads.hasNewsFor theirs ours > 0 then s.syncWithPeer ns from_ 2 else (s, [])
  | .acceptRequest ns peer =>
    match s.doc? ns with
    | none => (s, [.acceptOutcome 2])
    | some d =>
      match d.slot peer with
      | (.idle, _) => (s.updDoc ns (·.setSlot peer (.acc, false)), [.acceptOutcome 0])
      | (.acc, r) => (s.updDoc ns (·.setSlot peer (.acc, r)), [.acceptOutcome 1])
      | (.conn, r) =>
        -- `expected_sync_direction`: accept iff our id is the greater one
        if s.smallerPeers.contains peer then (s.updDoc ns (·.setSlot peer (.acc, false)), [.acceptOutcome 0])
        else (s.updDoc ns (·.setSlot peer (.conn, r)), [.acceptOutcome 1])
  | .dialRequest ns peer reason => s.syncWithPeer ns peer reason
  | .connectFinished ns peer reason res =>
    match res with
    | .abortAlready =>
      -- `connect_declined`
      match s.doc? ns with
      | none => (s, [])
      | some d =>
        match d.slot peer with
        | (.conn, resync) =>
          let s := s.updDoc ns (·.setSlot peer (.idle, resync))
          if resync then s.syncWithPeer ns peer 3 else (s, [])
        | x => (s.updDoc ns (·.setSlot peer x), [])
    | .ok recv sent heads => s.onSyncFinished ns peer (1 + reason) (some (recv, sent, heads))
    | .err => s.onSyncFinished ns peer (1 + reason) none
  | .acceptFinished res =>
    match res with
    | .ok ns peer recv sent heads => s.onSyncFinished ns peer 0 (some (recv, sent, heads))
    | .abortAlready => (s, [])
    | .errNamed ns peer => s.onSyncFinished ns peer 0 none
    | .errUnnamed => (s, [])

def run (s : LState) (ins : List In) : LState × List Out :=
  ins.foldl (fun acc i => let (s', o) := step acc.1 i; (s', acc.2 ++ o)) (s, [])

/-- the two maps of `QueuedHashes` as views of the pair set -/
def LState.byHash (s : LState) : List (Bytes × List Bytes) :=
  (s.queued.map (·.1)).eraseDups.map (fun h => (h, (s.queued.filter (·.1 == h)).map (·.2)))
def LState.byNs (s : LState) : List (Bytes × List Bytes) :=
  (s.queued.map (·.2)).eraseDups.map (fun n => (n, (s.queued.filter (·.2 == n)).map (·.1)))

end Live
