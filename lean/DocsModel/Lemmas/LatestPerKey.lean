import DocsModel.Model.QuerySpec
/-!
# `LatestPerKeySelector` over a key-grouped stream = the per-key winners of the specification
-/

namespace QuerySpec
open Tables

def pick (b e : Entry) : Entry := if e.ts > b.ts then e else b

theorem winnerOf_fold (b : Entry) (xs : List Entry) :
    xs.foldl (fun best e => match best with
      | none => some e
      | some b => if e.ts > b.ts then some e else some b) (some b) = some (xs.foldl pick b) := by
  induction xs generalizing b with
  | nil => rfl
  | cons x xs ih =>
    simp only [List.foldl_cons]
    by_cases h : x.ts > b.ts
    · simp only [h, if_true]; rw [ih x]; simp [pick, h]
    · simp only [h, if_false]; rw [ih b]; simp [pick, h]

theorem winnerOf_cons (x : Entry) (xs : List Entry) : winnerOf (x :: xs) = some (xs.foldl pick x) := by
  unfold winnerOf
  simp only [List.foldl_cons]
  exact winnerOf_fold x xs

theorem winnerOf_snoc (pre : List Entry) (best e : Entry) (h : winnerOf pre = some best) :
    winnerOf (pre ++ [e]) = some (pick best e) := by
  cases pre with
  | nil => simp [winnerOf] at h
  | cons x xs =>
    rw [winnerOf_cons] at h
    rw [List.cons_append, winnerOf_cons, List.foldl_append]
    simp only [Option.some.injEq] at h
    simp [h]

theorem filterMap_congr' {α β : Type} (f g : α → Option β) (l : List α) (h : ∀ x ∈ l, f x = g x) :
    l.filterMap f = l.filterMap g := by
  induction l with
  | nil => rfl
  | cons a as ih =>
    simp only [List.filterMap_cons, h a List.mem_cons_self, ih (fun x hx => h x (List.mem_cons_of_mem _ hx))]

/-- all occurrences of a key are consecutive -/
def Grouped : List Bytes → Prop
  | [] => True
  | k :: ks => k ∉ ks.dropWhile (· == k) ∧ Grouped ks

theorem eraseDups_run (k0 : Bytes) (ks ms : List Bytes) (hks : ∀ k ∈ ks, k = k0) (hne : ks ≠ [])
    (hms : k0 ∉ ms) : (ks ++ ms).eraseDups = k0 :: ms.eraseDups := by
  cases ks with
  | nil => exact absurd rfl hne
  | cons k ks' =>
    have hk : k = k0 := hks k List.mem_cons_self
    subst hk
    rw [List.cons_append, List.eraseDups_cons]
    congr 1
    have : List.filter (fun b => !b == k) (ks' ++ ms) = ms := by
      rw [List.filter_append]
      have h1 : List.filter (fun b => !b == k) ks' = [] := by
        apply List.filter_eq_nil_iff.mpr
        intro a ha
        simp [hks a (List.mem_cons_of_mem _ ha)]
      have h2 : List.filter (fun b => !b == k) ms = ms := by
        apply List.filter_eq_self.mpr
        intro a ha
        have : a ≠ k := fun h => hms (h ▸ ha)
        simp [this]
      rw [h1, h2]; rfl
    rw [this]

/-- the specification: for each key, in order of first appearance, the winner of its entries -/
def winners (C : List Entry) : List Entry :=
  (keysOf C).filterMap (fun k => winnerOf (C.filter (fun e => e.key == k)))

theorem winners_run (k0 : Bytes) (pre l : List Entry) (best : Entry) (hpre : ∀ e ∈ pre, e.key = k0)
    (hw : winnerOf pre = some best) (hl : ∀ e ∈ l, e.key ≠ k0) :
    winners (pre ++ l) = best :: winners l := by
  have hne : pre ≠ [] := by
    intro h; rw [h] at hw; simp [winnerOf] at hw
  unfold winners keysOf
  rw [List.map_append, eraseDups_run k0 (pre.map (·.key)) (l.map (·.key))
    (by intro k hk; obtain ⟨e, he, rfl⟩ := List.mem_map.mp hk; exact hpre e he)
    (by intro h; exact hne (List.map_eq_nil_iff.mp h))
    (by intro h; obtain ⟨e, he, hk⟩ := List.mem_map.mp h; exact hl e he hk)]
  rw [List.filterMap_cons]
  have hhead : winnerOf ((pre ++ l).filter (fun e => e.key == k0)) = some best := by
    rw [List.filter_append]
    have h1 : pre.filter (fun e => e.key == k0) = pre :=
      List.filter_eq_self.mpr (fun e he => by simp [hpre e he])
    have h2 : l.filter (fun e => e.key == k0) = [] :=
      List.filter_eq_nil_iff.mpr (fun e he => by simp [hl e he])
    rw [h1, h2, List.append_nil]; exact hw
  rw [hhead]
  simp only
  congr 1
  apply filterMap_congr'
  intro k hk
  have hkl : k ∈ l.map (·.key) := by
    have := List.mem_eraseDups.mp hk
    exact this
  have hkne : k ≠ k0 := by
    obtain ⟨e, he, rfl⟩ := List.mem_map.mp hkl
    exact hl e he
  rw [List.filter_append]
  have : pre.filter (fun e => e.key == k) = [] :=
    List.filter_eq_nil_iff.mpr (fun e he => by simp [hpre e he, Ne.symm hkne])
  rw [this, List.nil_append]

/-- **the selector** running with the best entry of the current run in hand -/
theorem selectLatest_some (l : List Entry) :
    ∀ (k0 : Bytes) (pre : List Entry) (best : Entry), (∀ e ∈ pre, e.key = k0) → winnerOf pre = some best →
      best.key = k0 → k0 ∉ (l.map (·.key)).dropWhile (· == k0) → Grouped (l.map (·.key)) →
      selectLatest (some best) l = winners (pre ++ l) := by
  induction l with
  | nil =>
    intro k0 pre best hpre hw _ _ _
    have := winners_run k0 pre [] best hpre hw (by simp)
    rw [this]
    simp [selectLatest, winners, keysOf]
  | cons e rest ih =>
    intro k0 pre best hpre hw hbk hdrop hgr
    simp only [List.map_cons, Grouped] at hgr
    unfold selectLatest
    by_cases hk : e.key = k0
    · -- the run continues
      have hlk : best.key = e.key := hbk.trans hk.symm
      simp only [hlk, if_true]
      have hdrop' : k0 ∉ (rest.map (·.key)).dropWhile (· == k0) := by
        simp only [List.map_cons, List.dropWhile_cons, hk, beq_self_eq_true, if_true] at hdrop
        exact hdrop
      have hpre' : ∀ x ∈ pre ++ [e], x.key = k0 := by
        intro x hx
        rcases List.mem_append.mp hx with h | h
        · exact hpre x h
        · simp only [List.mem_singleton] at h; rw [h]; exact hk
      have hw' := winnerOf_snoc pre best e hw
      have hassoc : pre ++ e :: rest = (pre ++ [e]) ++ rest := by simp
      rw [hassoc]
      by_cases hts : e.ts > best.ts
      · simp only [hts, if_true]
        have : pick best e = e := by simp [pick, hts]
        rw [this] at hw'
        exact ih k0 (pre ++ [e]) e hpre' hw' hk hdrop' hgr.2
      · simp only [hts, if_false]
        have : pick best e = best := by simp [pick, hts]
        rw [this] at hw'
        exact ih k0 (pre ++ [e]) best hpre' hw' hbk hdrop' hgr.2
    · -- a new key: the run's winner is emitted
      have hlk : ¬ best.key = e.key := fun h => hk (h.symm.trans hbk)
      simp only [hlk, if_false]
      have hnone : ∀ x ∈ e :: rest, x.key ≠ k0 := by
        have hd : (List.map (fun x => x.key) (e :: rest)).dropWhile (· == k0) = List.map (fun x => x.key) (e :: rest) := by
          simp only [List.map_cons, List.dropWhile_cons]
          have : (e.key == k0) = false := by simp [hk]
          simp [this]
        rw [hd] at hdrop
        intro x hx hxk
        exact hdrop (List.mem_map.mpr ⟨x, hx, hxk⟩)
      rw [winners_run k0 pre (e :: rest) best hpre hw hnone]
      congr 1
      have := ih e.key [e] e (by simp) (by simp [winnerOf]) rfl hgr.1 hgr.2
      simpa using this

theorem selectLatest_none (C : List Entry) (hg : Grouped (C.map (·.key))) :
    selectLatest none C = winners C := by
  cases C with
  | nil => simp [selectLatest, winners, keysOf]
  | cons e rest =>
    simp only [List.map_cons, Grouped] at hg
    unfold selectLatest
    have := selectLatest_some rest e.key [e] e (by simp) (by simp [winnerOf]) rfl hg.1 hg.2
    simpa using this

theorem not_mem_dropWhile_le (k : Bytes) (ks : List Bytes) (hs : ks.Pairwise (· ≤ ·)) (hk : ∀ x ∈ ks, k ≤ x) :
    k ∉ ks.dropWhile (· == k) := by
  induction ks with
  | nil => simp
  | cons r rs ih =>
    have hr := List.pairwise_cons.mp hs
    by_cases hrk : r = k
    · subst hrk
      simp only [List.dropWhile_cons, beq_self_eq_true, if_true]
      exact ih hr.2 (fun x hx => hk x (List.mem_cons_of_mem _ hx))
    · have hb : (r == k) = false := by simp [hrk]
      simp only [List.dropWhile_cons, hb, Bool.false_eq_true, if_false]
      have hkr : k < r := by
        rcases List.le_iff_lt_or_eq.mp (hk r List.mem_cons_self) with h | h
        · exact h
        · exact absurd h.symm hrk
      intro hmem
      rcases List.mem_cons.mp hmem with h | h
      · exact hrk h.symm
      · have hle := hr.1 k h
        rcases List.le_iff_lt_or_eq.mp hle with h' | h'
        · exact List.lt_irrefl _ (List.lt_trans hkr h')
        · exact List.lt_irrefl _ (h' ▸ hkr)

theorem not_mem_dropWhile_ge (k : Bytes) (ks : List Bytes) (hs : ks.Pairwise (fun a b => b ≤ a)) (hk : ∀ x ∈ ks, x ≤ k) :
    k ∉ ks.dropWhile (· == k) := by
  induction ks with
  | nil => simp
  | cons r rs ih =>
    have hr := List.pairwise_cons.mp hs
    by_cases hrk : r = k
    · subst hrk
      simp only [List.dropWhile_cons, beq_self_eq_true, if_true]
      exact ih hr.2 (fun x hx => hk x (List.mem_cons_of_mem _ hx))
    · have hb : (r == k) = false := by simp [hrk]
      simp only [List.dropWhile_cons, hb, Bool.false_eq_true, if_false]
      have hkr : r < k := by
        rcases List.le_iff_lt_or_eq.mp (hk r List.mem_cons_self) with h | h
        · exact h
        · exact absurd h hrk
      intro hmem
      rcases List.mem_cons.mp hmem with h | h
      · exact hrk h.symm
      · have hle := hr.1 k h
        rcases List.le_iff_lt_or_eq.mp hle with h' | h'
        · exact List.lt_irrefl _ (List.lt_trans h' hkr)
        · exact List.lt_irrefl _ (h' ▸ hkr)

/-- keys sorted ascending (with repetitions) are grouped -/
theorem grouped_of_le (ks : List Bytes) (h : ks.Pairwise (· ≤ ·)) : Grouped ks := by
  induction ks with
  | nil => trivial
  | cons k rest ih =>
    have hk := List.pairwise_cons.mp h
    exact ⟨not_mem_dropWhile_le k rest hk.2 hk.1, ih hk.2⟩

/-- … and so are keys sorted descending -/
theorem grouped_of_ge (ks : List Bytes) (h : ks.Pairwise (fun a b => b ≤ a)) : Grouped ks := by
  induction ks with
  | nil => trivial
  | cons k rest ih =>
    have hk := List.pairwise_cons.mp h
    exact ⟨not_mem_dropWhile_ge k rest hk.2 hk.1, ih hk.2⟩

end QuerySpec
