import DocsModel.Lemmas.Bounds
import DocsModel.Props.C16
/-!
# The scan bounds of a query are exact

For every key filter, the range of `RecordsBounds::author_key` contains exactly the rows of that
document and author whose key the filter matches, and the range of `ByKeyBounds::new` contains
exactly the index rows of that document whose key the filter matches. All ids 32 bytes.
-/

namespace Tables
open Bytes

theorem startsWith_iff (key p : Bytes) : key.startsWith p = true ↔ p <+: key := by
  simp [Bytes.startsWith, List.isPrefixOf_iff_prefix]

theorem not_lt_zero32' (a : Bytes) (h : a.length = 32) : ¬ a < zero32 := by
  have := zeros_le 32 a h
  exact List.not_lt.mpr this

/-- **`author_key` is exact** -/
theorem recAuthorKey_exact (ns author : Bytes) (kf : KeyFilter) (k : K3)
    (hns : ns.length = 32) (hau : author.length = 32) (hk1 : k.1.length = 32) (hk2 : k.2.1.length = 32) :
    inRange3 (recAuthorKey ns author kf).1 (recAuthorKey ns author kf).2 k
      ↔ k.1 = ns ∧ k.2.1 = author ∧ kf.matches k.2.2 = true := by
  cases kf with
  | any =>
    have h := recAuthorPrefix_exact ns author [] k hns hau hk1 hk2
    have e : recAuthorKey ns author .any = recAuthorPrefix ns author [] := rfl
    rw [e, h]
    simp [KeyFilter.matches]
  | pre p =>
    have h := recAuthorPrefix_exact ns author p k hns hau hk1 hk2
    have e : recAuthorKey ns author (.pre p) = recAuthorPrefix ns author p := rfl
    rw [e, h]
    simp [KeyFilter.matches, startsWith_iff]
  | exact key =>
    obtain ⟨n', a', key'⟩ := k
    have irr : ∀ x : Bytes, ¬ x < x := fun x => List.lt_irrefl x
    show inRange3 (.incl (ns, author, key)) (.incl (ns, author, key)) (n', a', key') ↔ _
    simp only [inRange3, lt3, KeyFilter.matches, beq_iff_eq]
    constructor
    · rintro ⟨hlo, hhi⟩
      have h1 : ¬ n' < ns := fun h => hlo (Or.inl h)
      have h2 : ¬ ns < n' := fun h => hhi (Or.inl h)
      have hn : n' = ns := List.le_antisymm (List.not_lt.mp h2) (List.not_lt.mp h1)
      subst hn
      have h3 : ¬ a' < author := fun h => hlo (Or.inr ⟨rfl, Or.inl h⟩)
      have h4 : ¬ author < a' := fun h => hhi (Or.inr ⟨rfl, Or.inl h⟩)
      have ha : a' = author := List.le_antisymm (List.not_lt.mp h4) (List.not_lt.mp h3)
      subst ha
      have h5 : ¬ key' < key := fun h => hlo (Or.inr ⟨rfl, Or.inr ⟨rfl, h⟩⟩)
      have h6 : ¬ key < key' := fun h => hhi (Or.inr ⟨rfl, Or.inr ⟨rfl, h⟩⟩)
      exact ⟨rfl, rfl, List.le_antisymm (List.not_lt.mp h5) (List.not_lt.mp h6)⟩
    · rintro ⟨hn, ha, hk⟩
      subst hn; subst ha; subst hk
      constructor <;> (rintro (h | ⟨_, h | ⟨_, h⟩⟩) <;> exact irr _ h)

/-- **`ByKeyBounds::new` is exact**; index rows are `(namespace, key, author)` -/
theorem byKeyBounds_exact (ns : Bytes) (kf : KeyFilter) (k : K3)
    (hns : ns.length = 32) (hk1 : k.1.length = 32) (hk3 : k.2.2.length = 32) :
    inRange3 (byKeyBounds ns kf).1 (byKeyBounds ns kf).2 k ↔ k.1 = ns ∧ kf.matches k.2.1 = true := by
  obtain ⟨n', key, a'⟩ := k
  simp only at hk1 hk3 ⊢
  have irr : ∀ x : Bytes, ¬ x < x := fun x => List.lt_irrefl x
  have hz := not_lt_zero32' a' hk3
  cases kf with
  | any =>
    have := byKeyNamespace_exact ns (n', key, a') hns hk1 hk3
    show inRange3 (byKeyNamespace ns).1 (byKeyNamespace ns).2 (n', key, a') ↔ _
    rw [this]; simp [KeyFilter.matches]
  | exact kx =>
    show inRange3 (.incl (ns, kx, zero32)) (.incl (ns, kx, ff32)) (n', key, a') ↔ _
    simp only [inRange3, lt3, KeyFilter.matches, beq_iff_eq]
    constructor
    · rintro ⟨hlo, hhi⟩
      have h1 : ¬ n' < ns := fun h => hlo (Or.inl h)
      have h2 : ¬ ns < n' := fun h => hhi (Or.inl h)
      have hn : n' = ns := List.le_antisymm (List.not_lt.mp h2) (List.not_lt.mp h1)
      subst hn
      have h3 : ¬ key < kx := fun h => hlo (Or.inr ⟨rfl, Or.inl h⟩)
      have h4 : ¬ kx < key := fun h => hhi (Or.inr ⟨rfl, Or.inl h⟩)
      exact ⟨rfl, List.le_antisymm (List.not_lt.mp h3) (List.not_lt.mp h4)⟩
    · rintro ⟨hn, hk⟩
      subst hn; subst hk
      refine ⟨?_, ?_⟩
      · rintro (h | ⟨_, h | ⟨_, h⟩⟩)
        · exact irr _ h
        · exact irr _ h
        · exact hz h
      · rintro (h | ⟨_, h | ⟨_, h⟩⟩)
        · exact irr _ h
        · exact irr _ h
        · exact List.not_lt.mpr (le_ff32 a' hk3) h
  | pre p =>
    simp only [KeyFilter.matches, startsWith_iff]
    have lower : ∀ (hn : n' = ns), (¬ lt3 (n', key, a') (ns, p, zero32)) ↔ ¬ key < p := by
      intro hn
      subst hn
      unfold lt3
      simp only
      constructor
      · intro h hlt; exact h (Or.inr ⟨trivial, Or.inl hlt⟩)
      · rintro h (h' | ⟨_, h' | ⟨_, h'⟩⟩)
        · exact irr _ h'
        · exact h h'
        · exact hz h'
    cases hs : prefixSucc p with
    | some s =>
      have hb : byKeyBounds ns (.pre p) = (.incl (ns, p, zero32), .excl (ns, s, zero32)) := by
        simp only [byKeyBounds, hs]
      rw [hb]
      simp only [inRange3]
      constructor
      · rintro ⟨hlo, hhi⟩
        have hnlt : ¬ n' < ns := fun h => hlo (Or.inl h)
        unfold lt3 at hhi
        simp only at hhi
        rcases hhi with h | ⟨hn, h | ⟨_, h⟩⟩
        · exact absurd h hnlt
        · refine ⟨hn, (prefix_range_exact p key).mp ⟨List.not_lt.mp ((lower hn).mp hlo), ?_⟩⟩
          intro s' hs'; rw [hs] at hs'; cases hs'; exact h
        · exact absurd h hz
      · rintro ⟨hn, hp⟩
        have hr := (prefix_range_exact p key).mpr hp
        refine ⟨(lower hn).mpr (List.not_lt.mpr hr.1), ?_⟩
        unfold lt3
        exact Or.inr ⟨hn, Or.inl (hr.2 s hs)⟩
    | none =>
      have hpk : ∀ {k : Bytes}, ¬ k < p → p <+: k := by
        intro k h
        exact (prefix_range_exact p k).mp ⟨List.not_lt.mp h, by intro s' hs'; rw [hs] at hs'; cases hs'⟩
      rcases hin : incrementByOne ns with ⟨okn, nEnd⟩
      cases okn with
      | true =>
        have hb : byKeyBounds ns (.pre p) = (.incl (ns, p, zero32), .excl (nEnd, [], zero32)) := by
          simp only [byKeyBounds, hs, hin]
        rw [hb]
        simp only [inRange3]
        obtain ⟨hnn, hnsucc⟩ := incrementByOne_succ ns nEnd hin
        constructor
        · rintro ⟨hlo, hhi⟩
          have hnlt : ¬ n' < ns := fun h => hlo (Or.inl h)
          have hn'lt : n' < nEnd := by
            unfold lt3 at hhi
            simp only at hhi
            rcases hhi with h | ⟨_, h | ⟨_, h⟩⟩
            · exact h
            · exact absurd h (List.not_lt_nil _)
            · exact absurd h hz
          have hn : n' = ns := by
            by_cases hlt : ns < n'
            · exact absurd hn'lt (List.not_lt.mpr (hnsucc n' (by rw [hk1, hns]) hlt))
            · exact List.le_antisymm (List.not_lt.mp hlt) (List.not_lt.mp hnlt)
          exact ⟨hn, hpk ((lower hn).mp hlo)⟩
        · rintro ⟨hn, hp⟩
          have hr := (prefix_range_exact p key).mpr hp
          refine ⟨(lower hn).mpr (List.not_lt.mpr hr.1), ?_⟩
          unfold lt3
          subst hn
          exact Or.inl hnn
      | false =>
        have hb : byKeyBounds ns (.pre p) = (.incl (ns, p, zero32), .unb) := by
          simp only [byKeyBounds, hs, hin]
        rw [hb]
        simp only [inRange3, and_true]
        obtain ⟨hnff, _⟩ := incrementByOne_false ns nEnd hin
        have hle : n' ≤ ns := by rw [hnff, hns, ← hk1]; exact le_ffs _ n' rfl
        constructor
        · intro hlo
          have hnlt : ¬ n' < ns := fun h => hlo (Or.inl h)
          have hn : n' = ns := List.le_antisymm hle (List.not_lt.mp hnlt)
          exact ⟨hn, hpk ((lower hn).mp hlo)⟩
        · rintro ⟨hn, hp⟩
          have hr := (prefix_range_exact p key).mpr hp
          exact (lower hn).mpr (List.not_lt.mpr hr.1)

end Tables
