import DocsModel.Model.Ranger
/-!
# `process_message` taken apart

The same function as `Ranger.processMessage`, with the two loops named, so that the session
invariant can be proved part by part. `processMessage_eq` is by `rfl`: nothing is re-modelled.
-/

namespace Ranger
open Spec

abbrev Vals := List (Entry × Status)

def itemsOf (msg : Message) : List (Range × Vals × Bool) :=
  msg.filterMap fun p => match p with
    | .item r vs hl => some (r, vs, hl) | .fingerprint _ _ => none

def fpsOf (msg : Message) : List (Range × Bytes) :=
  msg.filterMap fun p => match p with
    | .fingerprint r fp => some (r, fp) | .item _ _ _ => none

/-- store one incoming value -/
def valStep {S : Type} (ops : Ops S) (validate : Entry → Bool) (acc : S × Vals) (v : Entry × Status) : S × Vals :=
  let (s, evs) := acc
  if validate v.1 then
    match ops.put s v.1 with
    | (s', .inserted _) => (s', evs ++ [v])
    | (s', .notInserted) => (s', evs)
  else (s, evs)

/-- store the incoming values of one item part -/
def storeVals {S : Type} (ops : Ops S) (validate : Entry → Bool) (acc : S × Vals) (values : Vals) : S × Vals :=
  values.foldl (valStep ops validate) acc

theorem storeVals_cons {S : Type} (ops : Ops S) (validate : Entry → Bool) (acc : S × Vals)
    (v : Entry × Status) (rest : Vals) :
    storeVals ops validate acc (v :: rest) = storeVals ops validate (valStep ops validate acc v) rest := rfl

theorem valStep_store {S : Type} (ops : Ops S) (validate : Entry → Bool) (acc : S × Vals) (v : Entry × Status) :
    (valStep ops validate acc v).1 = if validate v.1 then (ops.put acc.1 v.1).1 else acc.1 := by
  obtain ⟨s, evs⟩ := acc
  unfold valStep
  simp only
  by_cases hv : validate v.1 = true
  · simp only [hv, if_true]
    rcases hp : ops.put s v.1 with ⟨s', o⟩
    cases o <;> rfl
  · simp [hv]

/-- our entries of the range that the peer does not have at least as new -/
def diffOf {S : Type} (ops : Ops S) (statusOf : Entry → Status) (s : S) (range : Range) (values : Vals) : Vals :=
  ((ops.getRange s range).filter fun our =>
    !values.any fun (their, _) => decide (Entry.sameId our their) && decide (Entry.valueLe our their)).map
      fun e => (e, statusOf e)

def itemStep {S : Type} (ops : Ops S) (validate : Entry → Bool) (statusOf : Entry → Status)
    (acc : S × List Part × Vals) (it : Range × Vals × Bool) : S × List Part × Vals :=
  let (s, out, evs) := acc
  let (range, values, haveLocal) := it
  let diff : Option Vals := if haveLocal then none else some (diffOf ops statusOf s range values)
  let (s, evs) := storeVals ops validate (s, evs) values
  let out := match diff with
    | some d => if d.isEmpty then out else out ++ [.item range d true]
    | none => out
  (s, out, evs)

def fpStep {S : Type} (ops : Ops S) (cfg : Config) (statusOf : Entry → Status) (s : S)
    (out : List Part) (it : Range × Bytes) : List Part :=
  let (range, fp) := it
  let localFp := ops.getFingerprint s range
  if localFp = fp then out
  else
    let els := ops.getRange s range
    if els.length ≤ 1 ∨ fp = emptyFp then
      out ++ [.item range (els.map fun e => (e, statusOf e)) false]
    else
      out ++ (splitRanges cfg range els).map fun r =>
        let chunk := ops.getRange s r
        if chunk.length > cfg.maxSetSize then .fingerprint r (ops.getFingerprint s r)
        else .item r (chunk.map fun e => (e, statusOf e)) false

theorem processMessage_eq {S : Type} (ops : Ops S) (cfg : Config) (validate : Entry → Bool)
    (statusOf : Entry → Status) (s : S) (msg : Message) :
    processMessage ops cfg validate statusOf s msg =
      let r := (itemsOf msg).foldl (itemStep ops validate statusOf) (s, [], [])
      let out := (fpsOf msg).foldl (fpStep ops cfg statusOf r.1) r.2.1
      { store := r.1, reply := if out.isEmpty then none else some out, inserted := r.2.2 } := rfl

/-- whatever `put` preserves, storing incoming values preserves -/
theorem storeVals_preserves {S : Type} (ops : Ops S) (validate : Entry → Bool) (P : S → Prop)
    (hput : ∀ s e, P s → P (ops.put s e).1) (values : Vals) (acc : S × Vals) (h : P acc.1) :
    P (storeVals ops validate acc values).1 := by
  induction values generalizing acc with
  | nil => exact h
  | cons v rest ih =>
    rw [storeVals_cons]
    apply ih
    rw [valStep_store]
    split
    · exact hput _ _ h
    · exact h

theorem itemStep_store_eq {S : Type} (ops : Ops S) (validate : Entry → Bool) (statusOf : Entry → Status)
    (acc : S × List Part × Vals) (it : Range × Vals × Bool) :
    (itemStep ops validate statusOf acc it).1 = (storeVals ops validate (acc.1, acc.2.2) it.2.1).1 := by
  obtain ⟨s, out, evs⟩ := acc
  obtain ⟨range, values, hl⟩ := it
  rfl

/-- **whatever `put` preserves, processing a whole message preserves** (the only way a message
changes the store is through `put`) -/
theorem processMessage_preserves {S : Type} (ops : Ops S) (cfg : Config) (validate : Entry → Bool)
    (statusOf : Entry → Status) (P : S → Prop) (hput : ∀ s e, P s → P (ops.put s e).1)
    (s : S) (msg : Message) (h : P s) :
    P (processMessage ops cfg validate statusOf s msg).store := by
  rw [processMessage_eq]
  simp only
  suffices hh : ∀ (items : List (Range × Vals × Bool)) (acc : S × List Part × Vals), P acc.1 →
      P (items.foldl (itemStep ops validate statusOf) acc).1 from hh _ _ h
  intro items
  induction items with
  | nil => intro acc h; exact h
  | cons it rest ih =>
    intro acc h
    simp only [List.foldl_cons]
    apply ih
    rw [itemStep_store_eq]
    exact storeVals_preserves ops validate P hput _ _ h

end Ranger
