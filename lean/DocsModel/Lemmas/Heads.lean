import DocsModel.Lemmas.Bounds
import DocsModel.Props.C16
/-! The per-author head table is the greatest timestamp per author of the records held: an
invariant of every table operation. -/

namespace Tables
open Bytes Spec Entry

theorem lt2_irrefl (a : Bytes × Bytes) : ¬ lt2 a a := by
  unfold lt2
  rintro (h | ⟨_, h⟩) <;> exact List.lt_irrefl _ h

theorem eq_of_not_lt2 {a b : Bytes × Bytes} (h1 : ¬ lt2 a b) (h2 : ¬ lt2 b a) : a = b := by
  unfold lt2 at h1 h2
  have e1 : a.1 = b.1 := by
    apply List.le_antisymm
    · apply List.not_lt.mp; intro h; exact h2 (Or.inl h)
    · apply List.not_lt.mp; intro h; exact h1 (Or.inl h)
  have e2 : a.2 = b.2 := by
    apply List.le_antisymm
    · apply List.not_lt.mp; intro h; exact h2 (Or.inr ⟨e1.symm, h⟩)
    · apply List.not_lt.mp; intro h; exact h1 (Or.inr ⟨e1, h⟩)
  exact Prod.ext e1 e2

theorem latestGet_insert_same (r : Bytes × Bytes × Nat × Bytes) (l : List (Bytes × Bytes × Nat × Bytes)) :
    latestGet (latestInsert r l) r.1 r.2.1 = some (r.2.2.1, r.2.2.2) := by
  induction l with
  | nil => simp [latestInsert, latestGet]
  | cons x xs ih =>
    unfold latestInsert
    by_cases h1 : lt2 (r.1, r.2.1) (x.1, x.2.1)
    · simp [h1, latestGet]
    · by_cases h2 : lt2 (x.1, x.2.1) (r.1, r.2.1)
      · have hne : (x.1 == r.1 && x.2.1 == r.2.1) = false := by
          apply Bool.eq_false_iff.mpr
          intro h
          simp only [Bool.and_eq_true, beq_iff_eq] at h
          rw [h.1, h.2] at h2
          exact lt2_irrefl _ h2
        simp only [h1, h2, if_false, if_true]
        unfold latestGet at ih ⊢
        simp only [List.find?_cons, hne]
        exact ih
      · simp [h1, h2, latestGet]

theorem latestGet_insert_other (r : Bytes × Bytes × Nat × Bytes) (l : List (Bytes × Bytes × Nat × Bytes))
    (ns a : Bytes) (hne : ¬ (r.1 = ns ∧ r.2.1 = a)) :
    latestGet (latestInsert r l) ns a = latestGet l ns a := by
  have hr : (r.1 == ns && r.2.1 == a) = false := by
    apply Bool.eq_false_iff.mpr
    intro h; simp only [Bool.and_eq_true, beq_iff_eq] at h; exact hne h
  induction l with
  | nil => simp [latestInsert, latestGet, hr]
  | cons x xs ih =>
    unfold latestInsert
    by_cases h1 : lt2 (r.1, r.2.1) (x.1, x.2.1)
    · simp [h1, latestGet, List.find?_cons, hr]
    · by_cases h2 : lt2 (x.1, x.2.1) (r.1, r.2.1)
      · simp only [h1, h2, if_false, if_true]
        unfold latestGet at ih ⊢
        simp only [List.find?_cons]
        cases hxm : (x.1 == ns && x.2.1 == a)
        · exact ih
        · rfl
      · have hx := eq_of_not_lt2 h2 h1
        simp only [Prod.mk.injEq] at hx
        have hxn : (x.1 == ns && x.2.1 == a) = false := by rw [hx.1, hx.2]; exact hr
        simp [h1, h2, latestGet, List.find?_cons, hr, hxn]

/-- the head invariant for an explicit pair (head rows, records): the head of `(ns, a)` is the
greatest timestamp among the records of that author in that document, and there is no head
exactly when there is no such record -/
def HeadOkL (heads : List (Bytes × Bytes × Nat × Bytes)) (recs : List Entry) : Prop :=
  ∀ ns a, match latestGet heads ns a with
    | some (m, _) => (∃ e ∈ recs, e.ns = ns ∧ e.author = a ∧ e.ts = m) ∧
                     (∀ e ∈ recs, e.ns = ns → e.author = a → e.ts ≤ m)
    | none => ∀ e ∈ recs, ¬ (e.ns = ns ∧ e.author = a)

def HeadOk (t : T) : Prop := HeadOkL t.latest t.records

theorem dom_ts_le {e c : Entry} (h : dom e c) : c.ts ≤ e.ts := by
  rcases h.2 with h | ⟨h, _⟩ <;> omega

/-- `put` keeps the head invariant (entries arriving in any timestamp order) -/
theorem put_headOk (t : T) (e : Entry) (hs : SortedById t.records)
    (hwf : ∀ c ∈ t.records, Wf c) (he : Wf e) (hok : HeadOk t) : HeadOk (put t e).1 := by
  obtain ⟨hrec, hout⟩ := put_refines t e hs hwf he
  by_cases hb : ∃ p ∈ t.records, dom p e
  · -- rejected: nothing changes
    have : (put t e).1 = t := by
      unfold put
      have hany : (parents t.records e.ns e.author e.key).any (fun p => decide (valueLe e p)) = true := by
        obtain ⟨p, hp, hd⟩ := hb
        exact List.any_eq_true.mpr ⟨p, (mem_parents hs e p).mpr ⟨hp, hd.1⟩, by simpa using hd.2⟩
      simp [hany]
    rw [this]; exact hok
  · have hmem := mem_put_free hs hb
    rw [← hrec] at hmem
    have hlatest : (put t e).1.latest =
        match latestGet t.latest e.ns e.author with
        | some (ts, _) => if e.ts ≥ ts then latestInsert (e.ns, e.author, e.ts, e.key) t.latest else t.latest
        | none => latestInsert (e.ns, e.author, e.ts, e.key) t.latest := by
      unfold put
      have hany : (parents t.records e.ns e.author e.key).any (fun p => decide (valueLe e p)) = false := by
        apply Bool.eq_false_iff.mpr
        intro h
        obtain ⟨p, hp, hv⟩ := List.any_eq_true.mp h
        obtain ⟨h1, h2⟩ := (mem_parents hs e p).mp hp
        exact hb ⟨p, h1, h2, by simpa using hv⟩
      simp only [hany, Bool.false_eq_true, if_false, entryPut, removePrefixFiltered]
      rfl
    intro ns a
    by_cases hna : e.ns = ns ∧ e.author = a
    · obtain ⟨hn, ha⟩ := hna
      subst hn; subst ha
      have hold := hok e.ns e.author
      rw [hlatest]
      cases hl : latestGet t.latest e.ns e.author with
      | none =>
        rw [hl] at hold
        simp only
        have := latestGet_insert_same (e.ns, e.author, e.ts, e.key) t.latest
        simp only at this
        rw [this]
        refine ⟨⟨e, (hmem e).mpr (Or.inl rfl), rfl, rfl, rfl⟩, ?_⟩
        intro x hx hxn hxa
        rcases (hmem x).mp hx with h | ⟨h, _⟩
        · rw [h]; exact Nat.le_refl _
        · exact absurd ⟨hxn, hxa⟩ (hold x h)
      | some v =>
        obtain ⟨m, k⟩ := v
        rw [hl] at hold
        obtain ⟨⟨w, hw, hwn, hwa, hwt⟩, hmax⟩ := hold
        simp only
        by_cases hge : e.ts ≥ m
        · simp only [hge, if_true]
          have := latestGet_insert_same (e.ns, e.author, e.ts, e.key) t.latest
          simp only at this
          rw [this]
          refine ⟨⟨e, (hmem e).mpr (Or.inl rfl), rfl, rfl, rfl⟩, ?_⟩
          intro x hx hxn hxa
          rcases (hmem x).mp hx with h | ⟨h, _⟩
          · rw [h]; exact Nat.le_refl _
          · exact Nat.le_trans (hmax x h hxn hxa) hge
        · simp only [hge, if_false]
          rw [hl]
          refine ⟨⟨w, (hmem w).mpr (Or.inr ⟨hw, ?_⟩), hwn, hwa, hwt⟩, ?_⟩
          · intro hd
            have := dom_ts_le hd
            omega
          · intro x hx hxn hxa
            rcases (hmem x).mp hx with h | ⟨h, _⟩
            · rw [h]; omega
            · exact hmax x h hxn hxa
    · -- another author or document: its head row and its records are untouched
      have hget : latestGet (put t e).1.latest ns a = latestGet t.latest ns a := by
        rw [hlatest]
        cases hl : latestGet t.latest e.ns e.author with
        | none => exact latestGet_insert_other _ _ ns a hna
        | some v =>
          obtain ⟨m, k⟩ := v
          simp only
          split
          · exact latestGet_insert_other _ _ ns a hna
          · rfl
      rw [hget]
      have hsame : ∀ x, x.ns = ns → x.author = a → (x ∈ (put t e).1.records ↔ x ∈ t.records) := by
        intro x hxn hxa
        rw [hmem x]
        constructor
        · rintro (h | ⟨h, _⟩)
          · subst h; exact absurd ⟨hxn, hxa⟩ hna
          · exact h
        · intro h
          refine Or.inr ⟨h, ?_⟩
          rintro ⟨⟨h1, h2, _⟩, _⟩
          exact hna ⟨h1.trans hxn, h2.trans hxa⟩
      have hold := hok ns a
      cases hl : latestGet t.latest ns a with
      | none =>
        rw [hl] at hold
        intro x hx hxna
        exact hold x ((hsame x hxna.1 hxna.2).mp hx) hxna
      | some v =>
        obtain ⟨m, k⟩ := v
        rw [hl] at hold
        obtain ⟨⟨w, hw, hwn, hwa, hwt⟩, hmax⟩ := hold
        exact ⟨⟨w, (hsame w hwn hwa).mpr hw, hwn, hwa, hwt⟩,
          fun x hx hxn hxa => hmax x ((hsame x hxn hxa).mp hx) hxn hxa⟩

theorem latestGet_filter_ne (l : List (Bytes × Bytes × Nat × Bytes)) (rm ns a : Bytes) :
    latestGet (l.filter (fun r => r.1 != rm)) ns a = if ns = rm then none else latestGet l ns a := by
  unfold latestGet
  induction l with
  | nil => simp
  | cons x xs ih =>
    by_cases hx : x.1 = rm
    · have h1 : (x.1 != rm) = false := by simp [hx]
      rw [List.filter_cons, h1]
      simp only [Bool.false_eq_true, if_false]
      rw [ih]
      by_cases hn : ns = rm
      · simp [hn]
      · have : (x.1 == ns && x.2.1 == a) = false := by
          apply Bool.eq_false_iff.mpr
          intro h; simp only [Bool.and_eq_true, beq_iff_eq] at h; exact hn (h.1.symm.trans hx)
        simp [hn, List.find?_cons, this]
    · have h1 : (x.1 != rm) = true := by simp [hx]
      rw [List.filter_cons, h1]
      simp only [if_true, List.find?_cons]
      by_cases hm : (x.1 == ns && x.2.1 == a) = true
      · have : ns ≠ rm := by
          simp only [Bool.and_eq_true, beq_iff_eq] at hm
          intro h; exact hx (hm.1.trans h)
        simp [hm, this]
      · have hm' : (x.1 == ns && x.2.1 == a) = false := by simpa using hm
        rw [hm']
        exact ih

/-- removing a document keeps the head invariant: its heads go with its records (F6) -/
theorem remove_headOk (t : T) (rm : Bytes) (hrm : rm.length = 32) (wf : Wf32 t) (hok : HeadOk t) :
    HeadOk (removeReplica t rm) := by
  intro ns a
  rw [removeReplica_latest t rm wf, removeReplica_records t rm hrm wf, latestGet_filter_ne]
  by_cases hn : ns = rm
  · simp only [hn, if_true]
    intro x hx hxna
    have := (List.mem_filter.mp hx).2
    simp only [bne_iff_ne, ne_eq] at this
    exact this hxna.1
  · simp only [hn, if_false]
    have hold := hok ns a
    have hmem : ∀ x, x.ns = ns → (x ∈ t.records.filter (fun e => e.ns != rm) ↔ x ∈ t.records) := by
      intro x hxn
      simp only [List.mem_filter, bne_iff_ne, ne_eq, and_iff_left_iff_imp]
      intro _ h; exact hn (hxn.symm.trans h)
    cases hl : latestGet t.latest ns a with
    | none =>
      rw [hl] at hold
      intro x hx hxna
      exact hold x ((hmem x hxna.1).mp hx) hxna
    | some v =>
      obtain ⟨m, k⟩ := v
      rw [hl] at hold
      obtain ⟨⟨w, hw, hwn, hwa, hwt⟩, hmax⟩ := hold
      exact ⟨⟨w, (hmem w hwn).mpr hw, hwn, hwa, hwt⟩,
        fun x hx hxn hxa => hmax x ((hmem x hxn).mp hx) hxn hxa⟩

end Tables
