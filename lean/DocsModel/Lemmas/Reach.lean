import DocsModel.Lemmas.Heads
/-! The invariant of every reachable state of the tables (`TablesInv`). -/

namespace Tables
open Bytes Spec Entry

theorem lt3_irrefl (a : K3) : ¬ lt3 a a := by
  unfold lt3
  rintro (h | ⟨_, h | ⟨_, h⟩⟩) <;> exact List.lt_irrefl _ h

theorem eq_of_not_lt3 {a b : K3} (h1 : ¬ lt3 a b) (h2 : ¬ lt3 b a) : a = b := by
  unfold lt3 at h1 h2
  have e1 : a.1 = b.1 := by
    apply List.le_antisymm
    · apply List.not_lt.mp; intro h; exact h2 (Or.inl h)
    · apply List.not_lt.mp; intro h; exact h1 (Or.inl h)
  have e2 : a.2.1 = b.2.1 := by
    apply List.le_antisymm
    · apply List.not_lt.mp; intro h; exact h2 (Or.inr ⟨e1.symm, Or.inl h⟩)
    · apply List.not_lt.mp; intro h; exact h1 (Or.inr ⟨e1, Or.inl h⟩)
  have e3 : a.2.2 = b.2.2 := by
    apply List.le_antisymm
    · apply List.not_lt.mp; intro h; exact h2 (Or.inr ⟨e1.symm, Or.inr ⟨e2.symm, h⟩⟩)
    · apply List.not_lt.mp; intro h; exact h1 (Or.inr ⟨e1, Or.inr ⟨e2, h⟩⟩)
  exact Prod.ext e1 (Prod.ext e2 e3)

theorem mem_k3Insert (k x : K3) (l : List K3) : x ∈ k3Insert k l ↔ x = k ∨ x ∈ l := by
  induction l with
  | nil => simp [k3Insert]
  | cons y ys ih =>
    unfold k3Insert
    by_cases h1 : lt3 k y
    · simp [h1]
    · by_cases h2 : lt3 y k
      · simp only [h1, h2, if_false, if_true, List.mem_cons, ih]
        constructor
        · rintro (h | h | h)
          · exact Or.inr (Or.inl h)
          · exact Or.inl h
          · exact Or.inr (Or.inr h)
        · rintro (h | h | h)
          · exact Or.inr (Or.inl h)
          · exact Or.inl h
          · exact Or.inr (Or.inr h)
      · have : y = k := eq_of_not_lt3 h2 h1
        subst this
        simp [h1]

theorem mem_latestInsert (r x : Bytes × Bytes × Nat × Bytes) (l : List (Bytes × Bytes × Nat × Bytes)) :
    x ∈ latestInsert r l → x = r ∨ x ∈ l := by
  induction l with
  | nil => simp [latestInsert]
  | cons y ys ih =>
    unfold latestInsert
    by_cases h1 : lt2 (r.1, r.2.1) (y.1, y.2.1)
    · simp only [h1, if_true, List.mem_cons]
      exact fun h => h
    · by_cases h2 : lt2 (y.1, y.2.1) (r.1, r.2.1)
      · simp only [h1, h2, if_false, if_true, List.mem_cons]
        rintro (h | h)
        · exact Or.inr (Or.inl h)
        · rcases ih h with h | h
          · exact Or.inl h
          · exact Or.inr (Or.inr h)
      · simp only [h1, h2, if_false, List.mem_cons]
        rintro (h | h)
        · exact Or.inl h
        · exact Or.inr (Or.inr h)

/-- what holds in every state the store can reach -/
structure TablesInv (t : T) : Prop where
  sorted : SortedById t.records
  wfRec : ∀ c ∈ t.records, Wf c
  wf32 : Wf32 t
  heads : HeadOk t
  /-- the by-key index has a row for every record (it may have stale rows in addition) -/
  index : ∀ e ∈ t.records, (e.ns, e.key, e.author) ∈ t.byKey

theorem tablesInv_empty : TablesInv {} :=
  ⟨List.Pairwise.nil, by simp, ⟨by simp, by simp, by simp⟩, by intro ns a; simp [latestGet], by simp⟩

theorem put_tablesInv (t : T) (e : Entry) (he : Wf e) (inv : TablesInv t) : TablesInv (put t e).1 := by
  obtain ⟨hrec, _⟩ := put_refines t e inv.sorted inv.wfRec he
  have hheads := put_headOk t e inv.sorted inv.wfRec he inv.heads
  by_cases hb : ∃ p ∈ t.records, dom p e
  · have : (put t e).1 = t := by
      unfold put
      have hany : (parents t.records e.ns e.author e.key).any (fun p => decide (valueLe e p)) = true := by
        obtain ⟨p, hp, hd⟩ := hb
        exact List.any_eq_true.mpr ⟨p, (mem_parents inv.sorted e p).mpr ⟨hp, hd.1⟩, by simpa using hd.2⟩
      simp [hany]
    rw [this]; exact inv
  · have hmem := mem_put_free inv.sorted hb
    rw [← hrec] at hmem
    have hany : (parents t.records e.ns e.author e.key).any (fun p => decide (valueLe e p)) = false := by
      apply Bool.eq_false_iff.mpr
      intro h
      obtain ⟨p, hp, hv⟩ := List.any_eq_true.mp h
      obtain ⟨h1, h2⟩ := (mem_parents inv.sorted e p).mp hp
      exact hb ⟨p, h1, h2, by simpa using hv⟩
    have hbk : (put t e).1.byKey = k3Insert (e.ns, e.key, e.author) t.byKey := by
      unfold put; simp only [hany, Bool.false_eq_true, if_false, entryPut, removePrefixFiltered]
    have hlat : ∀ x ∈ (put t e).1.latest, x = (e.ns, e.author, e.ts, e.key) ∨ x ∈ t.latest := by
      intro x hx
      unfold put at hx
      simp only [hany, Bool.false_eq_true, if_false, entryPut, removePrefixFiltered] at hx
      split at hx
      · split at hx
        · exact mem_latestInsert _ _ _ hx
        · exact Or.inr hx
      · exact mem_latestInsert _ _ _ hx
    refine ⟨?_, ?_, ⟨?_, ?_, ?_⟩, hheads, ?_⟩
    · rw [hrec, put_free hb]; exact sorted_insertSorted (sorted_filter inv.sorted _)
    · intro c hc
      rcases (hmem c).mp hc with h | ⟨h, _⟩
      · rw [h]; exact he
      · exact inv.wfRec c h
    · intro c hc
      rcases (hmem c).mp hc with h | ⟨h, _⟩
      · rw [h]; exact he
      · exact inv.wf32.recs c h
    · intro k hk
      rw [hbk] at hk
      rcases (mem_k3Insert _ _ _).mp hk with h | h
      · rw [h]; exact he
      · exact inv.wf32.idx k h
    · intro r hr
      rcases hlat r hr with h | h
      · rw [h]; exact he
      · exact inv.wf32.lat r h
    · intro x hx
      rw [hbk]
      rcases (hmem x).mp hx with h | ⟨h, _⟩
      · rw [h]; exact (mem_k3Insert _ _ _).mpr (Or.inl rfl)
      · exact (mem_k3Insert _ _ _).mpr (Or.inr (inv.index x h))

theorem remove_tablesInv (t : T) (rm : Bytes) (hrm : rm.length = 32) (inv : TablesInv t) :
    TablesInv (removeReplica t rm) := by
  have hr := removeReplica_records t rm hrm inv.wf32
  have hk := removeReplica_byKey t rm hrm inv.wf32
  have hl := removeReplica_latest t rm inv.wf32
  refine ⟨?_, ?_, ⟨?_, ?_, ?_⟩, remove_headOk t rm hrm inv.wf32 inv.heads, ?_⟩
  · rw [hr]; exact sorted_filter inv.sorted _
  · intro c hc; rw [hr] at hc; exact inv.wfRec c (List.mem_filter.mp hc).1
  · intro c hc; rw [hr] at hc; exact inv.wf32.recs c (List.mem_filter.mp hc).1
  · intro k hk'; rw [hk] at hk'; exact inv.wf32.idx k (List.mem_filter.mp hk').1
  · intro r hr'; rw [hl] at hr'; exact inv.wf32.lat r (List.mem_filter.mp hr').1
  · intro x hx
    rw [hr] at hx
    rw [hk]
    obtain ⟨h1, h2⟩ := List.mem_filter.mp hx
    exact List.mem_filter.mpr ⟨inv.index x h1, h2⟩

/-- operations of the store that touch the tables -/
inductive TOp where
  | put (e : Entry)
  | remove (ns : Bytes)
  | importNs (ns : Bytes) (kind : Nat) (raw : Bytes)
  | peer (ns : Bytes) (nanos : Nat) (peer : Bytes)
  | policy (ns : Bytes) (p : Policy)

def TOp.Ok : TOp → Prop
  | .put e => Wf e
  | .remove ns => ns.length = 32
  | _ => True

def applyOp (t : T) : TOp → T
  | .put e => (put t e).1
  | .remove ns => removeReplica t ns
  | .importNs ns kind raw => (importNamespace t ns kind raw).1
  | .peer ns nanos peer => (registerUsefulPeer t ns nanos peer).getD t
  | .policy ns p => (setDownloadPolicy t ns p).getD t

theorem side_tables_inv (t t' : T) (h1 : t'.records = t.records) (h2 : t'.byKey = t.byKey)
    (h3 : t'.latest = t.latest) (inv : TablesInv t) : TablesInv t' := by
  refine ⟨h1 ▸ inv.sorted, h1 ▸ inv.wfRec, ⟨h1 ▸ inv.wf32.recs, h2 ▸ inv.wf32.idx, h3 ▸ inv.wf32.lat⟩, ?_, ?_⟩
  · intro ns a
    have := inv.heads ns a
    rw [h3, h1]; exact this
  · rw [h1, h2]; exact inv.index

theorem import_side (t : T) (ns : Bytes) (kind : Nat) (raw : Bytes) :
    (importNamespace t ns kind raw).1.records = t.records ∧
    (importNamespace t ns kind raw).1.byKey = t.byKey ∧
    (importNamespace t ns kind raw).1.latest = t.latest := by
  unfold importNamespace
  cases nsGet t ns with
  | none => simp
  | some v => obtain ⟨k0, raw0⟩ := v; simp only; split <;> simp

theorem applyOp_tablesInv (t : T) (op : TOp) (hop : op.Ok) (inv : TablesInv t) : TablesInv (applyOp t op) := by
  cases op with
  | put e => exact put_tablesInv t e hop inv
  | remove ns => exact remove_tablesInv t ns hop inv
  | importNs ns kind raw =>
    obtain ⟨h1, h2, h3⟩ := import_side t ns kind raw
    exact side_tables_inv t _ h1 h2 h3 inv
  | peer ns nanos peer =>
    show TablesInv ((registerUsefulPeer t ns nanos peer).getD t)
    unfold registerUsefulPeer
    cases nsGet t ns with
    | none => exact inv
    | some v => exact side_tables_inv t _ rfl rfl rfl inv
  | policy ns p =>
    show TablesInv ((setDownloadPolicy t ns p).getD t)
    unfold setDownloadPolicy
    cases nsGet t ns with
    | none => exact inv
    | some v => exact side_tables_inv t _ rfl rfl rfl inv

/-- **Every reachable state satisfies `TablesInv`.** -/
theorem tablesInv_reachable (ops : List TOp) (hops : ∀ op ∈ ops, op.Ok) :
    TablesInv (ops.foldl applyOp {}) := by
  suffices ∀ t, TablesInv t → TablesInv (ops.foldl applyOp t) from this {} tablesInv_empty
  induction ops with
  | nil => exact fun t h => h
  | cons op rest ih =>
    intro t inv
    exact ih (fun o ho => hops o (List.mem_cons_of_mem _ ho)) _
      (applyOp_tablesInv t op (hops op List.mem_cons_self) inv)

end Tables
