import DocsModel.Model.Spec
/-! Order facts about `valueLe`, `covers` and `dom`. -/

namespace Entry

theorem valueLe_refl (a : Entry) : valueLe a a := Or.inr ⟨rfl, List.le_refl _⟩

theorem valueLe_trans {a b c : Entry} (h1 : valueLe a b) (h2 : valueLe b c) : valueLe a c := by
  unfold valueLe at *
  rcases h1 with h1 | ⟨h1, h1'⟩ <;> rcases h2 with h2 | ⟨h2, h2'⟩
  · exact Or.inl (Nat.lt_trans h1 h2)
  · exact Or.inl (h2 ▸ h1)
  · exact Or.inl (h1 ▸ h2)
  · exact Or.inr ⟨h1.trans h2, List.le_trans h1' h2'⟩

theorem valueLe_total (a b : Entry) : valueLe a b ∨ valueLe b a := by
  unfold valueLe
  rcases Nat.lt_trichotomy a.ts b.ts with h | h | h
  · exact Or.inl (Or.inl h)
  · rcases List.le_total a.hash b.hash with h' | h'
    · exact Or.inl (Or.inr ⟨h, h'⟩)
    · exact Or.inr (Or.inr ⟨h.symm, h'⟩)
  · exact Or.inr (Or.inl h)

theorem valueLe_antisymm {a b : Entry} (h1 : valueLe a b) (h2 : valueLe b a) :
    a.ts = b.ts ∧ a.hash = b.hash := by
  unfold valueLe at *
  rcases h1 with h1 | ⟨h1, h1'⟩ <;> rcases h2 with h2 | ⟨h2, h2'⟩
  · omega
  · omega
  · omega
  · exact ⟨h1, List.le_antisymm h1' h2'⟩

theorem covers_refl (a : Entry) : covers a a := ⟨rfl, rfl, List.prefix_refl _⟩

theorem covers_trans {a b c : Entry} (h1 : covers a b) (h2 : covers b c) : covers a c :=
  ⟨h1.1.trans h2.1, h1.2.1.trans h2.2.1, h1.2.2.trans h2.2.2⟩

theorem covers_antisymm {a b : Entry} (h1 : covers a b) (h2 : covers b a) : sameId a b := by
  refine ⟨h1.1, h1.2.1, ?_⟩
  exact List.IsPrefix.eq_of_length_le h1.2.2 h2.2.2.length_le

theorem dom_refl (a : Entry) : dom a a := ⟨covers_refl a, valueLe_refl a⟩

theorem dom_trans {a b c : Entry} (h1 : dom a b) (h2 : dom b c) : dom a c :=
  ⟨covers_trans h1.1 h2.1, valueLe_trans h2.2 h1.2⟩

theorem dom_antisymm {a b : Entry} (h1 : dom a b) (h2 : dom b a) :
    sameId a b ∧ a.ts = b.ts ∧ a.hash = b.hash :=
  ⟨covers_antisymm h1.1 h2.1, valueLe_antisymm h2.2 h1.2⟩

end Entry
