import DocsModel.Lemmas.Put
/-! A replica state on its own: a sorted antichain. What `put` and a merge do to it. -/

namespace Spec
open Entry

structure StoreOk (a : Store) : Prop where
  anti : ∀ x ∈ a, ∀ y ∈ a, dom x y → x = y
  sorted : SortedById a

theorem storeOk_nil : StoreOk [] := ⟨by simp, List.Pairwise.nil⟩

theorem putInv_self {a : Store} (h : StoreOk a) : PutInv a a :=
  ⟨fun _ hx => hx, h.anti, fun p hp => ⟨p, hp, dom_refl p⟩, h.sorted⟩

theorem put_ok {a : Store} (h : StoreOk a) (e : Entry) : StoreOk (put a e).1 :=
  ⟨(putInv_step (putInv_self h) e).anti, (putInv_step (putInv_self h) e).sorted⟩

theorem put_sub {a : Store} (h : StoreOk a) (e x : Entry) (hx : x ∈ (put a e).1) : x = e ∨ x ∈ a := by
  have := (putInv_step (putInv_self h) e).sub x hx
  simpa using this

theorem put_covers_old {a : Store} (h : StoreOk a) (e p : Entry) (hk : ∃ m ∈ a, dom m p) :
    ∃ m ∈ (put a e).1, dom m p := by
  obtain ⟨m, hm, hd⟩ := hk
  obtain ⟨m', hm', hd'⟩ := (putInv_step (putInv_self h) e).cover m (List.mem_cons_of_mem _ hm)
  exact ⟨m', hm', dom_trans hd' hd⟩

theorem put_covers_new {a : Store} (h : StoreOk a) (e : Entry) : ∃ m ∈ (put a e).1, dom m e :=
  (putInv_step (putInv_self h) e).cover e List.mem_cons_self

end Spec
