import DocsModel.Lemmas.Ranges
/-!
# The entries of a range in circular order

`get_range` returns the entries of a wrap-around range with the low part first. `process_message`
compensates with `start_index`: position `m` of the circular order from `x` is index
`(start_index + m) % n` of the returned list. Here: along that rotation the positions `rk x` are
strictly increasing.
-/

namespace Ranger

def idAt (ids : List Bytes) (i : Nat) : Bytes := (ids[i]?).getD []

theorem takeWhile_spec {α : Type} (p : α → Bool) (l : List α) :
    (∀ i (h : i < l.length), i < (l.takeWhile p).length → p l[i] = true) ∧
    (∀ (h : (l.takeWhile p).length < l.length), p l[(l.takeWhile p).length] = false) := by
  induction l with
  | nil => exact ⟨fun i h => by simp at h, fun h => by simp at h⟩
  | cons a rest ih =>
    by_cases hp : p a = true
    · simp only [List.takeWhile_cons, hp, if_true, List.length_cons]
      refine ⟨fun i h hi => ?_, fun h => ?_⟩
      · cases i with
        | zero => simpa using hp
        | succ i =>
          simp only [List.getElem_cons_succ]
          exact ih.1 i (by simpa using h) (by omega)
      · simp only [List.getElem_cons_succ]
        exact ih.2 (by simpa using h)
    · have hp' : p a = false := by simpa using hp
      simp only [List.takeWhile_cons, hp', Bool.false_eq_true, if_false, List.length_nil]
      exact ⟨fun i h hi => by omega, fun h => by simpa using hp'⟩

/-- in a strictly sorted list of identifiers the ones below `x` come first -/
theorem split_at_start (x : Bytes) (ids : List Bytes) (hs : ids.Pairwise (· < ·)) :
    (∀ i (h : i < ids.length), i < (ids.takeWhile (fun t => decide (t < x))).length → ids[i] < x) ∧
    (∀ i (h : i < ids.length), (ids.takeWhile (fun t => decide (t < x))).length ≤ i → x ≤ ids[i]) := by
  have sp := takeWhile_spec (fun t => decide (t < x)) ids
  refine ⟨fun i h hi => by simpa using sp.1 i h hi, fun i h hi => ?_⟩
  have hslt : (ids.takeWhile (fun t => decide (t < x))).length < ids.length := by omega
  have h0 : ¬ ids[(ids.takeWhile (fun t => decide (t < x))).length] < x := by simpa using sp.2 hslt
  have hx0 : x ≤ ids[(ids.takeWhile (fun t => decide (t < x))).length] := List.not_lt.mp h0
  rcases Nat.lt_or_ge (ids.takeWhile (fun t => decide (t < x))).length i with hlt | hge
  · have := List.pairwise_iff_getElem.mp hs _ i hslt h hlt
    exact List.le_trans hx0 (bytes_le_of_lt this)
  · have : i = (ids.takeWhile (fun t => decide (t < x))).length := by omega
    subst this; exact hx0

theorem idAt_eq (ids : List Bytes) (i : Nat) (h : i < ids.length) : idAt ids i = ids[i] := by
  unfold idAt
  rw [List.getElem?_eq_getElem h]; rfl

/-- **positions grow along the rotation** -/
theorem rot_rk_lt (x : Bytes) (ids : List Bytes) (hs : ids.Pairwise (· < ·)) (m m' : Nat)
    (hmm : m < m') (hm' : m' < ids.length) :
    rk x (idAt ids (((ids.takeWhile (fun t => decide (t < x))).length + m) % ids.length)) <
    rk x (idAt ids (((ids.takeWhile (fun t => decide (t < x))).length + m') % ids.length)) := by
  have hsp := split_at_start x ids hs
  have hn : 0 < ids.length := by omega
  have hsle : (ids.takeWhile (fun t => decide (t < x))).length ≤ ids.length := (List.takeWhile_sublist _).length_le
  generalize hsdef : (ids.takeWhile (fun t => decide (t < x))).length = s at *
  have hi1 : (s + m) % ids.length < ids.length := Nat.mod_lt _ hn
  have hi2 : (s + m') % ids.length < ids.length := Nat.mod_lt _ hn
  rw [idAt_eq ids _ hi1, idAt_eq ids _ hi2, rk_lt_iff]
  have hp := List.pairwise_iff_getElem.mp hs
  by_cases h1 : s + m < ids.length
  · have e1 : (s + m) % ids.length = s + m := Nat.mod_eq_of_lt h1
    have hx1 : x ≤ ids[(s + m) % ids.length] := hsp.2 _ hi1 (by omega)
    by_cases h2 : s + m' < ids.length
    · have e2 : (s + m') % ids.length = s + m' := Nat.mod_eq_of_lt h2
      have hx2 : x ≤ ids[(s + m') % ids.length] := hsp.2 _ hi2 (by omega)
      exact Or.inr ⟨by simp [hx1, hx2], hp _ _ hi1 hi2 (by omega)⟩
    · have e2 : (s + m') % ids.length = s + m' - ids.length := by
        rw [Nat.mod_eq_sub_mod (by omega), Nat.mod_eq_of_lt (by omega)]
      have hx2 : ids[(s + m') % ids.length] < x := hsp.1 _ hi2 (by omega)
      exact Or.inl ⟨hx1, bytes_not_le_of_lt hx2⟩
  · have e1 : (s + m) % ids.length = s + m - ids.length := by
      rw [Nat.mod_eq_sub_mod (by omega), Nat.mod_eq_of_lt (by omega)]
    have e2 : (s + m') % ids.length = s + m' - ids.length := by
      rw [Nat.mod_eq_sub_mod (by omega), Nat.mod_eq_of_lt (by omega)]
    have hx1 : ids[(s + m) % ids.length] < x := hsp.1 _ hi1 (by omega)
    have hx2 : ids[(s + m') % ids.length] < x := hsp.1 _ hi2 (by omega)
    exact Or.inr ⟨by simp [bytes_not_le_of_lt hx1, bytes_not_le_of_lt hx2], hp _ _ hi1 hi2 (by omega)⟩

end Ranger
