import DocsModel.Model.Ranger
/-!
# Ranges on the circle of identifiers

`Range.contains` reads `[x, y)` on a circle (`x = y`: everything, `x > y`: wrap-around). To reason
about consecutive sub-ranges we linearise the circle at an origin `o`: `rk o t` is `t` prefixed by
`0` if `t` is at or after the origin and by `1` otherwise; lexicographic order on these byte strings
is the circular order starting from `o`.
-/

namespace Ranger

/-- position of `t` on the circle cut open at `o` -/
def rk (o t : Bytes) : Bytes := (if o ≤ t then (0 : UInt8) else 1) :: t

theorem u8_zero_lt_one : (0 : UInt8) < 1 := by decide

theorem u8_not_one_lt_zero : ¬ (1 : UInt8) < 0 := by decide

theorem rk_lt_iff (o a b : Bytes) :
    rk o a < rk o b ↔ (o ≤ a ∧ ¬ o ≤ b) ∨ ((o ≤ a ↔ o ≤ b) ∧ a < b) := by
  unfold rk
  rw [List.cons_lt_cons_iff]
  by_cases ha : o ≤ a <;> by_cases hb : o ≤ b <;> simp [ha, hb, u8_zero_lt_one, u8_not_one_lt_zero]

theorem rk_le_iff (o a b : Bytes) :
    rk o a ≤ rk o b ↔ (o ≤ a ∧ ¬ o ≤ b) ∨ ((o ≤ a ↔ o ≤ b) ∧ a ≤ b) := by
  unfold rk
  rw [List.cons_le_cons_iff]
  by_cases ha : o ≤ a <;> by_cases hb : o ≤ b <;> simp [ha, hb, u8_zero_lt_one, u8_not_one_lt_zero]

theorem bytes_lt_of_lt_of_le {a b c : Bytes} (h1 : a < b) (h2 : b ≤ c) : a < c := by
  rcases List.le_iff_lt_or_eq.mp h2 with h | h
  · exact List.lt_trans h1 h
  · exact h ▸ h1

theorem bytes_lt_of_le_of_lt {a b c : Bytes} (h1 : a ≤ b) (h2 : b < c) : a < c := by
  rcases List.le_iff_lt_or_eq.mp h1 with h | h
  · exact List.lt_trans h h2
  · exact h ▸ h2

theorem bytes_not_le_of_lt {a b : Bytes} (h : a < b) : ¬ b ≤ a := fun h' => List.not_lt.mpr h' h

theorem bytes_lt_of_not_le {a b : Bytes} (h : ¬ a ≤ b) : b < a := List.not_le.mp h

theorem bytes_le_of_lt {a b : Bytes} (h : a < b) : a ≤ b := List.le_of_lt h

/-- the origin is the least position -/
theorem rk_origin_le (o t : Bytes) : rk o o ≤ rk o t := by
  rw [rk_le_iff]
  by_cases h : o ≤ t
  · exact Or.inr ⟨by simp [h], h⟩
  · exact Or.inl ⟨List.le_refl _, h⟩

theorem contains_of_linear (a b t : Bytes) (h1 : a ≤ t) (h2 : t < b) : Range.contains ⟨a, b⟩ t := by
  have hab : a < b := bytes_lt_of_le_of_lt h1 h2
  have hne : a ≠ b := fun h => List.lt_irrefl _ (h ▸ hab)
  unfold Range.contains
  simp only [hne, if_false, hab, if_true]
  exact ⟨h1, h2⟩

theorem contains_of_wrap (a b t : Bytes) (hba : b < a) (h : a ≤ t ∨ t < b) : Range.contains ⟨a, b⟩ t := by
  have hne : a ≠ b := fun h => List.lt_irrefl _ (h ▸ hba)
  have hnlt : ¬ a < b := fun h' => bytes_not_le_of_lt h' (bytes_le_of_lt hba)
  unfold Range.contains
  simp only [hne, if_false, hnlt]
  exact h

/-- an arc that does not pass the origin: positions from `a` up to (excluding) `b` -/
theorem arc_contains (o a b t : Bytes) (h1 : rk o a ≤ rk o t) (h2 : rk o t < rk o b) :
    Range.contains ⟨a, b⟩ t := by
  rw [rk_le_iff] at h1
  rw [rk_lt_iff] at h2
  rcases h1 with ⟨ha, hnt⟩ | ⟨hat, hle⟩
  · -- a after the origin, t before it: b is before it as well, and after t
    rcases h2 with ⟨ht, _⟩ | ⟨htb, hlt⟩
    · exact absurd ht hnt
    · have hnb : ¬ o ≤ b := fun h => hnt (htb.mpr h)
      exact contains_of_wrap a b t (bytes_lt_of_lt_of_le (bytes_lt_of_not_le hnb) ha) (Or.inr hlt)
  · rcases h2 with ⟨ht, hnb⟩ | ⟨_, hlt⟩
    · -- a and t after the origin, b before
      have ha : o ≤ a := hat.mpr ht
      exact contains_of_wrap a b t (bytes_lt_of_lt_of_le (bytes_lt_of_not_le hnb) ha) (Or.inl hle)
    · exact contains_of_linear a b t hle hlt

/-- an arc that passes the origin: positions from `a` on, and positions before `b` -/
theorem arc_contains_wrap (o a b t : Bytes) (hab : rk o b < rk o a)
    (h : rk o a ≤ rk o t ∨ rk o t < rk o b) : Range.contains ⟨a, b⟩ t := by
  rw [rk_lt_iff] at hab
  rw [rk_le_iff, rk_lt_iff] at h
  rcases hab with ⟨hb, hna⟩ | ⟨hba, hlt⟩
  · -- b after the origin, a before it: a linear range a < b
    have halt : a < b := bytes_lt_of_lt_of_le (bytes_lt_of_not_le hna) hb
    rcases h with (⟨ha, _⟩ | ⟨hat, hle⟩) | (⟨ht, hnb⟩ | ⟨htb, htlt⟩)
    · exact absurd ha hna
    · have hnt : ¬ o ≤ t := fun h => hna (hat.mpr h)
      exact contains_of_linear a b t hle (bytes_lt_of_lt_of_le (bytes_lt_of_not_le hnt) hb)
    · exact absurd hb hnb
    · have ht : o ≤ t := htb.mpr hb
      exact contains_of_linear a b t (bytes_le_of_lt (bytes_lt_of_lt_of_le (bytes_lt_of_not_le hna) ht)) htlt
  · -- same side, b < a
    rcases h with (⟨ha, hnt⟩ | ⟨_, hle⟩) | (⟨ht, hnb⟩ | ⟨_, htlt⟩)
    · -- a (and b) after, t before
      have hb : o ≤ b := hba.mpr ha
      exact contains_of_wrap a b t hlt (Or.inr (bytes_lt_of_lt_of_le (bytes_lt_of_not_le hnt) hb))
    · exact contains_of_wrap a b t hlt (Or.inl hle)
    · -- t after, b (and a) before
      have hna : ¬ o ≤ a := fun h => hnb (hba.mpr h)
      exact contains_of_wrap a b t hlt (Or.inl (bytes_le_of_lt (bytes_lt_of_lt_of_le (bytes_lt_of_not_le hna) ht)))
    · exact contains_of_wrap a b t hlt (Or.inr htlt)

/-- a point of a proper range lies, on the circle cut at `x`, before `y` -/
theorem contains_rk_lt (x y t : Bytes) (hxy : x ≠ y) (h : Range.contains ⟨x, y⟩ t) : rk x t < rk x y := by
  unfold Range.contains at h
  simp only [hxy, if_false] at h
  rw [rk_lt_iff]
  by_cases hlt : x < y
  · simp only [hlt, if_true] at h
    exact Or.inr ⟨by simp [h.1, bytes_le_of_lt hlt], h.2⟩
  · simp only [hlt, if_false] at h
    have hyx : ¬ x ≤ y := by
      intro hle
      rcases List.le_iff_lt_or_eq.mp hle with h' | h'
      · exact hlt h'
      · exact hxy h'
    rcases h with h | h
    · exact Or.inl ⟨h, hyx⟩
    · have : ¬ x ≤ t := fun hle => hyx (bytes_le_of_lt (bytes_lt_of_le_of_lt hle h))
      exact Or.inr ⟨by simp [this, hyx], h⟩

/-- discrete intermediate value: along a chain of points starting at or before `t` and ending
after `t` there are two consecutive points that enclose `t` -/
theorem chain_encloses (o t : Bytes) (first : Bytes) (rest : List Bytes)
    (h0 : rk o first ≤ rk o t) (hlast : rk o t < rk o ((first :: rest).getLast (by simp))) :
    ∃ a b, (a, b) ∈ (first :: rest).zip rest ∧ rk o a ≤ rk o t ∧ rk o t < rk o b := by
  induction rest generalizing first with
  | nil =>
    simp only [List.getLast_singleton] at hlast
    exact absurd h0 (List.not_le.mpr hlast)
  | cons q rest ih =>
    by_cases hq : rk o q ≤ rk o t
    · have hlast' : rk o t < rk o ((q :: rest).getLast (by simp)) := by
        simpa [List.getLast_cons] using hlast
      obtain ⟨a, b, hm, h1, h2⟩ := ih q hq hlast'
      exact ⟨a, b, by simp only [List.zip_cons_cons, List.mem_cons]; exact Or.inr hm, h1, h2⟩
    · exact ⟨first, q, by simp, h0, List.not_le.mp hq⟩

end Ranger

namespace Ranger

theorem rk_origin_lt (o a : Bytes) (h : a ≠ o) : rk o o < rk o a := by
  rw [rk_lt_iff]
  by_cases ha : o ≤ a
  · refine Or.inr ⟨by simp [ha], ?_⟩
    rcases List.le_iff_lt_or_eq.mp ha with h' | h'
    · exact h'
    · exact absurd h'.symm h
  · exact Or.inl ⟨List.le_refl _, ha⟩

/-- along pivots `q 0 … q (m-1)` starting at or before `t`: two consecutive ones enclose `t`, or the
last one is still at or before `t` -/
theorem find_arc (o t : Bytes) (q : Nat → Bytes) (m : Nat) (hm : 1 ≤ m) (h0 : rk o (q 0) ≤ rk o t) :
    (∃ i, i + 1 < m ∧ rk o (q i) ≤ rk o t ∧ rk o t < rk o (q (i + 1))) ∨ rk o (q (m - 1)) ≤ rk o t := by
  induction m with
  | zero => omega
  | succ m ih =>
    by_cases hm1 : m = 0
    · subst hm1; exact Or.inr h0
    · rcases ih (by omega) with ⟨i, hi, h1, h2⟩ | h
      · exact Or.inl ⟨i, by omega, h1, h2⟩
      · by_cases hq : rk o (q m) ≤ rk o t
        · exact Or.inr (by simpa using hq)
        · refine Or.inl ⟨m - 1, by omega, h, ?_⟩
          have : m - 1 + 1 = m := by omega
          rw [this]; exact List.not_le.mp hq

/-- … or every pivot is at or before `t` -/
theorem find_arc_or_all (o t : Bytes) (q : Nat → Bytes) (m : Nat) (h0 : rk o (q 0) ≤ rk o t) :
    (∃ i, i + 1 < m ∧ rk o (q i) ≤ rk o t ∧ rk o t < rk o (q (i + 1))) ∨ ∀ i, i < m → rk o (q i) ≤ rk o t := by
  induction m with
  | zero => exact Or.inr (fun i hi => by omega)
  | succ m ih =>
    rcases ih with ⟨i, hi, h1, h2⟩ | hall
    · exact Or.inl ⟨i, by omega, h1, h2⟩
    · by_cases hm0 : m = 0
      · subst hm0
        exact Or.inr (fun i hi => by have : i = 0 := by omega
                                     subst this; exact h0)
      · by_cases hq : rk o (q m) ≤ rk o t
        · refine Or.inr (fun i hi => ?_)
          by_cases him : i = m
          · subst him; exact hq
          · exact hall i (by omega)
        · refine Or.inl ⟨m - 1, by omega, hall (m - 1) (by omega), ?_⟩
          have : m - 1 + 1 = m := by omega
          rw [this]; exact List.not_le.mp hq

/-- the last index below `k` whose value differs from `c` -/
theorem last_differing {α : Type} (f : Nat → α) (c : α) (k : Nat) (h : ∃ i, i < k ∧ f i ≠ c) :
    ∃ j, j < k ∧ f j ≠ c ∧ ∀ j', j < j' → j' < k → f j' = c := by
  induction k with
  | zero => obtain ⟨i, hi, _⟩ := h; omega
  | succ k ih =>
    by_cases hk : f k = c
    · obtain ⟨i, hi, hne⟩ := h
      have hik : i < k := by
        by_cases hik : i = k
        · subst hik; exact absurd hk hne
        · omega
      obtain ⟨j, hj, hjne, hmax⟩ := ih ⟨i, hik, hne⟩
      refine ⟨j, by omega, hjne, fun j' h1 h2 => ?_⟩
      by_cases hj'k : j' = k
      · subst hj'k; exact hk
      · exact hmax j' h1 (by omega)
    · exact ⟨k, by omega, hk, fun j' h1 h2 => by omega⟩

/-- `pivot` of `splitRanges` -/
def pivotOf (k : Nat) (x : Bytes) (els : List Entry) (i : Nat) : Bytes :=
  ((els[((els.takeWhile (fun el => decide (el.idBytes < x))).length + (els.length * (i % k + 1)) / k) % els.length]?).map
    (·.idBytes)).getD []

theorem splitRanges_eq (cfg : Config) (range : Range) (els : List Entry) :
    splitRanges cfg range els =
      if range.x = range.y then
        (List.range cfg.splitFactor).filterMap fun i =>
          if pivotOf cfg.splitFactor range.x els i ≠ pivotOf cfg.splitFactor range.x els (i + 1)
          then some ⟨pivotOf cfg.splitFactor range.x els i, pivotOf cfg.splitFactor range.x els (i + 1)⟩ else none
      else
        [⟨range.x, pivotOf cfg.splitFactor range.x els 0⟩] ++
        ((List.range (cfg.splitFactor - 2)).filterMap fun i =>
          if pivotOf cfg.splitFactor range.x els i ≠ pivotOf cfg.splitFactor range.x els (i + 1)
          then some ⟨pivotOf cfg.splitFactor range.x els i, pivotOf cfg.splitFactor range.x els (i + 1)⟩ else none) ++
        [⟨pivotOf cfg.splitFactor range.x els (cfg.splitFactor - 2), range.y⟩] := rfl

theorem rk_lt_ne {o a b : Bytes} (h : rk o a < rk o b) : a ≠ b := by
  intro he; subst he; exact List.lt_irrefl _ h

/-- **The sub-ranges of a split cover the split range** (proper range `x ≠ y`), whatever the pivots are. -/
theorem splitRanges_cover (cfg : Config) (range : Range) (els : List Entry) (hk : 2 ≤ cfg.splitFactor)
    (hxy : range.x ≠ range.y) (t : Bytes) (ht : range.contains t) :
    ∃ r ∈ splitRanges cfg range els, r.contains t := by
  rw [splitRanges_eq]
  simp only [hxy, if_false]
  let q := pivotOf cfg.splitFactor range.x els
  have h0 : rk range.x range.x ≤ rk range.x t := rk_origin_le _ _
  have hy : rk range.x t < rk range.x range.y := contains_rk_lt range.x range.y t hxy ht
  by_cases hq0 : rk range.x (q 0) ≤ rk range.x t
  · rcases find_arc range.x t q (cfg.splitFactor - 1) (by omega) hq0 with ⟨i, hi, h1, h2⟩ | hlast
    · refine ⟨⟨q i, q (i + 1)⟩, ?_, arc_contains range.x _ _ t h1 h2⟩
      apply List.mem_append_left
      apply List.mem_append_right
      rw [List.mem_filterMap]
      refine ⟨i, List.mem_range.mpr (by omega), ?_⟩
      have hne : q i ≠ q (i + 1) := rk_lt_ne (List.lt_of_le_of_lt' h1 h2)
      simp only [q] at hne ⊢
      simp [hne]
    · refine ⟨⟨q (cfg.splitFactor - 2), range.y⟩, ?_, ?_⟩
      · apply List.mem_append_right; simp [q]
      · have : cfg.splitFactor - 1 - 1 = cfg.splitFactor - 2 := by omega
        rw [this] at hlast
        exact arc_contains range.x _ _ t hlast hy
  · refine ⟨⟨range.x, q 0⟩, ?_, arc_contains range.x _ _ t h0 (List.not_le.mp hq0)⟩
    apply List.mem_append_left
    apply List.mem_append_left
    simp [q]

end Ranger

namespace Ranger

theorem pivotOf_mod (k : Nat) (x : Bytes) (els : List Entry) (hk : 0 < k) :
    pivotOf k x els k = pivotOf k x els 0 := by
  unfold pivotOf
  simp [Nat.mod_self, Nat.zero_mod]

/-- **The sub-ranges of a split of the whole set cover everything**, provided not all pivots coincide. -/
theorem splitRanges_cover_all (cfg : Config) (range : Range) (els : List Entry) (hk : 2 ≤ cfg.splitFactor)
    (hxy : range.x = range.y)
    (hnd : ∃ i, i < cfg.splitFactor ∧ pivotOf cfg.splitFactor range.x els i ≠ pivotOf cfg.splitFactor range.x els 0)
    (t : Bytes) : ∃ r ∈ splitRanges cfg range els, r.contains t := by
  rw [splitRanges_eq]
  simp only [hxy, if_true]
  rw [← hxy]
  let k := cfg.splitFactor
  let q := pivotOf k range.x els
  have hqk : q k = q 0 := pivotOf_mod k range.x els (by omega)
  have memb : ∀ i, i < k → q i ≠ q (i + 1) →
      (⟨q i, q (i + 1)⟩ : Range) ∈ (List.range k).filterMap fun i =>
        if pivotOf k range.x els i ≠ pivotOf k range.x els (i + 1)
        then some ⟨pivotOf k range.x els i, pivotOf k range.x els (i + 1)⟩ else none := by
    intro i hi hne
    rw [List.mem_filterMap]
    refine ⟨i, List.mem_range.mpr hi, ?_⟩
    simp only [q] at hne
    simp [hne, q]
  have h0 : rk (q 0) (q 0) ≤ rk (q 0) t := rk_origin_le _ _
  rcases find_arc_or_all (q 0) t q k h0 with ⟨i, hi, h1, h2⟩ | hall
  · exact ⟨⟨q i, q (i + 1)⟩, memb i (by omega) (rk_lt_ne (List.lt_of_le_of_lt h1 h2)),
      arc_contains (q 0) _ _ t h1 h2⟩
  · obtain ⟨j, hj, hjne, hmax⟩ := last_differing q (q 0) k hnd
    have hnext : q (j + 1) = q 0 := by
      by_cases hjk : j + 1 = k
      · rw [hjk]; exact hqk
      · exact hmax (j + 1) (by omega) (by omega)
    have hne : q j ≠ q (j + 1) := by rw [hnext]; exact hjne
    refine ⟨⟨q j, q (j + 1)⟩, memb j hj hne, ?_⟩
    rw [hnext]
    exact arc_contains_wrap (q 0) (q j) (q 0) t (rk_origin_lt (q 0) (q j) hjne) (Or.inl (hall j hj))

/-- with at least two entries of distinct identifiers, the last two pivots of a split differ -/
theorem pivots_not_all_equal (k : Nat) (x : Bytes) (els : List Entry) (hk : 2 ≤ k) (hn : 2 ≤ els.length)
    (hsorted : (els.map (·.idBytes)).Pairwise (· < ·)) :
    ∃ i, i < k ∧ pivotOf k x els i ≠ pivotOf k x els 0 := by
  -- pivots k-2 and k-1 sit at different positions of the list
  let n := els.length
  let s := (els.takeWhile (fun el => decide (el.idBytes < x))).length
  let o2 := (n * ((k - 2) % k + 1)) / k
  let o1 := (n * ((k - 1) % k + 1)) / k
  have hm2 : (k - 2) % k = k - 2 := Nat.mod_eq_of_lt (by omega)
  have hm1 : (k - 1) % k = k - 1 := Nat.mod_eq_of_lt (by omega)
  have ho1 : o1 = n := by
    show (n * ((k - 1) % k + 1)) / k = n
    rw [hm1]
    have : k - 1 + 1 = k := by omega
    rw [this, Nat.mul_div_cancel _ (by omega : 0 < k)]
  have ho2lo : 1 ≤ o2 := by
    show 1 ≤ (n * ((k - 2) % k + 1)) / k
    rw [hm2]
    have hk1 : k - 2 + 1 = k - 1 := by omega
    rw [hk1]
    apply (Nat.le_div_iff_mul_le (by omega : 0 < k)).mpr
    have : 2 * (k - 1) ≤ n * (k - 1) := Nat.mul_le_mul_right _ hn
    omega
  have ho2hi : o2 < n := by
    show (n * ((k - 2) % k + 1)) / k < n
    rw [hm2]
    have hk1 : k - 2 + 1 = k - 1 := by omega
    rw [hk1]
    apply (Nat.div_lt_iff_lt_mul (by omega : 0 < k)).mpr
    have : n * (k - 1) < n * k := Nat.mul_lt_mul_of_pos_left (by omega) (by omega)
    exact this
  have hidx : (s + o2) % n ≠ (s + o1) % n := by
    intro h
    rw [ho1] at h
    have h' : (s + n) % n = s % n := by simp
    rw [h'] at h
    have := Nat.sub_mod_eq_zero_of_mod_eq h
    have h2 : s + o2 - s = o2 := by omega
    rw [h2, Nat.mod_eq_of_lt ho2hi] at this
    omega
  have hlt1 : (s + o2) % n < n := Nat.mod_lt _ (by omega)
  have hlt2 : (s + o1) % n < n := Nat.mod_lt _ (by omega)
  -- different positions hold different identifiers
  have hdiff : pivotOf k x els (k - 2) ≠ pivotOf k x els (k - 1) := by
    unfold pivotOf
    show ((els[(s + o2) % n]?).map (·.idBytes)).getD [] ≠ ((els[(s + o1) % n]?).map (·.idBytes)).getD []
    rw [List.getElem?_eq_getElem hlt1, List.getElem?_eq_getElem hlt2]
    simp only [Option.map_some, Option.getD_some]
    have hp := List.pairwise_iff_getElem.mp hsorted
    intro heq
    rcases Nat.lt_or_gt_of_ne hidx with hlt | hgt
    · have := hp ((s + o2) % n) ((s + o1) % n) (by simpa using hlt1) (by simpa using hlt2) hlt
      simp only [List.getElem_map] at this
      rw [heq] at this
      exact List.lt_irrefl _ this
    · have := hp ((s + o1) % n) ((s + o2) % n) (by simpa using hlt2) (by simpa using hlt1) hgt
      simp only [List.getElem_map] at this
      rw [heq] at this
      exact List.lt_irrefl _ this
  by_cases h2 : pivotOf k x els (k - 2) = pivotOf k x els 0
  · exact ⟨k - 1, by omega, fun h1 => hdiff (h2.trans h1.symm)⟩
  · exact ⟨k - 2, by omega, h2⟩

end Ranger

namespace Ranger

/-- a proper range never contains its own end -/
theorem not_contains_end (a b : Bytes) (hab : a ≠ b) : ¬ Range.contains ⟨a, b⟩ b := by
  unfold Range.contains
  simp only [hab, if_false]
  by_cases h : a < b
  · simp only [h, if_true]
    exact fun hh => List.lt_irrefl _ hh.2
  · simp only [h, if_false]
    rintro (hh | hh)
    · rcases List.le_iff_lt_or_eq.mp hh with h' | h'
      · exact h h'
      · exact hab h'
    · exact List.lt_irrefl _ hh

/-- converse of `arc_contains` for an arc that does not pass the origin -/
theorem arc_contains_conv (o a b t : Bytes) (hab : rk o a < rk o b) (h : Range.contains ⟨a, b⟩ t) :
    rk o a ≤ rk o t ∧ rk o t < rk o b := by
  have hne : a ≠ b := rk_lt_ne hab
  rw [rk_lt_iff] at hab
  rw [rk_le_iff, rk_lt_iff]
  unfold Range.contains at h
  simp only [hne, if_false] at h
  rcases hab with ⟨ha, hnb⟩ | ⟨hiff, hlt⟩
  · -- a after the origin, b before: a wrap-around range
    have hba : b < a := bytes_lt_of_lt_of_le (bytes_lt_of_not_le hnb) ha
    have hnlt : ¬ a < b := fun h' => bytes_not_le_of_lt h' (bytes_le_of_lt hba)
    simp only [hnlt, if_false] at h
    rcases h with h | h
    · have ht : o ≤ t := List.le_trans ha h
      exact ⟨Or.inr ⟨by simp [ha, ht], h⟩, Or.inl ⟨ht, hnb⟩⟩
    · have hnt : ¬ o ≤ t := fun ht => hnb (List.le_trans ht (bytes_le_of_lt h))
      exact ⟨Or.inl ⟨ha, hnt⟩, Or.inr ⟨by simp [hnt, hnb], h⟩⟩
  · simp only [hlt, if_true] at h
    obtain ⟨h1, h2⟩ := h
    by_cases ha : o ≤ a
    · have ht : o ≤ t := List.le_trans ha h1
      have hb : o ≤ b := hiff.mp ha
      exact ⟨Or.inr ⟨by simp [ha, ht], h1⟩, Or.inr ⟨by simp [ht, hb], h2⟩⟩
    · have hnb : ¬ o ≤ b := fun hb => ha (hiff.mpr hb)
      have hnt : ¬ o ≤ t := fun ht => hnb (List.le_trans ht (bytes_le_of_lt h2))
      exact ⟨Or.inr ⟨by simp [ha, hnt], h1⟩, Or.inr ⟨by simp [hnt, hnb], h2⟩⟩

end Ranger
