import DocsModel.Model.Bytes
/-! Facts about byte strings: the exact range of a key prefix, and the successor of a fixed-width id. -/

namespace Bytes

theorem u8_lt_succ_iff {b c : UInt8} (h : b ≠ 255) : c < b + 1 ↔ c ≤ b := by
  have hb : b.toNat < 255 := by
    have := b.toNat_lt
    have : b.toNat ≠ 255 := fun h' => h (UInt8.toNat_inj.mp (by simpa using h'))
    omega
  rw [UInt8.lt_iff_toNat_lt, UInt8.le_iff_toNat_le, UInt8.toNat_add]
  simp
  omega

theorem u8_not_lt_255 (c : UInt8) : ¬ (255 : UInt8) < c := by
  rw [UInt8.lt_iff_toNat_lt]
  have := c.toNat_lt
  simp
  omega

theorem u8_lt_asymm {a b : UInt8} (h : a < b) : ¬ b < a := by
  rw [UInt8.lt_iff_toNat_lt] at *; omega

theorem u8_le_of_not_both {b c : UInt8} (h1 : b < c ∨ b = c) (h2 : c ≤ b) : b = c := by
  rcases h1 with h | h
  · rw [UInt8.lt_iff_toNat_lt] at h; rw [UInt8.le_iff_toNat_le] at h2; omega
  · exact h

/-- **Exact range of a key prefix.** A key lies in `[p, prefixSucc p)` (unbounded above when
`prefixSucc p` does not exist: `p` empty or all `0xFF`) exactly when it starts with `p`. This is what
makes the range-based prefix queries and the range-based prefix removal of `store/fs` correct. -/
theorem prefix_range_exact (p k : Bytes) :
    (p ≤ k ∧ (∀ s, prefixSucc p = some s → k < s)) ↔ p <+: k := by
  induction p generalizing k with
  | nil => simp [prefixSucc, List.nil_le]
  | cons b rest ih =>
    cases k with
    | nil =>
      constructor
      · rintro ⟨h, _⟩
        exact absurd (List.nil_lt_cons b rest) (List.not_lt.mpr h)
      · intro h; simp at h
    | cons c ks =>
      rw [List.cons_le_cons_iff, List.cons_prefix_cons]
      cases hs : prefixSucc rest with
      | some r =>
        have ih' := ih ks
        rw [hs] at ih'
        simp only [prefixSucc, hs, Option.some.injEq, forall_eq']
        rw [List.cons_lt_cons_iff]
        constructor
        · rintro ⟨h1, h2⟩
          rcases h1 with h1 | ⟨h1, h1'⟩
          · rcases h2 with h2 | ⟨h2, _⟩
            · exact absurd h2 (u8_lt_asymm h1)
            · subst h2; exact absurd h1 (UInt8.lt_irrefl _)
          · rcases h2 with h2 | ⟨_, h2'⟩
            · subst h1; exact absurd h2 (UInt8.lt_irrefl _)
            · exact ⟨h1, ih'.mp ⟨h1', fun s hs' => by cases hs'; exact h2'⟩⟩
        · rintro ⟨h1, h2⟩
          obtain ⟨h3, h4⟩ := ih'.mpr h2
          exact ⟨Or.inr ⟨h1, h3⟩, Or.inr ⟨h1.symm, h4 r rfl⟩⟩
      | none =>
        have ih' := ih ks
        rw [hs] at ih'
        simp only [reduceCtorEq, false_implies, implies_true, and_true] at ih'
        by_cases hb : b = 255
        · simp only [prefixSucc, hs, hb, if_true, reduceCtorEq, false_implies, implies_true, and_true]
          constructor
          · rintro (h | ⟨h, h'⟩)
            · exact absurd h (u8_not_lt_255 c)
            · exact ⟨h, ih'.mp h'⟩
          · rintro ⟨h, h'⟩
            exact Or.inr ⟨h, ih'.mpr h'⟩
        · simp only [prefixSucc, hs, hb, if_false, Option.some.injEq, forall_eq']
          rw [List.cons_lt_cons_iff]
          constructor
          · rintro ⟨h1, h2⟩
            have hc : c ≤ b := by
              rcases h2 with h2 | ⟨_, h2⟩
              · exact (u8_lt_succ_iff hb).mp h2
              · exact absurd h2 (List.not_lt_nil _)
            have hbc : b = c := u8_le_of_not_both (h1.elim Or.inl (fun h => Or.inr h.1)) hc
            rcases h1 with h1 | ⟨_, h1⟩
            · subst hbc; exact absurd h1 (UInt8.lt_irrefl _)
            · exact ⟨hbc, ih'.mp h1⟩
          · rintro ⟨h1, h2⟩
            refine ⟨Or.inr ⟨h1, ih'.mpr h2⟩, Or.inl ?_⟩
            subst h1
            exact (u8_lt_succ_iff hb).mpr (UInt8.le_refl _)

/-- F2: `increment_by_one`, which keeps the length, is *not* an exact upper bound for a key prefix:
the key `[2]` does not start with `[1,255]` but lies in `[[1,255], [2,0])`. -/
theorem increment_by_one_overshoots :
    let p : Bytes := [1, 255]
    let k : Bytes := [2]
    p ≤ k ∧ k < (incrementByOne p).2 ∧ ¬ p <+: k := by decide

end Bytes

/-! ## fixed-width ids: `increment_by_one` is the successor among strings of the same length -/

namespace Bytes

theorem u8_le_255 (c : UInt8) : c ≤ 255 := by
  rw [UInt8.le_iff_toNat_le]; have := c.toNat_lt; simp; omega

theorem u8_zero_le (c : UInt8) : (0 : UInt8) ≤ c := by
  rw [UInt8.le_iff_toNat_le]; simp

theorem u8_lt_or_eq_of_le {a b : UInt8} (h : a ≤ b) : a < b ∨ a = b := by
  rw [UInt8.le_iff_toNat_le] at h
  rcases Nat.lt_or_eq_of_le h with h | h
  · exact Or.inl (UInt8.lt_iff_toNat_lt.mpr h)
  · exact Or.inr (UInt8.toNat_inj.mp h)

/-- all-zero strings are minimal among strings of the same length -/
theorem zeros_le (n : Nat) (x : Bytes) (h : x.length = n) : List.replicate n (0 : UInt8) ≤ x := by
  induction n generalizing x with
  | zero => exact List.nil_le _
  | succ n ih =>
    cases x with
    | nil => simp at h
    | cons c xs =>
      simp only [List.replicate_succ]
      rw [List.cons_le_cons_iff]
      rcases u8_lt_or_eq_of_le (u8_zero_le c) with h' | h'
      · exact Or.inl h'
      · exact Or.inr ⟨h', ih xs (by simpa using h)⟩

/-- all-0xFF strings are maximal among strings of the same length -/
theorem le_ffs (n : Nat) (x : Bytes) (h : x.length = n) : x ≤ List.replicate n (255 : UInt8) := by
  induction n generalizing x with
  | zero => cases x with
    | nil => exact List.le_refl _
    | cons c xs => simp at h
  | succ n ih =>
    cases x with
    | nil => simp at h
    | cons c xs =>
      simp only [List.replicate_succ]
      rw [List.cons_le_cons_iff]
      rcases u8_lt_or_eq_of_le (u8_le_255 c) with h' | h'
      · exact Or.inl h'
      · exact Or.inr ⟨h', ih xs (by simpa using h)⟩

/-- `increment_by_one` fails exactly on all-0xFF strings (and leaves zeros behind) -/
theorem incrementByOne_false (a r : Bytes) (h : incrementByOne a = (false, r)) :
    a = List.replicate a.length 255 ∧ r = List.replicate a.length 0 := by
  induction a generalizing r with
  | nil => simp [incrementByOne] at h; simp [h]
  | cons b rest ih =>
    unfold incrementByOne at h
    rcases hr : incrementByOne rest with ⟨ok, r'⟩
    rw [hr] at h
    cases ok with
    | true => simp at h
    | false =>
      simp only at h
      by_cases hb : b = 255
      · simp only [hb, if_true, Prod.mk.injEq, true_and] at h
        obtain ⟨h1, h2⟩ := ih r' hr
        subst h
        simp only [List.length_cons, List.replicate_succ]
        exact ⟨by rw [hb, ← h1], by rw [← h2]⟩
      · simp [hb] at h

theorem incrementByOne_length (a : Bytes) : (incrementByOne a).2.length = a.length := by
  induction a with
  | nil => simp [incrementByOne]
  | cons b rest ih =>
    unfold incrementByOne
    rcases hr : incrementByOne rest with ⟨ok, r'⟩
    rw [hr] at ih
    cases ok <;> simp only
    · split <;> simp_all
    · simp_all

/-- `increment_by_one` yields the successor: it is greater, and no string of the same length lies
strictly in between -/
theorem incrementByOne_succ (a a' : Bytes) (h : incrementByOne a = (true, a')) :
    a < a' ∧ ∀ x : Bytes, x.length = a.length → a < x → a' ≤ x := by
  induction a generalizing a' with
  | nil => simp [incrementByOne] at h
  | cons b rest ih =>
    unfold incrementByOne at h
    rcases hr : incrementByOne rest with ⟨ok, r'⟩
    rw [hr] at h
    cases ok with
    | true =>
      simp only [Prod.mk.injEq, true_and] at h
      subst h
      obtain ⟨h1, h2⟩ := ih r' hr
      refine ⟨List.cons_lt_cons_iff.mpr (Or.inr ⟨rfl, h1⟩), ?_⟩
      intro x hx hlt
      cases x with
      | nil => simp at hx
      | cons c xs =>
        rw [List.cons_le_cons_iff]
        rcases List.cons_lt_cons_iff.mp hlt with h | ⟨h, h'⟩
        · exact Or.inl h
        · exact Or.inr ⟨h, h2 xs (by simpa using hx) h'⟩
    | false =>
      obtain ⟨hrest, hr'⟩ := incrementByOne_false rest r' hr
      by_cases hb : b = 255
      · simp [hb] at h
      · simp only [hb, if_false, Prod.mk.injEq, true_and] at h
        subst h
        have hbb : b < b + 1 := (u8_lt_succ_iff hb).mpr (UInt8.le_refl _) |> fun h => by
          rcases u8_lt_or_eq_of_le ((u8_lt_succ_iff hb).mp h) with h' | h'
          · exact absurd h' (UInt8.lt_irrefl _)
          · exact h
        refine ⟨List.cons_lt_cons_iff.mpr (Or.inl hbb), ?_⟩
        intro x hx hlt
        cases x with
        | nil => simp at hx
        | cons c xs =>
          have hxs : xs.length = rest.length := by simpa using hx
          rw [List.cons_le_cons_iff]
          rcases List.cons_lt_cons_iff.mp hlt with h | ⟨h, h'⟩
          · -- b < c, so b + 1 ≤ c
            have : b + 1 ≤ c := by
              rw [UInt8.le_iff_toNat_le, UInt8.toNat_add]
              rw [UInt8.lt_iff_toNat_lt] at h
              have := c.toNat_lt
              simp; omega
            rcases u8_lt_or_eq_of_le this with h'' | h''
            · exact Or.inl h''
            · refine Or.inr ⟨h'', ?_⟩
              rw [hr']
              exact zeros_le _ xs hxs
          · -- rest is all 0xFF: nothing of the same length is greater
            have := le_ffs rest.length xs hxs
            rw [← hrest] at this
            exact absurd h' (List.not_lt.mpr this)

/-- a string of the same length that is neither below `ns` nor at or above its successor is `ns` -/
theorem squeeze (ns x : Bytes) (hx : x.length = ns.length)
    (hlo : ¬ x < ns) (hhi : match incrementByOne ns with | (true, e) => x < e | (false, _) => True) :
    x = ns := by
  rcases h : incrementByOne ns with ⟨ok, e⟩
  rw [h] at hhi
  cases ok with
  | true =>
    obtain ⟨_, hsucc⟩ := incrementByOne_succ ns e h
    by_cases hlt : ns < x
    · exact absurd hhi (List.not_lt.mpr (hsucc x hx hlt))
    · exact List.le_antisymm (List.not_lt.mp hlt) (List.not_lt.mp hlo)
  | false =>
    obtain ⟨hff, _⟩ := incrementByOne_false ns e h
    have : x ≤ ns := by rw [hff, ← hx]; exact le_ffs _ x rfl
    exact List.le_antisymm this (List.not_lt.mp hlo)

end Bytes
