import DocsModel.Model.Bytes
/-! Facts about byte strings: the exact range of a key prefix, and the successor of a fixed-width id. -/

namespace Bytes

theorem u8_lt_succ_iff {b c : UInt8} (h : b ≠ 255) : c < b + 1 ↔ c ≤ b := by
  have hb : b.toNat < 255 := by
    have := b.toNat_lt
    have : b.toNat ≠ 255 := fun h' => h (UInt8.toNat_inj.mp (by simpa using h'))
    omega
  rw [UInt8.lt_iff_toNat_lt, UInt8.le_iff_toNat_le, UInt8.toNat_add]
  simp
  omega

theorem u8_not_lt_255 (c : UInt8) : ¬ (255 : UInt8) < c := by
  rw [UInt8.lt_iff_toNat_lt]
  have := c.toNat_lt
  simp
  omega

theorem u8_lt_asymm {a b : UInt8} (h : a < b) : ¬ b < a := by
  rw [UInt8.lt_iff_toNat_lt] at *; omega

theorem u8_le_of_not_both {b c : UInt8} (h1 : b < c ∨ b = c) (h2 : c ≤ b) : b = c := by
  rcases h1 with h | h
  · rw [UInt8.lt_iff_toNat_lt] at h; rw [UInt8.le_iff_toNat_le] at h2; omega
  · exact h

/-- **Exact range of a key prefix.** A key lies in `[p, prefixSucc p)` (unbounded above when
`prefixSucc p` does not exist: `p` empty or all `0xFF`) exactly when it starts with `p`. This is what
makes the range-based prefix queries and the range-based prefix removal of `store/fs` correct. -/
theorem prefix_range_exact (p k : Bytes) :
    (p ≤ k ∧ (∀ s, prefixSucc p = some s → k < s)) ↔ p <+: k := by
  induction p generalizing k with
  | nil => simp [prefixSucc, List.nil_le]
  | cons b rest ih =>
    cases k with
    | nil =>
      constructor
      · rintro ⟨h, _⟩
        exact absurd (List.nil_lt_cons b rest) (List.not_lt.mpr h)
      · intro h; simp at h
    | cons c ks =>
      rw [List.cons_le_cons_iff, List.cons_prefix_cons]
      cases hs : prefixSucc rest with
      | some r =>
        have ih' := ih ks
        rw [hs] at ih'
        simp only [prefixSucc, hs, Option.some.injEq, forall_eq']
        rw [List.cons_lt_cons_iff]
        constructor
        · rintro ⟨h1, h2⟩
          rcases h1 with h1 | ⟨h1, h1'⟩
          · rcases h2 with h2 | ⟨h2, _⟩
            · exact absurd h2 (u8_lt_asymm h1)
            · subst h2; exact absurd h1 (UInt8.lt_irrefl _)
          · rcases h2 with h2 | ⟨_, h2'⟩
            · subst h1; exact absurd h2 (UInt8.lt_irrefl _)
            · exact ⟨h1, ih'.mp ⟨h1', fun s hs' => by cases hs'; exact h2'⟩⟩
        · rintro ⟨h1, h2⟩
          obtain ⟨h3, h4⟩ := ih'.mpr h2
          exact ⟨Or.inr ⟨h1, h3⟩, Or.inr ⟨h1.symm, h4 r rfl⟩⟩
      | none =>
        have ih' := ih ks
        rw [hs] at ih'
        simp only [reduceCtorEq, false_implies, implies_true, and_true] at ih'
        by_cases hb : b = 255
        · simp only [prefixSucc, hs, hb, if_true, reduceCtorEq, false_implies, implies_true, and_true]
          constructor
          · rintro (h | ⟨h, h'⟩)
            · exact absurd h (u8_not_lt_255 c)
            · exact ⟨h, ih'.mp h'⟩
          · rintro ⟨h, h'⟩
            exact Or.inr ⟨h, ih'.mpr h'⟩
        · simp only [prefixSucc, hs, hb, if_false, Option.some.injEq, forall_eq']
          rw [List.cons_lt_cons_iff]
          constructor
          · rintro ⟨h1, h2⟩
            have hc : c ≤ b := by
              rcases h2 with h2 | ⟨_, h2⟩
              · exact (u8_lt_succ_iff hb).mp h2
              · exact absurd h2 (List.not_lt_nil _)
            have hbc : b = c := u8_le_of_not_both (h1.elim Or.inl (fun h => Or.inr h.1)) hc
            rcases h1 with h1 | ⟨_, h1⟩
            · subst hbc; exact absurd h1 (UInt8.lt_irrefl _)
            · exact ⟨hbc, ih'.mp h1⟩
          · rintro ⟨h1, h2⟩
            refine ⟨Or.inr ⟨h1, ih'.mpr h2⟩, Or.inl ?_⟩
            subst h1
            exact (u8_lt_succ_iff hb).mpr (UInt8.le_refl _)

/-- F2: `increment_by_one`, which keeps the length, is *not* an exact upper bound for a key prefix:
the key `[2]` does not start with `[1,255]` but lies in `[[1,255], [2,0])`. -/
theorem increment_by_one_overshoots :
    let p : Bytes := [1, 255]
    let k : Bytes := [2]
    p ≤ k ∧ k < (incrementByOne p).2 ∧ ¬ p <+: k := by decide

end Bytes
