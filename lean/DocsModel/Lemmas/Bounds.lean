import DocsModel.Lemmas.Bytes
import DocsModel.Lemmas.Put
import DocsModel.Model.Tables
/-!
Exactness of `RecordsBounds::author_key` with a prefix filter, in all four branches of the code
(prefix successor exists; else author successor; else namespace successor; else unbounded), and the
refinement of `ranger::Store::put` on the tables to `Spec.put`.
-/

namespace Tables
open Bytes Spec Entry

private theorem not_lt_zero32' (a : Bytes) (h : a.length = 32) : ¬ a < zero32 :=
  List.not_lt.mpr (zeros_le 32 a h)

/-- the upper bound computed by `author_key` for a prefix filter -/
def prefixHi (ns author p : Bytes) : Bound K3 :=
  match prefixSucc p with
  | some keyEnd => .excl (ns, author, keyEnd)
  | none =>
    match incrementByOne author with
    | (true, authorEnd) => .excl (ns, authorEnd, [])
    | (false, _) =>
      match incrementByOne ns with
      | (true, nsEnd) => .excl (nsEnd, zero32, [])
      | (false, _) => .unb

theorem recAuthorPrefix_eq (ns author p : Bytes) :
    recAuthorPrefix ns author p = (.incl (ns, author, p), prefixHi ns author p) := rfl

/-- **The scan range of `author_prefix(ns, author, p)` contains exactly the rows of that namespace
and author whose key starts with `p`.** All ids 32 bytes. -/
theorem recAuthorPrefix_exact (ns author p : Bytes) (k : K3)
    (hns : ns.length = 32) (hau : author.length = 32) (hk1 : k.1.length = 32) (hk2 : k.2.1.length = 32) :
    inRange3 (recAuthorPrefix ns author p).1 (recAuthorPrefix ns author p).2 k
      ↔ k.1 = ns ∧ k.2.1 = author ∧ p <+: k.2.2 := by
  obtain ⟨n', a', key⟩ := k
  simp only at hk1 hk2 ⊢
  have irr : ∀ x : Bytes, ¬ x < x := fun x => List.lt_irrefl x
  -- the converse direction's lower bound is the same in all branches
  have lower_ok : p <+: key → ¬ lt3 (ns, author, key) (ns, author, p) := by
    intro hp
    have := ((prefix_range_exact p key).mpr hp).1
    rintro (h | ⟨_, h | ⟨_, h⟩⟩)
    · exact irr _ h
    · exact irr _ h
    · exact List.not_lt.mpr this h
  rw [recAuthorPrefix_eq]
  unfold prefixHi
  cases hs : prefixSucc p with
  | some s =>
    simp only [inRange3]
    constructor
    · rintro ⟨hlo, hhi⟩
      unfold lt3 at hlo hhi
      simp only at hlo hhi
      rcases hhi with h | ⟨hn, h | ⟨ha, hks⟩⟩
      · exact absurd (Or.inl h) hlo
      · exact absurd (Or.inr ⟨hn, Or.inl h⟩) hlo
      · refine ⟨hn, ha, (prefix_range_exact p key).mp ⟨?_, ?_⟩⟩
        · apply List.not_lt.mp
          intro hlt; exact hlo (Or.inr ⟨hn, Or.inr ⟨ha, hlt⟩⟩)
        · intro s' hs'; rw [hs] at hs'; cases hs'; exact hks
    · rintro ⟨hn, ha, hp⟩
      subst hn; subst ha
      refine ⟨lower_ok hp, ?_⟩
      unfold lt3
      exact Or.inr ⟨rfl, Or.inr ⟨rfl, ((prefix_range_exact p key).mpr hp).2 s hs⟩⟩
  | none =>
    have hpk : ∀ {k : Bytes}, ¬ k < p → p <+: k := by
      intro k h
      exact (prefix_range_exact p k).mp ⟨List.not_lt.mp h, by intro s' hs'; rw [hs] at hs'; cases hs'⟩
    rcases hia : incrementByOne author with ⟨oka, aEnd⟩
    cases oka with
    | true =>
      simp only [inRange3]
      obtain ⟨haa, hasucc⟩ := incrementByOne_succ author aEnd hia
      constructor
      · rintro ⟨hlo, hhi⟩
        unfold lt3 at hlo hhi
        simp only at hlo hhi
        rcases hhi with h | ⟨hn, h | ⟨_, h⟩⟩
        · exact absurd (Or.inl h) hlo
        · have hge : ¬ a' < author := fun hlt => hlo (Or.inr ⟨hn, Or.inl hlt⟩)
          have ha : a' = author := by
            by_cases hlt : author < a'
            · exact absurd h (List.not_lt.mpr (hasucc a' (by rw [hk2, hau]) hlt))
            · exact List.le_antisymm (List.not_lt.mp hlt) (List.not_lt.mp hge)
          refine ⟨hn, ha, hpk ?_⟩
          intro hlt; exact hlo (Or.inr ⟨hn, Or.inr ⟨ha, hlt⟩⟩)
        · exact absurd h (List.not_lt_nil _)
      · rintro ⟨hn, ha, hp⟩
        subst hn; subst ha
        refine ⟨lower_ok hp, ?_⟩
        unfold lt3
        exact Or.inr ⟨rfl, Or.inl haa⟩
    | false =>
      obtain ⟨haff, _⟩ := incrementByOne_false author aEnd hia
      have hale : a' ≤ author := by rw [haff, hau, ← hk2]; exact le_ffs _ a' rfl
      rcases hin : incrementByOne ns with ⟨okn, nEnd⟩
      cases okn with
      | true =>
        simp only [inRange3]
        obtain ⟨hnn, hnsucc⟩ := incrementByOne_succ ns nEnd hin
        constructor
        · rintro ⟨hlo, hhi⟩
          unfold lt3 at hlo hhi
          simp only at hlo hhi
          have hnge : ¬ n' < ns := fun hlt => hlo (Or.inl hlt)
          have hnlt : n' < nEnd := by
            rcases hhi with h | ⟨_, h | ⟨_, h⟩⟩
            · exact h
            · exact absurd h (not_lt_zero32' _ hk2)
            · exact absurd h (List.not_lt_nil _)
          have hn : n' = ns := by
            by_cases hlt : ns < n'
            · exact absurd hnlt (List.not_lt.mpr (hnsucc n' (by rw [hk1, hns]) hlt))
            · exact List.le_antisymm (List.not_lt.mp hlt) (List.not_lt.mp hnge)
          have hage : ¬ a' < author := fun hlt => hlo (Or.inr ⟨hn, Or.inl hlt⟩)
          have ha : a' = author := List.le_antisymm hale (List.not_lt.mp hage)
          refine ⟨hn, ha, hpk ?_⟩
          intro hlt; exact hlo (Or.inr ⟨hn, Or.inr ⟨ha, hlt⟩⟩)
        · rintro ⟨hn, ha, hp⟩
          subst hn; subst ha
          refine ⟨lower_ok hp, ?_⟩
          unfold lt3
          exact Or.inl hnn
      | false =>
        obtain ⟨hnff, _⟩ := incrementByOne_false ns nEnd hin
        have hnle : n' ≤ ns := by rw [hnff, hns, ← hk1]; exact le_ffs _ n' rfl
        simp only [inRange3, and_true]
        constructor
        · intro hlo
          unfold lt3 at hlo
          simp only at hlo
          have hnge : ¬ n' < ns := fun hlt => hlo (Or.inl hlt)
          have hn : n' = ns := List.le_antisymm hnle (List.not_lt.mp hnge)
          have hage : ¬ a' < author := fun hlt => hlo (Or.inr ⟨hn, Or.inl hlt⟩)
          have ha : a' = author := List.le_antisymm hale (List.not_lt.mp hage)
          refine ⟨hn, ha, hpk ?_⟩
          intro hlt; exact hlo (Or.inr ⟨hn, Or.inr ⟨ha, hlt⟩⟩)
        · rintro ⟨hn, ha, hp⟩
          subst hn; subst ha
          exact lower_ok hp

end Tables

namespace Tables
open Bytes Spec Entry

theorem mem_inits (k key : Bytes) : k ∈ inits key ↔ k <+: key := by
  induction key generalizing k with
  | nil => simp [inits]
  | cons b rest ih =>
    simp only [inits, List.mem_cons, List.mem_map]
    constructor
    · rintro (h | ⟨k', hk', rfl⟩)
      · subst h; exact List.nil_prefix
      · exact List.cons_prefix_cons.mpr ⟨rfl, (ih k').mp hk'⟩
    · intro h
      cases k with
      | nil => exact Or.inl rfl
      | cons c ks =>
        obtain ⟨h1, h2⟩ := List.cons_prefix_cons.mp h
        subst h1
        exact Or.inr ⟨ks, (ih ks).mpr h2, rfl⟩

theorem recGet_some {recs : List Entry} {ns a k : Bytes} {e : Entry} (h : recGet recs ns a k = some e) :
    e ∈ recs ∧ e.ns = ns ∧ e.author = a ∧ e.key = k := by
  unfold recGet at h
  have h1 := List.mem_of_find?_eq_some h
  have h2 := List.find?_some h
  simp only [Bool.and_eq_true, beq_iff_eq] at h2
  exact ⟨h1, h2.1.1, h2.1.2, h2.2⟩

/-- in a table sorted by id an id determines the row -/
theorem sorted_unique {recs : List Entry} (hs : SortedById recs) {x y : Entry}
    (hx : x ∈ recs) (hy : y ∈ recs) (hid : sameId x y) : x = y := by
  rcases List.mem_iff_getElem.mp hx with ⟨i, hi, rfl⟩
  rcases List.mem_iff_getElem.mp hy with ⟨j, hj, rfl⟩
  rcases Nat.lt_trichotomy i j with h | h | h
  · exact absurd (List.pairwise_iff_getElem.mp hs i j hi hj h) (not_idLt_of_sameId hid)
  · subst h; rfl
  · exact absurd (List.pairwise_iff_getElem.mp hs j i hj hi h) (not_idLt_of_sameId (sameId_symm hid))

theorem recGet_of_mem {recs : List Entry} (hs : SortedById recs) {e : Entry} (he : e ∈ recs) :
    recGet recs e.ns e.author e.key = some e := by
  unfold recGet
  cases hf : recs.find? (fun x => x.ns == e.ns && x.author == e.author && x.key == e.key) with
  | none =>
    have := List.find?_eq_none.mp hf e he
    simp at this
  | some x =>
    have h1 := List.mem_of_find?_eq_some hf
    have h2 := List.find?_some hf
    simp only [Bool.and_eq_true, beq_iff_eq] at h2
    rw [sorted_unique hs h1 he ⟨h2.1.1, h2.1.2, h2.2⟩]

/-- `parents()` finds exactly the stored entries covering `e` -/
theorem mem_parents {recs : List Entry} (hs : SortedById recs) (e x : Entry) :
    x ∈ parents recs e.ns e.author e.key ↔ x ∈ recs ∧ covers x e := by
  unfold parents
  simp only [List.mem_filterMap, mem_inits]
  constructor
  · rintro ⟨k, hk, hget⟩
    unfold getExact at hget
    cases hg : recGet recs e.ns e.author k with
    | none => rw [hg] at hget; cases hget
    | some y =>
      rw [hg] at hget
      simp only [Bool.true_or, Option.filter_some, if_true, Option.some.injEq] at hget
      subst hget
      obtain ⟨h1, h2, h3, h4⟩ := recGet_some hg
      exact ⟨h1, h2, h3, h4 ▸ hk⟩
  · rintro ⟨hx, hn, ha, hk⟩
    refine ⟨x.key, hk, ?_⟩
    unfold getExact
    rw [← hn, ← ha, recGet_of_mem hs hx]
    simp

/-- ids of 32 bytes -/
def Wf (e : Entry) : Prop := e.ns.length = 32 ∧ e.author.length = 32

theorem hit_iff_dom (e c : Entry) (he : Wf e) (hc : Wf c) :
    (decide (inRange3 (recAuthorPrefix e.ns e.author e.key).1 (recAuthorPrefix e.ns e.author e.key).2 (rk c))
      && decide (valueLe c e)) = decide (dom e c) := by
  have := recAuthorPrefix_exact e.ns e.author e.key (rk c) he.1 he.2 hc.1 hc.2
  simp only [rk] at this
  have hcov : inRange3 (recAuthorPrefix e.ns e.author e.key).1 (recAuthorPrefix e.ns e.author e.key).2 (rk c)
      ↔ covers e c := by
    rw [show rk c = (c.ns, c.author, c.key) from rfl, this]
    unfold covers
    constructor
    · rintro ⟨h1, h2, h3⟩; exact ⟨h1.symm, h2.symm, h3⟩
    · rintro ⟨h1, h2, h3⟩; exact ⟨h1.symm, h2.symm, h3⟩
  unfold dom
  by_cases h1 : covers e c <;> by_cases h2 : valueLe c e <;> simp [hcov, h1, h2]

/-- **`put` on the tables refines `put` on the ordered map**: the records table after the
parents loop, the bounds-based prune and `entry_put` is `Spec.put` of the records, with the same
outcome (in particular the same removal count). -/
theorem put_refines (t : T) (e : Entry) (hs : SortedById t.records)
    (hwf : ∀ c ∈ t.records, Wf c) (he : Wf e) :
    (put t e).1.records = (Spec.put t.records e).1 ∧ (put t e).2 = (Spec.put t.records e).2 := by
  have hany : (parents t.records e.ns e.author e.key).any (fun p => decide (valueLe e p))
      = t.records.any (fun p => decide (dom p e)) := by
    apply Bool.eq_iff_iff.mpr
    simp only [List.any_eq_true, decide_eq_true_eq]
    constructor
    · rintro ⟨x, hx, hv⟩
      obtain ⟨h1, h2⟩ := (mem_parents hs e x).mp hx
      exact ⟨x, h1, h2, hv⟩
    · rintro ⟨x, hx, hc, hv⟩
      exact ⟨x, (mem_parents hs e x).mpr ⟨hx, hc⟩, hv⟩
  unfold put Spec.put
  rw [hany]
  cases t.records.any (fun p => decide (dom p e)) with
  | true => simp
  | false =>
    simp only [Bool.false_eq_true, if_false, removePrefixFiltered, entryPut]
    have hf1 : t.records.filter (fun c =>
        decide (inRange3 (recAuthorPrefix e.ns e.author e.key).1 (recAuthorPrefix e.ns e.author e.key).2 (rk c))
          && decide (valueLe c e)) = t.records.filter (fun c => decide (dom e c)) :=
      List.filter_congr (fun c hc => hit_iff_dom e c he (hwf c hc))
    have hf2 : t.records.filter (fun c => !(
        decide (inRange3 (recAuthorPrefix e.ns e.author e.key).1 (recAuthorPrefix e.ns e.author e.key).2 (rk c))
          && decide (valueLe c e))) = t.records.filter (fun c => !decide (dom e c)) :=
      List.filter_congr (fun c hc => by rw [hit_iff_dom e c he (hwf c hc)])
    rw [hf1, hf2]
    exact ⟨rfl, rfl⟩

end Tables
