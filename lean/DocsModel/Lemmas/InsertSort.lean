import DocsModel.Model.QuerySpec
import DocsModel.Lemmas.SortedExt
/-! The specification's insertion sort returns the unique sorted arrangement. -/

namespace QuerySpec

theorem mem_insertBy (lt : Entry → Entry → Bool) (e x : Entry) (l : List Entry) :
    x ∈ insertBy lt e l ↔ x = e ∨ x ∈ l := by
  induction l with
  | nil => simp [insertBy]
  | cons y ys ih =>
    unfold insertBy
    split
    · simp
    · simp only [List.mem_cons, ih]
      constructor
      · rintro (h | h | h)
        · exact Or.inr (Or.inl h)
        · exact Or.inl h
        · exact Or.inr (Or.inr h)
      · rintro (h | h | h)
        · exact Or.inr (Or.inl h)
        · exact Or.inl h
        · exact Or.inr (Or.inr h)

theorem mem_sortBy (lt : Entry → Entry → Bool) (x : Entry) (l : List Entry) : x ∈ sortBy lt l ↔ x ∈ l := by
  induction l with
  | nil => simp [sortBy]
  | cons y ys ih =>
    show x ∈ insertBy lt y (sortBy lt ys) ↔ _
    rw [mem_insertBy, ih]; simp

theorem pairwise_insertBy (lt : Entry → Entry → Bool)
    (trans : ∀ a b c, lt a b = true → lt b c = true → lt a c = true)
    (e : Entry) (l : List Entry) (hs : l.Pairwise (fun a b => lt a b = true))
    (htot : ∀ x ∈ l, lt e x = true ∨ lt x e = true) :
    (insertBy lt e l).Pairwise (fun a b => lt a b = true) := by
  induction l with
  | nil => simp [insertBy]
  | cons y ys ih =>
    have hy := List.pairwise_cons.mp hs
    unfold insertBy
    by_cases h : lt e y = true
    · simp only [h, if_true]
      refine List.pairwise_cons.mpr ⟨?_, hs⟩
      intro z hz
      rcases List.mem_cons.mp hz with hz | hz
      · rw [hz]; exact h
      · exact trans _ _ _ h (hy.1 z hz)
    · simp only [h, Bool.false_eq_true, if_false]
      refine List.pairwise_cons.mpr ⟨?_, ih hy.2 (fun x hx => htot x (List.mem_cons_of_mem _ hx))⟩
      intro z hz
      rcases (mem_insertBy lt e z ys).mp hz with hz | hz
      · rw [hz]
        exact (htot y List.mem_cons_self).resolve_left h
      · exact hy.1 z hz

theorem pairwise_sortBy (lt : Entry → Entry → Bool)
    (trans : ∀ a b c, lt a b = true → lt b c = true → lt a c = true)
    (l : List Entry) (hnd : l.Nodup)
    (htot : ∀ x ∈ l, ∀ y ∈ l, x ≠ y → lt x y = true ∨ lt y x = true) :
    (sortBy lt l).Pairwise (fun a b => lt a b = true) := by
  induction l with
  | nil => simp [sortBy]
  | cons y ys ih =>
    have hy := List.nodup_cons.mp hnd
    show (insertBy lt y (sortBy lt ys)).Pairwise _
    apply pairwise_insertBy lt trans y _ (ih hy.2 (fun a ha b hb => htot a (List.mem_cons_of_mem _ ha) b (List.mem_cons_of_mem _ hb)))
    intro x hx
    have hx' := (mem_sortBy lt x ys).mp hx
    exact htot y List.mem_cons_self x (List.mem_cons_of_mem _ hx') (fun h => hy.1 (h ▸ hx'))

/-- a sorted list with the same elements is what the insertion sort returns -/
theorem sortBy_unique (lt : Entry → Entry → Bool) (irrefl : ∀ a, lt a a = false)
    (trans : ∀ a b c, lt a b = true → lt b c = true → lt a c = true)
    (l : List Entry) (hnd : l.Nodup)
    (htot : ∀ x ∈ l, ∀ y ∈ l, x ≠ y → lt x y = true ∨ lt y x = true)
    (s : List Entry) (hs : s.Pairwise (fun a b => lt a b = true)) (hmem : ∀ x, x ∈ s ↔ x ∈ l) :
    sortBy lt l = s := by
  apply pairwise_ext (fun a b => lt a b = true) (fun a h => by rw [irrefl a] at h; cases h) trans _ _
    (pairwise_sortBy lt trans l hnd htot) hs
  intro x
  rw [mem_sortBy, hmem]

end QuerySpec
