/-! Two lists that are strictly sorted by the same order and have the same elements are equal. -/

theorem pairwise_ext {α : Type} (lt : α → α → Prop) (irrefl : ∀ a, ¬ lt a a)
    (trans : ∀ a b c, lt a b → lt b c → lt a c) :
    ∀ (l₁ l₂ : List α), l₁.Pairwise lt → l₂.Pairwise lt → (∀ x, x ∈ l₁ ↔ x ∈ l₂) → l₁ = l₂ := by
  intro l₁
  induction l₁ with
  | nil =>
    intro l₂ _ _ h
    cases l₂ with
    | nil => rfl
    | cons b bs => exact absurd ((h b).mpr List.mem_cons_self) (by simp)
  | cons a as ih =>
    intro l₂ h₁ h₂ h
    cases l₂ with
    | nil => exact absurd ((h a).mp List.mem_cons_self) (by simp)
    | cons b bs =>
      have ha := List.pairwise_cons.mp h₁
      have hb := List.pairwise_cons.mp h₂
      have hab : a = b := by
        rcases List.mem_cons.mp ((h a).mp List.mem_cons_self) with h1 | h1
        · exact h1
        · rcases List.mem_cons.mp ((h b).mpr List.mem_cons_self) with h2 | h2
          · exact h2.symm
          · exact absurd (trans _ _ _ (hb.1 a h1) (ha.1 b h2)) (irrefl b)
      subst hab
      congr 1
      apply ih bs ha.2 hb.2
      intro x
      constructor
      · intro hx
        rcases List.mem_cons.mp ((h x).mp (List.mem_cons_of_mem _ hx)) with h1 | h1
        · subst h1; exact absurd (ha.1 x hx) (irrefl x)
        · exact h1
      · intro hx
        rcases List.mem_cons.mp ((h x).mpr (List.mem_cons_of_mem _ hx)) with h1 | h1
        · subst h1; exact absurd (hb.1 x hx) (irrefl x)
        · exact h1
