import DocsModel.Lemmas.Sorted
/-! The invariant that `put` maintains between a store and the collection of entries offered so far. -/

namespace Spec
open Entry

/-- `s` is an antichain of `O` under `dom` that dominates all of `O`, kept sorted by id. -/
structure PutInv (s : Store) (O : List Entry) : Prop where
  sub : ∀ x ∈ s, x ∈ O
  anti : ∀ x ∈ s, ∀ y ∈ s, dom x y → x = y
  cover : ∀ p ∈ O, ∃ m ∈ s, dom m p
  sorted : SortedById s

theorem putInv_nil : PutInv [] [] :=
  ⟨by simp, by simp, by simp, List.Pairwise.nil⟩

theorem put_blocked {s : Store} {e : Entry} (h : ∃ p ∈ s, dom p e) : put s e = (s, .notInserted) := by
  unfold put
  have : s.any (fun p => decide (dom p e)) = true := by
    obtain ⟨p, hp, hd⟩ := h
    exact List.any_eq_true.mpr ⟨p, hp, by simpa using hd⟩
  simp [this]

theorem put_free {s : Store} {e : Entry} (h : ¬ ∃ p ∈ s, dom p e) :
    put s e = (insertSorted e (s.filter (fun c => !decide (dom e c))),
               .inserted (s.filter (fun c => decide (dom e c))).length) := by
  unfold put
  have : s.any (fun p => decide (dom p e)) = false := by
    apply Bool.eq_false_iff.mpr
    intro h'
    obtain ⟨p, hp, hd⟩ := List.any_eq_true.mp h'
    exact h ⟨p, hp, by simpa using hd⟩
  simp [this]

theorem sorted_filter {s : Store} (hs : SortedById s) (f : Entry → Bool) : SortedById (s.filter f) :=
  List.Pairwise.sublist List.filter_sublist hs

/-- membership in the store after an accepted `put` -/
theorem mem_put_free {s : Store} {e : Entry} (hs : SortedById s) (h : ¬ ∃ p ∈ s, dom p e) (x : Entry) :
    x ∈ (put s e).1 ↔ x = e ∨ (x ∈ s ∧ ¬ dom e x) := by
  rw [put_free h]
  simp only
  rw [mem_insertSorted (sorted_filter hs _)]
  constructor
  · rintro (hx | ⟨hx, _⟩)
    · exact Or.inl hx
    · have := List.mem_filter.mp hx
      exact Or.inr ⟨this.1, by simpa using this.2⟩
  · rintro (hx | ⟨hx, hd⟩)
    · exact Or.inl hx
    · refine Or.inr ⟨List.mem_filter.mpr ⟨hx, by simpa using hd⟩, fun hsame => ?_⟩
      -- an entry with e's id that is kept would have blocked e
      have hcov : covers x e := ⟨hsame.1, hsame.2.1, hsame.2.2 ▸ List.prefix_refl _⟩
      have hcov' : covers e x := ⟨hsame.1.symm, hsame.2.1.symm, hsame.2.2 ▸ List.prefix_refl _⟩
      rcases valueLe_total e x with hv | hv
      · exact h ⟨x, hx, hcov, hv⟩
      · exact hd ⟨hcov', hv⟩

theorem putInv_step {s : Store} {O : List Entry} (inv : PutInv s O) (e : Entry) :
    PutInv (put s e).1 (e :: O) := by
  by_cases h : ∃ p ∈ s, dom p e
  · rw [put_blocked h]
    refine ⟨fun x hx => List.mem_cons_of_mem _ (inv.sub x hx), inv.anti, ?_, inv.sorted⟩
    intro p hp
    rcases List.mem_cons.mp hp with hp | hp
    · subst hp; exact h
    · exact inv.cover p hp
  · have hmem := mem_put_free inv.sorted h
    refine ⟨?_, ?_, ?_, ?_⟩
    · intro x hx
      rcases (hmem x).mp hx with hx | ⟨hx, _⟩
      · subst hx; exact List.mem_cons_self
      · exact List.mem_cons_of_mem _ (inv.sub x hx)
    · intro x hx y hy hd
      rcases (hmem x).mp hx with hx1 | ⟨hx1, hx2⟩ <;> rcases (hmem y).mp hy with hy1 | ⟨hy1, hy2⟩
      · rw [hx1, hy1]
      · rw [hx1] at hd; exact absurd hd hy2
      · rw [hy1] at hd; exact absurd ⟨x, hx1, hd⟩ h
      · exact inv.anti x hx1 y hy1 hd
    · intro p hp
      rcases List.mem_cons.mp hp with hp | hp
      · subst hp; exact ⟨p, (hmem p).mpr (Or.inl rfl), dom_refl p⟩
      · obtain ⟨m, hm, hd⟩ := inv.cover p hp
        by_cases hem : dom e m
        · exact ⟨e, (hmem e).mpr (Or.inl rfl), dom_trans hem hd⟩
        · exact ⟨m, (hmem m).mpr (Or.inr ⟨hm, hem⟩), hd⟩
    · rw [put_free h]
      exact sorted_insertSorted (sorted_filter inv.sorted _)

theorem putInv_run {s : Store} {O : List Entry} (inv : PutInv s O) (offers : List Entry) :
    PutInv (run s offers) (offers.reverse ++ O) := by
  induction offers generalizing s O with
  | nil => simpa [run] using inv
  | cons e es ih =>
    have := ih (putInv_step inv e)
    simpa [run, List.reverse_cons, List.append_assoc] using this

end Spec
