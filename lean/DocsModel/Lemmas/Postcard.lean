import DocsModel.Model.Postcard
/-! Round trip of the postcard varint (u64) and byte-string primitives. -/

namespace Postcard

theorem ofNat_toNat_lt (n : Nat) (h : n < 256) : (UInt8.ofNat n).toNat = n := by
  simp [UInt8.toNat_ofNat']
  omega

theorem recombine (n P : Nat) : (n % 128) * P + (n / 128) * (P * 128) = n * P := by
  have h : n = n % 128 + 128 * (n / 128) := (Nat.mod_add_div n 128).symm
  calc (n % 128) * P + (n / 128) * (P * 128)
      = (n % 128) * P + (128 * (n / 128)) * P := by
        rw [Nat.mul_comm P 128, ← Nat.mul_assoc, Nat.mul_comm (n / 128) 128]
    _ = (n % 128 + 128 * (n / 128)) * P := (Nat.add_mul _ _ _).symm
    _ = n * P := by rw [← h]

theorem decVarintAux_enc (fuelE : Nat) : ∀ (fuelD i acc n : Nat) (rest : Bytes),
    i + fuelD = 10 → i ≤ 9 → n < 2 ^ (64 - 7 * i) → n < 2 ^ (7 * (fuelE + 1)) →
    decVarintAux fuelD i acc (encVarintAux fuelE n ++ rest) = some (acc + n * 2 ^ (7 * i), rest) := by
  have single : ∀ (fuelD i acc n : Nat) (rest : Bytes), i + fuelD = 10 → i ≤ 9 → n < 2 ^ (64 - 7 * i) → n < 128 →
      decVarintAux fuelD i acc ([UInt8.ofNat n] ++ rest) = some (acc + n * 2 ^ (7 * i), rest) := by
    intro fuelD i acc n rest hi hi9 hn hlt
    cases fuelD with
    | zero => omega
    | succ fuelD =>
      simp only [List.singleton_append, decVarintAux]
      have hb : (UInt8.ofNat n).toNat = n := ofNat_toNat_lt n (by omega)
      rw [hb]
      have hmod : n % 128 = n := Nat.mod_eq_of_lt hlt
      simp only [hlt, if_true, hmod]
      have : ¬ (i = 9 ∧ n > 1) := by
        rintro ⟨h9, h1⟩
        subst h9
        simp at hn
        omega
      simp [this]
  induction fuelE with
  | zero =>
    intro fuelD i acc n rest hi hi9 hn hsmall
    exact single fuelD i acc n rest hi hi9 hn (by simpa using hsmall)
  | succ fuelE ih =>
    intro fuelD i acc n rest hi hi9 hn hsmall
    unfold encVarintAux
    by_cases hlt : n < 128
    · simp only [hlt, if_true]
      exact single fuelD i acc n rest hi hi9 hn hlt
    · simp only [hlt, if_false, List.cons_append]
      cases fuelD with
      | zero => omega
      | succ fuelD =>
        simp only [decVarintAux]
        have hb : (UInt8.ofNat (n % 128 + 128)).toNat = n % 128 + 128 :=
          ofNat_toNat_lt _ (by have := Nat.mod_lt n (by decide : 128 > 0); omega)
        rw [hb]
        have hnlt : ¬ (n % 128 + 128 < 128) := by omega
        simp only [hnlt, if_false]
        have hmod : (n % 128 + 128) % 128 = n % 128 := by omega
        rw [hmod]
        have hi8 : i ≤ 8 := by
          by_cases h : i = 9
          · subst h; simp at hn; omega
          · omega
        have hdiv : n / 128 < 2 ^ (64 - 7 * (i + 1)) := by
          apply (Nat.div_lt_iff_lt_mul (by decide : 0 < 128)).mpr
          have : 2 ^ (64 - 7 * i) = 2 ^ (64 - 7 * (i + 1)) * 128 := by
            have : 64 - 7 * i = (64 - 7 * (i + 1)) + 7 := by omega
            rw [this, Nat.pow_add]
          rw [← this]; exact hn
        have hdiv2 : n / 128 < 2 ^ (7 * (fuelE + 1)) := by
          apply (Nat.div_lt_iff_lt_mul (by decide : 0 < 128)).mpr
          have : 2 ^ (7 * (fuelE + 1 + 1)) = 2 ^ (7 * (fuelE + 1)) * 128 := by
            have : 7 * (fuelE + 1 + 1) = 7 * (fuelE + 1) + 7 := by omega
            rw [this, Nat.pow_add]
          rw [← this]; exact hsmall
        rw [ih fuelD (i + 1) _ (n / 128) rest (by omega) (by omega) hdiv hdiv2]
        congr 2
        rw [Nat.mul_add 7 i 1, Nat.pow_add, Nat.add_assoc]
        congr 1
        exact recombine n (2 ^ (7 * i))

/-- **varint round trip**: decoding the encoding of a `u64`, followed by anything, gives the value
back and leaves the rest -/
theorem decVarint_encVarint (n : Nat) (rest : Bytes) (h : n < 2 ^ 64) :
    decVarint (encVarint n ++ rest) = some (n, rest) := by
  have h70 : n < 2 ^ (7 * (9 + 1)) := Nat.lt_of_lt_of_le h (by decide)
  have := decVarintAux_enc 9 10 0 0 n rest (by omega) (by omega) (by simpa using h) h70
  simpa [decVarint, encVarint] using this

theorem takeN_append (a rest : Bytes) : takeN a.length (a ++ rest) = some (a, rest) := by
  simp [takeN]

/-- byte strings (length prefix + bytes) round trip -/
theorem decBytes_encBytes (b rest : Bytes) (h : b.length < 2 ^ 64) :
    decBytes (encBytes b ++ rest) = some (b, rest) := by
  unfold decBytes encBytes
  rw [List.append_assoc, decVarint_encVarint _ _ h]
  simp [takeN_append]

/-- over-long encodings are accepted: `0x80 0x00` also decodes to 0 -/
example : decVarint [0x80, 0x00, 7] = some (0, [7]) := by decide
/-- the tenth byte may only carry one bit -/
example : decVarint [255,255,255,255,255,255,255,255,255,2] = none := by decide
example : decVarint [255,255,255,255,255,255,255,255,255,1] = some (2 ^ 64 - 1, []) := by decide

end Postcard
