import DocsModel.Lemmas.Order
/-! Facts about the id order and `insertSorted`. -/

namespace Entry

theorem idLt_irrefl (a : Entry) : ¬ idLt a a := by
  unfold idLt
  intro h
  rcases h with h | ⟨_, h | ⟨_, h⟩⟩ <;> exact List.lt_irrefl _ h

theorem idLt_trans {a b c : Entry} (h1 : idLt a b) (h2 : idLt b c) : idLt a c := by
  unfold idLt at *
  rcases h1 with h1 | ⟨e1, h1 | ⟨e1', h1⟩⟩ <;> rcases h2 with h2 | ⟨e2, h2 | ⟨e2', h2⟩⟩
  · exact Or.inl (List.lt_trans h1 h2)
  · exact Or.inl (e2 ▸ h1)
  · exact Or.inl (e2 ▸ h1)
  · exact Or.inl (e1 ▸ h2)
  · exact Or.inr ⟨e1.trans e2, Or.inl (List.lt_trans h1 h2)⟩
  · exact Or.inr ⟨e1.trans e2, Or.inl (e2' ▸ h1)⟩
  · exact Or.inl (e1 ▸ h2)
  · exact Or.inr ⟨e1.trans e2, Or.inl (e1' ▸ h2)⟩
  · exact Or.inr ⟨e1.trans e2, Or.inr ⟨e1'.trans e2', List.lt_trans h1 h2⟩⟩

private theorem bytes_trichotomy (a b : Bytes) : a < b ∨ a = b ∨ b < a := by
  by_cases h1 : a < b
  · exact Or.inl h1
  · by_cases h2 : b < a
    · exact Or.inr (Or.inr h2)
    · exact Or.inr (Or.inl (List.le_antisymm (List.not_lt.mp h2) (List.not_lt.mp h1)))

theorem idLt_trichotomy (a b : Entry) : idLt a b ∨ sameId a b ∨ idLt b a := by
  unfold idLt sameId
  rcases bytes_trichotomy a.ns b.ns with h | h | h
  · exact Or.inl (Or.inl h)
  · rcases bytes_trichotomy a.author b.author with h' | h' | h'
    · exact Or.inl (Or.inr ⟨h, Or.inl h'⟩)
    · rcases bytes_trichotomy a.key b.key with h'' | h'' | h''
      · exact Or.inl (Or.inr ⟨h, Or.inr ⟨h', h''⟩⟩)
      · exact Or.inr (Or.inl ⟨h, h', h''⟩)
      · exact Or.inr (Or.inr (Or.inr ⟨h.symm, Or.inr ⟨h'.symm, h''⟩⟩))
    · exact Or.inr (Or.inr (Or.inr ⟨h.symm, Or.inl h'⟩))
  · exact Or.inr (Or.inr (Or.inl h))

theorem sameId_of_not_idLt {a b : Entry} (h1 : ¬ idLt a b) (h2 : ¬ idLt b a) : sameId a b := by
  rcases idLt_trichotomy a b with h | h | h
  · exact absurd h h1
  · exact h
  · exact absurd h h2

theorem not_idLt_of_sameId {a b : Entry} (h : sameId a b) : ¬ idLt a b := by
  obtain ⟨h1, h2, h3⟩ := h
  unfold idLt
  rw [h1, h2, h3]
  intro h
  rcases h with h | ⟨_, h | ⟨_, h⟩⟩ <;> exact List.lt_irrefl _ h

theorem sameId_symm {a b : Entry} (h : sameId a b) : sameId b a := ⟨h.1.symm, h.2.1.symm, h.2.2.symm⟩

theorem idLt_of_sameId_left {a b c : Entry} (h : sameId a b) (h' : idLt a c) : idLt b c := by
  obtain ⟨h1, h2, h3⟩ := h
  unfold idLt at *
  rw [← h1, ← h2, ← h3]; exact h'

theorem idLt_of_sameId_right {a b c : Entry} (h : sameId a b) (h' : idLt c a) : idLt c b := by
  obtain ⟨h1, h2, h3⟩ := h
  unfold idLt at *
  rw [← h1, ← h2, ← h3]; exact h'

end Entry

namespace Spec
open Entry

/-- strictly sorted by `(namespace, author, key)`: at most one entry per id -/
def SortedById (s : Store) : Prop := s.Pairwise idLt

theorem mem_insertSorted {e : Entry} {s : Store} (hs : SortedById s) (x : Entry) :
    x ∈ insertSorted e s ↔ x = e ∨ (x ∈ s ∧ ¬ sameId x e) := by
  induction s with
  | nil => simp [insertSorted]
  | cons y ys ih =>
    have hys : SortedById ys := (List.pairwise_cons.mp hs).2
    have hy : ∀ z ∈ ys, idLt y z := (List.pairwise_cons.mp hs).1
    unfold insertSorted
    by_cases h1 : idLt e y
    · simp only [h1, if_true, List.mem_cons]
      constructor
      · rintro (h | h | h)
        · exact Or.inl h
        · refine Or.inr ⟨Or.inl h, fun hs' => ?_⟩
          subst h
          exact not_idLt_of_sameId (sameId_symm hs') h1
        · refine Or.inr ⟨Or.inr h, fun hs' => ?_⟩
          exact not_idLt_of_sameId (sameId_symm hs') (idLt_trans h1 (hy x h))
      · rintro (h | ⟨h | h, _⟩)
        · exact Or.inl h
        · exact Or.inr (Or.inl h)
        · exact Or.inr (Or.inr h)
    · by_cases h2 : idLt y e
      · simp only [h1, h2, if_true, if_false, List.mem_cons, ih hys]
        constructor
        · rintro (h | h | ⟨h, h'⟩)
          · refine Or.inr ⟨Or.inl h, fun hs' => ?_⟩
            subst h
            exact not_idLt_of_sameId hs' h2
          · exact Or.inl h
          · exact Or.inr ⟨Or.inr h, h'⟩
        · rintro (h | ⟨h | h, h'⟩)
          · exact Or.inr (Or.inl h)
          · exact Or.inl h
          · exact Or.inr (Or.inr ⟨h, h'⟩)
      · simp only [h1, h2, if_false, List.mem_cons]
        have hsame : sameId y e := sameId_of_not_idLt h2 h1
        constructor
        · rintro (h | h)
          · exact Or.inl h
          · refine Or.inr ⟨Or.inr h, fun hs' => ?_⟩
            exact not_idLt_of_sameId (sameId_symm hs') (idLt_of_sameId_left hsame (hy x h))
        · rintro (h | ⟨h | h, h'⟩)
          · exact Or.inl h
          · subst h; exact absurd hsame h'
          · exact Or.inr h

theorem sorted_insertSorted {e : Entry} {s : Store} (hs : SortedById s) :
    SortedById (insertSorted e s) := by
  induction s with
  | nil => simp [insertSorted, SortedById]
  | cons y ys ih =>
    have hys : SortedById ys := (List.pairwise_cons.mp hs).2
    have hy : ∀ z ∈ ys, idLt y z := (List.pairwise_cons.mp hs).1
    unfold insertSorted
    by_cases h1 : idLt e y
    · simp only [h1, if_true]
      refine List.pairwise_cons.mpr ⟨?_, hs⟩
      intro z hz
      rcases List.mem_cons.mp hz with h | h
      · subst h; exact h1
      · exact idLt_trans h1 (hy z h)
    · by_cases h2 : idLt y e
      · simp only [h1, h2, if_true, if_false]
        refine List.pairwise_cons.mpr ⟨?_, ih hys⟩
        intro z hz
        rcases (mem_insertSorted hys z).mp hz with h | ⟨h, _⟩
        · subst h; exact h2
        · exact hy z h
      · simp only [h1, h2, if_false]
        have hsame : sameId y e := sameId_of_not_idLt h2 h1
        refine List.pairwise_cons.mpr ⟨?_, hys⟩
        intro z hz
        exact idLt_of_sameId_left hsame (hy z hz)

/-- two strictly sorted stores with the same elements are equal -/
theorem sorted_ext {s t : Store} (hs : SortedById s) (ht : SortedById t)
    (h : ∀ x, x ∈ s ↔ x ∈ t) : s = t := by
  induction s generalizing t with
  | nil =>
    cases t with
    | nil => rfl
    | cons y ys => exact absurd ((h y).mpr (List.mem_cons_self)) (by simp)
  | cons x xs ih =>
    cases t with
    | nil => exact absurd ((h x).mp (List.mem_cons_self)) (by simp)
    | cons y ys =>
      have hx := List.pairwise_cons.mp hs
      have hy := List.pairwise_cons.mp ht
      have hxy : x = y := by
        rcases List.mem_cons.mp ((h x).mp List.mem_cons_self) with h1 | h1
        · exact h1
        · rcases List.mem_cons.mp ((h y).mpr List.mem_cons_self) with h2 | h2
          · exact h2.symm
          · exact absurd (idLt_trans (hx.1 y h2) (hy.1 x h1)) (idLt_irrefl x)
      subst hxy
      congr 1
      apply ih hx.2 hy.2
      intro z
      constructor
      · intro hz
        rcases List.mem_cons.mp ((h z).mp (List.mem_cons_of_mem _ hz)) with h1 | h1
        · subst h1; exact absurd (hx.1 z hz) (idLt_irrefl z)
        · exact h1
      · intro hz
        rcases List.mem_cons.mp ((h z).mpr (List.mem_cons_of_mem _ hz)) with h1 | h1
        · subst h1; exact absurd (hy.1 z hz) (idLt_irrefl z)
        · exact h1

end Spec
