import DocsModel.Lemmas.Postcard
import DocsModel.Model.Codec
/-!
# C09 — wire and storage encodings round-trip; framing is robust to chunking and truncation

Model: `Codec.encFrame` / `decodeOne` / `feedChunks` (`SyncCodec`, `FramedRead`), the postcard
layout of `ProtocolMessage`, `SignedEntry` and the frame `Message`.
"Never a panic on arbitrary bytes" is a statement about Rust code (including third-party
`Deserialize` impls): the Lean decoders are total by construction, so that part is carried by the
differential fuzz stream of the harness only.
-/

namespace Codec
open Postcard

/-! ### well-formed values (what the crate's types can hold) -/

def WfId (id : Bytes) : Prop := 64 ≤ id.length ∧ id.length < 2 ^ 64

structure WfEntry (e : WEntry) : Prop where
  au : e.auSig.length = 64
  ns : e.nsSig.length = 64
  id : WfId e.id
  len : e.len < 2 ^ 64
  hash : e.hash.length = 32
  ts : e.ts < 2 ^ 64

def WfValue (v : WEntry × Nat) : Prop := WfEntry v.1 ∧ v.2 ≤ 2

def WfPart : WPart → Prop
  | .fp x y fp => WfId x ∧ WfId y ∧ fp.length = 32
  | .item x y vs _ => WfId x ∧ WfId y ∧ (∀ v ∈ vs, WfValue v) ∧ vs.length < 2 ^ 64

def WfMsg (m : WMsg) : Prop := (∀ p ∈ m, WfPart p) ∧ m.length < 2 ^ 64

def WfFrame : Frame → Prop
  | .init ns m => ns.length = 32 ∧ WfMsg m
  | .sync m => WfMsg m
  | .abort r => r ≤ 2

/-! ### primitives -/

theorem encVarint_small (t : Nat) (h : t < 128) : encVarint t = [UInt8.ofNat t] := by
  unfold encVarint encVarintAux; simp [h]

theorem decTag_small (t : Nat) (h : t < 128) (rest : Bytes) : decTag (encVarint t ++ rest) = some (t, rest) := by
  rw [encVarint_small t h]
  have hb : (UInt8.ofNat t).toNat = t := ofNat_toNat_lt t (by omega)
  simp [decTag, decVarint32Aux, hb, h, Nat.mod_eq_of_lt h]

theorem takeN_append' (n : Nat) (a rest : Bytes) (h : a.length = n) : takeN n (a ++ rest) = some (a, rest) := by
  subst h; exact takeN_append a rest

theorem decId_enc (id rest : Bytes) (h : WfId id) : decId (encBytes id ++ rest) = some (id, rest) := by
  unfold decId
  rw [decBytes_encBytes id rest h.2]
  have : ¬ id.length < 64 := by have := h.1; omega
  simp [this]

theorem encVarint_length_pos (n : Nat) : 1 ≤ (encVarint n).length := by
  unfold encVarint encVarintAux; split <;> simp

/-- generic list round trip -/
theorem decList_enc {α : Type} (enc : α → Bytes) (dec : Bytes → Option (α × Bytes)) (l : List α)
    (h : ∀ x ∈ l, ∀ rest, dec (enc x ++ rest) = some (x, rest)) (rest : Bytes) :
    decList dec l.length (l.flatMap enc ++ rest) = some (l, rest) := by
  induction l with
  | nil => simp [decList]
  | cons x xs ih =>
    simp only [List.length_cons, decList, List.flatMap_cons, List.append_assoc]
    rw [h x List.mem_cons_self]
    simp only [Option.bind_eq_bind, Option.bind_some]
    rw [ih (fun y hy => h y (List.mem_cons_of_mem _ hy))]
    simp

theorem length_le_flatMap {α : Type} (enc : α → Bytes) (l : List α) (h : ∀ x ∈ l, 1 ≤ (enc x).length) :
    l.length ≤ (l.flatMap enc).length := by
  induction l with
  | nil => simp
  | cons x xs ih =>
    have := h x List.mem_cons_self
    have := ih (fun y hy => h y (List.mem_cons_of_mem _ hy))
    simp only [List.length_cons, List.flatMap_cons, List.length_append]
    omega

/-! ### entries, values, parts, messages -/

/-- **Signed entries round-trip** (with anything following them) -/
theorem decEntry_encEntry (e : WEntry) (h : WfEntry e) (rest : Bytes) :
    decEntry (encEntry e ++ rest) = some (e, rest) := by
  unfold decEntry encEntry
  simp only [List.append_assoc]
  rw [takeN_append' 64 _ _ h.au]
  simp only [Option.bind_eq_bind, Option.bind_some]
  rw [takeN_append' 64 _ _ h.ns]
  simp only [Option.bind_some]
  rw [decId_enc _ _ h.id]
  simp only [Option.bind_some]
  rw [decVarint_encVarint _ _ h.len]
  simp only [Option.bind_some]
  rw [takeN_append' 32 _ _ h.hash]
  simp only [Option.bind_some]
  rw [decVarint_encVarint _ _ h.ts]
  simp

theorem decValue_encValue (v : WEntry × Nat) (h : WfValue v) (rest : Bytes) :
    decValue (encValue v ++ rest) = some (v, rest) := by
  unfold decValue encValue
  rw [List.append_assoc, decEntry_encEntry v.1 h.1]
  simp only [Option.bind_eq_bind, Option.bind_some]
  rw [decTag_small v.2 (by have := h.2; omega)]
  have : ¬ v.2 > 2 := by have := h.2; omega
  simp [this]

theorem encValue_length_pos (v : WEntry × Nat) : 1 ≤ (encValue v).length := by
  unfold encValue
  have := encVarint_length_pos v.2
  simp only [List.length_append]
  omega

theorem decBool_enc (b : Bool) (rest : Bytes) : decBool ((if b then (1 : UInt8) else 0) :: rest) = some (b, rest) := by
  cases b <;> simp [decBool]

theorem decPart_encPart (p : WPart) (h : WfPart p) (rest : Bytes) :
    decPart (encPart p ++ rest) = some (p, rest) := by
  cases p with
  | fp x y fp =>
    obtain ⟨hx, hy, hf⟩ := h
    unfold decPart encPart
    simp only [List.append_assoc]
    rw [decTag_small 0 (by omega)]
    simp only [Option.bind_eq_bind, Option.bind_some, if_true]
    rw [decId_enc _ _ hx]
    simp only [Option.bind_some]
    rw [decId_enc _ _ hy]
    simp only [Option.bind_some]
    rw [takeN_append' 32 _ _ hf]
    simp
  | item x y vs hl =>
    obtain ⟨hx, hy, hv, hn⟩ := h
    unfold decPart encPart
    simp only [List.append_assoc]
    rw [decTag_small 1 (by omega)]
    simp only [Option.bind_eq_bind, Option.bind_some, Nat.succ_ne_self, if_false, if_true, Nat.one_ne_zero]
    rw [decId_enc _ _ hx]
    simp only [Option.bind_some]
    rw [decId_enc _ _ hy]
    simp only [Option.bind_some]
    rw [decVarint_encVarint _ _ hn]
    simp only [Option.bind_some]
    have hlen : ¬ vs.length > (vs.flatMap encValue ++ ([if hl then (1 : UInt8) else 0] ++ rest)).length := by
      have := length_le_flatMap encValue vs (fun v _ => encValue_length_pos v)
      simp only [List.length_append]
      omega
    simp only [hlen, if_false]
    rw [decList_enc encValue decValue vs (fun v hvm r => decValue_encValue v (hv v hvm) r)]
    simp only [Option.bind_some, List.singleton_append]
    rw [decBool_enc]
    simp

theorem encPart_length_pos (p : WPart) : 1 ≤ (encPart p).length := by
  cases p <;> simp only [encPart, List.length_append] <;> have := encVarint_length_pos 0 <;>
    have := encVarint_length_pos 1 <;> omega

/-- **Protocol messages round-trip** -/
theorem decMsg_encMsg (m : WMsg) (h : WfMsg m) (rest : Bytes) :
    decMsg (encMsg m ++ rest) = some (m, rest) := by
  unfold decMsg encMsg
  rw [List.append_assoc, decVarint_encVarint _ _ h.2]
  simp only [Option.bind_eq_bind, Option.bind_some]
  have hlen : ¬ m.length > (m.flatMap encPart ++ rest).length := by
    have := length_le_flatMap encPart m (fun p _ => encPart_length_pos p)
    simp only [List.length_append]
    omega
  simp only [hlen, if_false]
  exact decList_enc encPart decPart m (fun p hp r => decPart_encPart p (h.1 p hp) r) rest

/-- **Frame payloads round-trip**; bytes after the payload inside the frame are ignored -/
theorem decFramePayload_enc (f : Frame) (h : WfFrame f) (trailing : Bytes) :
    decFramePayload (encFramePayload f ++ trailing) = some f := by
  cases f with
  | init ns m =>
    obtain ⟨hns, hm⟩ := h
    unfold decFramePayload encFramePayload
    simp only [List.append_assoc]
    rw [decTag_small 0 (by omega)]
    simp only [Option.bind_eq_bind, Option.bind_some, if_true]
    rw [takeN_append' 32 _ _ hns]
    simp only [Option.bind_some]
    rw [decMsg_encMsg m hm]
    simp
  | sync m =>
    unfold decFramePayload encFramePayload
    simp only [List.append_assoc]
    rw [decTag_small 1 (by omega)]
    simp only [Option.bind_eq_bind, Option.bind_some, Nat.one_ne_zero, if_false, if_true]
    rw [decMsg_encMsg m h]
    simp
  | abort r =>
    have hr : r ≤ 2 := h
    unfold decFramePayload encFramePayload
    simp only [List.append_assoc]
    rw [decTag_small 2 (by omega)]
    simp only [Option.bind_eq_bind, Option.bind_some]
    rw [decTag_small r (by omega)]
    have : ¬ r > 2 := by omega
    simp [this]

/-! ### length framing -/

theorem ofBe32_be32 (n : Nat) (h : n < 2 ^ 32) : ofBe32 (be32 n) = n := by
  unfold be32 ofBe32
  simp only [ofNat_toNat_lt _ (Nat.mod_lt _ (by decide : 256 > 0))]
  omega

theorem be32_length (n : Nat) : (be32 n).length = 4 := rfl

/-- **A complete frame decodes to itself and leaves the rest of the buffer untouched.** -/
theorem decodeOne_encFrame (f : Frame) (h : WfFrame f) (b rest : Bytes) (henc : encFrame f = some b) :
    decodeOne (b ++ rest) = .frame f rest := by
  unfold encFrame at henc
  simp only at henc
  split at henc
  · rename_i hle
    injection henc with henc
    subst henc
    have hlen32 : (encFramePayload f).length < 2 ^ 32 := by unfold maxMessageSize at hle; omega
    have hbuflen : (be32 (encFramePayload f).length ++ encFramePayload f ++ rest).length =
        4 + (encFramePayload f).length + rest.length := by simp only [List.length_append, be32_length]
    have htake : List.take 4 (be32 (encFramePayload f).length ++ encFramePayload f ++ rest) = be32 (encFramePayload f).length := by
      rw [List.append_assoc, List.take_append_of_le_length (by simp [be32_length])]
      rfl
    have hdrop : List.drop 4 (be32 (encFramePayload f).length ++ encFramePayload f ++ rest) = encFramePayload f ++ rest := by
      rw [List.append_assoc]
      have : (4 : Nat) = (be32 (encFramePayload f).length).length := rfl
      rw [this, List.drop_left]
    have hpay : List.take (encFramePayload f).length (encFramePayload f ++ rest) = encFramePayload f := by
      rw [List.take_append_of_le_length (Nat.le_refl _), List.take_length]
    have hrest : List.drop (4 + (encFramePayload f).length) (be32 (encFramePayload f).length ++ encFramePayload f ++ rest) = rest := by
      rw [← List.drop_drop, hdrop, List.drop_left]
    unfold decodeOne
    rw [htake, ofBe32_be32 _ hlen32, hbuflen]
    rw [if_neg (by omega), if_neg (by omega), if_neg (by omega), hdrop, hpay, hrest]
    have := decFramePayload_enc f h []
    simp only [List.append_nil] at this
    rw [this]
  · cases henc

/-- **A truncated frame is "need more data", never a bogus message**: every proper prefix of a
frame's encoding makes the decoder wait. -/
theorem decodeOne_truncated (f : Frame) (b : Bytes) (henc : encFrame f = some b) (k : Nat) (hk : k < b.length) :
    decodeOne (b.take k) = .needMore := by
  unfold encFrame at henc
  simp only at henc
  split at henc
  · rename_i hle
    injection henc with henc
    subst henc
    have hlen32 : (encFramePayload f).length < 2 ^ 32 := by unfold maxMessageSize at hle; omega
    have hk' : k < 4 + (encFramePayload f).length := by simpa [be32_length] using hk
    have hklen : (List.take k (be32 (encFramePayload f).length ++ encFramePayload f)).length = k := by
      simp only [List.length_take, List.length_append, be32_length]; omega
    unfold decodeOne
    rw [hklen]
    by_cases h4 : k < 4
    · rw [if_pos h4]
    · rw [if_neg h4]
      have htake : List.take 4 (List.take k (be32 (encFramePayload f).length ++ encFramePayload f)) = be32 (encFramePayload f).length := by
        rw [List.take_take, Nat.min_eq_left (by omega), List.take_append_of_le_length (by simp [be32_length])]
        rfl
      rw [htake, ofBe32_be32 _ hlen32, if_neg (by omega), if_pos hk']
  · cases henc

/-- **Oversized frames are reported as errors.** -/
theorem oversized_is_error (buf : Bytes) (h4 : 4 ≤ buf.length) (hbig : ofBe32 (buf.take 4) > maxMessageSize) :
    decodeOne buf = .error := by
  unfold decodeOne
  have : ¬ buf.length < 4 := by omega
  simp [this, hbig]

/-- fewer than four bytes are never a frame -/
theorem short_needs_more (buf : Bytes) (h : buf.length < 4) : decodeOne buf = .needMore := by
  simp [decodeOne, h]

/-! ### decoded identifiers are usable (F8) -/

theorem decId_wellformed (bs id rest : Bytes) (h : decId bs = some (id, rest)) : 64 ≤ id.length := by
  unfold decId at h
  cases hb : decBytes bs with
  | none => rw [hb] at h; cases h
  | some v =>
    obtain ⟨i, r⟩ := v
    rw [hb] at h
    simp only [Option.bind_eq_bind, Option.bind_some] at h
    split at h
    · cases h
    · simp only [pure, Option.some.injEq, Prod.mk.injEq] at h
      rw [← h.1]; omega

/-- every entry the decoder returns has an identifier with room for namespace and author: the
accessors that slice `[0..32]` and `[32..64]` are total on decoded values -/
theorem decEntry_id_wellformed (bs : Bytes) (e : WEntry) (rest : Bytes) (h : decEntry bs = some (e, rest)) :
    64 ≤ e.id.length := by
  unfold decEntry at h
  simp only [Option.bind_eq_bind] at h
  cases h1 : takeN 64 bs with
  | none => rw [h1] at h; cases h
  | some v1 =>
    rw [h1] at h
    simp only [Option.bind_some] at h
    cases h2 : takeN 64 v1.2 with
    | none => rw [h2] at h; cases h
    | some v2 =>
      rw [h2] at h
      simp only [Option.bind_some] at h
      cases h3 : decId v2.2 with
      | none => rw [h3] at h; cases h
      | some v3 =>
        rw [h3] at h
        simp only [Option.bind_some] at h
        have hid := decId_wellformed _ _ _ (show decId v2.2 = some (v3.1, v3.2) from h3)
        cases h4 : decVarint v3.2 with
        | none => rw [h4] at h; cases h
        | some v4 =>
          rw [h4] at h
          simp only [Option.bind_some] at h
          cases h5 : takeN 32 v4.2 with
          | none => rw [h5] at h; cases h
          | some v5 =>
            rw [h5] at h
            simp only [Option.bind_some] at h
            cases h6 : decVarint v5.2 with
            | none => rw [h6] at h; cases h
            | some v6 =>
              rw [h6] at h
              simp only [Option.bind_some, pure, Option.some.injEq, Prod.mk.injEq] at h
              rw [← h.1]
              exact hid

/-! ### pinned byte layouts -/

/-- the layout of the crate's `SignedEntry` snapshot (`test_signed_entry_postcard_snapshot`):
author signature ‖ namespace signature ‖ length-prefixed id (0x50 = 80 bytes) ‖ len ‖ hash ‖
timestamp `1_700_000_000_000_000` as varint `8080f9c0c1c48203` -/
example : encVarint 1700000000000000 = [0x80, 0x80, 0xf9, 0xc0, 0xc1, 0xc4, 0x82, 0x03] ∧ encVarint 80 = [0x50] ∧
    encVarint 0 = [0] := by decide

example (au ns id hash : Bytes) :
    encEntry { auSig := au, nsSig := ns, id := id, len := 0, hash := hash, ts := 1700000000000000 } =
      au ++ ns ++ (encVarint id.length ++ id) ++ [0] ++ hash ++ [0x80, 0x80, 0xf9, 0xc0, 0xc1, 0xc4, 0x82, 0x03] := by
  have h1 : encVarint 0 = [0] := by decide
  have h2 : encVarint 1700000000000000 = [0x80, 0x80, 0xf9, 0xc0, 0xc1, 0xc4, 0x82, 0x03] := by decide
  simp [encEntry, encBytes, h1, h2]

/-- non-vacuity of the round trip: an Abort frame followed by other bytes -/
example : encFrame (.abort 1) = some [0, 0, 0, 2, 2, 1] ∧
    decodeOne ([0, 0, 0, 2, 2, 1] ++ [9, 9]) = .frame (.abort 1) [9, 9] ∧
    decodeOne [0, 0, 0, 2, 2] = .needMore ∧ decodeOne [0x40, 0, 0, 1, 2] = .error := by decide

end Codec
