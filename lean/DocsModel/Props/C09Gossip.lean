import DocsModel.Props.C09
/-!
# C09 for the gossip channel

`engine/gossip.rs::receive_loop` decodes every message received over iroh-gossip with
`postcard::from_bytes::<Op>`; the bytes come from other nodes. The three message kinds round-trip
(whatever follows them in the buffer), decoding is total on arbitrary bytes (the model is a total
function: value or error), and what the loop does next is determined by the decoded message:
an entry is offered to the replica through the remote-insert path with the delivering peer as its
source (C04's "gossip Put applied through the remote-insert path"), with content status complete
exactly when the message came directly from a neighbour.
-/

namespace Codec
open Postcard

structure WfGOp (o : GOp) : Prop where
  ok : match o with
    | .put e => WfEntry e
    | .contentReady h => h.length = 32
    | .syncReport ns heads => ns.length = 32 ∧ heads.length < 2 ^ 64

/-- **Gossip messages round-trip**, with anything following them -/
theorem decGOp_encGOp (o : GOp) (h : WfGOp o) (rest : Bytes) : decGOp (encGOp o ++ rest) = some o := by
  cases o with
  | put e =>
    have he : WfEntry e := h.ok
    unfold decGOp encGOp
    rw [List.append_assoc, decTag_small 0 (by omega)]
    simp only [Option.bind_eq_bind, Option.bind_some, if_true]
    rw [decEntry_encEntry e he]
    rfl
  | contentReady hash =>
    have hh : hash.length = 32 := h.ok
    unfold decGOp encGOp
    rw [List.append_assoc, decTag_small 1 (by omega)]
    simp only [Option.bind_eq_bind, Option.bind_some]
    rw [takeN_append' 32 _ _ hh]
    rfl
  | syncReport ns heads =>
    have hh : ns.length = 32 ∧ heads.length < 2 ^ 64 := h.ok
    unfold decGOp encGOp
    rw [List.append_assoc, List.append_assoc, decTag_small 2 (by omega)]
    simp only [Option.bind_eq_bind, Option.bind_some]
    rw [takeN_append' 32 _ _ hh.1]
    simp only [Option.bind_some]
    rw [decBytes_encBytes _ _ hh.2]
    rfl

/-- a received entry goes to the replica through the remote-insert path, attributed to the peer
that delivered it; its content is taken to be available there exactly when the message came
directly from that neighbour -/
theorem gossip_put_is_remote_insert (e : WEntry) (h : WfEntry e) (from_ : Bytes) (direct : Bool) :
    gossipReceive (encGOp (.put e)) from_ direct = .insertRemote e from_ (if direct then 0 else 2) := by
  have := decGOp_encGOp (.put e) ⟨h⟩ []
  rw [List.append_nil] at this
  simp [gossipReceive, this]

theorem gossip_report_is_forwarded (ns heads from_ : Bytes) (h1 : ns.length = 32) (h2 : heads.length < 2 ^ 64) (direct : Bool) :
    gossipReceive (encGOp (.syncReport ns heads)) from_ direct = .incomingSyncReport from_ ns heads := by
  have := decGOp_encGOp (.syncReport ns heads) ⟨⟨h1, h2⟩⟩ []
  rw [List.append_nil] at this
  simp [gossipReceive, this]

/-- a decoded `Put` carries a record identifier of at least 64 bytes (the accessors of the real
type slice it at 32 and 64): hostile gossip bytes cannot produce a short one -/
theorem gossip_decoded_id_wellformed (bs : Bytes) (e : WEntry) (h : decGOp bs = some (.put e)) : 64 ≤ e.id.length := by
  unfold decGOp at h
  cases h1 : decTag bs with
  | none => rw [h1] at h; cases h
  | some v1 =>
    rw [h1] at h
    simp only [Option.bind_eq_bind, Option.bind_some] at h
    split at h
    · cases h2 : decEntry v1.2 with
      | none => rw [h2] at h; cases h
      | some v2 =>
        rw [h2] at h
        simp only [Option.bind_some, pure, Option.some.injEq, GOp.put.injEq] at h
        subst h
        exact decEntry_id_wellformed v1.2 v2.1 v2.2 (by rw [h2])
    · split at h
      · cases h2 : takeN 32 v1.2 with
        | none => rw [h2] at h; cases h
        | some v2 => rw [h2] at h; simp [pure] at h
      · split at h
        · cases h2 : takeN 32 v1.2 with
          | none => rw [h2] at h; cases h
          | some v2 =>
            rw [h2] at h
            simp only [Option.bind_some] at h
            cases h3 : decBytes v2.2 with
            | none => rw [h3] at h; cases h
            | some v3 => rw [h3] at h; simp [pure] at h
        · cases h

/-- non-vacuity: a content-ready message and a sync report, byte for byte -/
example : encGOp (.contentReady (List.replicate 32 7)) = 1 :: List.replicate 32 7 ∧
    decGOp (1 :: List.replicate 32 7 ++ [9]) = some (.contentReady (List.replicate 32 7)) ∧
    decGOp [3] = none ∧ decGOp [] = none := by decide

end Codec
