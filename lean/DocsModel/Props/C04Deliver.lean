import DocsModel.Props.C04
/-!
# C04: broadcast alone is enough where it arrives

The closing round of `closing_round_converges` is made of complete sessions. The same argument shows
what the *broadcast* achieves on its own: a replica to which every accepted local write has been
delivered (after it was written, accepted by the replica's validation) — in any order, any number of
times, interleaved with anything else — holds exactly the merge of all accepted local writes, without a
single session. Loss is the only thing sessions are needed for.
-/

namespace Swarm
open Spec

/-- an accepted delivery makes the entry known to the replica -/
theorem deliver_knows (s : S) (inv : Inv s) (j : Nat) (e : Entry) (he : e ∈ written s) :
    Knows (step s (.deliver j e true)) j e := by
  rw [step_deliver]
  simp only [he, and_self, if_true]
  unfold Knows
  simp only [upd_same]
  exact put_covers_new (inv.ok j) e

theorem knows_run (s : S) (inv : Inv s) (steps : List Step) (k : Nat) (p : Entry) (h : Knows s k p) :
    Knows (run s steps) k p := by
  induction steps generalizing s with
  | nil => exact h
  | cons σ rest ih => exact ih (step s σ) (inv_step s inv σ) (knowledge_is_monotone s inv σ k p h)

/-- entry `e` was delivered to replica `j`, accepted, at a point of the history where it had been written -/
def DeliveredTo (hist : List Step) (j : Nat) (e : Entry) : Prop :=
  ∃ pre post, hist = pre ++ Step.deliver j e true :: post ∧ e ∈ written (run {} pre)

/-- **Gossip alone converges where it arrives**: a replica that every accepted local write has reached
holds exactly the merge of all accepted local writes -/
theorem delivered_everything_converges (hist : List Step) (j : Nat)
    (hall : ∀ e ∈ written (run {} hist), DeliveredTo hist j e)
    (hpf : PayloadFunctional (written (run {} hist))) :
    ∀ x, x ∈ (run {} hist).st j ↔ x ∈ join (written (run {} hist)) := by
  apply knows_all_iff_join _ (inv_reachable hist) hpf j
  intro e he
  obtain ⟨pre, post, hh, hw⟩ := hall e he
  have hrun : run {} hist = run (step (run {} pre) (.deliver j e true)) post := by
    rw [hh]; simp [run, List.foldl_append]
  rw [hrun]
  have inv0 := inv_reachable pre
  exact knows_run _ (inv_step _ inv0 _) post j e (deliver_knows _ inv0 j e hw)

/-- two replicas that everything has reached hold the same list -/
theorem delivered_everything_equal (hist : List Step) (j k : Nat)
    (hj : ∀ e ∈ written (run {} hist), DeliveredTo hist j e)
    (hk : ∀ e ∈ written (run {} hist), DeliveredTo hist k e)
    (hpf : PayloadFunctional (written (run {} hist))) :
    (run {} hist).st j = (run {} hist).st k := by
  have inv := inv_reachable hist
  apply sorted_ext (inv.ok j).sorted (inv.ok k).sorted
  intro x
  rw [delivered_everything_converges hist j hj hpf x, delivered_everything_converges hist k hk hpf x]

/-! non-vacuity -/
def exE : Entry := { ns := [1], author := [2], key := [3], ts := 5, len := 1, hash := [4], sig := 0, nsSigOk := true, authorSigOk := true }

example : DeliveredTo [.localWrite 0 exE, .deliver 1 exE true] 1 exE :=
  ⟨[.localWrite 0 exE], [], rfl, by decide⟩

example : (run {} [.localWrite 0 exE, .deliver 1 exE true]).st 1 = [exE] := by decide

end Swarm
