import DocsModel.Model.Events
/-!
# C12 — subscribers see exactly one event per entry that actually entered the replica

Model: `Events.emit` (`Subscribers::send`), `emitIfAny` (`send_with`), `localInsert`,
`remoteInsert`, `syncProcess` (the `on_insert` callback of `sync_process_message`).
`applied` is the reference log: one event per entry that entered the table, in order.
A channel is subscribed at most once (`Nodup`): subscribing the same sender twice makes the code
send every event twice to it, which the model reproduces but the theorems exclude.
-/

namespace Events
open Spec Ranger Replica

theorem lookup_deliver_same (ib : List (Nat × List Event)) (id : Nat) (ev : Event) :
    ((deliver ib id ev).lookup id).getD [] = ((ib.lookup id).getD []) ++ [ev] := by
  simp [deliver, List.lookup]

theorem lookup_filter_ne (ib : List (Nat × List Event)) (id other : Nat) (h : other ≠ id) :
    (ib.filter (·.1 != id)).lookup other = ib.lookup other := by
  induction ib with
  | nil => rfl
  | cons x xs ih =>
    obtain ⟨k, v⟩ := x
    by_cases hk : k = id
    · have h1 : ((k, v).1 != id) = false := by simp [hk]
      have h2 : (other == k) = false := by rw [hk]; exact beq_false_of_ne h
      rw [List.filter_cons, h1]
      simp only [Bool.false_eq_true, if_false, List.lookup, h2]
      exact ih
    · have h1 : ((k, v).1 != id) = true := by simp [hk]
      rw [List.filter_cons, h1]
      simp only [if_true, List.lookup]
      cases other == k <;> simp [ih]

theorem lookup_deliver_other (ib : List (Nat × List Event)) (id other : Nat) (ev : Event) (h : other ≠ id) :
    (deliver ib id ev).lookup other = ib.lookup other := by
  have h2 : (other == id) = false := beq_false_of_ne h
  simp only [deliver, List.lookup, h2]
  exact lookup_filter_ne ib id other h

/-- delivering to a list of distinct channels: each of them gets the event once, nobody else does -/
theorem foldl_deliver (live : List Nat) (hnd : live.Nodup) (ib : List (Nat × List Event)) (ev : Event) (id : Nat) :
    ((live.foldl (fun ib id => deliver ib id ev) ib).lookup id).getD [] =
      if id ∈ live then ((ib.lookup id).getD []) ++ [ev] else (ib.lookup id).getD [] := by
  induction live generalizing ib with
  | nil => simp
  | cons x xs ih =>
    have hx := (List.nodup_cons.mp hnd)
    simp only [List.foldl_cons]
    rw [ih hx.2]
    by_cases hid : id = x
    · subst hid
      simp only [hx.1, if_false, List.mem_cons, true_or, if_true]
      exact lookup_deliver_same ib id ev
    · have : id ∈ x :: xs ↔ id ∈ xs := by simp [hid]
      simp only [this, lookup_deliver_other ib x id ev hid]

/-- **`send`**: a subscribed channel with a live receiver gets the event appended; every other
inbox is unchanged; the event is logged once. -/
theorem emit_spec (s : State) (ev : Event) (hnd : s.subs.Nodup) (id : Nat) :
    inboxOf (emit s ev) id =
      (if id ∈ s.subs ∧ id ∉ s.closed then inboxOf s id ++ [ev] else inboxOf s id) ∧
    (emit s ev).applied = s.applied ++ [ev] ∧ (emit s ev).t = s.t := by
  refine ⟨?_, rfl, rfl⟩
  unfold emit inboxOf
  simp only
  rw [foldl_deliver _ (hnd.sublist List.filter_sublist)]
  simp only [List.mem_filter, Bool.not_eq_true', List.contains_eq_mem, decide_eq_false_iff_not]

theorem emit_subs (s : State) (ev : Event) (id : Nat) :
    id ∈ (emit s ev).subs ↔ (id ∈ s.subs ∧ id ∉ s.closed) := by
  simp [emit, List.mem_filter]

theorem emit_nodup (s : State) (ev : Event) (hnd : s.subs.Nodup) : (emit s ev).subs.Nodup :=
  hnd.sublist List.filter_sublist

/-- **One event per applied entry (local path)**: an accepted local write logs exactly one
`LocalInsert` carrying the entry; a rejected one changes nothing at all. -/
theorem localInsert_one_event (s : State) (e : Entry) :
    (∀ n, (localInsert s e).2 = .inserted n →
        (localInsert s e).1.applied = s.applied ++ [{ entry := e, remote := false }]) ∧
    ((localInsert s e).2 = .notInserted → (localInsert s e).1 = s) := by
  unfold localInsert
  rcases hp : Tables.put s.t e with ⟨t', o⟩
  cases o with
  | notInserted => simp
  | inserted n => simp [emit]


/-- through the open replica a local write needs the write capability; when it has it, it behaves
as `localInsert`; otherwise nothing changes and nothing is announced -/
theorem localInsertCap_spec (s : State) (e : Entry) :
    (∀ raw, Tables.nsGet s.t e.ns = some (1, raw) → localInsertCap s e = localInsert s e) ∧
    ((∀ raw, Tables.nsGet s.t e.ns ≠ some (1, raw)) → (localInsertCap s e).1 = s) := by
  unfold localInsertCap
  constructor
  · intro raw h; simp only [h]
  · intro h
    cases hg : Tables.nsGet s.t e.ns with
    | none => rfl
    | some v =>
      obtain ⟨k, raw⟩ := v
      by_cases hk : k = 1
      · subst hk; exact absurd hg (h raw)
      · match k, hk with
        | 0, _ => rfl
        | 1, hk => exact absurd rfl hk
        | (n + 2), _ => rfl

/-- **importing a capability while the document is open leaves every subscriber subscribed**, with
its inbox and the reference log untouched -/
theorem importCap_keeps_subscribers (s : State) (ns : Bytes) (kind : Nat) (raw : Bytes) :
    (importCap s ns kind raw).subs = s.subs ∧ (importCap s ns kind raw).closed = s.closed ∧
    (importCap s ns kind raw).inbox = s.inbox ∧ (importCap s ns kind raw).applied = s.applied := by
  unfold importCap; exact ⟨rfl, rfl, rfl, rfl⟩

/-- **One event per applied entry (remote path)**, marked remote, with the providing peer, the
content status it reported, and the download flag the document's policy gives for the key; a
rejected (invalid or superseded) entry produces no event and changes nothing. -/
theorem remoteInsert_one_event (s : State) (ns : Bytes) (now : Nat) (e : Entry) (peer : Bytes) (status : Nat) :
    (∀ n, (remoteInsert s ns now e peer status).2 = .ok n →
        ∃ dl, (remoteInsert s ns now e peer status).1.applied =
          s.applied ++ [{ entry := e, remote := true, peer := peer, status := status, shouldDownload := dl }] ∧
          dl = (Tables.getDownloadPolicy (remoteInsert s ns now e peer status).1.t ns).matches e.key) ∧
    ((∀ n, (remoteInsert s ns now e peer status).2 ≠ .ok n) → (remoteInsert s ns now e peer status).1 = s) := by
  unfold remoteInsert
  rcases hp : insertRemoteEntry s.t ns now e with ⟨t', r⟩
  cases r with
  | ok n =>
    refine ⟨fun m _ => ⟨_, rfl, rfl⟩, fun h => absurd rfl (h n)⟩
  | newerEntryExists => simp
  | failed f => simp

/-- the `RemoteInsert` event of one value of a reconciliation message -/
def mkRemote (peer : Bytes) (policy : Tables.Policy) (v : Entry × Status) : Event :=
  { entry := v.1, remote := true, peer := peer, status := v.2, shouldDownload := policy.matches v.1.key }

theorem emitIfAny_applied (s0 : State) (ev : Event) : (emitIfAny s0 ev).applied = s0.applied ++ [ev] := by
  unfold emitIfAny; split <;> simp [emit]

theorem foldl_emitIfAny_applied (f : Entry × Status → Event) (l : List (Entry × Status)) (s0 : State) :
    (l.foldl (fun s v => emitIfAny s (f v)) s0).applied = s0.applied ++ l.map f := by
  induction l generalizing s0 with
  | nil => simp
  | cons v rest ih =>
    simp only [List.foldl_cons, List.map_cons]
    rw [ih, emitIfAny_applied, List.append_assoc]
    rfl

/-- the events a reconciliation message logs are exactly the entries `process_message` inserted,
in insertion order, each once, with the peer, its reported status and the policy's verdict -/
theorem syncProcess_applied (cfg : Config) (s : State) (ns : Bytes) (now : Nat) (msg : Message) (peer : Bytes)
    (o : Replica.Outcome) :
    (syncProcess cfg s ns now msg peer o).1.applied =
      s.applied ++ (syncProcess cfg s ns now msg peer o).2.1.inserted.map
        (mkRemote peer (Tables.getDownloadPolicy s.t ns)) := by
  unfold syncProcess
  simp only
  rcases hsp : syncProcessMessage cfg s.t ns now msg o with ⟨st, o'⟩
  simp only
  exact foldl_emitIfAny_applied (mkRemote peer (Tables.getDownloadPolicy s.t ns)) st.inserted { s with t := st.store }

/-- **Leaving does not affect the others**: unsubscribing or dropping one channel changes no inbox,
keeps every other channel subscribed, and the next event reaches the others exactly as before. -/
theorem others_unaffected (s : State) (gone id : Nat) (ev : Event) (hne : id ≠ gone) (hnd : s.subs.Nodup) :
    inboxOf (unsubscribe s gone) id = inboxOf s id ∧
    inboxOf (dropReceiver s gone) id = inboxOf s id ∧
    (id ∈ (unsubscribe s gone).subs ↔ id ∈ s.subs) ∧
    inboxOf (emit (unsubscribe s gone) ev) id = inboxOf (emit s ev) id ∧
    inboxOf (emit (dropReceiver s gone) ev) id = inboxOf (emit s ev) id := by
  have hnd' : (unsubscribe s gone).subs.Nodup := hnd.sublist List.filter_sublist
  refine ⟨rfl, rfl, ?_, ?_, ?_⟩
  · simp [unsubscribe, List.mem_filter, hne]
  · rw [(emit_spec _ ev hnd' id).1, (emit_spec s ev hnd id).1]
    simp [unsubscribe, List.mem_filter, hne, inboxOf]
  · rw [(emit_spec (dropReceiver s gone) ev hnd id).1, (emit_spec s ev hnd id).1]
    simp [dropReceiver, hne, inboxOf]

/-- an unsubscribed channel, and a channel whose receiver is gone, get nothing -/
theorem gone_gets_nothing (s : State) (gone : Nat) (ev : Event) (hnd : s.subs.Nodup) :
    inboxOf (emit (unsubscribe s gone) ev) gone = inboxOf s gone ∧
    inboxOf (emit (dropReceiver s gone) ev) gone = inboxOf s gone := by
  have hnd' : (unsubscribe s gone).subs.Nodup := hnd.sublist List.filter_sublist
  constructor
  · rw [(emit_spec _ ev hnd' gone).1]
    simp [unsubscribe, List.mem_filter, inboxOf]
  · rw [(emit_spec (dropReceiver s gone) ev hnd gone).1]
    simp [dropReceiver, inboxOf]

/-- non-vacuity: two subscribers, one drops its receiver; an obsoleted remote entry gives no event -/
example :
    let e1 : Entry := { ns := [1], author := [2], key := [3], ts := 20, len := 1, hash := [9] }
    let e0 : Entry := { ns := [1], author := [2], key := [3], ts := 10, len := 1, hash := [8] }
    let s0 : State := { t := (Tables.importNamespace {} [1] 1 [1]).1, subs := [7, 8] }
    let s1 := (localInsert s0 e1).1
    let s2 := (remoteInsert (dropReceiver s1 8) [1] 100 e0 [5] 2).1
    (inboxOf s1 7).length = 1 ∧ (inboxOf s1 8).length = 1 ∧ s2.applied.length = 1 := by decide

end Events
