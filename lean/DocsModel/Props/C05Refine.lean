import DocsModel.Lemmas.QueryBounds
import DocsModel.Lemmas.InsertSort
import DocsModel.Lemmas.LatestPerKey
import DocsModel.Lemmas.Reach
import DocsModel.Props.C05
/-!
# C05 — `get_many` returns exactly what the query describes

`Tables.query t ns q = QuerySpec.spec t.records ns q` for every reachable state of the tables
(`TablesInv`, plus: the by-key index is strictly sorted), every document id and every query:
flat queries in both sort orders through both index paths, latest-per-key queries, author and key
filters, empty entries, direction, offset and limit.
-/

namespace Tables
open QuerySpec Spec Entry

/-- `TablesInv` and a strictly sorted by-key index (what `k3Insert` maintains) -/
structure QInv (t : T) : Prop where
  inv : TablesInv t
  idxSorted : t.byKey.Pairwise lt3

/-! ### orders -/

def AK (a b : Entry) : Prop := a.author < b.author ∨ (a.author = b.author ∧ a.key < b.key)
def KA (a b : Entry) : Prop := a.key < b.key ∨ (a.key = b.key ∧ a.author < b.author)

theorem ltAuthorKey_iff (a b : Entry) : ltAuthorKey a b = true ↔ AK a b := by simp [ltAuthorKey, AK]
theorem ltKeyAuthor_iff (a b : Entry) : ltKeyAuthor a b = true ↔ KA a b := by simp [ltKeyAuthor, KA]

theorem AK_trans {a b c : Entry} (h1 : AK a b) (h2 : AK b c) : AK a c := by
  rcases h1 with h1 | ⟨e1, k1⟩ <;> rcases h2 with h2 | ⟨e2, k2⟩
  · exact Or.inl (List.lt_trans h1 h2)
  · exact Or.inl (e2 ▸ h1)
  · exact Or.inl (e1 ▸ h2)
  · exact Or.inr ⟨e1.trans e2, List.lt_trans k1 k2⟩

theorem KA_trans {a b c : Entry} (h1 : KA a b) (h2 : KA b c) : KA a c := by
  rcases h1 with h1 | ⟨e1, k1⟩ <;> rcases h2 with h2 | ⟨e2, k2⟩
  · exact Or.inl (List.lt_trans h1 h2)
  · exact Or.inl (e2 ▸ h1)
  · exact Or.inl (e1 ▸ h2)
  · exact Or.inr ⟨e1.trans e2, List.lt_trans k1 k2⟩

theorem AK_irrefl (a : Entry) : ¬ AK a a := by
  rintro (h | ⟨_, h⟩) <;> exact List.lt_irrefl _ h

theorem KA_irrefl (a : Entry) : ¬ KA a a := by
  rintro (h | ⟨_, h⟩) <;> exact List.lt_irrefl _ h

theorem bytes_trichotomy (a b : Bytes) : a < b ∨ a = b ∨ b < a := by
  by_cases h : a < b
  · exact Or.inl h
  · rcases List.le_iff_lt_or_eq.mp (List.not_lt.mp h) with h' | h'
    · exact Or.inr (Or.inr h')
    · exact Or.inr (Or.inl h'.symm)

/-- within one document two entries with different ids are ordered both ways of sorting -/
theorem AK_total {a b : Entry} (hns : a.ns = b.ns) (hne : ¬ sameId a b) : AK a b ∨ AK b a := by
  rcases bytes_trichotomy a.author b.author with h | h | h
  · exact Or.inl (Or.inl h)
  · rcases bytes_trichotomy a.key b.key with k | k | k
    · exact Or.inl (Or.inr ⟨h, k⟩)
    · exact absurd ⟨hns, h, k⟩ hne
    · exact Or.inr (Or.inr ⟨h.symm, k⟩)
  · exact Or.inr (Or.inl h)

theorem KA_total {a b : Entry} (hns : a.ns = b.ns) (hne : ¬ sameId a b) : KA a b ∨ KA b a := by
  rcases bytes_trichotomy a.key b.key with h | h | h
  · exact Or.inl (Or.inl h)
  · rcases bytes_trichotomy a.author b.author with k | k | k
    · exact Or.inl (Or.inr ⟨h, k⟩)
    · exact absurd ⟨hns, k, h⟩ hne
    · exact Or.inr (Or.inr ⟨h.symm, k⟩)
  · exact Or.inr (Or.inl h)

theorem pairwise_total {α : Type} (R : α → α → Prop) (l : List α) (h : l.Pairwise R) :
    ∀ x ∈ l, ∀ y ∈ l, x ≠ y → R x y ∨ R y x := by
  induction l with
  | nil => intro x hx; simp at hx
  | cons a as ih =>
    have ha := List.pairwise_cons.mp h
    intro x hx y hy hne
    rcases List.mem_cons.mp hx with hx | hx <;> rcases List.mem_cons.mp hy with hy | hy
    · exact absurd (hx.trans hy.symm) hne
    · exact Or.inl (hx ▸ ha.1 y hy)
    · exact Or.inr (hy ▸ ha.1 x hx)
    · exact ih ha.2 x hx y hy hne

/-- in a table sorted by id, entries with the same id are the same entry -/
theorem eq_of_sameId {l : Store} (hs : SortedById l) {x y : Entry} (hx : x ∈ l) (hy : y ∈ l)
    (hid : sameId x y) : x = y := by
  by_cases hne : x = y
  · exact hne
  · rcases pairwise_total idLt l hs x hx y hy hne with h | h
    · exact absurd h (not_idLt_of_sameId hid)
    · exact absurd h (not_idLt_of_sameId (sameId_symm hid))

theorem nodup_of_sorted {l : Store} (hs : SortedById l) : l.Nodup := by
  rw [List.nodup_iff_pairwise_ne]
  exact hs.imp (fun {a b} (h : idLt a b) (he : a = b) => idLt_irrefl a (he ▸ h))

/-- the document's rows of the records table are sorted by (author, key) -/
theorem AK_of_idLt {a b : Entry} (hns : a.ns = b.ns) (h : idLt a b) : AK a b := by
  rcases h with h | ⟨_, h⟩
  · exact absurd h (hns ▸ List.lt_irrefl _)
  · exact h


theorem dir_filter (desc : Bool) (l : List Entry) (p : Entry → Bool) :
    (if desc then l.reverse else l).filter p = if desc then (l.filter p).reverse else l.filter p := by
  cases desc
  · rfl
  · simp [List.filter_reverse]

theorem dir_filterMap {α β : Type} (desc : Bool) (l : List α) (f : α → Option β) :
    (if desc then l.reverse else l).filterMap f = if desc then (l.filterMap f).reverse else l.filterMap f := by
  cases desc
  · rfl
  · simp [List.filterMap_reverse]

theorem keys_le_of_KA {l : List Entry} (h : l.Pairwise KA) : (l.map (·.key)).Pairwise (· ≤ ·) := by
  rw [List.pairwise_map]
  apply h.imp
  intro a b hab
  rcases hab with h | ⟨h, _⟩
  · exact List.le_of_lt h
  · rw [h]; exact List.le_refl _

theorem grouped_dir (desc : Bool) {l : List Entry} (h : l.Pairwise KA) :
    Grouped ((if desc then l.reverse else l).map (·.key)) := by
  cases desc
  · exact grouped_of_le _ (keys_le_of_KA h)
  · simp only [if_true, List.map_reverse]
    apply grouped_of_ge
    rw [List.pairwise_reverse]
    exact (keys_le_of_KA h).imp (fun h => h)

theorem filter_true' {α : Type} (l : List α) : l.filter (fun _ => true) = l :=
  List.filter_eq_self.mpr (fun _ _ => rfl)

/-! ### the rows of one document, in table order -/

section
variable {t : T} (qi : QInv t) (ns : Bytes) (hns : ns.length = 32)
include qi hns

/-- any selection of one document's rows is sorted by (author, key) -/
theorem slice_AK (Q : Entry → Bool) :
    (t.records.filter (fun e => e.ns == ns && Q e)).Pairwise AK := by
  have h1 : (t.records.filter (fun e => e.ns == ns && Q e)).Pairwise idLt :=
    List.Pairwise.sublist List.filter_sublist qi.inv.sorted
  apply List.Pairwise.imp_of_mem _ h1
  intro a b ha hb hab
  have hans := (List.mem_filter.mp ha).2
  have hbns := (List.mem_filter.mp hb).2
  simp only [Bool.and_eq_true, beq_iff_eq] at hans hbns
  exact AK_of_idLt (hans.1.trans hbns.1.symm) hab

/-- … so the specification's author-key sort leaves it as it is -/
theorem sortBy_AK_slice (Q : Entry → Bool) :
    sortBy ltAuthorKey (t.records.filter (fun e => e.ns == ns && Q e)) =
      t.records.filter (fun e => e.ns == ns && Q e) := by
  have hs := slice_AK qi ns hns Q
  have hnd : (t.records.filter (fun e => e.ns == ns && Q e)).Nodup :=
    (nodup_of_sorted qi.inv.sorted).sublist List.filter_sublist
  apply sortBy_unique ltAuthorKey
    (fun a => by
      cases h : ltAuthorKey a a with
      | false => rfl
      | true => exact absurd ((ltAuthorKey_iff a a).mp h) (AK_irrefl a))
    (fun a b c h1 h2 => (ltAuthorKey_iff a c).mpr (AK_trans ((ltAuthorKey_iff a b).mp h1) ((ltAuthorKey_iff b c).mp h2)))
    _ hnd
  · intro x hx y hy hne
    have hxm := List.mem_filter.mp hx
    have hym := List.mem_filter.mp hy
    have hxn := hxm.2; have hyn := hym.2
    simp only [Bool.and_eq_true, beq_iff_eq] at hxn hyn
    have hid : ¬ sameId x y := fun hid => hne (eq_of_sameId qi.inv.sorted hxm.1 hym.1 hid)
    rcases AK_total (hxn.1.trans hyn.1.symm) hid with h | h
    · exact Or.inl ((ltAuthorKey_iff x y).mpr h)
    · exact Or.inr ((ltAuthorKey_iff y x).mpr h)
  · exact hs.imp (fun {a b} h => (ltAuthorKey_iff a b).mpr h)
  · intro x; rfl

/-- the scan of `RecordsBounds::namespace` is the document's slice -/
theorem recRange_namespace :
    recRange t.records (recNamespace ns) = t.records.filter (fun e => e.ns == ns) := by
  unfold recRange
  apply List.filter_congr
  intro e he
  obtain ⟨h1, h2⟩ := qi.inv.wfRec e he
  have := recNamespace_exact ns (rk e) hns h1 h2
  by_cases h : e.ns = ns
  · simp [this.mpr h, h]
  · have h' : ¬ inRange3 (recNamespace ns).1 (recNamespace ns).2 (rk e) := fun hh => h (this.mp hh)
    simp [h', h]

/-- the scan of `RecordsBounds::author_key` is the slice of that author and key filter -/
theorem recRange_authorKey (a : Bytes) (ha : a.length = 32) (kf : KeyFilter) :
    recRange t.records (recAuthorKey ns a kf) =
      t.records.filter (fun e => e.ns == ns && (e.author == a && kf.matches e.key)) := by
  unfold recRange
  apply List.filter_congr
  intro e he
  obtain ⟨h1, h2⟩ := qi.inv.wfRec e he
  have := recAuthorKey_exact ns a kf (rk e) hns ha h1 h2
  simp only [rk] at this
  by_cases h : e.ns = ns ∧ e.author = a ∧ kf.matches e.key = true
  · have hin : inRange3 (recAuthorKey ns a kf).1 (recAuthorKey ns a kf).2 (rk e) := this.mpr h
    simp [hin, h.1, h.2.1, h.2.2]
  · have h' : ¬ inRange3 (recAuthorKey ns a kf).1 (recAuthorKey ns a kf).2 (e.ns, e.author, e.key) :=
      fun hh => h (this.mp hh)
    simp only [rk, h', decide_false]
    symm
    apply Bool.eq_false_iff.mpr
    intro hc
    simp only [Bool.and_eq_true, beq_iff_eq] at hc
    exact h ⟨hc.1, hc.2.1, hc.2.2⟩


/-! ### the by-key index path -/

/-- the entries found through the index rows of a key filter, in index order -/
def viaIdx (t : T) (ns : Bytes) (kf : KeyFilter) : List Entry :=
  (k3Range t.byKey (byKeyBounds ns kf)).filterMap (fun k => recGet t.records k.1 k.2.2 k.2.1)

theorem k3Range_exact (kf : KeyFilter) :
    k3Range t.byKey (byKeyBounds ns kf) = t.byKey.filter (fun k => k.1 == ns && kf.matches k.2.1) := by
  unfold k3Range
  apply List.filter_congr
  intro k hk
  obtain ⟨h1, h3⟩ := qi.inv.wf32.idx k hk
  have := byKeyBounds_exact ns kf k hns h1 h3
  by_cases h : k.1 = ns ∧ kf.matches k.2.1 = true
  · have hin := this.mpr h
    simp [hin, h.1, h.2]
  · have h' : ¬ inRange3 (byKeyBounds ns kf).1 (byKeyBounds ns kf).2 k := fun hh => h (this.mp hh)
    simp only [h', decide_false]
    symm
    apply Bool.eq_false_iff.mpr
    intro hc
    simp only [Bool.and_eq_true, beq_iff_eq] at hc
    exact h hc

/-- index order is (key, author) order of the entries found -/
theorem viaIdx_KA (kf : KeyFilter) : (viaIdx t ns kf).Pairwise KA := by
  unfold viaIdx
  rw [k3Range_exact qi ns hns kf]
  have h1 : (t.byKey.filter (fun k => k.1 == ns && kf.matches k.2.1)).Pairwise
      (fun k k' => lt3 k k' ∧ k.1 = ns ∧ k'.1 = ns) := by
    have hs : (t.byKey.filter (fun k => k.1 == ns && kf.matches k.2.1)).Pairwise lt3 :=
      List.Pairwise.sublist List.filter_sublist qi.idxSorted
    apply List.Pairwise.imp_of_mem _ hs
    intro a b ha hb hab
    have ha' := (List.mem_filter.mp ha).2
    have hb' := (List.mem_filter.mp hb).2
    simp only [Bool.and_eq_true, beq_iff_eq] at ha' hb'
    exact ⟨hab, ha'.1, hb'.1⟩
  apply List.Pairwise.filterMap _ _ h1
  intro k k' ⟨hlt, hk, hk'⟩ e he e' he'
  obtain ⟨_, _, ea, ek⟩ := recGet_some he
  obtain ⟨_, _, ea', ek'⟩ := recGet_some he'
  unfold lt3 at hlt
  rcases hlt with h | ⟨_, h | ⟨h, h'⟩⟩
  · exact absurd h (by rw [hk, hk']; exact List.lt_irrefl _)
  · exact Or.inl (by rw [ek, ek']; exact h)
  · exact Or.inr ⟨by rw [ek, ek']; exact h, by rw [ea, ea']; exact h'⟩

/-- … and they are exactly the document's entries whose key the filter matches: every record
has an index row, stale rows find nothing -/
theorem mem_viaIdx (kf : KeyFilter) (e : Entry) :
    e ∈ viaIdx t ns kf ↔ e ∈ t.records ∧ e.ns = ns ∧ kf.matches e.key = true := by
  unfold viaIdx
  rw [k3Range_exact qi ns hns kf, List.mem_filterMap]
  constructor
  · rintro ⟨k, hk, hget⟩
    obtain ⟨hmem, hn, _, hkey⟩ := recGet_some hget
    have hk' := (List.mem_filter.mp hk).2
    simp only [Bool.and_eq_true, beq_iff_eq] at hk'
    exact ⟨hmem, hn.trans hk'.1, by rw [hkey]; exact hk'.2⟩
  · rintro ⟨hmem, hn, hm⟩
    refine ⟨(e.ns, e.key, e.author), ?_, recGet_of_mem qi.inv.sorted hmem⟩
    apply List.mem_filter.mpr
    exact ⟨qi.inv.index e hmem, by simp [hn, hm]⟩

/-- the specification's key-author sort of a selection of the document = the index path, filtered -/
theorem sortBy_KA_slice (kf : KeyFilter) (Q : Entry → Bool) :
    sortBy ltKeyAuthor (t.records.filter (fun e => e.ns == ns && (kf.matches e.key && Q e))) =
      (viaIdx t ns kf).filter Q := by
  have hnd : (t.records.filter (fun e => e.ns == ns && (kf.matches e.key && Q e))).Nodup :=
    (nodup_of_sorted qi.inv.sorted).sublist List.filter_sublist
  apply sortBy_unique ltKeyAuthor
    (fun a => by
      cases h : ltKeyAuthor a a with
      | false => rfl
      | true => exact absurd ((ltKeyAuthor_iff a a).mp h) (KA_irrefl a))
    (fun a b c h1 h2 => (ltKeyAuthor_iff a c).mpr (KA_trans ((ltKeyAuthor_iff a b).mp h1) ((ltKeyAuthor_iff b c).mp h2)))
    _ hnd
  · intro x hx y hy hne
    have hxm := List.mem_filter.mp hx
    have hym := List.mem_filter.mp hy
    have hxn := hxm.2; have hyn := hym.2
    simp only [Bool.and_eq_true, beq_iff_eq] at hxn hyn
    have hid : ¬ sameId x y := fun hid => hne (eq_of_sameId qi.inv.sorted hxm.1 hym.1 hid)
    rcases KA_total (hxn.1.trans hyn.1.symm) hid with h | h
    · exact Or.inl ((ltKeyAuthor_iff x y).mpr h)
    · exact Or.inr ((ltKeyAuthor_iff y x).mpr h)
  · exact ((viaIdx_KA qi ns hns kf).filter Q).imp (fun {a b} h => (ltKeyAuthor_iff a b).mpr h)
  · intro x
    rw [List.mem_filter, mem_viaIdx qi ns hns kf x, List.mem_filter]
    simp only [Bool.and_eq_true, beq_iff_eq]
    constructor
    · rintro ⟨⟨h1, h2, h3⟩, h4⟩; exact ⟨h1, h2, h3, h4⟩
    · rintro ⟨h1, h2, h3, h4⟩; exact ⟨⟨h1, h2, h3⟩, h4⟩


/-! ### the equation -/

/-- **The rows a query iterates are the rows the specification describes** (before offset and limit). -/
theorem queryRows_eq_spec (q : Query) (hq : ∀ a, q.author = .exact a → a.length = 32) :
    queryRows t ns q =
      (let doc := t.records.filter (fun e => e.ns == ns)
       let dir := fun (l : List Entry) => if q.desc then l.reverse else l
       let keepEmpty := fun (e : Entry) => q.includeEmpty || !e.isEmpty
       match q.kind with
       | .flat sb =>
         let matching := doc.filter (fun e => q.author.matches e.author && q.key.matches e.key && keepEmpty e)
         let sorted := match sb, q.author with
           | .keyAuthor, .any => sortBy ltKeyAuthor matching
           | _, _ => sortBy ltAuthorKey matching
         dir sorted
       | .latestPerKey =>
         let cands := dir (sortBy ltKeyAuthor (doc.filter (fun e => q.key.matches e.key)))
         let winners := (keysOf cands).filterMap (fun k => winnerOf (cands.filter (fun e => e.key == k)))
         winners.filter (fun e => q.author.matches e.author && keepEmpty e)) := by
  -- the two ways through the records table
  have viaRec_exact : ∀ (a : Bytes), a.length = 32 →
      (if q.desc then (recRange t.records (recAuthorKey ns a q.key)).reverse
        else recRange t.records (recAuthorKey ns a q.key)).filter (fun e => q.includeEmpty || !e.isEmpty) =
      (if q.desc then
        (sortBy ltAuthorKey ((t.records.filter (fun e => e.ns == ns)).filter
          (fun e => (AuthorFilter.exact a).matches e.author && q.key.matches e.key && (q.includeEmpty || !e.isEmpty)))).reverse
       else sortBy ltAuthorKey ((t.records.filter (fun e => e.ns == ns)).filter
          (fun e => (AuthorFilter.exact a).matches e.author && q.key.matches e.key && (q.includeEmpty || !e.isEmpty)))) := by
    intro a ha
    rw [dir_filter, recRange_authorKey qi ns hns a ha q.key, List.filter_filter, List.filter_filter]
    have e1 : t.records.filter (fun e => (q.includeEmpty || !e.isEmpty) && (e.ns == ns && (e.author == a && q.key.matches e.key))) =
        t.records.filter (fun e => e.ns == ns && ((e.author == a && q.key.matches e.key) && (q.includeEmpty || !e.isEmpty))) := by
      apply List.filter_congr; intro e _
      generalize (q.includeEmpty || !e.isEmpty) = b1; generalize (e.ns == ns) = b2
      generalize (e.author == a) = b3; generalize q.key.matches e.key = b4
      cases b1 <;> cases b2 <;> cases b3 <;> cases b4 <;> rfl
    have e2 : t.records.filter (fun e => ((AuthorFilter.exact a).matches e.author && q.key.matches e.key && (q.includeEmpty || !e.isEmpty)) && (e.ns == ns)) =
        t.records.filter (fun e => e.ns == ns && ((e.author == a && q.key.matches e.key) && (q.includeEmpty || !e.isEmpty))) := by
      apply List.filter_congr; intro e _
      have : (AuthorFilter.exact a).matches e.author = (e.author == a) := by
        simp only [AuthorFilter.matches]
        by_cases h : a = e.author
        · rw [← h]
        · have h' : e.author ≠ a := fun h'' => h h''.symm
          rw [beq_eq_false_iff_ne.mpr h, beq_eq_false_iff_ne.mpr h']
      rw [this]
      generalize (q.includeEmpty || !e.isEmpty) = b1; generalize (e.ns == ns) = b2
      generalize (e.author == a) = b3; generalize q.key.matches e.key = b4
      cases b1 <;> cases b2 <;> cases b3 <;> cases b4 <;> rfl
    rw [e1, e2, sortBy_AK_slice qi ns hns]
  have viaRec_any :
      (if q.desc then (recRange t.records (recNamespace ns)).reverse
        else recRange t.records (recNamespace ns)).filter (fun e => q.key.matches e.key && (q.includeEmpty || !e.isEmpty)) =
      (if q.desc then
        (sortBy ltAuthorKey ((t.records.filter (fun e => e.ns == ns)).filter
          (fun e => AuthorFilter.any.matches e.author && q.key.matches e.key && (q.includeEmpty || !e.isEmpty)))).reverse
       else sortBy ltAuthorKey ((t.records.filter (fun e => e.ns == ns)).filter
          (fun e => AuthorFilter.any.matches e.author && q.key.matches e.key && (q.includeEmpty || !e.isEmpty)))) := by
    rw [dir_filter, recRange_namespace qi ns hns, List.filter_filter, List.filter_filter]
    have e1 : t.records.filter (fun e => (q.key.matches e.key && (q.includeEmpty || !e.isEmpty)) && (e.ns == ns)) =
        t.records.filter (fun e => e.ns == ns && (q.key.matches e.key && (q.includeEmpty || !e.isEmpty))) := by
      apply List.filter_congr; intro e _
      generalize (q.includeEmpty || !e.isEmpty) = b1; generalize (e.ns == ns) = b2
      generalize q.key.matches e.key = b4
      cases b1 <;> cases b2 <;> cases b4 <;> rfl
    have e2 : t.records.filter (fun e => (AuthorFilter.any.matches e.author && q.key.matches e.key && (q.includeEmpty || !e.isEmpty)) && (e.ns == ns)) =
        t.records.filter (fun e => e.ns == ns && (q.key.matches e.key && (q.includeEmpty || !e.isEmpty))) := by
      apply List.filter_congr; intro e _
      have hany : AuthorFilter.any.matches e.author = true := rfl
      rw [hany]
      generalize (q.includeEmpty || !e.isEmpty) = b1; generalize (e.ns == ns) = b2
      generalize q.key.matches e.key = b4
      cases b1 <;> cases b2 <;> cases b4 <;> rfl
    rw [e1, e2, sortBy_AK_slice qi ns hns]
  -- the index path: all rows of the key filter, looked up
  have idx_rows : (if q.desc then (k3Range t.byKey (byKeyBounds ns q.key)).reverse
        else k3Range t.byKey (byKeyBounds ns q.key)).filterMap (fun k => recGet t.records k.1 k.2.2 k.2.1) =
      (if q.desc then (viaIdx t ns q.key).reverse else viaIdx t ns q.key) := by
    rw [dir_filterMap]; rfl
  unfold queryRows
  cases hk : q.kind with
  | flat sb =>
    cases sb with
    | authorKey =>
      simp only
      cases ha : q.author with
      | any => exact viaRec_any
      | exact a => exact viaRec_exact a (hq a ha)
    | keyAuthor =>
      simp only
      cases ha : q.author with
      | exact a => exact viaRec_exact a (hq a ha)
      | any =>
        simp only [Bool.false_or, AuthorFilter.matches, Bool.false_eq_true, if_false]
        rw [filter_true', idx_rows, dir_filter, List.filter_filter]
        have e2 : t.records.filter (fun e => (true && q.key.matches e.key && (q.includeEmpty || !e.isEmpty)) && (e.ns == ns)) =
            t.records.filter (fun e => e.ns == ns && (q.key.matches e.key && (q.includeEmpty || !e.isEmpty))) := by
          apply List.filter_congr; intro e _
          generalize (q.includeEmpty || !e.isEmpty) = b1; generalize (e.ns == ns) = b2
          generalize q.key.matches e.key = b4
          cases b1 <;> cases b2 <;> cases b4 <;> rfl
        rw [e2, sortBy_KA_slice qi ns hns q.key]
  | latestPerKey =>
    simp only [Bool.true_or, if_true]
    rw [filter_true', idx_rows]
    have hdoc : (t.records.filter (fun e => e.ns == ns)).filter (fun e => q.key.matches e.key) =
        t.records.filter (fun e => e.ns == ns && (q.key.matches e.key && (fun _ => true) e)) := by
      rw [List.filter_filter]
      apply List.filter_congr; intro e _
      generalize (e.ns == ns) = b2; generalize q.key.matches e.key = b4
      cases b2 <;> cases b4 <;> rfl
    rw [hdoc, sortBy_KA_slice qi ns hns q.key (fun _ => true), filter_true']
    rw [selectLatest_none _ (grouped_dir q.desc (viaIdx_KA qi ns hns q.key))]
    rw [List.filter_filter]
    unfold winners
    apply List.filter_congr; intro e _
    generalize (q.includeEmpty || !e.isEmpty) = b1; generalize q.author.matches e.author = b3
    cases b1 <;> cases b3 <;> rfl

/-- **C05.** For every reachable state of the tables, every document and every query:
`get_many` returns exactly the entries, in the order and window, that the query describes. -/
theorem query_eq_spec (q : Query) (hq : ∀ a, q.author = .exact a → a.length = 32) :
    query t ns q = spec t.records ns q := by
  rw [query_window, queryRows_eq_spec qi ns hns q hq]
  unfold spec
  cases q.kind <;> rfl

end


/-! ### every reachable state has a sorted index -/

theorem lt3_trans {a b c : K3} (h1 : lt3 a b) (h2 : lt3 b c) : lt3 a c := by
  unfold lt3 at *
  rcases h1 with h1 | ⟨e1, h1 | ⟨f1, h1⟩⟩ <;> rcases h2 with h2 | ⟨e2, h2 | ⟨f2, h2⟩⟩
  · exact Or.inl (List.lt_trans h1 h2)
  · exact Or.inl (e2 ▸ h1)
  · exact Or.inl (e2 ▸ h1)
  · exact Or.inl (e1 ▸ h2)
  · exact Or.inr ⟨e1.trans e2, Or.inl (List.lt_trans h1 h2)⟩
  · exact Or.inr ⟨e1.trans e2, Or.inl (f2 ▸ h1)⟩
  · exact Or.inl (e1 ▸ h2)
  · exact Or.inr ⟨e1.trans e2, Or.inl (f1 ▸ h2)⟩
  · exact Or.inr ⟨e1.trans e2, Or.inr ⟨f1.trans f2, List.lt_trans h1 h2⟩⟩

theorem k3Insert_sorted (k : K3) (l : List K3) (hs : l.Pairwise lt3) : (k3Insert k l).Pairwise lt3 := by
  induction l with
  | nil => simp [k3Insert]
  | cons y ys ih =>
    have hy := List.pairwise_cons.mp hs
    unfold k3Insert
    by_cases h1 : lt3 k y
    · simp only [h1, if_true]
      exact List.pairwise_cons.mpr ⟨fun z hz => by
        rcases List.mem_cons.mp hz with hz | hz
        · exact hz ▸ h1
        · exact lt3_trans h1 (hy.1 z hz), hs⟩
    · simp only [h1, if_false]
      by_cases h2 : lt3 y k
      · simp only [h2, if_true]
        refine List.pairwise_cons.mpr ⟨fun z hz => ?_, ih hy.2⟩
        rcases (mem_k3Insert k z ys).mp hz with hz | hz
        · exact hz ▸ h2
        · exact hy.1 z hz
      · simp only [h2, if_false]
        have : k = y := eq_of_not_lt3 h1 h2
        subst this
        exact hs

theorem put_idxSorted (t : T) (e : Entry) (h : t.byKey.Pairwise lt3) : (put t e).1.byKey.Pairwise lt3 := by
  unfold put
  split
  · exact h
  · exact k3Insert_sorted _ _ h

theorem applyOp_idxSorted (t : T) (op : TOp) (h : t.byKey.Pairwise lt3) : (applyOp t op).byKey.Pairwise lt3 := by
  cases op with
  | put e => exact put_idxSorted t e h
  | remove ns => exact List.Pairwise.sublist List.filter_sublist h
  | importNs ns kind raw =>
    show (importNamespace t ns kind raw).1.byKey.Pairwise lt3
    rw [(import_side t ns kind raw).2.1]; exact h
  | peer ns nanos peer =>
    show ((registerUsefulPeer t ns nanos peer).getD t).byKey.Pairwise lt3
    unfold registerUsefulPeer
    cases nsGet t ns <;> exact h
  | policy ns p =>
    show ((setDownloadPolicy t ns p).getD t).byKey.Pairwise lt3
    unfold setDownloadPolicy
    cases nsGet t ns <;> exact h

/-- **Every reachable state of the tables satisfies the hypotheses of `query_eq_spec`.** -/
theorem qinv_reachable (ops : List TOp) (hops : ∀ op ∈ ops, op.Ok) : QInv (ops.foldl applyOp {}) := by
  refine ⟨tablesInv_reachable ops hops, ?_⟩
  suffices ∀ t : T, t.byKey.Pairwise lt3 → (ops.foldl applyOp t).byKey.Pairwise lt3 from this {} List.Pairwise.nil
  induction ops with
  | nil => exact fun t h => h
  | cons op rest ih =>
    intro t h
    exact ih (fun o ho => hops o (List.mem_cons_of_mem _ ho)) _ (applyOp_idxSorted t op h)

/-- C05 for every history of table operations -/
theorem query_eq_spec_reachable (ops : List TOp) (hops : ∀ op ∈ ops, op.Ok) (ns : Bytes) (hns : ns.length = 32)
    (q : Query) (hq : ∀ a, q.author = .exact a → a.length = 32) :
    query (ops.foldl applyOp {}) ns q = spec (ops.foldl applyOp {}).records ns q :=
  query_eq_spec (qinv_reachable ops hops) ns hns q hq

end Tables
