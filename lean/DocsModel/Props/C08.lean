import DocsModel.Lemmas.Reach
import DocsModel.Model.Ranger
/-!
# C08 — reconciliation behaves the same on the redb store as on a plain ordered map

The store primitives `process_message` uses, as implemented on the redb tables
(`Ranger.tableOps`: `get_range` with its three `Ordering` arms over `RecordsBounds`, `get_first`,
the XOR fingerprint over the scan, `parents()` + bounds-based prune + `entry_put`), return exactly
what the ordered-map definitions (`Ranger.mapOps` on the document's entries) prescribe.
Side condition on ranges: both endpoints are identifiers of the replica's document (what an honest
peer sends), or the range is `(x, x)`.
-/

namespace Tables
open Bytes Spec Entry Ranger

/-- the document's entries, in table order: the ordered map the tables represent -/
def nsRecords (t : T) (ns : Bytes) : Spec.Store := t.records.filter (fun e => e.ns == ns)

/-- lexicographic order of concatenations with equally long heads -/
theorem append_lt_append_iff (a1 b1 a2 b2 : Bytes) (hlen : a1.length = b1.length) :
    a1 ++ a2 < b1 ++ b2 ↔ a1 < b1 ∨ (a1 = b1 ∧ a2 < b2) := by
  induction a1 generalizing b1 with
  | nil =>
    cases b1 with
    | nil => simp [List.lt_irrefl]
    | cons _ _ => simp at hlen
  | cons x xs ih =>
    cases b1 with
    | nil => simp at hlen
    | cons y ys =>
      have hl : xs.length = ys.length := by simpa using hlen
      simp only [List.cons_append, List.cons_lt_cons_iff, ih ys hl, List.cons.injEq]
      constructor
      · rintro (h | ⟨h, h' | ⟨h', h''⟩⟩)
        · exact Or.inl (Or.inl h)
        · exact Or.inl (Or.inr ⟨h, h'⟩)
        · exact Or.inr ⟨⟨h, h'⟩, h''⟩
      · rintro ((h | ⟨h, h'⟩) | ⟨⟨h, h'⟩, h''⟩)
        · exact Or.inl h
        · exact Or.inr ⟨h, Or.inl h'⟩
        · exact Or.inr ⟨h, Or.inr ⟨h', h''⟩⟩

/-- an identifier of 64 + n bytes -/
def IdWf (id : Bytes) : Prop := 64 ≤ id.length

theorem idTuple_lengths (id : Bytes) (h : IdWf id) :
    (idTuple id).1.length = 32 ∧ (idTuple id).2.1.length = 32 := by
  unfold idTuple IdWf at *
  simp only [List.length_take, List.length_drop]
  omega

theorem idTuple_join (id : Bytes) : (idTuple id).1 ++ (idTuple id).2.1 ++ (idTuple id).2.2 = id := by
  unfold idTuple
  simp only
  rw [List.append_assoc]
  have : List.take 32 (List.drop 32 id) ++ List.drop 64 id = List.drop 32 id := by
    have h := List.take_append_drop 32 (List.drop 32 id)
    rw [List.drop_drop] at h
    exact h
  rw [this, List.take_append_drop]

/-- **redb's tuple order on `(namespace, author, key)` is the byte order of the identifier**
(`RecordIdentifier`'s derived `Ord` on the concatenation) -/
theorem lt3_iff_idBytes_lt (a b : Bytes) (ha : IdWf a) (hb : IdWf b) :
    lt3 (idTuple a) (idTuple b) ↔ a < b := by
  obtain ⟨ha1, ha2⟩ := idTuple_lengths a ha
  obtain ⟨hb1, hb2⟩ := idTuple_lengths b hb
  conv => rhs; rw [← idTuple_join a, ← idTuple_join b]
  rw [List.append_assoc, List.append_assoc, append_lt_append_iff _ _ _ _ (by rw [ha1, hb1]),
    append_lt_append_iff _ _ _ _ (by rw [ha2, hb2])]
  rfl

theorem idTuple_idBytes (e : Entry) (he : Wf e) : idTuple e.idBytes = rk e := by
  obtain ⟨h1, h2⟩ := he
  unfold idTuple idBytes rk
  have t1 : List.take 32 (e.ns ++ e.author ++ e.key) = e.ns := by
    rw [List.append_assoc, List.take_append_of_le_length (by omega), ← h1, List.take_length]
  have d1 : List.drop 32 (e.ns ++ e.author ++ e.key) = e.author ++ e.key := by
    rw [List.append_assoc, ← h1, List.drop_left]
  have t2 : List.take 32 (e.author ++ e.key) = e.author := by
    rw [List.take_append_of_le_length (by omega), ← h2, List.take_length]
  have d2 : List.drop 64 (e.ns ++ e.author ++ e.key) = e.key := by
    have : (64 : Nat) = 32 + 32 := rfl
    rw [this, ← List.drop_drop, d1, ← h2, List.drop_left]
  rw [t1, d1, t2, d2]

theorem idWf_idBytes (e : Entry) (he : Wf e) : IdWf e.idBytes := by
  unfold IdWf idBytes; simp only [List.length_append]; have := he.1; have := he.2; omega

/-- rows compare by tuple exactly as their identifiers compare by bytes -/
theorem rk_lt_iff (e : Entry) (he : Wf e) (id : Bytes) (hid : IdWf id) :
    (lt3 (rk e) (idTuple id) ↔ e.idBytes < id) ∧ (lt3 (idTuple id) (rk e) ↔ id < e.idBytes) := by
  rw [← idTuple_idBytes e he]
  exact ⟨lt3_iff_idBytes_lt _ _ (idWf_idBytes e he) hid, lt3_iff_idBytes_lt _ _ hid (idWf_idBytes e he)⟩

/-- `x` is an identifier in document `ns` -/
def InNs (ns id : Bytes) : Prop := IdWf id ∧ (idTuple id).1 = ns

/-- a row between two identifiers of the document belongs to the document -/
theorem ns_of_between (ns x y : Bytes) (hx : InNs ns x) (hy : InNs ns y) (k : K3)
    (hlo : ¬ lt3 k (idTuple x)) (hhi : lt3 k (idTuple y)) : k.1 = ns := by
  unfold lt3 at hlo hhi
  rw [hx.2] at hlo
  rw [hy.2] at hhi
  have h1 : ¬ k.1 < ns := fun h => hlo (Or.inl h)
  rcases hhi with h | ⟨h, _⟩
  · exact List.le_antisymm (List.le_of_lt h) (List.not_lt.mp h1)
  · exact h

/-- in a sorted list, the elements satisfying `P1 ∨ P2` are those satisfying `P1` followed by those
satisfying `P2`, when the two are disjoint and no `P2` element precedes a `P1` element -/
theorem filter_or_split {α : Type} (lt : α → α → Prop) (l : List α) (hs : l.Pairwise lt)
    (P1 P2 : α → Bool) (hdis : ∀ a, ¬ (P1 a = true ∧ P2 a = true))
    (hsep : ∀ a ∈ l, ∀ b ∈ l, P2 a = true → P1 b = true → ¬ lt a b) :
    l.filter (fun a => P1 a || P2 a) = l.filter P1 ++ l.filter P2 := by
  induction l with
  | nil => rfl
  | cons a rest ih =>
    have hrest := (List.pairwise_cons.mp hs).2
    have ha := (List.pairwise_cons.mp hs).1
    have ih' := ih hrest (fun x hx y hy => hsep x (List.mem_cons_of_mem _ hx) y (List.mem_cons_of_mem _ hy))
    by_cases h1 : P1 a = true
    · have h2 : P2 a = false := by
        cases h : P2 a with
        | false => rfl
        | true => exact absurd ⟨h1, h⟩ (hdis a)
      simp [List.filter_cons, h1, h2, ih']
    · have h1' : P1 a = false := by simpa using h1
      by_cases h2 : P2 a = true
      · have hnone : rest.filter P1 = [] := by
          apply List.filter_eq_nil_iff.mpr
          intro b hb hpb
          exact hsep a List.mem_cons_self b (List.mem_cons_of_mem _ hb) h2 hpb (ha b hb)
        simp [List.filter_cons, h1', h2, ih', hnone]
      · have h2' : P2 a = false := by simpa using h2
        simp [List.filter_cons, h1', h2', ih']

theorem not_lt_zero32_of_len (a : Bytes) (h : a.length = 32) : ¬ a < zero32 :=
  List.not_lt.mpr (zeros_le 32 a h)

/-- the low part of a wrap-around scan: `namespace_start ≤ row < y` -/
theorem low_part_iff (ns y : Bytes) (hy : InNs ns y) (e : Entry) (he : Wf e) :
    inRange3 (recNamespace ns).1 (.excl (idTuple y)) (rk e) ↔ (e.ns = ns ∧ e.idBytes < y) := by
  obtain ⟨_, cy⟩ := rk_lt_iff e he y hy.1 |>.1 |> fun h => (⟨trivial, h⟩ : True ∧ _)
  unfold recNamespace
  simp only [inRange3, cy]
  constructor
  · rintro ⟨hlo, hhi⟩
    refine ⟨?_, hhi⟩
    have hge : ¬ e.ns < ns := fun h => hlo (Or.inl h)
    have hlt3 : lt3 (rk e) (idTuple y) := cy.mpr hhi
    unfold lt3 at hlt3
    rw [hy.2] at hlt3
    rcases hlt3 with h | ⟨h, _⟩
    · exact List.le_antisymm (List.le_of_lt h) (List.not_lt.mp hge)
    · exact h
  · rintro ⟨hn, hlt⟩
    refine ⟨?_, hlt⟩
    unfold lt3 rk
    simp only
    rintro (h | ⟨_, h | ⟨_, h⟩⟩)
    · rw [hn] at h; exact List.lt_irrefl _ h
    · exact not_lt_zero32_of_len _ he.2 h
    · exact List.not_lt_nil _ h

/-- the high part of a wrap-around scan: `x ≤ row < namespace_end` -/
theorem high_part_iff (ns x : Bytes) (hns : ns.length = 32) (hx : InNs ns x) (e : Entry) (he : Wf e) :
    inRange3 (.incl (idTuple x)) (recNamespaceEnd ns) (rk e) ↔ (e.ns = ns ∧ x ≤ e.idBytes) := by
  have cx := (rk_lt_iff e he x hx.1).1
  have hfull := recNamespace_exact ns (rk e) hns he.1 he.2
  unfold recNamespace at hfull
  simp only [inRange3] at hfull ⊢
  rw [cx, List.not_lt]
  constructor
  · rintro ⟨hlo, hhi⟩
    refine ⟨?_, hlo⟩
    apply hfull.mp
    refine ⟨?_, hhi⟩
    -- x ≤ id and x in ns give namespace_start ≤ row
    have hnlt : ¬ lt3 (rk e) (idTuple x) := by rw [cx]; exact List.not_lt.mpr hlo
    unfold lt3 at hnlt ⊢
    rw [hx.2] at hnlt
    simp only [rk] at hnlt ⊢
    rintro (h | ⟨_, h | ⟨_, h⟩⟩)
    · exact hnlt (Or.inl h)
    · exact not_lt_zero32_of_len _ he.2 h
    · exact List.not_lt_nil _ h
  · rintro ⟨hn, hle⟩
    exact ⟨hle, (hfull.mpr hn).2⟩

/-- **`get_range` on the tables is the in-order filter by `Range::contains`** of the document's
entries — for regular ranges, wrap-around ranges (low part first, then high part: the redb iteration
order the `start_index` logic of the split compensates for) and the full range. -/
theorem getRange_refines (t : T) (ns x y : Bytes) (inv : TablesInv t) (hns : ns.length = 32)
    (hr : x = y ∨ (InNs ns x ∧ InNs ns y)) :
    getRange t ns x y = mapOps.getRange (nsRecords t ns) ⟨x, y⟩ := by
  unfold getRange mapOps nsRecords
  simp only
  -- rows of the document via the namespace bounds
  have hnsrows : ∀ e ∈ t.records, (inRange3 (recNamespace ns).1 (recNamespace ns).2 (rk e) ↔ e.ns = ns) := by
    intro e he
    obtain ⟨h1, h2⟩ := inv.wfRec e he
    exact recNamespace_exact ns (rk e) hns h1 h2
  by_cases hxy : x = y
  · subst hxy
    simp only [if_true, recRange, List.filter_filter]
    apply List.filter_congr
    intro e he
    have := hnsrows e he
    by_cases h : e.ns = ns
    · simp [this.mpr h, h, Range.contains]
    · have h' : ¬ inRange3 (recNamespace ns).1 (recNamespace ns).2 (rk e) := fun hh => h (this.mp hh)
      simp [h', h]
  · rcases hr with hr | ⟨hx, hy⟩
    · exact absurd hr hxy
    · simp only [hxy, if_false]
      have cmp : ∀ e ∈ t.records, ((lt3 (rk e) (idTuple x) ↔ e.idBytes < x) ∧ (lt3 (idTuple x) (rk e) ↔ x < e.idBytes)) ∧
          ((lt3 (rk e) (idTuple y) ↔ e.idBytes < y) ∧ (lt3 (idTuple y) (rk e) ↔ y < e.idBytes)) :=
        fun e he => ⟨rk_lt_iff e (inv.wfRec e he) x hx.1, rk_lt_iff e (inv.wfRec e he) y hy.1⟩
      by_cases hlt : x < y
      · simp only [hlt, if_true, recRange, List.filter_filter]
        apply List.filter_congr
        intro e he
        obtain ⟨⟨cx, _⟩, ⟨cy, _⟩⟩ := cmp e he
        have hin : inRange3 (.incl (idTuple x)) (.excl (idTuple y)) (rk e) ↔ (x ≤ e.idBytes ∧ e.idBytes < y) := by
          simp only [inRange3, cx, cy, List.not_lt]
        by_cases hr' : x ≤ e.idBytes ∧ e.idBytes < y
        · have hns' : e.ns = ns := by
            have := ns_of_between ns x y hx hy (rk e) (by rw [cx]; exact List.not_lt.mpr hr'.1) (by rw [cy]; exact hr'.2)
            exact this
          simp [hin.mpr hr', hns', Range.contains, hxy, hlt, hr']
        · have : ¬ inRange3 (.incl (idTuple x)) (.excl (idTuple y)) (rk e) := fun h => hr' (hin.mp h)
          simp [this, Range.contains, hxy, hlt, hr']
      · -- wrap-around: the low part, then the high part
        have hyx : y < x := by
          by_cases h : y < x
          · exact h
          · exact absurd (List.le_antisymm (List.not_lt.mp h) (List.not_lt.mp hlt)) hxy
        simp only [hlt, if_false, recRange]
        have hP1 : ∀ e ∈ t.records,
            decide (inRange3 (recNamespace ns).1 (.excl (idTuple y)) (rk e)) = (e.ns == ns && decide (e.idBytes < y)) := by
          intro e he
          have := low_part_iff ns y hy e (inv.wfRec e he)
          by_cases h : e.ns = ns ∧ e.idBytes < y
          · simp [this.mpr h, h.1, h.2]
          · have h' : ¬ inRange3 (recNamespace ns).1 (.excl (idTuple y)) (rk e) := fun hh => h (this.mp hh)
            simp only [h', decide_false]
            by_cases hn : e.ns = ns
            · have : ¬ e.idBytes < y := fun hl => h ⟨hn, hl⟩
              simp [hn, this]
            · simp [hn]
        have hP2 : ∀ e ∈ t.records,
            decide (inRange3 (.incl (idTuple x)) (recNamespaceEnd ns) (rk e)) = (e.ns == ns && decide (x ≤ e.idBytes)) := by
          intro e he
          have := high_part_iff ns x hns hx e (inv.wfRec e he)
          by_cases h : e.ns = ns ∧ x ≤ e.idBytes
          · simp [this.mpr h, h.1, h.2]
          · have h' : ¬ inRange3 (.incl (idTuple x)) (recNamespaceEnd ns) (rk e) := fun hh => h (this.mp hh)
            simp only [h', decide_false]
            by_cases hn : e.ns = ns
            · have : ¬ x ≤ e.idBytes := fun hl => h ⟨hn, hl⟩
              simp [hn, this]
            · simp [hn]
        rw [List.filter_congr hP1, List.filter_congr hP2, List.filter_filter]
        have hsplit := filter_or_split idLt t.records inv.sorted
          (fun e => e.ns == ns && decide (e.idBytes < y)) (fun e => e.ns == ns && decide (x ≤ e.idBytes))
          (by
            intro a ⟨h1, h2⟩
            simp only [Bool.and_eq_true, decide_eq_true_eq] at h1 h2
            exact List.not_lt.mpr h2.2 (List.lt_trans h1.2 hyx))
          (by
            intro a ha b hb h2 h1 hab
            simp only [Bool.and_eq_true, decide_eq_true_eq, beq_iff_eq] at h1 h2
            -- a before b in table order means a.id < b.id, but b.id < y < x ≤ a.id
            have hab' : lt3 (idTuple a.idBytes) (idTuple b.idBytes) := by
              rw [idTuple_idBytes a (inv.wfRec a ha), idTuple_idBytes b (inv.wfRec b hb)]; exact hab
            have := (lt3_iff_idBytes_lt _ _ (idWf_idBytes a (inv.wfRec a ha)) (idWf_idBytes b (inv.wfRec b hb))).mp hab'
            exact List.not_lt.mpr h2.2 (List.lt_trans this (List.lt_trans h1.2 hyx)))
        rw [← hsplit]
        apply List.filter_congr
        intro e he
        by_cases hn : e.ns = ns
        · simp only [hn, beq_self_eq_true, Bool.true_and, Range.contains, hxy, if_false, hlt]
          apply Bool.eq_iff_iff.mpr
          simp only [Bool.or_eq_true, decide_eq_true_eq, Bool.and_true]
          exact or_comm
        · have hn' : (e.ns == ns) = false := beq_false_of_ne hn
          simp only [hn', Bool.false_and, Bool.or_self, Bool.and_false]

/-- **the range fingerprint on the tables is the XOR over the ordered-map range** -/
theorem getFingerprint_refines (t : T) (ns x y : Bytes) (inv : TablesInv t) (hns : ns.length = 32)
    (hr : x = y ∨ (InNs ns x ∧ InNs ns y)) :
    getFingerprint t ns x y = mapOps.getFingerprint (nsRecords t ns) ⟨x, y⟩ := by
  unfold getFingerprint
  rw [getRange_refines t ns x y inv hns hr]
  rfl

/-- **`get_first` on the tables is the first key of the ordered map** (or the all-zero default) -/
theorem getFirst_refines (t : T) (ns : Bytes) (inv : TablesInv t) (hns : ns.length = 32) :
    getFirst t ns = mapOps.getFirst (nsRecords t ns) := by
  have : recRange t.records (recNamespace ns) = nsRecords t ns := by
    unfold recRange nsRecords
    apply List.filter_congr
    intro e he
    obtain ⟨h1, h2⟩ := inv.wfRec e he
    have := recNamespace_exact ns (rk e) hns h1 h2
    by_cases h : e.ns = ns
    · simp [this.mpr h, h]
    · have h' : ¬ inRange3 (recNamespace ns).1 (recNamespace ns).2 (rk e) := fun hh => h (this.mp hh)
      simp [h', h]
  unfold getFirst mapOps
  simp only [this]
  cases nsRecords t ns <;> rfl

/-- **`put` on the tables is `put` on the ordered map** — prefix lookup (`parents()`), prefix
removal (bounds-based `extract_from_if`) and the write — with the same outcome and removal count.
(`Tables.put_refines`, restated for the whole records table; a document's slice follows because
`dom` only relates entries of one document.) -/
theorem put_refines_map (t : T) (e : Entry) (inv : TablesInv t) (he : Wf e) :
    (tableOps e.ns).put t e = ((Tables.put t e).1, (mapOps.put t.records e).2) ∧
    (Tables.put t e).1.records = (mapOps.put t.records e).1 := by
  obtain ⟨h1, h2⟩ := put_refines t e inv.sorted inv.wfRec he
  refine ⟨?_, h1⟩
  show Tables.put t e = _
  rw [Prod.ext_iff]
  exact ⟨rfl, h2⟩

/-- every sequence of table-level puts of well-formed entries leaves the records table equal to
the ordered-map run (so all of C02's theorems hold for the tables) -/
theorem records_run_eq_spec_run (es : List Entry) (hes : ∀ e ∈ es, Wf e) (t : T) (inv : TablesInv t) :
    (es.foldl (fun t e => (Tables.put t e).1) t).records = Spec.run t.records es ∧
    TablesInv (es.foldl (fun t e => (Tables.put t e).1) t) := by
  induction es generalizing t with
  | nil => exact ⟨rfl, inv⟩
  | cons e rest ih =>
    have he := hes e List.mem_cons_self
    have h1 := (put_refines t e inv.sorted inv.wfRec he).1
    have inv' := put_tablesInv t e he inv
    obtain ⟨h2, h3⟩ := ih (fun x hx => hes x (List.mem_cons_of_mem _ hx)) (Tables.put t e).1 inv'
    refine ⟨?_, h3⟩
    simp only [List.foldl_cons, Spec.run] at h2 ⊢
    rw [h2, h1]

/-- non-vacuity: a wrap-around range over a three-entry table (low part first, then high part) -/
example :
    let e (a : UInt8) (k : UInt8) : Entry :=
      { ns := zero32, author := List.replicate 32 a, key := [k], ts := 1, len := 1, hash := [k], fp := [a, k] }
    let t : T := { records := [e 1 1, e 2 2, e 3 3] }
    (getRange t zero32 (e 3 3).idBytes (e 2 2).idBytes).map (·.fp) = [[1, 1], [3, 3]] := by decide

end Tables
