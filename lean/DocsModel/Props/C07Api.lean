import DocsModel.Model.Rpc
import DocsModel.Props.C07
import DocsModel.Props.C14
/-!
# C07 at the client API: importing the write secret upgrades the document *and every open handle*

`Props/C07.lean` proves the upgrade for the stored capability, `Props/C14.lean` that the open copy
equals the stored one in every reachable actor state. Here both are lifted to the handlers of the
client API (`Model/Rpc.lean`): whatever happened before — the document unknown, known read-only,
open through any number of handles — after `import_namespace(Write(secret))` returns, the document
is open, its open copy is a write capability, and a local write through *any* handle is not refused
as read-only.
-/

namespace Rpc
open Spec Actor Tables

theorem step_openInv (s : AState) (r : Req) (inv : OpenInv s) : OpenInv (step s r).1 := by
  cases r with
  | importNs ns kind raw =>
    simp only [step]
    have h1 := Actor.step_openInv s (.importNamespace ns kind raw) inv
    cases hr : (Actor.step s (.importNamespace ns kind raw)).2 <;>
      first
      | exact h1
      | exact Actor.step_openInv _ (.openR ns false false) h1
  | openDoc ns => exact Actor.step_openInv s _ inv
  | closeDoc ns => exact Actor.step_openInv s (.close ns) inv
  | setHash ns e => exact Actor.step_openInv s _ inv
  | dropDoc ns => exact Actor.step_openInv s _ inv
  | getExact ns a k incl => exact Actor.step_openInv s _ inv
  | status ns => exact Actor.step_openInv s _ inv

theorem openInv_reachable (t : Tables.T) (rs : List Req) : OpenInv (run { t := t } rs).1 := by
  unfold run
  suffices h : ∀ (acc : AState × List Reply), OpenInv acc.1 →
      OpenInv (rs.foldl (fun (acc : AState × List Reply) a => let (s', r) := step acc.1 a; (s', acc.2 ++ [r])) acc).1 from
    h _ (openInv_init t)
  induction rs with
  | nil => intro acc h; exact h
  | cons a rest ih =>
    intro acc h
    simp only [List.foldl_cons]
    exact ih _ (step_openInv acc.1 a h)

end Rpc

namespace Rpc
open Spec Actor Tables

/-- the import handler: the actor's import always succeeds, so the open follows -/
theorem step_importNs (s : AState) (ns : Bytes) (kind : Nat) (raw : Bytes) :
    step s (.importNs ns kind raw) =
      Actor.step (Actor.step s (.importNamespace ns kind raw)).1 (.openR ns false false) := by
  simp only [step, Actor.step]
  cases (importNamespace s.t ns kind raw).2 <;> cases getOpen { s with t := (importNamespace s.t ns kind raw).1 } ns <;> rfl

/-- the open copy after the actor's import of a write capability -/
theorem import_write_open_copy (s : AState) (ns raw : Bytes) (inv : OpenInv s)
    (hk : ∀ k0 raw0, nsGet s.t ns = some (k0, raw0) → k0 = 1 ∨ k0 = 2) :
    let s1 := (Actor.step s (.importNamespace ns 1 raw)).1
    (∃ sec, nsGet s1.t ns = some (1, sec)) ∧
    (∀ r, getOpen s ns = some r → ∃ r1, getOpen s1 ns = some r1 ∧ r1.kind = 1 ∧ r1.handles = r.handles) ∧
    (getOpen s ns = none → getOpen s1 ns = none) := by
  intro s1
  have inv1 : OpenInv s1 := Actor.step_openInv s _ inv
  cases hg : nsGet s.t ns with
  | none =>
    have hno : getOpen s ns = none := by
      cases ho : getOpen s ns with
      | none => rfl
      | some r => have := (inv.open_ok ns r ho).2.2; rw [hg] at this; cases this
    have hs1 : s1 = { s with t := (importNamespace s.t ns 1 raw).1 } := by
      show (Actor.step s (.importNamespace ns 1 raw)).1 = _
      simp only [Actor.step]
      have : getOpen { s with t := (importNamespace s.t ns 1 raw).1 } ns = none := hno
      rw [this]
      cases (importNamespace s.t ns 1 raw).2 <;> rfl
    refine ⟨⟨raw, ?_⟩, ?_, ?_⟩
    · rw [hs1]
      show nsGet (importNamespace s.t ns 1 raw).1 ns = _
      unfold importNamespace
      rw [hg]
      simp only [nsGet]
      have := find_nsInsert_same (ns, 1, raw) s.t.namespaces
      simp only at this
      rw [this]; rfl
    · intro r hr; rw [hno] at hr; cases hr
    · intro _; rw [hs1]; exact hno
  | some v =>
    obtain ⟨k0, raw0⟩ := v
    rcases hk k0 raw0 hg with h1 | h2
    · -- already a write capability: nothing changes
      subst h1
      have hout : importNamespace s.t ns 1 raw = ({ s.t with namespaces := nsInsert (ns, 1, raw0) s.t.namespaces }, .noChange) := by
        unfold importNamespace; rw [hg]; simp
      have hs1 : s1 = { s with t := { s.t with namespaces := nsInsert (ns, 1, raw0) s.t.namespaces } } := by
        show (Actor.step s (.importNamespace ns 1 raw)).1 = _
        simp only [Actor.step, hout]
      refine ⟨⟨raw0, ?_⟩, ?_, ?_⟩
      · have := write_never_lost s.t ns ns raw0 1 raw hg
        rw [hs1]; show nsGet _ ns = _
        rw [hout] at this; exact this
      · intro r hr
        refine ⟨r, ?_, ?_, rfl⟩
        · rw [hs1]; exact hr
        · have := (inv.open_ok ns r hr).2.2
          rw [hg] at this
          injection this with this
          injection this with h1 _
          exact h1.symm
      · intro hno; rw [hs1]; exact hno
    · subst h2
      obtain ⟨hget, hout⟩ := import_write_upgrades s.t ns raw0 raw hg
      refine ⟨⟨raw, ?_⟩, ?_, ?_⟩
      · cases ho : getOpen s ns with
        | none =>
          have : s1 = { s with t := (importNamespace s.t ns 1 raw).1 } := by
            show (Actor.step s (.importNamespace ns 1 raw)).1 = _
            simp only [Actor.step, hout]
            have : getOpen { s with t := (importNamespace s.t ns 1 raw).1 } ns = none := ho
            rw [this]
          rw [this]; exact hget
        | some r =>
          have : s1 = setOpen { s with t := (importNamespace s.t ns 1 raw).1 } ns { r with kind := 1, raw := raw } := by
            show (Actor.step s (.importNamespace ns 1 raw)).1 = _
            simp only [Actor.step, hout]
            have : getOpen { s with t := (importNamespace s.t ns 1 raw).1 } ns = some r := ho
            rw [this]
          rw [this]; exact hget
      · intro r hr
        have : s1 = setOpen { s with t := (importNamespace s.t ns 1 raw).1 } ns { r with kind := 1, raw := raw } := by
          show (Actor.step s (.importNamespace ns 1 raw)).1 = _
          simp only [Actor.step, hout]
          have : getOpen { s with t := (importNamespace s.t ns 1 raw).1 } ns = some r := hr
          rw [this]
        exact ⟨{ r with kind := 1, raw := raw }, by rw [this]; exact getOpen_setOpen_same _ _ _, rfl, rfl⟩
      · intro hno
        have : s1 = { s with t := (importNamespace s.t ns 1 raw).1 } := by
          show (Actor.step s (.importNamespace ns 1 raw)).1 = _
          simp only [Actor.step, hout]
          have : getOpen { s with t := (importNamespace s.t ns 1 raw).1 } ns = none := hno
          rw [this]
        rw [this]; exact hno

end Rpc

namespace Rpc
open Spec Actor Tables

/-- **Import of the write secret at the client API.** In every state satisfying the actor
invariant — the document unknown, read-only, or writable; closed or open through any number of
handles — `import_namespace(Write(secret))` answers ok, leaves the document open with one handle
more, the open copy a write capability, and the stored capability a write capability. -/
theorem api_import_write (s : AState) (ns raw : Bytes) (inv : OpenInv s)
    (hk : ∀ k0 raw0, nsGet s.t ns = some (k0, raw0) → k0 = 1 ∨ k0 = 2) :
    let out := step s (.importNs ns 1 raw)
    out.2 = .ok ∧
    (∃ sec, nsGet out.1.t ns = some (1, sec)) ∧
    ∃ r', getOpen out.1 ns = some r' ∧ r'.kind = 1 ∧
      r'.handles = (match getOpen s ns with | some r => r.handles + 1 | none => 1) := by
  intro out
  have hout : out = Actor.step (Actor.step s (.importNamespace ns 1 raw)).1 (.openR ns false false) :=
    step_importNs s ns 1 raw
  obtain ⟨⟨sec, hsec⟩, hopen, hclosed⟩ := import_write_open_copy s ns raw inv hk
  generalize hs1 : (Actor.step s (.importNamespace ns 1 raw)).1 = s1 at hout hsec hopen hclosed
  cases ho : getOpen s ns with
  | none =>
    have h1 : getOpen s1 ns = none := hclosed ho
    have : out = ({ setOpen s1 ns { kind := 1, raw := sec, sync := false, handles := 1, subscribers := 0 } with
           storeOpen := ns :: s1.storeOpen.filter (· != ns) }, .ok) := by
      rw [hout]; simp [Actor.step, h1, hsec]
    rw [this]
    refine ⟨rfl, ⟨sec, hsec⟩, _, getOpen_setOpen_same _ _ _, rfl, rfl⟩
  | some r =>
    obtain ⟨r1, h1, hkind, hh⟩ := hopen r ho
    have : ∃ r2, out = (setOpen s1 ns r2, .ok) ∧ r2.kind = r1.kind ∧ r2.handles = r1.handles + 1 := by
      rw [hout]; simp only [Actor.step, h1]; exact ⟨_, rfl, rfl, rfl⟩
    obtain ⟨r2, this, hk2, hh2⟩ := this
    rw [this]
    refine ⟨rfl, ⟨sec, hsec⟩, _, getOpen_setOpen_same _ _ _, hk2.trans hkind, ?_⟩
    simp [hh2, hh]

/-- … and therefore a local write issued afterwards — through the new handle or one opened while
the document was still read-only — is never refused as read-only or not-open. -/
theorem api_write_after_import (s : AState) (ns raw : Bytes) (e : Entry) (inv : OpenInv s)
    (hk : ∀ k0 raw0, nsGet s.t ns = some (k0, raw0) → k0 = 1 ∨ k0 = 2) :
    let s' := (step s (.importNs ns 1 raw)).1
    (step s' (.setHash ns e)).2 ≠ .errReadOnly ∧ (step s' (.setHash ns e)).2 ≠ .errNotOpen := by
  intro s'
  obtain ⟨_, _, r', hr', hkind, _⟩ := api_import_write s ns raw inv hk
  have hr'' : getOpen s' ns = some r' := hr'
  simp only [step, Actor.step, hr'', hkind]
  cases h : Tables.put s'.t e with
  | mk t' o => cases o <;> simp

/-- importing a read capability through the API never takes the write capability away from the
stored row or from the open copy -/
theorem api_import_read_keeps_write (s : AState) (ns raw sec : Bytes) (inv : OpenInv s)
    (h : nsGet s.t ns = some (1, sec)) :
    let out := step s (.importNs ns 2 raw)
    out.2 = .ok ∧ nsGet out.1.t ns = some (1, sec) ∧
    ∃ r', getOpen out.1 ns = some r' ∧ r'.kind = 1 ∧ r'.raw = sec := by
  intro out
  have inv' : OpenInv out.1 := step_openInv s _ inv
  have hout : out = Actor.step (Actor.step s (.importNamespace ns 2 raw)).1 (.openR ns false false) :=
    step_importNs s ns 2 raw
  have hkeep : nsGet (Actor.step s (.importNamespace ns 2 raw)).1.t ns = some (1, sec) := by
    have := (import_read_no_change s.t ns raw (1, sec) h).1
    simp only [Actor.step]
    cases (importNamespace s.t ns 2 raw).2 <;>
      cases getOpen { s with t := (importNamespace s.t ns 2 raw).1 } ns <;> exact this
  generalize hs1 : (Actor.step s (.importNamespace ns 2 raw)).1 = s1 at hout hkeep
  have ht : out.1.t = s1.t ∧ out.2 = .ok ∧ (getOpen out.1 ns).isSome := by
    rw [hout]
    cases h1 : getOpen s1 ns with
    | none =>
      simp only [Actor.step, h1, hkeep]
      refine ⟨rfl, trivial, ?_⟩
      have : ∀ (x : AState) so, getOpen { x with storeOpen := so } ns = getOpen x ns := fun _ _ => rfl
      rw [this, getOpen_setOpen_same]; rfl
    | some r1 =>
      simp only [Actor.step, h1]
      refine ⟨rfl, trivial, ?_⟩
      rw [getOpen_setOpen_same]; rfl
  obtain ⟨h1, h2, h3⟩ := ht
  refine ⟨h2, by rw [h1]; exact hkeep, ?_⟩
  cases hr : getOpen out.1 ns with
  | none => rw [hr] at h3; cases h3
  | some r' =>
    have := (inv'.open_ok ns r' hr).2.2
    rw [h1, hkeep] at this
    injection this with this
    injection this with ha hb
    exact ⟨r', rfl, ha.symm, hb.symm⟩

/-- non-vacuity, and the scenario of the property's third clause end to end: a read-only document
open through one handle; the write secret is imported; the *old* handle writes. -/
example :
    let rs : List Req := [.importNs [7] 2 [7], .setHash [7] { ns := [7], author := [1], key := [2], ts := 5, len := 3, hash := [4] },
                          .importNs [7] 1 [9], .setHash [7] { ns := [7], author := [1], key := [2], ts := 5, len := 3, hash := [4] }, .status [7],
                          .closeDoc [7], .closeDoc [7], .openDoc [7], .setHash [7] { ns := [7], author := [1], key := [3], ts := 5, len := 3, hash := [4] },
                          .importNs [7] 2 [7], .setHash [7] { ns := [7], author := [1], key := [4], ts := 5, len := 3, hash := [4] }]
    (run {} rs).2 = [.ok, .errReadOnly, .ok, .inserted 0, .state false 0 2, .ok, .ok, .ok, .inserted 0,
                     .ok, .inserted 0] := by decide

end Rpc

/-! ### for every history of client requests -/

namespace Rpc
open Spec Actor Tables

/-- the capability table holds only the two kinds the code can decode -/
def KindsOk (t : T) : Prop := ∀ r ∈ t.namespaces, r.2.1 = 1 ∨ r.2.1 = 2

theorem mem_nsInsert (r x : Bytes × Nat × Bytes) (l : List (Bytes × Nat × Bytes)) (h : x ∈ nsInsert r l) :
    x = r ∨ x ∈ l := by
  induction l with
  | nil => simp [nsInsert] at h; exact Or.inl h
  | cons y ys ih =>
    unfold nsInsert at h
    split at h
    · rcases List.mem_cons.mp h with h | h
      · exact Or.inl h
      · exact Or.inr h
    · split at h
      · rcases List.mem_cons.mp h with h | h
        · exact Or.inr (List.mem_cons.mpr (Or.inl h))
        · rcases ih h with h | h
          · exact Or.inl h
          · exact Or.inr (List.mem_cons.mpr (Or.inr h))
      · rcases List.mem_cons.mp h with h | h
        · exact Or.inl h
        · exact Or.inr (List.mem_cons.mpr (Or.inr h))

theorem kindsOk_nsGet {t : T} (h : KindsOk t) {ns : Bytes} {k0 : Nat} {raw0 : Bytes}
    (hg : nsGet t ns = some (k0, raw0)) : k0 = 1 ∨ k0 = 2 := by
  unfold nsGet at hg
  cases hf : t.namespaces.find? (fun r => r.1 == ns) with
  | none => rw [hf] at hg; cases hg
  | some r =>
    rw [hf] at hg
    have hm := List.mem_of_find?_eq_some hf
    have := h r hm
    simp only [Option.map_some, Option.some.injEq] at hg
    rw [hg] at this
    exact this

theorem kindsOk_import (t : T) (ns : Bytes) (kind : Nat) (raw : Bytes) (h : KindsOk t)
    (hk : kind = 1 ∨ kind = 2) : KindsOk (importNamespace t ns kind raw).1 := by
  unfold importNamespace
  cases hg : nsGet t ns with
  | none =>
    intro r hr
    rcases mem_nsInsert _ _ _ hr with h1 | h1
    · rw [h1]; exact hk
    · exact h r h1
  | some v =>
    obtain ⟨k0, raw0⟩ := v
    have hk0 := kindsOk_nsGet h hg
    simp only
    split
    · intro r hr
      rcases mem_nsInsert _ _ _ hr with h1 | h1
      · rw [h1]; exact Or.inl rfl
      · exact h r h1
    · intro r hr
      rcases mem_nsInsert _ _ _ hr with h1 | h1
      · rw [h1]; exact hk0
      · exact h r h1

theorem namespaces_put (t : T) (e : Entry) : (Tables.put t e).1.namespaces = t.namespaces := by
  unfold Tables.put
  split
  · rfl
  · simp [entryPut, removePrefixFiltered]

/-- a request is well formed when an imported capability is of one of the two kinds -/
def Req.wf : Req → Prop
  | .importNs _ kind _ => kind = 1 ∨ kind = 2
  | _ => True

theorem actor_step_kindsOk (s : AState) (a : Action) (h : KindsOk s.t)
    (hw : ∀ ns kind raw, a = .importNamespace ns kind raw → kind = 1 ∨ kind = 2) :
    KindsOk (Actor.step s a).1.t := by
  have put_ok : ∀ (t : T) e, KindsOk t → KindsOk (Tables.put t e).1 := by
    intro t e ht; unfold KindsOk; rw [namespaces_put]; exact ht
  have close_t : ∀ ns, (closeR s ns).1.t = s.t := by
    intro ns; unfold closeR
    cases getOpen s ns with
    | none => rfl
    | some r => simp only; split <;> rfl
  cases a with
  | openR ns sync sub =>
    simp only [Actor.step]
    cases getOpen s ns with
    | none => cases nsGet s.t ns with
      | none => exact h
      | some v => exact h
    | some r => exact h
  | close ns => simp only [Actor.step]; rw [close_t]; exact h
  | setSync ns b => simp only [Actor.step]; cases getOpen s ns <;> exact h
  | subscribe ns => simp only [Actor.step]; cases getOpen s ns <;> exact h
  | unsubscribe ns => simp only [Actor.step]; cases getOpen s ns <;> exact h
  | insertLocal ns e =>
    simp only [Actor.step]
    cases getOpen s ns with
    | none => exact h
    | some r =>
      simp only
      split
      · exact h
      · have := put_ok s.t e h
        rcases hp : Tables.put s.t e with ⟨t', o⟩
        rw [hp] at this
        cases o with
        | inserted n => exact this
        | notInserted => exact h
  | insertRemote ns now e =>
    simp only [Actor.step]
    cases getOpen s ns with
    | none => exact h
    | some r =>
      simp only
      split
      · exact h
      · have : KindsOk (Replica.insertRemoteEntry s.t ns now e).1 := by
          unfold Replica.insertRemoteEntry
          split
          · exact h
          · split
            · exact h
            · have := put_ok s.t e h
              rcases hp : Tables.put s.t e with ⟨t', o⟩
              rw [hp] at this
              cases o <;> exact this
        rcases hp : Replica.insertRemoteEntry s.t ns now e with ⟨t', res⟩
        rw [hp] at this
        cases res with
        | ok n => exact this
        | newerEntryExists => exact h
        | failed f => exact h
  | getExact ns a k i => simp only [Actor.step]; cases getOpen s ns <;> exact h
  | getMany ns => simp only [Actor.step]; cases getOpen s ns <;> exact h
  | syncInitial ns =>
    simp only [Actor.step]
    cases getOpen s ns with
    | none => exact h
    | some r => simp only; split <;> exact h
  | syncProcess ns now msg =>
    simp only [Actor.step]
    cases getOpen s ns with
    | none => exact h
    | some r =>
      simp only
      split
      · exact h
      · show KindsOk (Replica.syncProcessMessage {} s.t ns now msg {}).1.store
        unfold Replica.syncProcessMessage
        exact Ranger.processMessage_preserves (Ranger.tableOps ns) {} _ _ KindsOk put_ok s.t msg h
  | getState ns => simp only [Actor.step]; cases getOpen s ns <;> exact h
  | dropReplica ns =>
    simp only [Actor.step]
    split
    · rw [close_t]; exact h
    · intro r hr
      have : r ∈ (closeR s ns).1.t.namespaces := by
        simp only [removeReplica] at hr
        exact (List.mem_filter.mp hr).1
      rw [close_t] at this
      exact h r this
  | importNamespace ns kind raw =>
    have hk := hw ns kind raw rfl
    have := kindsOk_import s.t ns kind raw h hk
    simp only [Actor.step]
    cases (importNamespace s.t ns kind raw).2 <;>
      cases getOpen { s with t := (importNamespace s.t ns kind raw).1 } ns <;> exact this
  | exportSecret ns =>
    simp only [Actor.step]
    cases getOpen s ns with
    | none => exact h
    | some r => simp only; split <;> exact h

theorem step_kindsOk (s : AState) (r : Req) (h : KindsOk s.t) (hw : r.wf) : KindsOk (step s r).1.t := by
  cases r with
  | importNs ns kind raw =>
    rw [step_importNs]
    apply actor_step_kindsOk
    · apply actor_step_kindsOk _ _ h
      intro ns' k' raw' heq
      cases heq
      exact hw
    · intro ns' k' raw' heq; cases heq
  | openDoc ns => exact actor_step_kindsOk s _ h (by intro _ _ _ heq; cases heq)
  | closeDoc ns => exact actor_step_kindsOk s (.close ns) h (by intro _ _ _ heq; cases heq)
  | setHash ns e => exact actor_step_kindsOk s _ h (by intro _ _ _ heq; cases heq)
  | dropDoc ns => exact actor_step_kindsOk s _ h (by intro _ _ _ heq; cases heq)
  | getExact ns a k i => exact actor_step_kindsOk s _ h (by intro _ _ _ heq; cases heq)
  | status ns => exact actor_step_kindsOk s _ h (by intro _ _ _ heq; cases heq)

/-- both invariants hold after any history of well-formed client requests on a fresh node -/
theorem reachable_inv (rs : List Req) (hw : ∀ r ∈ rs, r.wf) :
    OpenInv (run {} rs).1 ∧ KindsOk (run {} rs).1.t := by
  unfold run
  suffices h : ∀ (acc : AState × List Reply), OpenInv acc.1 ∧ KindsOk acc.1.t →
      OpenInv (rs.foldl (fun (acc : AState × List Reply) a => let (s', r) := step acc.1 a; (s', acc.2 ++ [r])) acc).1 ∧
      KindsOk (rs.foldl (fun (acc : AState × List Reply) a => let (s', r) := step acc.1 a; (s', acc.2 ++ [r])) acc).1.t from
    h _ ⟨openInv_init {}, by intro r hr; cases hr⟩
  induction rs with
  | nil => intro acc h; exact h
  | cons a rest ih =>
    intro acc h
    simp only [List.foldl_cons]
    apply ih (fun r hr => hw r (List.mem_cons_of_mem _ hr))
    exact ⟨step_openInv acc.1 a h.1, step_kindsOk acc.1 a h.2 (hw a List.mem_cons_self)⟩

/-- **C07 at the client API, for every history.** After *any* sequence of client requests on a
fresh node, importing the write secret of a document answers ok and a write through any handle
issued next is neither refused as read-only nor as not-open — whether the document was unknown,
read-only or writable, closed or open (through handles obtained before the upgrade). -/
theorem import_write_then_write_any_history (rs : List Req) (hw : ∀ r ∈ rs, r.wf)
    (ns raw : Bytes) (e : Entry) :
    let s := (run {} rs).1
    (step s (.importNs ns 1 raw)).2 = .ok ∧
    (step (step s (.importNs ns 1 raw)).1 (.setHash ns e)).2 ≠ .errReadOnly ∧
    (step (step s (.importNs ns 1 raw)).1 (.setHash ns e)).2 ≠ .errNotOpen := by
  intro s
  obtain ⟨inv, hk⟩ := reachable_inv rs hw
  have hk' : ∀ k0 raw0, nsGet s.t ns = some (k0, raw0) → k0 = 1 ∨ k0 = 2 :=
    fun k0 raw0 hg => kindsOk_nsGet hk hg
  exact ⟨(api_import_write s ns raw inv hk').1, api_write_after_import s ns raw e inv hk'⟩

end Rpc
