import DocsModel.Model.Session
/-!
# C10 — a sync session ends cleanly whatever the peer sends and whatever fails locally

Model: `Session.bobRun` (`BobState::run` + `into_outcome`, with the F7 repair) and
`Session.aliceRun` (`run_alice`) as total functions of the peer's frames, the way the stream
ends, the accept decision and a store actor whose calls may fail. Totality (structural recursion
over the finite frame list) is the model's form of "never waits forever once the stream has
ended"; a peer that keeps the stream open and silent is outside the quantifier. That a request to
a stopped actor is answered at all is part of the actor (F14 repair), exercised by the harness.
-/

namespace Session
open Ranger Replica

/-- **The accepting side can always report its outcome**: whatever arrives, however the stream
ends, whatever the accept decision, and whichever store call fails, `progress` is available when
`run` returns (`into_outcome` does not panic). -/
theorem bob_outcome_always_available {S : Type} (actor : Actor S) (accept : Bytes → Accept)
    (items : List Item) (e : StreamEnd) (s : S) :
    (bobRun actor accept items e s).progress.isSome = true := by
  unfold bobRun
  suffices h : ∀ (items : List Item) (ns : Option Bytes) (p : Outcome) (s : S) (w : List Frame) (c : Nat),
      (bobLoop actor accept items e ns (some p) s w c).progress.isSome = true from h items none {} s [] 0
  intro items
  induction items with
  | nil =>
    intro ns p s w c
    cases e <;> cases ns <;> simp [bobLoop]
  | cons it rest ih =>
    intro ns p s w c
    cases it with
    | garbage => simp [bobLoop]
    | frame f =>
      cases f with
      | init n m =>
        cases ns with
        | some n0 => simp [bobLoop]
        | none =>
          simp only [bobLoop]
          cases accept n with
          | reject r => simp
          | allow =>
            simp only
            cases hc : actor.call s n m p with
            | none => simp
            | some v =>
              obtain ⟨s', reply, p'⟩ := v
              cases reply with
              | none => simp
              | some r => simp only; exact ih _ _ _ _ _
      | sync m =>
        cases ns with
        | none => simp [bobLoop]
        | some n0 =>
          simp only [bobLoop]
          cases hc : actor.call s n0 m p with
          | none => simp
          | some v =>
            obtain ⟨s', reply, p'⟩ := v
            cases reply with
            | none => simp
            | some r => simp only; exact ih _ _ _ _ _
      | abort r => cases ns <;> simp [bobLoop]

/-- **A declined request changes nothing**: one `Abort` frame is written, the store is not called
at all, its state is untouched, and the error names the reason. -/
theorem declined_is_noop {S : Type} (actor : Actor S) (accept : Bytes → Accept) (n : Bytes) (m : Message)
    (reason : Nat) (rest : List Item) (e : StreamEnd) (s : S) (h : accept n = .reject reason) :
    let out := bobRun actor accept (.frame (.init n m) :: rest) e s
    out.result = .aborted n reason ∧ out.written = [.abort reason] ∧ out.calls = 0 ∧ out.progress = some {} := by
  simp [bobRun, bobLoop, h]

/-- the store state after a declined request is the state before -/
theorem declined_store_unchanged {S : Type} (actor : Actor S) (accept : Bytes → Accept) (n : Bytes) (m : Message)
    (reason : Nat) (rest : List Item) (e : StreamEnd) (s : S) (h : accept n = .reject reason) :
    (bobRun actor accept (.frame (.init n m) :: rest) e s).store = s := by
  simp [bobRun, bobLoop, h]

/-- **Unexpected frames are errors** on the accepting side: a sync message before the handshake,
an abort, undecodable bytes, an early close. -/
theorem bob_unexpected_first_frame {S : Type} (actor : Actor S) (accept : Bytes → Accept)
    (rest : List Item) (e : StreamEnd) (s : S) :
    (∀ m, (bobRun actor accept (.frame (.sync m) :: rest) e s).result = .failed) ∧
    (∀ r, (bobRun actor accept (.frame (.abort r) :: rest) e s).result = .failed) ∧
    (bobRun actor accept (.garbage :: rest) e s).result = .failed ∧
    (bobRun actor accept [] e s).result = .failed := by
  refine ⟨?_, ?_, ?_, ?_⟩
  · intro m; simp [bobRun, bobLoop]
  · intro r; simp [bobRun, bobLoop]
  · simp [bobRun, bobLoop]
  · cases e <;> simp [bobRun, bobLoop]

/-- a second `Init` after an accepted first one is an error -/
theorem bob_double_init {S : Type} (actor : Actor S) (n n2 : Bytes) (m m2 : Message) (rest : List Item)
    (e : StreamEnd) (s s' : S) (r : Message) (p' : Outcome)
    (hcall : actor.call s n m {} = some (s', some r, p')) :
    (bobRun actor (fun _ => .allow) (.frame (.init n m) :: .frame (.init n2 m2) :: rest) e s).result = .failed := by
  simp [bobRun, bobLoop, hcall]

/-- **A local failure is reported**: when the store refuses the first call (replica closed, sync
disabled, actor gone) the accepting side fails, having written nothing, and can still report. -/
theorem bob_local_failure_reported {S : Type} (actor : Actor S) (n : Bytes) (m : Message) (rest : List Item)
    (e : StreamEnd) (s : S) (hcall : actor.call s n m {} = none) :
    let out := bobRun actor (fun _ => .allow) (.frame (.init n m) :: rest) e s
    out.result = .failed ∧ out.written = [] ∧ out.progress = some {} ∧ out.store = s := by
  simp [bobRun, bobLoop, hcall]

/-- the initiating side: an `Abort` is reported as the remote's refusal, an `Init`, undecodable
bytes or a close inside a frame are errors, a clean close ends the session with its outcome -/
theorem alice_first_frame {S : Type} (actor : Actor S) (ns : Bytes) (m0 : Message) (rest : List Item)
    (e : StreamEnd) (s : S) (hinit : actor.initial s ns = some m0) :
    (∀ r, match (aliceRun actor ns (.frame (.abort r) :: rest) e s).result with
          | .remoteAbort r' => r' = r | _ => False) ∧
    (∀ n m, match (aliceRun actor ns (.frame (.init n m) :: rest) e s).result with | .failed => True | _ => False) ∧
    (match (aliceRun actor ns (.garbage :: rest) e s).result with | .failed => True | _ => False) ∧
    (match (aliceRun actor ns [] .truncated s).result with | .failed => True | _ => False) ∧
    (match (aliceRun actor ns [] .eof s).result with | .ok _ => True | _ => False) := by
  refine ⟨?_, ?_, ?_, ?_, ?_⟩ <;> simp [aliceRun, aliceLoop, hinit]

/-- a failing initial call ends the initiating side before anything is written -/
theorem alice_local_failure_first {S : Type} (actor : Actor S) (ns : Bytes) (items : List Item) (e : StreamEnd) (s : S)
    (h : actor.initial s ns = none) :
    (aliceRun actor ns items e s).written = [] ∧ (aliceRun actor ns items e s).store = s := by
  simp [aliceRun, h]

/-- the number of store calls never exceeds the number of frames received -/
theorem bob_calls_le_frames {S : Type} (actor : Actor S) (accept : Bytes → Accept) (items : List Item)
    (e : StreamEnd) (s : S) : (bobRun actor accept items e s).calls ≤ items.length := by
  unfold bobRun
  suffices h : ∀ (items : List Item) (ns : Option Bytes) (p : Option Outcome) (s : S) (w : List Frame) (c : Nat),
      (bobLoop actor accept items e ns p s w c).calls ≤ c + items.length by
    have := h items none (some {}) s [] 0; simpa using this
  intro items
  induction items with
  | nil => intro ns p s w c; cases e <;> cases ns <;> simp [bobLoop]
  | cons it rest ih =>
    intro ns p s w c
    cases it with
    | garbage => simp [bobLoop]
    | frame f =>
      cases f with
      | abort r => cases ns <;> simp [bobLoop]
      | init n m =>
        cases ns with
        | some n0 => simp [bobLoop]
        | none =>
          simp only [bobLoop]
          cases accept n with
          | reject r => simp
          | allow =>
            cases p with
            | none => simp
            | some p0 =>
              simp only
              cases hc : actor.call s n m p0 with
              | none => simp
              | some v =>
                obtain ⟨s', reply, p'⟩ := v
                cases reply with
                | none => simp
                | some r =>
                  simp only
                  have := ih (some n) (some p') s' (w ++ [.sync r]) (c + 1)
                  simp only [List.length_cons]; omega
      | sync m =>
        cases ns with
        | none => simp [bobLoop]
        | some n0 =>
          simp only [bobLoop]
          cases p with
          | none => simp
          | some p0 =>
            simp only
            cases hc : actor.call s n0 m p0 with
            | none => simp
            | some v =>
              obtain ⟨s', reply, p'⟩ := v
              cases reply with
              | none => simp
              | some r =>
                simp only
                have := ih (some n0) (some p') s' (w ++ [.sync r]) (c + 1)
                simp only [List.length_cons]; omega

end Session
