import DocsModel.Model.Session
/-!
# Where the coordination layer (C11) meets the network layer (C10)

The protocol model of C11 (`Model/Coord.lean`) lets a *declined* request complete as a decline and
as nothing else: the live actor's `on_sync_via_accept_finished` ignores `Abort` and ignores errors
that name no document, and takes every other error for the end of the session that holds the
slot. That is an assumption about `net::handle_connection` and `BobState`. Here it is proved of
their model: whatever the peer sends before and after, however the streams end, and whether or
not closing the streams fails, the report for a request the accept callback declined is the
decline itself or an error that names no document.
-/

namespace Session
open Ranger Replica

/-- in the accepting loop, a decline can only happen while no document has been negotiated, and the
document recorded at exit is then still none -/
theorem bobLoop_aborted_ns {S : Type} (actor : Actor S) (accept : Bytes → Accept)
    (items : List Item) (e : StreamEnd) (ns : Option Bytes) (progress : Option Outcome) (s : S)
    (written : List Frame) (calls : Nat) (n : Bytes) (reason : Nat)
    (h : (bobLoop actor accept items e ns progress s written calls).result = .aborted n reason) :
    (bobLoop actor accept items e ns progress s written calls).nsAtExit = none := by
  induction items generalizing ns progress s written calls with
  | nil =>
    cases e <;> cases ns <;> simp [bobLoop] at h
  | cons it rest ih =>
    cases it with
    | garbage => simp [bobLoop] at h
    | frame f =>
      cases f with
      | abort r => cases ns <;> simp [bobLoop] at h
      | init n' m =>
        cases ns with
        | some x => simp [bobLoop] at h
        | none =>
          simp only [bobLoop] at h ⊢
          cases ha : accept n' with
          | reject r => simp [ha]
          | allow =>
            simp only [ha] at h ⊢
            cases progress with
            | none => simp at h
            | some p =>
              simp only at h ⊢
              cases hc : actor.call s n' m p with
              | none => simp [hc] at h
              | some v =>
                obtain ⟨s', reply, p'⟩ := v
                simp only [hc] at h ⊢
                cases reply with
                | none => simp at h
                | some r => exact ih _ _ _ _ _ h
      | sync m =>
        cases ns with
        | none => simp [bobLoop] at h
        | some x =>
          simp only [bobLoop] at h ⊢
          cases progress with
          | none => simp at h
          | some p =>
            simp only at h ⊢
            cases hc : actor.call s x m p with
            | none => simp [hc] at h
            | some v =>
              obtain ⟨s', reply, p'⟩ := v
              simp only [hc] at h ⊢
              cases reply with
              | none => simp at h
              | some r => exact ih _ _ _ _ _ h

/-- **A declined request is reported as the decline or anonymously.** Whatever else the peer does
and whether or not closing the streams fails, `handle_connection` reports `Abort` with the reason,
or an error that names no document — never an error the live actor would book as the end of a
session with that peer. -/
theorem declined_reports_no_document {S : Type} (actor : Actor S) (accept : Bytes → Accept)
    (items : List Item) (e : StreamEnd) (s : S) (closeFails : Bool) (n : Bytes) (reason : Nat)
    (h : (bobRun actor accept items e s).result = .aborted n reason) :
    handleConnection (bobRun actor accept items e s) closeFails = .abort n reason ∨
    handleConnection (bobRun actor accept items e s) closeFails = .error none := by
  have hns := bobLoop_aborted_ns actor accept items e none (some {}) s [] 0 n reason h
  unfold handleConnection
  cases closeFails with
  | true => right; simp only [if_true]; rw [show (bobRun actor accept items e s).nsAtExit = none from hns]
  | false => left; simp only [Bool.false_eq_true, if_false, h]

/-- the first frame decides: a request for a document the callback declines is declined, with one
`Abort` frame written and nothing asked of the store -/
theorem declined_first_frame {S : Type} (actor : Actor S) (accept : Bytes → Accept)
    (n : Bytes) (m : Ranger.Message) (rest : List Item) (e : StreamEnd) (s : S) (reason : Nat)
    (h : accept n = .reject reason) :
    let out := bobRun actor accept (.frame (.init n m) :: rest) e s
    out.result = .aborted n reason ∧ out.written = [.abort reason] ∧ out.calls = 0 ∧ out.nsAtExit = none := by
  simp [bobRun, bobLoop, h]

/-- non-vacuity: a decline, then a failing close -/
example :
    let actor : Actor Nat := { call := fun _ _ _ _ => none, initial := fun _ _ => none }
    let out := bobRun actor (fun _ => .reject 1) [.frame (.init [7] [])] .eof 0
    out.result = .aborted [7] 1 ∧ handleConnection out true = .error none ∧ handleConnection out false = .abort [7] 1 := by
  decide

end Session
