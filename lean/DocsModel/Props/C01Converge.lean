import DocsModel.Lemmas.Process
import DocsModel.Lemmas.Ranges
import DocsModel.Lemmas.StoreOk
import DocsModel.Props.C01
import DocsModel.Props.C08
/-!
# C01 — a reconciliation session that ends leaves both replicas with the merge

`Ranger.session` on the ordered-map backend (`mapOps`; the redb tables refine it, C08). For every
pair of starting states, every `split_factor ≥ 2` and `max_set_size`, both initiators: if the
session ends (a message is answered by silence) then both replicas hold exactly `join (A₀ ∪ B₀)`.

The proof is an invariant over the message in flight: every entry of the merge is held by at least
one side, and is either held by both or *carried* by a part of the message — a fingerprint of the
sender's current entries over a range containing it, the sender's complete entry list of such a
range, or the entry itself.
-/

namespace Ranger
open Spec Entry

/-- XOR of entry fingerprints, as `get_fingerprint` computes it -/
def fpOf (l : List Entry) : Bytes := l.foldl (fun acc e => Tables.xorBytes acc e.fp) emptyFp

/-- Hypothesis on BLAKE3 (outside the model): two different sets of entries of `U` never have the
same XOR fingerprint. -/
def FpInjective (U : List Entry) : Prop :=
  ∀ l1 l2 : List Entry, (∀ e ∈ l1, e ∈ U) → (∀ e ∈ l2, e ∈ U) → SortedById l1 → SortedById l2 →
    fpOf l1 = fpOf l2 → ∀ e, e ∈ l1 ↔ e ∈ l2

section
variable (U : List Entry) (validate : Entry → Bool) (statusOf : Entry → Status)

/-- a replica state made of entries of `U` -/
structure Good (s : Store) : Prop where
  ok : StoreOk s
  sub : ∀ e ∈ s, e ∈ U

variable {U}

theorem good_put {s : Store} (g : Good U s) {e : Entry} (he : e ∈ U) : Good U (put s e).1 :=
  ⟨put_ok g.ok e, fun x hx => by
    rcases put_sub g.ok e x hx with h | h
    · exact h ▸ he
    · exact g.sub x h⟩

theorem join_keep (hpf : PayloadFunctional U) {s : Store} (g : Good U s) {j e : Entry}
    (hj : j ∈ join U) (hjs : j ∈ s) (he : e ∈ U) : j ∈ (put s e).1 :=
  join_entry_never_removed U hpf s g.ok.sorted j e hj hjs he

theorem mem_join' (O : List Entry) (x : Entry) : x ∈ join O ↔ x ∈ O ∧ isMax O x := by
  unfold join
  simp [List.mem_filter]

theorem join_put {s : Store} (g : Good U s) {j : Entry} (hj : j ∈ join U) : j ∈ (put s j).1 := by
  obtain ⟨m, hm, hd⟩ := put_covers_new g.ok j
  have hjU := (mem_join' U j).mp hj
  have hmU : m ∈ U := (good_put g hjU.1).sub m hm
  have : m = j := hjU.2 m hmU hd
  exact this ▸ hm

/-! ### storing the values of an item part -/

theorem mapOps_put (s : Store) (e : Entry) : mapOps.put s e = Spec.put s e := rfl

theorem valStep_good (acc : Store × Vals) (g : Good U acc.1) (v : Entry × Status) (hv : v.1 ∈ U) :
    Good U (valStep mapOps validate acc v).1 := by
  rw [valStep_store, mapOps_put]
  split
  · exact good_put g hv
  · exact g

theorem storeVals_good (values : Vals) (acc : Store × Vals) (g : Good U acc.1)
    (hv : ∀ v ∈ values, v.1 ∈ U) : Good U (storeVals mapOps validate acc values).1 := by
  induction values generalizing acc with
  | nil => exact g
  | cons v rest ih =>
    rw [storeVals_cons]
    exact ih _ (valStep_good validate acc g v (hv v List.mem_cons_self))
      (fun v' h => hv v' (List.mem_cons_of_mem _ h))

theorem storeVals_keep (hpf : PayloadFunctional U) (values : Vals) (acc : Store × Vals) (g : Good U acc.1)
    (hv : ∀ v ∈ values, v.1 ∈ U) {j : Entry} (hj : j ∈ join U) (hjs : j ∈ acc.1) :
    j ∈ (storeVals mapOps validate acc values).1 := by
  induction values generalizing acc with
  | nil => exact hjs
  | cons v rest ih =>
    rw [storeVals_cons]
    have hvU := hv v List.mem_cons_self
    apply ih _ (valStep_good validate acc g v hvU) (fun v' h => hv v' (List.mem_cons_of_mem _ h))
    rw [valStep_store, mapOps_put]
    split
    · exact join_keep hpf g hj hjs hvU
    · exact hjs

theorem storeVals_gets (hpf : PayloadFunctional U) (hval : ∀ e ∈ U, validate e = true)
    (values : Vals) (acc : Store × Vals) (g : Good U acc.1)
    (hv : ∀ v ∈ values, v.1 ∈ U) {j : Entry} (hj : j ∈ join U) (hjv : j ∈ values.map (·.1)) :
    j ∈ (storeVals mapOps validate acc values).1 := by
  induction values generalizing acc with
  | nil => simp at hjv
  | cons v rest ih =>
    rw [storeVals_cons]
    have hvU := hv v List.mem_cons_self
    have g' := valStep_good validate acc g v hvU
    have hrest : ∀ v' ∈ rest, v'.1 ∈ U := fun v' h => hv v' (List.mem_cons_of_mem _ h)
    simp only [List.map_cons, List.mem_cons] at hjv
    rcases hjv with hjv | hjv
    · -- j is this value: stored now, kept afterwards
      apply storeVals_keep validate hpf rest _ g' hrest hj
      rw [valStep_store, mapOps_put, ← hjv, hval j ((mem_join' U j).mp hj).1]
      simp only [if_true]
      exact join_put g hj
    · exact ih _ g' hrest hjv


/-! ### the item loop -/

def PartOk (U : List Entry) : Part → Prop
  | .item _ vs _ => ∀ v ∈ vs, v.1 ∈ U
  | .fingerprint _ _ => True

def ItemsOk (U : List Entry) (items : List (Range × Vals × Bool)) : Prop :=
  ∀ it ∈ items, ∀ v ∈ it.2.1, v.1 ∈ U

theorem itemStep_store (acc : Store × List Part × Vals) (it : Range × Vals × Bool) :
    (itemStep mapOps validate statusOf acc it).1 = (storeVals mapOps validate (acc.1, acc.2.2) it.2.1).1 := by
  obtain ⟨s, out, evs⟩ := acc
  obtain ⟨r, vs, hl⟩ := it
  rfl

theorem itemStep_out (acc : Store × List Part × Vals) (it : Range × Vals × Bool) :
    (itemStep mapOps validate statusOf acc it).2.1 =
      if it.2.2 then acc.2.1
      else if (diffOf mapOps statusOf acc.1 it.1 it.2.1).isEmpty then acc.2.1
      else acc.2.1 ++ [.item it.1 (diffOf mapOps statusOf acc.1 it.1 it.2.1) true] := by
  obtain ⟨s, out, evs⟩ := acc
  obtain ⟨r, vs, hl⟩ := it
  cases hl <;> rfl

theorem mem_diffOf (s : Store) (r : Range) (vs : Vals) (j : Entry) :
    j ∈ (diffOf mapOps statusOf s r vs).map (·.1) ↔
      j ∈ s ∧ r.contains j.idBytes ∧ ¬ ∃ v ∈ vs, sameId j v.1 ∧ valueLe j v.1 := by
  unfold diffOf
  simp only [List.map_map, List.mem_map, List.mem_filter, Function.comp]
  constructor
  · rintro ⟨e, ⟨he, hf⟩, rfl⟩
    simp only [mapOps, List.mem_filter, decide_eq_true_eq] at he
    refine ⟨he.1, he.2, ?_⟩
    rintro ⟨v, hv, h1, h2⟩
    simp only [Bool.not_eq_true', List.any_eq_false] at hf
    have := hf v hv
    simp [h1, h2] at this
  · rintro ⟨hjs, hr, hno⟩
    refine ⟨j, ⟨?_, ?_⟩, rfl⟩
    · simp only [mapOps, List.mem_filter, decide_eq_true_eq]; exact ⟨hjs, hr⟩
    · simp only [Bool.not_eq_true', List.any_eq_false]
      intro v hv
      by_cases h1 : sameId j v.1
      · by_cases h2 : valueLe j v.1
        · exact absurd ⟨v, hv, h1, h2⟩ hno
        · simp [h2]
      · simp [h1]

theorem diffOf_sub (s : Store) (r : Range) (vs : Vals) (v : Entry × Status)
    (hv : v ∈ diffOf mapOps statusOf s r vs) : v.1 ∈ s := by
  have : v.1 ∈ (diffOf mapOps statusOf s r vs).map (·.1) := List.mem_map.mpr ⟨v, hv, rfl⟩
  exact ((mem_diffOf statusOf s r vs v.1).mp this).1

/-- an entry of the merge is withheld from a `diff` only if the peer's values contain it -/
theorem join_in_diff (hpf : PayloadFunctional U) {s : Store} {r : Range} {vs : Vals} {j : Entry}
    (hvs : ∀ v ∈ vs, v.1 ∈ U) (hj : j ∈ join U) (hjs : j ∈ s) (hr : r.contains j.idBytes)
    (hnot : j ∉ vs.map (·.1)) : j ∈ (diffOf mapOps statusOf s r vs).map (·.1) := by
  rw [mem_diffOf]
  refine ⟨hjs, hr, ?_⟩
  rintro ⟨v, hv, hid, hle⟩
  have hjU := (mem_join' U j).mp hj
  have hdom : dom v.1 j := ⟨⟨hid.1.symm, hid.2.1.symm, hid.2.2 ▸ List.prefix_refl _⟩, hle⟩
  have : v.1 = j := hjU.2 v.1 (hvs v hv) hdom
  exact hnot (List.mem_map.mpr ⟨v, hv, this⟩)

abbrev foldI (acc : Store × List Part × Vals) (items : List (Range × Vals × Bool)) :=
  items.foldl (itemStep mapOps validate statusOf) acc

theorem foldI_cons (acc : Store × List Part × Vals) (it : Range × Vals × Bool) (rest : List (Range × Vals × Bool)) :
    foldI validate statusOf acc (it :: rest) =
      foldI validate statusOf (itemStep mapOps validate statusOf acc it) rest := rfl

theorem itemStep_good (acc : Store × List Part × Vals) (it : Range × Vals × Bool) (g : Good U acc.1)
    (hit : ∀ v ∈ it.2.1, v.1 ∈ U) : Good U (itemStep mapOps validate statusOf acc it).1 := by
  rw [itemStep_store]
  exact storeVals_good validate it.2.1 (acc.1, acc.2.2) g hit

theorem foldI_good (items : List (Range × Vals × Bool)) (acc : Store × List Part × Vals) (g : Good U acc.1)
    (hok : ItemsOk U items) : Good U (foldI validate statusOf acc items).1 := by
  induction items generalizing acc with
  | nil => exact g
  | cons it rest ih =>
    rw [foldI_cons]
    exact ih _ (itemStep_good validate statusOf acc it g (hok it List.mem_cons_self))
      (fun it' h => hok it' (List.mem_cons_of_mem _ h))

theorem foldI_keep (hpf : PayloadFunctional U) (items : List (Range × Vals × Bool))
    (acc : Store × List Part × Vals) (g : Good U acc.1) (hok : ItemsOk U items)
    {j : Entry} (hj : j ∈ join U) (hjs : j ∈ acc.1) : j ∈ (foldI validate statusOf acc items).1 := by
  induction items generalizing acc with
  | nil => exact hjs
  | cons it rest ih =>
    rw [foldI_cons]
    have hit := hok it List.mem_cons_self
    apply ih _ (itemStep_good validate statusOf acc it g hit) (fun it' h => hok it' (List.mem_cons_of_mem _ h))
    rw [itemStep_store]
    exact storeVals_keep validate hpf it.2.1 (acc.1, acc.2.2) g hit hj hjs

theorem foldI_gets (hpf : PayloadFunctional U) (hval : ∀ e ∈ U, validate e = true)
    (items : List (Range × Vals × Bool))
    (acc : Store × List Part × Vals) (g : Good U acc.1) (hok : ItemsOk U items)
    {j : Entry} (hj : j ∈ join U) (it : Range × Vals × Bool) (hit : it ∈ items) (hjv : j ∈ it.2.1.map (·.1)) :
    j ∈ (foldI validate statusOf acc items).1 := by
  induction items generalizing acc with
  | nil => simp at hit
  | cons it' rest ih =>
    rw [foldI_cons]
    have hit' := hok it' List.mem_cons_self
    have g' := itemStep_good validate statusOf acc it' g hit'
    have hrest : ItemsOk U rest := fun x h => hok x (List.mem_cons_of_mem _ h)
    rcases List.mem_cons.mp hit with h | h
    · subst h
      apply foldI_keep validate statusOf hpf rest _ g' hrest hj
      rw [itemStep_store]
      exact storeVals_gets validate hpf hval it.2.1 (acc.1, acc.2.2) g hit' hj hjv
    · exact ih _ g' hrest h

theorem itemStep_out_mono (acc : Store × List Part × Vals) (it : Range × Vals × Bool) (p : Part)
    (hp : p ∈ acc.2.1) : p ∈ (itemStep mapOps validate statusOf acc it).2.1 := by
  rw [itemStep_out]
  split
  · exact hp
  · split
    · exact hp
    · exact List.mem_append_left _ hp

theorem foldI_out_mono (items : List (Range × Vals × Bool)) (acc : Store × List Part × Vals) (p : Part)
    (hp : p ∈ acc.2.1) : p ∈ (foldI validate statusOf acc items).2.1 := by
  induction items generalizing acc with
  | nil => exact hp
  | cons it rest ih =>
    rw [foldI_cons]
    exact ih _ (itemStep_out_mono validate statusOf acc it p hp)

/-- an entry of the merge that we hold and that the peer's complete list for its range lacks goes
into the reply -/
theorem foldI_diff (hpf : PayloadFunctional U) (items : List (Range × Vals × Bool))
    (acc : Store × List Part × Vals) (g : Good U acc.1) (hok : ItemsOk U items)
    {j : Entry} (hj : j ∈ join U) (hjs : j ∈ acc.1) (r : Range) (vs : Vals) (hit : (r, vs, false) ∈ items)
    (hr : r.contains j.idBytes) (hnot : j ∉ vs.map (·.1)) :
    ∃ d, Part.item r d true ∈ (foldI validate statusOf acc items).2.1 ∧ j ∈ d.map (·.1) := by
  induction items generalizing acc with
  | nil => simp at hit
  | cons it' rest ih =>
    rw [foldI_cons]
    have hit' := hok it' List.mem_cons_self
    have g' := itemStep_good validate statusOf acc it' g hit'
    have hrest : ItemsOk U rest := fun x h => hok x (List.mem_cons_of_mem _ h)
    rcases List.mem_cons.mp hit with h | h
    · subst h
      have hd := join_in_diff statusOf hpf hit' hj hjs hr hnot
      refine ⟨diffOf mapOps statusOf acc.1 r vs, ?_, hd⟩
      apply foldI_out_mono
      rw [itemStep_out]
      have hne : (diffOf mapOps statusOf acc.1 r vs).isEmpty = false := by
        cases hdd : diffOf mapOps statusOf acc.1 r vs with
        | nil => rw [hdd] at hd; simp at hd
        | cons _ _ => rfl
      simp [hne]
    · apply ih _ g' hrest _ h
      rw [itemStep_store]
      exact storeVals_keep validate hpf it'.2.1 (acc.1, acc.2.2) g hit' hj hjs

theorem foldI_out_ok (items : List (Range × Vals × Bool)) (acc : Store × List Part × Vals) (g : Good U acc.1)
    (hok : ItemsOk U items) (hout : ∀ p ∈ acc.2.1, PartOk U p) :
    ∀ p ∈ (foldI validate statusOf acc items).2.1, PartOk U p := by
  induction items generalizing acc with
  | nil => exact hout
  | cons it rest ih =>
    rw [foldI_cons]
    have hit := hok it List.mem_cons_self
    apply ih _ (itemStep_good validate statusOf acc it g hit) (fun x h => hok x (List.mem_cons_of_mem _ h))
    intro p hp
    rw [itemStep_out] at hp
    split at hp
    · exact hout p hp
    · split at hp
      · exact hout p hp
      · rcases List.mem_append.mp hp with h | h
        · exact hout p h
        · simp only [List.mem_singleton] at h
          subst h
          exact fun v hv => g.sub v.1 (diffOf_sub statusOf acc.1 it.1 it.2.1 v hv)


/-! ### the fingerprint loop -/

/-- the part sent for a sub-range of a split -/
def chunkPart (cfg : Config) (s : Store) (r : Range) : Part :=
  if (mapOps.getRange s r).length > cfg.maxSetSize then .fingerprint r (mapOps.getFingerprint s r)
  else .item r ((mapOps.getRange s r).map fun e => (e, statusOf e)) false

theorem fpStep_eq (cfg : Config) (s : Store) (out : List Part) (r : Range) (fp : Bytes) :
    fpStep mapOps cfg statusOf s out (r, fp) =
      if mapOps.getFingerprint s r = fp then out
      else if (mapOps.getRange s r).length ≤ 1 ∨ fp = emptyFp then
        out ++ [.item r ((mapOps.getRange s r).map fun e => (e, statusOf e)) false]
      else out ++ (splitRanges cfg r (mapOps.getRange s r)).map (chunkPart statusOf cfg s) := rfl

abbrev foldF (cfg : Config) (s : Store) (out : List Part) (fps : List (Range × Bytes)) :=
  fps.foldl (fpStep mapOps cfg statusOf s) out

theorem foldF_cons (cfg : Config) (s : Store) (out : List Part) (it : Range × Bytes) (rest : List (Range × Bytes)) :
    foldF statusOf cfg s out (it :: rest) = foldF statusOf cfg s (fpStep mapOps cfg statusOf s out it) rest := rfl

theorem fpStep_mono (cfg : Config) (s : Store) (out : List Part) (it : Range × Bytes) (p : Part) (hp : p ∈ out) :
    p ∈ fpStep mapOps cfg statusOf s out it := by
  obtain ⟨r, fp⟩ := it
  rw [fpStep_eq]
  split
  · exact hp
  · split <;> exact List.mem_append_left _ hp

theorem foldF_mono (cfg : Config) (s : Store) (fps : List (Range × Bytes)) (out : List Part) (p : Part)
    (hp : p ∈ out) : p ∈ foldF statusOf cfg s out fps := by
  induction fps generalizing out with
  | nil => exact hp
  | cons it rest ih => rw [foldF_cons]; exact ih _ (fpStep_mono statusOf cfg s out it p hp)

/-- what the reply contains for a fingerprint part that does not match -/
theorem foldF_answers (cfg : Config) (s : Store) (fps : List (Range × Bytes)) (out : List Part)
    (r : Range) (fp : Bytes) (hmem : (r, fp) ∈ fps) (hne : mapOps.getFingerprint s r ≠ fp) :
    (((mapOps.getRange s r).length ≤ 1 ∨ fp = emptyFp) ∧
      Part.item r ((mapOps.getRange s r).map fun e => (e, statusOf e)) false ∈ foldF statusOf cfg s out fps) ∨
    (¬ ((mapOps.getRange s r).length ≤ 1 ∨ fp = emptyFp) ∧
      ∀ r' ∈ splitRanges cfg r (mapOps.getRange s r), chunkPart statusOf cfg s r' ∈ foldF statusOf cfg s out fps) := by
  induction fps generalizing out with
  | nil => simp at hmem
  | cons it rest ih =>
    rw [foldF_cons]
    rcases List.mem_cons.mp hmem with h | h
    · subst h
      by_cases hc : (mapOps.getRange s r).length ≤ 1 ∨ fp = emptyFp
      · refine Or.inl ⟨hc, foldF_mono statusOf cfg s rest _ _ ?_⟩
        rw [fpStep_eq]
        simp [hne, hc]
      · refine Or.inr ⟨hc, fun r' hr' => foldF_mono statusOf cfg s rest _ _ ?_⟩
        rw [fpStep_eq]
        simp only [hne, if_false, hc]
        exact List.mem_append_right _ (List.mem_map.mpr ⟨r', hr', rfl⟩)
    · exact ih _ h

theorem getRange_sub (s : Store) (r : Range) (e : Entry) (he : e ∈ mapOps.getRange s r) : e ∈ s := by
  simp only [mapOps, List.mem_filter] at he
  exact he.1

theorem chunkPart_ok {s : Store} (g : Good U s) (cfg : Config) (r : Range) : PartOk U (chunkPart statusOf cfg s r) := by
  unfold chunkPart
  split
  · trivial
  · intro v hv
    obtain ⟨e, he, rfl⟩ := List.mem_map.mp hv
    exact g.sub e (getRange_sub s r e he)

theorem foldF_out_ok (cfg : Config) {s : Store} (g : Good U s) (fps : List (Range × Bytes)) (out : List Part)
    (hout : ∀ p ∈ out, PartOk U p) : ∀ p ∈ foldF statusOf cfg s out fps, PartOk U p := by
  induction fps generalizing out with
  | nil => exact hout
  | cons it rest ih =>
    rw [foldF_cons]
    apply ih
    obtain ⟨r, fp⟩ := it
    rw [fpStep_eq]
    intro p hp
    split at hp
    · exact hout p hp
    · split at hp
      · rcases List.mem_append.mp hp with h | h
        · exact hout p h
        · simp only [List.mem_singleton] at h
          subst h
          intro v hv
          obtain ⟨e, he, rfl⟩ := List.mem_map.mp hv
          exact g.sub e (getRange_sub s r e he)
      · rcases List.mem_append.mp hp with h | h
        · exact hout p h
        · obtain ⟨r', _, rfl⟩ := List.mem_map.mp h
          exact chunkPart_ok statusOf g cfg r'


/-! ### the invariant of a session -/

/-- how a part of the message in flight (sent by the replica in state `x`) accounts for the entry `j` -/
def Carries (x : Store) (j : Entry) : Part → Prop
  | .fingerprint r fp => r.contains j.idBytes ∧ fp = mapOps.getFingerprint x r
  | .item r vs false => r.contains j.idBytes ∧ ∀ e, e ∈ vs.map (·.1) ↔ e ∈ mapOps.getRange x r
  | .item _ vs true => j ∈ vs.map (·.1) ∧ j ∈ x

/-- `m` travels from the replica in state `x` to the replica in state `y` -/
structure Inv (U : List Entry) (x y : Store) (m : Message) : Prop where
  gx : Good U x
  gy : Good U y
  mok : ∀ p ∈ m, PartOk U p
  have1 : ∀ j ∈ join U, j ∈ x ∨ j ∈ y
  pend : ∀ j ∈ join U, (j ∈ x ∧ j ∈ y) ∨ ∃ p ∈ m, Carries x j p

theorem mem_itemsOf (m : Message) (r : Range) (vs : Vals) (hl : Bool) :
    (r, vs, hl) ∈ itemsOf m ↔ Part.item r vs hl ∈ m := by
  unfold itemsOf
  rw [List.mem_filterMap]
  constructor
  · rintro ⟨p, hp, h⟩
    cases p with
    | fingerprint _ _ => simp at h
    | item r' vs' hl' => simp at h; obtain ⟨rfl, rfl, rfl⟩ := h; exact hp
  · intro h; exact ⟨_, h, rfl⟩

theorem mem_fpsOf (m : Message) (r : Range) (fp : Bytes) :
    (r, fp) ∈ fpsOf m ↔ Part.fingerprint r fp ∈ m := by
  unfold fpsOf
  rw [List.mem_filterMap]
  constructor
  · rintro ⟨p, hp, h⟩
    cases p with
    | item _ _ _ => simp at h
    | fingerprint r' fp' => simp at h; obtain ⟨rfl, rfl⟩ := h; exact hp
  · intro h; exact ⟨_, h, rfl⟩

theorem itemsOk_of_mok {m : Message} (mok : ∀ p ∈ m, PartOk U p) : ItemsOk U (itemsOf m) := by
  intro it hit v hv
  obtain ⟨r, vs, hl⟩ := it
  exact mok _ ((mem_itemsOf m r vs hl).mp hit) v hv

theorem getFingerprint_eq_fpOf (s : Store) (r : Range) : mapOps.getFingerprint s r = fpOf (mapOps.getRange s r) := rfl

theorem mem_getRange (s : Store) (r : Range) (e : Entry) :
    e ∈ mapOps.getRange s r ↔ e ∈ s ∧ r.contains e.idBytes := by
  simp [mapOps, List.mem_filter]

theorem getRange_sorted {s : Store} (g : Good U s) (r : Range) : SortedById (mapOps.getRange s r) :=
  List.Pairwise.sublist List.filter_sublist g.ok.sorted

/-- identifiers as byte strings are ordered like the ids, for 32-byte namespaces and authors -/
theorem idBytes_lt_of_idLt {a b : Entry} (ha : Tables.Wf a) (hb : Tables.Wf b) (h : idLt a b) :
    a.idBytes < b.idBytes := by
  unfold Entry.idBytes
  have hl1 : a.ns.length = b.ns.length := by rw [ha.1, hb.1]
  have hl2 : (a.ns ++ a.author).length = (b.ns ++ b.author).length := by simp [ha.1, ha.2, hb.1, hb.2]
  rw [Tables.append_lt_append_iff _ _ _ _ hl2, Tables.append_lt_append_iff _ _ _ _ hl1]
  rcases h with h | ⟨h1, h | ⟨h2, h3⟩⟩
  · exact Or.inl (Or.inl h)
  · exact Or.inl (Or.inr ⟨h1, h⟩)
  · exact Or.inr ⟨by rw [h1, h2], h3⟩

theorem getRange_ids_sorted {s : Store} (g : Good U s) (hwf : ∀ e ∈ U, Tables.Wf e) (r : Range) :
    ((mapOps.getRange s r).map (·.idBytes)).Pairwise (· < ·) := by
  rw [List.pairwise_map]
  apply List.Pairwise.imp_of_mem _ (getRange_sorted g r)
  intro a b ha hb hab
  exact idBytes_lt_of_idLt (hwf a (g.sub a (getRange_sub s r a ha))) (hwf b (g.sub b (getRange_sub s r b hb))) hab

theorem carries_chunk (cfg : Config) (s : Store) (r : Range) (j : Entry) (hr : r.contains j.idBytes) :
    Carries s j (chunkPart statusOf cfg s r) := by
  unfold chunkPart
  split
  · exact ⟨hr, rfl⟩
  · refine ⟨hr, fun e => ?_⟩
    simp [List.map_map, Function.comp]

/-- **One message.** If the invariant holds for `m` travelling from `x` to `y`, then after `y`
has processed `m` every entry of the merge is held by both sides or carried by a part of the reply. -/
theorem step_carries (hpf : PayloadFunctional U) (hval : ∀ e ∈ U, validate e = true)
    (hfp : FpInjective U) (hwf : ∀ e ∈ U, Tables.Wf e) (cfg : Config) (hk : 2 ≤ cfg.splitFactor)
    {x y : Store} {m : Message} (inv : Inv U x y m) :
    let R := foldI validate statusOf (y, [], []) (itemsOf m)
    let out := foldF statusOf cfg R.1 R.2.1 (fpsOf m)
    Good U R.1 ∧ (∀ p ∈ out, PartOk U p) ∧ (∀ j ∈ join U, j ∈ y → j ∈ R.1) ∧
    ∀ j ∈ join U, (j ∈ R.1 ∧ j ∈ x) ∨ ∃ p ∈ out, Carries R.1 j p := by
  intro R out
  have hok : ItemsOk U (itemsOf m) := itemsOk_of_mok inv.mok
  have gR : Good U R.1 := foldI_good validate statusOf (itemsOf m) (y, [], []) inv.gy hok
  have keep : ∀ j ∈ join U, j ∈ y → j ∈ R.1 := fun j hj hjy =>
    foldI_keep validate statusOf hpf (itemsOf m) (y, [], []) inv.gy hok hj hjy
  have houtI : ∀ p ∈ R.2.1, PartOk U p :=
    foldI_out_ok validate statusOf (itemsOf m) (y, [], []) inv.gy hok (by intro p hp; simp at hp)
  refine ⟨gR, foldF_out_ok statusOf cfg gR (fpsOf m) R.2.1 houtI, keep, ?_⟩
  intro j hj
  rcases inv.pend j hj with ⟨hjx, hjy⟩ | ⟨p, hp, hc⟩
  · exact Or.inl ⟨keep j hj hjy, hjx⟩
  · cases p with
    | item r vs hl =>
      cases hl with
      | true =>
        -- the entry itself: stored now
        obtain ⟨hjv, hjx⟩ := hc
        exact Or.inl ⟨foldI_gets validate statusOf hpf hval (itemsOf m) (y, [], []) inv.gy hok hj (r, vs, true)
          ((mem_itemsOf m r vs true).mpr hp) hjv, hjx⟩
      | false =>
        obtain ⟨hr, hvs⟩ := hc
        by_cases hjx : j ∈ x
        · -- the sender's complete list contains it: stored now
          have hjv : j ∈ vs.map (·.1) := (hvs j).mpr ((mem_getRange x r j).mpr ⟨hjx, hr⟩)
          exact Or.inl ⟨foldI_gets validate statusOf hpf hval (itemsOf m) (y, [], []) inv.gy hok hj (r, vs, false)
            ((mem_itemsOf m r vs false).mpr hp) hjv, hjx⟩
        · -- only we hold it: it goes into the reply
          have hjy : j ∈ y := (inv.have1 j hj).resolve_left hjx
          have hnot : j ∉ vs.map (·.1) := fun h => hjx ((mem_getRange x r j).mp ((hvs j).mp h)).1
          obtain ⟨d, hd, hjd⟩ := foldI_diff validate statusOf hpf (itemsOf m) (y, [], []) inv.gy hok hj hjy r vs
            ((mem_itemsOf m r vs false).mpr hp) hr hnot
          exact Or.inr ⟨.item r d true, foldF_mono statusOf cfg R.1 (fpsOf m) R.2.1 _ hd, hjd, keep j hj hjy⟩
    | fingerprint r fp =>
      obtain ⟨hr, hfpeq⟩ := hc
      by_cases heq : mapOps.getFingerprint R.1 r = fp
      · -- equal fingerprints: equal sets over the range
        rw [hfpeq, getFingerprint_eq_fpOf, getFingerprint_eq_fpOf] at heq
        have hsame := hfp (mapOps.getRange R.1 r) (mapOps.getRange x r)
          (fun e he => gR.sub e (getRange_sub _ r e he)) (fun e he => inv.gx.sub e (getRange_sub _ r e he))
          (getRange_sorted gR r) (getRange_sorted inv.gx r) heq j
        rw [mem_getRange, mem_getRange] at hsame
        rcases inv.have1 j hj with hjx | hjy
        · exact Or.inl ⟨(hsame.mpr ⟨hjx, hr⟩).1, hjx⟩
        · have hjR := keep j hj hjy
          exact Or.inl ⟨hjR, (hsame.mp ⟨hjR, hr⟩).1⟩
      · rcases foldF_answers statusOf cfg R.1 (fpsOf m) R.2.1 r fp ((mem_fpsOf m r fp).mpr hp) heq with
          ⟨_, hmem⟩ | ⟨hbig, hmem⟩
        · refine Or.inr ⟨_, hmem, hr, fun e => ?_⟩
          simp [List.map_map, Function.comp]
        · -- split: some sub-range contains the identifier
          have hcover : ∃ r' ∈ splitRanges cfg r (mapOps.getRange R.1 r), r'.contains j.idBytes := by
            by_cases hxy : r.x = r.y
            · have hlen : 2 ≤ (mapOps.getRange R.1 r).length := by
                have : ¬ (mapOps.getRange R.1 r).length ≤ 1 := fun h => hbig (Or.inl h)
                omega
              exact splitRanges_cover_all cfg r _ hk hxy
                (pivots_not_all_equal cfg.splitFactor r.x _ hk hlen (getRange_ids_sorted gR hwf r)) j.idBytes
            · exact splitRanges_cover cfg r _ hk hxy j.idBytes hr
          obtain ⟨r', hr'mem, hr'c⟩ := hcover
          exact Or.inr ⟨_, hmem r' hr'mem, carries_chunk statusOf cfg R.1 r' j hr'c⟩


/-! ### the whole session -/

/-- did the session end (a message answered by silence) within the fuel? -/
def ended (cfg : Config) : Nat → Store → Store → Message → Bool
  | 0, _, _, _ => false
  | fuel + 1, a, b, msg =>
    match (processMessage mapOps cfg validate statusOf b msg).reply with
    | none => true
    | some reply => ended cfg fuel (processMessage mapOps cfg validate statusOf b msg).store a reply

/-- a replica state of entries of `U` that contains the merge of `U` is the merge -/
theorem good_contains_join (hpf : PayloadFunctional U) {s : Store} (g : Good U s)
    (hc : ∀ j ∈ join U, j ∈ s) (x : Entry) : x ∈ s ↔ x ∈ join U := by
  constructor
  · intro hx
    rw [mem_join']
    refine ⟨g.sub x hx, ?_⟩
    intro p hp hd
    -- p lies under an entry m of the merge, which s holds; s is an antichain
    have invU : PutInv (run [] U) (U.reverse ++ []) := putInv_run putInv_nil U
    simp only [List.append_nil] at invU
    obtain ⟨m, hm, hmd⟩ := invU.cover p (List.mem_reverse.mpr hp)
    have hmJ : m ∈ join U := (mem_run_iff_mem_join U hpf m).mp hm
    have hms : m ∈ s := hc m hmJ
    have : m = x := g.ok.anti m hms x hx (dom_trans hmd hd)
    subst this
    obtain ⟨hid, hts, hh⟩ := dom_antisymm hd hmd
    exact hpf p hp m (g.sub m hms) hid hts hh
  · exact hc x

theorem session_succ (cfg : Config) (fuel : Nat) (a b : Store) (msg : Message) :
    session mapOps cfg validate statusOf (fuel + 1) a b msg =
      match (processMessage mapOps cfg validate statusOf b msg).reply with
      | none => ([msg], a, (processMessage mapOps cfg validate statusOf b msg).store)
      | some reply =>
        (msg :: (session mapOps cfg validate statusOf fuel (processMessage mapOps cfg validate statusOf b msg).store a reply).1,
         (session mapOps cfg validate statusOf fuel (processMessage mapOps cfg validate statusOf b msg).store a reply).2.2,
         (session mapOps cfg validate statusOf fuel (processMessage mapOps cfg validate statusOf b msg).store a reply).2.1) := by
  simp only [session]
  cases (processMessage mapOps cfg validate statusOf b msg).reply with
  | none => rfl
  | some r => rfl

/-- **Partial correctness of the session** from any state satisfying the invariant. -/
theorem session_inv_converges (hpf : PayloadFunctional U) (hval : ∀ e ∈ U, validate e = true)
    (hfp : FpInjective U) (hwf : ∀ e ∈ U, Tables.Wf e) (cfg : Config) (hk : 2 ≤ cfg.splitFactor)
    (fuel : Nat) (a b : Store) (msg : Message) (inv : Inv U a b msg)
    (hend : ended validate statusOf cfg fuel a b msg = true) :
    ((∀ e, e ∈ (session mapOps cfg validate statusOf fuel a b msg).2.1 ↔ e ∈ join U) ∧
      StoreOk (session mapOps cfg validate statusOf fuel a b msg).2.1) ∧
    ((∀ e, e ∈ (session mapOps cfg validate statusOf fuel a b msg).2.2 ↔ e ∈ join U) ∧
      StoreOk (session mapOps cfg validate statusOf fuel a b msg).2.2) := by
  induction fuel generalizing a b msg with
  | zero => simp [ended] at hend
  | succ fuel ih =>
    have hstep := step_carries validate statusOf hpf hval hfp hwf cfg hk inv
    simp only at hstep
    obtain ⟨gR, outok, keep, carr⟩ := hstep
    have hpm := processMessage_eq mapOps cfg validate statusOf b msg
    simp only at hpm
    rw [session_succ]
    unfold ended at hend
    rw [hpm] at hend ⊢
    simp only at hend ⊢
    by_cases hout : (foldF statusOf cfg (foldI validate statusOf (b, [], []) (itemsOf msg)).1
        (foldI validate statusOf (b, [], []) (itemsOf msg)).2.1 (fpsOf msg)).isEmpty = true
    · -- silence: everything is settled
      simp only [hout, if_true]
      have hnil : foldF statusOf cfg (foldI validate statusOf (b, [], []) (itemsOf msg)).1
          (foldI validate statusOf (b, [], []) (itemsOf msg)).2.1 (fpsOf msg) = [] := List.isEmpty_iff.mp hout
      have hsettled : ∀ j ∈ join U, j ∈ (foldI validate statusOf (b, [], []) (itemsOf msg)).1 ∧ j ∈ a := by
        intro j hj
        rcases carr j hj with h | ⟨p, hp, _⟩
        · exact h
        · rw [hnil] at hp; simp at hp
      exact ⟨⟨good_contains_join hpf inv.gx (fun j hj => (hsettled j hj).2), inv.gx.ok⟩,
             ⟨good_contains_join hpf gR (fun j hj => (hsettled j hj).1), gR.ok⟩⟩
    · have hout' : (foldF statusOf cfg (foldI validate statusOf (b, [], []) (itemsOf msg)).1
        (foldI validate statusOf (b, [], []) (itemsOf msg)).2.1 (fpsOf msg)).isEmpty = false := by
        simpa using hout
      simp only [hout', Bool.false_eq_true, if_false] at hend ⊢
      have inv' : Inv U (foldI validate statusOf (b, [], []) (itemsOf msg)).1 a
          (foldF statusOf cfg (foldI validate statusOf (b, [], []) (itemsOf msg)).1
            (foldI validate statusOf (b, [], []) (itemsOf msg)).2.1 (fpsOf msg)) :=
        { gx := gR, gy := inv.gx, mok := outok,
          have1 := fun j hj => by
            rcases inv.have1 j hj with h | h
            · exact Or.inr h
            · exact Or.inl (keep j hj h),
          pend := carr }
      have := ih _ _ _ inv' hend
      exact ⟨this.2, this.1⟩

/-- **C01, convergence.** Two replicas in any states `a`, `b` (sorted antichains, as every reachable
replica state is); `a` initiates. If the session ends, both hold exactly `join (a ∪ b)` — the same
list on both sides. For every `split_factor ≥ 2` and every `max_set_size`. -/
theorem session_converges (a b : Store) (ha : StoreOk a) (hb : StoreOk b)
    (hpf : PayloadFunctional (a ++ b)) (hval : ∀ e ∈ a ++ b, validate e = true)
    (hfp : FpInjective (a ++ b)) (hwf : ∀ e ∈ a ++ b, Tables.Wf e)
    (cfg : Config) (hk : 2 ≤ cfg.splitFactor) (fuel : Nat)
    (hend : ended validate statusOf cfg fuel a b (initialMessage mapOps a) = true) :
    let r := session mapOps cfg validate statusOf fuel a b (initialMessage mapOps a)
    (∀ e, e ∈ r.2.1 ↔ e ∈ join (a ++ b)) ∧ (∀ e, e ∈ r.2.2 ↔ e ∈ join (a ++ b)) ∧ r.2.1 = r.2.2 := by
  have inv : Inv (a ++ b) a b (initialMessage mapOps a) :=
    { gx := ⟨ha, fun e he => List.mem_append_left _ he⟩,
      gy := ⟨hb, fun e he => List.mem_append_right _ he⟩,
      mok := by
        intro p hp
        simp only [initialMessage, List.mem_singleton] at hp
        subst hp; trivial,
      have1 := fun j hj => List.mem_append.mp ((mem_join' _ j).mp hj).1,
      pend := fun j hj => Or.inr ⟨_, List.mem_singleton.mpr rfl, by
        show Range.contains _ _ ∧ _
        exact ⟨by simp [Range.contains], rfl⟩⟩ }
  have h := session_inv_converges validate statusOf hpf hval hfp hwf cfg hk fuel a b _ inv hend
  refine ⟨h.1.1, h.2.1, ?_⟩
  apply sorted_ext h.1.2.sorted h.2.2.sorted
  intro e
  rw [h.1.1 e, h.2.1 e]

/-- the hypotheses can be met and the session does end: one replica holds an entry, the other is
empty; the entry's fingerprint differs from the empty fingerprint -/
example :
    let e : Entry := { ns := List.replicate 32 1, author := List.replicate 32 2, key := [97], ts := 5, len := 1,
                       hash := [1], fp := [7] }
    let r := session mapOps {} (fun _ => true) (fun _ => 2) 10 [e] [] (initialMessage mapOps [e])
    ended (fun _ => true) (fun _ => 2) {} 10 [e] [] (initialMessage mapOps [e]) = true ∧
    r.2.1 = [e] ∧ r.2.2 = [e] ∧ join ([e] ++ []) = [e] := by decide


/-- … which is the state `run [] (a ++ b)` that the swarm model (C04) takes as the effect of a
complete session -/
theorem session_result_eq_merge (a b : Store) (ha : StoreOk a) (hb : StoreOk b)
    (hpf : PayloadFunctional (a ++ b)) (hval : ∀ e ∈ a ++ b, validate e = true)
    (hfp : FpInjective (a ++ b)) (hwf : ∀ e ∈ a ++ b, Tables.Wf e)
    (cfg : Config) (hk : 2 ≤ cfg.splitFactor) (fuel : Nat)
    (hend : ended validate statusOf cfg fuel a b (initialMessage mapOps a) = true) :
    (session mapOps cfg validate statusOf fuel a b (initialMessage mapOps a)).2.1 = Spec.run [] (a ++ b) ∧
    (session mapOps cfg validate statusOf fuel a b (initialMessage mapOps a)).2.2 = Spec.run [] (a ++ b) := by
  have inv : Inv (a ++ b) a b (initialMessage mapOps a) :=
    { gx := ⟨ha, fun e he => List.mem_append_left _ he⟩,
      gy := ⟨hb, fun e he => List.mem_append_right _ he⟩,
      mok := by
        intro p hp
        simp only [initialMessage, List.mem_singleton] at hp
        subst hp; trivial,
      have1 := fun j hj => List.mem_append.mp ((mem_join' _ j).mp hj).1,
      pend := fun j hj => Or.inr ⟨_, List.mem_singleton.mpr rfl, by
        show Range.contains _ _ ∧ _
        exact ⟨by simp [Range.contains], rfl⟩⟩ }
  have h := session_inv_converges validate statusOf hpf hval hfp hwf cfg hk fuel a b _ inv hend
  constructor
  · apply sorted_ext h.1.2.sorted (run_sorted (a ++ b))
    intro e; rw [h.1.1 e, mem_run_iff_mem_join (a ++ b) hpf]
  · apply sorted_ext h.2.2.sorted (run_sorted (a ++ b))
    intro e; rw [h.2.1 e, mem_run_iff_mem_join (a ++ b) hpf]

def exEntry : Entry :=
  { ns := List.replicate 32 1, author := List.replicate 32 2, key := [97], ts := 5, len := 1, hash := [1], fp := [7] }

/-- `FpInjective` is satisfiable (here: a one-entry universe whose fingerprint is not the empty one) -/
theorem fpInjective_example : FpInjective [exEntry] := by
  intro l1 l2 h1 h2 s1 s2 hfp
  have shape : ∀ l : List Entry, (∀ x ∈ l, x ∈ [exEntry]) → SortedById l → l = [] ∨ l = [exEntry] := by
    intro l hl hs
    match l, hl, hs with
    | [], _, _ => exact Or.inl rfl
    | [x], hl, _ =>
      have := hl x List.mem_cons_self
      simp only [List.mem_singleton] at this
      exact Or.inr (by rw [this])
    | x :: y :: rest, hl, hs =>
      have hx := hl x List.mem_cons_self
      have hy := hl y (List.mem_cons_of_mem _ List.mem_cons_self)
      simp only [List.mem_singleton] at hx hy
      have hlt : idLt x y := (List.pairwise_cons.mp hs).1 y List.mem_cons_self
      rw [hx, hy] at hlt
      exact absurd hlt (idLt_irrefl _)
  rcases shape l1 h1 s1 with e1 | e1 <;> rcases shape l2 h2 s2 with e2 | e2 <;> subst e1 <;> subst e2
  · intro e; rfl
  · exact absurd hfp (by decide)
  · exact absurd hfp (by decide)
  · intro e; rfl

end
end Ranger
