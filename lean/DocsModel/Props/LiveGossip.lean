import DocsModel.Props.Live
import DocsModel.Props.C09Gossip
import DocsModel.Props.C13Codec
import DocsModel.Props.C13
/-!
# From one live actor to the next: what is handed to gossip is what the receive loop acts on

`Props/Live.lean` says what a live actor hands to gossip; `Props/C09Gossip.lean` says what
`engine/gossip.rs::receive_loop` does with the bytes it receives. Composed:

* an applied local write of node A arrives at node B's replica as `insert_remote(entry, from = the
  delivering neighbour)`, the entry unchanged (C04: "gossip Put applied through the remote-insert path");
* the heads node A reports after a session that brought entries arrive at B's `on_sync_report`
  unchanged, and B dials A exactly when they name news (C13, C11's follow-up clause);
* a finished download of A arrives at B as `NeighborContentReady`, which B acts on only for content
  it wants (C15).

The gossip network in between (who receives what, when, how often) stays outside the model: C04's
swarm model lets any written entry be delivered to anybody any number of times, or never.
-/

namespace Live
open Codec

/-- C04: node A's applied local write, as node B's receive loop sees it -/
theorem local_put_reaches_remote_insert (s : LState) (ns : Bytes) (e : WEntry) (he : WfEntry e)
    (hs : s.syncing ns = true) (ht : s.topics.contains ns = true) (from_ : Bytes) (direct : Bool) :
    ∃ pl, (step s (.localInsert ns (encEntry e))).2 = [.broadcast ns false pl] ∧
      gossipReceive pl from_ direct = .insertRemote e from_ (if direct then 0 else 2) := by
  refine ⟨encGOp (.put e), ?_, gossip_put_is_remote_insert e he from_ direct⟩
  rw [local_insert_broadcast]
  have ht' : ns ∈ s.topics := by simpa using ht
  simp [hs, ht', encGOp]

/-- while the document is not synced nothing leaves the node -/
theorem local_put_stays_home (s : LState) (ns entry : Bytes) (hs : s.syncing ns = false) :
    (step s (.localInsert ns entry)).2 = [] := by
  rw [local_insert_broadcast]; simp [hs]

/-- C15: a finished download is announced to the neighbours, whose receive loops hand it on as
`NeighborContentReady` from the delivering neighbour -/
theorem content_ready_reaches_neighbor (hash : Bytes) (hh : hash.length = 32) (from_ : Bytes) (direct : Bool) :
    gossipReceive (encGOp (.contentReady hash)) from_ direct = .neighborContentReady from_ hash := by
  have := decGOp_encGOp (.contentReady hash) ⟨hh⟩ []
  rw [List.append_nil] at this
  simp [gossipReceive, this]

/-- C13: a sync report reaches `on_sync_report` of the neighbour with the heads unchanged -/
theorem report_reaches_neighbor (ns heads from_ : Bytes) (direct : Bool) (h1 : ns.length = 32) (h2 : heads.length < 2 ^ 64) :
    gossipReceive (encGOp (.syncReport ns heads)) from_ direct = .incomingSyncReport from_ ns heads :=
  gossip_report_is_forwarded ns heads from_ h1 h2 direct

/-- C13 at the engine: a node that syncs the document and is not busy with the reporting peer dials it
exactly when the reported heads name news (an author unknown here, or a strictly newer timestamp);
undecodable heads are ignored -/
theorem report_dials_iff_news (s : LState) (from_ ns heads : Bytes) (ours : Heads.H) (d : Doc)
    (hd : s.doc? ns = some d) (hidle : (d.slot from_).1 = .idle) :
    (Out.dial ns from_ 2 ∈ (step s (.syncReport from_ ns heads ours)).2) ↔
      ∃ theirs, Heads.decode heads = some theirs ∧ Heads.hasNewsFor theirs ours > 0 := by
  have hsync : s.syncing ns = true := by simp [LState.syncing, hd]
  simp only [step, hsync, Bool.not_true, Bool.false_eq_true, if_false]
  cases hdec : Heads.decode heads with
  | none => simp
  | some theirs =>
    simp only [Option.some.injEq, exists_eq_left']
    by_cases hn : Heads.hasNewsFor theirs ours > 0
    · simp only [hn, if_true, iff_true]
      unfold LState.syncWithPeer
      simp only [hd]
      cases hsl : d.slot from_ with
      | mk st r =>
        rw [hsl] at hidle
        simp only at hidle
        subst hidle
        simp
    · simp [hn]

/-- a report that arrives while a session with that peer is running is remembered (the follow-up of C11) -/
theorem report_while_busy_is_remembered (s : LState) (from_ ns heads : Bytes) (ours : Heads.H) (d : Doc)
    (theirs : Heads.H) (hd : s.doc? ns = some d) (hbusy : (d.slot from_).1 ≠ .idle)
    (hdec : Heads.decode heads = some theirs) (hn : Heads.hasNewsFor theirs ours > 0) :
    (step s (.syncReport from_ ns heads ours)).2 = [] ∧
    ((step s (.syncReport from_ ns heads ours)).1.slot? ns from_).map (·.2) = some true := by
  have hsync : s.syncing ns = true := by simp [LState.syncing, hd]
  simp only [step, hsync, Bool.not_true, Bool.false_eq_true, if_false, hdec, hn, if_true]
  unfold LState.syncWithPeer
  simp only [hd]
  cases hsl : d.slot from_ with
  | mk st r =>
    rw [hsl] at hbusy
    cases st
    · exact absurd rfl hbusy
    · simp [slot?_set s ns from_ _ d hd]
    · simp [slot?_set s ns from_ _ d hd]

/-- C13 end to end: a session that brought entries, at a node that syncs the document with an active
topic, is followed by a report to the neighbours that carries the received heads in the bounded
newest-first encoding, never larger than a gossip message; each neighbour's receive loop hands exactly
those bytes, with the sender, to `on_sync_report` -/
theorem finished_session_report_arrives (s : LState) (ns p : Bytes) (origin recv sent : Nat) (heads : Heads.H)
    (hs : s.syncing ns = true) (ht : s.topics.contains ns = true) (hrecv : recv > 0)
    (hmax1 : 1 ≤ s.maxMessageSize) (hmax2 : s.maxMessageSize < 2 ^ 64) (hns : ns.length = 32)
    (from_ : Bytes) (direct : Bool) :
    ∃ b pl, Heads.encode heads (some s.maxMessageSize) = some b ∧ b.length ≤ s.maxMessageSize ∧
      Out.broadcast ns true pl ∈ (s.onSyncFinished ns p origin (some (recv, sent, heads))).2 ∧
      gossipReceive pl from_ direct = .incomingSyncReport from_ ns b := by
  have hsome := Heads.encode_ok_of_pos_limit heads s.maxMessageSize hmax1
  obtain ⟨b, hb⟩ := Option.isSome_iff_exists.mp hsome
  have hlen := Heads.encode_never_exceeds_limit heads s.maxMessageSize b hb
  refine ⟨b, encGOp (.syncReport ns b), hb, hlen, ?_, gossip_report_is_forwarded ns b from_ hns (by omega) direct⟩
  have hf : Out.broadcast ns true (encGOp (.syncReport ns b)) ∈ s.finishedOuts ns p (some (recv, sent, heads)) := by
    have ht' : ns ∈ s.topics := by simpa using ht
    simp [LState.finishedOuts, hrecv, hb, LState.bcastNeighbors, hs, ht']
  unfold LState.onSyncFinished
  split
  · exact hf
  · split
    · exact hf
    · exact List.mem_append_left _ hf

end Live
