import DocsModel.Props.Live
import DocsModel.Props.C11
import DocsModel.Props.C11One
/-!
# C11 for the whole live actor: the protocol model is a projection of `Model/Live.lean`

`Coord.Sys` (two nodes, one document, the network as scheduler) is what C11's theorems are about
(`slot_is_always_freed`, `at_most_one_session`, …). Its node keeps a slot and a resync flag and moves
them with `startConnect`, `acceptDecision` / `accept`, `finish`, `connectDeclined`. Here two *full*
live-actor states (`Live.LState`: all documents, all peers, downloads, subscribers, gossip topics) are
run next to the protocol system: every scheduler action is given to the handler of the acting node that
the real loop would call (`liveStep`), and the slot of (document, other node) in each live actor stays
equal to the protocol node's slot (`sim_step`, `sim_run`). So every statement about the slots of a
reachable `Coord.Sys` is a statement about the slots of the two live actors, whatever else they are
doing for other documents and peers in between.
-/

namespace C11Live
open Coord Live

variable (ns idA idB : Bytes)

/-- the other node's id, as node `n` sees it (`false` = A, `true` = B) -/
def other (n : Bool) : Bytes := if n then idA else idB

/-- node `n`'s live actor and the protocol node agree on the slot for the other node -/
def Rel (n : Bool) (x : Coord.Node) (l : LState) : Prop :=
  if x.syncing then l.slot? ns (other idA idB n) = some (x.st, x.resync)
  else l.doc? ns = none ∧ x.st = .idle

/-- `expected_sync_direction`: which node has the greater id -/
def Dir (sys : Sys) (la lb : LState) : Prop :=
  la.smallerPeers.contains idB = !sys.bGreater ∧ lb.smallerPeers.contains idA = sys.bGreater

def R (sys : Sys) (la lb : LState) : Prop :=
  Rel ns idA idB false sys.a la ∧ Rel ns idA idB true sys.b lb ∧ Dir idA idB sys la lb

def applyAt (n : Bool) (la lb : LState) (f : LState → LState) : LState × LState :=
  if n then (la, f lb) else (f la, lb)

/-- the handler calls the real loop makes for a scheduler action; `ok` = a session that ends, ends well -/
def liveStep (ok : Bool) (sys : Sys) (la lb : LState) : Action → LState × LState
  | .dial n report =>
    applyAt n la lb (fun l => (Live.step l (.dialRequest ns (other idA idB n) (if report then 2 else 1))).1)
  | .deliverReq n =>
    match firstRequesting (sys.node n).ctasks with
    | none => (la, lb)
    | some _ => applyAt (!n) la lb (fun l => (Live.step l (.acceptRequest ns (other idA idB (!n)))).1)
  | .loseReq _ => (la, lb)
  | .completeConnect n i =>
    match (sys.node n).ctasks[i]? with
    | none => (la, lb)
    | some t =>
      match t.phase with
      | .requesting => (la, lb)
      | .declined true =>
        applyAt n la lb (fun l => (Live.step l (.connectFinished ns (other idA idB n) t.reason .abortAlready)).1)
      | .declined false | .failedToConnect =>
        applyAt n la lb (fun l => (Live.step l (.connectFinished ns (other idA idB n) t.reason .err)).1)
      | .inSession _ =>
        applyAt n la lb (fun l => (Live.step l (.connectFinished ns (other idA idB n) t.reason
          (if ok then .ok 1 1 [] else .err))).1)
  | .completeAccept n sid =>
    if (sys.node n).atasks.contains sid then
      applyAt n la lb (fun l => (Live.step l (.acceptFinished
        (if ok then .ok ns (other idA idB n) 1 1 [] else .errNamed ns (other idA idB n)))).1)
    else (la, lb)
  | .completeDeclined _ => (la, lb)

/-! ## the handlers never touch the id order -/

theorem updDoc_sp (s : LState) (n : Bytes) (f : Doc → Doc) : (s.updDoc n f).smallerPeers = s.smallerPeers := rfl
theorem send_sp (s : LState) (n : Bytes) (ev : Ev) : (s.send n ev).1.smallerPeers = s.smallerPeers := by
  unfold LState.send; split <;> rfl
theorem syncWithPeer_sp (s : LState) (n p : Bytes) (r : Reason) : (s.syncWithPeer n p r).1.smallerPeers = s.smallerPeers := by
  unfold LState.syncWithPeer
  split
  · rfl
  · split <;> (try split) <;> rfl
theorem afterFinish_sp (s : LState) (n p : Bytes) (o : Nat) (r : Option (Nat × Nat)) (rs : Bool) :
    (s.afterFinish n p o r rs).1.smallerPeers = s.smallerPeers := by
  unfold LState.afterFinish
  simp only
  split
  · rw [syncWithPeer_sp]; split <;> simp [updDoc_sp, send_sp]
  · split <;> simp [updDoc_sp, send_sp]
theorem onSyncFinished_sp (s : LState) (n p : Bytes) (o : Nat) (r : Option (Nat × Nat × Heads.H)) :
    (s.onSyncFinished n p o r).1.smallerPeers = s.smallerPeers := by
  unfold LState.onSyncFinished
  split
  · rfl
  · split
    · rfl
    · simp only; rw [afterFinish_sp]; rfl

/-! ## one handler call, seen through `Rel` -/

theorem find_none_map (l : List Doc) (n m : Bytes) (f : Doc → Doc) (hf : ∀ d, (f d).ns = d.ns)
    (h : l.find? (·.ns == n) = none) :
    (l.map (fun d => if d.ns == m then f d else d)).find? (·.ns == n) = none := by
  induction l with
  | nil => rfl
  | cons x xs ih =>
    simp only [List.map_cons, List.find?_cons] at h ⊢
    cases hx : (x.ns == n)
    · simp only [hx] at h
      have : ((if (x.ns == m) = true then f x else x).ns == n) = false := by
        split
        · rw [hf]; exact hx
        · exact hx
      simp only [this]
      exact ih h
    · simp only [hx] at h; cases h

theorem doc?_none_updDoc (s : LState) (n m : Bytes) (f : Doc → Doc) (hf : ∀ d, (f d).ns = d.ns)
    (h : s.doc? n = none) : (s.updDoc m f).doc? n = none := by
  unfold LState.doc? LState.updDoc
  exact find_none_map s.docs n m f hf h

theorem startConnect_syncing (x : Coord.Node) (r : Bool) (k : Nat) : (x.startConnect r k).syncing = x.syncing := by
  unfold Coord.Node.startConnect
  split
  · rfl
  · split
    · rfl
    · split <;> rfl

theorem finish_syncing (x : Coord.Node) : x.finish.syncing = x.syncing := by
  unfold Coord.Node.finish
  split
  · rfl
  · split
    · simp only; rw [startConnect_syncing]
    · rfl

theorem connectDeclined_syncing (x : Coord.Node) : x.connectDeclined.syncing = x.syncing := by
  unfold Coord.Node.connectDeclined
  split
  · split
    · simp only; rw [startConnect_syncing]
    · rfl
  · rfl

/-- a dial decision -/
theorem rel_dial (n : Bool) (x : Coord.Node) (l : LState) (report : Bool) (h : Rel ns idA idB n x l) :
    Rel ns idA idB n (x.startConnect report (if report then 2 else 1))
      (Live.step l (.dialRequest ns (other idA idB n) (if report then 2 else 1))).1 := by
  unfold Rel at *
  cases hs : x.syncing
  · simp only [hs, Bool.false_eq_true, if_false] at h ⊢
    have : (x.startConnect report (if report then 2 else 1)) = x := by simp [Coord.Node.startConnect, hs]
    rw [this]
    simp only [hs, Bool.false_eq_true, if_false]
    refine ⟨?_, h.2⟩
    simp only [Live.step]
    unfold LState.syncWithPeer
    simp [h.1]
  · simp only [hs, if_true] at h
    have hsync : (x.startConnect report (if report then 2 else 1)).syncing = true := by
      rw [startConnect_syncing]; exact hs
    simp only [hsync, if_true, Live.step]
    have := (syncWithPeer_slot l ns (other idA idB n) (if report then 2 else 1) (x.st, x.resync) h).1
    rw [this]
    cases report <;> cases hst : x.st <;> simp [nodeOf, Coord.Node.startConnect, hs, hst]

/-- the end of a connect or accept task (any result but "declined, already syncing") -/
theorem rel_finish (n : Bool) (x : Coord.Node) (l : LState) (origin : Nat) (res : Option (Nat × Nat × Heads.H))
    (h : Rel ns idA idB n x l) :
    Rel ns idA idB n x.finish (l.onSyncFinished ns (other idA idB n) origin res).1 := by
  unfold Rel at *
  cases hs : x.syncing
  · simp only [hs, Bool.false_eq_true, if_false] at h
    have : x.finish = x := by simp [Coord.Node.finish, h.2]
    rw [this]
    simp only [hs, Bool.false_eq_true, if_false]
    refine ⟨?_, h.2⟩
    unfold LState.onSyncFinished
    simp [h.1]
  · simp only [hs, if_true] at h
    have hsync : x.finish.syncing = true := by rw [finish_syncing]; exact hs
    simp only [hsync, if_true]
    have := finish_slot l ns (other idA idB n) origin res (x.st, x.resync) h
    rw [this]
    cases hst : x.st <;> cases hr : x.resync <;> simp [nodeOf, Coord.Node.finish, Coord.Node.startConnect, hs, hst, hr]

/-- a dial declined with `AlreadySyncing` -/
theorem rel_declined (n : Bool) (x : Coord.Node) (l : LState) (reason : Nat) (h : Rel ns idA idB n x l) :
    Rel ns idA idB n x.connectDeclined (Live.step l (.connectFinished ns (other idA idB n) reason .abortAlready)).1 := by
  unfold Rel at *
  cases hs : x.syncing
  · simp only [hs, Bool.false_eq_true, if_false] at h
    have : x.connectDeclined = x := by simp [Coord.Node.connectDeclined, h.2]
    rw [this]
    simp only [hs, Bool.false_eq_true, if_false]
    refine ⟨?_, h.2⟩
    simp [Live.step, h.1]
  · simp only [hs, if_true] at h
    have hsync : x.connectDeclined.syncing = true := by rw [connectDeclined_syncing]; exact hs
    simp only [hsync, if_true]
    have := declined_slot l ns (other idA idB n) reason (x.st, x.resync) h
    rw [this]
    cases hst : x.st <;> cases hr : x.resync <;> simp [nodeOf, Coord.Node.connectDeclined, Coord.Node.startConnect, hs, hst, hr]

/-- an incoming request: the decision is the protocol model's, and on Allow the slot moves as `accept` -/
theorem rel_accept (n : Bool) (x : Coord.Node) (l : LState) (greater : Bool)
    (hg : l.smallerPeers.contains (other idA idB n) = greater) (h : Rel ns idA idB n x l) (sid : Nat) :
    Rel ns idA idB n (match x.acceptDecision greater with | none => x.accept sid | some a => x.addDeclined a)
      (Live.step l (.acceptRequest ns (other idA idB n))).1 := by
  unfold Rel at *
  cases hs : x.syncing
  · simp only [hs, Bool.false_eq_true, if_false] at h
    have hd : x.acceptDecision greater = some false := by simp [Coord.Node.acceptDecision, hs]
    simp only [hd, Coord.Node.addDeclined, hs, Bool.false_eq_true, if_false]
    refine ⟨?_, h.2⟩
    simp [Live.step, h.1]
  · simp only [hs, if_true] at h
    have hacc := (acceptRequest_slot l ns (other idA idB n) (x.st, x.resync) h).2
    rw [hg] at hacc
    cases hst : x.st
    · simp only [Coord.Node.acceptDecision, hs, hst, Coord.Node.accept, Bool.not_true, Bool.false_eq_true, if_false, if_true]
      rw [hacc]; simp [nodeOf, Coord.Node.acceptDecision, hst]
    · cases greater
      · simp only [Coord.Node.acceptDecision, hs, hst, Coord.Node.addDeclined, Bool.not_true, Bool.false_eq_true, if_false, if_true]
        rw [hacc]; simp [nodeOf, Coord.Node.acceptDecision, hst]
      · simp only [Coord.Node.acceptDecision, hs, hst, Coord.Node.accept, Bool.not_true, Bool.false_eq_true, if_false, if_true]
        rw [hacc]; simp [nodeOf, Coord.Node.acceptDecision, hst]
    · simp only [Coord.Node.acceptDecision, hs, hst, Coord.Node.addDeclined, Bool.not_true, Bool.false_eq_true, if_false, if_true]
      rw [hacc]; simp [nodeOf, Coord.Node.acceptDecision, hst]

/-! ## the simulation -/

theorem rel_congr (n : Bool) (x y : Coord.Node) (l : LState) (h1 : y.syncing = x.syncing) (h2 : y.st = x.st)
    (h3 : y.resync = x.resync) (h : Rel ns idA idB n x l) : Rel ns idA idB n y l := by
  unfold Rel at *
  rw [h1, h2, h3]; exact h

theorem R_congr (s1 s2 : Sys) (la lb : LState) (ha : s2.a = s1.a) (hb : s2.b = s1.b) (hg : s2.bGreater = s1.bGreater)
    (h : R ns idA idB s1 la lb) : R ns idA idB s2 la lb := by
  unfold R Dir at *
  rw [ha, hb, hg]; exact h

/-- node `n` acts: its protocol node moves by `f`, its live actor by `g` -/
theorem R_upd (n : Bool) (sys : Sys) (la lb : LState) (f : Coord.Node → Coord.Node) (g : LState → LState)
    (h : R ns idA idB sys la lb)
    (hrel : Rel ns idA idB n (f (sys.node n)) (g (if n then lb else la)))
    (hsp : (g (if n then lb else la)).smallerPeers = (if n then lb else la).smallerPeers) :
    R ns idA idB (sys.upd n f) (applyAt n la lb g).1 (applyAt n la lb g).2 := by
  obtain ⟨hA, hB, hD1, hD2⟩ := h
  cases n
  · simp only [Sys.upd, Sys.node, applyAt, Bool.false_eq_true, if_false] at *
    exact ⟨hrel, hB, by rw [hsp]; exact hD1, hD2⟩
  · simp only [Sys.upd, Sys.node, applyAt, if_true] at *
    exact ⟨hA, hrel, hD1, by rw [hsp]; exact hD2⟩

theorem R_node (n : Bool) (sys : Sys) (la lb : LState) (h : R ns idA idB sys la lb) :
    Rel ns idA idB n (sys.node n) (if n then lb else la) := by
  cases n
  · exact h.1
  · exact h.2.1

theorem R_greater (n : Bool) (sys : Sys) (la lb : LState) (h : R ns idA idB sys la lb) :
    (if n then lb else la).smallerPeers.contains (other idA idB n) = sys.greater n := by
  obtain ⟨_, _, hD1, hD2⟩ := h
  cases n
  · simpa [Sys.greater, other] using hD1
  · simpa [Sys.greater, other] using hD2

theorem step_sp_cfin (l : LState) (p : Bytes) (reason : Nat) (res : ConnRes) :
    (Live.step l (.connectFinished ns p reason res)).1.smallerPeers = l.smallerPeers := by
  cases res with
  | ok r st hd => simp only [Live.step]; exact onSyncFinished_sp _ _ _ _ _
  | err => simp only [Live.step]; exact onSyncFinished_sp _ _ _ _ _
  | abortAlready =>
    simp only [Live.step]
    split
    · rfl
    · split
      · split
        · rw [syncWithPeer_sp]; rfl
        · rfl
      · rfl

theorem step_sp_accept (l : LState) (p : Bytes) :
    (Live.step l (.acceptRequest ns p)).1.smallerPeers = l.smallerPeers := by
  simp only [Live.step]
  split
  · rfl
  · split
    · rfl
    · rfl
    · split <;> rfl

/-- **One scheduler action**: the protocol system and the two live actors stay in step -/
theorem sim_step (ok : Bool) (sys : Sys) (la lb : LState) (a : Action) (h : R ns idA idB sys la lb) :
    R ns idA idB (Coord.step true sys a) (liveStep ns idA idB ok sys la lb a).1 (liveStep ns idA idB ok sys la lb a).2 := by
  cases a with
  | dial n report =>
    simp only [Coord.step, liveStep]
    apply R_upd ns idA idB n sys la lb _ _ h
    · exact rel_dial ns idA idB n _ _ report (R_node ns idA idB n sys la lb h)
    · simp only [Live.step]; exact syncWithPeer_sp _ _ _ _
  | loseReq n =>
    simp only [Coord.step, liveStep]
    cases hfr : firstRequesting (sys.node n).ctasks with
    | none => exact h
    | some i =>
      simp only
      have := R_upd ns idA idB n sys la lb (·.setPhase i .failedToConnect) id h
        (rel_congr ns idA idB n _ _ _ rfl rfl rfl (R_node ns idA idB n sys la lb h)) rfl
      cases n <;> simpa [applyAt] using this
  | completeDeclined n =>
    simp only [Coord.step, liveStep]
    have := R_upd ns idA idB n sys la lb (·.popDeclined) id h
      (rel_congr ns idA idB n _ _ _ rfl rfl rfl (R_node ns idA idB n sys la lb h)) rfl
    cases n <;> simpa [applyAt] using this
  | completeAccept n sid =>
    simp only [Coord.step, liveStep]
    cases hc : (sys.node n).atasks.contains sid with
    | false => simp only [Bool.false_eq_true, if_false]; exact h
    | true =>
      simp only [if_true]
      refine R_congr ns idA idB (sys.upd n (fun x => (x.eraseA sid).finish)) _ _ _ rfl rfl rfl ?_
      apply R_upd ns idA idB n sys la lb _ _ h
      · have hr := rel_congr ns idA idB n _ ((sys.node n).eraseA sid) _ rfl rfl rfl (R_node ns idA idB n sys la lb h)
        cases ok
        · simp only [Bool.false_eq_true, if_false, Live.step]
          exact rel_finish ns idA idB n _ _ 0 none hr
        · simp only [if_true, Live.step]
          exact rel_finish ns idA idB n _ _ 0 (some (1, 1, [])) hr
      · cases ok <;> simp only [Bool.false_eq_true, if_false, if_true, Live.step] <;> exact onSyncFinished_sp _ _ _ _ _
  | completeConnect n i =>
    simp only [Coord.step, liveStep]
    cases hct : (sys.node n).ctasks[i]? with
    | none => exact h
    | some t =>
      simp only
      have hr := rel_congr ns idA idB n _ ((sys.node n).eraseC i) _ rfl rfl rfl (R_node ns idA idB n sys la lb h)
      cases hp : t.phase with
      | requesting => exact h
      | failedToConnect =>
        simp only
        apply R_upd ns idA idB n sys la lb _ _ h
        · simp only [Live.step]
          exact rel_finish ns idA idB n _ _ _ none hr
        · exact step_sp_cfin ns _ _ _ _
      | declined already =>
        cases already
        · simp only
          apply R_upd ns idA idB n sys la lb _ _ h
          · simp only [Live.step]
            exact rel_finish ns idA idB n _ _ _ none hr
          · exact step_sp_cfin ns _ _ _ _
        · simp only [if_true]
          apply R_upd ns idA idB n sys la lb _ _ h
          · exact rel_declined ns idA idB n _ _ _ hr
          · exact step_sp_cfin ns _ _ _ _
      | inSession sid =>
        simp only
        refine R_congr ns idA idB (sys.upd n (fun x => (x.eraseC i).finish)) _ _ _ rfl rfl rfl ?_
        apply R_upd ns idA idB n sys la lb _ _ h
        · cases ok
          · simp only [Bool.false_eq_true, if_false, Live.step]
            exact rel_finish ns idA idB n _ _ _ none hr
          · simp only [if_true, Live.step]
            exact rel_finish ns idA idB n _ _ _ (some (1, 1, [])) hr
        · exact step_sp_cfin ns _ _ _ _
  | deliverReq n =>
    simp only [Coord.step, liveStep]
    cases hfr : firstRequesting (sys.node n).ctasks with
    | none => exact h
    | some i =>
      simp only
      -- the other node decides
      have hother := rel_accept ns idA idB (!n) (sys.node (!n)) (if (!n) then lb else la) (sys.greater (!n))
        (R_greater ns idA idB (!n) sys la lb h) (R_node ns idA idB (!n) sys la lb h) sys.nextSid
      cases hd : (sys.node (!n)).acceptDecision (sys.greater (!n)) with
      | none =>
        simp only [hd] at hother ⊢
        refine R_congr ns idA idB ((sys.upd (!n) (·.accept sys.nextSid)).upd n (·.setPhase i (.inSession sys.nextSid))) _ _ _ rfl rfl rfl ?_
        have h1 := R_upd ns idA idB (!n) sys la lb (·.accept sys.nextSid)
          (fun l => (Live.step l (.acceptRequest ns (other idA idB (!n)))).1) h hother (step_sp_accept ns _ _)
        have h2 := R_upd ns idA idB n _ _ _ (·.setPhase i (.inSession sys.nextSid)) id h1
          (rel_congr ns idA idB n _ _ _ rfl rfl rfl (R_node ns idA idB n _ _ _ h1)) rfl
        cases n <;> simpa [applyAt] using h2
      | some already =>
        simp only [hd] at hother ⊢
        have h1 := R_upd ns idA idB (!n) sys la lb (·.addDeclined already)
          (fun l => (Live.step l (.acceptRequest ns (other idA idB (!n)))).1) h hother (step_sp_accept ns _ _)
        have h2 := R_upd ns idA idB n _ _ _ (·.setPhase i (.declined already)) id h1
          (rel_congr ns idA idB n _ _ _ rfl rfl rfl (R_node ns idA idB n _ _ _ h1)) rfl
        cases n <;> simpa [applyAt] using h2

/-- the two live actors along a whole schedule -/
def liveRun (ok : Bool) (sys : Sys) (la lb : LState) : List Action → Sys × LState × LState
  | [] => (sys, la, lb)
  | a :: rest =>
    let l' := liveStep ns idA idB ok sys la lb a
    liveRun ok (Coord.step true sys a) l'.1 l'.2 rest

theorem liveRun_sys (ok : Bool) (sys : Sys) (la lb : LState) (as : List Action) :
    (liveRun ns idA idB ok sys la lb as).1 = Coord.run true sys as := by
  induction as generalizing sys la lb with
  | nil => rfl
  | cons a rest ih => simp only [liveRun, Coord.run, List.foldl_cons]; rw [ih]; rfl

/-- **Simulation**: along every schedule the slots of the two live actors are those of the protocol system -/
theorem sim_run (ok : Bool) (sys : Sys) (la lb : LState) (as : List Action) (h : R ns idA idB sys la lb) :
    R ns idA idB (Coord.run true sys as) (liveRun ns idA idB ok sys la lb as).2.1 (liveRun ns idA idB ok sys la lb as).2.2 := by
  induction as generalizing sys la lb with
  | nil => exact h
  | cons a rest ih =>
    simp only [liveRun, Coord.run, List.foldl_cons]
    exact ih _ _ _ (sim_step ns idA idB ok sys la lb a h)

/-- the initial situation: both nodes sync the document (after `start_sync`), nothing is running -/
theorem R_init (bGreater : Bool) (la lb : LState) (da db : Doc)
    (ha : la.doc? ns = some da) (hb : lb.doc? ns = some db)
    (hsa : da.slot idB = (.idle, false)) (hsb : db.slot idA = (.idle, false))
    (hda : la.smallerPeers.contains idB = !bGreater) (hdb : lb.smallerPeers.contains idA = bGreater) :
    R ns idA idB { bGreater := bGreater } la lb := by
  refine ⟨?_, ?_, hda, hdb⟩
  · simp [Rel, LState.slot?, ha, hsa, other]
  · simp [Rel, LState.slot?, hb, hsb, other]

theorem upd_node_syncing (s : Sys) (n m : Bool) (f : Coord.Node → Coord.Node) (hf : ∀ x, (f x).syncing = x.syncing) :
    ((s.upd n f).node m).syncing = (s.node m).syncing := by
  cases n <;> cases m <;> simp [Sys.upd, Sys.node, hf]

theorem step_syncing (s : Sys) (a : Action) (m : Bool) :
    ((Coord.step true s a).node m).syncing = (s.node m).syncing := by
  cases a with
  | dial n report => exact upd_node_syncing s n m _ (fun x => startConnect_syncing x _ _)
  | loseReq n =>
    simp only [Coord.step]
    split
    · rfl
    · exact upd_node_syncing s n m _ (fun _ => rfl)
  | completeDeclined n => exact upd_node_syncing s n m _ (fun _ => rfl)
  | completeAccept n sid =>
    simp only [Coord.step]
    split
    · exact upd_node_syncing s n m (fun x => (x.eraseA sid).finish) (fun x => by rw [finish_syncing]; rfl)
    · rfl
  | completeConnect n i =>
    simp only [Coord.step]
    split
    · rfl
    · split
      · rfl
      · simp only [if_true]
        exact upd_node_syncing s n m (fun x => (x.eraseC i).connectDeclined) (fun x => by rw [connectDeclined_syncing]; rfl)
      · exact upd_node_syncing s n m (fun x => (x.eraseC i).finish) (fun x => by rw [finish_syncing]; rfl)
      · exact upd_node_syncing s n m (fun x => (x.eraseC i).finish) (fun x => by rw [finish_syncing]; rfl)
      · exact upd_node_syncing s n m (fun x => (x.eraseC i).finish) (fun x => by rw [finish_syncing]; rfl)
  | deliverReq n =>
    simp only [Coord.step]
    cases hfr : firstRequesting (s.node n).ctasks with
    | none => rfl
    | some i =>
      simp only
      cases hd : (s.node (!n)).acceptDecision (s.greater (!n)) with
      | none =>
        simp only
        have h1 := upd_node_syncing s (!n) m (·.accept s.nextSid) (fun _ => rfl)
        have h2 := upd_node_syncing (s.upd (!n) (·.accept s.nextSid)) n m (·.setPhase i (.inSession s.nextSid)) (fun _ => rfl)
        rw [← h1, ← h2]; cases m <;> rfl
      | some already =>
        simp only
        have h1 := upd_node_syncing s (!n) m (·.addDeclined already) (fun _ => rfl)
        have h2 := upd_node_syncing (s.upd (!n) (·.addDeclined already)) n m (·.setPhase i (.declined already)) (fun _ => rfl)
        rw [← h1, ← h2]

theorem run_syncing (s : Sys) (as : List Action) (m : Bool) :
    ((Coord.run true s as).node m).syncing = (s.node m).syncing := by
  induction as generalizing s with
  | nil => rfl
  | cons a rest ih => simp only [Coord.run, List.foldl_cons]; rw [← step_syncing s a m]; exact ih _

/-- **C11 for the live actors**: whatever the schedule, once nothing is in flight both live actors hold an
idle slot for each other (the statement of `slot_is_always_freed`, read off the live actors' own state) -/
theorem live_slots_freed (ok bGreater : Bool) (la lb : LState) (as : List Action)
    (h : R ns idA idB { bGreater := bGreater } la lb)
    (hq : quiescent (Coord.run true { bGreater := bGreater } as) = true) :
    ((liveRun ns idA idB ok { bGreater := bGreater } la lb as).2.1.slot? ns idB).map (·.1) = some .idle ∧
    ((liveRun ns idA idB ok { bGreater := bGreater } la lb as).2.2.slot? ns idA).map (·.1) = some .idle := by
  have hs := sim_run ns idA idB ok _ la lb as h
  have hfree := Coord.slot_is_always_freed bGreater true true as hq
  have hsyncA : (Coord.run true { bGreater := bGreater } as).a.syncing = true := by
    have := run_syncing { bGreater := bGreater } as false
    simpa [Sys.node] using this
  have hsyncB : (Coord.run true { bGreater := bGreater } as).b.syncing = true := by
    have := run_syncing { bGreater := bGreater } as true
    simpa [Sys.node] using this
  obtain ⟨hA, hB, _⟩ := hs
  simp only [Rel, hsyncA, hsyncB, if_true, other] at hA hB
  simp only [Bool.false_eq_true, if_false] at hA
  rw [hA, hB]
  simp [hfree.1, hfree.2]

/-- … and never two sessions in progress between them -/
theorem live_at_most_one_session (ok bGreater : Bool) (la lb : LState) (as : List Action) :
    (inProgress (liveRun ns idA idB ok { bGreater := bGreater } la lb as).1).length ≤ 1 := by
  rw [liveRun_sys]
  exact Coord.at_most_one_session bGreater true true as

/-! ## the follow-up clause, read off the live actor's outputs -/

def isDial : Out → Bool
  | .dial _ _ _ => true
  | _ => false

theorem send_no_dial (s : LState) (n : Bytes) (ev : Ev) : (s.send n ev).2.filter isDial = [] := by
  unfold LState.send
  split
  · rfl
  · simp [List.filter_map, isDial, Function.comp_def]

theorem finishedOuts_no_dial (s : LState) (n p : Bytes) (res : Option (Nat × Nat × Heads.H)) :
    (s.finishedOuts n p res).filter isDial = [] := by
  unfold LState.finishedOuts
  cases res with
  | none => rfl
  | some r =>
    obtain ⟨recv, sent, heads⟩ := r
    simp only [List.filter_append]
    have h1 : ([Out.register n p] : List Out).filter isDial = [] := rfl
    rw [h1, List.nil_append]
    split
    · split
      · unfold LState.bcastNeighbors; split <;> rfl
      · rfl
    · rfl

/-- **A refused report is followed up by exactly one dial when the running session ends** — whatever its
origin and result: the outputs of `on_sync_finished` contain exactly the dial `Resync` to that peer, and
the slot is taken by it with the request flag cleared -/
theorem refused_report_followed_up_once (s : LState) (p : Bytes) (origin : Nat) (res : Option (Nat × Nat × Heads.H))
    (d : Doc) (st : Coord.St) (hd : s.doc? ns = some d) (hslot : d.slot p = (st, true)) (hst : st ≠ .idle) :
    (s.onSyncFinished ns p origin res).2.filter isDial = [.dial ns p 3] ∧
    (s.onSyncFinished ns p origin res).1.slot? ns p = some (.conn, false) := by
  have hs : s.slot? ns p = some (st, true) := by simp [LState.slot?, hd, hslot]
  refine ⟨?_, ?_⟩
  · unfold LState.onSyncFinished
    simp only [hd, hslot]
    have hs0 : (s.updDoc ns (·.setSlot p (.idle, true))).slot? ns p = some (.idle, true) := slot?_set s ns p _ d hd
    cases st with
    | idle => exact absurd rfl hst
    | conn =>
      simp only [List.filter_append, finishedOuts_no_dial, List.nil_append]
      unfold LState.afterFinish
      simp only [List.filter_append, send_no_dial, List.nil_append, if_true]
      -- the flag update sends nothing or an event; then the dial from the idle slot
      have h3 : ∀ (q : Bool) (s1 : LState), s1.slot? ns p = some (.idle, true) →
          ((if q then (s1.updDoc ns (fun d => { d with mayEmit := true }), ([] : List Out))
            else ((s1.send ns .pendingContentReady).1.updDoc ns (fun d => { d with mayEmit := false }),
                  (s1.send ns .pendingContentReady).2)).2.filter isDial = []) ∧
          ((if q then (s1.updDoc ns (fun d => { d with mayEmit := true }), ([] : List Out))
            else ((s1.send ns .pendingContentReady).1.updDoc ns (fun d => { d with mayEmit := false }),
                  (s1.send ns .pendingContentReady).2)).1.slot? ns p = some (.idle, true)) := by
        intro q s1 h1
        cases q
        · simp only [Bool.false_eq_true, if_false]
          exact ⟨send_no_dial _ _ _, by rw [slot?_updDoc_mayEmit, slot?_send]; exact h1⟩
        · simp only [if_true]
          exact ⟨rfl, by rw [slot?_updDoc_mayEmit]; exact h1⟩
      have hsend : ((s.updDoc ns (·.setSlot p (.idle, true))).send ns
          (.syncFinished p origin (res.map fun (r, st, _) => (r, st)))).1.slot? ns p = some (.idle, true) := by
        rw [slot?_send]; exact hs0
      obtain ⟨hnd, hsl⟩ := h3 (((s.updDoc ns (·.setSlot p (.idle, true))).send ns
          (.syncFinished p origin (res.map fun (r, st, _) => (r, st)))).1.queuedNs ns) _ hsend
      rw [hnd, List.nil_append]
      have := (syncWithPeer_slot _ ns p 3 (.idle, true) hsl).2
      simp only [nodeOf, Coord.Node.startConnect] at this
      have hd1 := this.mpr (by simp)
      rw [hd1]; rfl
    | acc =>
      simp only [List.filter_append, finishedOuts_no_dial, List.nil_append]
      unfold LState.afterFinish
      simp only [List.filter_append, send_no_dial, List.nil_append, if_true]
      have h3 : ∀ (q : Bool) (s1 : LState), s1.slot? ns p = some (.idle, true) →
          ((if q then (s1.updDoc ns (fun d => { d with mayEmit := true }), ([] : List Out))
            else ((s1.send ns .pendingContentReady).1.updDoc ns (fun d => { d with mayEmit := false }),
                  (s1.send ns .pendingContentReady).2)).2.filter isDial = []) ∧
          ((if q then (s1.updDoc ns (fun d => { d with mayEmit := true }), ([] : List Out))
            else ((s1.send ns .pendingContentReady).1.updDoc ns (fun d => { d with mayEmit := false }),
                  (s1.send ns .pendingContentReady).2)).1.slot? ns p = some (.idle, true)) := by
        intro q s1 h1
        cases q
        · simp only [Bool.false_eq_true, if_false]
          exact ⟨send_no_dial _ _ _, by rw [slot?_updDoc_mayEmit, slot?_send]; exact h1⟩
        · simp only [if_true]
          exact ⟨rfl, by rw [slot?_updDoc_mayEmit]; exact h1⟩
      have hsend : ((s.updDoc ns (·.setSlot p (.idle, true))).send ns
          (.syncFinished p origin (res.map fun (r, st, _) => (r, st)))).1.slot? ns p = some (.idle, true) := by
        rw [slot?_send]; exact hs0
      obtain ⟨hnd, hsl⟩ := h3 (((s.updDoc ns (·.setSlot p (.idle, true))).send ns
          (.syncFinished p origin (res.map fun (r, st, _) => (r, st)))).1.queuedNs ns) _ hsend
      rw [hnd, List.nil_append]
      have := (syncWithPeer_slot _ ns p 3 (.idle, true) hsl).2
      simp only [nodeOf, Coord.Node.startConnect] at this
      have hd1 := this.mpr (by simp)
      rw [hd1]; rfl
  · have := finish_slot s ns p origin res (st, true) hs
    rw [this]
    cases st <;> simp_all [nodeOf, Coord.Node.finish, Coord.Node.startConnect]

/-! non-vacuity: two live actors that have started to sync the document satisfy the initial relation, and a
schedule with a simultaneous dial keeps them in step with the protocol system -/
example :
    let la := (Live.step { smallerPeers := [] } (.startSync [1] true [])).1
    let lb := (Live.step { smallerPeers := [[7]] } (.startSync [1] true [])).1
    la.slot? [1] [8] = some (.idle, false) ∧ lb.slot? [1] [7] = some (.idle, false) ∧
    la.smallerPeers.contains [8] = false ∧ lb.smallerPeers.contains [7] = true := by
  decide

example :
    let la := (Live.step { smallerPeers := [] } (.startSync [1] true [])).1
    let lb := (Live.step { smallerPeers := [[7]] } (.startSync [1] true [])).1
    let r := liveRun [1] [7] [8] true { bGreater := true } la lb
      [.dial false false, .dial true false, .deliverReq false, .deliverReq true, .completeDeclined false,
       .completeConnect true 0, .completeConnect false 0, .completeAccept true 0]
    r.2.1.slot? [1] [8] = some (.idle, false) ∧ r.2.2.slot? [1] [7] = some (.idle, false) ∧
      quiescent r.1 = true := by
  decide

end C11Live

namespace C11Live
open Coord Live

/-! ## everything else the live actors do in between leaves the simulation intact -/

/-- handler calls that have nothing to do with session coordination: events of the replica, downloads,
announcements of content, subscriptions, a lost neighbour -/
def isNoise : In → Bool
  | .subscribe _ _ | .dropChan _ | .neighborDown _ _ | .localInsert _ _ | .remoteInsert .. | .downloadReady .. | .contentReady .. => true
  | _ => false

theorem startDownload_slot (s : LState) (n h q : Bytes) (o b : Bool) (ns p : Bytes) :
    (s.startDownload n h q o b).1.slot? ns p = s.slot? ns p := by
  unfold LState.startDownload LState.enqueue LState.addProvider
  split
  · rfl
  · split
    · split <;> split <;> rfl
    · split
      · split <;> split <;> rfl
      · split <;> rfl

theorem startDownload_sp (s : LState) (n h q : Bytes) (o b : Bool) :
    (s.startDownload n h q o b).1.smallerPeers = s.smallerPeers := by
  unfold LState.startDownload LState.enqueue LState.addProvider
  split
  · rfl
  · split
    · split <;> split <;> rfl
    · split
      · split <;> split <;> rfl
      · split <;> rfl

theorem emitReady_slot (acc : LState × List Out) (m ns p : Bytes) : (emitReady acc m).1.slot? ns p = acc.1.slot? ns p := by
  unfold emitReady
  split
  · split
    · simp only; rw [slot?_send, slot?_updDoc_mayEmit]
    · rfl
  · rfl

theorem emitReady_sp (acc : LState × List Out) (m : Bytes) : (emitReady acc m).1.smallerPeers = acc.1.smallerPeers := by
  unfold emitReady
  split
  · split
    · simp only; rw [send_sp]; rfl
    · rfl
  · rfl

theorem foldl_emitReady_slot (l : List Bytes) (acc : LState × List Out) (ns p : Bytes) :
    (l.foldl emitReady acc).1.slot? ns p = acc.1.slot? ns p ∧
    (l.foldl emitReady acc).1.smallerPeers = acc.1.smallerPeers := by
  induction l generalizing acc with
  | nil => exact ⟨rfl, rfl⟩
  | cons m rest ih =>
    simp only [List.foldl_cons]
    obtain ⟨h1, h2⟩ := ih (emitReady acc m)
    rw [h1, h2]
    exact ⟨emitReady_slot acc m ns p, emitReady_sp acc m⟩

/-- such a call changes no slot and not the id order -/
theorem noise_preserves (s : LState) (i : In) (hi : isNoise i = true) (ns p : Bytes) :
    (Live.step s i).1.slot? ns p = s.slot? ns p ∧ (Live.step s i).1.smallerPeers = s.smallerPeers := by
  cases i <;> simp only [isNoise, Bool.false_eq_true] at hi
  case subscribe n c =>
    have h1 : (Live.step s (.subscribe n c)).1.docs = s.docs := by simp only [Live.step]
    have h2 : (Live.step s (.subscribe n c)).1.smallerPeers = s.smallerPeers := by simp only [Live.step]
    exact ⟨by simp [LState.slot?, LState.doc?, h1], h2⟩
  case dropChan c => exact ⟨rfl, rfl⟩
  case neighborDown n q => simp only [Live.step]; exact ⟨slot?_send _ _ _ _ _, send_sp _ _ _⟩
  case localInsert n e => simp only [Live.step]; split <;> exact ⟨rfl, rfl⟩
  case remoteInsert n h f fv sd st b =>
    simp only [Live.step]
    split
    · split
      · split
        · exact ⟨startDownload_slot _ _ _ _ _ _ _ _, startDownload_sp _ _ _ _ _ _⟩
        · exact ⟨rfl, rfl⟩
      · exact ⟨rfl, rfl⟩
    · exact ⟨rfl, rfl⟩
  case downloadReady n h ok =>
    simp only [Live.step]
    cases ok
    · simp only [Bool.false_eq_true, if_false]
      obtain ⟨h1, h2⟩ := foldl_emitReady_slot (s.removeHash h).2
        ({ (s.removeHash h).1 with missing := insertSet (s.removeHash h).1.missing h }, []) ns p
      exact ⟨h1, h2⟩
    · simp only [if_true]
      obtain ⟨h1, h2⟩ := foldl_emitReady_slot (s.removeHash h).2 (((s.removeHash h).1.send n (.contentReady h)).1,
        ((s.removeHash h).1.send n (.contentReady h)).2 ++
          ((s.removeHash h).1.send n (.contentReady h)).1.bcastNeighbors n (Codec.encGOp (.contentReady h))) ns p
      rw [h1, h2]
      exact ⟨slot?_send _ _ _ _ _, send_sp _ _ _⟩
  case contentReady n q h b => exact ⟨startDownload_slot _ _ _ _ _ _ _ _, startDownload_sp _ _ _ _ _ _⟩

theorem doc?_none_iff_slot (l : LState) (ns p : Bytes) : l.doc? ns = none ↔ l.slot? ns p = none := by
  simp [LState.slot?]

theorem rel_of_slot_eq (ns idA idB : Bytes) (n : Bool) (x : Coord.Node) (l l' : LState)
    (hs : l'.slot? ns (other idA idB n) = l.slot? ns (other idA idB n)) (h : Rel ns idA idB n x l) :
    Rel ns idA idB n x l' := by
  unfold Rel at *
  split
  · rename_i hx; simp only [hx, if_true] at h; rw [hs]; exact h
  · rename_i hx
    simp only [hx, if_false] at h
    refine ⟨?_, h.2⟩
    rw [doc?_none_iff_slot l' ns (other idA idB n), hs, ← doc?_none_iff_slot]
    exact h.1

/-- **Interleaving**: a handler call that is not about session coordination — at either node, at any point
of a schedule — leaves the two live actors in step with the protocol system -/
theorem noise_keeps_R (ns idA idB : Bytes) (n : Bool) (sys : Sys) (la lb : LState) (i : In) (hi : isNoise i = true)
    (h : R ns idA idB sys la lb) :
    R ns idA idB sys (applyAt n la lb (fun l => (Live.step l i).1)).1 (applyAt n la lb (fun l => (Live.step l i).1)).2 := by
  obtain ⟨hA, hB, hD1, hD2⟩ := h
  cases n
  · simp only [applyAt, Bool.false_eq_true, if_false]
    have := noise_preserves la i hi ns (other idA idB false)
    refine ⟨rel_of_slot_eq ns idA idB false _ la _ this.1 hA, hB, ?_, hD2⟩
    rw [this.2]; exact hD1
  · simp only [applyAt, if_true]
    have := noise_preserves lb i hi ns (other idA idB true)
    refine ⟨hA, rel_of_slot_eq ns idA idB true _ lb _ this.1 hB, hD1, ?_⟩
    rw [this.2]; exact hD2

end C11Live
