import DocsModel.Props.C12
import DocsModel.Props.C15
import DocsModel.Props.Live
/-!
# C15 from the policy table to the downloader

The store's part (`Props/C12.lean`, `Props/C15.lean`): the event of an applied remote entry carries
`should_download = policy.matches key`, where `policy` is what `set_download_policy` stored and
`matches` is the everything-except / nothing-except rule over prefix and exact filters.
The engine's part (`Props/Live.lean`): the live actor acts on exactly that flag.
Composed here: an applied remote entry is *selected for download* — handed to the downloader, or noted
as wanted until a provider announces it — exactly when the document's policy matches its key, on both
ingress paths (single remote insert; value of a reconciliation message).
-/

namespace Live

/-- `on_replica_event` for the event a replica emitted: what the live actor is given -/
def ofEvent (ns : Bytes) (ev : Events.Event) (fromValid blobComplete : Bool) : In :=
  .remoteInsert ns ev.entry.hash ev.peer fromValid ev.shouldDownload ev.status blobComplete

/-- single remote insert (gossip path): the downloader is asked for the content of an applied entry
exactly when the stored policy matches the key, the provider reported the content complete and is a
node, the content is not there yet and not queued already -/
theorem remote_insert_download_iff_policy (s : Events.State) (l : LState) (ns : Bytes) (now : Nat)
    (e : Entry) (peer : Bytes) (status n : Nat) (fromValid blob : Bool)
    (h : (Events.remoteInsert s ns now e peer status).2 = .ok n) :
    ∃ ev, (Events.remoteInsert s ns now e peer status).1.applied = s.applied ++ [ev] ∧ ev.entry = e ∧
      ((Out.download ns e.hash peer ∈ (step l (ofEvent ns ev fromValid blob)).2) ↔
        ((Tables.getDownloadPolicy (Events.remoteInsert s ns now e peer status).1.t ns).matches e.key = true ∧
          status = 0 ∧ fromValid = true ∧ blob = false ∧ l.queuedHash e.hash = false)) := by
  obtain ⟨dl, happ, hdl⟩ := (Events.remoteInsert_one_event s ns now e peer status).1 n h
  refine ⟨_, happ, rfl, ?_⟩
  simp only [ofEvent]
  rw [download_requested_iff, hdl]

/-- … and an entry the policy does not select leaves the live actor's state alone and asks for nothing -/
theorem remote_insert_unselected_is_noop (s : Events.State) (l : LState) (ns : Bytes) (now : Nat)
    (e : Entry) (peer : Bytes) (status n : Nat) (fromValid blob : Bool)
    (h : (Events.remoteInsert s ns now e peer status).2 = .ok n)
    (hp : (Tables.getDownloadPolicy (Events.remoteInsert s ns now e peer status).1.t ns).matches e.key = false) :
    ∃ ev, (Events.remoteInsert s ns now e peer status).1.applied = s.applied ++ [ev] ∧
      step l (ofEvent ns ev fromValid blob) = (l, []) := by
  obtain ⟨dl, happ, hdl⟩ := (Events.remoteInsert_one_event s ns now e peer status).1 n h
  refine ⟨_, happ, ?_⟩
  simp only [ofEvent]
  rw [hdl, hp]
  exact remote_not_selected_is_noop l ns e.hash peer fromValid status blob

/-- reconciliation path: every event of a processed message carries the verdict of the policy read
before the message, and the live actor asks the downloader exactly for the matching ones -/
theorem sync_value_download_iff_policy (l : LState) (ns peer : Bytes) (policy : Tables.Policy)
    (v : Entry × Ranger.Status) (fromValid blob : Bool) :
    (Out.download ns v.1.hash peer ∈ (step l (ofEvent ns (Events.mkRemote peer policy v) fromValid blob)).2) ↔
      (policy.matches v.1.key = true ∧ v.2 = 0 ∧ fromValid = true ∧ blob = false ∧ l.queuedHash v.1.hash = false) := by
  simp only [ofEvent, Events.mkRemote]
  exact download_requested_iff l ns v.1.hash peer fromValid (policy.matches v.1.key) v.2 blob

/-- selected and not yet present ⇒ wanted afterwards (queued for this document, or noted as missing) -/
theorem sync_value_selected_is_wanted (l : LState) (ns peer : Bytes) (policy : Tables.Policy)
    (v : Entry × Ranger.Status) (hp : policy.matches v.1.key = true) :
    wanted (step l (ofEvent ns (Events.mkRemote peer policy v) true false)).1 ns v.1.hash = true := by
  simp only [ofEvent, Events.mkRemote, hp]
  exact remote_selected_is_wanted l ns v.1.hash peer v.2

end Live
