import DocsModel.Lemmas.Reach
import DocsModel.Lemmas.Postcard
import DocsModel.Model.Heads
/-!
# C13 — author heads and news detection reflect exactly the entries held

Model: the `latest-by-author-1` table maintained by `Tables.entryPut` (F4 repair: the head only
moves forward) and cleared by `Tables.removeReplica` (F6 repair); `Heads.hasNewsFor`
(`AuthorHeads::has_news_for`); `Heads.encode` / `decode` (F5, F12 repairs).
-/

namespace Tables
open Spec Entry

/-- **Heads reflect the entries held, in every reachable state.** For any history of inserts
(in any timestamp order, deletions and prefix pruning included), document removals and
re-creations, the head row of `(document, author)` carries the greatest timestamp among that
author's entries currently held, and is absent exactly when the author has none. -/
theorem head_eq_max_timestamp (ops : List TOp) (hops : ∀ op ∈ ops, op.Ok) (ns a : Bytes) :
    let t := ops.foldl applyOp {}
    match latestGet t.latest ns a with
    | some (m, _) => (∃ e ∈ t.records, e.ns = ns ∧ e.author = a ∧ e.ts = m) ∧
                     (∀ e ∈ t.records, e.ns = ns → e.author = a → e.ts ≤ m)
    | none => ∀ e ∈ t.records, ¬ (e.ns = ns ∧ e.author = a) :=
  (tablesInv_reachable ops hops).heads ns a

/-- F4 witness: `k1@10` then `k2@5` keeps head 10 -/
example :
    let e1 : Entry := { ns := zero32, author := ff32, key := [1], ts := 10, len := 1, hash := [1] }
    let e2 : Entry := { ns := zero32, author := ff32, key := [2], ts := 5, len := 1, hash := [1] }
    latestGet ((put (put {} e1).1 e2).1).latest zero32 ff32 = some (10, [1]) := by decide

/-- F6 witness: after removal the head is gone -/
example :
    let e1 : Entry := { ns := zero32, author := ff32, key := [1], ts := 10, len := 1, hash := [1] }
    latestGet (removeReplica (put {} e1).1 zero32).latest zero32 ff32 = none := by decide

end Tables

namespace Heads

/-- a head report names news for an author: a strictly newer timestamp, or an author we do not know -/
def IsNews (other : H) (x : Bytes × Nat) : Prop :=
  get other x.1 = none ∨ ∃ t, get other x.1 = some t ∧ x.2 > t

def isNewsB (other : H) (x : Bytes × Nat) : Bool :=
  match get other x.1 with
  | some tsTheirs => decide (x.2 > tsTheirs)
  | none => true

theorem isNewsB_iff (other : H) (x : Bytes × Nat) : isNewsB other x = true ↔ IsNews other x := by
  unfold isNewsB IsNews
  cases hg : get other x.1 with
  | none => simp
  | some t => simp

/-- **News count.** `has_news_for` counts exactly the authors of the report that are news. -/
theorem hasNewsFor_eq_count (self other : H) :
    hasNewsFor self other = (self.filter (isNewsB other)).length := by
  unfold hasNewsFor
  congr 1

/-- no news exactly when every named author is known with a timestamp at least as new -/
theorem hasNewsFor_eq_zero_iff (self other : H) :
    hasNewsFor self other = 0 ↔ ∀ x ∈ self, ∃ t, get other x.1 = some t ∧ x.2 ≤ t := by
  rw [hasNewsFor_eq_count]
  simp only [List.length_eq_zero_iff, List.filter_eq_nil_iff]
  constructor
  · intro h x hx
    have := h x hx
    rw [isNewsB_iff] at this
    unfold IsNews at this
    cases hg : get other x.1 with
    | none => exact absurd (Or.inl hg) this
    | some t =>
      refine ⟨t, rfl, ?_⟩
      apply Nat.le_of_not_gt
      intro hgt
      exact this (Or.inr ⟨t, hg, hgt⟩)
  · intro h x hx
    obtain ⟨t, hg, hle⟩ := h x hx
    rw [isNewsB_iff]
    unfold IsNews
    rw [hg]
    rintro (h | ⟨t', h, hgt⟩)
    · cases h
    · cases h; omega

/-! ### encoding -/

/-- **Never exceeds the limit.** -/
theorem encode_never_exceeds_limit (h : H) (l : Nat) (b : Bytes) (he : encode h (some l) = some b) :
    b.length ≤ l := by
  unfold encode at he
  simp only at he
  split at he
  · injection he with he; rw [← he]; assumption
  · cases he

/-- a limit below the encoding of the empty list is an error (F12), never an oversized result -/
theorem encode_limit_zero_is_error (h : H) : encode h (some 0) = none := by
  unfold encode
  simp only
  have : (encItems (takeFitting 0 [] (sortTA (h.map fun x => (x.2, x.1))).reverse)).length ≥ 1 := by
    unfold encItems
    simp only [List.length_append]
    have : (Postcard.encVarint (takeFitting 0 [] (sortTA (h.map fun x => (x.2, x.1))).reverse).length).length ≥ 1 := by
      unfold Postcard.encVarint Postcard.encVarintAux; split <;> simp
    omega
  split
  · omega
  · rfl

/-- the loop of `encode` keeps the encoding of what it holds within the limit -/
theorem takeFitting_fits (l : Nat) (acc xs : List (Nat × Bytes)) (h : (encItems acc).length ≤ l) :
    (encItems (takeFitting l acc xs)).length ≤ l := by
  induction xs generalizing acc with
  | nil => exact h
  | cons x xs ih =>
    unfold takeFitting
    split
    · exact h
    · apply ih; omega

/-- **Encoding under a limit never fails once the empty list fits** (one byte): however many heads
there are, the newest that fit are kept and the rest dropped. -/
theorem encode_ok_of_pos_limit (h : H) (l : Nat) (hl : 1 ≤ l) : (encode h (some l)).isSome = true := by
  unfold encode
  simp only
  have h0 : (encItems []).length ≤ l := by
    have : (encItems []).length = 1 := by decide
    omega
  have := takeFitting_fits l [] (sortTA (h.map (fun (a, ts) => (ts, a)))).reverse h0
  simp [this]

/-- what is kept under a limit is a prefix of the newest-first list … -/
theorem takeFitting_prefix (l : Nat) (acc xs : List (Nat × Bytes)) :
    ∃ k, takeFitting l acc xs = acc ++ xs.take k ∧
      (k < xs.length → (encItems (acc ++ xs.take (k + 1))).length > l) := by
  induction xs generalizing acc with
  | nil => exact ⟨0, by simp [takeFitting], by simp⟩
  | cons x rest ih =>
    unfold takeFitting
    by_cases hfit : (encItems (acc ++ [x])).length > l
    · exact ⟨0, by simp [hfit], fun _ => by simpa using hfit⟩
    · obtain ⟨k, hk, hmax⟩ := ih (acc ++ [x])
      refine ⟨k + 1, by simp [hfit, hk], ?_⟩
      intro hlt
      have := hmax (by simpa using hlt)
      simpa [List.append_assoc] using this

/-- the item list of an encoding decodes to itself: 32-byte authors, 64-bit timestamps -/
theorem decItems_encItems (items : List (Nat × Bytes)) (rest : Bytes)
    (hwf : ∀ x ∈ items, x.1 < 2 ^ 64 ∧ x.2.length = 32) :
    decItems items.length (items.flatMap (fun (ts, a) => Postcard.encVarint ts ++ a) ++ rest) = some items := by
  induction items with
  | nil => simp [decItems]
  | cons x xs ih =>
    obtain ⟨ts, a⟩ := x
    obtain ⟨h1, h2⟩ := hwf (ts, a) List.mem_cons_self
    simp only [List.length_cons, decItems, List.flatMap_cons, List.append_assoc]
    rw [Postcard.decVarint_encVarint _ _ h1]
    simp only [Option.bind_eq_bind, Option.bind_some]
    have : Postcard.takeN 32 (a ++ (List.flatMap (fun x => Postcard.encVarint x.1 ++ x.2) xs ++ rest))
        = some (a, List.flatMap (fun x => Postcard.encVarint x.1 ++ x.2) xs ++ rest) := by
      rw [← h2]; exact Postcard.takeN_append _ _
    rw [this]
    simp only [Option.bind_some]
    rw [ih (fun y hy => hwf y (List.mem_cons_of_mem _ hy))]
    simp

/-- F5 witness: three authors, two sharing a timestamp, survive encoding without limit -/
example :
    let h : H := [([1], 7), ([2], 7), ([3], 8)]
    (sortTA (h.map fun x => (x.2, x.1))).reverse = [(8, [3]), (7, [2]), (7, [1])] := by decide

end Heads
