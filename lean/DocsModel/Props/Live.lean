import DocsModel.Model.Live
/-!
# The live actor's handlers: what the property clauses say at this layer

Every statement is about `Live.step`, the transcription of the handlers of `src/engine/live.rs`
(compared with the real handlers step by step by the harness component `live`, hook H9).

* C15 — "an entry is selected for download exactly when the policy says so": the replica's
  remote-insert event carries the policy's verdict (`should_download`, C12 / C15 at the store);
  the live actor acts on exactly that flag (`remote_not_selected_is_noop`,
  `remote_selected_is_wanted`, `download_requested_iff`).
* C04 — "gossip Put applied through the remote-insert path": an applied local write is handed to
  gossip exactly once, as `Put` of that entry, exactly while the document is synced
  (`local_insert_broadcast`).
* C11 — the slot transitions of the handlers are those of the protocol model `Coord`
  (`syncWithPeer_slot`, `acceptRequest_slot`, `finish_slot`, `declined_slot`): `Coord`'s node is the
  projection of this model to one document and one peer.
* C13 / C17 — a session that ended well registers the peer and, if it brought entries, reports the
  heads to the neighbours; a failed one does neither (`finished_registers_iff_ok`).
* the download queue: a hash is requested from the downloader only while it is not queued
  (`download_only_if_not_queued`), a completion removes it from the queue (`downloadReady_unqueues`),
  and what is handed to gossip is always for a synced document with an active topic
  (`broadcast_only_while_syncing`).
-/

namespace Live

/-! ## C15: the download decision -/

/-- a remote insert whose event says "do not download" changes nothing and asks for nothing -/
theorem remote_not_selected_is_noop (s : LState) (ns hash from_ : Bytes) (fromValid : Bool) (status : Nat)
    (blobComplete : Bool) :
    step s (.remoteInsert ns hash from_ fromValid false status blobComplete) = (s, []) := by
  simp [step]

/-- is the content wanted after the step: queued at the downloader for this document, or noted as missing -/
def wanted (s : LState) (ns hash : Bytes) : Bool := s.queued.contains (hash, ns) || s.missing.contains hash

theorem mem_insertSet (l : List Bytes) (x : Bytes) : x ∈ insertSet l x := by
  unfold insertSet
  split
  · rename_i h; simpa using h
  · simp

theorem enqueue_contains (s : LState) (h ns : Bytes) : (s.enqueue h ns).queued.contains (h, ns) = true := by
  unfold LState.enqueue
  split
  · assumption
  · simp

theorem enqueue_mem (s : LState) (h ns : Bytes) : (h, ns) ∈ (s.enqueue h ns).queued := by
  have := enqueue_contains s h ns
  simpa using this

@[simp] theorem addProvider_queued (s : LState) (h n : Bytes) : (s.addProvider h n).queued = s.queued := by
  unfold LState.addProvider; split <;> rfl
@[simp] theorem addProvider_missing (s : LState) (h n : Bytes) : (s.addProvider h n).missing = s.missing := by
  unfold LState.addProvider; split <;> rfl

/-- a remote insert whose event says "download" and whose content is not yet in the blob store ends up
wanted: queued at the downloader when the provider has it (and is a node), noted as missing otherwise.
(Provider bytes that are no node id are the one exception: the handler gives up, nothing is noted.) -/
theorem remote_selected_is_wanted (s : LState) (ns hash from_ : Bytes) (status : Nat) :
    wanted (step s (.remoteInsert ns hash from_ true true status false)).1 ns hash = true := by
  simp only [step, if_true]
  by_cases hst : status = 0
  · simp only [hst, if_true]
    unfold LState.startDownload
    simp only [Bool.false_eq_true, if_false]
    split
    · simp [wanted, enqueue_mem]
    · split
      · simp [wanted, enqueue_mem]
      · rename_i h1 h2; simp at h2
  · simp only [hst, if_false]
    simp [wanted, mem_insertSet]

/-- the downloader is asked exactly when: the event says download, the provider has the content and is a
node, the blob store does not have it, and it is not queued already -/
theorem download_requested_iff (s : LState) (ns hash from_ : Bytes) (fromValid shouldDl : Bool) (status : Nat)
    (blobComplete : Bool) :
    (Out.download ns hash from_ ∈ (step s (.remoteInsert ns hash from_ fromValid shouldDl status blobComplete)).2) ↔
      (shouldDl = true ∧ status = 0 ∧ fromValid = true ∧ blobComplete = false ∧ s.queuedHash hash = false) := by
  cases shouldDl <;> simp only [step, Bool.false_eq_true, if_false, if_true]
  · simp
  · by_cases hst : status = 0
    · simp only [hst, if_true]
      cases fromValid <;> simp only [Bool.false_eq_true, if_false, if_true]
      · simp
      · unfold LState.startDownload
        cases blobComplete <;> simp only [Bool.false_eq_true, if_false, if_true]
        · cases hqh : s.queuedHash hash <;> simp
        · simp
    · simp [hst]

/-- content that a neighbour announces is fetched only if it was noted as missing before -/
theorem neighbor_content_only_if_missing (s : LState) (ns node hash : Bytes) (blobComplete : Bool)
    (h : Out.download ns hash node ∈ (step s (.contentReady ns node hash blobComplete)).2) :
    s.missing.contains hash = true ∧ blobComplete = false := by
  simp only [step] at h
  unfold LState.startDownload at h
  cases blobComplete <;> simp only [Bool.false_eq_true, if_false, if_true] at h
  · refine ⟨?_, rfl⟩
    split at h
    · simp at h
    · split at h
      · rename_i h3; simpa using h3
      · simp at h
  · simp at h

/-! ## C04: local writes reach gossip -/

/-- an applied local write is handed to gossip exactly once, as `Put` of that entry (postcard: variant 0
followed by the entry), exactly while the document is synced and its topic is active; otherwise nothing
is sent. The state is unchanged either way. -/
theorem local_insert_broadcast (s : LState) (ns entry : Bytes) :
    step s (.localInsert ns entry) =
      (s, if s.syncing ns && s.topics.contains ns then [.broadcast ns false (Postcard.encVarint 0 ++ entry)] else []) := by
  simp only [step]
  split <;> simp_all

theorem syncWithPeer_topics (s : LState) (ns p : Bytes) (r : Reason) : (s.syncWithPeer ns p r).1.topics = s.topics := by
  unfold LState.syncWithPeer
  split
  · rfl
  · split <;> (try split) <;> simp [LState.updDoc]

theorem foldl_dialKnown_topics (ns : Bytes) (l : List Bytes) (acc : LState × List Out) :
    (l.foldl (dialKnown ns) acc).1.topics = acc.1.topics := by
  induction l generalizing acc with
  | nil => rfl
  | cons p l ih =>
    simp only [List.foldl_cons]
    rw [ih]
    exact syncWithPeer_topics _ _ _ _

/-- `start_sync` of a document whose replica opens makes it synced with an active topic: from then on
local writes are broadcast -/
theorem startSync_enables_broadcast (s : LState) (ns : Bytes) (known : List Bytes) :
    (step s (.startSync ns true known)).1.topics.contains ns = true := by
  simp only [step, Bool.not_true, Bool.and_false, Bool.false_eq_true, if_false]
  rw [foldl_dialKnown_topics]
  simp only [insertSet]
  split <;> split <;> simp_all

/-- whatever is handed to gossip by a step is for a document that is synced with an active topic, before
the step (a `leave` sends nothing) -/
theorem bcastNeighbors_only_while_syncing (s : LState) (ns pl : Bytes) (o : Out)
    (h : o ∈ s.bcastNeighbors ns pl) : s.syncing ns = true ∧ s.topics.contains ns = true := by
  unfold LState.bcastNeighbors at h
  split at h
  · rename_i hc; simpa using hc
  · simp at h

/-! ## C11: the slot transitions are those of the protocol model -/

/-- the protocol model's node with this slot -/
def nodeOf (x : Coord.St × Bool) : Coord.Node := { st := x.1, resync := x.2 }

theorem find_map_upd (l : List Doc) (ns : Bytes) (f : Doc → Doc) (hf : ∀ d, (f d).ns = d.ns) (d : Doc)
    (h : l.find? (·.ns == ns) = some d) :
    (l.map (fun d => if d.ns == ns then f d else d)).find? (·.ns == ns) = some (f d) := by
  induction l with
  | nil => simp at h
  | cons x xs ih =>
    simp only [List.map_cons, List.find?_cons] at h ⊢
    cases hx : (x.ns == ns)
    · simp only [hx] at h
      simp only [Bool.false_eq_true, if_false, hx]
      exact ih h
    · simp only [hx, Option.some.injEq] at h
      simp only [if_true]
      have : ((f x).ns == ns) = true := by rw [hf]; exact hx
      simp only [this]
      rw [h]

theorem doc?_updDoc (s : LState) (ns : Bytes) (f : Doc → Doc) (hf : ∀ d, (f d).ns = d.ns) (d : Doc)
    (h : s.doc? ns = some d) : (s.updDoc ns f).doc? ns = some (f d) := by
  unfold LState.doc? LState.updDoc at *
  exact find_map_upd s.docs ns f hf d h

theorem slot_setSlot (d : Doc) (p : Bytes) (x : Coord.St × Bool) : (d.setSlot p x).slot p = x := by
  simp [Doc.setSlot, Doc.slot]

theorem slot?_set (s : LState) (ns p : Bytes) (x : Coord.St × Bool) (d : Doc) (h : s.doc? ns = some d) :
    (s.updDoc ns (·.setSlot p x)).slot? ns p = some x := by
  unfold LState.slot?
  rw [doc?_updDoc s ns (·.setSlot p x) (fun _ => rfl) d h]
  simp [slot_setSlot]

/-- `sync_with_peer` acts on the slot as `Coord.Node.startConnect` (reason 2 = a sync report) -/
theorem syncWithPeer_slot (s : LState) (ns p : Bytes) (reason : Reason) (x : Coord.St × Bool)
    (h : s.slot? ns p = some x) :
    let y := (nodeOf x).startConnect (reason == 2) reason
    (s.syncWithPeer ns p reason).1.slot? ns p = some (y.st, y.resync) ∧
    (((s.syncWithPeer ns p reason).2 = [.dial ns p reason]) ↔ y.dialsMade = 1) := by
  unfold LState.slot? at h
  cases hd : s.doc? ns with
  | none => simp [hd] at h
  | some d =>
    simp only [hd, Option.map_some, Option.some.injEq] at h
    unfold LState.syncWithPeer
    simp only [hd]
    obtain ⟨st, r⟩ := x
    rw [h]
    cases st <;> simp only [nodeOf, Coord.Node.startConnect]
    · refine ⟨?_, ?_⟩
      · rw [slot?_set s ns p _ d hd]; simp
      · simp
    · by_cases h2 : reason = 2
      · simp only [h2, if_true]
        rw [slot?_set s ns p _ d hd]; simp
      · simp only [h2, if_false]
        rw [slot?_set s ns p _ d hd]; simp [h2]
    · by_cases h2 : reason = 2
      · simp only [h2, if_true]
        rw [slot?_set s ns p _ d hd]; simp
      · simp only [h2, if_false]
        rw [slot?_set s ns p _ d hd]; simp [h2]

/-- `accept_sync_request` decides as `Coord.Node.acceptDecision` and, on Allow, moves the slot as
`Coord.Node.accept` -/
theorem acceptRequest_slot (s : LState) (ns p : Bytes) (x : Coord.St × Bool) (h : s.slot? ns p = some x) :
    let greater := s.smallerPeers.contains p
    let dec := (nodeOf x).acceptDecision greater
    (step s (.acceptRequest ns p)).2 = [.acceptOutcome (match dec with | none => 0 | some true => 1 | some false => 2)] ∧
    (step s (.acceptRequest ns p)).1.slot? ns p = some (match dec with | none => (.acc, false) | some _ => x) := by
  unfold LState.slot? at h
  cases hd : s.doc? ns with
  | none => simp [hd] at h
  | some d =>
    simp only [hd, Option.map_some, Option.some.injEq] at h
    simp only [step, hd]
    obtain ⟨st, r⟩ := x
    rw [h]
    cases st <;> simp only [nodeOf, Coord.Node.acceptDecision]
    · simp [slot?_set s ns p _ d hd]
    · cases hg : s.smallerPeers.contains p <;> simp [slot?_set s ns p _ d hd]
    · simp [slot?_set s ns p _ d hd]

/-- a dial declined with `AlreadySyncing` acts on the slot as `Coord.Node.connectDeclined` (the F9 repair) -/
theorem declined_slot (s : LState) (ns p : Bytes) (reason : Reason) (x : Coord.St × Bool)
    (h : s.slot? ns p = some x) :
    let y := (nodeOf x).connectDeclined
    (step s (.connectFinished ns p reason .abortAlready)).1.slot? ns p = some (y.st, y.resync) := by
  unfold LState.slot? at h
  cases hd : s.doc? ns with
  | none => simp [hd] at h
  | some d =>
    simp only [hd, Option.map_some, Option.some.injEq] at h
    simp only [step, hd]
    obtain ⟨st, r⟩ := x
    rw [h]
    cases st <;> simp only [nodeOf, Coord.Node.connectDeclined]
    · simp [slot?_set s ns p _ d hd]
    · cases r
      · simp [slot?_set s ns p _ d hd]
      · simp only [if_true]
        -- the follow-up dial from the freed slot
        have hd' := doc?_updDoc s ns (·.setSlot p (.idle, true)) (fun _ => rfl) d hd
        have hs' : (s.updDoc ns (·.setSlot p (.idle, true))).slot? ns p = some (.idle, true) := slot?_set s ns p _ d hd
        have := (syncWithPeer_slot (s.updDoc ns (·.setSlot p (.idle, true))) ns p 3 (.idle, true) hs').1
        simpa [nodeOf, Coord.Node.startConnect] using this
    · simp [slot?_set s ns p _ d hd]

/-! ## C13 / C17: what a finished session leads to -/

theorem register_not_in_afterFinish (s : LState) (ns p : Bytes) (origin : Nat) (r : Option (Nat × Nat)) (resync : Bool)
    (n q : Bytes) : Out.register n q ∉ (s.afterFinish ns p origin r resync).2 := by
  have hsend : ∀ (s : LState) (m : Bytes) (ev : Ev), Out.register n q ∉ (s.send m ev).2 := by
    intro s m ev
    unfold LState.send
    split <;> simp
  have hdial : ∀ (s : LState) (r : Reason), Out.register n q ∉ (s.syncWithPeer ns p r).2 := by
    intro s r
    unfold LState.syncWithPeer
    split
    · simp
    · split <;> simp
  unfold LState.afterFinish
  simp only [List.mem_append, not_or]
  refine ⟨⟨hsend _ _ _, ?_⟩, ?_⟩
  · split
    · simp
    · exact hsend _ _ _
  · split
    · exact hdial _ _
    · simp

theorem register_mem_finishedOuts (s : LState) (ns p : Bytes) (res : Option (Nat × Nat × Heads.H)) :
    Out.register ns p ∈ s.finishedOuts ns p res ↔ res.isSome = true := by
  unfold LState.finishedOuts
  cases res with
  | none => simp
  | some r => obtain ⟨recv, sent, heads⟩ := r; simp

/-- a session that ended well registers the peer as useful (whatever the slot says); a failed one never does -/
theorem finished_registers_iff_ok (s : LState) (ns p : Bytes) (origin : Nat) (res : Option (Nat × Nat × Heads.H)) :
    (Out.register ns p ∈ (s.onSyncFinished ns p origin res).2) ↔ res.isSome = true := by
  unfold LState.onSyncFinished
  split
  · exact register_mem_finishedOuts s ns p res
  · split
    · exact register_mem_finishedOuts s ns p res
    · simp only [List.mem_append]
      rw [register_mem_finishedOuts]
      constructor
      · rintro (h | h)
        · exact h
        · exact absurd h (register_not_in_afterFinish _ _ _ _ _ _ _ _)
      · intro h; exact Or.inl h

theorem broadcast_not_in_afterFinish (s : LState) (ns p : Bytes) (origin : Nat) (r : Option (Nat × Nat)) (resync : Bool)
    (n pl : Bytes) (nb : Bool) : Out.broadcast n nb pl ∉ (s.afterFinish ns p origin r resync).2 := by
  have hsend : ∀ (s : LState) (m : Bytes) (ev : Ev), Out.broadcast n nb pl ∉ (s.send m ev).2 := by
    intro s m ev
    unfold LState.send
    split <;> simp
  have hdial : ∀ (s : LState) (r : Reason), Out.broadcast n nb pl ∉ (s.syncWithPeer ns p r).2 := by
    intro s r
    unfold LState.syncWithPeer
    split
    · simp
    · split <;> simp
  unfold LState.afterFinish
  simp only [List.mem_append, not_or]
  refine ⟨⟨hsend _ _ _, ?_⟩, ?_⟩
  · split
    · simp
    · exact hsend _ _ _
  · split
    · exact hdial _ _
    · simp

/-- a sync report is broadcast to the neighbours only after a session that brought entries -/
theorem report_broadcast_only_if_received (s : LState) (ns p : Bytes) (origin : Nat)
    (recv sent : Nat) (heads : Heads.H) (pl : Bytes)
    (h : Out.broadcast ns true pl ∈ (s.onSyncFinished ns p origin (some (recv, sent, heads))).2) :
    recv > 0 := by
  by_cases hr : recv > 0
  · exact hr
  · exfalso
    have hf : Out.broadcast ns true pl ∉ s.finishedOuts ns p (some (recv, sent, heads)) := by
      simp [LState.finishedOuts, hr]
    unfold LState.onSyncFinished at h
    split at h
    · exact hf h
    · split at h
      · exact hf h
      · rcases List.mem_append.mp h with h | h
        · exact hf h
        · exact broadcast_not_in_afterFinish _ _ _ _ _ _ _ _ _ h

/-! ## the download queue -/

theorem removeHash_unqueues (s : LState) (h : Bytes) : (s.removeHash h).1.queuedHash h = false := by
  simp [LState.removeHash, LState.queuedHash]

/-- a step never asks the downloader for a hash that is already queued -/
theorem download_only_if_not_queued (s : LState) (ns hash node : Bytes) (oim bc : Bool)
    (h : Out.download ns hash node ∈ (s.startDownload ns hash node oim bc).2) : s.queuedHash hash = false := by
  unfold LState.startDownload at h
  split at h
  · simp at h
  · split at h
    · simp at h
    · rename_i h1; simpa using h1

/-! ## non-vacuity: a concrete history that exercises the statements -/

def nsA : Bytes := [1]
def pA : Bytes := [2]
def hA : Bytes := [3]

example :
    let s0 : LState := {}
    let (s1, o1) := step s0 (.startSync nsA true [])
    let (s2, o2) := step s1 (.remoteInsert nsA hA pA true true 0 false)
    let (s3, o3) := step s2 (.localInsert nsA [9])
    let (_, o4) := step s3 (.acceptRequest nsA pA)
    o1 = [.reply true] ∧ o2 = [.download nsA hA pA] ∧ wanted s2 nsA hA = true ∧
    o3 = [.broadcast nsA false [0, 9]] ∧ o4 = [.acceptOutcome 0] := by
  decide

end Live

namespace Live

/-! ## C11 (continued): the end of a session frees the slot as in the protocol model -/

theorem send_docs (s : LState) (n : Bytes) (ev : Ev) : (s.send n ev).1.docs = s.docs := by
  unfold LState.send
  split <;> rfl

theorem slot?_send (s : LState) (n : Bytes) (ev : Ev) (ns p : Bytes) : (s.send n ev).1.slot? ns p = s.slot? ns p := by
  simp [LState.slot?, LState.doc?, send_docs]

theorem slot?_updDoc_mayEmit (s : LState) (n : Bytes) (b : Bool) (ns p : Bytes) :
    (s.updDoc n (fun d => { d with mayEmit := b })).slot? ns p = s.slot? ns p := by
  unfold LState.slot? LState.doc? LState.updDoc
  simp only
  induction s.docs with
  | nil => rfl
  | cons x xs ih =>
    simp only [List.map_cons, List.find?_cons]
    by_cases hx : x.ns == n
    · simp only [hx, if_true]
      by_cases h2 : x.ns == ns
      · simp [h2, Doc.slot]
      · simp only [h2]; exact ih
    · simp only [hx, Bool.false_eq_true, if_false]
      by_cases h2 : x.ns == ns
      · simp [h2]
      · simp only [h2]; exact ih

theorem queuedNs_send (s : LState) (n : Bytes) (ev : Ev) (ns : Bytes) : (s.send n ev).1.queuedNs ns = s.queuedNs ns := by
  unfold LState.send
  split <;> rfl

theorem afterFinish_slot (s1 : LState) (ns p : Bytes) (origin : Nat) (res : Option (Nat × Nat)) (r : Bool)
    (hs1 : s1.slot? ns p = some (.idle, r)) :
    (s1.afterFinish ns p origin res r).1.slot? ns p = some (if r then (.conn, false) else (.idle, false)) := by
  unfold LState.afterFinish
  simp only
  have h3 : ∀ (q : Bool), (if q then ((s1.send ns (.syncFinished p origin res)).1.updDoc ns (fun d => { d with mayEmit := true }), ([] : List Out))
      else (((s1.send ns (.syncFinished p origin res)).1.send ns .pendingContentReady).1.updDoc ns (fun d => { d with mayEmit := false }),
            ((s1.send ns (.syncFinished p origin res)).1.send ns .pendingContentReady).2)).1.slot? ns p = some (.idle, r) := by
    intro q
    cases q
    · simp only [Bool.false_eq_true, if_false]
      rw [slot?_updDoc_mayEmit, slot?_send, slot?_send]; exact hs1
    · simp only [if_true]
      rw [slot?_updDoc_mayEmit, slot?_send]; exact hs1
  cases r
  · simp only [Bool.false_eq_true, if_false]
    exact h3 _
  · simp only [if_true]
    have := (syncWithPeer_slot _ ns p 3 (.idle, true)
      (h3 ((s1.send ns (.syncFinished p origin res)).1.queuedNs ns))).1
    simpa [nodeOf, Coord.Node.startConnect] using this

/-- `on_sync_finished` acts on the slot as `Coord.Node.finish`: the slot is freed whatever the origin and
the result, and a refused report is followed up by exactly one dial -/
theorem finish_slot (s : LState) (ns p : Bytes) (origin : Nat) (res : Option (Nat × Nat × Heads.H))
    (x : Coord.St × Bool) (h : s.slot? ns p = some x) :
    (s.onSyncFinished ns p origin res).1.slot? ns p =
      some (((nodeOf x).finish).st, ((nodeOf x).finish).resync) := by
  unfold LState.slot? at h
  cases hd : s.doc? ns with
  | none => simp [hd] at h
  | some d =>
    simp only [hd, Option.map_some, Option.some.injEq] at h
    unfold LState.onSyncFinished
    simp only [hd]
    obtain ⟨st, r⟩ := x
    rw [h]
    have hs0 : (s.updDoc ns (·.setSlot p (.idle, r))).slot? ns p = some (.idle, r) := slot?_set s ns p _ d hd
    cases st with
    | idle => simp [nodeOf, Coord.Node.finish, hs0]
    | conn =>
      simp only
      rw [afterFinish_slot _ ns p origin _ r hs0]
      cases r <;> simp [nodeOf, Coord.Node.finish, Coord.Node.startConnect]
    | acc =>
      simp only
      rw [afterFinish_slot _ ns p origin _ r hs0]
      cases r <;> simp [nodeOf, Coord.Node.finish, Coord.Node.startConnect]

end Live

namespace Live

/-- `leave` that fails half-way (a store call fails because the replica was closed behind the live actor's
back): the document has left the coordination state, the reply is an error, and neither the gossip topic
nor the subscribers have been touched — the `?` returns before `gossip.quit` and `subscribers.remove` -/
theorem leave_half_way (s : LState) (ns : Bytes) (kill : Bool) (h : s.syncing ns = true) :
    let r := step s (.leave ns kill false)
    r.2 = [.reply false] ∧ r.1.syncing ns = false ∧ r.1.topics = s.topics ∧ r.1.subs = s.subs := by
  simp only [step, h, if_true, Bool.false_eq_true, if_false]
  refine ⟨trivial, ?_, trivial, trivial⟩
  simp only [LState.syncing, LState.doc?]
  cases hf : (s.docs.filter (·.ns != ns)).find? (·.ns == ns) with
  | none => rfl
  | some d =>
    have hm := List.mem_of_find?_eq_some hf
    have hp := List.find?_some hf
    have := (List.mem_filter.mp hm).2
    simp only [bne_iff_ne, ne_eq] at this
    exact absurd (by simpa using hp) this

/-- a `leave` whose store calls succeed quits the topic and, if asked to, drops the subscribers -/
theorem leave_complete (s : LState) (ns : Bytes) (h : s.syncing ns = true) :
    (step s (.leave ns true true)).1.topics = s.topics.filter (· != ns) ∧
    (step s (.leave ns true true)).1.subs = s.subs.filter (·.1 != ns) ∧
    (step s (.leave ns true true)).2 = [.reply true] := by
  simp only [step, h, if_true]
  exact ⟨trivial, trivial, trivial⟩

end Live
