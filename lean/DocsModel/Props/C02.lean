import DocsModel.Lemmas.Put
/-!
# C02 — replica state is an order-independent function of the entries offered

Model: `Spec.put` / `Spec.run` (`DocsModel/Model/Spec.lean`), the transcription of
`ranger::Store::put` over the ordered-map definitions of the store primitives. That the redb
tables implement those primitives is `DocsModel/Props/C08.lean`; that the three ingress calls are
`validate ∘ put` is `DocsModel/Props/C03.lean`. The correspondence harness (`harness c02`) runs the
real `Replica::insert` / `delete_prefix` / `insert_remote_entry` against `Spec.run` and `Spec.join`.

Hypothesis `PayloadFunctional` (known finding F11): two offered entries that agree in
namespace, author, key, timestamp and hash are the same entry (same `len`, same signatures).
The value order of the code ignores `len`, so without it the first arrival wins.
-/

namespace Spec
open Entry

/-- Offered entries that agree in id, timestamp and hash are equal (F11 excluded). -/
def PayloadFunctional (O : List Entry) : Prop :=
  ∀ x ∈ O, ∀ y ∈ O, sameId x y → x.ts = y.ts → x.hash = y.hash → x = y

/-- **Main theorem.** After offering the entries `O` in any order to an empty replica, an entry is
held exactly when it was offered and no *other* offered entry by the same author, at the same key
or a prefix of it (empty key and deletion markers included), is at least as new. -/
theorem mem_run_iff (O : List Entry) (hpf : PayloadFunctional O) (e : Entry) :
    e ∈ run [] O ↔ e ∈ O ∧ isMax O e := by
  have inv : PutInv (run [] O) (O.reverse ++ []) := putInv_run putInv_nil O
  simp only [List.append_nil] at inv
  have hsub : ∀ x ∈ run [] O, x ∈ O := fun x hx => List.mem_reverse.mp (inv.sub x hx)
  constructor
  · intro he
    refine ⟨hsub e he, ?_⟩
    intro p hp hd
    obtain ⟨m, hm, hmd⟩ := inv.cover p (List.mem_reverse.mpr hp)
    have hme : m = e := inv.anti m hm e he (dom_trans hmd hd)
    subst hme
    obtain ⟨hid, hts, hh⟩ := dom_antisymm hd hmd
    exact hpf p hp m (hsub m hm) hid hts hh
  · rintro ⟨he, hmax⟩
    obtain ⟨m, hm, hmd⟩ := inv.cover e (List.mem_reverse.mpr he)
    have : m = e := hmax m (hsub m hm) hmd
    exact this ▸ hm

/-- The held entries are exactly the merge `join O`. -/
theorem mem_run_iff_mem_join (O : List Entry) (hpf : PayloadFunctional O) (e : Entry) :
    e ∈ run [] O ↔ e ∈ join O := by
  rw [mem_run_iff O hpf]
  unfold join
  simp [List.mem_filter]

/-- The store is always strictly sorted by `(namespace, author, key)`: one entry per id. -/
theorem run_sorted (O : List Entry) : SortedById (run [] O) :=
  (putInv_run putInv_nil O).sorted

/-- **Order independence.** Two offer sequences with the same *set* of entries — any permutation,
any repetition — produce identical replica states. -/
theorem run_perm_dup_invariant (O₁ O₂ : List Entry) (h : ∀ e, e ∈ O₁ ↔ e ∈ O₂)
    (hpf : PayloadFunctional O₁) : run [] O₁ = run [] O₂ := by
  have hpf₂ : PayloadFunctional O₂ := fun x hx y hy =>
    hpf x ((h x).mpr hx) y ((h y).mpr hy)
  apply sorted_ext (run_sorted O₁) (run_sorted O₂)
  intro e
  rw [mem_run_iff O₁ hpf, mem_run_iff O₂ hpf₂]
  constructor
  · rintro ⟨he, hm⟩; exact ⟨(h e).mp he, fun p hp => hm p ((h p).mpr hp)⟩
  · rintro ⟨he, hm⟩; exact ⟨(h e).mpr he, fun p hp => hm p ((h p).mp hp)⟩

/-- A rejected (superseded) entry changes nothing. -/
theorem put_rejected_is_noop (s : Store) (e : Entry) (h : (put s e).2 = .notInserted) :
    (put s e).1 = s := by
  by_cases hb : ∃ p ∈ s, dom p e
  · rw [put_blocked hb]
  · rw [put_free hb] at h; cases h

/-- An entry is rejected exactly when a stored entry of the same author at the same key or a
prefix of it is at least as new. -/
theorem put_rejected_iff (s : Store) (e : Entry) :
    (put s e).2 = .notInserted ↔ ∃ p ∈ s, dom p e := by
  by_cases hb : ∃ p ∈ s, dom p e
  · simp [put_blocked hb, hb]
  · simp [put_free hb, hb]

/-- **Exact removal.** An accepted insert removes exactly the stored same-author entries whose key
starts with the new key and that are not newer, reports their number, and keeps everything else. -/
theorem put_inserted_removes_exactly (s : Store) (hs : SortedById s) (e : Entry) (n : Nat)
    (h : (put s e).2 = .inserted n) :
    n = (s.filter (fun c => decide (dom e c))).length ∧
    (∀ x, x ∈ (put s e).1 ↔ x = e ∨ (x ∈ s ∧ ¬ dom e x)) := by
  by_cases hb : ∃ p ∈ s, dom p e
  · rw [put_blocked hb] at h; cases h
  · refine ⟨?_, mem_put_free hs hb⟩
    rw [put_free hb] at h
    injection h with h
    exact h.symm

/-- Frame: entries of another author (or namespace) are never touched by an insert. -/
theorem put_keeps_other_authors (s : Store) (hs : SortedById s) (e x : Entry) (hx : x ∈ s)
    (hne : x.ns ≠ e.ns ∨ x.author ≠ e.author) : x ∈ (put s e).1 := by
  by_cases hb : ∃ p ∈ s, dom p e
  · rw [put_blocked hb]; exact hx
  · refine (mem_put_free hs hb x).mpr (Or.inr ⟨hx, ?_⟩)
    rintro ⟨⟨h1, h2, _⟩, _⟩
    rcases hne with h | h
    · exact h h1.symm
    · exact h h2.symm

/-- Frame: a key that does not start with the inserted key — in particular one that merely sorts
next to the prefix, like `[2]` next to `[1,255]` — is never touched. -/
theorem put_keeps_non_prefixed (s : Store) (hs : SortedById s) (e x : Entry) (hx : x ∈ s)
    (hk : ¬ e.key <+: x.key) : x ∈ (put s e).1 := by
  by_cases hb : ∃ p ∈ s, dom p e
  · rw [put_blocked hb]; exact hx
  · refine (mem_put_free hs hb x).mpr (Or.inr ⟨hx, ?_⟩)
    rintro ⟨⟨_, _, h3⟩, _⟩
    exact hk h3

/-- Frame: a newer entry below the inserted key survives the insert. -/
theorem put_keeps_newer (s : Store) (hs : SortedById s) (e x : Entry) (hx : x ∈ s)
    (hnewer : ¬ valueLe x e) : x ∈ (put s e).1 := by
  by_cases hb : ∃ p ∈ s, dom p e
  · rw [put_blocked hb]; exact hx
  · refine (mem_put_free hs hb x).mpr (Or.inr ⟨hx, ?_⟩)
    rintro ⟨_, h⟩
    exact hnewer h

/-! ## Non-vacuity and the excluded point -/

private def ns0 : Bytes := [7]
private def au0 : Bytes := [1]
private def au1 : Bytes := [2]
private def hA : Bytes := [0xaa]
private def tombA10 : Entry := { ns := ns0, author := au0, key := [97], ts := 10, len := 0, hash := emptyHash }
private def ab5 : Entry := { ns := ns0, author := au0, key := [97, 98], ts := 5, len := 3, hash := hA }
private def b5other : Entry := { ns := ns0, author := au1, key := [97, 98], ts := 5, len := 3, hash := hA }
private def k2 : Entry := { ns := ns0, author := au0, key := [2], ts := 5, len := 3, hash := hA }
private def k1ff : Entry := { ns := ns0, author := au0, key := [1, 255], ts := 9, len := 0, hash := emptyHash }
private def k1ff3 : Entry := { ns := ns0, author := au0, key := [1, 255, 3], ts := 5, len := 3, hash := hA }

/-- the hypothesis of the main theorem is satisfiable by a non-trivial collection -/
example : PayloadFunctional [tombA10, ab5, b5other, k2, k1ff, k1ff3] := by
  unfold PayloadFunctional; decide

/-- F1a: both arrival orders of a deletion marker and an older entry below it give the marker only. -/
example : run [] [tombA10, ab5] = [tombA10] ∧ run [] [ab5, tombA10] = [tombA10] := by decide

/-- F2: deleting prefix `[1,255]` removes `[1,255,3]` and leaves the neighbouring key `[2]`. -/
example : put [k1ff3, k2] k1ff = ([k1ff, k2], .inserted 1) := by decide

/-- F11 (known finding): without `PayloadFunctional` the first arrival wins. -/
private def len3 : Entry := { ns := ns0, author := au0, key := [107], ts := 5, len := 3, hash := hA }
private def len4 : Entry := { ns := ns0, author := au0, key := [107], ts := 5, len := 4, hash := hA }
theorem order_dependent_without_payloadFunctional :
    run [] [len3, len4] ≠ run [] [len4, len3] ∧ ¬ PayloadFunctional [len3, len4] := by
  unfold PayloadFunctional; decide

end Spec
