import DocsModel.Lemmas.Reach
import DocsModel.Model.Txn
/-!
# C06 — flushed data survives; a crash never exposes a half-applied write

Model: `Txn.P` (`CurrentTransaction`, `tables`, `modify`, `modify_in_current`, `flush`, `snapshot`,
`snapshot_owned`) with an oracle that decides, at every store access, whether the open write
transaction is found older than `MAX_COMMIT_DELAY` (and is committed first). A crash keeps
`durable`. redb's own atomic commit and recovery are trusted (partial: the model cannot exhibit a
redb recovery bug).
-/

namespace Txn
open Tables

/-- the states the store passes through between complete operations: after each prefix of `ops` -/
def boundaries (t0 : T) : List Op → List T
  | [] => [t0]
  | op :: rest => t0 :: boundaries (Op.effect t0 op) rest

def finalState (t0 : T) (ops : List Op) : T := ops.foldl Op.effect t0

theorem finalState_mem_boundaries (t0 : T) (ops : List Op) : finalState t0 ops ∈ boundaries t0 ops := by
  induction ops generalizing t0 with
  | nil => simp [finalState, boundaries]
  | cons op rest ih =>
    simp only [finalState, List.foldl_cons, boundaries, List.mem_cons]
    exact Or.inr (ih _)

theorem boundaries_snoc (t0 : T) (ops : List Op) (op : Op) (t : T) (h : t ∈ boundaries t0 ops) :
    t ∈ boundaries t0 (ops ++ [op]) := by
  induction ops generalizing t0 with
  | nil =>
    simp only [boundaries, List.mem_singleton] at h
    subst h
    simp [boundaries]
  | cons o rest ih =>
    simp only [boundaries, List.mem_cons, List.cons_append] at h ⊢
    rcases h with h | h
    · exact Or.inl h
    · exact Or.inr (ih _ h)

theorem finalState_snoc (t0 : T) (ops : List Op) (op : Op) :
    finalState t0 (ops ++ [op]) = Op.effect (finalState t0 ops) op := by
  simp [finalState, List.foldl_append]

/-- the invariant: what is durable is a boundary state of the history so far, and what the
operations see is the state after all of them -/
structure Inv (t0 : T) (done : List Op) (p : P) : Prop where
  durable : p.durable ∈ boundaries t0 done
  view : p.view = finalState t0 done

/-- one access: the durable state stays a boundary state *of the history before this operation*
(or becomes the current view), and the view becomes `f view` -/
theorem access_spec (p : P) (aged : Nat → Bool) (f : T → T) :
    ((p.access aged f).durable = p.durable ∨ (p.access aged f).durable = p.view) ∧
    (p.access aged f).view = f p.view := by
  unfold P.access P.view
  cases hc : p.cur with
  | none => simp
  | read => simp
  | write w =>
    simp only
    by_cases ha : aged p.accesses = true
    · simp [ha]
    · simp [ha]

theorem accessInCurrent_spec (p : P) (aged : Nat → Bool) (f : T → T) :
    ((p.accessInCurrent aged f).durable = p.durable ∨ (p.accessInCurrent aged f).durable = p.view) ∧
    (p.accessInCurrent aged f).view = f p.view := by
  unfold P.accessInCurrent
  cases hc : p.cur with
  | none => simp only; have := access_spec p aged f; simpa [hc] using this
  | read => simp only; have := access_spec p aged f; simpa [hc] using this
  | write w => simp [P.view, hc]

theorem effect_put (t : T) (e : Entry) :
    Op.effect t (.put e) =
      match nsGet t e.ns with
      | none => t
      | some _ =>
        if (parents t.records e.ns e.author e.key).any (fun q => decide (Entry.valueLe e q)) then t
        else entryPut (prunedRecords t e) e := by
  unfold Op.effect remotePut nsGet
  cases hf : t.namespaces.find? (fun r => r.1 == e.ns) with
  | none => simp [hf]
  | some r =>
    simp only [Option.map_some]
    unfold Tables.put
    by_cases hb : (parents t.records e.ns e.author e.key).any (fun q => decide (Entry.valueLe e q)) = true
    · simp [hb, hf]
    · simp [hb, hf, prunedRecords]

/-- the three ways a remote insert runs through the store accesses -/
theorem run_put (p : P) (aged : Nat → Bool) (e : Entry) :
    let p1 := p.access aged id
    let p2 := p1.access aged id
    let blocked := (parents p.view.records e.ns e.author e.key).any (fun q => decide (Entry.valueLe e q))
    P.run false aged p (.put e) =
      match nsGet p.view e.ns with
      | none => p1
      | some _ =>
        if blocked then p2
        else ((p2.access aged (fun t => prunedRecords t e)).accessInCurrent aged (fun t => entryPut t e)).access aged id := by
  have hv1 : (p.access aged id).view = p.view := (access_spec p aged id).2
  have hv2 : ((p.access aged id).access aged id).view = p.view := by
    rw [(access_spec (p.access aged id) aged id).2]; exact hv1
  simp only [P.run, hv1, hv2, Bool.false_eq_true, if_false]
  rfl

/-- a durable state that is a boundary before the operation, or equal to the view at some point
where the view was still the state before the operation, stays within the boundaries after it -/
theorem inv_step (t0 : T) (done : List Op) (p : P) (aged : Nat → Bool) (op : Op) (inv : Inv t0 done p) :
    Inv t0 (done ++ [op]) (p.run false aged op) := by
  have hview := inv.view
  have hmem_view : p.view ∈ boundaries t0 done := hview ▸ finalState_mem_boundaries t0 done
  -- helper: after one access with `f = effect`
  have single : ∀ f : T → T, (∀ t, f t = Op.effect t op) → Inv t0 (done ++ [op]) (p.access aged f) := by
    intro f hf
    obtain ⟨hd, hv⟩ := access_spec p aged f
    refine ⟨?_, ?_⟩
    · rcases hd with hd | hd
      · rw [hd]; exact boundaries_snoc _ _ _ _ inv.durable
      · rw [hd]; exact boundaries_snoc _ _ _ _ hmem_view
    · rw [hv, hf, hview, finalState_snoc]
  cases op with
  | importNs ns kind raw => exact single _ (fun _ => rfl)
  | remove ns => exact single _ (fun _ => rfl)
  | peer ns nanos pid => exact single (fun t => (registerUsefulPeer t ns nanos pid).getD t) (fun _ => rfl)
  | policy ns pol => exact single (fun t => (setDownloadPolicy t ns pol).getD t) (fun _ => rfl)
  | readTables => exact single id (fun _ => rfl)
  | flush =>
    simp only [P.run]
    refine ⟨?_, ?_⟩
    · unfold P.flush
      cases hc : p.cur with
      | write w =>
        simp only
        have : p.view = w := by simp [P.view, hc]
        rw [← this]; exact boundaries_snoc _ _ _ _ hmem_view
      | none => exact boundaries_snoc _ _ _ _ inv.durable
      | read => exact boundaries_snoc _ _ _ _ inv.durable
    · rw [finalState_snoc, ← hview]
      unfold P.flush P.view Op.effect
      cases hc : p.cur <;> simp [hc]
  | readSnapshotOwned =>
    simp only [P.run]
    refine ⟨?_, ?_⟩
    · unfold P.flush
      cases hc : p.cur with
      | write w =>
        simp only
        have : p.view = w := by simp [P.view, hc]
        rw [← this]; exact boundaries_snoc _ _ _ _ hmem_view
      | none => exact boundaries_snoc _ _ _ _ inv.durable
      | read => exact boundaries_snoc _ _ _ _ inv.durable
    · rw [finalState_snoc, ← hview]
      unfold P.flush P.view Op.effect
      cases hc : p.cur <;> simp [hc]
  | readSnapshot =>
    simp only [P.run]
    refine ⟨?_, ?_⟩
    · unfold P.snapshot
      cases hc : p.cur with
      | write w =>
        simp only
        have : p.view = w := by simp [P.view, hc]
        rw [← this]; exact boundaries_snoc _ _ _ _ hmem_view
      | none => exact boundaries_snoc _ _ _ _ inv.durable
      | read => exact boundaries_snoc _ _ _ _ inv.durable
    · rw [finalState_snoc, ← hview]
      unfold P.snapshot P.view Op.effect
      cases hc : p.cur <;> simp [hc]
  | put e =>
    have hrun := run_put p aged e
    simp only at hrun
    rw [hrun]
    have heff := effect_put p.view e
    -- the accesses, one after the other
    obtain ⟨hd1, hv1⟩ := access_spec p aged id
    have hv1' : (p.access aged id).view = p.view := hv1
    have hd1' : (p.access aged id).durable ∈ boundaries t0 done := by
      rcases hd1 with h | h
      · rw [h]; exact inv.durable
      · rw [h]; exact hmem_view
    obtain ⟨hd2, hv2⟩ := access_spec (p.access aged id) aged id
    have hv2' : ((p.access aged id).access aged id).view = p.view := by rw [hv2]; exact hv1'
    have hd2' : ((p.access aged id).access aged id).durable ∈ boundaries t0 done := by
      rcases hd2 with h | h
      · rw [h]; exact hd1'
      · rw [h, hv1']; exact hmem_view
    cases hns : nsGet p.view e.ns with
    | none =>
      rw [hns] at heff
      simp only
      exact ⟨boundaries_snoc _ _ _ _ hd1', by rw [finalState_snoc, ← hview, heff]; exact hv1'⟩
    | some v =>
      rw [hns] at heff
      simp only at heff ⊢
      by_cases hblk : (parents p.view.records e.ns e.author e.key).any (fun q => decide (Entry.valueLe e q)) = true
      · simp only [hblk, if_true] at heff ⊢
        exact ⟨boundaries_snoc _ _ _ _ hd2', by rw [finalState_snoc, ← hview, heff]; exact hv2'⟩
      · simp only [hblk, Bool.false_eq_true, if_false] at heff ⊢
        obtain ⟨hd3, hv3⟩ := access_spec ((p.access aged id).access aged id) aged (fun t => prunedRecords t e)
        obtain ⟨hd4, hv4⟩ := accessInCurrent_spec
          (((p.access aged id).access aged id).access aged (fun t => prunedRecords t e)) aged (fun t => entryPut t e)
        obtain ⟨hd5, hv5⟩ := access_spec
          ((((p.access aged id).access aged id).access aged (fun t => prunedRecords t e)).accessInCurrent aged
            (fun t => entryPut t e)) aged id
        -- after the prune the transaction is a write transaction: entry_put stays in it
        have hd4' : ((((p.access aged id).access aged id).access aged (fun t => prunedRecords t e)).accessInCurrent aged
            (fun t => entryPut t e)).durable =
            (((p.access aged id).access aged id).access aged (fun t => prunedRecords t e)).durable := by
          simp [P.accessInCurrent, P.access]
        have hview4 : ((((p.access aged id).access aged id).access aged (fun t => prunedRecords t e)).accessInCurrent aged
            (fun t => entryPut t e)).view = Op.effect p.view (.put e) := by
          rw [hv4, hv3, hv2', heff]
        have hd3' : (((p.access aged id).access aged id).access aged (fun t => prunedRecords t e)).durable ∈ boundaries t0 done := by
          rcases hd3 with h | h
          · rw [h]; exact hd2'
          · rw [h, hv2']; exact hmem_view
        refine ⟨?_, ?_⟩
        · rcases hd5 with h | h
          · rw [h, hd4']; exact boundaries_snoc _ _ _ _ hd3'
          · rw [h, hview4, hview, ← finalState_snoc]; exact finalState_mem_boundaries _ _
        · rw [hv5]
          show _ = _
          rw [finalState_snoc, ← hview]
          exact hview4

/-- **What is durable is always a state between two complete operations** — for every history,
and wherever the age-based automatic commit falls among the store accesses. -/
theorem durable_is_boundary_state (ops : List Op) (aged : Nat → Bool) :
    (P.runAll false aged {} ops).durable ∈ boundaries {} ops ∧
    (P.runAll false aged {} ops).view = finalState {} ops := by
  suffices h : ∀ (done rest : List Op) (p : P), Inv {} done p →
      Inv {} (done ++ rest) (rest.foldl (P.run false aged) p) by
    have := h [] ops {} ⟨by simp [boundaries], rfl⟩
    exact ⟨by simpa [P.runAll] using this.durable, by simpa [P.runAll] using this.view⟩
  intro done rest
  induction rest generalizing done with
  | nil => intro p h; simpa using h
  | cons op rest ih =>
    intro p h
    have := ih (done ++ [op]) (p.run false aged op) (inv_step {} done p aged op h)
    simpa [List.append_assoc] using this

theorem flush_view_durable (p : P) : p.flush.durable = p.view ∧ p.flush.view = p.view := by
  unfold P.flush P.view
  cases hc : p.cur <;> simp

/-- the same from any starting point that satisfies the invariant -/
theorem inv_run (t0 : T) (aged : Nat → Bool) (done rest : List Op) (p : P) (h : Inv t0 done p) :
    Inv t0 (done ++ rest) (rest.foldl (P.run false aged) p) := by
  induction rest generalizing done p with
  | nil => simpa using h
  | cons op rest ih =>
    have := ih (done ++ [op]) (p.run false aged op) (inv_step t0 done p aged op h)
    simpa [List.append_assoc] using this

/-- **Nothing acknowledged before a flush is ever lost**: whatever happens after a `flush` — more
operations, automatic commits anywhere, a crash at any point — the durable state is a boundary
state of the operations *after* the flush, starting from the state the flush made durable. -/
theorem durable_after_flush (pre post : List Op) (aged : Nat → Bool) :
    (P.runAll false aged {} (pre ++ [.flush] ++ post)).crash.durable ∈
      boundaries (finalState {} pre) post := by
  have h1 := durable_is_boundary_state pre aged
  have hfl : Inv (finalState {} pre) [] ((P.runAll false aged {} pre).flush) := by
    have hf := flush_view_durable (P.runAll false aged {} pre)
    refine ⟨?_, ?_⟩
    · simp only [boundaries, List.mem_singleton]; rw [hf.1, h1.2]
    · rw [hf.2, h1.2]; rfl
  have := inv_run (finalState {} pre) aged [] post _ hfl
  simp only [P.runAll, List.foldl_append, List.foldl_cons, List.foldl_nil, P.run, P.crash] at this ⊢
  simpa using this.durable

/-- **Flushed data survives**: after `flush` (and after every read that commits) the durable state
is the state after all acknowledged operations; a crash at that moment loses nothing. -/
theorem flush_makes_durable (p : P) : p.flush.durable = p.view ∧ p.flush.crash.durable = p.view := by
  unfold P.flush P.view P.crash
  cases p.cur <;> simp

theorem crash_keeps_durable (p : P) : p.crash.durable = p.durable ∧ p.crash.view = p.durable := by
  simp [P.crash, P.view]

/-- every boundary state of a well-formed history satisfies `TablesInv`: in the reopened store
lookups, both query paths and the per-author heads agree with each other -/
theorem boundary_states_consistent (ops : List TOp) (hops : ∀ op ∈ ops, op.Ok) :
    TablesInv (ops.foldl applyOp {}) := tablesInv_reachable ops hops

/-- F10: with `entry_put` going through `modify` (the code before the repair), an automatic commit
between the prune and the write leaves a durable state that is *not* a boundary: the child is gone
and the deletion marker that superseded it is missing. -/
theorem split_put_exposes_half_applied_write :
    let ns : Bytes := zero32
    let au : Bytes := ff32
    let child : Entry := { ns := ns, author := au, key := [97, 98], ts := 5, len := 1, hash := [1] }
    let marker : Entry := { ns := ns, author := au, key := [97], ts := 10, len := 0, hash := Entry.emptyHash }
    let ops := [Op.importNs ns 1 ns, .put child, .flush, .put marker]
    -- accesses: 0 import; 1..5 first put; second put: 6, 7, 8 prune, 9 entry_put (old code), 10
    let p := P.runAll true (fun i => i == 9) {} ops
    p.durable.records = [] ∧ (boundaries {} ops).all (fun t => t.records != []) = false ∧
    ((boundaries {} ops).map (·.records.length)) = [0, 0, 1, 1, 1] := by
  decide

end Txn
