import DocsModel.Lemmas.SortedExt
import DocsModel.Props.C13
/-!
# C13 — a head report survives `encode` / `decode` unchanged

`decode (encode h None) = h` for every head map (authors 32 bytes, 64-bit timestamps): the encoder
sorts by (timestamp, author) and writes newest first; the decoder re-inserts into a map keyed by
author. Authors sharing a timestamp are kept apart (F5).
-/

namespace Heads

/-- a head map as the crate holds it: sorted by author, one entry per author -/
structure HWf (h : H) : Prop where
  sorted : h.Pairwise (fun x y => x.1 < y.1)
  wf : ∀ x ∈ h, x.1.length = 32 ∧ x.2 < 2 ^ 64
  small : h.length < 2 ^ 64

theorem insertTA_perm (x : Nat × Bytes) (l : List (Nat × Bytes)) : (insertTA x l).Perm (x :: l) := by
  induction l with
  | nil => exact List.Perm.refl _
  | cons y ys ih =>
    unfold insertTA
    split
    · exact List.Perm.refl _
    · exact (List.Perm.cons y ih).trans (List.Perm.swap x y ys)

theorem sortTA_perm (l : List (Nat × Bytes)) : (sortTA l).Perm l := by
  induction l with
  | nil => exact List.Perm.refl _
  | cons x xs ih =>
    show (insertTA x (sortTA xs)).Perm (x :: xs)
    exact (insertTA_perm x (sortTA xs)).trans (List.Perm.cons x ih)

/-- inserting an author that is not in the map: the sorted insertion -/
theorem insert_fresh (h : H) (hs : h.Pairwise (fun x y => x.1 < y.1)) (a : Bytes) (ts : Nat)
    (hfresh : ∀ x ∈ h, x.1 ≠ a) :
    (insert h a ts).Pairwise (fun x y => x.1 < y.1) ∧ ∀ x, x ∈ insert h a ts ↔ x = (a, ts) ∨ x ∈ h := by
  induction h with
  | nil => exact ⟨by simp [insert], by simp [insert]⟩
  | cons y ys ih =>
    obtain ⟨b, t⟩ := y
    have hy := List.pairwise_cons.mp hs
    have hne : b ≠ a := hfresh (b, t) List.mem_cons_self
    unfold insert
    by_cases h1 : a < b
    · simp only [h1, if_true]
      refine ⟨List.pairwise_cons.mpr ⟨?_, hs⟩, by simp⟩
      intro z hz
      rcases List.mem_cons.mp hz with hz | hz
      · subst hz; exact h1
      · exact List.lt_trans h1 (hy.1 z hz)
    · simp only [h1, if_false]
      have h2 : b < a := by
        rcases List.le_iff_lt_or_eq.mp (List.not_lt.mp h1) with h | h
        · exact h
        · exact absurd h hne
      simp only [h2, if_true]
      obtain ⟨ih1, ih2⟩ := ih hy.2 (fun x hx => hfresh x (List.mem_cons_of_mem _ hx))
      refine ⟨List.pairwise_cons.mpr ⟨?_, ih1⟩, ?_⟩
      · intro z hz
        rcases (ih2 z).mp hz with hz | hz
        · rw [hz]; exact h2
        · exact hy.1 z hz
      · intro x
        simp only [List.mem_cons, ih2 x]
        constructor
        · rintro (h | h | h)
          · exact Or.inr (Or.inl h)
          · exact Or.inl h
          · exact Or.inr (Or.inr h)
        · rintro (h | h | h)
          · exact Or.inr (Or.inl h)
          · exact Or.inl h
          · exact Or.inr (Or.inr h)

/-- folding `insert` over pairs with distinct authors builds the sorted map of exactly these pairs -/
theorem fold_insert (l : List (Nat × Bytes)) (hnd : (l.map (·.2)).Nodup) (h0 : H)
    (hs0 : h0.Pairwise (fun x y => x.1 < y.1)) (hdis : ∀ x ∈ h0, ∀ y ∈ l, x.1 ≠ y.2) :
    (l.foldl (fun h (x : Nat × Bytes) => insert h x.2 x.1) h0).Pairwise (fun x y => x.1 < y.1) ∧
    ∀ x, x ∈ l.foldl (fun h (x : Nat × Bytes) => insert h x.2 x.1) h0 ↔ x ∈ h0 ∨ (x.2, x.1) ∈ l := by
  induction l generalizing h0 with
  | nil => exact ⟨hs0, by simp⟩
  | cons y ys ih =>
    have hnd' : y.2 ∉ ys.map (·.2) ∧ (ys.map (·.2)).Nodup := by
      have := hnd
      rw [List.map_cons, List.nodup_cons] at this
      exact this
    obtain ⟨i1, i2⟩ := insert_fresh h0 hs0 y.2 y.1 (fun x hx => hdis x hx y List.mem_cons_self)
    simp only [List.foldl_cons]
    have hdis' : ∀ x ∈ insert h0 y.2 y.1, ∀ z ∈ ys, x.1 ≠ z.2 := by
      intro x hx z hz
      rcases (i2 x).mp hx with h | h
      · rw [h]
        intro he
        exact hnd'.1 (List.mem_map.mpr ⟨z, hz, he.symm⟩)
      · exact hdis x h z (List.mem_cons_of_mem _ hz)
    obtain ⟨r1, r2⟩ := ih hnd'.2 (insert h0 y.2 y.1) i1 hdis'
    refine ⟨r1, fun x => ?_⟩
    rw [r2 x, i2 x]
    constructor
    · rintro ((h | h) | h)
      · right; rw [h]; exact List.mem_cons_self
      · exact Or.inl h
      · exact Or.inr (List.mem_cons_of_mem _ h)
    · rintro (h | h)
      · exact Or.inl (Or.inr h)
      · rcases List.mem_cons.mp h with h | h
        · left; left
          exact Prod.ext (by rw [← h]) (by rw [← h])
        · exact Or.inr h

theorem encVarint_len_pos (n : Nat) : 1 ≤ (Postcard.encVarint n).length := by
  unfold Postcard.encVarint Postcard.encVarintAux; split <;> simp

theorem items_len (items : List (Nat × Bytes)) (hwf : ∀ x ∈ items, x.2.length = 32) :
    items.length ≤ (items.flatMap (fun (x : Nat × Bytes) => Postcard.encVarint x.1 ++ x.2)).length := by
  induction items with
  | nil => simp
  | cons x xs ih =>
    have h1 := ih (fun y hy => hwf y (List.mem_cons_of_mem _ hy))
    have h32 := hwf x List.mem_cons_self
    have h2 := encVarint_len_pos x.1
    simp only [List.flatMap_cons, List.length_append, List.length_cons]
    omega

/-- **Round trip.** Encoding without a limit and decoding returns the same head map. -/
theorem decode_encode (h : H) (hwf : HWf h) : ∃ b, encode h none = some b ∧ decode b = some h := by
  let nf := (sortTA (h.map (fun (a, ts) => (ts, a)))).reverse
  have hperm : nf.Perm (h.map (fun (a, ts) => (ts, a))) :=
    (List.reverse_perm _).trans (sortTA_perm _)
  have hmem : ∀ x : Nat × Bytes, x ∈ nf ↔ (x.2, x.1) ∈ h := by
    intro x
    rw [hperm.mem_iff, List.mem_map]
    constructor
    · rintro ⟨y, hy, hxy⟩
      have : y = (x.2, x.1) := by rw [← hxy]
      rw [← this]; exact hy
    · intro hx
      exact ⟨(x.2, x.1), hx, rfl⟩
  have hitems : ∀ x ∈ nf, x.1 < 2 ^ 64 ∧ x.2.length = 32 := by
    intro x hx
    have := hwf.wf (x.2, x.1) ((hmem x).mp hx)
    exact ⟨this.2, this.1⟩
  have hlen : nf.length = h.length := by
    rw [hperm.length_eq]; simp
  refine ⟨encItems nf, rfl, ?_⟩
  unfold decode encItems
  rw [Postcard.decVarint_encVarint _ _ (by rw [hlen]; exact hwf.small)]
  simp only [Option.bind_eq_bind, Option.bind_some]
  have hnle : ¬ nf.length > (nf.flatMap (fun (ts, a) => Postcard.encVarint ts ++ a)).length := by
    have := items_len nf (fun x hx => (hitems x hx).2)
    show ¬ nf.length > (nf.flatMap (fun (x : Nat × Bytes) => Postcard.encVarint x.1 ++ x.2)).length
    omega
  simp only [hnle, if_false]
  have hdec := decItems_encItems nf [] hitems
  simp only [List.append_nil] at hdec
  rw [hdec]
  simp only [Option.bind_some]
  -- the decoder's map is the sorted map of the same pairs
  have hnd : (nf.map (·.2)).Nodup := by
    have hp2 : (nf.map (·.2)).Perm (h.map (·.1)) := by
      have := hperm.map (·.2)
      rw [List.map_map] at this
      exact this
    rw [hp2.nodup_iff]
    rw [List.nodup_iff_pairwise_ne, List.pairwise_map]
    exact hwf.sorted.imp (fun {a b} (hlt : a.1 < b.1) (he : a.1 = b.1) => List.lt_irrefl b.1 (he ▸ hlt))
  obtain ⟨f1, f2⟩ := fold_insert nf hnd [] List.Pairwise.nil (by simp)
  congr 1
  apply pairwise_ext (fun (x y : Bytes × Nat) => x.1 < y.1) (fun a => List.lt_irrefl _)
    (fun a b c => List.lt_trans) _ _ _ hwf.sorted
  · intro x
    have e : (fun (h : H) (x : Nat × Bytes) => insert h x.2 x.1) =
        (fun (h : H) (x : Nat × Bytes) => match x with | (ts, a) => insert h a ts) := by
      funext h x; rfl
    rw [← e, f2 x, hmem (x.2, x.1)]
    simp
  · rw [show (fun (h : H) (x : Nat × Bytes) => match x with | (ts, a) => insert h a ts) =
        (fun (h : H) (x : Nat × Bytes) => insert h x.2 x.1) from by funext h x; rfl]
    exact f1

end Heads
