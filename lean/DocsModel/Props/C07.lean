import DocsModel.Model.Tables
/-!
# C07 — write capability is required to author entries and is never lost

Model: the `namespaces-2` table with `Tables.importNamespace` (`Store::import_namespace` +
`Capability::merge`), `Tables.localPut` (`open_replica` + `Replica::insert` / `delete_prefix`) and
`Tables.remotePut` (`insert_remote_entry`). `kind` 1 = write (the 32 bytes are the secret),
2 = read. The in-memory copy an open replica holds inside the store actor is part of C14's model
(`Props/C14.lean`: `open_copy_eq_stored`).
-/

namespace Tables

theorem find_nsInsert_same (r : Bytes × Nat × Bytes) (l : List (Bytes × Nat × Bytes)) :
    (nsInsert r l).find? (fun x => x.1 == r.1) = some r := by
  induction l with
  | nil => simp [nsInsert]
  | cons x xs ih =>
    unfold nsInsert
    by_cases h1 : r.1 < x.1
    · simp [h1]
    · by_cases h2 : x.1 < r.1
      · have hne : (x.1 == r.1) = false := by
          apply beq_false_of_ne
          intro h; rw [h] at h2; exact List.lt_irrefl _ h2
        simp [h1, h2, List.find?_cons, hne, ih]
      · simp [h1, h2]

theorem find_nsInsert_other (r : Bytes × Nat × Bytes) (l : List (Bytes × Nat × Bytes)) (ns : Bytes)
    (hne : ns ≠ r.1) :
    (nsInsert r l).find? (fun x => x.1 == ns) = l.find? (fun x => x.1 == ns) := by
  have hr : (r.1 == ns) = false := beq_false_of_ne (fun h => hne h.symm)
  induction l with
  | nil => simp [nsInsert, hr]
  | cons x xs ih =>
    unfold nsInsert
    by_cases h1 : r.1 < x.1
    · simp [h1, List.find?_cons, hr]
    · by_cases h2 : x.1 < r.1
      · simp only [h1, h2, if_false, if_true, List.find?_cons, ih]
      · have hx : x.1 = r.1 := List.le_antisymm (List.not_lt.mp h1) (List.not_lt.mp h2)
        have hxn : (x.1 == ns) = false := by rw [hx]; exact hr
        simp [h1, h2, List.find?_cons, hr, hxn]

/-- importing a capability for one document does not change any other document's capability -/
theorem import_frame (t : T) (ns other : Bytes) (kind : Nat) (raw : Bytes) (hne : other ≠ ns) :
    nsGet (importNamespace t ns kind raw).1 other = nsGet t other := by
  unfold importNamespace
  cases h : nsGet t ns with
  | none => simp only [nsGet]; rw [find_nsInsert_other _ _ _ hne]
  | some v =>
    obtain ⟨k0, raw0⟩ := v
    simp only
    split <;> (simp only [nsGet]; rw [find_nsInsert_other _ _ _ hne])

/-- … nor any table other than the capability table -/
theorem import_touches_only_namespaces (t : T) (ns : Bytes) (kind : Nat) (raw : Bytes) :
    let t' := (importNamespace t ns kind raw).1
    t'.records = t.records ∧ t'.byKey = t.byKey ∧ t'.latest = t.latest ∧ t'.peers = t.peers ∧
    t'.policies = t.policies ∧ t'.authors = t.authors := by
  unfold importNamespace
  cases nsGet t ns with
  | none => simp
  | some v => obtain ⟨k0, raw0⟩ := v; simp only; split <;> simp

/-- **Never lost.** A document that holds the write capability keeps it, with the same secret,
whatever capability (read or write) is imported afterwards. -/
theorem write_never_lost (t : T) (ns ns' : Bytes) (secret : Bytes) (kind : Nat) (raw : Bytes)
    (h : nsGet t ns = some (1, secret)) :
    nsGet (importNamespace t ns' kind raw).1 ns = some (1, secret) := by
  by_cases hne : ns = ns'
  · subst hne
    unfold importNamespace
    rw [h]
    simp only
    have : ¬ ((1 : Nat) = 2 ∧ kind = 1) := by omega
    simp only [this, if_false, nsGet]
    have := find_nsInsert_same (ns, 1, secret) t.namespaces
    simp only at this
    rw [this]
    rfl
  · rw [import_frame t ns' ns kind raw hne]; exact h

/-- … over any sequence of imports -/
theorem write_never_lost_seq (t : T) (ns secret : Bytes) (imports : List (Bytes × Nat × Bytes))
    (h : nsGet t ns = some (1, secret)) :
    nsGet (imports.foldl (fun t i => (importNamespace t i.1 i.2.1 i.2.2).1) t) ns = some (1, secret) := by
  induction imports generalizing t with
  | nil => exact h
  | cons i rest ih => exact ih _ (write_never_lost t ns i.1 secret i.2.1 i.2.2 h)

/-- importing the write secret upgrades a read-only document -/
theorem import_write_upgrades (t : T) (ns id secret : Bytes) (h : nsGet t ns = some (2, id)) :
    nsGet (importNamespace t ns 1 secret).1 ns = some (1, secret) ∧
    (importNamespace t ns 1 secret).2 = .upgraded := by
  unfold importNamespace
  rw [h]
  simp only [and_self, if_true, nsGet]
  have := find_nsInsert_same (ns, 1, secret) t.namespaces
  simp only at this
  rw [this]
  simp

/-- importing a read capability never changes an existing document's capability -/
theorem import_read_no_change (t : T) (ns : Bytes) (raw : Bytes) (v : Nat × Bytes) (h : nsGet t ns = some v) :
    nsGet (importNamespace t ns 2 raw).1 ns = some v ∧ (importNamespace t ns 2 raw).2 = .noChange := by
  obtain ⟨k0, raw0⟩ := v
  unfold importNamespace
  rw [h]
  have : ¬ (k0 = 2 ∧ (2 : Nat) = 1) := by omega
  simp only [this, if_false, nsGet]
  have := find_nsInsert_same (ns, k0, raw0) t.namespaces
  simp only at this
  rw [this]
  simp

/-- **Read-only never authors.** A local insert or deletion on a document held with read
capability is answered `ReadOnly` and changes nothing. -/
theorem read_only_never_authors (t : T) (e : Entry) (id : Bytes) (h : nsGet t e.ns = some (2, id)) :
    localPut t e = (t, .readOnly) := by
  unfold localPut
  unfold nsGet at h
  cases hf : t.namespaces.find? (fun r => r.1 == e.ns) with
  | none => rw [hf] at h; cases h
  | some r =>
    rw [hf] at h
    obtain ⟨n, k, b⟩ := r
    simp only [Option.map_some, Option.some.injEq, Prod.mk.injEq] at h
    simp [h.1]

/-- … while it still accepts validly signed remote entries exactly like a writable one -/
theorem read_only_accepts_remote (t : T) (e : Entry) (v : Nat × Bytes) (h : nsGet t e.ns = some v) :
    (remotePut t e).1 = (put t e).1 ∧
    (remotePut t e).2 = (match (put t e).2 with | .inserted n => .inserted n | .notInserted => .notInserted) := by
  unfold remotePut
  unfold nsGet at h
  cases hf : t.namespaces.find? (fun r => r.1 == e.ns) with
  | none => rw [hf] at h; cases h
  | some r =>
    simp only
    rcases hp : put t e with ⟨t', o⟩
    cases o <;> simp

/-- a write attempt on an unknown document fails and changes nothing -/
theorem unknown_document_not_found (t : T) (e : Entry) (h : nsGet t e.ns = none) :
    localPut t e = (t, .notFound) ∧ remotePut t e = (t, .notFound) := by
  unfold nsGet at h
  cases hf : t.namespaces.find? (fun r => r.1 == e.ns) with
  | none => simp [localPut, remotePut, hf]
  | some r => rw [hf] at h; cases h

/-- non-vacuity: read, then write, then read again -/
example :
    let t0 : T := {}
    let t1 := (importNamespace t0 [9] 2 [9]).1
    let t2 := (importNamespace t1 [9] 1 [42]).1
    let t3 := (importNamespace t2 [9] 2 [9]).1
    nsGet t1 [9] = some (2, [9]) ∧ nsGet t2 [9] = some (1, [42]) ∧ nsGet t3 [9] = some (1, [42]) := by decide

/-! ### `Capability::merge` itself -/

/-- **another document's capability is refused**, whatever the two kinds: neither a read-only replica
nor a writable one can be handed the secret (or the id) of a different document -/
theorem capMerge_foreign_refused (self other : Bytes × Nat × Bytes) (h : other.1 ≠ self.1) :
    capMerge self other = none := by
  simp [capMerge, h]

/-- for the same document the merge never fails, names the same document afterwards, never turns a
write capability into anything else, and changes something exactly when it upgrades read to write -/
theorem capMerge_same_document (self other : Bytes × Nat × Bytes) (h : other.1 = self.1) :
    ∃ changed res, capMerge self other = some (changed, res) ∧ res.1 = self.1 ∧
      (self.2.1 = 1 → res = self) ∧
      (changed = true ↔ (self.2.1 = 2 ∧ other.2.1 = 1)) ∧
      (changed = true → res = other) ∧ (changed = false → res = self) := by
  unfold capMerge
  simp only [h, ne_eq, not_true_eq_false, if_false]
  split
  · rename_i hc
    refine ⟨true, other, rfl, h, ?_, by simp [hc], by simp, by simp⟩
    intro h1; rw [h1] at hc; exact absurd hc.1 (by decide)
  · rename_i hc
    exact ⟨false, self, rfl, rfl, fun _ => rfl, by simp [hc], by simp, by simp⟩

/-- what `import_namespace` stores for a document it already has is the merge of the stored
capability with the imported one -/
theorem import_is_merge (t : T) (ns : Bytes) (kind : Nat) (raw : Bytes) (k0 : Nat) (raw0 : Bytes)
    (h : nsGet t ns = some (k0, raw0)) :
    ∃ changed res, capMerge (ns, k0, raw0) (ns, kind, raw) = some (changed, res) ∧
      nsGet (importNamespace t ns kind raw).1 ns = some res.2 := by
  unfold importNamespace capMerge
  simp only [h, ne_eq, not_true_eq_false, if_false]
  split
  · refine ⟨true, (ns, kind, raw), rfl, ?_⟩
    rename_i hc
    have := find_nsInsert_same (ns, 1, raw) t.namespaces
    simp only [nsGet, hc.2]; simp only at this; rw [this]; rfl
  · refine ⟨false, (ns, k0, raw0), rfl, ?_⟩
    have := find_nsInsert_same (ns, k0, raw0) t.namespaces
    simp only [nsGet]; simp only at this; rw [this]; rfl

example : capMerge ([1], 2, [1]) ([2], 1, [7]) = none ∧ capMerge ([1], 2, [1]) ([1], 1, [7]) = some (true, ([1], 1, [7])) ∧
    capMerge ([1], 1, [7]) ([1], 2, [1]) = some (false, ([1], 1, [7])) := by decide

end Tables
