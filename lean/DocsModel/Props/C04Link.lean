import DocsModel.Props.C04
import DocsModel.Props.C01Terminate
/-!
# C04 ↔ C01: the swarm model's `session` step is what a complete reconciliation session does

`Swarm.step s (.session i j)` sets both replicas to `Swarm.merge (s.st i) (s.st j)`. By C01
(`Ranger.session_total`, split factor 2) that is exactly the pair of final states of the
message-level session between the two replicas, whenever every entry is valid for both sides.
-/

namespace Swarm
open Spec Ranger

theorem merge_eq_run (a b : Store) : merge a b = Spec.run [] (a ++ b) := rfl

/-- the `session` step of the swarm model = the message-level session of the protocol model -/
theorem step_session_is_protocol_session (s : S) (i j : Nat) (hij : i ≠ j)
    (validate : Entry → Bool) (statusOf : Entry → Status)
    (hi : StoreOk (s.st i)) (hj : StoreOk (s.st j))
    (hpf : PayloadFunctional (s.st i ++ s.st j)) (hval : ∀ e ∈ s.st i ++ s.st j, validate e = true)
    (hfp : FpInjective (s.st i ++ s.st j)) (hwf : ∀ e ∈ s.st i ++ s.st j, Tables.Wf e)
    (cfg : Config) (hk : cfg.splitFactor = 2) :
    let r := Ranger.session mapOps cfg validate statusOf (3 ^ ((s.st i ++ s.st j).length + 1) + 1)
      (s.st i) (s.st j) (initialMessage mapOps (s.st i))
    (step s (.session i j)).st i = r.2.1 ∧ (step s (.session i j)).st j = r.2.2 := by
  intro r
  have htot := session_total validate statusOf (s.st i) (s.st j) hi hj hpf hval hfp hwf cfg hk
  simp only at htot
  rw [step_session]
  simp only
  constructor
  · rw [upd_other _ _ _ _ hij, upd_same]
    exact htot.1.symm
  · rw [upd_same]
    exact htot.2.symm

end Swarm
