import DocsModel.Model.FilterText
/-!
# C15 — download policies persist and decide downloads exactly as specified

Model: `Tables.Policy.matches` (`DownloadPolicy::matches`), `Tables.setDownloadPolicy` /
`getDownloadPolicy`, `FilterText.display` / `parse` (`Display` / `FromStr for FilterKind`).
-/

namespace Tables

theorem filter_prefix_matches (p key : Bytes) : (FilterKind.pre p).matches key = true ↔ p <+: key := by
  simp [FilterKind.matches, Bytes.startsWith, List.isPrefixOf_iff_prefix]

theorem filter_exact_matches (k key : Bytes) : (FilterKind.exact k).matches key = true ↔ k = key := by
  simp [FilterKind.matches]

/-- what a filter matches, in the words of the property -/
def FilterKind.Matches (f : FilterKind) (key : Bytes) : Prop :=
  match f with
  | .pre p => p <+: key
  | .exact k => k = key

theorem filter_matches_iff (f : FilterKind) (key : Bytes) : f.matches key = true ↔ f.Matches key := by
  cases f with
  | pre p => exact filter_prefix_matches p key
  | exact k => exact filter_exact_matches k key

/-- **Decision.** Everything-except selects a key exactly when no filter matches it;
nothing-except exactly when some filter matches it. -/
theorem matches_spec_everything (fs : List FilterKind) (key : Bytes) :
    (Policy.everythingExcept fs).matches key = true ↔ ∀ f ∈ fs, ¬ f.Matches key := by
  simp only [Policy.matches, List.all_eq_true, Bool.not_eq_true']
  constructor
  · intro h f hf hm
    have := h f hf
    rw [(filter_matches_iff f key).mpr hm] at this
    cases this
  · intro h f hf
    cases hm : f.matches key with
    | false => rfl
    | true => exact absurd ((filter_matches_iff f key).mp hm) (h f hf)

theorem matches_spec_nothing (fs : List FilterKind) (key : Bytes) :
    (Policy.nothingExcept fs).matches key = true ↔ ∃ f ∈ fs, f.Matches key := by
  simp only [Policy.matches, List.any_eq_true]
  constructor
  · rintro ⟨f, hf, hm⟩; exact ⟨f, hf, (filter_matches_iff f key).mp hm⟩
  · rintro ⟨f, hf, hm⟩; exact ⟨f, hf, (filter_matches_iff f key).mpr hm⟩

/-- the default policy downloads everything -/
theorem default_matches_all (key : Bytes) : Policy.default.matches key = true := by
  simp [Policy.default, Policy.matches]

/-! ### persistence in the table -/

/-- a policy can only be set for an existing document -/
theorem set_policy_unknown_document (t : T) (ns : Bytes) (p : Policy) (h : nsGet t ns = none) :
    setDownloadPolicy t ns p = none := by
  simp [setDownloadPolicy, h]

/-- once set, the policy is what later reads return -/
theorem policy_set_get (t t' : T) (ns : Bytes) (p : Policy) (h : setDownloadPolicy t ns p = some t') :
    getDownloadPolicy t' ns = p := by
  unfold setDownloadPolicy at h
  split at h
  · cases h
  · injection h with h
    subst h
    simp [getDownloadPolicy]

theorem find_filter_ne (l : List (Bytes × Policy)) (ns other : Bytes) (hne : other ≠ ns) :
    (l.filter (fun r => r.1 != ns)).find? (fun r => r.1 == other) = l.find? (fun r => r.1 == other) := by
  induction l with
  | nil => rfl
  | cons x xs ih =>
    by_cases hx : x.1 = ns
    · have h1 : (x.1 != ns) = false := by simp [hx]
      have h2 : (x.1 == other) = false := by
        rw [hx]; exact beq_false_of_ne (fun h => hne h.symm)
      rw [List.filter_cons, h1, List.find?_cons, h2]
      simpa using ih
    · have h1 : (x.1 != ns) = true := by simp [hx]
      rw [List.filter_cons, h1]
      simp only [if_true, List.find?_cons]
      rw [ih]

/-- setting the policy of one document leaves every other document's policy unchanged -/
theorem policy_set_frames (t t' : T) (ns other : Bytes) (p : Policy) (hne : other ≠ ns)
    (h : setDownloadPolicy t ns p = some t') :
    getDownloadPolicy t' other = getDownloadPolicy t other := by
  unfold setDownloadPolicy at h
  split at h
  · cases h
  · injection h with h
    subst h
    have hne' : (ns == other) = false := beq_false_of_ne (fun h => hne h.symm)
    simp only [getDownloadPolicy, List.find?_cons, hne']
    rw [find_filter_ne _ _ _ hne]

/-- when nothing was set the default is returned -/
theorem policy_default_when_unset (t : T) (ns : Bytes) (h : ∀ r ∈ t.policies, r.1 ≠ ns) :
    getDownloadPolicy t ns = Policy.default := by
  unfold getDownloadPolicy
  have : t.policies.find? (fun r => r.1 == ns) = none := by
    apply List.find?_eq_none.mpr
    intro r hr
    simpa using h r hr
  simp [this]

end Tables

namespace FilterText
open Tables

theorem hexVal_digit (n : Nat) (h : n < 16) :
    hexVal (if n < 10 then UInt8.ofNat (48 + n) else UInt8.ofNat (87 + n)) = some n := by
  have : n = 0 ∨ n = 1 ∨ n = 2 ∨ n = 3 ∨ n = 4 ∨ n = 5 ∨ n = 6 ∨ n = 7 ∨ n = 8 ∨ n = 9 ∨ n = 10 ∨
      n = 11 ∨ n = 12 ∨ n = 13 ∨ n = 14 ∨ n = 15 := by omega
  rcases this with h | h | h | h | h | h | h | h | h | h | h | h | h | h | h | h <;> subst h <;> decide

/-- `hex::decode(hex::encode(b)) = b` -/
theorem hexDecode_hexEncode (b : Bytes) : hexDecode (hexEncode b) = some b := by
  induction b with
  | nil => rfl
  | cons x xs ih =>
    have hx := x.toNat_lt
    have h1 : x.toNat / 16 < 16 := by omega
    have h2 : x.toNat % 16 < 16 := by omega
    have ih' : hexDecode (List.flatMap (fun x =>
        [if x.toNat / 16 < 10 then UInt8.ofNat (48 + x.toNat / 16) else UInt8.ofNat (87 + x.toNat / 16),
         if x.toNat % 16 < 10 then UInt8.ofNat (48 + x.toNat % 16) else UInt8.ofNat (87 + x.toNat % 16)]) xs) = some xs := ih
    simp only [hexEncode, List.flatMap_cons, List.cons_append, List.nil_append, hexDecode,
      hexVal_digit _ h1, hexVal_digit _ h2, ih']
    congr 2
    apply UInt8.toNat_inj.mp
    simp
    omega

theorem splitOnce_no_colon (a rest : Bytes) (h : ∀ c ∈ a, c ≠ colon) :
    splitOnce (a ++ colon :: rest) = some (a, rest) := by
  induction a with
  | nil => simp [splitOnce]
  | cons c cs ih =>
    have hc : c ≠ colon := h c List.mem_cons_self
    have := ih (fun x hx => h x (List.mem_cons_of_mem _ hx))
    simp [splitOnce, hc, this]

theorem splitTwice (kind enc rest : Bytes) (hk : ∀ c ∈ kind, c ≠ colon) (he : ∀ c ∈ enc, c ≠ colon) :
    splitOnce (kind ++ colon :: (enc ++ colon :: rest)) = some (kind, enc ++ colon :: rest) ∧
    splitOnce (enc ++ colon :: rest) = some (enc, rest) :=
  ⟨splitOnce_no_colon kind _ hk, splitOnce_no_colon enc rest he⟩

/-- **Filters survive their textual form unchanged**, whether they are printed as text (valid
UTF-8) or as hex. -/
theorem filter_text_roundtrip (f : FilterKind) (utf8 : Bool) : parse (display f utf8) = some f := by
  have hp : ∀ c ∈ kPrefix, c ≠ colon := by decide
  have he : ∀ c ∈ kExact, c ≠ colon := by decide
  have hu : ∀ c ∈ kUtf8, c ≠ colon := by decide
  have hh : ∀ c ∈ kHex, c ≠ colon := by decide
  have hne1 : kPrefix ≠ kExact := by decide
  have hne2 : kHex ≠ kUtf8 := by decide
  cases f with
  | pre b =>
    cases utf8 with
    | true =>
      obtain ⟨h1, h2⟩ := splitTwice kPrefix kUtf8 b hp hu
      simp [display, parse, h1, h2, hne1]
    | false =>
      obtain ⟨h1, h2⟩ := splitTwice kPrefix kHex (hexEncode b) hp hh
      simp [display, parse, h1, h2, hne1, hne2, hexDecode_hexEncode]
  | exact b =>
    cases utf8 with
    | true =>
      obtain ⟨h1, h2⟩ := splitTwice kExact kUtf8 b he hu
      simp [display, parse, h1, h2]
    | false =>
      obtain ⟨h1, h2⟩ := splitTwice kExact kHex (hexEncode b) he hh
      simp [display, parse, h1, h2, hne2, hexDecode_hexEncode]

/-- non-vacuity: a prefix filter with non-UTF-8 bytes, printed as hex -/
example : parse (display (.pre [0xC3, 0x28, 0xFF]) false) = some (.pre [0xC3, 0x28, 0xFF]) := by decide
example : display (.exact [97, 58, 98]) true = kExact ++ [58] ++ kUtf8 ++ [58, 97, 58, 98] := by decide

end FilterText
