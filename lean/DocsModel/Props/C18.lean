import DocsModel.Lemmas.Reach
import DocsModel.Model.Migrations
import DocsModel.Props.C07
/-!
# C18 — opening an older database rebuilds derived tables exactly; reopening is a no-op

Model: `Tables.migration001` / `migration004` / `reopen` (`src/store/fs/migrations.rs`).
-/

namespace Tables
open Spec Entry

theorem headStep_ok (heads : List (Bytes × Bytes × Nat × Bytes)) (recs : List Entry) (e : Entry)
    (hok : HeadOkL heads recs) : HeadOkL (headStep heads e) (recs ++ [e]) := by
  intro ns a
  by_cases hna : e.ns = ns ∧ e.author = a
  · obtain ⟨hn, ha⟩ := hna
    subst hn; subst ha
    have hold := hok e.ns e.author
    unfold headStep
    cases hl : latestGet heads e.ns e.author with
    | none =>
      rw [hl] at hold
      simp only
      have := latestGet_insert_same (e.ns, e.author, e.ts, e.key) heads
      simp only at this
      rw [this]
      refine ⟨⟨e, by simp, rfl, rfl, rfl⟩, ?_⟩
      intro x hx hxn hxa
      rcases List.mem_append.mp hx with h | h
      · exact absurd ⟨hxn, hxa⟩ (hold x h)
      · simp at h; rw [h]; exact Nat.le_refl _
    | some v =>
      obtain ⟨m, k⟩ := v
      rw [hl] at hold
      obtain ⟨⟨w, hw, hwn, hwa, hwt⟩, hmax⟩ := hold
      simp only
      by_cases hge : e.ts ≥ m
      · simp only [hge, if_true]
        have := latestGet_insert_same (e.ns, e.author, e.ts, e.key) heads
        simp only at this
        rw [this]
        refine ⟨⟨e, by simp, rfl, rfl, rfl⟩, ?_⟩
        intro x hx hxn hxa
        rcases List.mem_append.mp hx with h | h
        · exact Nat.le_trans (hmax x h hxn hxa) hge
        · simp at h; rw [h]; exact Nat.le_refl _
      · simp only [hge, if_false]
        rw [hl]
        refine ⟨⟨w, List.mem_append_left _ hw, hwn, hwa, hwt⟩, ?_⟩
        intro x hx hxn hxa
        rcases List.mem_append.mp hx with h | h
        · exact hmax x h hxn hxa
        · simp at h; rw [h]; omega
  · have hget : latestGet (headStep heads e) ns a = latestGet heads ns a := by
      unfold headStep
      cases hl : latestGet heads e.ns e.author with
      | none => exact latestGet_insert_other _ _ ns a hna
      | some v =>
        obtain ⟨m, k⟩ := v
        simp only
        split
        · exact latestGet_insert_other _ _ ns a hna
        · rfl
    rw [hget]
    have hold := hok ns a
    cases hl : latestGet heads ns a with
    | none =>
      rw [hl] at hold
      intro x hx hxna
      rcases List.mem_append.mp hx with h | h
      · exact hold x h hxna
      · simp at h; rw [h] at hxna; exact hna hxna
    | some v =>
      obtain ⟨m, k⟩ := v
      rw [hl] at hold
      obtain ⟨⟨w, hw, hwn, hwa, hwt⟩, hmax⟩ := hold
      refine ⟨⟨w, List.mem_append_left _ hw, hwn, hwa, hwt⟩, ?_⟩
      intro x hx hxn hxa
      rcases List.mem_append.mp hx with h | h
      · exact hmax x h hxn hxa
      · simp at h; rw [h] at hxn hxa; exact absurd ⟨hxn, hxa⟩ hna

theorem foldl_headStep_ok (recs done : List Entry) (heads : List (Bytes × Bytes × Nat × Bytes))
    (hok : HeadOkL heads done) : HeadOkL (recs.foldl headStep heads) (done ++ recs) := by
  induction recs generalizing done heads with
  | nil => simpa using hok
  | cons e rest ih =>
    have := ih (done ++ [e]) (headStep heads e) (headStep_ok heads done e hok)
    simpa [List.append_assoc] using this

/-- **Migration 001 rebuilds the heads exactly**: whatever the records table holds (any documents,
authors, deletion markers, equal timestamps), the rebuilt head of every `(document, author)` is
the greatest timestamp of that author's records — what `entry_put` maintains (C13). -/
theorem migration_001_rebuilds_heads (t : T) (hl : t.latest = []) :
    HeadOk (migration001 t) := by
  unfold migration001
  by_cases hr : t.records = []
  · simp only [hl, hr, List.isEmpty_nil, Bool.not_true, Bool.or_true, if_true]
    intro ns a
    simp [latestGet, hl, hr]
  · have : t.records.isEmpty = false := by simpa using hr
    simp only [hl, this, List.isEmpty_nil, Bool.not_true, Bool.or_false, Bool.false_eq_true, if_false]
    have h := foldl_headStep_ok t.records [] [] (by intro ns a; simp [latestGet])
    simpa [HeadOk] using h

theorem mem_foldl_k3Insert (recs : List Entry) (idx : List K3) (k : K3) :
    k ∈ recs.foldl (fun idx e => k3Insert (e.ns, e.key, e.author) idx) idx ↔
      k ∈ idx ∨ ∃ e ∈ recs, k = (e.ns, e.key, e.author) := by
  induction recs generalizing idx with
  | nil => simp
  | cons e rest ih =>
    simp only [List.foldl_cons, ih, mem_k3Insert, List.mem_cons]
    constructor
    · rintro ((h | h) | ⟨x, hx, h⟩)
      · exact Or.inr ⟨e, Or.inl rfl, h⟩
      · exact Or.inl h
      · exact Or.inr ⟨x, Or.inr hx, h⟩
    · rintro (h | ⟨x, hx | hx, h⟩)
      · exact Or.inl (Or.inr h)
      · subst hx; exact Or.inl (Or.inl h)
      · exact Or.inr ⟨x, hx, h⟩

/-- **Migration 004 rebuilds the index exactly**: one row per record, no stale rows. -/
theorem migration_004_rebuilds_index (t : T) (hk : t.byKey = []) (k : K3) :
    k ∈ (migration004 t).byKey ↔ ∃ e ∈ t.records, k = (e.ns, e.key, e.author) := by
  unfold migration004
  simp only [hk, List.isEmpty_nil, Bool.not_true, Bool.false_eq_true, if_false]
  rw [mem_foldl_k3Insert]
  simp

/-- **Reopening an up-to-date database changes nothing**: in every reachable state both
migrations are skipped (or rebuild the empty table from no records). -/
theorem reopen_is_noop (t : T) (inv : TablesInv t) : reopen t = t := by
  unfold reopen
  by_cases hr : t.records = []
  · -- no records: no heads either
    have hlat : t.latest = [] := by
      cases hl : t.latest with
      | nil => rfl
      | cons r rest =>
        exfalso
        have := inv.heads r.1 r.2.1
        have hfound : latestGet t.latest r.1 r.2.1 ≠ none := by
          rw [hl]; simp [latestGet]
        cases hg : latestGet t.latest r.1 r.2.1 with
        | none => exact hfound hg
        | some v =>
          rw [hg] at this
          obtain ⟨⟨e, he, _⟩, _⟩ := this
          rw [hr] at he; cases he
    have h1 : migration001 t = t := by simp [migration001, hr]
    rw [h1]
    unfold migration004
    by_cases hk : t.byKey = []
    · simp only [hk, List.isEmpty_nil, Bool.not_true, Bool.false_eq_true, if_false, hr, List.foldl_nil]
      cases t; simp_all
    · have : t.byKey.isEmpty = false := by simpa using hk
      simp [this]
  · obtain ⟨e, he⟩ := List.exists_mem_of_ne_nil _ hr
    have hlat : t.latest ≠ [] := by
      intro hl
      have := inv.heads e.ns e.author
      rw [hl] at this
      simp only [latestGet, List.find?_nil, Option.map_none] at this
      exact this e he ⟨rfl, rfl⟩
    have hidx : t.byKey ≠ [] := by
      intro hk
      have := inv.index e he
      rw [hk] at this; cases this
    have h1 : migration001 t = t := by
      have : t.latest.isEmpty = false := by simpa using hlat
      simp [migration001, this]
    rw [h1]
    have : t.byKey.isEmpty = false := by simpa using hidx
    simp [migration004, this]

def reopenN : Nat → T → T
  | 0, t => t
  | n + 1, t => reopenN n (reopen t)

/-- … any number of times -/
theorem reopen_n_is_noop (t : T) (inv : TablesInv t) (n : Nat) : reopenN n t = t := by
  induction n with
  | zero => rfl
  | succ n ih => rw [reopenN, reopen_is_noop t inv, ih]

/-- **Stale index rows do not show**: a lookup through the maintained index (which keeps rows of
pruned records) yields the same entries, in the same order, as through an index without them. -/
theorem queries_ignore_stale_index_rows (recs : List Entry) (idx : List K3) (b : Bound K3 × Bound K3) :
    (k3Range idx b).filterMap (fun k => recGet recs k.1 k.2.2 k.2.1) =
    (k3Range (idx.filter (fun k => (recGet recs k.1 k.2.2 k.2.1).isSome)) b).filterMap
      (fun k => recGet recs k.1 k.2.2 k.2.1) := by
  unfold k3Range
  induction idx with
  | nil => rfl
  | cons k rest ih =>
    by_cases hin : inRange3 b.1 b.2 k
    · cases hg : recGet recs k.1 k.2.2 k.2.1 with
      | none => simp [List.filter_cons, hin, hg, ih]
      | some e => simp [List.filter_cons, hin, hg, ih]
    · cases hg : recGet recs k.1 k.2.2 k.2.1 with
      | none => simp [List.filter_cons, hin, hg, ih]
      | some e => simp [List.filter_cons, hin, hg, ih]

/-- non-vacuity: equal timestamps — the rebuilt head carries the key last in table order -/
example :
    let e (k : UInt8) (ts : Nat) : Entry := { ns := zero32, author := ff32, key := [k], ts := ts, len := 1, hash := [k] }
    let t : T := { records := [e 1 7, e 2 9, e 3 9] }
    (reopen t).latest = [(zero32, ff32, 9, [3])] ∧ (reopen t).byKey.length = 3 := by decide

end Tables

/-! ### the first-generation capability table (`migration_002` / `003`) -/

namespace Tables

/-- distinct document ids in a capability table -/
def DistinctIds (l : List (Bytes × Nat × Bytes)) : Prop := l.Pairwise (fun a b => a.1 ≠ b.1)

theorem find_of_mem_distinct {l : List (Bytes × Nat × Bytes)} (hd : DistinctIds l) {r : Bytes × Nat × Bytes}
    (hr : r ∈ l) : l.find? (fun x => x.1 == r.1) = some r := by
  induction l with
  | nil => cases hr
  | cons x xs ih =>
    rw [DistinctIds, List.pairwise_cons] at hd
    rcases List.mem_cons.mp hr with h | h
    · subst h; simp
    · have hne : x.1 ≠ r.1 := hd.1 r h
      have : (x.1 == r.1) = false := beq_false_of_ne hne
      rw [List.find?_cons, this]
      exact ih hd.2 h

theorem find_none_of_no_id {l : List (Bytes × Nat × Bytes)} {id : Bytes} (h : ∀ r ∈ l, r.1 ≠ id) :
    l.find? (fun x => x.1 == id) = none := by
  rw [List.find?_eq_none]
  intro r hr
  simp only [beq_iff_eq]
  exact h r hr

theorem nsGet_insert (t : T) (r : Bytes × Nat × Bytes) (id : Bytes) :
    nsGet { t with namespaces := nsInsert r t.namespaces } id = if r.1 = id then some r.2 else nsGet t id := by
  unfold nsGet
  by_cases h : r.1 = id
  · subst h
    simp only [if_true]
    rw [find_nsInsert_same]; rfl
  · simp only [h, if_false]
    rw [find_nsInsert_other _ _ _ (fun hh => h hh.symm)]

/-- what `migration_002` leaves in the capability table, for rows with distinct ids -/
theorem nsGet_migration002 (w : List (Bytes × Nat × Bytes)) (hd : DistinctIds w) (t : T) (id : Bytes) :
    nsGet (migration002 t (w.map fun r => (r.1, r.2.2))) id =
      match w.find? (fun x => x.1 == id) with
      | some r => some (1, r.2.2)
      | none => nsGet t id := by
  induction w generalizing t with
  | nil => rfl
  | cons r rest ih =>
    rw [DistinctIds, List.pairwise_cons] at hd
    have hstep : migration002 t ((r :: rest).map fun r => (r.1, r.2.2)) =
        migration002 { t with namespaces := nsInsert (r.1, 1, r.2.2) t.namespaces } (rest.map fun r => (r.1, r.2.2)) := rfl
    rw [hstep, ih hd.2]
    by_cases h : r.1 = id
    · subst h
      have hnone : rest.find? (fun x => x.1 == r.1) = none :=
        find_none_of_no_id (fun x hx hh => hd.1 x hx hh.symm)
      rw [hnone, List.find?_cons]
      simp only [beq_self_eq_true]
      rw [nsGet_insert]
      simp
    · have hb : (r.1 == id) = false := beq_false_of_ne h
      rw [List.find?_cons, hb]
      cases hf : rest.find? (fun x => x.1 == id) with
      | some x => rfl
      | none =>
        simp only
        rw [nsGet_insert]
        simp [h]

/-- **A database whose write capabilities live in the first-generation table opens with every
document's capability as it was**: moving the write rows to `namespaces-1` and opening
(`migration_002`, `003`) restores `nsGet` for every id. -/
theorem migration_002_restores_capabilities (t : T) (hd : DistinctIds t.namespaces) (id : Bytes) :
    nsGet (migration002 (toV1 t).1 (toV1 t).2) id = nsGet t id := by
  unfold toV1
  simp only
  have hdw : DistinctIds (t.namespaces.filter (fun r => r.2.1 == 1)) := List.Pairwise.sublist List.filter_sublist hd
  have hdb : DistinctIds (t.namespaces.filter (fun r => r.2.1 != 1)) := List.Pairwise.sublist List.filter_sublist hd
  rw [nsGet_migration002 _ hdw]
  cases hf : t.namespaces.find? (fun x => x.1 == id) with
  | none =>
    have hno : ∀ r ∈ t.namespaces, r.1 ≠ id := by
      intro r hr hh
      have := List.find?_eq_none.mp hf r hr
      simp [hh] at this
    rw [find_none_of_no_id (fun r hr => hno r (List.mem_filter.mp hr).1)]
    simp only [nsGet]
    rw [find_none_of_no_id (fun r hr => hno r (List.mem_filter.mp hr).1), hf]
  | some row =>
    have hmem := List.mem_of_find?_eq_some hf
    have hid : row.1 = id := by
      have := List.find?_some hf
      simpa using this
    subst hid
    by_cases hk : row.2.1 = 1
    · have hw : row ∈ t.namespaces.filter (fun r => r.2.1 == 1) := List.mem_filter.mpr ⟨hmem, by simp [hk]⟩
      rw [find_of_mem_distinct hdw hw]
      simp only [nsGet, hf, Option.map_some]
      obtain ⟨a, k, sec⟩ := row
      simp only at hk
      subst hk
      rfl
    · have hb : row ∈ t.namespaces.filter (fun r => r.2.1 != 1) := List.mem_filter.mpr ⟨hmem, by simp [hk]⟩
      have hnone : (t.namespaces.filter (fun r => r.2.1 == 1)).find? (fun x => x.1 == row.1) = none := by
        apply find_none_of_no_id
        intro r hr hh
        obtain ⟨hr1, hr2⟩ := List.mem_filter.mp hr
        have := find_of_mem_distinct hd hr1
        rw [hh, hf] at this
        injection this with this
        subst this
        simp at hr2
        exact hk hr2
      rw [hnone]
      simp only [nsGet]
      rw [find_of_mem_distinct hdb hb, hf]

end Tables
