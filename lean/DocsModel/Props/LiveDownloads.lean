import DocsModel.Props.Live
/-!
# The download queue over whole histories

`pendingAfter` keeps the books an observer of the live actor would keep: a hash becomes pending when the
downloader is asked for it and stops being pending when its completion is processed. For every history
of handler calls (`downloads_inv_run`): the pending hashes are exactly the hashes in the live actor's
queue, and none is pending twice — **the downloader is never asked again for a hash whose download has
not been reported back**, whatever else happens in between (other documents wanting the same hash,
neighbours announcing it, sessions ending, the document being left).
-/

namespace Live

def dlHash : Out → Option Bytes
  | .download _ h _ => some h
  | _ => none

/-- an observer's books: requests to the downloader not yet reported back -/
def pendingAfter (pend : List Bytes) (i : In) (outs : List Out) : List Bytes :=
  (match i with
   | .downloadReady _ h _ => pend.filter (· != h)
   | _ => pend) ++ outs.filterMap dlHash

def DlInv (s : LState) (pend : List Bytes) : Prop :=
  pend.Nodup ∧ ∀ h, s.queuedHash h = pend.contains h

/-! ### helpers: who touches the queue, who asks the downloader -/

theorem send_queued (s : LState) (n : Bytes) (ev : Ev) : (s.send n ev).1.queued = s.queued := by
  unfold LState.send; split <;> rfl
theorem send_noDl (s : LState) (n : Bytes) (ev : Ev) : (s.send n ev).2.filterMap dlHash = [] := by
  unfold LState.send
  split
  · rfl
  · simp [List.filterMap_map, dlHash, Function.comp_def]
theorem syncWithPeer_queued (s : LState) (n p : Bytes) (r : Reason) : (s.syncWithPeer n p r).1.queued = s.queued := by
  unfold LState.syncWithPeer
  split
  · rfl
  · split <;> (try split) <;> rfl
theorem syncWithPeer_noDl (s : LState) (n p : Bytes) (r : Reason) : (s.syncWithPeer n p r).2.filterMap dlHash = [] := by
  unfold LState.syncWithPeer
  split
  · rfl
  · split <;> rfl
theorem bcast_noDl (s : LState) (n pl : Bytes) : (s.bcastNeighbors n pl).filterMap dlHash = [] := by
  unfold LState.bcastNeighbors; split <;> rfl
theorem finishedOuts_noDl (s : LState) (n p : Bytes) (res : Option (Nat × Nat × Heads.H)) :
    (s.finishedOuts n p res).filterMap dlHash = [] := by
  unfold LState.finishedOuts
  cases res with
  | none => rfl
  | some r =>
    obtain ⟨recv, sent, heads⟩ := r
    simp only [List.filterMap_append]
    have : ([Out.register n p] : List Out).filterMap dlHash = [] := rfl
    rw [this, List.nil_append]
    split
    · split
      · exact bcast_noDl _ _ _
      · rfl
    · rfl
theorem afterFinish_queued (s : LState) (n p : Bytes) (o : Nat) (r : Option (Nat × Nat)) (rs : Bool) :
    (s.afterFinish n p o r rs).1.queued = s.queued := by
  unfold LState.afterFinish
  simp only
  split
  · rw [syncWithPeer_queued]; split <;> simp [LState.updDoc, send_queued]
  · split <;> simp [LState.updDoc, send_queued]
theorem afterFinish_noDl (s : LState) (n p : Bytes) (o : Nat) (r : Option (Nat × Nat)) (rs : Bool) :
    (s.afterFinish n p o r rs).2.filterMap dlHash = [] := by
  unfold LState.afterFinish
  simp only [List.filterMap_append, send_noDl, List.nil_append]
  have h3 : ∀ (q : Bool) (s1 : LState),
      (if q then (s1.updDoc n (fun d => { d with mayEmit := true }), ([] : List Out))
       else ((s1.send n .pendingContentReady).1.updDoc n (fun d => { d with mayEmit := false }),
             (s1.send n .pendingContentReady).2)).2.filterMap dlHash = [] := by
    intro q s1; cases q
    · simp only [Bool.false_eq_true, if_false]; exact send_noDl _ _ _
    · rfl
  rw [h3, List.nil_append]
  split
  · exact syncWithPeer_noDl _ _ _ _
  · rfl
theorem onSyncFinished_queued (s : LState) (n p : Bytes) (o : Nat) (r : Option (Nat × Nat × Heads.H)) :
    (s.onSyncFinished n p o r).1.queued = s.queued := by
  unfold LState.onSyncFinished
  split
  · rfl
  · split
    · rfl
    · simp only; rw [afterFinish_queued]; rfl
theorem onSyncFinished_noDl (s : LState) (n p : Bytes) (o : Nat) (r : Option (Nat × Nat × Heads.H)) :
    (s.onSyncFinished n p o r).2.filterMap dlHash = [] := by
  unfold LState.onSyncFinished
  split
  · exact finishedOuts_noDl _ _ _ _
  · split
    · exact finishedOuts_noDl _ _ _ _
    · simp only [List.filterMap_append, finishedOuts_noDl, afterFinish_noDl, List.nil_append]

theorem queuedHash_congr (s s' : LState) (h : s'.queued = s.queued) (x : Bytes) : s'.queuedHash x = s.queuedHash x := by
  simp [LState.queuedHash, h]

theorem enqueue_queuedHash (s : LState) (h n x : Bytes) :
    (s.enqueue h n).queuedHash x = (s.queuedHash x || x == h) := by
  unfold LState.enqueue
  split
  · rename_i hc
    simp only [LState.queuedHash]
    have : s.queued.any (·.1 == h) = true := by
      simp only [List.any_eq_true]
      exact ⟨(h, n), by simpa using hc, by simp⟩
    by_cases hx : x = h
    · subst hx; simp [this]
    · simp [hx]
  · simp only [LState.queuedHash, List.any_append, List.any_cons, List.any_nil, Bool.or_false]
    rw [show (h == x) = (x == h) from by rw [Bool.beq_comm]]

/-- `start_download`: either nothing is asked of the downloader and the set of queued hashes stays as it
is, or the hash was not queued, is asked for, and is queued afterwards -/
theorem startDownload_cases (s : LState) (n h p : Bytes) (oim bc : Bool) :
    ((s.startDownload n h p oim bc).2.filterMap dlHash = [] ∧
      ∀ x, (s.startDownload n h p oim bc).1.queuedHash x = s.queuedHash x) ∨
    ((s.startDownload n h p oim bc).2.filterMap dlHash = [h] ∧ s.queuedHash h = false ∧
      ∀ x, (s.startDownload n h p oim bc).1.queuedHash x = (s.queuedHash x || x == h)) := by
  unfold LState.startDownload
  split
  · left; exact ⟨rfl, fun x => rfl⟩
  · split
    · rename_i hq
      left
      refine ⟨rfl, fun x => ?_⟩
      rw [enqueue_queuedHash, queuedHash_congr s _ (addProvider_queued s h p)]
      by_cases hx : x = h
      · subst hx; simp [hq]
      · simp [hx]
    · split
      · rename_i hq _
        right
        refine ⟨rfl, by simpa using hq, fun x => ?_⟩
        have : ∀ (s1 : LState) (m : List Bytes), ({ s1 with missing := m } : LState).queuedHash x = s1.queuedHash x := fun _ _ => rfl
        rw [this, enqueue_queuedHash, queuedHash_congr s _ (addProvider_queued s h p)]
      · left
        exact ⟨rfl, fun x => queuedHash_congr s _ (addProvider_queued s h p) x⟩

theorem removeHash_queuedHash (s : LState) (h x : Bytes) :
    (s.removeHash h).1.queuedHash x = (s.queuedHash x && x != h) := by
  simp only [LState.removeHash, LState.queuedHash]
  induction s.queued with
  | nil => rfl
  | cons a rest ih =>
    simp only [List.filter_cons, List.any_cons]
    by_cases h1 : a.1 = h
    · by_cases h3 : x = h
      · subst h3; simp [h1, ih]
      · have hxa : (h == x) = false := by
          simp only [beq_eq_false_iff_ne, ne_eq]; exact fun hh => h3 hh.symm
        simp [h1, ih, hxa]
    · have hne : (a.1 != h) = true := by simpa using h1
      by_cases h2 : a.1 = x
      · have : x ≠ h := fun hh => h1 (h2.trans hh)
        simp [h2, this]
      · have hax : (a.1 == x) = false := by simpa using h2
        simp only [hne, if_true, List.any_cons, hax, Bool.false_or]
        exact ih

theorem emitReady_queued (acc : LState × List Out) (m : Bytes) : (emitReady acc m).1.queued = acc.1.queued := by
  unfold emitReady
  split
  · split
    · simp [send_queued, LState.updDoc]
    · rfl
  · rfl
theorem emitReady_noDl (acc : LState × List Out) (m : Bytes) :
    (emitReady acc m).2.filterMap dlHash = acc.2.filterMap dlHash := by
  unfold emitReady
  split
  · split
    · simp [List.filterMap_append, send_noDl]
    · rfl
  · rfl
theorem foldl_emitReady (l : List Bytes) (acc : LState × List Out) :
    (l.foldl emitReady acc).1.queued = acc.1.queued ∧
    (l.foldl emitReady acc).2.filterMap dlHash = acc.2.filterMap dlHash := by
  induction l generalizing acc with
  | nil => exact ⟨rfl, rfl⟩
  | cons m rest ih =>
    simp only [List.foldl_cons]
    obtain ⟨h1, h2⟩ := ih (emitReady acc m)
    rw [h1, h2]
    exact ⟨emitReady_queued acc m, emitReady_noDl acc m⟩

/-- the completion handler asks the downloader for nothing, and the queue loses exactly that hash -/
theorem downloadReady_step (s : LState) (n h : Bytes) (ok : Bool) :
    (step s (.downloadReady n h ok)).2.filterMap dlHash = [] ∧
    ∀ x, (step s (.downloadReady n h ok)).1.queuedHash x = (s.queuedHash x && x != h) := by
  simp only [step]
  cases ok
  · simp only [Bool.false_eq_true, if_false]
    obtain ⟨h1, h2⟩ := foldl_emitReady (s.removeHash h).2
      ({ (s.removeHash h).1 with missing := insertSet (s.removeHash h).1.missing h }, [])
    refine ⟨by rw [h2]; rfl, fun x => ?_⟩
    rw [queuedHash_congr _ _ h1]
    exact removeHash_queuedHash s h x
  · simp only [if_true]
    obtain ⟨h1, h2⟩ := foldl_emitReady (s.removeHash h).2 (((s.removeHash h).1.send n (.contentReady h)).1,
      ((s.removeHash h).1.send n (.contentReady h)).2 ++
        ((s.removeHash h).1.send n (.contentReady h)).1.bcastNeighbors n (Codec.encGOp (.contentReady h)))
    refine ⟨by rw [h2]; simp [List.filterMap_append, send_noDl, bcast_noDl], fun x => ?_⟩
    rw [queuedHash_congr _ _ h1, queuedHash_congr _ _ (send_queued _ _ _)]
    exact removeHash_queuedHash s h x

theorem foldl_dialKnown_dl (ns : Bytes) (l : List Bytes) (acc : LState × List Out) :
    (l.foldl (dialKnown ns) acc).1.queued = acc.1.queued ∧
    (l.foldl (dialKnown ns) acc).2.filterMap dlHash = acc.2.filterMap dlHash := by
  induction l generalizing acc with
  | nil => exact ⟨rfl, rfl⟩
  | cons p rest ih =>
    simp only [List.foldl_cons]
    obtain ⟨h1, h2⟩ := ih (dialKnown ns acc p)
    rw [h1, h2]
    simp [dialKnown, syncWithPeer_queued, List.filterMap_append, syncWithPeer_noDl]

/-- what one handler call does to the queue and asks of the downloader -/
inductive DlEffect (s : LState) (i : In) : Prop where
  /-- nothing asked, the set of queued hashes unchanged -/
  | quiet (h1 : (step s i).2.filterMap dlHash = []) (h2 : ∀ x, (step s i).1.queuedHash x = s.queuedHash x)
  /-- one hash that was not queued is asked for and is queued afterwards -/
  | asked (h : Bytes) (h1 : (step s i).2.filterMap dlHash = [h]) (h0 : s.queuedHash h = false)
      (h2 : ∀ x, (step s i).1.queuedHash x = (s.queuedHash x || x == h))
  /-- a completion: nothing asked, that hash leaves the queue -/
  | done (n h : Bytes) (ok : Bool) (hi : i = .downloadReady n h ok) (h1 : (step s i).2.filterMap dlHash = [])
      (h2 : ∀ x, (step s i).1.queuedHash x = (s.queuedHash x && x != h))

theorem step_dlEffect (s : LState) (i : In) : DlEffect s i := by
  cases i with
  | startSync ns openOk known =>
    apply DlEffect.quiet
    · simp only [step]
      split
      · rfl
      · simp only [List.filterMap_append]
        rw [(foldl_dialKnown_dl ns known _).2]; rfl
    · intro x
      simp only [step]
      split
      · rfl
      · apply queuedHash_congr
        rw [(foldl_dialKnown_dl ns known _).1]
        split <;> rfl
  | leave ns kill storeOk =>
    apply DlEffect.quiet
    · simp only [step]; split <;> (try split) <;> rfl
    · intro x; simp only [step]; apply queuedHash_congr; split <;> (try split) <;> (try split) <;> rfl
  | subscribe ns chan => exact .quiet rfl (fun x => rfl)
  | dropChan chan => exact .quiet rfl (fun x => rfl)
  | neighborUp ns peer =>
    apply DlEffect.quiet
    · simp [step, List.filterMap_append, syncWithPeer_noDl, send_noDl]
    · intro x; simp only [step]; apply queuedHash_congr; rw [send_queued, syncWithPeer_queued]
  | neighborDown ns peer =>
    exact .quiet (by simp only [step]; exact send_noDl _ _ _) (fun x => queuedHash_congr _ _ (by simp only [step]; exact send_queued _ _ _) x)
  | localInsert ns entry =>
    apply DlEffect.quiet
    · simp only [step]; split <;> rfl
    · intro x; simp only [step]; split <;> rfl
  | remoteInsert ns hash from_ fromValid shouldDl status blob =>
    by_cases h1 : shouldDl = true ∧ status = 0 ∧ fromValid = true
    · obtain ⟨ha, hb, hc⟩ := h1
      subst ha hb hc
      have hstep : step s (.remoteInsert ns hash from_ true true 0 blob) = s.startDownload ns hash from_ false blob := by
        simp [step]
      rcases startDownload_cases s ns hash from_ false blob with ⟨q1, q2⟩ | ⟨q1, q0, q2⟩
      · exact .quiet (by rw [hstep]; exact q1) (by rw [hstep]; exact q2)
      · exact .asked hash (by rw [hstep]; exact q1) q0 (by rw [hstep]; exact q2)
    · apply DlEffect.quiet
      · simp only [step]
        split
        · split
          · split
            · rename_i a b c; exact absurd ⟨a, b, c⟩ h1
            · rfl
          · rfl
        · rfl
      · intro x
        simp only [step]
        split
        · split
          · split
            · rename_i a b c; exact absurd ⟨a, b, c⟩ h1
            · rfl
          · rfl
        · rfl
  | downloadReady ns hash ok =>
    exact .done ns hash ok rfl (downloadReady_step s ns hash ok).1 (downloadReady_step s ns hash ok).2
  | contentReady ns node hash blob =>
    have hstep : step s (.contentReady ns node hash blob) = s.startDownload ns hash node true blob := rfl
    rcases startDownload_cases s ns hash node true blob with ⟨q1, q2⟩ | ⟨q1, q0, q2⟩
    · exact .quiet (by rw [hstep]; exact q1) (by rw [hstep]; exact q2)
    · exact .asked hash (by rw [hstep]; exact q1) q0 (by rw [hstep]; exact q2)
  | syncReport from_ ns heads ours =>
    apply DlEffect.quiet
    · simp only [step]
      split
      · rfl
      · split
        · rfl
        · split
          · exact syncWithPeer_noDl _ _ _ _
          · rfl
    · intro x
      simp only [step]
      split
      · rfl
      · split
        · rfl
        · split
          · exact queuedHash_congr _ _ (syncWithPeer_queued _ _ _ _) x
          · rfl
  | acceptRequest ns peer =>
    apply DlEffect.quiet
    · simp only [step]
      split
      · rfl
      · split
        · rfl
        · rfl
        · split <;> rfl
    · intro x
      simp only [step]
      split
      · rfl
      · split
        · rfl
        · rfl
        · split <;> rfl
  | dialRequest ns peer reason =>
    exact .quiet (syncWithPeer_noDl _ _ _ _) (fun x => queuedHash_congr _ _ (syncWithPeer_queued _ _ _ _) x)
  | connectFinished ns peer reason res =>
    cases res with
    | ok r st hd => exact .quiet (onSyncFinished_noDl _ _ _ _ _) (fun x => queuedHash_congr _ _ (onSyncFinished_queued _ _ _ _ _) x)
    | err => exact .quiet (onSyncFinished_noDl _ _ _ _ _) (fun x => queuedHash_congr _ _ (onSyncFinished_queued _ _ _ _ _) x)
    | abortAlready =>
      apply DlEffect.quiet
      · simp only [step]
        split
        · rfl
        · split
          · split
            · exact syncWithPeer_noDl _ _ _ _
            · rfl
          · rfl
      · intro x
        simp only [step]
        split
        · rfl
        · split
          · split
            · exact queuedHash_congr _ _ (by rw [syncWithPeer_queued]; rfl) x
            · rfl
          · rfl
  | acceptFinished res =>
    cases res with
    | ok ns peer r st hd => exact .quiet (onSyncFinished_noDl _ _ _ _ _) (fun x => queuedHash_congr _ _ (onSyncFinished_queued _ _ _ _ _) x)
    | errNamed ns peer => exact .quiet (onSyncFinished_noDl _ _ _ _ _) (fun x => queuedHash_congr _ _ (onSyncFinished_queued _ _ _ _ _) x)
    | abortAlready => exact .quiet rfl (fun x => rfl)
    | errUnnamed => exact .quiet rfl (fun x => rfl)

/-- the observer's books stay exact, and duplicate-free, through every handler call -/
theorem dlInv_step (s : LState) (pend : List Bytes) (i : In) (h : DlInv s pend) :
    DlInv (step s i).1 (pendingAfter pend i (step s i).2) := by
  obtain ⟨hnd, hq⟩ := h
  cases step_dlEffect s i with
  | quiet h1 h2 =>
    have hp : pendingAfter pend i (step s i).2 = pend := by
      unfold pendingAfter
      rw [h1, List.append_nil]
      cases i <;> first | rfl | skip
      -- a completion never lands here without changing the queue in the same way
      rename_i n hh ok
      have := h2 hh
      have h3 := (downloadReady_step s n hh ok).2 hh
      rw [this] at h3
      have : s.queuedHash hh = false := by simpa using h3
      have hnot : pend.contains hh = false := by rw [← hq]; exact this
      simp only
      rw [List.filter_eq_self]
      intro a ha
      have : a ≠ hh := by
        intro e; subst e
        have : pend.contains a = true := by simpa using ha
        rw [this] at hnot; cases hnot
      simpa using this
    rw [hp]
    exact ⟨hnd, fun x => by rw [h2]; exact hq x⟩
  | asked hh h1 h0 h2 =>
    have hp : pendingAfter pend i (step s i).2 = pend ++ [hh] := by
      unfold pendingAfter
      rw [h1]
      cases i <;> first | rfl | skip
      rename_i n h' ok
      -- a completion asks for nothing
      have := (downloadReady_step s n h' ok).1
      rw [this] at h1; cases h1
    rw [hp]
    have hnot : hh ∉ pend := by
      intro hm
      have : pend.contains hh = true := by simpa using hm
      rw [← hq, h0] at this; cases this
    refine ⟨?_, fun x => ?_⟩
    · rw [List.nodup_append]
      refine ⟨hnd, by simp, ?_⟩
      intro a ha b hb
      simp only [List.mem_singleton] at hb
      subst hb
      intro e; subst e; exact hnot ha
    · rw [h2, hq]
      by_cases hx : x = hh
      · subst hx; simp
      · have h3 : (x == hh) = false := by simpa using hx
        have h4 : x ∉ [hh] := by simpa using hx
        simp [h3, hx]
  | done n hh ok hi h1 h2 =>
    subst hi
    have hp : pendingAfter pend (.downloadReady n hh ok) (step s (.downloadReady n hh ok)).2 = pend.filter (· != hh) := by
      unfold pendingAfter; rw [h1, List.append_nil]
    rw [hp]
    refine ⟨hnd.filter _, fun x => ?_⟩
    rw [h2, hq]
    by_cases hx : x = hh
    · subst hx; simp
    · have : (x != hh) = true := by simpa using hx
      simp only [this, Bool.and_true]
      by_cases hc : x ∈ pend
      · have : x ∈ pend.filter (· != hh) := List.mem_filter.mpr ⟨hc, by simpa using hx⟩
        simp [hc, this]
      · have : x ∉ pend.filter (· != hh) := fun hm => hc (List.mem_filter.mp hm).1
        simp [hc, this]

/-- the books along a whole history -/
def pendingRun (s : LState) (pend : List Bytes) : List In → LState × List Bytes
  | [] => (s, pend)
  | i :: rest => pendingRun (step s i).1 (pendingAfter pend i (step s i).2) rest

/-- **Over every history of handler calls** the requests handed to the downloader and not yet reported
back are exactly the hashes in the live actor's queue, each once: the downloader is never asked again
for a hash whose download is still out -/
theorem downloads_inv_run (ins : List In) :
    DlInv (pendingRun {} [] ins).1 (pendingRun {} [] ins).2 := by
  have : ∀ (s : LState) (pend : List Bytes), DlInv s pend → DlInv (pendingRun s pend ins).1 (pendingRun s pend ins).2 := by
    induction ins with
    | nil => intro s pend h; exact h
    | cons i rest ih => intro s pend h; exact ih _ _ (dlInv_step s pend i h)
  exact this {} [] ⟨List.nodup_nil, fun x => rfl⟩

/-! non-vacuity: two documents want the same content; it is asked for once, and again only after a failed
download was reported -/
example :
    let ins : List In := [.startSync [1] true [], .startSync [2] true [],
      .remoteInsert [1] [9] [5] true true 0 false, .remoteInsert [2] [9] [6] true true 0 false,
      .downloadReady [1] [9] false, .contentReady [2] [6] [9] false]
    (pendingRun {} [] ins).2 = [[9]] ∧
    ((run {} ins).2.filterMap dlHash) = [[9], [9]] := by
  decide

end Live
