import DocsModel.Lemmas.Rotation
import DocsModel.Props.C01Converge
/-!
# C01 — a reconciliation session ends (split factor 2, the crate's setting)

Every message is answered by a strictly lighter one, where a fingerprint part over a range weighs
`3 ^ (number of known identifiers in the range + 1)`, a complete item list `2` and a list of entries
`1`: a split produces at most two sub-ranges, each missing at least one identifier of the split
range. Hence a session ends within `3 ^ (|A₀| + |B₀| + 1) + 1` messages — a crude bound, but a bound;
the harness checks the linear budget `4(|A|+|B|)+8` on every run.

For `split_factor ≥ 3` the first sub-range of a split can degenerate to the whole set
(DESIGN.md, observation O1), and the statement is not claimed.
-/

namespace Ranger
open Spec Entry

/-- number of known identifiers in a range -/
def phi (I : List Bytes) (r : Range) : Nat := (I.filter fun t => decide (r.contains t)).length

def wPart (I : List Bytes) : Part → Nat
  | .fingerprint r _ => 3 ^ (phi I r + 1)
  | .item _ _ false => 2
  | .item _ _ true => 1

def W (I : List Bytes) (m : List Part) : Nat := (m.map (wPart I)).sum

theorem W_append (I : List Bytes) (a b : List Part) : W I (a ++ b) = W I a + W I b := by
  simp [W, List.map_append, List.sum_append]

theorem W_nil (I : List Bytes) : W I [] = 0 := rfl

theorem pow3_pos (n : Nat) : 1 ≤ 3 ^ n := Nat.pow_pos (by omega)

theorem filter_length_lt {α : Type} (l : List α) (c p : α → Bool) (hsub : ∀ t ∈ l, c t = true → p t = true)
    (w : α) (hw : w ∈ l) (hpw : p w = true) (hcw : c w = false) :
    (l.filter c).length < (l.filter p).length := by
  induction l with
  | nil => simp at hw
  | cons a rest ih =>
    have hle : ∀ (l' : List α), (∀ t ∈ l', c t = true → p t = true) → (l'.filter c).length ≤ (l'.filter p).length := by
      intro l' h
      induction l' with
      | nil => simp
      | cons b r ih' =>
        have hr := ih' (fun t ht => h t (List.mem_cons_of_mem _ ht))
        by_cases hcb : c b = true
        · have hpb := h b List.mem_cons_self hcb
          simp [hcb, hpb]; omega
        · by_cases hpb : p b = true
          · simp [hcb, hpb]; omega
          · simp [hcb, hpb]; omega
    rcases List.mem_cons.mp hw with h | h
    · subst h
      have := hle rest (fun t ht => hsub t (List.mem_cons_of_mem _ ht))
      simp [hpw, hcw]; omega
    · have := ih (fun t ht => hsub t (List.mem_cons_of_mem _ ht)) h
      by_cases hca : c a = true
      · have hpa := hsub a List.mem_cons_self hca
        simp [hca, hpa]; omega
      · by_cases hpa : p a = true
        · simp [hca, hpa]; omega
        · simp [hca, hpa]; omega

/-- a sub-range that lies inside `r` and misses a known identifier of `r` has fewer of them -/
theorem phi_lt (I : List Bytes) (c r : Range) (hsub : ∀ t, c.contains t → r.contains t)
    (w : Bytes) (hw : w ∈ I) (hrw : r.contains w) (hcw : ¬ c.contains w) : phi I c + 1 ≤ phi I r := by
  have := filter_length_lt I (fun t => decide (c.contains t)) (fun t => decide (r.contains t))
    (fun t _ h => by simpa using hsub t (by simpa using h)) w hw (by simpa using hrw) (by simpa using hcw)
  unfold phi; omega

/-! ### the pivots of a split in two -/

theorem pivotOf_idAt (k : Nat) (x : Bytes) (els : List Entry) (i : Nat) :
    pivotOf k x els i =
      idAt (els.map (·.idBytes))
        ((((els.map (·.idBytes)).takeWhile (fun t => decide (t < x))).length +
          ((els.map (·.idBytes)).length * (i % k + 1)) / k) % (els.map (·.idBytes)).length) := by
  unfold pivotOf idAt
  simp only [List.length_map, List.getElem?_map, List.takeWhile_map]
  rfl

/-- both pivots of a split in two are identifiers of entries of the list, and in circular order
from `x` the second one (`pivot 1`, the first entry) comes strictly before the first (`pivot 0`) -/
theorem pivots_two (x : Bytes) (els : List Entry) (hsorted : (els.map (·.idBytes)).Pairwise (· < ·))
    (hn : 2 ≤ els.length) :
    rk x (pivotOf 2 x els 1) < rk x (pivotOf 2 x els 0) ∧
    (∃ e ∈ els, pivotOf 2 x els 0 = e.idBytes) ∧ (∃ e ∈ els, pivotOf 2 x els 1 = e.idBytes) := by
  have hlen : (els.map (·.idBytes)).length = els.length := by simp
  have hn' : 2 ≤ (els.map (·.idBytes)).length := by omega
  have hmem : ∀ i, i < (els.map (·.idBytes)).length → ∃ e ∈ els, idAt (els.map (·.idBytes)) i = e.idBytes := by
    intro i hi
    rw [idAt_eq _ i hi]
    have hi' : i < els.length := by omega
    exact ⟨els[i], List.getElem_mem hi', by simp⟩
  have hq0 : pivotOf 2 x els 0 = idAt (els.map (·.idBytes))
      ((((els.map (·.idBytes)).takeWhile (fun t => decide (t < x))).length + (els.map (·.idBytes)).length / 2) %
        (els.map (·.idBytes)).length) := by
    rw [pivotOf_idAt]; simp
  have hq1 : pivotOf 2 x els 1 = idAt (els.map (·.idBytes))
      ((((els.map (·.idBytes)).takeWhile (fun t => decide (t < x))).length + 0) % (els.map (·.idBytes)).length) := by
    rw [pivotOf_idAt]
    have : (els.map (·.idBytes)).length * (1 % 2 + 1) / 2 = (els.map (·.idBytes)).length := by simp
    rw [this]; simp
  have hrot := rot_rk_lt x (els.map (·.idBytes)) hsorted 0 ((els.map (·.idBytes)).length / 2) (by omega) (by omega)
  rw [← hq0, ← hq1] at hrot
  refine ⟨hrot, ?_, ?_⟩
  · rw [hq0]; exact hmem _ (Nat.mod_lt _ (by omega))
  · rw [hq1]; exact hmem _ (Nat.mod_lt _ (by omega))

section
variable {U : List Entry}

/-- **every child of a split in two has fewer known identifiers than the split range**, and there
are at most two children -/
theorem split_two_children {s : Store} (g : Good U s) (hwf : ∀ e ∈ U, Tables.Wf e) (cfg : Config)
    (hk : cfg.splitFactor = 2) (r : Range) (hn : 2 ≤ (mapOps.getRange s r).length) :
    (splitRanges cfg r (mapOps.getRange s r)).length ≤ 2 ∧
    ∀ c ∈ splitRanges cfg r (mapOps.getRange s r),
      phi (U.map (·.idBytes)) c + 1 ≤ phi (U.map (·.idBytes)) r := by
  obtain ⟨hlt, ⟨e0, he0, hq0⟩, ⟨e1, he1, hq1⟩⟩ := pivots_two r.x _ (getRange_ids_sorted g hwf r) hn
  have hin : ∀ e ∈ mapOps.getRange s r, e.idBytes ∈ U.map (·.idBytes) ∧ r.contains e.idBytes := fun e he =>
    ⟨List.mem_map.mpr ⟨e, g.sub e ((mem_getRange s r e).mp he).1, rfl⟩, ((mem_getRange s r e).mp he).2⟩
  have h0 := hin e0 he0
  have h1 := hin e1 he1
  rw [← hq0] at h0
  rw [← hq1] at h1
  have hq2 : pivotOf 2 r.x (mapOps.getRange s r) 2 = pivotOf 2 r.x (mapOps.getRange s r) 0 :=
    pivotOf_mod 2 r.x _ (by omega)
  rw [splitRanges_eq, hk]
  generalize pivotOf 2 r.x (mapOps.getRange s r) = q at *
  have hq01 : q 0 ≠ q 1 := fun h => List.lt_irrefl _ (h ▸ hlt)
  by_cases hxy : r.x = r.y
  · -- the whole set: [q0, q1) and [q1, q0)
    simp only [hxy, if_true]
    have hr_all : ∀ t, r.contains t := fun t => by unfold Range.contains; simp [hxy]
    constructor
    · exact Nat.le_trans (List.length_filterMap_le _ _) (by simp)
    · intro c hc
      rw [List.mem_filterMap] at hc
      obtain ⟨i, hi, hci⟩ := hc
      have hi2 : i < 2 := List.mem_range.mp hi
      split at hci
      · rename_i hne
        simp only [Option.some.injEq] at hci
        subst hci
        -- the child misses its own end, which is a known identifier
        have hendI : q (i + 1) ∈ U.map (·.idBytes) := by
          rcases (by omega : i = 0 ∨ i = 1) with h | h
          · subst h; exact h1.1
          · subst h; rw [hq2]; exact h0.1
        exact phi_lt _ _ r (fun t _ => hr_all t) (q (i + 1)) hendI (hr_all _) (not_contains_end _ _ hne)
      · simp at hci
  · -- a proper range: [x, q0) and [q0, y)
    simp only [hxy, if_false]
    have hy0 : rk r.x (q 0) < rk r.x r.y := contains_rk_lt r.x r.y (q 0) hxy h0.2
    have hx1 : rk r.x r.x ≤ rk r.x (q 1) := rk_origin_le _ _
    have hx0 : rk r.x r.x < rk r.x (q 0) := List.lt_of_le_of_lt hx1 hlt
    have hxq0 : r.x ≠ q 0 := rk_lt_ne hx0
    have back : ∀ t, rk r.x t < rk r.x r.y → r.contains t := fun t ht => by
      have := arc_contains r.x r.x r.y t (rk_origin_le _ _) ht
      exact this
    constructor
    · simp [Nat.sub_self]
    · intro c hc
      simp only [Nat.sub_self, List.range_zero, List.filterMap_nil, List.append_nil, List.cons_append, List.nil_append,
        List.mem_cons, List.mem_singleton, List.not_mem_nil, or_false] at hc
      rcases hc with hc | hc
      · subst hc
        -- [x, q0): inside the range, misses q0
        apply phi_lt _ _ r _ (q 0) h0.1 h0.2 (not_contains_end _ _ hxq0)
        intro t ht
        exact back t (List.lt_trans (contains_rk_lt r.x (q 0) t hxq0 ht) hy0)
      · subst hc
        -- [q0, y): inside the range, misses q1 (the first entry, before q0)
        have hsub : 2 - 2 = 0 := rfl
        apply phi_lt _ _ r _ (q 1) h1.1 h1.2
        · intro hcon
          have := (arc_contains_conv r.x (q 0) r.y (q 1) hy0 hcon).1
          exact List.not_lt.mpr this hlt
        · intro t ht
          exact back t (arc_contains_conv r.x (q 0) r.y t hy0 ht).2

/-! ### every message is answered by a lighter one -/

variable (validate : Entry → Bool) (statusOf : Entry → Status)

def wItem (it : Range × Vals × Bool) : Nat := if it.2.2 then 1 else 2

theorem W_cons (I : List Bytes) (p : Part) (m : List Part) : W I (p :: m) = wPart I p + W I m := by
  simp [W]

theorem W_split (I : List Bytes) (m : Message) :
    W I m = ((itemsOf m).map wItem).sum + ((fpsOf m).map fun it => 3 ^ (phi I it.1 + 1)).sum := by
  induction m with
  | nil => rfl
  | cons p rest ih =>
    rw [W_cons, ih]
    cases p with
    | fingerprint r fp =>
      simp only [itemsOf, fpsOf, List.filterMap_cons, wPart, List.map_cons, List.sum_cons]
      omega
    | item r vs hl =>
      simp only [itemsOf, fpsOf, List.filterMap_cons, List.map_cons, List.sum_cons]
      cases hl <;> simp [wPart, wItem] <;> omega

theorem len_split (m : Message) : m.length = (itemsOf m).length + (fpsOf m).length := by
  induction m with
  | nil => rfl
  | cons p rest ih =>
    cases p with
    | fingerprint r fp => simp only [itemsOf, fpsOf, List.filterMap_cons, List.length_cons] at ih ⊢; omega
    | item r vs hl => simp only [itemsOf, fpsOf, List.filterMap_cons, List.length_cons] at ih ⊢; omega

theorem itemStep_weight (I : List Bytes) (acc : Store × List Part × Vals) (it : Range × Vals × Bool) :
    W I (itemStep mapOps validate statusOf acc it).2.1 + 1 ≤ W I acc.2.1 + wItem it := by
  rw [itemStep_out]
  unfold wItem
  cases h : it.2.2
  · simp only [Bool.false_eq_true, if_false]
    split
    · omega
    · rw [W_append, W_cons, W_nil]; simp [wPart]
  · simp

theorem foldI_weight (I : List Bytes) (items : List (Range × Vals × Bool)) (acc : Store × List Part × Vals) :
    W I (foldI validate statusOf acc items).2.1 + items.length ≤ W I acc.2.1 + (items.map wItem).sum := by
  induction items generalizing acc with
  | nil => simp
  | cons it rest ih =>
    rw [foldI_cons]
    have h1 := itemStep_weight validate statusOf I acc it
    have h2 := ih (itemStep mapOps validate statusOf acc it)
    simp only [List.length_cons, List.map_cons, List.sum_cons]
    omega

theorem chunkPart_weight (I : List Bytes) (cfg : Config) (s : Store) (c : Range) :
    wPart I (chunkPart statusOf cfg s c) ≤ 3 ^ (phi I c + 1) := by
  unfold chunkPart
  split
  · exact Nat.le_refl _
  · show 2 ≤ 3 ^ (phi I c + 1)
    have : 3 ^ 1 ≤ 3 ^ (phi I c + 1) := Nat.pow_le_pow_right (by omega) (by omega)
    omega

theorem children_weight (I : List Bytes) (cfg : Config) (s : Store) (cs : List Range) (b : Nat)
    (hb : ∀ c ∈ cs, phi I c + 1 ≤ b) :
    W I (cs.map (chunkPart statusOf cfg s)) ≤ cs.length * 3 ^ b := by
  induction cs with
  | nil => simp [W]
  | cons c rest ih =>
    have h1 := chunkPart_weight statusOf I cfg s c
    have h2 := ih (fun c' h => hb c' (List.mem_cons_of_mem _ h))
    have h3 : 3 ^ (phi I c + 1) ≤ 3 ^ b := Nat.pow_le_pow_right (by omega) (hb c List.mem_cons_self)
    simp only [List.map_cons, W_cons, List.length_cons]
    rw [Nat.add_mul]
    omega

theorem fpStep_weight (g : Good U s) (hwf : ∀ e ∈ U, Tables.Wf e) (cfg : Config) (hk : cfg.splitFactor = 2)
    (out : List Part) (it : Range × Bytes) :
    W (U.map (·.idBytes)) (fpStep mapOps cfg statusOf s out it) + 1 ≤
      W (U.map (·.idBytes)) out + 3 ^ (phi (U.map (·.idBytes)) it.1 + 1) := by
  obtain ⟨r, fp⟩ := it
  show W (U.map (·.idBytes)) (fpStep mapOps cfg statusOf s out (r, fp)) + 1 ≤
    W (U.map (·.idBytes)) out + 3 ^ (phi (U.map (·.idBytes)) r + 1)
  rw [fpStep_eq]
  have hp := pow3_pos (phi (U.map (·.idBytes)) r)
  have hpow : 3 ^ (phi (U.map (·.idBytes)) r + 1) = 3 * 3 ^ (phi (U.map (·.idBytes)) r) := by
    rw [Nat.pow_succ]; omega
  split
  · omega
  · split
    · rw [W_append, W_cons, W_nil]
      simp only [wPart]
      omega
    · rename_i hbig
      have hn : 2 ≤ (mapOps.getRange s r).length := by
        have : ¬ (mapOps.getRange s r).length ≤ 1 := fun h => hbig (Or.inl h)
        omega
      obtain ⟨hlen, hch⟩ := split_two_children g hwf cfg hk r hn
      have hw := children_weight statusOf (U.map (·.idBytes)) cfg s _ (phi (U.map (·.idBytes)) r) hch
      rw [W_append]
      have : (splitRanges cfg r (mapOps.getRange s r)).length * 3 ^ phi (U.map (·.idBytes)) r ≤
          2 * 3 ^ phi (U.map (·.idBytes)) r := Nat.mul_le_mul_right _ hlen
      omega

theorem foldF_weight (g : Good U s) (hwf : ∀ e ∈ U, Tables.Wf e) (cfg : Config) (hk : cfg.splitFactor = 2)
    (fps : List (Range × Bytes)) (out : List Part) :
    W (U.map (·.idBytes)) (foldF statusOf cfg s out fps) + fps.length ≤
      W (U.map (·.idBytes)) out + (fps.map fun it => 3 ^ (phi (U.map (·.idBytes)) it.1 + 1)).sum := by
  induction fps generalizing out with
  | nil => simp
  | cons it rest ih =>
    rw [foldF_cons]
    have h1 := fpStep_weight statusOf g hwf cfg hk out it
    have h2 := ih (fpStep mapOps cfg statusOf s out it)
    simp only [List.length_cons, List.map_cons, List.sum_cons]
    omega

/-- **the reply is lighter than the message by at least the number of its parts** -/
theorem reply_weight (hwf : ∀ e ∈ U, Tables.Wf e) (cfg : Config) (hk : cfg.splitFactor = 2)
    {y : Store} (gy : Good U y) (m : Message) (mok : ∀ p ∈ m, PartOk U p) :
    W (U.map (·.idBytes))
      (foldF statusOf cfg (foldI validate statusOf (y, [], []) (itemsOf m)).1
        (foldI validate statusOf (y, [], []) (itemsOf m)).2.1 (fpsOf m)) + m.length ≤ W (U.map (·.idBytes)) m := by
  have gR : Good U (foldI validate statusOf (y, [], []) (itemsOf m)).1 :=
    foldI_good validate statusOf (itemsOf m) (y, [], []) gy (itemsOk_of_mok mok)
  have h1 := foldI_weight validate statusOf (U.map (·.idBytes)) (itemsOf m) (y, [], [])
  have h2 := foldF_weight statusOf gR hwf cfg hk (fpsOf m) (foldI validate statusOf (y, [], []) (itemsOf m)).2.1
  rw [W_split (U.map (·.idBytes)) m, len_split m]
  simp only [W_nil] at h1
  omega

/-- **Termination** from any state: the session ends within `W msg + 1` messages. -/
theorem session_ends_within (hwf : ∀ e ∈ U, Tables.Wf e) (cfg : Config) (hk : cfg.splitFactor = 2)
    (fuel : Nat) (a b : Store) (msg : Message) (ga : Good U a) (gb : Good U b) (mok : ∀ p ∈ msg, PartOk U p)
    (hfuel : W (U.map (·.idBytes)) msg < fuel) :
    ended validate statusOf cfg fuel a b msg = true := by
  induction fuel generalizing a b msg with
  | zero => omega
  | succ fuel ih =>
    unfold ended
    have hpm := processMessage_eq mapOps cfg validate statusOf b msg
    simp only at hpm
    rw [hpm]
    simp only
    by_cases hout : (foldF statusOf cfg (foldI validate statusOf (b, [], []) (itemsOf msg)).1
        (foldI validate statusOf (b, [], []) (itemsOf msg)).2.1 (fpsOf msg)).isEmpty = true
    · simp [hout]
    · have hout' : (foldF statusOf cfg (foldI validate statusOf (b, [], []) (itemsOf msg)).1
          (foldI validate statusOf (b, [], []) (itemsOf msg)).2.1 (fpsOf msg)).isEmpty = false := by simpa using hout
      simp only [hout', Bool.false_eq_true, if_false]
      have hok := itemsOk_of_mok mok
      have gR : Good U (foldI validate statusOf (b, [], []) (itemsOf msg)).1 :=
        foldI_good validate statusOf (itemsOf msg) (b, [], []) gb hok
      have houtI : ∀ p ∈ (foldI validate statusOf (b, [], []) (itemsOf msg)).2.1, PartOk U p :=
        foldI_out_ok validate statusOf (itemsOf msg) (b, [], []) gb hok (by intro p hp; simp at hp)
      have hw := reply_weight validate statusOf hwf cfg hk gb msg mok
      -- a non-empty reply needs a non-empty message
      have hmsg : 1 ≤ msg.length := by
        rcases Nat.eq_zero_or_pos msg.length with h | h
        · have hnil : msg = [] := List.eq_nil_of_length_eq_zero h
          subst hnil
          simp [itemsOf, fpsOf, foldI, foldF] at hout'
        · exact h
      apply ih _ _ _ gR ga (foldF_out_ok statusOf cfg gR (fpsOf msg) _ houtI)
      omega

theorem phi_le (I : List Bytes) (r : Range) : phi I r ≤ I.length := List.length_filter_le _ _

/-- **C01, termination (split factor 2).** From any two replica states the session started by `a`
ends within `3 ^ (|a| + |b| + 1) + 1` messages. -/
theorem session_terminates (a b : Store) (ha : StoreOk a) (hb : StoreOk b)
    (hwf : ∀ e ∈ a ++ b, Tables.Wf e) (cfg : Config) (hk : cfg.splitFactor = 2) :
    ended validate statusOf cfg (3 ^ ((a ++ b).length + 1) + 1) a b (initialMessage mapOps a) = true := by
  apply session_ends_within validate statusOf hwf cfg hk _ a b _
    ⟨ha, fun e he => List.mem_append_left _ he⟩ ⟨hb, fun e he => List.mem_append_right _ he⟩
  · intro p hp
    simp only [initialMessage, List.mem_singleton] at hp
    subst hp; trivial
  · simp only [initialMessage, W_cons, W_nil, wPart, Nat.add_zero]
    have : phi ((a ++ b).map (·.idBytes)) ⟨mapOps.getFirst a, mapOps.getFirst a⟩ ≤ (a ++ b).length := by
      have := phi_le ((a ++ b).map (·.idBytes)) ⟨mapOps.getFirst a, mapOps.getFirst a⟩
      simpa using this
    have : 3 ^ (phi ((a ++ b).map (·.idBytes)) ⟨mapOps.getFirst a, mapOps.getFirst a⟩ + 1) ≤ 3 ^ ((a ++ b).length + 1) :=
      Nat.pow_le_pow_right (by omega) (by omega)
    omega

/-- **C01, total correctness for the crate's setting**: the session ends, and both replicas then
hold `join (a ∪ b)` = `run [] (a ++ b)`. -/
theorem session_total (a b : Store) (ha : StoreOk a) (hb : StoreOk b)
    (hpf : PayloadFunctional (a ++ b)) (hval : ∀ e ∈ a ++ b, validate e = true)
    (hfp : FpInjective (a ++ b)) (hwf : ∀ e ∈ a ++ b, Tables.Wf e)
    (cfg : Config) (hk : cfg.splitFactor = 2) :
    let r := session mapOps cfg validate statusOf (3 ^ ((a ++ b).length + 1) + 1) a b (initialMessage mapOps a)
    r.2.1 = Spec.run [] (a ++ b) ∧ r.2.2 = Spec.run [] (a ++ b) :=
  session_result_eq_merge validate statusOf a b ha hb hpf hval hfp hwf cfg (by omega) _
    (session_terminates validate statusOf a b ha hb hwf cfg hk)

end
end Ranger
