import DocsModel.Model.Node
import DocsModel.Props.Live
/-!
# The client-API model and the live-actor model agree on what is being synced

`Model/Node.lean` (a whole node behind its client API) keeps the live actor's set of syncing documents as a
list and transcribes `LiveActor::start_sync` / `leave` for an empty peer list together with the store
actor's requests they consist of. `Model/Live.lean` models the live actor itself and takes the store
actor's answers as inputs. Fed with the answers the node model computes, the two agree on which documents
are synced — after `start_sync` (`startSync_rel`) and after `leave`, whether or not the store calls of
`leave` succeed (`leave_rel`): the document leaves the coordination state first.
-/

namespace NodeLive
open DocNode Live

/-- the two models name the same documents as syncing -/
def SyncRel (s : NState) (l : LState) : Prop := ∀ ns, s.syncing.contains ns = l.syncing ns

/-- `syncing` looks at the documents only -/
def syncingIn (docs : List Doc) (x : Bytes) : Bool := (docs.find? (·.ns == x)).isSome

theorem syncing_eq (l : LState) (x : Bytes) : l.syncing x = syncingIn l.docs x := rfl

theorem syncing_append (docs : List Doc) (ns x : Bytes) :
    syncingIn (docs ++ [{ ns := ns }]) x = (syncingIn docs x || x == ns) := by
  simp only [syncingIn, List.find?_append]
  cases h : docs.find? (·.ns == x) with
  | some d => simp
  | none =>
    simp only [Option.none_or, List.find?_cons, List.find?_nil, Option.isSome_none, Bool.false_or]
    by_cases hx : ns = x
    · subst hx; simp
    · have : (ns == x) = false := by simpa using hx
      have h2 : (x == ns) = false := by simpa using (fun e : x = ns => hx e.symm)
      simp [this, h2]

theorem foldl_dialKnown_nil (ns : Bytes) (acc : LState × List Out) : ([] : List Bytes).foldl (dialKnown ns) acc = acc := rfl

theorem syncing_topics_irrelevant (l : LState) (t : List Bytes) (x : Bytes) :
    ({ l with topics := t } : LState).syncing x = l.syncing x := rfl

/-- `start_sync` without peers: the node model (which runs the store actor's `open`) and the live-actor model
(which is told whether the open succeeded) agree afterwards -/
theorem startSync_rel (s : NState) (l : LState) (ns : Bytes) (h : SyncRel s l) :
    SyncRel (startSyncL s ns).1
      (Live.step l (.startSync ns (decide ((Actor.step s.a (.openR ns true true)).2 = .ok)) [])).1 := by
  intro x
  have hns := h ns
  unfold startSyncL
  simp only [Live.step, foldl_dialKnown_nil]
  cases hc : s.syncing.contains ns
  · -- not syncing yet
    have hl : l.syncing ns = false := by rw [← hns]; exact hc
    simp only [Bool.false_eq_true, if_false, hl, Bool.not_false, Bool.true_and]
    cases hop : Actor.step s.a (.openR ns true true) with
    | mk a' r =>
      by_cases hr : r = .ok
      · subst hr
        simp only [decide_true, Bool.not_true, Bool.false_eq_true, if_false]
        rw [syncing_eq]
        show (ns :: s.syncing).contains x = syncingIn (l.docs ++ [{ ns := ns }]) x
        rw [syncing_append, ← syncing_eq, ← h x]
        simp only [List.contains_cons]
        rw [Bool.or_comm]
      · have : decide (r = Actor.Reply.ok) = false := by simpa using hr
        simp only [this, Bool.not_false, if_true]
        cases r <;> first | exact absurd rfl hr | exact h x
  · have hl : l.syncing ns = true := by rw [← hns]; exact hc
    simp only [if_true, hl, Bool.not_true, Bool.false_and, Bool.false_eq_true, if_false]
    rw [syncing_topics_irrelevant]
    exact h x

theorem unsubscribeLive_syncing (s : NState) (ns : Bytes) : (unsubscribeLive s ns).1.syncing = s.syncing := by
  unfold unsubscribeLive
  split
  · rfl
  · split <;> rfl

theorem syncing_filter (docs : List Doc) (ns x : Bytes) :
    syncingIn (docs.filter (·.ns != ns)) x = (syncingIn docs x && x != ns) := by
  simp only [syncingIn]
  induction docs with
  | nil => rfl
  | cons d rest ih =>
    simp only [List.filter_cons, List.find?_cons]
    by_cases h1 : d.ns = ns
    · have hne : (d.ns != ns) = false := by simpa using h1
      simp only [hne, Bool.false_eq_true, if_false]
      by_cases h2 : d.ns = x
      · have hx : x = ns := h2.symm.trans h1
        subst hx
        simp only [h2, beq_self_eq_true, Option.isSome_some, bne_self_eq_false, Bool.and_false]
        rw [ih]; simp
      · have : (d.ns == x) = false := by simpa using h2
        simp only [this]; exact ih
    · have hne : (d.ns != ns) = true := by simpa using h1
      simp only [hne, if_true, List.find?_cons]
      by_cases h2 : d.ns = x
      · have hxn : x ≠ ns := fun e => h1 (h2.trans e)
        simp [h2, hxn]
      · have : (d.ns == x) = false := by simpa using h2
        simp only [this]; exact ih

theorem leaveL_syncing (s : NState) (ns : Bytes) :
    (leaveL s ns).1.syncing = if s.syncing.contains ns then s.syncing.filter (· != ns) else s.syncing := by
  unfold leaveL
  split
  · rename_i hc
    simp only
    split
    · -- the store switched sync off: unsubscribe, then close
      split
      · rename_i s2 heq
        have hu := congrArg (fun p => p.1.syncing) heq
        simp only [unsubscribeLive_syncing] at hu
        exact hu.symm
      · rename_i s2 r _ heq
        have hu := congrArg (fun p => p.1.syncing) heq
        simp only [unsubscribeLive_syncing] at hu
        exact hu.symm
    · rfl
  · rfl

/-- `leave`: whether or not the store calls succeed, the document is no longer synced in either model -/
theorem leave_rel (s : NState) (l : LState) (ns : Bytes) (kill storeOk : Bool) (h : SyncRel s l) :
    ∀ x, (leaveL s ns).1.syncing.contains x = (Live.step l (.leave ns kill storeOk)).1.syncing x := by
  intro x
  have hns := h ns
  have hnode := leaveL_syncing s ns
  rw [hnode]
  simp only [Live.step]
  cases hc : s.syncing.contains ns
  · have hl : l.syncing ns = false := by rw [← hns]; exact hc
    simp only [Bool.false_eq_true, if_false, hl]
    rw [h x]
    cases kill <;> rfl
  · have hl : l.syncing ns = true := by rw [← hns]; exact hc
    simp only [if_true, hl]
    have hf : (s.syncing.filter (· != ns)).contains x = (s.syncing.contains x && x != ns) := by
      by_cases hx : x = ns
      · subst hx; simp
      · have : (x != ns) = true := by simpa using hx
        simp [List.contains_eq_mem, List.mem_filter, this]
    rw [hf, h x]
    rw [syncing_eq l x, ← syncing_filter l.docs ns x]
    cases storeOk
    · rfl
    · simp only [if_true]
      cases kill <;> rfl

end NodeLive
