import DocsModel.Props.LiveDownloads
/-!
# The live-actor model is well formed along every history

`NamespaceStates` is a map: no document occurs twice. In the model it is a list; `nodup_docs_run` shows
that no history of handler calls makes a document occur twice, so `doc?` (first match) and `updDoc` (every
match) always speak about the same, single entry. The same for the download queue (pairs occur once).
-/

namespace Live

def nsList (s : LState) : List Bytes := s.docs.map (·.ns)

theorem updDoc_nsList (s : LState) (n : Bytes) (f : Doc → Doc) (hf : ∀ d, (f d).ns = d.ns) :
    nsList (s.updDoc n f) = nsList s := by
  simp only [nsList, LState.updDoc, List.map_map]
  apply List.map_congr_left
  intro d _
  simp only [Function.comp]
  split
  · exact hf d
  · rfl

theorem send_nsList (s : LState) (n : Bytes) (ev : Ev) : nsList (s.send n ev).1 = nsList s := by
  simp [nsList, send_docs]

theorem syncWithPeer_nsList (s : LState) (n p : Bytes) (r : Reason) : nsList (s.syncWithPeer n p r).1 = nsList s := by
  unfold LState.syncWithPeer
  split
  · rfl
  · split
    · exact updDoc_nsList _ _ _ (fun _ => rfl)
    · split <;> exact updDoc_nsList _ _ _ (fun _ => rfl)

theorem startDownload_nsList (s : LState) (n h p : Bytes) (o b : Bool) : nsList (s.startDownload n h p o b).1 = nsList s := by
  unfold LState.startDownload LState.enqueue LState.addProvider
  split
  · rfl
  · split
    · split <;> split <;> rfl
    · split
      · split <;> split <;> rfl
      · split <;> rfl

theorem afterFinish_nsList (s : LState) (n p : Bytes) (o : Nat) (r : Option (Nat × Nat)) (rs : Bool) :
    nsList (s.afterFinish n p o r rs).1 = nsList s := by
  unfold LState.afterFinish
  simp only
  have h3 : ∀ (q : Bool) (s1 : LState),
      nsList (if q then (s1.updDoc n (fun d => { d with mayEmit := true }), ([] : List Out))
       else ((s1.send n .pendingContentReady).1.updDoc n (fun d => { d with mayEmit := false }),
             (s1.send n .pendingContentReady).2)).1 = nsList s1 := by
    intro q s1; cases q
    · simp only [Bool.false_eq_true, if_false]
      exact (updDoc_nsList (s1.send n .pendingContentReady).1 n (fun d => { d with mayEmit := false }) (fun _ => rfl)).trans (send_nsList _ _ _)
    · simp only [if_true]; exact updDoc_nsList _ _ _ (fun _ => rfl)
  split
  · rw [syncWithPeer_nsList, h3, send_nsList]
  · rw [h3, send_nsList]

theorem onSyncFinished_nsList (s : LState) (n p : Bytes) (o : Nat) (r : Option (Nat × Nat × Heads.H)) :
    nsList (s.onSyncFinished n p o r).1 = nsList s := by
  unfold LState.onSyncFinished
  split
  · rfl
  · split
    · exact updDoc_nsList _ _ _ (fun _ => rfl)
    · simp only; rw [afterFinish_nsList]; exact updDoc_nsList _ _ _ (fun _ => rfl)

theorem emitReady_nsList (acc : LState × List Out) (m : Bytes) : nsList (emitReady acc m).1 = nsList acc.1 := by
  unfold emitReady
  split
  · split
    · simp only; rw [send_nsList]; exact updDoc_nsList _ _ _ (fun _ => rfl)
    · rfl
  · rfl

theorem foldl_emitReady_nsList (l : List Bytes) (acc : LState × List Out) :
    nsList (l.foldl emitReady acc).1 = nsList acc.1 := by
  induction l generalizing acc with
  | nil => rfl
  | cons m rest ih => simp only [List.foldl_cons]; rw [ih, emitReady_nsList]

theorem foldl_dialKnown_nsList (ns : Bytes) (l : List Bytes) (acc : LState × List Out) :
    nsList (l.foldl (dialKnown ns) acc).1 = nsList acc.1 := by
  induction l generalizing acc with
  | nil => rfl
  | cons p rest ih => simp only [List.foldl_cons]; rw [ih]; exact syncWithPeer_nsList _ _ _ _

theorem not_syncing_not_mem (s : LState) (ns : Bytes) (h : s.syncing ns = false) : ns ∉ nsList s := by
  intro hm
  simp only [nsList, List.mem_map] at hm
  obtain ⟨d, hd, hn⟩ := hm
  have : (s.docs.find? (·.ns == ns)).isSome = true := by
    rw [List.find?_isSome]
    exact ⟨d, hd, by simp [hn]⟩
  simp [LState.syncing, LState.doc?, this] at h

/-- the list of documents after a step: unchanged, one new document added that was not synced, or one removed -/
theorem step_nsList (s : LState) (i : In) :
    nsList (step s i).1 = nsList s ∨
    (∃ ns, s.syncing ns = false ∧ nsList (step s i).1 = nsList s ++ [ns]) ∨
    (∃ ns, nsList (step s i).1 = (nsList s).filter (· != ns)) := by
  cases i with
  | startSync ns openOk known =>
    simp only [step]
    split
    · left; rfl
    · by_cases hs : s.syncing ns = true
      · left
        rw [foldl_dialKnown_nsList]
        simp [hs, nsList]
      · right; left
        have hs' : s.syncing ns = false := by simpa using hs
        refine ⟨ns, hs', ?_⟩
        rw [foldl_dialKnown_nsList]
        simp [hs', nsList]
  | leave ns kill storeOk =>
    simp only [step]
    split
    · right; right
      refine ⟨ns, ?_⟩
      have hf : ∀ (docs : List Doc), (docs.filter (·.ns != ns)).map (·.ns) = (docs.map (·.ns)).filter (· != ns) := by
        intro docs
        induction docs with
        | nil => rfl
        | cons d rest ih =>
          simp only [List.filter_cons, List.map_cons]
          split <;> simp_all
      split
      · split <;> exact hf s.docs
      · exact hf s.docs
    · left; split <;> rfl
  | subscribe ns chan => left; simp only [step]; split <;> rfl
  | dropChan chan => left; rfl
  | neighborUp ns peer => left; simp only [step]; rw [send_nsList, syncWithPeer_nsList]
  | neighborDown ns peer => left; exact send_nsList _ _ _
  | localInsert ns entry => left; simp only [step]; split <;> rfl
  | remoteInsert ns hash from_ fromValid shouldDl status blob =>
    left
    simp only [step]
    split
    · split
      · split
        · exact startDownload_nsList _ _ _ _ _ _
        · rfl
      · rfl
    · rfl
  | downloadReady ns hash ok =>
    left
    simp only [step]
    rw [foldl_emitReady_nsList]
    cases ok
    · rfl
    · simp only [if_true]; rw [send_nsList]; rfl
  | contentReady ns node hash blob => left; exact startDownload_nsList _ _ _ _ _ _
  | syncReport from_ ns heads ours =>
    left
    simp only [step]
    split
    · rfl
    · split
      · rfl
      · split
        · exact syncWithPeer_nsList _ _ _ _
        · rfl
  | acceptRequest ns peer =>
    left
    simp only [step]
    split
    · rfl
    · split
      · exact updDoc_nsList _ _ _ (fun _ => rfl)
      · exact updDoc_nsList _ _ _ (fun _ => rfl)
      · split <;> exact updDoc_nsList _ _ _ (fun _ => rfl)
  | dialRequest ns peer reason => left; exact syncWithPeer_nsList _ _ _ _
  | connectFinished ns peer reason res =>
    left
    cases res with
    | ok r st hd => exact onSyncFinished_nsList _ _ _ _ _
    | err => exact onSyncFinished_nsList _ _ _ _ _
    | abortAlready =>
      simp only [step]
      split
      · rfl
      · split
        · split
          · rw [syncWithPeer_nsList]; exact updDoc_nsList _ _ _ (fun _ => rfl)
          · exact updDoc_nsList _ _ _ (fun _ => rfl)
        · exact updDoc_nsList _ _ _ (fun _ => rfl)
  | acceptFinished res =>
    left
    cases res with
    | ok ns peer r st hd => exact onSyncFinished_nsList _ _ _ _ _
    | errNamed ns peer => exact onSyncFinished_nsList _ _ _ _ _
    | abortAlready => rfl
    | errUnnamed => rfl

theorem nodup_step (s : LState) (i : In) (h : (nsList s).Nodup) : (nsList (step s i).1).Nodup := by
  rcases step_nsList s i with h1 | ⟨ns, hs, h2⟩ | ⟨ns, h3⟩
  · rw [h1]; exact h
  · rw [h2, List.nodup_append]
    refine ⟨h, by simp, ?_⟩
    intro a ha b hb
    simp only [List.mem_singleton] at hb
    subst hb
    intro e; subst e
    exact not_syncing_not_mem s a hs ha
  · rw [h3]; exact h.filter _

/-- **no document occurs twice in the coordination state, along every history** -/
theorem nodup_docs_run (ins : List In) : (nsList (run {} ins).1).Nodup := by
  have : ∀ (acc : LState × List Out), (nsList acc.1).Nodup →
      (nsList (ins.foldl (fun acc i => let (s', o) := step acc.1 i; (s', acc.2 ++ o)) acc).1).Nodup := by
    induction ins with
    | nil => intro acc h; exact h
    | cons i rest ih => intro acc h; simp only [List.foldl_cons]; exact ih _ (nodup_step acc.1 i h)
  exact this ({}, []) List.nodup_nil

end Live
