import DocsModel.Lemmas.Bytes
import DocsModel.Model.QuerySpec
/-!
# C05 — queries return exactly the entries, order and window the query describes

Model: `Tables.query` (`QueryIterator` with `IndexKind::from`, `RecordsBounds::author_key`,
`ByKeyBounds::new`, both index paths, stale index rows skipped, `LatestPerKeySelector`, offset and
limit). Specification: `QuerySpec.spec` (filter, sort, group, window — no tables, no bounds).
The harness compares the real `Store::get_many` with both on every query it generates.

Proved here: the window law, the filter predicates, exactness of the key-prefix range that both
index paths use as their scan bounds (the F2 defect was precisely the failure of this lemma for
`increment_by_one`), and the selector laws for latest-per-key.
The equation `Tables.query t ns q = QuerySpec.spec t.records ns q` for every `TablesInv` state is
validated by the correspondence check on every run and is being proved in `Props/C05Refine.lean`.
-/

namespace Tables
open QuerySpec

/-- offset and limit: the iterator returns the rows after skipping `offset`, truncated to `limit` -/
theorem query_window (t : T) (ns : Bytes) (q : Query) :
    query t ns q = window q (queryRows t ns q) := by
  unfold query window
  cases q.limit <;> rfl

theorem query_length_le_limit (t : T) (ns : Bytes) (q : Query) (n : Nat) (h : q.limit = some n) :
    (query t ns q).length ≤ n := by
  unfold query
  simp [h, List.length_take]
  omega

/-- a limit of zero returns nothing -/
theorem query_limit_zero (t : T) (ns : Bytes) (q : Query) (h : q.limit = some 0) : query t ns q = [] := by
  unfold query; simp [h]

theorem keyFilter_exact_matches (k key : Bytes) : (KeyFilter.exact k).matches key = true ↔ k = key := by
  simp [KeyFilter.matches]

theorem keyFilter_prefix_matches (p key : Bytes) : (KeyFilter.pre p).matches key = true ↔ p <+: key := by
  simp [KeyFilter.matches, Bytes.startsWith, List.isPrefixOf_iff_prefix]

theorem authorFilter_exact_matches (a author : Bytes) : (AuthorFilter.exact a).matches author = true ↔ a = author := by
  simp [AuthorFilter.matches]

/-- **The scan bounds of a key-prefix query are exact** (author-key path, one author):
a row `(ns, author, key)` lies within `RecordsBounds::author_key(ns, author, Prefix(p))` when the
prefix has a successor exactly if its key starts with `p`. -/
theorem recAuthorKey_prefix_exact (ns author p s key : Bytes) (hs : Bytes.prefixSucc p = some s) :
    inRange3 (recAuthorKey ns author (.pre p)).1 (recAuthorKey ns author (.pre p)).2 (ns, author, key)
      ↔ p <+: key := by
  unfold recAuthorKey
  simp only [hs, inRange3, lt3]
  rw [← Bytes.prefix_range_exact]
  simp only [hs, Option.some.injEq, forall_eq']
  have irr : ∀ x : Bytes, ¬ x < x := fun x => List.lt_irrefl x
  constructor
  · rintro ⟨h1, h2⟩
    refine ⟨?_, ?_⟩
    · apply List.not_lt.mp
      intro hlt
      exact h1 (Or.inr ⟨trivial, Or.inr ⟨trivial, hlt⟩⟩)
    · rcases h2 with h | ⟨_, h | ⟨_, h⟩⟩
      · exact absurd h (irr _)
      · exact absurd h (irr _)
      · exact h
  · rintro ⟨h1, h2⟩
    refine ⟨?_, Or.inr ⟨trivial, Or.inr ⟨trivial, h2⟩⟩⟩
    rintro (h | ⟨_, h | ⟨_, h⟩⟩)
    · exact irr _ h
    · exact irr _ h
    · exact List.not_lt.mpr h1 h

/-- the same for the by-key index path: a row `(ns, key, author)` with a 32-byte author id lies
within `ByKeyBounds::new(ns, Prefix(p))` exactly if its key starts with `p`. -/
theorem byKeyBounds_prefix_exact (ns author p s key : Bytes) (hs : Bytes.prefixSucc p = some s)
    (ha : zero32 ≤ author) :
    inRange3 (byKeyBounds ns (.pre p)).1 (byKeyBounds ns (.pre p)).2 (ns, key, author)
      ↔ p <+: key := by
  unfold byKeyBounds
  simp only [hs, inRange3, lt3]
  rw [← Bytes.prefix_range_exact]
  simp only [hs, Option.some.injEq, forall_eq']
  have irr : ∀ x : Bytes, ¬ x < x := fun x => List.lt_irrefl x
  constructor
  · rintro ⟨h1, h2⟩
    refine ⟨?_, ?_⟩
    · apply List.not_lt.mp
      intro hlt
      exact h1 (Or.inr ⟨trivial, Or.inl hlt⟩)
    · rcases h2 with h | ⟨_, h | ⟨h, h'⟩⟩
      · exact absurd h (irr _)
      · exact h
      · exact absurd h' (List.not_lt.mpr ha)
  · rintro ⟨h1, h2⟩
    refine ⟨?_, Or.inr ⟨trivial, Or.inl h2⟩⟩
    rintro (h | ⟨_, h | ⟨h, h'⟩⟩)
    · exact irr _ h
    · exact List.not_lt.mpr h1 h
    · exact List.not_lt.mpr ha h'

/-- F2 regression witness: with the length-preserving increment the bound `[2,0]` would admit key `[2]`. -/
theorem f2_witness : ¬ (([1,255] : Bytes) <+: [2]) ∧ ([2] : Bytes) < [2, 0] ∧
    Bytes.prefixSucc [1,255] = some [2] := by decide

/-! ### latest-per-key selector -/

/-- the selector never invents entries -/
theorem selectLatest_subset (acc : Option Entry) (l : List Entry) :
    ∀ e ∈ selectLatest acc l, e ∈ l ∨ acc = some e := by
  induction l generalizing acc with
  | nil => cases acc <;> simp [selectLatest]
  | cons x xs ih =>
    cases acc with
    | none =>
      intro e he
      simp only [selectLatest] at he
      rcases ih (some x) e he with h | h
      · exact Or.inl (List.mem_cons_of_mem _ h)
      · cases h; exact Or.inl List.mem_cons_self
    | some last =>
      intro e he
      simp only [selectLatest] at he
      split at he
      · split at he
        · rcases ih (some x) e he with h | h
          · exact Or.inl (List.mem_cons_of_mem _ h)
          · cases h; exact Or.inl List.mem_cons_self
        · rcases ih (some last) e he with h | h
          · exact Or.inl (List.mem_cons_of_mem _ h)
          · exact Or.inr h
      · rcases List.mem_cons.mp he with h | h
        · exact Or.inr (by rw [h])
        · rcases ih (some x) e h with h | h
          · exact Or.inl (List.mem_cons_of_mem _ h)
          · cases h; exact Or.inl List.mem_cons_self

/-- example: three authors on one key, a tie on the greatest timestamp — the first in iteration
order wins, and a deleted winner of another key is a winner too (hidden later unless requested) -/
example :
    let e (a : UInt8) (k : UInt8) (ts : Nat) : Entry := { ns := [1], author := [a], key := [k], ts := ts, len := 1, hash := [a] }
    selectLatest none [e 1 7 5, e 2 7 9, e 3 7 9, e 1 8 4] = [e 2 7 9, e 1 8 4] := by decide

end Tables
