import DocsModel.Model.GossipSwarm
import DocsModel.Props.C04
import DocsModel.Props.C04Deliver
import DocsModel.Props.Live
/-!
# C04 with the gossip path spelled out

Every history of the system of `Model/GossipSwarm.lean` — nodes that start and stop syncing, write
locally, receive gossip in any order and multiplicity, run sessions, restart — moves the replicas exactly
as a history of the abstract swarm of `Model/Swarm.lean` does (`refines_swarm`): a local write is a local
write, a gossip delivery is a delivery of an entry some replica wrote (the network only carries what
live actors handed to it, and they hand over nothing but applied local writes: `net_sub_written`),
everything else leaves the replicas alone. So the theorems of `Props/C04.lean` hold for it:
no replica ever holds an entry nobody wrote, and a closing round of complete sessions along a connected
set of pairs makes every replica hold the merge of all accepted local writes.
-/

namespace GossipSwarm
open Spec Swarm

variable (ns : Bytes) (encE : Entry → Bytes)

/-- everything in the network is an accepted local write of its sender -/
def NetInv (g : G) : Prop := ∀ p ∈ g.net, p ∈ g.sw.w

theorem written_mono_w (s : S) (σ : Swarm.Step) (p : Nat × Entry) (hp : p ∈ s.w) : p ∈ (Swarm.step s σ).w := by
  cases σ with
  | localWrite i e =>
    rw [step_localWrite]
    cases hput : put (s.st i) e with
    | mk s' out => cases out <;> simp [hp]
  | deliver i e valid => rw [step_deliver]; split <;> exact hp
  | session i j => exact hp
  | restart i => exact hp

theorem netInv_step (g : G) (h : NetInv g) (σ : GStep) : NetInv (step ns encE g σ) := by
  cases σ with
  | startSync i => exact h
  | leave i => exact h
  | localWrite i e =>
    simp only [step]
    cases hput : put (g.sw.st i) e with
    | mk s' out =>
      cases out with
      | notInserted => exact h
      | inserted n =>
        simp only
        have hw : (Swarm.step g.sw (.localWrite i e)).w = (i, e) :: g.sw.w := by
          rw [step_localWrite_accepted g.sw i e n (by rw [hput])]
        intro p hp
        simp only at hp
        rw [hw]
        split at hp
        · exact List.mem_cons_of_mem _ (h p hp)
        · rcases List.mem_append.mp hp with hp | hp
          · exact List.mem_cons_of_mem _ (h p hp)
          · simp only [List.mem_singleton] at hp; subst hp; exact List.mem_cons_self
  | gossipDeliver j k valid direct shouldDl blob =>
    simp only [step]
    cases hk : g.net[k]? with
    | none => exact h
    | some ie =>
      obtain ⟨i, e⟩ := ie
      simp only
      cases valid
      · exact h
      · simp only [if_true]
        cases hput : put (g.sw.st j) e with
        | mk s' out =>
          cases out <;> (intro p hp; exact written_mono_w _ _ p (h p hp))
  | session i j => intro p hp; exact written_mono_w _ _ p (h p hp)
  | restart i => intro p hp; exact written_mono_w _ _ p (h p hp)

theorem netInv_run (g : G) (h : NetInv g) (steps : List GStep) : NetInv (run ns encE g steps) := by
  induction steps generalizing g with
  | nil => exact h
  | cons σ rest ih => exact ih (step ns encE g σ) (netInv_step ns encE g h σ)

/-- the live actors hand nothing to gossip but applied local writes of their own node -/
theorem net_sub_written (steps : List GStep) (p : Nat × Entry) (hp : p ∈ (run ns encE {} steps).net) :
    p ∈ (run ns encE {} steps).sw.w :=
  netInv_run ns encE {} (by intro p hp; simp at hp) steps p hp

/-- one step moves the replicas as the abstract step it amounts to -/
theorem step_refines (g : G) (σ : GStep) :
    (step ns encE g σ).sw = (absStep g σ).toList.foldl Swarm.step g.sw := by
  cases σ with
  | startSync i => rfl
  | leave i => rfl
  | localWrite i e =>
    simp only [step, absStep, Option.toList, List.foldl]
    cases hput : put (g.sw.st i) e with
    | mk s' out =>
      cases out with
      | notInserted => simp only; rw [step_localWrite_rejected g.sw i e (by rw [hput])]
      | inserted n => rfl
  | gossipDeliver j k valid direct shouldDl blob =>
    simp only [step, absStep]
    cases hk : g.net[k]? with
    | none => rfl
    | some ie =>
      obtain ⟨i, e⟩ := ie
      simp only
      cases valid
      · rfl
      · simp only [if_true, Option.toList, List.foldl]
        cases hput : put (g.sw.st j) e with
        | mk s' out => cases out <;> rfl
  | session i j => rfl
  | restart i => rfl

/-- **Refinement**: the replicas of the gossip-level system move exactly as those of the abstract swarm
under the abstract history -/
theorem refines_swarm (g : G) (steps : List GStep) :
    (run ns encE g steps).sw = Swarm.run g.sw (absRun ns encE g steps) := by
  induction steps generalizing g with
  | nil => rfl
  | cons σ rest ih =>
    simp only [run, List.foldl_cons, absRun]
    have := ih (step ns encE g σ)
    simp only [run] at this
    rw [this, step_refines ns encE g σ]
    simp [Swarm.run, List.foldl_append]

/-- **No node ever holds an entry that no node wrote**, whatever gossip delivers and however often -/
theorem gossip_no_foreign_entries (steps : List GStep) (i : Nat) (x : Entry)
    (hx : x ∈ (run ns encE {} steps).sw.st i) : x ∈ written (run ns encE {} steps).sw := by
  rw [refines_swarm ns encE {} steps] at hx ⊢
  exact no_foreign_entries _ i x hx

/-- what a gossip delivery carries was written by some node: the abstract delivery is never the
no-op "unknown entry" -/
theorem delivered_was_written (g : G) (h : NetInv g) (k : Nat) (i : Nat) (e : Entry)
    (hk : g.net[k]? = some (i, e)) : e ∈ written g.sw := by
  have := h (i, e) (List.mem_of_getElem? hk)
  exact List.mem_map.mpr ⟨(i, e), this, rfl⟩

/-- a node that does not sync the document hands nothing to gossip: its local writes travel by
sessions only -/
theorem not_syncing_sends_nothing (g : G) (i : Nat) (e : Entry) (hs : (g.live i).syncing ns = false) :
    (step ns encE g (.localWrite i e)).net = g.net := by
  simp only [step]
  cases hput : put (g.sw.st i) e with
  | mk s' out =>
    cases out with
    | notInserted => rfl
    | inserted n =>
      simp only
      rw [Live.local_insert_broadcast]
      simp [hs]

/-- an applied remote entry is never handed to gossip again by the receiving node -/
theorem delivery_sends_nothing (g : G) (j k : Nat) (valid direct shouldDl blob : Bool) :
    (step ns encE g (.gossipDeliver j k valid direct shouldDl blob)).net = g.net := by
  simp only [step]
  cases hk : g.net[k]? with
  | none => rfl
  | some ie =>
    obtain ⟨i, e⟩ := ie
    simp only
    cases valid
    · rfl
    · simp only [if_true]
      cases hput : put (g.sw.st j) e with
      | mk s' out => cases out <;> rfl

/-- **Convergence with the gossip path spelled out**: after any history, a closing round of complete
sessions (and restarts) that connects every writer to each of the `n` nodes leaves every node with
exactly the merge of all accepted local writes -/
theorem gossip_closing_round_converges (n : Nat) (hist : List GStep) (closing : List Swarm.Step)
    (hq : ∀ σ ∈ closing, σ.isWrite = false)
    (hconn : ∀ p ∈ (run ns encE {} hist).sw.w, ∀ j, j < n → j ∈ reach [p.1] closing)
    (hpf : PayloadFunctional (written (run ns encE {} hist).sw)) :
    ∀ j, j < n → ∀ x,
      x ∈ (Swarm.run (run ns encE {} hist).sw closing).st j ↔ x ∈ join (written (run ns encE {} hist).sw) := by
  have href := refines_swarm ns encE {} hist
  intro j hj x
  have h := closing_round_converges n (absRun ns encE {} hist) closing hq
    (by rw [← href]; exact hconn) (by rw [← href]; exact hpf) j hj x
  have hrun : Swarm.run {} (absRun ns encE {} hist ++ closing) = Swarm.run (Swarm.run {} (absRun ns encE {} hist)) closing := by
    simp [Swarm.run, List.foldl_append]
  rw [hrun, ← href] at h
  exact h

/-! non-vacuity: two nodes, one syncs and writes, gossip delivers to the other twice -/
example :
    let e : Entry := { ns := [1], author := [2], key := [3], ts := 5, len := 1, hash := [4], sig := 0, nsSigOk := true, authorSigOk := true }
    let g := run [1] (fun _ => [7]) {} [.startSync 0, .localWrite 0 e, .gossipDeliver 1 0 true true true false, .gossipDeliver 1 0 true false true false]
    g.net.length = 1 ∧ g.sw.st 1 = [e] ∧ g.sw.st 0 = [e] := by
  decide

end GossipSwarm

namespace GossipSwarm
open Spec Swarm

variable (ns : Bytes) (encE : Entry → Bytes)

theorem absRun_append (g : G) (a b : List GStep) :
    absRun ns encE g (a ++ b) = absRun ns encE g a ++ absRun ns encE (run ns encE g a) b := by
  induction a generalizing g with
  | nil => rfl
  | cons σ rest ih =>
    simp only [List.cons_append, absRun, run, List.foldl_cons]
    rw [ih]
    simp [run, List.append_assoc]

theorem run_append (g : G) (a b : List GStep) : run ns encE g (a ++ b) = run ns encE (run ns encE g a) b := by
  simp [run, List.foldl_append]

/-- message `k` of the network reached node `j` and passed its validation, at a point of the history where
the message had been handed to gossip -/
def GossipDelivered (hist : List GStep) (j : Nat) (e : Entry) : Prop :=
  ∃ pre post k i d s b, hist = pre ++ GStep.gossipDeliver j k true d s b :: post ∧
    (run ns encE {} pre).net[k]? = some (i, e)

/-- **Gossip alone converges where it arrives, with the gossip path spelled out**: a node that every
accepted local write of the swarm has reached through gossip (each handed to gossip by a live actor that
synced the document, delivered by the network, accepted by the node's validation) holds exactly the merge
of all accepted local writes — no session needed -/
theorem gossip_delivered_everything_converges (hist : List GStep) (j : Nat)
    (hall : ∀ e ∈ written (run ns encE {} hist).sw, GossipDelivered ns encE hist j e)
    (hpf : PayloadFunctional (written (run ns encE {} hist).sw)) :
    ∀ x, x ∈ (run ns encE {} hist).sw.st j ↔ x ∈ join (written (run ns encE {} hist).sw) := by
  have href := refines_swarm ns encE {} hist
  rw [href]
  apply delivered_everything_converges (absRun ns encE {} hist) j _ (by rw [← href]; exact hpf)
  intro e he
  rw [← href] at he
  obtain ⟨pre, post, k, i, d, s, b, hh, hk⟩ := hall e he
  refine ⟨absRun ns encE {} pre, absRun ns encE (step ns encE (run ns encE {} pre) (.gossipDeliver j k true d s b)) post, ?_, ?_⟩
  · rw [hh, absRun_append]
    simp only [absRun, absStep, hk, if_true, Option.toList, List.singleton_append]
  · rw [← refines_swarm ns encE {} pre]
    exact delivered_was_written (run ns encE {} pre) (netInv_run ns encE {} (by intro p hp; simp at hp) pre) k i e hk

/-- a node that syncs the document (topic active) hands every applied local write to gossip: it is in the
network afterwards, ready to be delivered -/
theorem synced_write_is_broadcast (g : G) (i : Nat) (e : Entry) (n : Nat)
    (hput : (put (g.sw.st i) e).2 = .inserted n)
    (hs : (g.live i).syncing ns = true) (ht : (g.live i).topics.contains ns = true) :
    (i, e) ∈ (step ns encE g (.localWrite i e)).net := by
  simp only [step]
  cases hp : put (g.sw.st i) e with
  | mk s' out =>
    rw [hp] at hput
    simp only at hput
    subst hput
    simp only
    rw [Live.local_insert_broadcast]
    have ht' : ns ∈ (g.live i).topics := by simpa using ht
    simp [hs, ht']

theorem syncing_after_add (l : Live.LState) (t : List Bytes) :
    ({ (if l.syncing ns then l else { l with docs := l.docs ++ [{ ns := ns }] }) with topics := t } : Live.LState).syncing ns = true := by
  by_cases h : l.syncing ns = true
  · simp only [h, if_true]; exact h
  · have h' : l.syncing ns = false := by simpa using h
    simp only [h', Bool.false_eq_true, if_false]
    simp only [Live.LState.syncing, Live.LState.doc?, List.find?_append] at h' ⊢
    cases hf : l.docs.find? (·.ns == ns) with
    | some d => simp [hf] at h'
    | none => simp

/-- … and after `start_sync` a node is in that situation -/
theorem startSync_then_broadcasts (g : G) (i : Nat) :
    ((step ns encE g (.startSync i)).live i).topics.contains ns = true ∧
    ((step ns encE g (.startSync i)).live i).syncing ns = true := by
  simp only [step, updL, if_true]
  refine ⟨Live.startSync_enables_broadcast _ ns [], ?_⟩
  simp only [Live.step, Bool.not_true, Bool.and_false, Bool.false_eq_true, if_false, List.foldl_nil]
  exact syncing_after_add ns _ _

/-! non-vacuity -/
example : GossipDelivered [1] (fun _ => [7])
    [.startSync 0, .localWrite 0 Swarm.exE, .gossipDeliver 1 0 true true true false] 1 Swarm.exE :=
  ⟨[.startSync 0, .localWrite 0 Swarm.exE], [], 0, 0, true, true, false, rfl, by decide⟩

end GossipSwarm
