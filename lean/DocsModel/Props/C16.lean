import DocsModel.Lemmas.Bytes
import DocsModel.Model.Tables
/-!
# C16 — removing a document erases it completely and only it

Model: `Tables.removeReplica` (`Store::remove_replica`): `retain_in` over `RecordsBounds::namespace`
and `ByKeyBounds::namespace`, the `(ns, 00…)..=(ns, FF…)` range of the head table (F6 repair), and
the three per-document rows. The open check is `removeChecked`.

The central lemma is `recNamespace_exact` / `byKeyNamespace_exact`: the namespace bounds built with
`increment_by_one` contain exactly the rows of that namespace — for every 32-byte id, including ids
ending in `0xFF` and the all-`0xFF` id (unbounded end).
-/

namespace Tables
open Bytes

theorem zero32_le (a : Bytes) (h : a.length = 32) : zero32 ≤ a := zeros_le 32 a h
theorem le_ff32 (a : Bytes) (h : a.length = 32) : a ≤ ff32 := le_ffs 32 a h

private theorem not_lt_zero32 (a : Bytes) (h : a.length = 32) : ¬ a < zero32 :=
  List.not_lt.mpr (zero32_le a h)

/-- **The namespace bounds of the records table are exact.** -/
theorem recNamespace_exact (ns : Bytes) (k : K3) (hns : ns.length = 32)
    (hk1 : k.1.length = 32) (hk2 : k.2.1.length = 32) :
    inRange3 (recNamespace ns).1 (recNamespace ns).2 k ↔ k.1 = ns := by
  unfold recNamespace recNamespaceEnd inRange3 lt3
  constructor
  · rintro ⟨hlo, hhi⟩
    apply Bytes.squeeze ns k.1 (by rw [hk1, hns])
    · intro h; exact hlo (Or.inl h)
    · rcases h : incrementByOne ns with ⟨ok, e⟩
      rw [h] at hhi
      cases ok with
      | true =>
        simp only at hhi ⊢
        rcases hhi with h' | ⟨_, h' | ⟨_, h'⟩⟩
        · exact h'
        · exact absurd h' (not_lt_zero32 _ hk2)
        · exact absurd h' (List.not_lt_nil _)
      | false => trivial
  · intro h
    refine ⟨?_, ?_⟩
    · rintro (h' | ⟨_, h' | ⟨_, h'⟩⟩)
      · rw [h] at h'; exact List.lt_irrefl _ h'
      · exact not_lt_zero32 _ hk2 h'
      · exact List.not_lt_nil _ h'
    · rcases h' : incrementByOne ns with ⟨ok, e⟩
      cases ok with
      | true =>
        simp only
        rw [h]
        exact Or.inl (incrementByOne_succ ns e h').1
      | false => trivial

/-- the same for the by-key index, rows `(namespace, key, author)` -/
theorem byKeyNamespace_exact (ns : Bytes) (k : K3) (hns : ns.length = 32)
    (hk1 : k.1.length = 32) (hk3 : k.2.2.length = 32) :
    inRange3 (byKeyNamespace ns).1 (byKeyNamespace ns).2 k ↔ k.1 = ns := by
  unfold byKeyNamespace inRange3 lt3
  constructor
  · rintro ⟨hlo, hhi⟩
    apply Bytes.squeeze ns k.1 (by rw [hk1, hns])
    · intro h; exact hlo (Or.inl h)
    · rcases h : incrementByOne ns with ⟨ok, e⟩
      rw [h] at hhi
      cases ok with
      | true =>
        simp only at hhi ⊢
        rcases hhi with h' | ⟨_, h' | ⟨_, h'⟩⟩
        · exact h'
        · exact absurd h' (List.not_lt_nil _)
        · exact absurd h' (not_lt_zero32 _ hk3)
      | false => trivial
  · intro h
    refine ⟨?_, ?_⟩
    · rintro (h' | ⟨_, h' | ⟨_, h'⟩⟩)
      · rw [h] at h'; exact List.lt_irrefl _ h'
      · exact List.not_lt_nil _ h'
      · exact not_lt_zero32 _ hk3 h'
    · rcases h' : incrementByOne ns with ⟨ok, e⟩
      cases ok with
      | true =>
        simp only
        rw [h]
        exact Or.inl (incrementByOne_succ ns e h').1
      | false => trivial

/-- all ids in the tables are 32 bytes long (what `NamespaceId` / `AuthorId` guarantee) -/
structure Wf32 (t : T) : Prop where
  recs : ∀ e ∈ t.records, e.ns.length = 32 ∧ e.author.length = 32
  idx : ∀ k ∈ t.byKey, k.1.length = 32 ∧ k.2.2.length = 32
  lat : ∀ r ∈ t.latest, r.1.length = 32 ∧ r.2.1.length = 32

theorem removeReplica_records (t : T) (ns : Bytes) (hns : ns.length = 32) (wf : Wf32 t) :
    (removeReplica t ns).records = t.records.filter (fun e => e.ns != ns) := by
  unfold removeReplica
  simp only
  apply List.filter_congr
  intro e he
  obtain ⟨h1, h2⟩ := wf.recs e he
  have := recNamespace_exact ns (rk e) hns h1 h2
  by_cases h : e.ns = ns
  · have h' : inRange3 (recNamespace ns).1 (recNamespace ns).2 (rk e) := this.mpr h
    simp [h', h]
  · have h' : ¬ inRange3 (recNamespace ns).1 (recNamespace ns).2 (rk e) := fun x => h (this.mp x)
    simp [h', h]

theorem removeReplica_byKey (t : T) (ns : Bytes) (hns : ns.length = 32) (wf : Wf32 t) :
    (removeReplica t ns).byKey = t.byKey.filter (fun k => k.1 != ns) := by
  unfold removeReplica
  simp only
  apply List.filter_congr
  intro k hk
  obtain ⟨h1, h2⟩ := wf.idx k hk
  have := byKeyNamespace_exact ns k hns h1 h2
  by_cases h : k.1 = ns
  · have h' : inRange3 (byKeyNamespace ns).1 (byKeyNamespace ns).2 k := this.mpr h
    simp [h', h]
  · have h' : ¬ inRange3 (byKeyNamespace ns).1 (byKeyNamespace ns).2 k := fun x => h (this.mp x)
    simp [h', h]

theorem removeReplica_latest (t : T) (ns : Bytes) (wf : Wf32 t) :
    (removeReplica t ns).latest = t.latest.filter (fun r => r.1 != ns) := by
  unfold removeReplica
  simp only
  apply List.filter_congr
  intro r hr
  obtain ⟨_, h2⟩ := wf.lat r hr
  have hz : decide (zero32 ≤ r.2.1) = true := by simpa using zero32_le _ h2
  have hf : decide (r.2.1 ≤ ff32) = true := by simpa using le_ff32 _ h2
  cases h' : (r.1 == ns) <;> simp [hz, hf, h', bne]

/-- **Erasure.** After removal no table holds a row of the document: entries, index, heads,
peers, policy, capability. -/
theorem remove_erases (t : T) (ns : Bytes) (hns : ns.length = 32) (wf : Wf32 t) :
    let t' := removeReplica t ns
    (∀ e ∈ t'.records, e.ns ≠ ns) ∧ (∀ k ∈ t'.byKey, k.1 ≠ ns) ∧ (∀ r ∈ t'.latest, r.1 ≠ ns) ∧
    (∀ r ∈ t'.namespaces, r.1 ≠ ns) ∧ (∀ r ∈ t'.peers, r.1 ≠ ns) ∧ (∀ r ∈ t'.policies, r.1 ≠ ns) := by
  intro t'
  refine ⟨?_, ?_, ?_, ?_, ?_, ?_⟩
  · intro e he
    have : e ∈ t.records.filter (fun e => e.ns != ns) := removeReplica_records t ns hns wf ▸ he
    simpa using (List.mem_filter.mp this).2
  · intro k hk
    have : k ∈ t.byKey.filter (fun k => k.1 != ns) := removeReplica_byKey t ns hns wf ▸ hk
    simpa using (List.mem_filter.mp this).2
  · intro r hr
    have : r ∈ t.latest.filter (fun r => r.1 != ns) := removeReplica_latest t ns wf ▸ hr
    simpa using (List.mem_filter.mp this).2
  · intro r hr
    have := (List.mem_filter.mp (show r ∈ t.namespaces.filter (fun r => r.1 != ns) from hr)).2
    simpa using this
  · intro r hr
    have := (List.mem_filter.mp (show r ∈ t.peers.filter (fun r => r.1 != ns) from hr)).2
    simpa using this
  · intro r hr
    have := (List.mem_filter.mp (show r ∈ t.policies.filter (fun r => r.1 != ns) from hr)).2
    simpa using this

/-- **Frame.** Every row of every other document stays, in the same order, in every table —
byte-neighbours and ids ending in `0xFF` included. -/
theorem remove_frames (t : T) (ns other : Bytes) (hns : ns.length = 32) (wf : Wf32 t) (hne : other ≠ ns) :
    let t' := removeReplica t ns
    t'.records.filter (fun e => e.ns == other) = t.records.filter (fun e => e.ns == other) ∧
    t'.byKey.filter (fun k => k.1 == other) = t.byKey.filter (fun k => k.1 == other) ∧
    t'.latest.filter (fun r => r.1 == other) = t.latest.filter (fun r => r.1 == other) ∧
    t'.namespaces.filter (fun r => r.1 == other) = t.namespaces.filter (fun r => r.1 == other) ∧
    t'.peers.filter (fun r => r.1 == other) = t.peers.filter (fun r => r.1 == other) ∧
    t'.policies.filter (fun r => r.1 == other) = t.policies.filter (fun r => r.1 == other) ∧
    t'.authors = t.authors := by
  intro t'
  have key : ∀ {α : Type} (l : List α) (f : α → Bytes),
      (l.filter (fun r => f r != ns)).filter (fun r => f r == other) = l.filter (fun r => f r == other) := by
    intro α l f
    rw [List.filter_filter]
    apply List.filter_congr
    intro r _
    by_cases h : f r = other
    · simp [h, hne]
    · simp [h]
  refine ⟨?_, ?_, ?_, ?_, ?_, ?_, rfl⟩
  · show (removeReplica t ns).records.filter _ = _
    rw [removeReplica_records t ns hns wf]; exact key t.records (·.ns)
  · show (removeReplica t ns).byKey.filter _ = _
    rw [removeReplica_byKey t ns hns wf]; exact key t.byKey (·.1)
  · show (removeReplica t ns).latest.filter _ = _
    rw [removeReplica_latest t ns wf]; exact key t.latest (·.1)
  · exact key t.namespaces (·.1)
  · exact key t.peers (·.1)
  · exact key t.policies (·.1)

/-- removal is refused while the document is open (`open_replicas` check of `remove_replica`) -/
def removeChecked (openSet : List Bytes) (t : T) (ns : Bytes) : Option T :=
  if openSet.contains ns then none else some (removeReplica t ns)

theorem remove_refused_while_open (openSet : List Bytes) (t : T) (ns : Bytes) (h : ns ∈ openSet) :
    removeChecked openSet t ns = none := by
  simp [removeChecked, h]

/-- the hashes reported for garbage-collection protection are exactly the hashes of the rows of
the records table (every document) -/
theorem content_hashes_exact (t : T) (h : Bytes) : h ∈ contentHashes t ↔ ∃ e ∈ t.records, e.hash = h := by
  simp [contentHashes]

/-- after a removal the removed document contributes no hash any more -/
theorem content_hashes_after_remove (t : T) (ns : Bytes) (hns : ns.length = 32) (wf : Wf32 t) (h : Bytes) :
    h ∈ contentHashes (removeReplica t ns) ↔ ∃ e ∈ t.records, e.ns ≠ ns ∧ e.hash = h := by
  unfold contentHashes
  rw [removeReplica_records t ns hns wf]
  simp only [List.mem_map, List.mem_filter]
  constructor
  · rintro ⟨e, ⟨he, hn⟩, hh⟩; exact ⟨e, he, by simpa using hn, hh⟩
  · rintro ⟨e, he, hn, hh⟩; exact ⟨e, ⟨he, by simpa using hn⟩, hh⟩

/-- non-vacuity: ids ending in 0xFF and the all-0xFF id -/
example : (incrementByOne (List.replicate 31 7 ++ [255])).1 = true ∧ (incrementByOne ff32).1 = false := by decide

end Tables
