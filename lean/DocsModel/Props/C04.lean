import DocsModel.Model.Swarm
import DocsModel.Lemmas.StoreOk
import DocsModel.Props.C02
/-!
# C04 — a swarm of replicas is eventually consistent despite loss, duplication and reordering

For every history of local writes and deletions (any clocks), deliveries of broadcast entries (any
entry ever written, any number of times, in any order, accepted or rejected by the receiver's
validation), entries carried by sessions that are cut at any message (the same step), complete
sessions and restarts, over any number of replicas:

* no replica ever holds an entry that was not written by some replica (`no_foreign_entries`,
  `written_are_local_writes`);
* what a replica knows never regresses (`knowledge_is_monotone`);
* after any closing round without further local writes in which complete sessions connect, in
  time order, every replica that wrote to each of the replicas `0..n`, each of these holds exactly
  the merge of all accepted local writes, and all hold the same list
  (`closing_round_converges`, `closing_round_equal_states`).
-/

namespace Swarm
open Spec Entry

/-- replica `i` holds `e` or something that supersedes it -/
def Knows (s : S) (i : Nat) (e : Entry) : Prop := ∃ m ∈ s.st i, dom m e

theorem merge_inv (a b : Store) : PutInv (merge a b) ((a ++ b).reverse) := by
  have := putInv_run putInv_nil (a ++ b)
  simpa [merge] using this

theorem merge_ok (a b : Store) : StoreOk (merge a b) := ⟨(merge_inv a b).anti, (merge_inv a b).sorted⟩

theorem merge_sub (a b : Store) (x : Entry) (hx : x ∈ merge a b) : x ∈ a ∨ x ∈ b := by
  have := (merge_inv a b).sub x hx
  simpa [or_comm] using this

theorem merge_covers (a b : Store) (p : Entry) (hk : (∃ m ∈ a, dom m p) ∨ (∃ m ∈ b, dom m p)) :
    ∃ m ∈ merge a b, dom m p := by
  have hm : ∃ m, (m ∈ a ∨ m ∈ b) ∧ dom m p := by
    rcases hk with ⟨m, hm, hd⟩ | ⟨m, hm, hd⟩
    · exact ⟨m, Or.inl hm, hd⟩
    · exact ⟨m, Or.inr hm, hd⟩
  obtain ⟨m, hm, hd⟩ := hm
  obtain ⟨m', hm', hd'⟩ := (merge_inv a b).cover m (by simpa [or_comm] using hm)
  exact ⟨m', hm', dom_trans hd' hd⟩

@[simp] theorem upd_same (f : Nat → Store) (i : Nat) (v : Store) : upd f i v i = v := by simp [upd]

theorem upd_other (f : Nat → Store) (i k : Nat) (v : Store) (h : k ≠ i) : upd f i v k = f k := by
  simp [upd, h]

/-- the invariant of every reachable swarm state -/
structure Inv (s : S) : Prop where
  ok : ∀ i, StoreOk (s.st i)
  sub : ∀ i, ∀ x ∈ s.st i, x ∈ written s
  own : ∀ p ∈ s.w, Knows s p.1 p.2

theorem inv_init : Inv {} := ⟨fun _ => storeOk_nil, by intro i x hx; simp at hx, by intro p hp; simp at hp⟩

theorem step_localWrite (s : S) (i : Nat) (e : Entry) :
    step s (.localWrite i e) =
      match put (s.st i) e with
      | (s', .inserted _) => { st := upd s.st i s', w := (i, e) :: s.w }
      | (_, .notInserted) => s := rfl

theorem step_deliver (s : S) (i : Nat) (e : Entry) (valid : Bool) :
    step s (.deliver i e valid) =
      if valid = true ∧ e ∈ written s then { s with st := upd s.st i (put (s.st i) e).1 } else s := rfl

theorem step_session (s : S) (i j : Nat) :
    step s (.session i j) =
      { s with st := upd (upd s.st i (merge (s.st i) (s.st j))) j (merge (s.st i) (s.st j)) } := rfl

theorem step_restart (s : S) (i : Nat) : step s (.restart i) = s := rfl

theorem step_localWrite_accepted (s : S) (i : Nat) (e : Entry) (n : Nat)
    (h : (put (s.st i) e).2 = .inserted n) :
    step s (.localWrite i e) = { st := upd s.st i (put (s.st i) e).1, w := (i, e) :: s.w } := by
  rw [step_localWrite]
  cases hp : put (s.st i) e with
  | mk s' out =>
    rw [hp] at h
    simp only at h
    subst h
    rfl

theorem step_localWrite_rejected (s : S) (i : Nat) (e : Entry)
    (h : (put (s.st i) e).2 = .notInserted) : step s (.localWrite i e) = s := by
  rw [step_localWrite]
  cases hp : put (s.st i) e with
  | mk s' out =>
    rw [hp] at h
    simp only at h
    subst h
    rfl

/-- the state of one replica after a step, in terms of `put` and `merge` -/
theorem knows_put_state (s : S) (inv : Inv s) (i : Nat) (e : Entry) (k : Nat) (p : Entry)
    (h : Knows s k p) : ∃ m ∈ upd s.st i (put (s.st i) e).1 k, dom m p := by
  by_cases hk : k = i
  · subst hk; rw [upd_same]; exact put_covers_old (inv.ok k) e p h
  · rw [upd_other _ _ _ _ hk]; exact h

/-- **Knowledge never regresses**: whatever a replica holds or has superseded stays superseded,
through every kind of step. -/
theorem knowledge_is_monotone (s : S) (inv : Inv s) (σ : Step) (k : Nat) (p : Entry) (h : Knows s k p) :
    Knows (step s σ) k p := by
  cases σ with
  | localWrite i e =>
    cases hout : (put (s.st i) e).2 with
    | notInserted => rw [step_localWrite_rejected s i e hout]; exact h
    | inserted n =>
      rw [step_localWrite_accepted s i e n hout]
      exact knows_put_state s inv i e k p h
  | deliver i e valid =>
    rw [step_deliver]
    split
    · exact knows_put_state s inv i e k p h
    · exact h
  | session i j =>
    rw [step_session]
    unfold Knows
    simp only
    by_cases hkj : k = j
    · subst hkj; rw [upd_same]
      by_cases hki : k = i
      · subst hki; exact merge_covers _ _ p (Or.inl h)
      · exact merge_covers _ _ p (Or.inr h)
    · rw [upd_other _ _ _ _ hkj]
      by_cases hki : k = i
      · subst hki; rw [upd_same]; exact merge_covers _ _ p (Or.inl h)
      · rw [upd_other _ _ _ _ hki]; exact h
  | restart i => exact h

theorem written_step_sub (s : S) (σ : Step) (x : Entry) (hx : x ∈ written s) : x ∈ written (step s σ) := by
  cases σ with
  | localWrite i e =>
    cases hout : (put (s.st i) e).2 with
    | notInserted => rw [step_localWrite_rejected s i e hout]; exact hx
    | inserted n =>
      rw [step_localWrite_accepted s i e n hout]
      simp only [written, List.map_cons, List.mem_cons]
      exact Or.inr hx
  | deliver i e valid => rw [step_deliver]; split <;> exact hx
  | session i j => exact hx
  | restart i => exact hx

theorem inv_step (s : S) (inv : Inv s) (σ : Step) : Inv (step s σ) := by
  refine ⟨?_, ?_, ?_⟩
  · -- every replica state stays a sorted antichain
    intro k
    cases σ with
    | localWrite i e =>
      cases hout : (put (s.st i) e).2 with
      | notInserted => rw [step_localWrite_rejected s i e hout]; exact inv.ok k
      | inserted n =>
        rw [step_localWrite_accepted s i e n hout]
        simp only
        by_cases hk : k = i
        · subst hk; rw [upd_same]; exact put_ok (inv.ok k) e
        · rw [upd_other _ _ _ _ hk]; exact inv.ok k
    | deliver i e valid =>
      rw [step_deliver]
      split
      · simp only
        by_cases hk : k = i
        · subst hk; rw [upd_same]; exact put_ok (inv.ok k) e
        · rw [upd_other _ _ _ _ hk]; exact inv.ok k
      · exact inv.ok k
    | session i j =>
      rw [step_session]
      simp only
      by_cases hkj : k = j
      · subst hkj; rw [upd_same]; exact merge_ok _ _
      · rw [upd_other _ _ _ _ hkj]
        by_cases hki : k = i
        · subst hki; rw [upd_same]; exact merge_ok _ _
        · rw [upd_other _ _ _ _ hki]; exact inv.ok k
    | restart i => exact inv.ok k
  · -- nothing foreign
    intro k x hx
    cases σ with
    | localWrite i e =>
      cases hout : (put (s.st i) e).2 with
      | notInserted => rw [step_localWrite_rejected s i e hout] at hx ⊢; exact inv.sub k x hx
      | inserted n =>
        rw [step_localWrite_accepted s i e n hout] at hx ⊢
        simp only [written, List.map_cons, List.mem_cons] at hx ⊢
        by_cases hk : k = i
        · subst hk; rw [upd_same] at hx
          rcases put_sub (inv.ok k) e x hx with h | h
          · exact Or.inl h
          · exact Or.inr (inv.sub k x h)
        · rw [upd_other _ _ _ _ hk] at hx; exact Or.inr (inv.sub k x hx)
    | deliver i e valid =>
      rw [step_deliver] at hx ⊢
      split at hx
      · rename_i hc
        rw [if_pos hc]
        simp only at hx
        show x ∈ written s
        by_cases hk : k = i
        · subst hk; rw [upd_same] at hx
          rcases put_sub (inv.ok k) e x hx with h | h
          · rw [h]; exact hc.2
          · exact inv.sub k x h
        · rw [upd_other _ _ _ _ hk] at hx; exact inv.sub k x hx
      · rename_i hc
        rw [if_neg hc]; exact inv.sub k x hx
    | session i j =>
      rw [step_session] at hx ⊢
      simp only at hx
      show x ∈ written s
      have hm : x ∈ merge (s.st i) (s.st j) → x ∈ written s := by
        intro h
        rcases merge_sub _ _ x h with h | h
        · exact inv.sub i x h
        · exact inv.sub j x h
      by_cases hkj : k = j
      · subst hkj; rw [upd_same] at hx; exact hm hx
      · rw [upd_other _ _ _ _ hkj] at hx
        by_cases hki : k = i
        · subst hki; rw [upd_same] at hx; exact hm hx
        · rw [upd_other _ _ _ _ hki] at hx; exact inv.sub k x hx
    | restart i => exact inv.sub k x hx
  · -- every writer knows its own writes
    intro p hp
    cases σ with
    | localWrite i e =>
      cases hout : (put (s.st i) e).2 with
      | notInserted =>
        rw [step_localWrite_rejected s i e hout] at hp ⊢; exact inv.own p hp
      | inserted n =>
        have hmono := knowledge_is_monotone s inv (.localWrite i e)
        rw [step_localWrite_accepted s i e n hout] at hp hmono ⊢
        simp only [List.mem_cons] at hp
        rcases hp with hp | hp
        · subst hp
          show ∃ m ∈ upd s.st i (put (s.st i) e).1 i, dom m e
          rw [upd_same]; exact put_covers_new (inv.ok i) e
        · exact hmono p.1 p.2 (inv.own p hp)
    | deliver i e valid =>
      have hmono := knowledge_is_monotone s inv (.deliver i e valid)
      have hw : (step s (.deliver i e valid)).w = s.w := by rw [step_deliver]; split <;> rfl
      rw [hw] at hp
      exact hmono p.1 p.2 (inv.own p hp)
    | session i j =>
      have hmono := knowledge_is_monotone s inv (.session i j)
      exact hmono p.1 p.2 (inv.own p hp)
    | restart i => exact inv.own p hp

theorem inv_run (s : S) (inv : Inv s) (steps : List Step) : Inv (run s steps) := by
  induction steps generalizing s with
  | nil => exact inv
  | cons σ rest ih => exact ih (step s σ) (inv_step s inv σ)

theorem inv_reachable (hist : List Step) : Inv (run {} hist) := inv_run {} inv_init hist

/-- **No replica ever holds an entry that was not written by some replica.** -/
theorem no_foreign_entries (hist : List Step) (i : Nat) (x : Entry) (hx : x ∈ (run {} hist).st i) :
    x ∈ written (run {} hist) := (inv_reachable hist).sub i x hx

theorem w_step (s : S) (σ : Step) (p : Nat × Entry) (hp : p ∈ (step s σ).w) :
    p ∈ s.w ∨ σ = .localWrite p.1 p.2 := by
  cases σ with
  | localWrite i e =>
    cases hout : (put (s.st i) e).2 with
    | notInserted => rw [step_localWrite_rejected s i e hout] at hp; exact Or.inl hp
    | inserted n =>
      rw [step_localWrite_accepted s i e n hout] at hp
      simp only [List.mem_cons] at hp
      rcases hp with hp | hp
      · subst hp; exact Or.inr rfl
      · exact Or.inl hp
  | deliver i e valid =>
    have hw : (step s (.deliver i e valid)).w = s.w := by rw [step_deliver]; split <;> rfl
    rw [hw] at hp; exact Or.inl hp
  | session i j => exact Or.inl hp
  | restart i => exact Or.inl hp

/-- what counts as written is exactly what some replica's local write put there -/
theorem written_are_local_writes (s : S) (steps : List Step) (p : Nat × Entry) (hp : p ∈ (run s steps).w) :
    p ∈ s.w ∨ Step.localWrite p.1 p.2 ∈ steps := by
  induction steps generalizing s with
  | nil => exact Or.inl hp
  | cons σ rest ih =>
    rcases ih (step s σ) hp with h | h
    · rcases w_step s σ p h with h' | h'
      · exact Or.inl h'
      · exact Or.inr (by rw [h']; exact List.mem_cons_self)
    · exact Or.inr (List.mem_cons_of_mem _ h)

/-! ## the closing round -/

theorem spread_knows (s : S) (inv : Inv s) (p : Entry) (K : List Nat) (hK : ∀ k ∈ K, Knows s k p) (σ : Step) :
    ∀ k ∈ spread K σ, Knows (step s σ) k p := by
  intro k hk
  cases σ with
  | session a b =>
    simp only [spread] at hk
    split at hk
    · rename_i hab
      -- a or b knew p: after the session both do
      have hboth : (∃ m ∈ s.st a, dom m p) ∨ (∃ m ∈ s.st b, dom m p) := by
        rcases hab with h | h
        · exact Or.inl (hK a h)
        · exact Or.inr (hK b h)
      have hm := merge_covers (s.st a) (s.st b) p hboth
      simp only [List.mem_cons] at hk
      rcases hk with hk | hk | hk
      · subst hk
        rw [step_session]
        unfold Knows
        simp only
        by_cases hkb : k = b
        · subst hkb; rw [upd_same]; exact hm
        · rw [upd_other _ _ _ _ hkb, upd_same]; exact hm
      · subst hk
        rw [step_session]
        unfold Knows
        simp only
        rw [upd_same]; exact hm
      · exact knowledge_is_monotone s inv _ k p (hK k hk)
    · exact knowledge_is_monotone s inv _ k p (hK k hk)
  | localWrite i e => exact knowledge_is_monotone s inv _ k p (hK k hk)
  | deliver i e v => exact knowledge_is_monotone s inv _ k p (hK k hk)
  | restart i => exact knowledge_is_monotone s inv _ k p (hK k hk)

theorem reach_knows (s : S) (inv : Inv s) (p : Entry) (K : List Nat) (hK : ∀ k ∈ K, Knows s k p)
    (steps : List Step) : ∀ k ∈ reach K steps, Knows (run s steps) k p := by
  induction steps generalizing s K with
  | nil => exact hK
  | cons σ rest ih =>
    exact ih (step s σ) (inv_step s inv σ) (spread K σ) (spread_knows s inv p K hK σ)

theorem w_unchanged (s : S) (steps : List Step) (hq : ∀ σ ∈ steps, σ.isWrite = false) :
    (run s steps).w = s.w := by
  induction steps generalizing s with
  | nil => rfl
  | cons σ rest ih =>
    have h1 : (step s σ).w = s.w := by
      have := hq σ List.mem_cons_self
      cases σ with
      | localWrite i e => simp [Step.isWrite] at this
      | deliver i e v => rw [step_deliver]; split <;> rfl
      | session i j => rfl
      | restart i => rfl
    have := ih (step s σ) (fun σ' h => hq σ' (List.mem_cons_of_mem _ h))
    simp only [run, List.foldl_cons] at this ⊢
    rw [this, h1]

theorem mem_join (O : List Entry) (x : Entry) : x ∈ join O ↔ x ∈ O ∧ isMax O x := by
  unfold join
  simp [List.mem_filter]

/-- a replica that knows every written entry holds exactly the merge of what was written -/
theorem knows_all_iff_join (s : S) (inv : Inv s) (hpf : PayloadFunctional (written s)) (j : Nat)
    (hall : ∀ e ∈ written s, Knows s j e) (x : Entry) : x ∈ s.st j ↔ x ∈ join (written s) := by
  rw [mem_join]
  constructor
  · intro hx
    refine ⟨inv.sub j x hx, ?_⟩
    intro p hp hd
    obtain ⟨m, hm, hmd⟩ := hall p hp
    have hmx : m = x := (inv.ok j).anti m hm x hx (dom_trans hmd hd)
    subst hmx
    obtain ⟨hid, hts, hh⟩ := dom_antisymm hd hmd
    exact hpf p hp m (inv.sub j m hm) hid hts hh
  · rintro ⟨hx, hmax⟩
    obtain ⟨m, hm, hmd⟩ := hall x hx
    have : m = x := hmax m (inv.sub j m hm) hmd
    exact this ▸ hm

/-- **Eventual consistency.** After any history `hist`, let a closing round `closing` run in which
no replica writes (deliveries, cut sessions and restarts may still happen). If the complete
sessions of the closing round connect, in time order, every replica that has written to each of
the replicas `0 … n-1`, then each of these holds exactly the merge of all accepted local writes. -/
theorem closing_round_converges (n : Nat) (hist closing : List Step)
    (hq : ∀ σ ∈ closing, σ.isWrite = false)
    (hconn : ∀ p ∈ (run {} hist).w, ∀ j, j < n → j ∈ reach [p.1] closing)
    (hpf : PayloadFunctional (written (run {} hist))) :
    ∀ j, j < n → ∀ x, x ∈ (run {} (hist ++ closing)).st j ↔ x ∈ join (written (run {} hist)) := by
  intro j hj x
  have hrun : run {} (hist ++ closing) = run (run {} hist) closing := by simp [run, List.foldl_append]
  have inv0 := inv_reachable hist
  have inv1 : Inv (run (run {} hist) closing) := inv_run _ inv0 closing
  have hw : (run (run {} hist) closing).w = (run {} hist).w := w_unchanged _ closing hq
  have hwr : written (run (run {} hist) closing) = written (run {} hist) := by unfold written; rw [hw]
  rw [hrun, ← hwr]
  apply knows_all_iff_join _ inv1 (by rw [hwr]; exact hpf) j
  intro e he
  rw [hwr] at he
  obtain ⟨p, hp, hpe⟩ := List.mem_map.mp he
  have hk := reach_knows (run {} hist) inv0 p.2 [p.1]
    (by intro k hk; simp only [List.mem_singleton] at hk; subst hk; exact inv0.own p hp) closing j (hconn p hp j hj)
  rw [← hpe]; exact hk

/-- … and they all hold the same list of entries. -/
theorem closing_round_equal_states (n : Nat) (hist closing : List Step)
    (hq : ∀ σ ∈ closing, σ.isWrite = false)
    (hconn : ∀ p ∈ (run {} hist).w, ∀ j, j < n → j ∈ reach [p.1] closing)
    (hpf : PayloadFunctional (written (run {} hist))) :
    ∀ j k, j < n → k < n → (run {} (hist ++ closing)).st j = (run {} (hist ++ closing)).st k := by
  intro j k hj hk
  have inv := inv_reachable (hist ++ closing)
  apply sorted_ext (inv.ok j).sorted (inv.ok k).sorted
  intro x
  rw [closing_round_converges n hist closing hq hconn hpf j hj x,
      closing_round_converges n hist closing hq hconn hpf k hk x]

/-- the executable check of the connection hypothesis is sound -/
theorem connects_sound (n : Nat) (s : S) (closing : List Step)
    (h : connects n (s.w.map (·.1)) closing = true) :
    ∀ p ∈ s.w, ∀ j, j < n → j ∈ reach [p.1] closing := by
  intro p hp j hj
  unfold connects at h
  rw [List.all_eq_true] at h
  have h1 := h p.1 (List.mem_map.mpr ⟨p, hp, rfl⟩)
  rw [List.all_eq_true] at h1
  have h2 := h1 j (List.mem_range.mpr hj)
  simpa using h2


/-! ## a closing round that always connects: a spanning tree swept up and down -/

/-- sessions from the leaves towards the root: `m, m-1, …, 1`, each with its parent -/
def sweepUp (par : Nat → Nat) : Nat → List Step
  | 0 => []
  | k + 1 => .session (k + 1) (par (k + 1)) :: sweepUp par k

/-- sessions from the root towards the leaves: `1, 2, …, m`, each with its parent -/
def sweepDown (par : Nat → Nat) (m : Nat) : List Step :=
  (List.range m).map fun k => .session (par (k + 1)) (k + 1)

theorem spread_mono (K : List Nat) (σ : Step) (k : Nat) (hk : k ∈ K) : k ∈ spread K σ := by
  cases σ with
  | session a b =>
    simp only [spread]
    split
    · exact List.mem_cons_of_mem _ (List.mem_cons_of_mem _ hk)
    · exact hk
  | localWrite i e => exact hk
  | deliver i e v => exact hk
  | restart i => exact hk

theorem reach_mono (K : List Nat) (steps : List Step) (k : Nat) (hk : k ∈ K) : k ∈ reach K steps := by
  induction steps generalizing K with
  | nil => exact hk
  | cons σ rest ih => exact ih (spread K σ) (spread_mono K σ k hk)

theorem reach_append (K : List Nat) (a b : List Step) : reach K (a ++ b) = reach (reach K a) b := by
  simp [reach, List.foldl_append]

theorem reach_subset (K K' : List Nat) (h : ∀ k ∈ K, k ∈ K') (steps : List Step) :
    ∀ k ∈ reach K steps, k ∈ reach K' steps := by
  induction steps generalizing K K' with
  | nil => exact h
  | cons σ rest ih =>
    apply ih (spread K σ) (spread K' σ)
    intro k hk
    cases σ with
    | session a b =>
      simp only [spread] at hk ⊢
      split at hk
      · rename_i hab
        have hab' : a ∈ K' ∨ b ∈ K' := hab.imp (h a) (h b)
        rw [if_pos hab']
        simp only [List.mem_cons] at hk ⊢
        rcases hk with hk | hk | hk
        · exact Or.inl hk
        · exact Or.inr (Or.inl hk)
        · exact Or.inr (Or.inr (h k hk))
      · exact spread_mono K' (.session a b) k (h k hk)
    | localWrite i e => exact h k hk
    | deliver i e v => exact h k hk
    | restart i => exact h k hk

theorem sweepUp_reaches_root (par : Nat → Nat) (hpar : ∀ k, par (k + 1) ≤ k) (m : Nat) :
    ∀ (K : List Nat) (o : Nat), o ∈ K → o ≤ m → 0 ∈ reach K (sweepUp par m) := by
  induction m with
  | zero =>
    intro K o ho hle
    have : o = 0 := by omega
    subst this
    exact ho
  | succ m ih =>
    intro K o ho hle
    simp only [sweepUp, reach, List.foldl_cons]
    by_cases hom : o = m + 1
    · subst hom
      apply ih _ (par (m + 1)) _ (hpar m)
      simp [spread, ho]
    · exact ih _ o (spread_mono K _ o ho) (by omega)

theorem sweepDown_reaches_all (par : Nat → Nat) (hpar : ∀ k, par (k + 1) ≤ k) (m : Nat) :
    ∀ (K : List Nat), 0 ∈ K → ∀ j, j ≤ m → j ∈ reach K (sweepDown par m) := by
  induction m with
  | zero =>
    intro K h0 j hj
    have : j = 0 := by omega
    subst this
    exact reach_mono K _ 0 h0
  | succ m ih =>
    intro K h0 j hj
    have hsplit : sweepDown par (m + 1) = sweepDown par m ++ [.session (par (m + 1)) (m + 1)] := by
      simp [sweepDown, List.range_succ]
    rw [hsplit, reach_append]
    have hparent : par (m + 1) ∈ reach K (sweepDown par m) := ih K h0 _ (hpar m)
    simp only [reach, List.foldl_cons, List.foldl_nil, spread]
    have hp' : par (m + 1) ∈ List.foldl spread K (sweepDown par m) := hparent
    rw [if_pos (Or.inl hp')]
    by_cases hjm : j = m + 1
    · subst hjm
      simp
    · have : j ∈ reach K (sweepDown par m) := ih K h0 j (by omega)
      exact List.mem_cons_of_mem _ (List.mem_cons_of_mem _ this)

/-- sweeping any spanning tree (node `k+1` hangs below some node `≤ k`) from the leaves to the root
and back connects every replica to every replica -/
theorem tree_sweep_connects (par : Nat → Nat) (hpar : ∀ k, par (k + 1) ≤ k) (m o j : Nat)
    (ho : o ≤ m) (hj : j ≤ m) : j ∈ reach [o] (sweepUp par m ++ sweepDown par m) := by
  rw [reach_append]
  exact sweepDown_reaches_all par hpar m _ (sweepUp_reaches_root par hpar m [o] o (by simp) ho) j hj

theorem sweep_isQuiet (par : Nat → Nat) (m : Nat) :
    ∀ σ ∈ sweepUp par m ++ sweepDown par m, σ.isWrite = false := by
  intro σ hσ
  rcases List.mem_append.mp hσ with h | h
  · induction m with
    | zero => simp [sweepUp] at h
    | succ m ih =>
      simp only [sweepUp, List.mem_cons] at h
      rcases h with h | h
      · subst h; rfl
      · exact ih (List.mem_append_left _ h) h
  · simp only [sweepDown, List.mem_map] at h
    obtain ⟨k, _, hk⟩ := h
    subst hk; rfl

/-- **Eventual consistency of `m+1` replicas under a tree sweep**: whatever happened before, one
pass of complete sessions up and down any spanning tree leaves every replica with the merge of
all accepted local writes. -/
theorem tree_sweep_converges (par : Nat → Nat) (hpar : ∀ k, par (k + 1) ≤ k) (m : Nat) (hist : List Step)
    (hnodes : ∀ p ∈ (run {} hist).w, p.1 ≤ m)
    (hpf : PayloadFunctional (written (run {} hist))) :
    ∀ j, j ≤ m → ∀ x, x ∈ (run {} (hist ++ (sweepUp par m ++ sweepDown par m))).st j ↔
      x ∈ join (written (run {} hist)) := by
  intro j hj
  exact closing_round_converges (m + 1) hist _ (sweep_isQuiet par m)
    (fun p hp j' hj' => tree_sweep_connects par hpar m p.1 j' (hnodes p hp) (by omega)) hpf j (by omega)

/-- one complete session is in general *not* enough along a path: the closing round must connect
in time order (the hypothesis is not vacuous, and not dispensable) -/
example : connects 3 [2] [.session 0 1, .session 1 2] = false ∧
    connects 3 [0, 1, 2] [.session 2 1, .session 1 0, .session 0 1, .session 1 2] = true := by decide

/-- a rejected local write was already known to its replica: it is not part of `w` and the merge
loses nothing by that -/
theorem rejected_write_already_known (s : S) (i : Nat) (e : Entry)
    (h : (put (s.st i) e).2 = .notInserted) : Knows s i e ∧ step s (.localWrite i e) = s := by
  refine ⟨?_, step_localWrite_rejected s i e h⟩
  have := (put_rejected_iff (s.st i) e).mp h
  exact this


/-- the hypotheses are satisfiable and the conclusion is not trivial: three replicas, a child entry
written at replica 0, a newer deletion marker above it written at replica 2 (which never saw the
child), a late duplicate delivery of the child to replica 2, a tree sweep: everybody ends with the
marker alone -/
example :
    let ns : Bytes := [1]
    let au : Bytes := [2]
    let child : Entry := { ns := ns, author := au, key := [97, 98], ts := 5, len := 1, hash := [1] }
    let marker : Entry := { ns := ns, author := au, key := [97], ts := 10, len := 0, hash := Entry.emptyHash }
    let hist := [Step.localWrite 0 child, .localWrite 2 marker, .deliver 1 child true, .deliver 2 child true,
                 .deliver 1 child true, .restart 1]
    let par : Nat → Nat := fun _ => 0
    let fin := run {} (hist ++ (sweepUp par 2 ++ sweepDown par 2))
    written (run {} hist) = [marker, child] ∧ join (written (run {} hist)) = [marker] ∧
    fin.st 0 = [marker] ∧ fin.st 1 = [marker] ∧ fin.st 2 = [marker] := by decide

end Swarm
