import DocsModel.Props.C11
/-!
# C11 (continued) — at most one session in progress, for every schedule

The node with the smaller id accepts a request only when its slot is free (while dialling it
declines, expecting its own request to win), and dials only when its slot is free. Hence it has at
most one live task at any time, and its slot says exactly which. Every session in progress has a
live end at that node — so there is at most one. (A session is in progress until either end has
finished it.)
-/

namespace Coord

/-- the slot of the smaller node describes its live tasks exactly -/
structure SmallInv (x : Node) : Prop where
  idle : x.st = .idle → x.ctasks = [] ∧ x.atasks = []
  conn : x.st = .conn → x.ctasks.length = 1 ∧ x.atasks = []
  acc : x.st = .acc → x.atasks.length = 1 ∧ x.ctasks = []

/-- node `x` holds a live end of session `sid` -/
def serves (x : Node) (sid : Nat) : Prop := sid ∈ x.atasks ∨ ∃ t ∈ x.ctasks, t.phase = .inSession sid

theorem serves_unique (x : Node) (h : SmallInv x) (a b : Nat) (ha : serves x a) (hb : serves x b) : a = b := by
  cases hst : x.st with
  | idle =>
    obtain ⟨h1, h2⟩ := h.idle hst
    rcases ha with ha | ⟨t, ht, _⟩
    · rw [h2] at ha; cases ha
    · rw [h1] at ht; cases ht
  | conn =>
    obtain ⟨h1, h2⟩ := h.conn hst
    rcases ha with ha | ⟨t, ht, hta⟩
    · rw [h2] at ha; cases ha
    · rcases hb with hb | ⟨u, hu, hub⟩
      · rw [h2] at hb; cases hb
      · match hc : x.ctasks, h1 with
        | [c], _ =>
          rw [hc] at ht hu
          simp at ht hu
          subst ht; subst hu
          rw [hta] at hub
          cases hub; rfl
  | acc =>
    obtain ⟨h1, h2⟩ := h.acc hst
    rcases ha with ha | ⟨t, ht, _⟩
    · rcases hb with hb | ⟨u, hu, _⟩
      · match hc : x.atasks, h1 with
        | [c], _ =>
          rw [hc] at ha hb
          simp at ha hb
          rw [ha, hb]
      · rw [h2] at hu; cases hu
    · rw [h2] at ht; cases ht

theorem serves_none_of_no_tasks (x : Node) (h1 : x.ctasks = []) (h2 : x.atasks = []) (sid : Nat) : ¬ serves x sid := by
  rintro (h | ⟨t, ht, _⟩)
  · rw [h2] at h; cases h
  · rw [h1] at ht; cases ht

/-! ### node-level lemmas for the smaller node -/

theorem small_startConnect (x : Node) (report : Bool) (reason : Nat) (h : SmallInv x) :
    SmallInv (x.startConnect report reason) ∧
    (∀ sid, serves (x.startConnect report reason) sid → serves x sid) := by
  unfold Node.startConnect
  split
  · exact ⟨h, fun _ hs => hs⟩
  · split
    · rename_i hidle
      obtain ⟨h1, h2⟩ := h.idle hidle
      refine ⟨⟨(by intro hc; cases hc), (by intro _; simp [h1, h2]), (by intro hc; cases hc)⟩, ?_⟩
      intro sid hs
      rcases hs with hs | ⟨t, ht, hp⟩
      · simp only [h2] at hs; cases hs
      · simp only [h1, List.nil_append, List.mem_singleton] at ht
        subst ht; cases hp
    · split
      · exact ⟨⟨h.idle, h.conn, h.acc⟩, fun _ hs => hs⟩
      · exact ⟨h, fun _ hs => hs⟩

/-- a node without tasks whose slot is freed (and which possibly dials again) -/
theorem small_fresh (x : Node) (h1 : x.ctasks = []) (h2 : x.atasks = []) :
    (SmallInv ({ x with st := .idle } : Node)) ∧
    (∀ (y : Node), y = ({ x with st := .idle } : Node).startConnect false 3 →
      SmallInv ({ y with followUps := y.followUps + 1 } : Node) ∧
      ∀ sid, ¬ serves ({ y with followUps := y.followUps + 1 } : Node) sid) := by
  have hbase : SmallInv ({ x with st := .idle } : Node) :=
    ⟨fun _ => ⟨h1, h2⟩, (by intro hc; cases hc), (by intro hc; cases hc)⟩
  refine ⟨hbase, ?_⟩
  intro y hy
  obtain ⟨hs, hserve⟩ := small_startConnect _ false 3 hbase
  subst hy
  refine ⟨⟨hs.idle, hs.conn, hs.acc⟩, ?_⟩
  intro sid hsv
  have : serves (({ x with st := .idle } : Node).startConnect false 3) sid := hsv
  exact serves_none_of_no_tasks _ h1 h2 sid (hserve sid this)

theorem small_finish_no_tasks (x : Node) (h1 : x.ctasks = []) (h2 : x.atasks = []) :
    SmallInv x.finish ∧ ∀ sid, ¬ serves x.finish sid := by
  obtain ⟨hbase, hre⟩ := small_fresh x h1 h2
  unfold Node.finish
  split
  · rename_i hidle
    exact ⟨⟨fun _ => ⟨h1, h2⟩, (by intro hc; rw [hidle] at hc; cases hc), (by intro hc; rw [hidle] at hc; cases hc)⟩,
      serves_none_of_no_tasks x h1 h2⟩
  · split
    · exact hre _ rfl
    · exact ⟨hbase, serves_none_of_no_tasks _ h1 h2⟩

theorem small_connectDeclined_no_tasks (x : Node) (h1 : x.ctasks = []) (h2 : x.atasks = []) (hst : x.st = .conn) :
    SmallInv x.connectDeclined ∧ ∀ sid, ¬ serves x.connectDeclined sid := by
  obtain ⟨hbase, hre⟩ := small_fresh x h1 h2
  unfold Node.connectDeclined
  simp only [hst, if_true]
  split
  · exact hre _ rfl
  · exact ⟨hbase, serves_none_of_no_tasks _ h1 h2⟩

/-- the smaller node's only connect task: erasing it leaves no task -/
theorem small_has_ctask (x : Node) (h : SmallInv x) (i : Nat) (t : CTask) (ht : x.ctasks[i]? = some t) :
    x.st = .conn ∧ (x.eraseC i).ctasks = [] ∧ (x.eraseC i).atasks = [] ∧ x.ctasks = [t] := by
  have hne : x.ctasks ≠ [] := by intro hnil; rw [hnil] at ht; cases ht
  cases hst : x.st with
  | idle => exact absurd (h.idle hst).1 hne
  | acc => exact absurd (h.acc hst).2 hne
  | conn =>
    obtain ⟨h1, h2⟩ := h.conn hst
    match hc : x.ctasks, h1 with
    | [c], _ =>
      rw [hc] at ht
      cases i with
      | zero =>
        simp at ht; subst ht
        exact ⟨rfl, by simp [Node.eraseC, hc], by simp [Node.eraseC, h2], rfl⟩
      | succ j => simp at ht

theorem small_has_atask (x : Node) (h : SmallInv x) (sid : Nat) (hs : x.atasks.contains sid = true) :
    x.st = .acc ∧ (x.eraseA sid).ctasks = [] ∧ (x.eraseA sid).atasks = [] ∧ x.atasks = [sid] := by
  have hmem : sid ∈ x.atasks := by simpa using hs
  have hne : x.atasks ≠ [] := by intro hnil; rw [hnil] at hmem; cases hmem
  cases hst : x.st with
  | idle => exact absurd (h.idle hst).2 hne
  | conn => exact absurd (h.conn hst).2 hne
  | acc =>
    obtain ⟨h1, h2⟩ := h.acc hst
    match hc : x.atasks, h1 with
    | [c], _ =>
      rw [hc] at hmem
      simp at hmem
      subst hmem
      exact ⟨rfl, by simp [Node.eraseA, h2], by simp [Node.eraseA, hc], rfl⟩

theorem small_setPhase (x : Node) (i : Nat) (p : CPhase) (h : SmallInv x) : SmallInv (x.setPhase i p) := by
  refine ⟨?_, ?_, ?_⟩
  · intro hst
    obtain ⟨h1, h2⟩ := h.idle hst
    exact ⟨by simp [Node.setPhase, Coord.setPhase, h1], h2⟩
  · intro hst
    obtain ⟨h1, h2⟩ := h.conn hst
    exact ⟨by simpa [Node.setPhase, Coord.setPhase] using h1, h2⟩
  · intro hst
    obtain ⟨h1, h2⟩ := h.acc hst
    exact ⟨h1, by simp [Node.setPhase, Coord.setPhase, h2]⟩

/-! ### the system invariant -/

structure OneInv (s : Sys) : Prop where
  small : SmallInv (s.node (!s.bGreater))
  served : ∀ σ ∈ s.sessions, σ.initDone = false → σ.accDone = false → serves (s.node (!s.bGreater)) σ.id
  fresh : ∀ σ ∈ s.sessions, σ.id < s.nextSid
  nodup : s.sessions.Pairwise (fun a b => a.id ≠ b.id)

theorem greater_small (s : Sys) : s.greater (!s.bGreater) = false := by
  cases h : s.bGreater <;> simp [Sys.greater, h]

theorem bGreater_upd (s : Sys) (n : Bool) (f : Node → Node) : (s.upd n f).bGreater = s.bGreater := by
  cases n <;> rfl
theorem sessions_upd (s : Sys) (n : Bool) (f : Node → Node) : (s.upd n f).sessions = s.sessions := by
  cases n <;> rfl
theorem nextSid_upd (s : Sys) (n : Bool) (f : Node → Node) : (s.upd n f).nextSid = s.nextSid := by
  cases n <;> rfl

/-- a list whose elements have pairwise different ids but all the same id has at most one element -/
theorem length_le_one_of_same_id (l : List Session) (hpw : l.Pairwise (fun a b => a.id ≠ b.id))
    (hsame : ∀ a ∈ l, ∀ b ∈ l, a.id = b.id) : l.length ≤ 1 := by
  match l, hpw with
  | [], _ => simp
  | [_], _ => simp
  | a :: b :: rest, hpw =>
    exfalso
    have h1 := (List.pairwise_cons.mp hpw).1 b (by simp)
    exact h1 (hsame a (by simp) b (by simp))

/-- at most one session is in progress in a state satisfying the invariant -/
theorem oneInv_at_most_one (s : Sys) (h : OneInv s) : (inProgress s).length ≤ 1 := by
  unfold inProgress
  apply length_le_one_of_same_id
  · exact h.nodup.sublist List.filter_sublist
  · intro a ha b hb
    obtain ⟨ha1, ha2⟩ := List.mem_filter.mp ha
    obtain ⟨hb1, hb2⟩ := List.mem_filter.mp hb
    simp only [Bool.and_eq_true, Bool.not_eq_true'] at ha2 hb2
    exact serves_unique _ h.small a.id b.id (h.served a ha1 ha2.1 ha2.2) (h.served b hb1 hb2.1 hb2.2)

theorem markDone_mem (l : List Session) (sid : Nat) (e : Bool) (σ : Session) (h : σ ∈ markDone l sid e) :
    ∃ τ ∈ l, τ.id = σ.id ∧ (τ.id ≠ sid → σ = τ) ∧
      (τ.id = sid → (if e then σ.initDone = true else σ.accDone = true)) := by
  unfold markDone at h
  obtain ⟨τ, hτ, hmap⟩ := List.mem_map.mp h
  refine ⟨τ, hτ, ?_, ?_, ?_⟩
  · subst hmap; split <;> (try split) <;> rfl
  · intro hne; subst hmap; simp [hne]
  · intro he; subst hmap; cases e <;> simp [he]

theorem markDone_pairwise (l : List Session) (sid : Nat) (e : Bool) (h : l.Pairwise (fun a b => a.id ≠ b.id)) :
    (markDone l sid e).Pairwise (fun a b => a.id ≠ b.id) := by
  unfold markDone
  rw [List.pairwise_map]
  apply List.Pairwise.imp _ h
  intro a b hab
  have ida : (if a.id = sid then (if e then { a with initDone := true } else { a with accDone := true }) else a).id = a.id := by
    split <;> (try split) <;> rfl
  have idb : (if b.id = sid then (if e then { b with initDone := true } else { b with accDone := true }) else b).id = b.id := by
    split <;> (try split) <;> rfl
  rw [ida, idb]; exact hab

end Coord

namespace Coord

theorem serves_startConnect_mono (x : Node) (report : Bool) (reason : Nat) (sid : Nat) (h : serves x sid) :
    serves (x.startConnect report reason) sid := by
  unfold Node.startConnect
  split
  · exact h
  · split
    · rcases h with h | ⟨t, ht, hp⟩
      · exact Or.inl h
      · exact Or.inr ⟨t, List.mem_append_left _ ht, hp⟩
    · split <;> exact h

theorem upd_node_small_of_ne (s : Sys) (n : Bool) (f : Node → Node) (hne : n ≠ !s.bGreater) :
    (s.upd n f).node (!(s.upd n f).bGreater) = s.node (!s.bGreater) := by
  rw [bGreater_upd]
  have : (!s.bGreater) = !n := by cases n <;> cases hb : s.bGreater <;> simp_all
  rw [this, node_upd_other]

/-- updating only the node with the greater id keeps the invariant -/
theorem oneInv_upd_big (s : Sys) (n : Bool) (f : Node → Node) (hne : n ≠ !s.bGreater) (h : OneInv s) :
    OneInv (s.upd n f) := by
  refine ⟨?_, ?_, ?_, ?_⟩
  · rw [upd_node_small_of_ne s n f hne]; exact h.small
  · rw [upd_node_small_of_ne s n f hne, sessions_upd]; exact h.served
  · rw [sessions_upd, nextSid_upd]; exact h.fresh
  · rw [sessions_upd]; exact h.nodup

/-- updating the smaller node with a function that keeps its invariant and what it serves -/
theorem oneInv_upd_small (s : Sys) (f : Node → Node) (h : OneInv s)
    (hf : SmallInv (f (s.node (!s.bGreater))))
    (hserve : ∀ sid, serves (s.node (!s.bGreater)) sid → serves (f (s.node (!s.bGreater))) sid) :
    OneInv (s.upd (!s.bGreater) f) := by
  refine ⟨?_, ?_, ?_, ?_⟩
  · rw [bGreater_upd, node_upd_same]; exact hf
  · rw [bGreater_upd, node_upd_same, sessions_upd]
    intro σ hσ h1 h2
    exact hserve _ (h.served σ hσ h1 h2)
  · rw [sessions_upd, nextSid_upd]; exact h.fresh
  · rw [sessions_upd]; exact h.nodup

/-- when the smaller node serves nothing, no session is in progress -/
theorem no_live_of_serves_nothing (s : Sys) (h : OneInv s) (hn : ∀ sid, ¬ serves (s.node (!s.bGreater)) sid) :
    ∀ σ ∈ s.sessions, ¬ (σ.initDone = false ∧ σ.accDone = false) := by
  intro σ hσ ⟨h1, h2⟩
  exact hn _ (h.served σ hσ h1 h2)

/-- replacing the smaller node when no session is in progress -/
theorem oneInv_upd_small_idle (s : Sys) (f : Node → Node) (h : OneInv s)
    (hf : SmallInv (f (s.node (!s.bGreater))))
    (hnone : ∀ σ ∈ s.sessions, ¬ (σ.initDone = false ∧ σ.accDone = false)) :
    OneInv (s.upd (!s.bGreater) f) := by
  refine ⟨?_, ?_, ?_, ?_⟩
  · rw [bGreater_upd, node_upd_same]; exact hf
  · rw [sessions_upd]
    intro σ hσ h1 h2
    exact absurd ⟨h1, h2⟩ (hnone σ hσ)
  · rw [sessions_upd, nextSid_upd]; exact h.fresh
  · rw [sessions_upd]; exact h.nodup

/-- marking a session's end as finished keeps the invariant -/
theorem oneInv_markDone (s : Sys) (sid : Nat) (e : Bool) (h : OneInv s) :
    OneInv { s with sessions := markDone s.sessions sid e } := by
  refine ⟨h.small, ?_, ?_, markDone_pairwise _ _ _ h.nodup⟩
  · intro σ hσ h1 h2
    obtain ⟨τ, hτ, hid, hne, heq⟩ := markDone_mem _ _ _ _ hσ
    by_cases hs : τ.id = sid
    · have := heq hs
      cases e <;> simp_all
    · have := hne hs
      subst this
      exact h.served σ hτ h1 h2
  · intro σ hσ
    obtain ⟨τ, hτ, hid, _, _⟩ := markDone_mem _ _ _ _ hσ
    rw [← hid]; exact h.fresh τ hτ

/-- … and when the smaller node no longer serves anything, only the marked session may have been live -/
theorem oneInv_small_done (s : Sys) (f : Node → Node) (sid : Nat) (e : Bool) (h : OneInv s)
    (hf : SmallInv (f (s.node (!s.bGreater))))
    (honly : ∀ sid', serves (s.node (!s.bGreater)) sid' → sid' = sid) :
    OneInv { s.upd (!s.bGreater) f with sessions := markDone (s.upd (!s.bGreater) f).sessions sid e } := by
  refine ⟨?_, ?_, ?_, ?_⟩
  · show SmallInv ((s.upd (!s.bGreater) f).node (!(s.upd (!s.bGreater) f).bGreater))
    rw [bGreater_upd, node_upd_same]; exact hf
  · intro σ hσ h1 h2
    exfalso
    have hσ' : σ ∈ markDone s.sessions sid e := by
      have : (s.upd (!s.bGreater) f).sessions = s.sessions := sessions_upd _ _ _
      simpa [this] using hσ
    obtain ⟨τ, hτ, hid, hne, heq⟩ := markDone_mem _ _ _ _ hσ'
    by_cases hs : τ.id = sid
    · have := heq hs
      cases e <;> simp_all
    · have := hne hs
      subst this
      exact hs (honly _ (h.served σ hτ h1 h2))
  · intro σ hσ
    have hσ' : σ ∈ markDone s.sessions sid e := by
      have : (s.upd (!s.bGreater) f).sessions = s.sessions := sessions_upd _ _ _
      simpa [this] using hσ
    obtain ⟨τ, hτ, hid, _, _⟩ := markDone_mem _ _ _ _ hσ'
    show σ.id < (s.upd (!s.bGreater) f).nextSid
    rw [nextSid_upd, ← hid]; exact h.fresh τ hτ
  · have : (s.upd (!s.bGreater) f).sessions = s.sessions := sessions_upd _ _ _
    simp only [this]
    exact markDone_pairwise _ _ _ h.nodup

theorem firstRequesting_spec (l : List CTask) (i : Nat) (h : firstRequesting l = some i) :
    ∃ t, l[i]? = some t ∧ t.phase = .requesting := by
  unfold firstRequesting at h
  have hlt := (List.findIdx?_eq_some_iff_getElem.mp h).1
  have hp := (List.findIdx?_eq_some_iff_getElem.mp h).2.1
  refine ⟨l[i], by simp [hlt], ?_⟩
  simpa using hp

/-- the smaller node whose only connect task is still requesting (or was declined / lost) serves nothing -/
theorem small_serves_nothing_of_ctask (x : Node) (h : SmallInv x) (i : Nat) (t : CTask) (ht : x.ctasks[i]? = some t)
    (hp : ∀ sid, t.phase ≠ .inSession sid) : ∀ sid, ¬ serves x sid := by
  obtain ⟨hst, _, _, hct⟩ := small_has_ctask x h i t ht
  obtain ⟨_, hat⟩ := h.conn hst
  intro sid hs
  rcases hs with hs | ⟨u, hu, hup⟩
  · rw [hat] at hs; cases hs
  · rw [hct] at hu
    simp at hu
    subst hu
    exact hp sid hup

end Coord

namespace Coord

theorem small_setPhase_serves (x : Node) (i : Nat) (p : CPhase) (sid : Nat)
    (hnone : ∀ sid', ¬ serves x sid') : serves (x.setPhase i p) sid → (∃ t, x.ctasks[i]? = some t) ∧ p = .inSession sid := by
  intro hs
  rcases hs with hs | ⟨u, hu, hup⟩
  · exact absurd (Or.inl hs) (hnone sid)
  · simp only [Node.setPhase, Coord.setPhase, List.mem_mapIdx] at hu
    obtain ⟨j, hj, hju⟩ := hu
    by_cases hji : j = i
    · subst hji
      simp only [if_true] at hju
      subst hju
      exact ⟨⟨x.ctasks[j], by simp [hj]⟩, hup⟩
    · simp only [hji, if_false] at hju
      subst hju
      exact absurd (Or.inr ⟨x.ctasks[j], List.getElem_mem hj, hup⟩) (hnone sid)

/-- **Every step keeps the invariant** (repaired handlers). -/
theorem step_oneInv (s : Sys) (a : Action) (h : OneInv s) : OneInv (step true s a) := by
  -- m = the node with the smaller id
  have hg := greater_small s
  cases a with
  | dial n report =>
    simp only [step]
    by_cases hn : n = !s.bGreater
    · subst hn
      exact oneInv_upd_small s _ h (small_startConnect _ _ _ h.small).1
        (fun sid hs => serves_startConnect_mono _ _ _ sid hs)
    · exact oneInv_upd_big s n _ hn h
  | completeDeclined n =>
    simp only [step]
    by_cases hn : n = !s.bGreater
    · subst hn
      exact oneInv_upd_small s _ h ⟨h.small.idle, h.small.conn, h.small.acc⟩ (fun _ hs => hs)
    · exact oneInv_upd_big s n _ hn h
  | loseReq n =>
    simp only [step]
    split
    · exact h
    · rename_i i hi
      by_cases hn : n = !s.bGreater
      · subst hn
        obtain ⟨t, ht, hp⟩ := firstRequesting_spec _ _ hi
        have hnone := small_serves_nothing_of_ctask _ h.small i t ht (by intro sid hc; rw [hp] at hc; cases hc)
        exact oneInv_upd_small_idle s _ h (small_setPhase _ _ _ h.small) (no_live_of_serves_nothing s h hnone)
      · exact oneInv_upd_big s n _ hn h
  | completeAccept n sid =>
    simp only [step]
    split
    · rename_i hc
      by_cases hn : n = !s.bGreater
      · subst hn
        obtain ⟨hst, h1, h2, hat⟩ := small_has_atask _ h.small sid hc
        apply oneInv_small_done s _ sid false h (small_finish_no_tasks _ h1 h2).1
        intro sid' hs'
        have hs : serves (s.node (!s.bGreater)) sid := Or.inl (by rw [hat]; simp)
        exact serves_unique _ h.small sid' sid hs' hs
      · exact oneInv_markDone _ sid false (oneInv_upd_big s n _ hn h)
    · exact h
  | completeConnect n i =>
    simp only [step]
    split
    · exact h
    · rename_i t ht
      by_cases hn : n = !s.bGreater
      · subst hn
        obtain ⟨hst, h1, h2, hct⟩ := small_has_ctask _ h.small i t ht
        split
        · exact h
        · rename_i hp
          simp only [if_true]
          have hnone := small_serves_nothing_of_ctask _ h.small i t ht (by intro sid hc; rw [hp] at hc; cases hc)
          have hst' : (Node.eraseC (s.node (!s.bGreater)) i).st = .conn := hst
          exact oneInv_upd_small_idle s _ h (small_connectDeclined_no_tasks _ h1 h2 hst').1
            (no_live_of_serves_nothing s h hnone)
        · rename_i hp
          have hnone := small_serves_nothing_of_ctask _ h.small i t ht (by intro sid hc; rw [hp] at hc; cases hc)
          exact oneInv_upd_small_idle s _ h (small_finish_no_tasks _ h1 h2).1 (no_live_of_serves_nothing s h hnone)
        · rename_i hp
          have hnone := small_serves_nothing_of_ctask _ h.small i t ht (by intro sid hc; rw [hp] at hc; cases hc)
          exact oneInv_upd_small_idle s _ h (small_finish_no_tasks _ h1 h2).1 (no_live_of_serves_nothing s h hnone)
        · rename_i sid hp
          apply oneInv_small_done s _ sid true h (small_finish_no_tasks _ h1 h2).1
          intro sid' hs'
          have hs : serves (s.node (!s.bGreater)) sid := Or.inr ⟨t, by rw [hct]; simp, hp⟩
          exact serves_unique _ h.small sid' sid hs' hs
      · split
        · exact h
        · simp only [if_true]; exact oneInv_upd_big s n _ hn h
        · exact oneInv_upd_big s n _ hn h
        · exact oneInv_upd_big s n _ hn h
        · rename_i sid _
          exact oneInv_markDone _ sid true (oneInv_upd_big s n _ hn h)
  | deliverReq n =>
    simp only [step]
    split
    · exact h
    · rename_i i hi
      obtain ⟨t, ht, hp⟩ := firstRequesting_spec _ _ hi
      split
      · -- accepted: a new session
        rename_i hdec
        -- common: ids stay fresh and distinct
        have fresh' : ∀ (ss : List Session), ss = s.sessions ++ [{ id := s.nextSid, init := n }] →
            (∀ σ ∈ ss, σ.id < s.nextSid + 1) ∧ ss.Pairwise (fun a b => a.id ≠ b.id) := by
          intro ss hss
          subst hss
          constructor
          · intro σ hσ
            rcases List.mem_append.mp hσ with hσ | hσ
            · exact Nat.lt_succ_of_lt (h.fresh σ hσ)
            · simp at hσ; subst hσ; exact Nat.lt_succ_self _
          · apply List.pairwise_append.mpr
            refine ⟨h.nodup, by simp, ?_⟩
            intro a ha b hb
            simp at hb; subst hb
            exact Nat.ne_of_lt (h.fresh a ha)
        by_cases hn : n = !s.bGreater
        · -- the smaller node is the initiator: its only task is this request
          subst hn
          have hnone := small_serves_nothing_of_ctask _ h.small i t ht (by intro sid hc; rw [hp] at hc; cases hc)
          have hnolive := no_live_of_serves_nothing s h hnone
          have hbig : (!(!s.bGreater)) ≠ !s.bGreater := by cases s.bGreater <;> simp
          have h1 : OneInv (s.upd (!(!s.bGreater)) (·.accept s.nextSid)) := oneInv_upd_big s _ _ hbig h
          have hnode : (s.upd (!(!s.bGreater)) (·.accept s.nextSid)).node (!s.bGreater) = s.node (!s.bGreater) := by
            have := node_upd_other s (!(!s.bGreater)) (·.accept s.nextSid)
            simpa using this
          have hbg : (s.upd (!(!s.bGreater)) (·.accept s.nextSid)).bGreater = s.bGreater := bGreater_upd _ _ _
          refine ⟨?_, ?_, ?_, ?_⟩
          · show SmallInv (((s.upd (!(!s.bGreater)) (·.accept s.nextSid)).upd (!s.bGreater) _).node (!((s.upd (!(!s.bGreater)) (·.accept s.nextSid)).upd (!s.bGreater) _).bGreater))
            rw [bGreater_upd, hbg, node_upd_same, hnode]
            exact small_setPhase _ _ _ h.small
          · intro σ hσ hd1 hd2
            show serves (((s.upd (!(!s.bGreater)) (·.accept s.nextSid)).upd (!s.bGreater) _).node (!((s.upd (!(!s.bGreater)) (·.accept s.nextSid)).upd (!s.bGreater) _).bGreater)) σ.id
            rw [bGreater_upd, hbg, node_upd_same, hnode]
            have hσ' : σ ∈ s.sessions ++ [{ id := s.nextSid, init := !s.bGreater }] := by
              simpa [sessions_upd] using hσ
            rcases List.mem_append.mp hσ' with hσ' | hσ'
            · exact absurd ⟨hd1, hd2⟩ (hnolive σ hσ')
            · simp at hσ'; subst hσ'
              refine Or.inr ⟨{ t with phase := .inSession s.nextSid }, ?_, rfl⟩
              simp only [Node.setPhase, Coord.setPhase, List.mem_mapIdx]
              have hlt : i < (s.node (!s.bGreater)).ctasks.length := by
                rcases Nat.lt_or_ge i (s.node (!s.bGreater)).ctasks.length with hl | hl
                · exact hl
                · rw [List.getElem?_eq_none hl] at ht; cases ht
              refine ⟨i, hlt, ?_⟩
              have : (s.node (!s.bGreater)).ctasks[i] = t := by
                have := List.getElem?_eq_getElem hlt
                rw [ht] at this; exact (Option.some.inj this).symm
              simp [this]
          · intro σ hσ
            have hσ' : σ ∈ s.sessions ++ [{ id := s.nextSid, init := !s.bGreater }] := by
              simpa [sessions_upd] using hσ
            have := (fresh' _ rfl).1 σ hσ'
            simpa [nextSid_upd] using this
          · have := (fresh' _ rfl).2
            simpa [sessions_upd] using this
        · -- the smaller node is the acceptor: it accepts only when idle
          have hm : (!n) = !s.bGreater := by cases n <;> cases hb : s.bGreater <;> simp_all
          have hidle : (s.node (!n)).st = .idle := by
            rw [hm, hg] at hdec
            unfold Node.acceptDecision at hdec
            rw [hm]
            cases hst : (s.node (!s.bGreater)).st with
            | idle => rfl
            | conn =>
              rw [hst] at hdec
              simp only [Bool.false_eq_true, if_false] at hdec
              split at hdec <;> cases hdec
            | acc =>
              rw [hst] at hdec
              simp only at hdec
              split at hdec <;> cases hdec
          have hno := h.small.idle (by rw [← hm]; exact hidle)
          have hnone : ∀ sid, ¬ serves (s.node (!s.bGreater)) sid := serves_none_of_no_tasks _ hno.1 hno.2
          have hnolive := no_live_of_serves_nothing s h hnone
          have hacc : SmallInv ((s.node (!s.bGreater)).accept s.nextSid) :=
            ⟨(by intro hc; cases hc), (by intro hc; cases hc), (by intro _; simp [Node.accept, hno.1, hno.2])⟩
          have hnode1 : ((s.upd (!n) (·.accept s.nextSid)).upd n (·.setPhase i (.inSession s.nextSid))).node (!s.bGreater)
              = (s.node (!s.bGreater)).accept s.nextSid := by
            rw [← hm]
            have := node_upd_other (s.upd (!n) (·.accept s.nextSid)) n (·.setPhase i (.inSession s.nextSid))
            rw [this, node_upd_same]
          refine ⟨?_, ?_, ?_, ?_⟩
          · show SmallInv (((s.upd (!n) (·.accept s.nextSid)).upd n _).node (!((s.upd (!n) (·.accept s.nextSid)).upd n _).bGreater))
            rw [bGreater_upd, bGreater_upd, hnode1]
            exact hacc
          · intro σ hσ hd1 hd2
            show serves (((s.upd (!n) (·.accept s.nextSid)).upd n _).node (!((s.upd (!n) (·.accept s.nextSid)).upd n _).bGreater)) σ.id
            rw [bGreater_upd, bGreater_upd, hnode1]
            have hσ' : σ ∈ s.sessions ++ [{ id := s.nextSid, init := n }] := by
              simpa [sessions_upd] using hσ
            rcases List.mem_append.mp hσ' with hσ' | hσ'
            · exact absurd ⟨hd1, hd2⟩ (hnolive σ hσ')
            · simp at hσ'; subst hσ'
              exact Or.inl (by simp [Node.accept])
          · intro σ hσ
            have hσ' : σ ∈ s.sessions ++ [{ id := s.nextSid, init := n }] := by
              simpa [sessions_upd] using hσ
            have := (fresh' _ rfl).1 σ hσ'
            simpa [nextSid_upd] using this
          · have := (fresh' _ rfl).2
            simpa [sessions_upd] using this
      · -- declined
        rename_i already hdec
        by_cases hn : n = !s.bGreater
        · subst hn
          have hbig : (!(!s.bGreater)) ≠ !s.bGreater := by cases s.bGreater <;> simp
          have h1 : OneInv (s.upd (!(!s.bGreater)) (·.addDeclined already)) := oneInv_upd_big s _ _ hbig h
          have hnode : (s.upd (!(!s.bGreater)) (·.addDeclined already)).node (!s.bGreater) = s.node (!s.bGreater) := by
            have := node_upd_other s (!(!s.bGreater)) (·.addDeclined already)
            simpa using this
          have hbg : (s.upd (!(!s.bGreater)) (·.addDeclined already)).bGreater = s.bGreater := bGreater_upd _ _ _
          have hnone := small_serves_nothing_of_ctask _ h.small i t ht (by intro sid hc; rw [hp] at hc; cases hc)
          have := oneInv_upd_small_idle (s.upd (!(!s.bGreater)) (·.addDeclined already))
            (·.setPhase i (.declined already)) h1
            (by rw [hbg, hnode]; exact small_setPhase _ _ _ h.small)
            (by rw [sessions_upd]; exact no_live_of_serves_nothing s h hnone)
          rw [hbg] at this
          exact this
        · have hm : (!n) = !s.bGreater := by cases n <;> cases hb : s.bGreater <;> simp_all
          have h1 : OneInv (s.upd (!n) (·.addDeclined already)) := by
            rw [hm]
            exact oneInv_upd_small s _ h ⟨h.small.idle, h.small.conn, h.small.acc⟩ (fun _ hs => hs)
          have hn' : n ≠ !(s.upd (!n) (·.addDeclined already)).bGreater := by rw [bGreater_upd]; exact hn
          exact oneInv_upd_big _ n _ hn' h1

theorem oneInv_init (bGreater syncA syncB : Bool) :
    OneInv { bGreater := bGreater, a := { syncing := syncA }, b := { syncing := syncB } } := by
  refine ⟨?_, (by intro σ hσ; cases hσ), (by intro σ hσ; cases hσ), List.Pairwise.nil⟩
  cases bGreater <;>
    exact ⟨fun _ => ⟨rfl, rfl⟩, (by intro hc; cases hc), (by intro hc; cases hc)⟩

/-- **At most one session in progress — every schedule, any number of dials.** From two idle
nodes (in either id order, syncing the document or not), after any sequence of dial decisions,
request deliveries and losses, accept/decline replies and independent completions of session ends,
there are never two reconciliation sessions in progress at once (a session being in progress until
either side has finished it). -/
theorem at_most_one_session (bGreater syncA syncB : Bool) (as : List Action) :
    (inProgress (run true { bGreater := bGreater, a := { syncing := syncA }, b := { syncing := syncB } } as)).length ≤ 1 := by
  apply oneInv_at_most_one
  unfold run
  suffices h : ∀ s, OneInv s → OneInv (as.foldl (step true) s) from h _ (oneInv_init _ _ _)
  induction as with
  | nil => exact fun s h => h
  | cons a rest ih => intro s h; exact ih _ (step_oneInv s a h)

end Coord
