import DocsModel.Model.Session
import DocsModel.Props.C14
/-!
# The store actor as the drivers see it

`Session.Actor.call` abstracts one `SyncHandle::sync_process_message` request. Here it is tied to
the model of the store actor (`Actor.step`, C14): on a document that is open with sync enabled the
request succeeds and is exactly `Replica.syncProcessMessage` on the tables (what `okActor` /
`tableActor … none` does); on a document that is not open, or whose sync switch is off, it fails
and changes nothing (what `tableActor` does from `failFrom` on) — the three local failures named in
C10 (replica closed, sync disabled, actor gone) all look the same to a driver: the call fails.
-/

namespace Session
open Ranger Replica

theorem actor_call_when_syncing (s : Actor.AState) (ns : Bytes) (r : Actor.OpenRep) (now : Nat) (msg : Message)
    (hopen : Actor.getOpen s ns = some r) (hsync : r.sync = true) :
    Actor.step s (.syncProcess ns now msg) =
      ({ s with t := (syncProcessMessage {} s.t ns now msg {}).1.store },
       .syncReply (syncProcessMessage {} s.t ns now msg {}).1.reply) := by
  simp [Actor.step, hopen, hsync]

theorem actor_call_fails_otherwise (s : Actor.AState) (ns : Bytes) (now : Nat) (msg : Message) :
    (Actor.getOpen s ns = none → Actor.step s (.syncProcess ns now msg) = (s, .errNotOpen)) ∧
    (∀ r, Actor.getOpen s ns = some r → r.sync = false →
        Actor.step s (.syncProcess ns now msg) = (s, .errSyncDisabled)) := by
  constructor
  · intro h; simp [Actor.step, h]
  · intro r h hs; simp [Actor.step, h, hs]

/-- the store and reply of the never-failing session actor are those of the store actor's step on
an open, syncing document holding the same tables (the counters travel with the caller) -/
theorem okActor_refines_actor (s : Actor.AState) (ns : Bytes) (r : Actor.OpenRep) (now : Nat) (msg : Message)
    (o : Outcome) (ts : TState) (hopen : Actor.getOpen s ns = some r) (hsync : r.sync = true) (ht : ts.t = s.t) :
    ∃ ts' reply o', (tableActor ns now none).call ts ns msg o = some (ts', reply, o') ∧
      ts'.t = (Actor.step s (.syncProcess ns now msg)).1.t ∧
      (Actor.step s (.syncProcess ns now msg)).2 = .syncReply reply := by
  rw [actor_call_when_syncing s ns r now msg hopen hsync]
  refine ⟨_, _, _, by simp [tableActor]; exact ⟨rfl, rfl, rfl⟩, ?_, ?_⟩
  · simp only [ht]
    unfold syncProcessMessage; rfl
  · simp only [ht]
    unfold syncProcessMessage; rfl

end Session
