import DocsModel.Model.Session
import DocsModel.Props.C01
/-!
# C10 ⟷ C01: the two network drivers, run against each other, realise the abstract session

`Props/C10.lean` treats each end against an arbitrary peer; `Props/C01*.lean` treat the abstract
exchange of messages between two replicas. Here the two are tied together: if the abstract exchange
between replicas `A` and `B` completes, then `run_alice` on `A` fed with exactly the frames
`BobState::run` on `B` writes, and `BobState::run` fed with exactly the frames `run_alice` writes,
both succeed, end in the final states of the abstract exchange, and report its counters — so the
counters of the two drivers mirror (C01 `counts_mirror`), and everything proved about the abstract
session (convergence to the join, termination) holds for the drivers.
-/

namespace Session
open Ranger Replica

abbrev Side := Tables.T × Outcome

/-- The complete exchange with `msg` in flight to `y`: the messages `y` receives, the messages `x`
receives, the final `x`, the final `y`, and whether it completed within the fuel. -/
def exch (ns : Bytes) (now : Nat) : Nat → Side → Side → Message → List Message × List Message × Side × Side × Bool
  | 0, x, y, _ => ([], [], x, y, false)
  | fuel + 1, x, y, msg =>
    let r := syncProcessMessage {} y.1 ns now msg y.2
    match r.1.reply with
    | none => ([msg], [], x, (r.1.store, r.2), true)
    | some reply =>
      let rec' := exch ns now fuel (r.1.store, r.2) x reply
      (msg :: rec'.2.1, rec'.1, rec'.2.2.2.1, rec'.2.2.1, rec'.2.2.2.2)

theorem exch_succ (ns : Bytes) (now fuel : Nat) (x y : Side) (msg : Message) :
    exch ns now (fuel + 1) x y msg =
      (let r := syncProcessMessage {} y.1 ns now msg y.2
       match r.1.reply with
       | none => ([msg], [], x, (r.1.store, r.2), true)
       | some reply =>
         let rec' := exch ns now fuel (r.1.store, r.2) x reply
         (msg :: rec'.2.1, rec'.1, rec'.2.2.2.1, rec'.2.2.1, rec'.2.2.2.2)) := rfl

/-- a completed exchange delivers `msg` first -/
theorem exch_head (ns : Bytes) (now fuel : Nat) (x y : Side) (msg : Message)
    (h : (exch ns now fuel x y msg).2.2.2.2 = true) :
    ∃ rest, (exch ns now fuel x y msg).1 = msg :: rest := by
  cases fuel with
  | zero => simp [exch] at h
  | succ fuel =>
    rw [exch_succ]
    simp only
    cases (syncProcessMessage {} y.1 ns now msg y.2).1.reply with
    | none => exact ⟨[], rfl⟩
    | some reply => exact ⟨_, rfl⟩

/-- the exchange is the session of `Replica.sessionO` (same final sides, same completion) -/
theorem exch_eq_sessionO (ns : Bytes) (now fuel : Nat) :
    ∀ (x y : Side) (msg : Message),
      (sessionO {} ns now fuel x y msg).1 = (exch ns now fuel x y msg).2.2.2.2 ∧
      (sessionO {} ns now fuel x y msg).2.2.1 = (exch ns now fuel x y msg).2.2.1 ∧
      (sessionO {} ns now fuel x y msg).2.2.2 = (exch ns now fuel x y msg).2.2.2.1 := by
  induction fuel with
  | zero => intro x y msg; simp [sessionO, exch]
  | succ fuel ih =>
    intro x y msg
    rw [exch_succ]
    simp only [sessionO]
    rcases hsp : syncProcessMessage {} y.1 ns now msg y.2 with ⟨st, oy⟩
    simp only
    cases hr : st.reply with
    | none => simp
    | some reply =>
      simp only
      obtain ⟨h1, h2, h3⟩ := ih (st.store, oy) x reply
      exact ⟨h1, h3, h2⟩

end Session

namespace Session
open Ranger Replica

/-- the store actor of an open, syncing replica that never fails -/
abbrev okActor (ns : Bytes) (now : Nat) : Actor TState := tableActor ns now none

theorem okActor_call (ns : Bytes) (now : Nat) (s : TState) (m : Message) (o : Outcome) :
    (okActor ns now).call s ns m o =
      some ({ t := (syncProcessMessage {} s.t ns now m o).1.store, done := s.done + 1 },
            (syncProcessMessage {} s.t ns now m o).1.reply, (syncProcessMessage {} s.t ns now m o).2) := by
  simp [okActor, tableActor]

def syncItems (ms : List Message) : List Item := ms.map fun m => .frame (.sync m)
def syncFrames (ms : List Message) : List Frame := ms.map .sync

theorem syncItems_cons (m : Message) (ms : List Message) :
    syncItems (m :: ms) = .frame (.sync m) :: syncItems ms := rfl
theorem syncItems_nil : syncItems [] = [] := rfl
theorem syncFrames_cons (m : Message) (ms : List Message) : syncFrames (m :: ms) = .sync m :: syncFrames ms := rfl
theorem syncFrames_nil : syncFrames [] = [] := rfl

theorem bobLoop_sync {S : Type} (actor : Actor S) (accept : Bytes → Accept) (m : Message) (rest : List Item)
    (e : StreamEnd) (n : Bytes) (p : Outcome) (s : S) (w : List Frame) (c : Nat) :
    bobLoop actor accept (.frame (.sync m) :: rest) e (some n) (some p) s w c =
      match actor.call s n m p with
      | none => { result := .failed, written := w, progress := some p, store := s, calls := c + 1, nsAtExit := some n }
      | some (s', reply, p') =>
        match reply with
        | some r => bobLoop actor accept rest e (some n) (some p') s' (w ++ [.sync r]) (c + 1)
        | none => { result := .ok n, written := w, progress := some p', store := s', calls := c + 1, nsAtExit := some n } := by
  cases h : actor.call s n m p with
  | none => simp only [bobLoop, h]
  | some v =>
    obtain ⟨s', reply, p'⟩ := v
    cases reply <;> simp only [bobLoop, h]

theorem bobLoop_init {S : Type} (actor : Actor S) (accept : Bytes → Accept) (m : Message) (rest : List Item)
    (e : StreamEnd) (n : Bytes) (p : Outcome) (s : S) (w : List Frame) (c : Nat) (ha : accept n = .allow) :
    bobLoop actor accept (.frame (.init n m) :: rest) e none (some p) s w c =
      match actor.call s n m p with
      | none => { result := .failed, written := w, progress := some p, store := s, calls := c + 1, nsAtExit := some n }
      | some (s', reply, p') =>
        match reply with
        | some r => bobLoop actor accept rest e (some n) (some p') s' (w ++ [.sync r]) (c + 1)
        | none => { result := .ok n, written := w, progress := some p', store := s', calls := c + 1, nsAtExit := some n } := by
  cases h : actor.call s n m p with
  | none => simp only [bobLoop, ha, h]
  | some v =>
    obtain ⟨s', reply, p'⟩ := v
    cases reply <;> simp only [bobLoop, ha, h]

/-- what a completed run of the accepting side looks like -/
structure BobDone (out : BobOut TState) (ns : Bytes) (w : List Frame) (fin : Side) : Prop where
  result : out.result = .ok ns
  written : out.written = w
  progress : out.progress = some fin.2
  store : out.store.t = fin.1

/-- **The accepting side inside the exchange.** Past the handshake, in either role — about to
receive `msg` (`y`) or waiting for the answer to what it has just sent (`x`) — `BobState::run`, fed
with exactly the messages the exchange delivers to it, writes exactly the messages the exchange
delivers to the other side and ends in the exchange's final state with its counters. -/
theorem bob_in_exchange (ns : Bytes) (now : Nat) (accept : Bytes → Accept) (fuel : Nat) :
    (∀ (x y : Side) (msg : Message) (s : TState) (w : List Frame) (c : Nat), s.t = y.1 →
        (exch ns now fuel x y msg).2.2.2.2 = true →
        BobDone (bobLoop (okActor ns now) accept (syncItems (exch ns now fuel x y msg).1) .eof (some ns) (some y.2) s w c)
          ns (w ++ syncFrames (exch ns now fuel x y msg).2.1) (exch ns now fuel x y msg).2.2.2.1) ∧
    (∀ (x y : Side) (msg : Message) (s : TState) (w : List Frame) (c : Nat), s.t = x.1 →
        (exch ns now fuel x y msg).2.2.2.2 = true →
        BobDone (bobLoop (okActor ns now) accept (syncItems (exch ns now fuel x y msg).2.1) .eof (some ns) (some x.2) s w c)
          ns (w ++ syncFrames (exch ns now fuel x y msg).1.tail) (exch ns now fuel x y msg).2.2.1) := by
  induction fuel with
  | zero =>
    constructor <;> (intro x y msg s w c _ h; simp [exch] at h)
  | succ fuel ih =>
    obtain ⟨ihy, ihx⟩ := ih
    constructor
    · intro x y msg s w c hs hdone
      rw [exch_succ] at hdone ⊢
      simp only at hdone ⊢
      cases hr : (syncProcessMessage {} y.1 ns now msg y.2).1.reply with
      | none =>
        simp only [hr, syncItems_cons, syncItems_nil, syncFrames_nil, List.append_nil]
        rw [bobLoop_sync, okActor_call, hs]
        simp only [hr]
        exact ⟨rfl, rfl, rfl, rfl⟩
      | some reply =>
        rw [hr] at hdone
        simp only [hr] at hdone ⊢
        rw [syncItems_cons, bobLoop_sync, okActor_call, hs]
        simp only [hr]
        -- now the accepting side waits (`x` of the remaining exchange)
        have := ihx ((syncProcessMessage {} y.1 ns now msg y.2).1.store, (syncProcessMessage {} y.1 ns now msg y.2).2) x reply
          { t := (syncProcessMessage {} y.1 ns now msg y.2).1.store, done := s.done + 1 } (w ++ [.sync reply]) (c + 1) rfl hdone
        obtain ⟨rest, hhead⟩ := exch_head ns now fuel _ x reply hdone
        refine ⟨this.result, ?_, this.progress, this.store⟩
        rw [this.written, hhead]
        simp [syncFrames_cons]
    · intro x y msg s w c hs hdone
      rw [exch_succ] at hdone ⊢
      simp only at hdone ⊢
      cases hr : (syncProcessMessage {} y.1 ns now msg y.2).1.reply with
      | none =>
        simp only [hr, syncItems_nil, List.tail_cons, syncFrames_nil, List.append_nil]
        simp only [bobLoop]
        exact ⟨rfl, rfl, rfl, hs⟩
      | some reply =>
        rw [hr] at hdone
        simp only [hr] at hdone ⊢
        simp only [List.tail_cons]
        exact ihy ((syncProcessMessage {} y.1 ns now msg y.2).1.store, (syncProcessMessage {} y.1 ns now msg y.2).2) x reply s w c hs hdone

end Session

namespace Session
open Ranger Replica

theorem aliceLoop_sync {S : Type} (actor : Actor S) (ns : Bytes) (m : Message) (rest : List Item)
    (e : StreamEnd) (p : Outcome) (s : S) (w : List Frame) (c : Nat) :
    aliceLoop actor ns (.frame (.sync m) :: rest) e p s w c =
      match actor.call s ns m p with
      | none => { result := .failed, written := w, store := s, calls := c + 1 }
      | some (s', reply, p') =>
        match reply with
        | some r => aliceLoop actor ns rest e p' s' (w ++ [.sync r]) (c + 1)
        | none => { result := .ok p', written := w, store := s', calls := c + 1 } := by
  cases h : actor.call s ns m p with
  | none => simp only [aliceLoop, h]
  | some v =>
    obtain ⟨s', reply, p'⟩ := v
    cases reply <;> simp only [aliceLoop, h]

structure AliceDone (out : AliceOut TState) (w : List Frame) (fin : Side) : Prop where
  result : out.result = .ok fin.2
  written : out.written = w
  store : out.store.t = fin.1

/-- **The initiating side inside the exchange** (the same statement for `run_alice`'s loop). -/
theorem alice_in_exchange (ns : Bytes) (now : Nat) (fuel : Nat) :
    (∀ (x y : Side) (msg : Message) (s : TState) (w : List Frame) (c : Nat), s.t = y.1 →
        (exch ns now fuel x y msg).2.2.2.2 = true →
        AliceDone (aliceLoop (okActor ns now) ns (syncItems (exch ns now fuel x y msg).1) .eof y.2 s w c)
          (w ++ syncFrames (exch ns now fuel x y msg).2.1) (exch ns now fuel x y msg).2.2.2.1) ∧
    (∀ (x y : Side) (msg : Message) (s : TState) (w : List Frame) (c : Nat), s.t = x.1 →
        (exch ns now fuel x y msg).2.2.2.2 = true →
        AliceDone (aliceLoop (okActor ns now) ns (syncItems (exch ns now fuel x y msg).2.1) .eof x.2 s w c)
          (w ++ syncFrames (exch ns now fuel x y msg).1.tail) (exch ns now fuel x y msg).2.2.1) := by
  induction fuel with
  | zero =>
    constructor <;> (intro x y msg s w c _ h; simp [exch] at h)
  | succ fuel ih =>
    obtain ⟨ihy, ihx⟩ := ih
    constructor
    · intro x y msg s w c hs hdone
      rw [exch_succ] at hdone ⊢
      simp only at hdone ⊢
      cases hr : (syncProcessMessage {} y.1 ns now msg y.2).1.reply with
      | none =>
        simp only [hr, syncItems_cons, syncItems_nil, syncFrames_nil, List.append_nil]
        rw [aliceLoop_sync, okActor_call, hs]
        simp only [hr]
        exact ⟨rfl, rfl, rfl⟩
      | some reply =>
        rw [hr] at hdone
        simp only [hr] at hdone ⊢
        rw [syncItems_cons, aliceLoop_sync, okActor_call, hs]
        simp only [hr]
        have := ihx ((syncProcessMessage {} y.1 ns now msg y.2).1.store, (syncProcessMessage {} y.1 ns now msg y.2).2) x reply
          { t := (syncProcessMessage {} y.1 ns now msg y.2).1.store, done := s.done + 1 } (w ++ [.sync reply]) (c + 1) rfl hdone
        obtain ⟨rest, hhead⟩ := exch_head ns now fuel _ x reply hdone
        refine ⟨this.result, ?_, this.store⟩
        rw [this.written, hhead]
        simp [syncFrames_cons]
    · intro x y msg s w c hs hdone
      rw [exch_succ] at hdone ⊢
      simp only at hdone ⊢
      cases hr : (syncProcessMessage {} y.1 ns now msg y.2).1.reply with
      | none =>
        simp only [hr, syncItems_nil, List.tail_cons, syncFrames_nil, List.append_nil]
        simp only [aliceLoop]
        exact ⟨rfl, rfl, hs⟩
      | some reply =>
        rw [hr] at hdone
        simp only [hr] at hdone ⊢
        simp only [List.tail_cons]
        exact ihy ((syncProcessMessage {} y.1 ns now msg y.2).1.store, (syncProcessMessage {} y.1 ns now msg y.2).2) x reply s w c hs hdone

/-- **The two drivers against each other.** Let the abstract exchange between replica `ta`
(initiator) and `tb` (acceptor), started with `ta`'s initial message, complete. Then
`run_alice` on `ta`, reading exactly the frames the acceptor writes, and `BobState::run` on `tb`
(allowing the request), reading exactly the frames the initiator writes, both succeed; each one's
output is the other's input; they end in the final states of the exchange and report its counters. -/
theorem drivers_realise_exchange (ns : Bytes) (now fuel : Nat) (ta tb : Tables.T) (accept : Bytes → Accept)
    (hacc : accept ns = .allow)
    (hdone : (exch ns now fuel (ta, {}) (tb, {}) (initialMessage (tableOps ns) ta)).2.2.2.2 = true) :
    let m0 := initialMessage (tableOps ns) ta
    let R := exch ns now fuel (ta, {}) (tb, {}) m0
    let alice := aliceRun (okActor ns now) ns (syncItems R.2.1) .eof { t := ta }
    let bob := bobRun (okActor ns now) accept (.frame (.init ns m0) :: syncItems R.1.tail) .eof { t := tb }
    -- the initiator
    alice.result = .ok R.2.2.1.2 ∧ alice.store.t = R.2.2.1.1 ∧
    alice.written = .init ns m0 :: syncFrames R.1.tail ∧
    -- the acceptor
    bob.result = .ok ns ∧ bob.progress = some R.2.2.2.1.2 ∧ bob.store.t = R.2.2.2.1.1 ∧
    bob.written = syncFrames R.2.1 := by
  simp only
  have hinit : (okActor ns now).initial { t := ta } ns = some (initialMessage (tableOps ns) ta) := by
    simp [okActor, tableActor]
  generalize hm : initialMessage (tableOps ns) ta = m0 at hdone hinit ⊢
  have ha := (alice_in_exchange ns now fuel).2 (ta, {}) (tb, {}) m0 { t := ta } [.init ns m0] 0 rfl hdone
  have halice : aliceRun (okActor ns now) ns (syncItems (exch ns now fuel (ta, {}) (tb, {}) m0).2.1) .eof { t := ta } =
      aliceLoop (okActor ns now) ns (syncItems (exch ns now fuel (ta, {}) (tb, {}) m0).2.1) .eof {} { t := ta } [.init ns m0] 0 := by
    unfold aliceRun
    rw [hinit]
  refine ⟨?_, ?_, ?_, ?_⟩
  · rw [halice]; exact ha.result
  · rw [halice]; exact ha.store
  · rw [halice, ha.written]; rfl
  · -- the acceptor: the first frame is the handshake, afterwards it is the `y` side of the exchange
    have hb : ∀ items, bobRun (okActor ns now) accept items .eof { t := tb } =
        bobLoop (okActor ns now) accept items .eof none (some {}) { t := tb } [] 0 := fun _ => rfl
    rw [hb]
    cases fuel with
    | zero => simp [exch] at hdone
    | succ fuel =>
      rw [exch_succ] at hdone ⊢
      simp only at hdone ⊢
      rw [bobLoop_init _ _ _ _ _ _ _ _ _ _ hacc, okActor_call]
      cases hr : (syncProcessMessage {} tb ns now m0 {}).1.reply with
      | none =>
        simp only [hr]
        refine ⟨?_, ?_, ?_, ?_⟩ <;> first | rfl | trivial
      | some reply =>
        simp only [hr] at hdone ⊢
        have hx := (bob_in_exchange ns now accept fuel).2
          ((syncProcessMessage {} tb ns now m0 {}).1.store, (syncProcessMessage {} tb ns now m0 {}).2) (ta, {}) reply
          { t := (syncProcessMessage {} tb ns now m0 {}).1.store, done := 0 + 1 } ([] ++ [.sync reply]) (0 + 1) rfl hdone
        obtain ⟨rest', hhead'⟩ := exch_head ns now fuel _ (ta, {}) reply hdone
        simp only [List.tail_cons]
        refine ⟨hx.result, hx.progress, hx.store, ?_⟩
        rw [hx.written, hhead']
        simp [syncFrames_cons]

/-- … and therefore the counters the two drivers report mirror each other. -/
theorem drivers_counts_mirror (ns : Bytes) (now fuel : Nat) (ta tb : Tables.T)
    (hdone : (exch ns now fuel (ta, {}) (tb, {}) (initialMessage (tableOps ns) ta)).2.2.2.2 = true) :
    let R := exch ns now fuel (ta, {}) (tb, {}) (initialMessage (tableOps ns) ta)
    R.2.2.1.2.numSent = R.2.2.2.1.2.numRecv ∧ R.2.2.2.1.2.numSent = R.2.2.1.2.numRecv := by
  intro R
  obtain ⟨h1, h2, h3⟩ := exch_eq_sessionO ns now fuel (ta, {}) (tb, {}) (initialMessage (tableOps ns) ta)
  have := session_counts_mirror {} ns now fuel ta tb
  simp only at this
  rw [h1, h2, h3] at this
  exact this hdone

end Session

namespace Session
open Ranger Replica

/-- **A declined request, both ends.** When the accept callback declines with reason `r`: the
acceptor writes exactly one `Abort(r)` frame, reports `aborted`, and its store is untouched
(whatever else the peer sends); the initiator, reading that frame, reports `RemoteAbort(r)` and its
store is untouched as well. -/
theorem declined_exchange {S : Type} (actorA actorB : Actor S) (accept : Bytes → Accept) (ns : Bytes) (r : Nat)
    (hrej : accept ns = .reject r) (m0 : Message) (rest : List Item) (e e' : StreamEnd) (sa sb : S)
    (hinit : actorA.initial sa ns = some m0) :
    let bob := bobRun actorB accept (.frame (.init ns m0) :: rest) e sb
    let alice := aliceRun actorA ns (bob.written.map .frame) e' sa
    bob.result = .aborted ns r ∧ bob.written = [.abort r] ∧ bob.store = sb ∧ bob.calls = 0 ∧
    (match alice.result with | .remoteAbort r' => r' = r | _ => False) ∧
    alice.store = sa ∧ alice.written = [.init ns m0] ∧ alice.calls = 0 := by
  have hb : bobRun actorB accept (.frame (.init ns m0) :: rest) e sb =
      { result := .aborted ns r, written := [] ++ [.abort r], progress := some {}, store := sb, calls := 0 } := by
    simp only [bobRun, bobLoop, hrej]
  simp only [hb, List.nil_append, List.map_cons, List.map_nil]
  refine ⟨trivial, trivial, trivial, trivial, ?_⟩
  simp only [aliceRun, hinit, aliceLoop]
  exact ⟨trivial, trivial, trivial, trivial⟩

end Session

/-! ### non-vacuity: a concrete exchange that completes (two replicas with one entry each) -/

namespace Session
open Ranger Replica

private def exA : Entry := { ns := [1], author := [2], key := [3], ts := 5, len := 3, hash := [4], fp := [7] }
private def exB : Entry := { ns := [1], author := [2], key := [5], ts := 6, len := 3, hash := [9], fp := [8] }
private def exTa : Tables.T := (Tables.put (Tables.importNamespace {} [1] 1 [9]).1 exA).1
private def exTb : Tables.T := (Tables.put (Tables.importNamespace {} [1] 1 [9]).1 exB).1

example : (exch [1] 100 10 (exTa, {}) (exTb, {}) (initialMessage (tableOps [1]) exTa)).2.2.2.2 = true ∧
    (exch [1] 100 10 (exTa, {}) (exTb, {}) (initialMessage (tableOps [1]) exTa)).1.length = 2 := by decide

end Session
