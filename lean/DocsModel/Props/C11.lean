import DocsModel.Model.Coord
/-!
# C11 — at most one sync session per peer and document, and the slot is always freed

Model: `Coord.step` — the per-peer `PeerState` of `engine/state.rs` (`start_connect`,
`accept_request` with the id tie-break, `finish`) and the completion handlers of `engine/live.rs`,
with explicit connect and accept tasks, lost requests and independently finishing session ends.
`step true` is the code with the F9 repair (a dial declined with `AlreadySyncing` frees the slot if
the dial still occupies it), `step false` the code before it.

Proved for **all schedules of any length** (no bound on dials): `slot_is_always_freed` (here) and
`at_most_one_session` (`Props/C11One.lean`), plus the step-level laws (tie-break, not-found,
exactly one follow-up) and the F9 witness for the handlers before the repair.
-/

namespace Coord

/-- a node's slot is backed by a live task: a connect task while it says "connecting", an accept
task while it says "accepted" -/
def NodeOk (x : Node) : Prop := (x.st = .conn → x.ctasks ≠ []) ∧ (x.st = .acc → x.atasks ≠ [])

def SysOk (s : Sys) : Prop := NodeOk s.a ∧ NodeOk s.b

theorem node_upd_same (s : Sys) (n : Bool) (f : Node → Node) : (s.upd n f).node n = f (s.node n) := by
  cases n <;> simp [Sys.upd, Sys.node]

theorem node_upd_other (s : Sys) (n : Bool) (f : Node → Node) : (s.upd n f).node (!n) = s.node (!n) := by
  cases n <;> simp [Sys.upd, Sys.node]

theorem sysOk_iff (s : Sys) : SysOk s ↔ ∀ n, NodeOk (s.node n) := by
  constructor
  · intro h n; cases n
    · exact h.1
    · exact h.2
  · intro h; exact ⟨h false, h true⟩

theorem sysOk_upd (s : Sys) (n : Bool) (f : Node → Node) (h : SysOk s) (hf : NodeOk (f (s.node n))) :
    SysOk (s.upd n f) := by
  rw [sysOk_iff] at h ⊢
  intro m
  by_cases hm : m = n
  · subst hm; rw [node_upd_same]; exact hf
  · have : m = !n := by cases m <;> cases n <;> simp_all
    subst this; rw [node_upd_other]; exact h _

theorem sysOk_sessions (s : Sys) (sessions : List Session) (nextSid : Nat) (h : SysOk s) :
    SysOk { s with sessions := sessions, nextSid := nextSid } := h

/-! ### node-level lemmas -/

theorem nodeOk_of_idle (x : Node) (h : x.st = .idle) : NodeOk x :=
  ⟨(by intro hc; rw [h] at hc; cases hc), (by intro hc; rw [h] at hc; cases hc)⟩

theorem startConnect_ok (x : Node) (report : Bool) (reason : Nat) (h : NodeOk x) :
    NodeOk (x.startConnect report reason) := by
  unfold Node.startConnect
  split
  · exact h
  · split
    · exact ⟨(by intro _; simp), (by intro hc; simp at hc)⟩
    · split
      · exact ⟨h.1, h.2⟩
      · exact h

/-- freeing the slot always restores the invariant, whatever tasks are left -/
theorem finish_ok (x : Node) : NodeOk x.finish := by
  unfold Node.finish
  split
  · rename_i hidle
    exact nodeOk_of_idle x hidle
  · have hbase : NodeOk ({ x with st := .idle } : Node) := nodeOk_of_idle _ rfl
    split
    · have := startConnect_ok _ false 3 hbase
      exact ⟨this.1, this.2⟩
    · exact hbase

/-- the repaired handling of `AlreadySyncing`: fine as long as an accepted slot is still backed -/
theorem connectDeclined_ok (x : Node) (hacc : x.st = .acc → x.atasks ≠ []) : NodeOk x.connectDeclined := by
  unfold Node.connectDeclined
  split
  · have hbase : NodeOk ({ x with st := .idle } : Node) := nodeOk_of_idle _ rfl
    split
    · have := startConnect_ok _ false 3 hbase
      exact ⟨this.1, this.2⟩
    · exact hbase
  · rename_i hnc
    exact ⟨fun hc => absurd hc hnc, hacc⟩

theorem setPhase_ok (x : Node) (i : Nat) (p : CPhase) (h : NodeOk x) : NodeOk (x.setPhase i p) := by
  refine ⟨fun hc => ?_, h.2⟩
  have := h.1 hc
  intro hnil; apply this
  simpa [Node.setPhase, Coord.setPhase] using hnil

theorem accept_ok (x : Node) (sid : Nat) : NodeOk (x.accept sid) :=
  ⟨(by intro hc; cases hc), (by intro _; simp [Node.accept])⟩

theorem addDeclined_ok (x : Node) (b : Bool) (h : NodeOk x) : NodeOk (x.addDeclined b) := ⟨h.1, h.2⟩
theorem popDeclined_ok (x : Node) (h : NodeOk x) : NodeOk x.popDeclined := ⟨h.1, h.2⟩

/-- **Every step of the repaired handlers keeps every slot backed by a live task.** -/
theorem step_ok (s : Sys) (a : Action) (h : SysOk s) : SysOk (step true s a) := by
  have hall := (sysOk_iff s).mp h
  cases a with
  | dial n report => exact sysOk_upd s n _ h (startConnect_ok _ _ _ (hall n))
  | loseReq n =>
    simp only [step]
    split
    · exact h
    · exact sysOk_upd s n _ h (setPhase_ok _ _ _ (hall n))
  | completeDeclined n => exact sysOk_upd s n _ h (popDeclined_ok _ (hall n))
  | completeAccept n sid =>
    simp only [step]
    split
    · apply sysOk_sessions
      exact sysOk_upd s n _ h (finish_ok _)
    · exact h
  | completeConnect n i =>
    simp only [step]
    split
    · exact h
    · split
      · exact h
      · simp only [if_true]
        apply sysOk_upd s n _ h
        apply connectDeclined_ok
        exact (hall n).2
      · exact sysOk_upd s n _ h (finish_ok _)
      · exact sysOk_upd s n _ h (finish_ok _)
      · apply sysOk_sessions
        exact sysOk_upd s n _ h (finish_ok _)
  | deliverReq n =>
    simp only [step]
    split
    · exact h
    · split
      · apply sysOk_sessions
        have h1 : SysOk (s.upd (!n) (·.accept s.nextSid)) := sysOk_upd s (!n) _ h (accept_ok _ _)
        apply sysOk_upd _ n _ h1
        apply setPhase_ok
        have : (s.upd (!n) (·.accept s.nextSid)).node n = s.node n := by
          have := node_upd_other s (!n) (·.accept s.nextSid)
          simpa using this
        rw [this]; exact hall n
      · rename_i already _
        have h1 : SysOk (s.upd (!n) (·.addDeclined already)) :=
          sysOk_upd s (!n) _ h (addDeclined_ok _ _ (hall (!n)))
        apply sysOk_upd _ n _ h1
        apply setPhase_ok
        have : (s.upd (!n) (·.addDeclined already)).node n = s.node n := by
          have := node_upd_other s (!n) (·.addDeclined already)
          simpa using this
        rw [this]; exact hall n

theorem run_ok (s : Sys) (as : List Action) (h : SysOk s) : SysOk (run true s as) := by
  unfold run
  induction as generalizing s with
  | nil => exact h
  | cons a rest ih => exact ih _ (step_ok s a h)

/-- **The slot is always freed (every schedule, any number of dials).** From two idle nodes, after
any sequence of dial decisions, request deliveries and losses, accept/decline replies and
independent completions of the two ends of sessions: once no request, reply or session end is in
flight, both nodes are ready to start or accept a new session. -/
theorem slot_is_always_freed (bGreater syncA syncB : Bool) (as : List Action) :
    let s := run true { bGreater := bGreater, a := { syncing := syncA }, b := { syncing := syncB } } as
    quiescent s = true → s.a.st = .idle ∧ s.b.st = .idle := by
  have hinv := run_ok { bGreater := bGreater, a := { syncing := syncA }, b := { syncing := syncB } } as
    ⟨nodeOk_of_idle _ rfl, nodeOk_of_idle _ rfl⟩
  intro s hq
  have hq' : s.a.ctasks = [] ∧ s.b.ctasks = [] ∧ s.a.atasks = [] ∧ s.b.atasks = [] := by
    simp only [quiescent, Bool.and_eq_true, List.isEmpty_iff] at hq
    exact ⟨hq.1.1.1.1.1, hq.1.1.1.1.2, hq.1.1.1.2, hq.1.1.2⟩
  obtain ⟨ha, hb⟩ := hinv
  constructor
  · cases hst : s.a.st with
    | idle => rfl
    | conn => exact absurd hq'.1 (ha.1 hst)
    | acc => exact absurd hq'.2.2.1 (ha.2 hst)
  · cases hst : s.b.st with
    | idle => rfl
    | conn => exact absurd hq'.2.1 (hb.1 hst)
    | acc => exact absurd hq'.2.2.2 (hb.2 hst)

/-- F9: with the handlers as they were (an `AlreadySyncing` abort is ignored unconditionally) the
pair can be left marked busy forever — both nodes dial, A declines B's request expecting its own to
win, A's request is lost; nothing is in flight any more and B still says "connecting". -/
theorem slot_leaks_without_repair :
    let s := run false { bGreater := true }
      [.dial false false, .dial true false, .loseReq false, .deliverReq true,
       .completeConnect false 0, .completeDeclined false, .completeConnect true 0]
    quiescent s = true ∧ s.b.st = .conn := by decide

/-- **Simultaneous dials: exactly one request is accepted and the other is declined**, whichever
request arrives first and whichever node has the greater id. -/
theorem simultaneous_dial_one_winner (bGreater firstA : Bool) :
    let s := run true { bGreater := bGreater }
      ([.dial false false, .dial true false] ++
        (if firstA then [.deliverReq false, .deliverReq true] else [.deliverReq true, .deliverReq false]))
    s.sessions.length = 1 ∧ (s.a.declinedAcc ++ s.b.declinedAcc) = [true] ∧ (inProgress s).length = 1 := by
  cases bGreater <;> cases firstA <;> decide

/-- requests for a document that is not being synced are declined as not found -/
theorem not_syncing_is_not_found (x : Node) (g : Bool) (h : x.syncing = false) :
    x.acceptDecision g = some false := by
  simp [Node.acceptDecision, h]

/-- … and a node that is not syncing the document never dials for it -/
theorem not_syncing_never_dials (x : Node) (report : Bool) (reason : Nat) (h : x.syncing = false) :
    x.startConnect report reason = x := by
  simp [Node.startConnect, h]

/-- a request is accepted exactly when the slot is free, or when both dial and the acceptor has the greater id -/
theorem accept_iff (x : Node) (g : Bool) (h : x.syncing = true) :
    x.acceptDecision g = none ↔ (x.st = .idle ∨ (x.st = .conn ∧ g = true)) := by
  unfold Node.acceptDecision
  cases hst : x.st <;> cases g <;> simp [h]

/-- **A refused report is followed up exactly once**: a sync report that arrives while a session
is running only sets the resync flag; when the session finishes, exactly one follow-up dial is made
and the flag is cleared. -/
theorem refused_report_is_followed_up (x : Node) (h : x.st ≠ .idle) (hs : x.syncing = true) :
    let x1 := x.startConnect true 2
    x1.resync = true ∧ x1.st = x.st ∧ x1.dialsMade = x.dialsMade ∧
    x1.finish.followUps = x.followUps + 1 ∧ x1.finish.st = .conn ∧ x1.finish.resync = false ∧
    x1.finish.dialsMade = x.dialsMade + 1 := by
  cases hst : x.st with
  | idle => exact absurd hst h
  | conn => simp [Node.startConnect, Node.finish, hs, hst]
  | acc => simp [Node.startConnect, Node.finish, hs, hst]

/-- without a refused report there is no follow-up dial -/
theorem no_follow_up_without_report (x : Node) (h : x.resync = false) :
    x.finish.followUps = x.followUps ∧ x.finish.dialsMade = x.dialsMade := by
  unfold Node.finish
  split
  · exact ⟨rfl, rfl⟩
  · simp [h]

end Coord
