import DocsModel.Model.Replica
/-!
# C03 — only authentic, well-formed, in-namespace, non-future entries are accepted

Model: `Replica.validateEntry`, `validateEmpty`, `insertRemoteEntry`
(`Replica::insert_remote_entry`) and the validate callback of `sync_process_message`
(`syncValidate`, with the F3 repair) inside `Ranger.processMessage`.
Signature verification is a field of the model's entries (`nsSigOk`, `authorSigOk`): Ed25519 is
part of the trusted base; in the harness the ground truth is by construction.
-/

namespace Replica
open Spec Ranger

theorem validateEmpty_iff (e : Entry) :
    validateEmpty e = true ↔
      ((e.hash = Entry.emptyHash ∧ e.len = 0) ∨ (e.hash ≠ Entry.emptyHash ∧ e.len ≠ 0)) := by
  unfold validateEmpty
  by_cases h1 : e.hash = Entry.emptyHash <;> by_cases h2 : e.len = 0
  · simp [h1, h2]
  · simp [h1, h2]
  · simp [h1, h2]
  · have e1 : (e.hash == Entry.emptyHash) = false := beq_false_of_ne h1
    have e2 : (e.len == 0) = false := beq_false_of_ne h2
    simp [h1, h2, e1, e2]

/-- **Both ingress paths apply exactly the predicate `Valid`.** -/
theorem syncValidate_iff_valid (now : Nat) (ns : Bytes) (e : Entry) :
    syncValidate now ns e = true ↔ Valid now ns e := by
  unfold syncValidate Valid validateEntry
  rw [Bool.and_eq_true, validateEmpty_iff]
  by_cases hn : e.ns = ns
  · by_cases hs1 : e.nsSigOk = true
    · by_cases hs2 : e.authorSigOk = true
      · by_cases ht : e.ts > now + maxFutureShift
        · simp [hn, hs1, hs2, ht]; omega
        · simp [hn, hs1, hs2, ht]; omega
      · simp [hn, hs1, hs2]
    · simp [hn, hs1]
  · simp [hn]

/-- the single remote insert rejects exactly when the predicate fails -/
theorem insertRemote_failed_iff (t : Tables.T) (ns : Bytes) (now : Nat) (e : Entry) :
    (∃ f, (insertRemoteEntry t ns now e).2 = .failed f) ↔ ¬ Valid now ns e := by
  rw [← syncValidate_iff_valid]
  unfold insertRemoteEntry syncValidate
  by_cases h1 : validateEmpty e = true
  · cases h2 : validateEntry now ns e with
    | some f => simp [h1, h2]
    | none =>
      simp only [h1, Bool.not_true, Bool.false_eq_true, if_false, h2, Option.isNone_none, Bool.and_self,
        not_true_eq_false, iff_false, not_exists]
      intro f
      rcases hp : Tables.put t e with ⟨t', o⟩
      cases o <;> simp
  · simp [h1]

/-- **Accepted implies valid (single remote insert).** -/
theorem insertRemote_accepted_implies_valid (t t' : Tables.T) (ns : Bytes) (now n : Nat) (e : Entry)
    (h : insertRemoteEntry t ns now e = (t', .ok n)) : Valid now ns e := by
  by_cases hv : Valid now ns e
  · exact hv
  · obtain ⟨f, hf⟩ := (insertRemote_failed_iff t ns now e).mpr hv
    rw [h] at hf; cases hf

/-- **A rejected entry changes nothing (single remote insert).** -/
theorem insertRemote_rejected_is_noop (t : Tables.T) (ns : Bytes) (now : Nat) (e : Entry)
    (h : ¬ Valid now ns e) : (insertRemoteEntry t ns now e).1 = t := by
  rw [← syncValidate_iff_valid] at h
  unfold insertRemoteEntry
  unfold syncValidate at h
  by_cases h1 : validateEmpty e = true
  · cases h2 : validateEntry now ns e with
    | some f => simp [h1, h2]
    | none => simp [h1, h2] at h
  · simp [h1]

/-! ### inside a reconciliation message -/

/-- the inner loop of `process_message` over the values of one item part -/
def storeValues {S : Type} (ops : Ops S) (validate : Entry → Bool)
    (acc : S × List (Entry × Status)) (values : List (Entry × Status)) : S × List (Entry × Status) :=
  values.foldl (fun (acc : S × List (Entry × Status)) v =>
    let (s, evs) := acc
    if validate v.1 then
      match ops.put s v.1 with
      | (s', .inserted _) => (s', evs ++ [v])
      | (s', .notInserted) => (s', evs)
    else (s, evs)) acc

theorem storeValues_inserted_valid {S : Type} (ops : Ops S) (validate : Entry → Bool)
    (values : List (Entry × Status)) (acc : S × List (Entry × Status))
    (hacc : ∀ v ∈ acc.2, validate v.1 = true) :
    ∀ v ∈ (storeValues ops validate acc values).2, validate v.1 = true := by
  induction values generalizing acc with
  | nil => simpa [storeValues] using hacc
  | cons x rest ih =>
    unfold storeValues
    simp only [List.foldl_cons]
    apply ih
    obtain ⟨s, evs⟩ := acc
    simp only
    by_cases hv : validate x.1 = true
    · simp only [hv, if_true]
      rcases hp : ops.put s x.1 with ⟨s', o⟩
      cases o with
      | notInserted => simpa using hacc
      | inserted n =>
        simp only
        intro v hvm
        rcases List.mem_append.mp hvm with h | h
        · exact hacc v h
        · simp at h; rw [h]; exact hv
    · simp only [hv, Bool.false_eq_true, if_false]; exact hacc

/-- a value that fails validation leaves the store and the announced entries as if it were absent,
wherever it stands among the values -/
theorem storeValues_skip_invalid {S : Type} (ops : Ops S) (validate : Entry → Bool)
    (pre post : List (Entry × Status)) (x : Entry × Status) (acc : S × List (Entry × Status))
    (hx : validate x.1 = false) :
    storeValues ops validate acc (pre ++ x :: post) = storeValues ops validate acc (pre ++ post) := by
  unfold storeValues
  rw [List.foldl_append, List.foldl_append, List.foldl_cons]
  congr 1
  generalize List.foldl _ acc pre = mid
  obtain ⟨s, evs⟩ := mid
  simp [hx]

/-- the item loop of `process_message` as a function of the accumulator -/
theorem processMessage_inserted_valid {S : Type} (ops : Ops S) (cfg : Config) (validate : Entry → Bool)
    (statusOf : Entry → Status) (s : S) (msg : Message) :
    ∀ v ∈ (processMessage ops cfg validate statusOf s msg).inserted, validate v.1 = true := by
  unfold processMessage
  simp only
  -- generalise the item fold
  suffices h : ∀ (items : List (Range × List (Entry × Status) × Bool)) (acc : S × List Part × List (Entry × Status)),
      (∀ v ∈ acc.2.2, validate v.1 = true) →
      ∀ v ∈ (items.foldl (fun (acc : S × List Part × List (Entry × Status)) it =>
        let (s, out, evs) := acc
        let (range, values, haveLocal) := it
        let diff : Option (List (Entry × Status)) :=
          if haveLocal then none
          else some (((ops.getRange s range).filter fun our =>
            !values.any fun (their, _) => decide (Entry.sameId our their) && decide (Entry.valueLe our their)).map
              fun e => (e, statusOf e))
        let (s, evs) := values.foldl (fun (acc : S × List (Entry × Status)) v =>
          let (s, evs) := acc
          if validate v.1 then
            match ops.put s v.1 with
            | (s', .inserted _) => (s', evs ++ [v])
            | (s', .notInserted) => (s', evs)
          else (s, evs)) (s, evs)
        let out := match diff with
          | some d => if d.isEmpty then out else out ++ [.item range d true]
          | none => out
        (s, out, evs)) acc).2.2, validate v.1 = true by
    intro v hv
    exact h _ (s, [], []) (by simp) v hv
  intro items
  induction items with
  | nil => intro acc hacc; simpa using hacc
  | cons it rest ih =>
    intro acc hacc
    simp only [List.foldl_cons]
    apply ih
    obtain ⟨s0, out0, evs0⟩ := acc
    obtain ⟨range, values, haveLocal⟩ := it
    simp only
    have := storeValues_inserted_valid ops validate values (s0, evs0) hacc
    unfold storeValues at this
    rcases hfold : List.foldl _ (s0, evs0) values with ⟨s1, evs1⟩
    rw [hfold] at this
    exact this

/-- **Accepted implies valid (reconciliation path)**: every entry that `sync_process_message`
stores and announces satisfies `Valid` — at every position of every part of any message. -/
theorem sync_inserted_implies_valid (cfg : Config) (t : Tables.T) (ns : Bytes) (now : Nat) (msg : Message)
    (o : Outcome) :
    ∀ v ∈ (syncProcessMessage cfg t ns now msg o).1.inserted, Valid now ns v.1 := by
  intro v hv
  rw [← syncValidate_iff_valid]
  unfold syncProcessMessage at hv
  exact processMessage_inserted_valid (tableOps ns) cfg (syncValidate now ns) (fun _ => 2) t msg v hv

/-- **The two paths agree**: an entry is refused by the single remote insert for failing
validation exactly when the reconciliation path's callback refuses it. -/
theorem paths_agree (t : Tables.T) (ns : Bytes) (now : Nat) (e : Entry) :
    (∃ f, (insertRemoteEntry t ns now e).2 = .failed f) ↔ syncValidate now ns e = false := by
  rw [insertRemote_failed_iff, ← syncValidate_iff_valid]
  simp

/-- **Local writes are well formed**: an entry that passes the guard of `Replica::insert` has a
non-zero length and a non-empty hash, so every other replica's emptiness check accepts it — and a
half-empty shape (empty hash with a length, or a hash with length zero) that the guard stops is
exactly what the remote paths would refuse. -/
theorem local_insert_guard_iff (e : Entry) :
    insertGuard e = false ↔ (e.len ≠ 0 ∧ e.hash ≠ Entry.emptyHash) := by
  unfold insertGuard
  by_cases h1 : e.len = 0 <;> by_cases h2 : e.hash = Entry.emptyHash <;> simp [h1, h2]

theorem local_insert_wellformed (e : Entry) (h : insertGuard e = false) : validateEmpty e = true := by
  obtain ⟨h1, h2⟩ := (local_insert_guard_iff e).mp h
  unfold validateEmpty
  have a : (e.hash == Entry.emptyHash) = false := beq_false_of_ne h2
  have b : (e.len == 0) = false := beq_false_of_ne h1
  rw [a, b]; rfl

theorem half_empty_is_refused_everywhere (e : Entry)
    (h : (e.len = 0 ∧ e.hash ≠ Entry.emptyHash) ∨ (e.len ≠ 0 ∧ e.hash = Entry.emptyHash)) :
    insertGuard e = true ∧ validateEmpty e = false := by
  unfold insertGuard validateEmpty
  rcases h with ⟨h1, h2⟩ | ⟨h1, h2⟩ <;> simp [h1, h2]

/-! ### non-vacuity: the boundary of the future bound and the emptiness combinations -/

private def good (ts len : Nat) (hash : Bytes) : Entry :=
  { ns := [1], author := [2], key := [3], ts := ts, len := len, hash := hash }

example : Valid 1000 [1] (good (1000 + maxFutureShift) 3 [9]) ∧ ¬ Valid 1000 [1] (good (1000 + maxFutureShift + 1) 3 [9]) := by
  decide
example : Valid 0 [1] (good 5 0 Entry.emptyHash) ∧ ¬ Valid 0 [1] (good 5 5 Entry.emptyHash) ∧
    ¬ Valid 0 [1] (good 5 0 [9]) ∧ ¬ Valid 0 [7] (good 5 3 [9]) := by decide
example : ¬ Valid 0 [1] { good 5 3 [9] with authorSigOk := false } := by decide

end Replica
