import DocsModel.Model.Tables
/-!
# C17 — the useful-peer list is a bounded most-recently-used list

Model: `Tables.regStep` (the four branches of `Store::register_useful_peer` on the multimap values
of one document, sorted by `(nanos, peer)`), `registerUsefulPeer`, `getSyncPeers`.

Hypothesis: registration times are strictly increasing (`nanos` comes from the wall clock; two
registrations in the same nanosecond are the excluded point — the harness replays it through hook
H1 and compares only model and implementation there).
-/

namespace Tables

structure PeerInv (cur : List (Nat × Bytes)) (now : Nat) : Prop where
  fresh : ∀ v ∈ cur, v.1 < now
  sorted : cur.Pairwise (fun a b => a.1 < b.1)
  nodup : cur.Pairwise (fun a b => a.2 ≠ b.2)
  len : cur.length ≤ 5

theorem peerInsertSorted_append (v : Nat × Bytes) (l : List (Nat × Bytes)) (h : ∀ x ∈ l, x.1 < v.1) :
    peerInsertSorted v l = l ++ [v] := by
  induction l with
  | nil => rfl
  | cons x xs ih =>
    have hx : x.1 < v.1 := h x List.mem_cons_self
    have h1 : ¬ ltPeer v x := by unfold ltPeer; omega
    have h2 : ltPeer x v := Or.inl hx
    simp [peerInsertSorted, h1, h2, ih (fun y hy => h y (List.mem_cons_of_mem _ hy))]

/-- with distinct peers, removing the one value of peer `p` is the same as filtering by peer -/
theorem filter_ne_eq_filter_peer (l : List (Nat × Bytes)) (n : Nat) (p : Bytes)
    (hmem : (n, p) ∈ l) (hnd : l.Pairwise (fun a b => a.2 ≠ b.2)) :
    l.filter (· != (n, p)) = l.filter (fun v => v.2 != p) := by
  apply List.filter_congr
  intro x hx
  by_cases hxp : x.2 = p
  · -- the only value with peer p is (n, p)
    have hx' : x = (n, p) := by
      by_cases hne : x = (n, p)
      · exact hne
      · exfalso
        rcases List.mem_iff_getElem.mp hx with ⟨i, hi, hieq⟩
        rcases List.mem_iff_getElem.mp hmem with ⟨j, hj, hjeq⟩
        have hij : i ≠ j := by
          intro h; subst h; rw [hieq] at hjeq; exact hne hjeq
        rcases Nat.lt_or_gt_of_ne hij with hlt | hgt
        · have := List.pairwise_iff_getElem.mp hnd i j hi hj hlt
          rw [hieq, hjeq] at this; exact this hxp
        · have := List.pairwise_iff_getElem.mp hnd j i hj hi hgt
          rw [hieq, hjeq] at this; exact this hxp.symm
    subst hx'
    simp
  · have hne : x ≠ (n, p) := fun h => hxp (by rw [h])
    have h1 : (x != (n, p)) = true := by simpa using hne
    have h2 : (x.2 != p) = true := by simpa using hxp
    rw [h1, h2]

theorem mru_append (l : List (Nat × Bytes)) (v : Nat × Bytes) : mru (l ++ [v]) = v.2 :: mru l := by
  simp [mru]

theorem mru_filter (l : List (Nat × Bytes)) (p : Bytes) :
    mru (l.filter (fun v => v.2 != p)) = (mru l).filter (· != p) := by
  simp only [mru, List.filter_reverse, List.filter_map]
  rfl

theorem mru_length (l : List (Nat × Bytes)) : (mru l).length = l.length := by simp [mru]

theorem filter_peer_absent (l : List (Nat × Bytes)) (p : Bytes) (h : ∀ v ∈ l, v.2 ≠ p) :
    l.filter (fun v => v.2 != p) = l := by
  apply List.filter_eq_self.mpr
  intro v hv
  simpa using h v hv

theorem inv_append (cur : List (Nat × Bytes)) (now : Nat) (p : Bytes) (inv : PeerInv cur now)
    (habs : ∀ v ∈ cur, v.2 ≠ p) (hlen : cur.length + 1 ≤ 5) (now' : Nat) (hnow : now < now') :
    PeerInv (cur ++ [(now, p)]) now' := by
  refine ⟨?_, ?_, ?_, by simpa using hlen⟩
  · intro v hv
    rcases List.mem_append.mp hv with h | h
    · exact Nat.lt_trans (inv.fresh v h) hnow
    · simp at h; rw [h]; exact hnow
  · apply List.pairwise_append.mpr
    refine ⟨inv.sorted, by simp, ?_⟩
    intro a ha b hb
    simp at hb; rw [hb]; exact inv.fresh a ha
  · apply List.pairwise_append.mpr
    refine ⟨inv.nodup, by simp, ?_⟩
    intro a ha b hb
    simp at hb; rw [hb]; exact habs a ha

theorem inv_filter (cur : List (Nat × Bytes)) (now : Nat) (f : Nat × Bytes → Bool) (inv : PeerInv cur now) :
    PeerInv (cur.filter f) now :=
  ⟨fun v hv => inv.fresh v (List.mem_filter.mp hv).1,
   inv.sorted.sublist List.filter_sublist,
   inv.nodup.sublist List.filter_sublist,
   Nat.le_trans (List.length_filter_le _ _) inv.len⟩

/-- **One registration** moves the peer to the front of the most-recent-first list, removes its
older occurrence, keeps at most five peers — whichever of the four branches of the code is taken —
and re-establishes the invariant. -/
theorem regStep_spec (cur : List (Nat × Bytes)) (now : Nat) (p : Bytes) (inv : PeerInv cur now)
    (now' : Nat) (hnow : now < now') :
    mru (regStep cur now p) = mruStep (mru cur) p ∧ PeerInv (regStep cur now p) now' := by
  unfold mruStep
  -- the uniform shape of the two "replace" branches
  have replace : ∀ n, (n, p) ∈ cur →
      mru (peerInsertSorted (now, p) (cur.filter (· != (n, p)))) = (p :: (mru cur).filter (· != p)).take 5 ∧
      PeerInv (peerInsertSorted (now, p) (cur.filter (· != (n, p)))) now' := by
    intro n hmem
    rw [filter_ne_eq_filter_peer cur n p hmem inv.nodup]
    have hfresh : ∀ x ∈ cur.filter (fun v => v.2 != p), x.1 < (now, p).1 :=
      fun x hx => inv.fresh x (List.mem_filter.mp hx).1
    rw [peerInsertSorted_append _ _ hfresh, mru_append, mru_filter]
    have hlt : (cur.filter (fun v => v.2 != p)).length < cur.length := by
      apply List.length_filter_lt_length_iff_exists.mpr
      exact ⟨(n, p), hmem, by simp⟩
    have hlen : (cur.filter (fun v => v.2 != p)).length + 1 ≤ 5 := by have := inv.len; omega
    constructor
    · apply (List.take_of_length_le _).symm
      simp only [List.length_cons]
      rw [← mru_filter, mru_length]
      exact hlen
    · apply inv_append _ now p (inv_filter cur now _ inv) _ hlen now' hnow
      intro v hv
      simpa using (List.mem_filter.mp hv).2
  cases hcur : cur with
  | nil =>
    refine ⟨by simp [regStep, mru], ?_⟩
    simp only [regStep]
    exact ⟨by simpa using hnow, by simp, by simp, by simp⟩
  | cons o rest =>
    obtain ⟨on, op⟩ := o
    by_cases hop : op = p
    · -- the oldest entry is this peer
      have := replace on (by rw [hcur, hop]; exact List.mem_cons_self)
      rw [hcur] at this
      simpa [regStep, hop] using this
    · cases hfind : rest.find? (fun v => v.2 == p) with
      | some prev =>
        obtain ⟨pn, pp⟩ := prev
        have hpp : pp = p := by simpa using List.find?_some hfind
        have hmem : (pn, p) ∈ cur := by
          rw [hcur, ← hpp]; exact List.mem_cons_of_mem _ (List.mem_of_find?_eq_some hfind)
        have := replace pn hmem
        rw [hcur] at this
        simpa [regStep, hop, hfind] using this
      | none =>
        -- a peer not in the list
        have habs : ∀ v ∈ cur, v.2 ≠ p := by
          intro v hv
          rw [hcur] at hv
          rcases List.mem_cons.mp hv with h | h
          · rw [h]; exact hop
          · simpa using List.find?_eq_none.mp hfind v h
        have hins : peerInsertSorted (now, p) cur = cur ++ [(now, p)] :=
          peerInsertSorted_append _ _ (fun x hx => inv.fresh x hx)
        have hmrufilter : (mru cur).filter (· != p) = mru cur := by
          rw [← mru_filter, filter_peer_absent cur p habs]
        by_cases hfull : 1 + rest.length + 1 > 5
        · -- the cache is full: the oldest is evicted
          have hlen5 : cur.length = 5 := by have := inv.len; rw [hcur] at this ⊢; simp at this ⊢; omega
          have hrest : cur.filter (· != (on, op)) = rest := by
            rw [hcur, List.filter_cons]
            simp only [bne_self_eq_false, Bool.false_eq_true, if_false]
            apply List.filter_eq_self.mpr
            intro v hv
            have : (on, op).2 ≠ v.2 := by
              have := inv.nodup; rw [hcur] at this
              exact (List.pairwise_cons.mp this).1 v hv
            simp only [bne_iff_ne, ne_eq]
            intro h; rw [h] at this; exact this rfl
          have hres : regStep cur now p = rest ++ [(now, p)] := by
            rw [hcur]
            simp only [regStep, hop, if_false, hfind, hfull, if_true]
            rw [← hcur, hins, List.filter_append, hrest]
            have : ((now, p) != (on, op)) = true := by
              simp only [bne_iff_ne, ne_eq, Prod.mk.injEq, not_and]
              intro _ h; exact hop h.symm
            simp [List.filter_cons, this]
          rw [← hcur, hres, mru_append, hmrufilter]
          have hinvr : PeerInv rest now := by
            have := inv_filter cur now (· != (on, op)) inv
            rwa [hrest] at this
          constructor
          · -- take 5 (p :: mru cur) = p :: mru rest
            have : mru cur = mru rest ++ [op] := by rw [hcur]; simp [mru]
            rw [this]
            have h4 : (mru rest).length = 4 := by
              rw [mru_length]; rw [hcur] at hlen5; simpa using hlen5
            simp [List.take_cons, List.take_append_of_le_length (Nat.le_of_eq h4.symm), List.take_of_length_le (Nat.le_of_eq h4)]
          · apply inv_append rest now p hinvr (fun v hv => habs v (by rw [hcur]; exact List.mem_cons_of_mem _ hv))
              (by have := hlen5; rw [hcur] at this; simp at this; omega) now' hnow
        · have hlen : cur.length + 1 ≤ 5 := by rw [hcur]; simp; omega
          have hres : regStep cur now p = cur ++ [(now, p)] := by
            rw [hcur]
            simp only [regStep, hop, if_false, hfind, hfull]
            rw [← hcur, hins]
          rw [← hcur, hres, mru_append, hmrufilter]
          constructor
          · apply (List.take_of_length_le _).symm
            simp only [List.length_cons, mru_length]; exact hlen
          · exact inv_append cur now p inv habs hlen now' hnow

/-- the times of a history are strictly increasing and not before `now` -/
def Increasing : Nat → List (Nat × Bytes) → Prop
  | _, [] => True
  | now, (t, _) :: rest => now ≤ t ∧ Increasing (t + 1) rest

/-- **Every history.** For any number of registrations with strictly increasing times, the list
returned (most recent first) is the specification's list: each registration moves its peer to the
front without duplicating it, and only the five most recent distinct peers are kept. -/
theorem peers_eq_mru5 (hist : List (Nat × Bytes)) (cur : List (Nat × Bytes)) (now : Nat)
    (inv : PeerInv cur now) (hinc : Increasing now hist) :
    mru (runRegs cur hist) = mruSpec (mru cur) (hist.map (·.2)) ∧ (runRegs cur hist).length ≤ 5 := by
  induction hist generalizing cur now with
  | nil => exact ⟨rfl, inv.len⟩
  | cons h rest ih =>
    obtain ⟨t, p⟩ := h
    obtain ⟨hnt, hrest⟩ := hinc
    have inv' : PeerInv cur t :=
      ⟨fun v hv => Nat.lt_of_lt_of_le (inv.fresh v hv) hnt, inv.sorted, inv.nodup, inv.len⟩
    obtain ⟨hm, hi⟩ := regStep_spec cur t p inv' (t + 1) (Nat.lt_succ_self t)
    have := ih (regStep cur t p) (t + 1) hi hrest
    simp only [runRegs, List.map_cons, mruSpec]
    rw [← hm]
    exact this

/-- from the empty list: what `get_sync_peers` returns after any history -/
theorem peers_from_empty (hist : List (Nat × Bytes)) (hinc : Increasing 0 hist) :
    mru (runRegs [] hist) = mruSpec [] (hist.map (·.2)) :=
  (peers_eq_mru5 hist [] 0 ⟨by simp, by simp, by simp, by simp⟩ hinc).1

/-- registering for an unknown document fails and changes nothing -/
theorem register_unknown_document (t : T) (ns : Bytes) (nanos : Nat) (peer : Bytes)
    (h : nsGet t ns = none) : registerUsefulPeer t ns nanos peer = none := by
  simp [registerUsefulPeer, h]

/-- non-vacuity and the shape of the specification: seven peers, one re-registration -/
example :
    mru (runRegs [] [(1, [1]), (2, [2]), (3, [3]), (4, [4]), (5, [5]), (6, [2]), (7, [6]), (8, [7])])
      = [[7], [6], [2], [5], [4]] := by decide

example : Increasing 0 [(1, [1]), (2, [2]), (3, [3]), (4, [4]), (5, [5]), (6, [2]), (7, [6]), (8, [7])] := by
  simp [Increasing]

end Tables
