import DocsModel.Props.C07
import DocsModel.Model.Actor
import DocsModel.Lemmas.Process
/-!
# C14 — the store actor honours open/close counting and the sync switch

Model: `Actor.step` (`Actor::on_action`, `on_replica_action`, `OpenReplicas::{open_with, close,
replica, replica_if_syncing, ensure_open}`). Requests are handled strictly in queue order; the
reply of a request is the output of its step (async-channel FIFO with a single consumer is trusted).
-/

namespace Actor
open Spec Tables

theorem lookup_filter_ne' {β : Type} (l : List (Bytes × β)) (ns other : Bytes) (h : other ≠ ns) :
    (l.filter (·.1 != ns)).lookup other = l.lookup other := by
  induction l with
  | nil => rfl
  | cons x xs ih =>
    obtain ⟨k, v⟩ := x
    by_cases hk : k = ns
    · have h1 : ((k, v).1 != ns) = false := by simp [hk]
      have h2 : (other == k) = false := by rw [hk]; exact beq_false_of_ne h
      rw [List.filter_cons, h1]
      simp only [Bool.false_eq_true, if_false, List.lookup, h2]
      exact ih
    · have h1 : ((k, v).1 != ns) = true := by simp [hk]
      rw [List.filter_cons, h1]
      simp only [if_true, List.lookup]
      cases other == k <;> simp [ih]

theorem lookup_filter_self {β : Type} (l : List (Bytes × β)) (ns : Bytes) :
    (l.filter (·.1 != ns)).lookup ns = none := by
  induction l with
  | nil => rfl
  | cons x xs ih =>
    obtain ⟨k, v⟩ := x
    by_cases hk : k = ns
    · have h1 : ((k, v).1 != ns) = false := by simp [hk]
      rw [List.filter_cons, h1]; simpa using ih
    · have h1 : ((k, v).1 != ns) = true := by simp [hk]
      have h2 : (ns == k) = false := beq_false_of_ne (fun h => hk h.symm)
      rw [List.filter_cons, h1]
      simp only [if_true, List.lookup, h2]
      exact ih

theorem getOpen_setOpen_same (s : AState) (ns : Bytes) (r : OpenRep) : getOpen (setOpen s ns r) ns = some r := by
  simp [getOpen, setOpen, List.lookup]

theorem getOpen_setOpen_other (s : AState) (ns other : Bytes) (r : OpenRep) (h : other ≠ ns) :
    getOpen (setOpen s ns r) other = getOpen s other := by
  have h2 : (other == ns) = false := beq_false_of_ne h
  simp only [getOpen, setOpen, List.lookup, h2]
  exact lookup_filter_ne' s.states ns other h

theorem getOpen_delOpen_same (s : AState) (ns : Bytes) : getOpen (delOpen s ns) ns = none := by
  simp only [getOpen, delOpen]; exact lookup_filter_self s.states ns

theorem getOpen_delOpen_other (s : AState) (ns other : Bytes) (h : other ≠ ns) :
    getOpen (delOpen s ns) other = getOpen s other := by
  simp only [getOpen, delOpen]; exact lookup_filter_ne' s.states ns other h

/-- data requests: everything that reads or writes entries, subscribes or reconciles -/
def Action.needsOpen : Action → Option Bytes
  | .setSync ns _ | .subscribe ns | .unsubscribe ns | .insertLocal ns _ | .insertRemote ns _ _
  | .getExact ns _ _ _ | .getMany ns | .syncInitial ns | .syncProcess ns _ _ | .getState ns
  | .exportSecret ns => some ns
  | _ => none

/-- **Not open: fails and changes nothing.** -/
theorem not_open_fails_and_is_noop (s : AState) (a : Action) (ns : Bytes) (ha : a.needsOpen = some ns)
    (hclosed : getOpen s ns = none) : step s a = (s, .errNotOpen) := by
  cases a <;> simp [Action.needsOpen] at ha <;> subst ha <;> simp [step, hclosed]

/-- **Close reports whether the document is closed afterwards.** -/
theorem close_reports_closed (s : AState) (ns : Bytes) :
    ∃ b, (step s (.close ns)).2 = .okBool b ∧ (b = true ↔ getOpen (step s (.close ns)).1 ns = none) := by
  simp only [step, closeR]
  cases h : getOpen s ns with
  | none =>
    refine ⟨true, rfl, ?_⟩
    simp only [true_iff]
    show getOpen { s with storeOpen := _ } ns = none
    exact h
  | some r =>
    by_cases h0 : r.handles - 1 = 0
    · simp only [h0, if_true]
      refine ⟨true, rfl, ?_⟩
      simp only [true_iff]
      exact getOpen_delOpen_same s ns
    · simp only [h0, if_false]
      refine ⟨false, rfl, ?_⟩
      simp [getOpen_setOpen_same]

/-- **The sync gate**: remote inserts and reconciliation succeed only while sync is enabled for
the open document. -/
theorem sync_gate (s : AState) (ns : Bytes) (r : OpenRep) (hopen : getOpen s ns = some r) (hoff : r.sync = false)
    (now : Nat) (e : Entry) :
    step s (.insertRemote ns now e) = (s, .errSyncDisabled) ∧ step s (.syncInitial ns) = (s, .errSyncDisabled) ∧
    ∀ msg, step s (.syncProcess ns now msg) = (s, .errSyncDisabled) := by
  simp [step, hopen, hoff]

/-- **Enabling sync is sticky across additional opens**: once on, further opens (with or without
the flag) leave it on; an open with the flag turns it on. -/
theorem sync_sticky_on_open (s : AState) (ns : Bytes) (r : OpenRep) (hopen : getOpen s ns = some r) (sync sub : Bool) :
    ∃ r', getOpen (step s (.openR ns sync sub)).1 ns = some r' ∧ r'.sync = (r.sync || sync) ∧
      r'.handles = r.handles + 1 := by
  simp only [step, hopen]
  exact ⟨_, getOpen_setOpen_same _ _ _, rfl, rfl⟩

/-! ### the invariant of every reachable actor state -/

structure OpenInv (s : AState) : Prop where
  /-- an open document holds at least one handle, is marked open in the store, and its in-memory
  capability equals the stored one -/
  open_ok : ∀ ns r, getOpen s ns = some r →
    r.handles ≥ 1 ∧ ns ∈ s.storeOpen ∧ nsGet s.t ns = some (r.kind, r.raw)
  /-- the store marks exactly the open documents -/
  store_ok : ∀ ns, ns ∈ s.storeOpen → (getOpen s ns).isSome

theorem openInv_init (t : Tables.T) : OpenInv { t := t } :=
  ⟨by intro ns r h; simp [getOpen] at h, by intro ns h; simp at h⟩

theorem nsGet_put (t : Tables.T) (e : Entry) (ns : Bytes) : nsGet (Tables.put t e).1 ns = nsGet t ns := by
  unfold Tables.put
  split
  · rfl
  · simp [nsGet, entryPut, removePrefixFiltered]

theorem nsGet_insertRemote (t : Tables.T) (ns' : Bytes) (now : Nat) (e : Entry) (ns : Bytes) :
    nsGet (Replica.insertRemoteEntry t ns' now e).1 ns = nsGet t ns := by
  unfold Replica.insertRemoteEntry
  split
  · rfl
  · split
    · rfl
    · rcases hp : Tables.put t e with ⟨t', o⟩
      have := nsGet_put t e ns
      rw [hp] at this
      cases o <;> simpa using this

theorem nsGet_remove_other (t : Tables.T) (rm ns : Bytes) (h : ns ≠ rm) :
    nsGet (removeReplica t rm) ns = nsGet t ns := by
  unfold nsGet removeReplica
  simp only
  congr 1
  induction t.namespaces with
  | nil => rfl
  | cons x xs ih =>
    by_cases hx : x.1 = rm
    · have h1 : (x.1 != rm) = false := by simp [hx]
      have h2 : (x.1 == ns) = false := by rw [hx]; exact beq_false_of_ne (fun hh => h hh.symm)
      rw [List.filter_cons, h1]
      simp only [Bool.false_eq_true, if_false, List.find?_cons, h2]
      exact ih
    · have h1 : (x.1 != rm) = true := by simp [hx]
      rw [List.filter_cons, h1]
      simp only [if_true, List.find?_cons]
      rw [ih]

/-- **Every step preserves the invariant.** -/
theorem step_openInv (s : AState) (a : Action) (inv : OpenInv s) : OpenInv (step s a).1 := by
  -- closing one handle
  have close_inv : ∀ ns, OpenInv (closeR s ns).1 := by
    intro ns
    unfold closeR
    cases h : getOpen s ns with
    | none =>
      refine ⟨?_, ?_⟩
      · intro ns' r hr
        have hr' : getOpen s ns' = some r := hr
        obtain ⟨h1, h2, h3⟩ := inv.open_ok ns' r hr'
        refine ⟨h1, ?_, h3⟩
        have hne : ns' ≠ ns := by intro hh; rw [hh, h] at hr'; cases hr'
        simp only [List.mem_filter, bne_iff_ne, ne_eq]
        exact ⟨h2, hne⟩
      · intro ns' hm
        simp only [List.mem_filter] at hm
        exact inv.store_ok ns' hm.1
    | some r =>
      by_cases h0 : r.handles - 1 = 0
      · simp only [h0, if_true]
        refine ⟨?_, ?_⟩
        · intro ns' r' hr
          have hne : ns' ≠ ns := by
            intro hh; rw [hh] at hr
            have := getOpen_delOpen_same s ns
            simp only [getOpen] at this hr
            rw [this] at hr; cases hr
          have hr' : getOpen s ns' = some r' := by
            have := getOpen_delOpen_other s ns ns' hne
            simp only [getOpen] at this hr ⊢
            rw [← this]; exact hr
          obtain ⟨h1, h2, h3⟩ := inv.open_ok ns' r' hr'
          refine ⟨h1, ?_, h3⟩
          simp only [List.mem_filter, bne_iff_ne, ne_eq]
          exact ⟨h2, hne⟩
        · intro ns' hm
          simp only [List.mem_filter, bne_iff_ne, ne_eq] at hm
          have := getOpen_delOpen_other s ns ns' hm.2
          simp only [getOpen] at this ⊢
          rw [this]
          exact inv.store_ok ns' hm.1
      · simp only [h0, if_false]
        obtain ⟨h1, h2, h3⟩ := inv.open_ok ns r h
        refine ⟨?_, ?_⟩
        · intro ns' r' hr
          by_cases hne : ns' = ns
          · subst hne
            rw [getOpen_setOpen_same] at hr
            cases hr
            exact ⟨by simp only; omega, h2, h3⟩
          · rw [getOpen_setOpen_other _ _ _ _ hne] at hr
            exact inv.open_ok ns' r' hr
        · intro ns' hm
          by_cases hne : ns' = ns
          · subst hne; rw [getOpen_setOpen_same]; rfl
          · rw [getOpen_setOpen_other _ _ _ _ hne]; exact inv.store_ok ns' hm
  -- updating fields of an open document that are not part of the invariant
  have set_inv : ∀ ns r r', getOpen s ns = some r → r'.handles ≥ 1 → r'.kind = r.kind → r'.raw = r.raw →
      OpenInv (setOpen s ns r') := by
    intro ns r r' hr hh hk hw
    obtain ⟨_, h2, h3⟩ := inv.open_ok ns r hr
    refine ⟨?_, ?_⟩
    · intro ns' r'' hr''
      by_cases hne : ns' = ns
      · subst hne
        rw [getOpen_setOpen_same] at hr''
        cases hr''
        exact ⟨hh, h2, by rw [hk, hw]; exact h3⟩
      · rw [getOpen_setOpen_other _ _ _ _ hne] at hr''
        exact inv.open_ok ns' r'' hr''
    · intro ns' hm
      by_cases hne : ns' = ns
      · subst hne; rw [getOpen_setOpen_same]; rfl
      · rw [getOpen_setOpen_other _ _ _ _ hne]; exact inv.store_ok ns' hm
  -- replacing the tables without touching the capability rows of open documents
  have tables_inv : ∀ t', (∀ ns, nsGet t' ns = nsGet s.t ns) → OpenInv { s with t := t' } := by
    intro t' ht
    refine ⟨?_, inv.store_ok⟩
    intro ns r hr
    obtain ⟨h1, h2, h3⟩ := inv.open_ok ns r hr
    exact ⟨h1, h2, by rw [ht]; exact h3⟩
  cases a with
  | openR ns sync sub =>
    simp only [step]
    cases h : getOpen s ns with
    | none =>
      cases hn : nsGet s.t ns with
      | none => exact inv
      | some v =>
        obtain ⟨kind, raw⟩ := v
        simp only
        refine ⟨?_, ?_⟩
        · intro ns' r' hr
          by_cases hne : ns' = ns
          · subst hne
            have : getOpen (setOpen s ns' { kind, raw, sync, handles := 1, subscribers := if sub then 1 else 0 }) ns' = _ :=
              getOpen_setOpen_same _ _ _
            simp only [getOpen] at this hr
            rw [this] at hr
            cases hr
            exact ⟨Nat.le_refl _, List.mem_cons_self, hn⟩
          · have := getOpen_setOpen_other s ns ns' { kind, raw, sync, handles := 1, subscribers := if sub then 1 else 0 } hne
            simp only [getOpen] at this hr
            rw [this] at hr
            obtain ⟨h1, h2, h3⟩ := inv.open_ok ns' r' hr
            refine ⟨h1, ?_, h3⟩
            exact List.mem_cons_of_mem _ (List.mem_filter.mpr ⟨h2, by simpa using hne⟩)
        · intro ns' hm
          by_cases hne : ns' = ns
          · subst hne
            have := getOpen_setOpen_same s ns' { kind, raw, sync, handles := 1, subscribers := if sub then 1 else 0 }
            simp only [getOpen] at this ⊢
            rw [this]; rfl
          · have := getOpen_setOpen_other s ns ns' { kind, raw, sync, handles := 1, subscribers := if sub then 1 else 0 } hne
            simp only [getOpen] at this ⊢
            rw [this]
            rcases List.mem_cons.mp hm with hm | hm
            · exact absurd hm hne
            · exact inv.store_ok ns' (List.mem_filter.mp hm).1
    | some r =>
      simp only
      exact set_inv ns r _ h (by simp only; omega) rfl rfl
  | close ns => simp only [step]; exact close_inv ns
  | setSync ns sync =>
    simp only [step]
    cases h : getOpen s ns with
    | none => exact inv
    | some r => exact set_inv ns r _ h (inv.open_ok ns r h).1 rfl rfl
  | subscribe ns =>
    simp only [step]
    cases h : getOpen s ns with
    | none => exact inv
    | some r => exact set_inv ns r _ h (inv.open_ok ns r h).1 rfl rfl
  | unsubscribe ns =>
    simp only [step]
    cases h : getOpen s ns with
    | none => exact inv
    | some r => exact set_inv ns r _ h (inv.open_ok ns r h).1 rfl rfl
  | insertLocal ns e =>
    simp only [step]
    cases h : getOpen s ns with
    | none => exact inv
    | some r =>
      simp only
      split
      · exact inv
      · rcases hp : Tables.put s.t e with ⟨t', o⟩
        cases o with
        | notInserted => exact inv
        | inserted n =>
          simp only
          apply tables_inv
          intro ns'
          have := nsGet_put s.t e ns'
          rw [hp] at this; exact this
  | insertRemote ns now e =>
    simp only [step]
    cases h : getOpen s ns with
    | none => exact inv
    | some r =>
      simp only
      split
      · exact inv
      · rcases hp : Replica.insertRemoteEntry s.t ns now e with ⟨t', res⟩
        cases res with
        | ok n =>
          simp only
          apply tables_inv
          intro ns'
          have := nsGet_insertRemote s.t ns now e ns'
          rw [hp] at this; exact this
        | newerEntryExists => exact inv
        | failed f => exact inv
  | getExact ns author key incl => simp only [step]; cases getOpen s ns <;> exact inv
  | getMany ns => simp only [step]; cases getOpen s ns <;> exact inv
  | syncInitial ns =>
    simp only [step]
    cases getOpen s ns with
    | none => exact inv
    | some r => simp only; split <;> exact inv
  | syncProcess ns now msg =>
    simp only [step]
    cases getOpen s ns with
    | none => exact inv
    | some r =>
      simp only
      split
      · exact inv
      · apply tables_inv
        unfold Replica.syncProcessMessage
        exact Ranger.processMessage_preserves (Ranger.tableOps ns) _ _ _
          (fun t => ∀ ns', nsGet t ns' = nsGet s.t ns')
          (fun t e h ns' => by rw [← h ns']; exact nsGet_put t e ns') s.t msg (fun _ => rfl)
  | getState ns => simp only [step]; cases getOpen s ns <;> exact inv
  | exportSecret ns =>
    simp only [step]
    cases getOpen s ns with
    | none => exact inv
    | some r => simp only; split <;> exact inv
  | dropReplica ns =>
    simp only [step]
    have hc := close_inv ns
    split
    · exact hc
    · rename_i hnot
      -- the document is closed: removing its rows does not concern any open document
      refine ⟨?_, hc.store_ok⟩
      intro ns' r hr
      have hr' : getOpen (closeR s ns).1 ns' = some r := hr
      obtain ⟨h1, h2, h3⟩ := hc.open_ok ns' r hr'
      have hne : ns' ≠ ns := by
        intro hh; rw [hh] at h2
        simp only [List.contains_eq_mem, decide_eq_true_eq] at hnot
        exact hnot h2
      exact ⟨h1, h2, by rw [nsGet_remove_other _ _ _ hne]; exact h3⟩
  | importNamespace ns kind raw =>
    simp only [step]
    rcases himp : Tables.importNamespace s.t ns kind raw with ⟨t', out⟩
    simp only
    have hother : ∀ ns', ns' ≠ ns → nsGet t' ns' = nsGet s.t ns' := by
      intro ns' hne
      have := import_frame s.t ns ns' kind raw hne
      rw [himp] at this; exact this
    cases hopen : getOpen s ns with
    | none =>
      -- not open: only closed documents' rows may change
      have : OpenInv { s with t := t' } := by
        refine ⟨?_, inv.store_ok⟩
        intro ns' r hr
        have hr' : getOpen s ns' = some r := hr
        obtain ⟨h1, h2, h3⟩ := inv.open_ok ns' r hr'
        have hne : ns' ≠ ns := by intro hh; rw [hh, hopen] at hr'; cases hr'
        exact ⟨h1, h2, by rw [hother ns' hne]; exact h3⟩
      have hg : getOpen { s with t := t' } ns = none := hopen
      cases out <;> simp only [hg] <;> exact this
    | some r =>
      obtain ⟨h1, h2, h3⟩ := inv.open_ok ns r hopen
      have hg : getOpen { s with t := t' } ns = some r := hopen
      -- what the stored capability becomes
      have hstored : nsGet t' ns = (if r.kind = 2 ∧ kind = 1 then some (1, raw) else some (r.kind, r.raw)) ∧
          (out = .upgraded ↔ (r.kind = 2 ∧ kind = 1)) := by
        unfold Tables.importNamespace at himp
        rw [h3] at himp
        simp only at himp
        by_cases hc : r.kind = 2 ∧ kind = 1
        · simp only [hc, and_self, if_true] at himp ⊢
          injection himp with ht ho
          subst ht; subst ho
          have := find_nsInsert_same (ns, 1, raw) s.t.namespaces
          simp only at this
          simp [nsGet, this]
        · simp only [hc, if_false] at himp ⊢
          injection himp with ht ho
          subst ht; subst ho
          have := find_nsInsert_same (ns, r.kind, r.raw) s.t.namespaces
          simp only at this
          simp [nsGet, this]
      by_cases hc : r.kind = 2 ∧ kind = 1
      · have hout : out = .upgraded := hstored.2.mpr hc
        subst hout
        simp only [hg]
        refine ⟨?_, ?_⟩
        · intro ns' r' hr
          by_cases hne : ns' = ns
          · subst hne
            have := getOpen_setOpen_same { s with t := t' } ns' { r with kind := 1, raw := raw }
            simp only [getOpen] at this hr
            rw [this] at hr
            cases hr
            exact ⟨h1, h2, by show nsGet t' ns' = _; rw [hstored.1]; simp [hc]⟩
          · have := getOpen_setOpen_other { s with t := t' } ns ns' { r with kind := 1, raw := raw } hne
            simp only [getOpen] at this hr
            rw [this] at hr
            obtain ⟨g1, g2, g3⟩ := inv.open_ok ns' r' hr
            exact ⟨g1, g2, by show nsGet t' ns' = _; rw [hother ns' hne]; exact g3⟩
        · intro ns' hm
          by_cases hne : ns' = ns
          · subst hne
            have := getOpen_setOpen_same { s with t := t' } ns' { r with kind := 1, raw := raw }
            simp only [getOpen] at this ⊢
            rw [this]; rfl
          · have := getOpen_setOpen_other { s with t := t' } ns ns' { r with kind := 1, raw := raw } hne
            simp only [getOpen] at this ⊢
            rw [this]; exact inv.store_ok ns' hm
      · have hout : out ≠ .upgraded := fun h => hc (hstored.2.mp h)
        have hinv' : OpenInv { s with t := t' } := by
          refine ⟨?_, inv.store_ok⟩
          intro ns' r' hr
          have hr' : getOpen s ns' = some r' := hr
          obtain ⟨g1, g2, g3⟩ := inv.open_ok ns' r' hr'
          by_cases hne : ns' = ns
          · subst hne
            rw [hopen] at hr'; cases hr'
            exact ⟨g1, g2, by rw [hstored.1]; simp [hc]⟩
          · exact ⟨g1, g2, by rw [hother ns' hne]; exact g3⟩
        cases out with
        | upgraded => exact absurd rfl hout
        | inserted => simp only [hg]; exact hinv'
        | noChange => simp only [hg]; exact hinv'

/-- **In every reachable state** an open document holds at least one handle, is the store's notion
of "open", and its in-memory capability is the stored one (so an upgrade while open is visible to
writes and `export_secret_key` at once, and nothing is lost on reopen). -/
theorem openInv_reachable (t : Tables.T) (as : List Action) : OpenInv (run { t := t } as).1 := by
  unfold run
  suffices h : ∀ (acc : AState × List Reply), OpenInv acc.1 →
      OpenInv (as.foldl (fun (acc : AState × List Reply) a => let (s', r) := step acc.1 a; (s', acc.2 ++ [r])) acc).1 from
    h _ (openInv_init t)
  induction as with
  | nil => intro acc h; exact h
  | cons a rest ih =>
    intro acc h
    simp only [List.foldl_cons]
    apply ih
    exact step_openInv acc.1 a h

/-- handles: every successful open adds one, every close or drop of an open document releases one -/
theorem handles_step (s : AState) (ns : Bytes) (r : OpenRep) (h : getOpen s ns = some r) (inv : OpenInv s) :
    (∀ sync sub, ∃ r', getOpen (step s (.openR ns sync sub)).1 ns = some r' ∧ r'.handles = r.handles + 1) ∧
    (r.handles ≥ 2 → ∃ r', getOpen (step s (.close ns)).1 ns = some r' ∧ r'.handles = r.handles - 1) ∧
    (r.handles = 1 → getOpen (step s (.close ns)).1 ns = none) := by
  refine ⟨?_, ?_, ?_⟩
  · intro sync sub
    obtain ⟨r', h1, _, h3⟩ := sync_sticky_on_open s ns r h sync sub
    exact ⟨r', h1, h3⟩
  · intro h2
    simp only [step, closeR, h]
    have : ¬ (r.handles - 1 = 0) := by omega
    simp only [this, if_false]
    exact ⟨_, getOpen_setOpen_same _ _ _, rfl⟩
  · intro h1
    simp only [step, closeR, h, h1]
    exact getOpen_delOpen_same s ns

/-- **Removal is refused exactly while another handle holds the document**: with two or more
handles the drop is answered `NotClosed`, releases one handle and leaves every table as it was; with
exactly one handle it closes the document and removes it. -/
theorem drop_refused_iff_other_handle (s : AState) (ns : Bytes) (r : OpenRep) (h : getOpen s ns = some r)
    (inv : OpenInv s) :
    (r.handles ≥ 2 → (step s (.dropReplica ns)).2 = .errNotClosed ∧ (step s (.dropReplica ns)).1.t = s.t) ∧
    (r.handles = 1 → (step s (.dropReplica ns)).2 = .ok ∧
        (step s (.dropReplica ns)).1.t = Tables.removeReplica s.t ns ∧
        getOpen (step s (.dropReplica ns)).1 ns = none) := by
  obtain ⟨_, hmem, _⟩ := inv.open_ok ns r h
  constructor
  · intro h2
    have hne : ¬ (r.handles - 1 = 0) := by omega
    have hc : closeR s ns = (setOpen s ns { r with handles := r.handles - 1 }, false) := by
      simp only [closeR, h, hne, if_false]
    have hso : (setOpen s ns { r with handles := r.handles - 1 }).storeOpen = s.storeOpen := rfl
    simp only [step, hc]
    have : (setOpen s ns { r with handles := r.handles - 1 }).storeOpen.contains ns = true := by
      rw [hso]; exact List.contains_iff_mem.mpr hmem
    simp only [this, if_true]
    exact ⟨trivial, rfl⟩
  · intro h1
    have hc : closeR s ns = ({ delOpen s ns with storeOpen := s.storeOpen.filter (· != ns) }, true) := by
      simp only [closeR, h, h1]; rfl
    simp only [step, hc]
    have : ((s.storeOpen.filter (· != ns)).contains ns) = false := by
      apply Bool.eq_false_iff.mpr
      intro hcon
      have := List.contains_iff_mem.mp hcon
      simp at this
    simp only [this]
    refine ⟨rfl, rfl, ?_⟩
    exact getOpen_delOpen_same s ns

/-- non-vacuity: the corpus case "a refused drop releases a handle" -/
example :
    let t : Tables.T := (Tables.importNamespace {} [1] 1 [9]).1
    (run { t := t } [.openR [1] false false, .openR [1] true false, .dropReplica [1], .getState [1],
      .close [1], .getState [1]]).2 =
    [.ok, .ok, .errNotClosed, .state true 0 1, .okBool true, .errNotOpen] := by decide

end Actor
