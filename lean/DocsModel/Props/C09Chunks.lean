import DocsModel.Props.C09
/-!
# C09 — a stream of frames decodes to the same frames however it is cut into chunks

`FramedRead` feeds the decoder whatever the transport delivers. Here: decoding is *incremental* —
feeding chunks one after the other gives the same frames, the same leftover and the same error as
decoding the concatenation at once (for arbitrary bytes, hostile ones included) — and the
concatenation of encoded frames decodes to exactly these frames.
-/

namespace Codec

/-- a decoded frame stays decoded when more bytes arrive -/
theorem decodeOne_frame_stable (buf x : Bytes) (f : Frame) (rest : Bytes) (h : decodeOne buf = .frame f rest) :
    decodeOne (buf ++ x) = .frame f (rest ++ x) := by
  unfold decodeOne at h ⊢
  by_cases h4 : buf.length < 4
  · simp [h4] at h
  · have h4' : ¬ (buf ++ x).length < 4 := by simp only [List.length_append]; omega
    have htake : (buf ++ x).take 4 = buf.take 4 := by
      rw [List.take_append_of_le_length (by omega)]
    simp only [h4, if_false] at h
    simp only [h4', if_false, htake]
    by_cases hbig : ofBe32 (buf.take 4) > maxMessageSize
    · simp [hbig] at h
    · simp only [hbig, if_false] at h ⊢
      by_cases hshort : buf.length < 4 + ofBe32 (buf.take 4)
      · simp [hshort] at h
      · have hshort' : ¬ (buf ++ x).length < 4 + ofBe32 (buf.take 4) := by
          simp only [List.length_append]; omega
        simp only [hshort, if_false] at h
        simp only [hshort', if_false]
        have hpay : ((buf ++ x).drop 4).take (ofBe32 (buf.take 4)) = (buf.drop 4).take (ofBe32 (buf.take 4)) := by
          rw [List.drop_append_of_le_length (by omega), List.take_append_of_le_length (by simp only [List.length_drop]; omega)]
        rw [hpay]
        cases hd : decFramePayload ((buf.drop 4).take (ofBe32 (buf.take 4))) with
        | none => rw [hd] at h; cases h
        | some f' =>
          rw [hd] at h
          simp only [DecodeResult.frame.injEq] at h ⊢
          refine ⟨h.1, ?_⟩
          rw [← h.2, List.drop_append_of_le_length (by omega)]

/-- an error stays an error -/
theorem decodeOne_error_stable (buf x : Bytes) (h : decodeOne buf = .error) : decodeOne (buf ++ x) = .error := by
  unfold decodeOne at h ⊢
  by_cases h4 : buf.length < 4
  · simp [h4] at h
  · have h4' : ¬ (buf ++ x).length < 4 := by simp only [List.length_append]; omega
    have htake : (buf ++ x).take 4 = buf.take 4 := by
      rw [List.take_append_of_le_length (by omega)]
    simp only [h4, if_false] at h
    simp only [h4', if_false, htake]
    by_cases hbig : ofBe32 (buf.take 4) > maxMessageSize
    · simp [hbig]
    · simp only [hbig, if_false] at h ⊢
      by_cases hshort : buf.length < 4 + ofBe32 (buf.take 4)
      · simp [hshort] at h
      · have hshort' : ¬ (buf ++ x).length < 4 + ofBe32 (buf.take 4) := by
          simp only [List.length_append]; omega
        simp only [hshort, if_false] at h
        simp only [hshort', if_false]
        have hpay : ((buf ++ x).drop 4).take (ofBe32 (buf.take 4)) = (buf.drop 4).take (ofBe32 (buf.take 4)) := by
          rw [List.drop_append_of_le_length (by omega), List.take_append_of_le_length (by simp only [List.length_drop]; omega)]
        rw [hpay]
        cases hd : decFramePayload ((buf.drop 4).take (ofBe32 (buf.take 4))) with
        | none => rfl
        | some f' => rw [hd] at h; cases h

/-- a decoded frame consumed at least its four length bytes -/
theorem decodeOne_frame_shorter (buf : Bytes) (f : Frame) (rest : Bytes) (h : decodeOne buf = .frame f rest) :
    rest.length + 4 ≤ buf.length := by
  unfold decodeOne at h
  by_cases h4 : buf.length < 4
  · simp [h4] at h
  · simp only [h4, if_false] at h
    by_cases hbig : ofBe32 (buf.take 4) > maxMessageSize
    · simp [hbig] at h
    · simp only [hbig, if_false] at h
      by_cases hshort : buf.length < 4 + ofBe32 (buf.take 4)
      · simp [hshort] at h
      · simp only [hshort, if_false] at h
        cases hd : decFramePayload ((buf.drop 4).take (ofBe32 (buf.take 4))) with
        | none => rw [hd] at h; cases h
        | some f' =>
          rw [hd] at h
          simp only [DecodeResult.frame.injEq] at h
          rw [← h.2, List.length_drop]
          omega

theorem decodeAll_succ (fuel : Nat) (buf : Bytes) :
    decodeAll (fuel + 1) buf =
      match decodeOne buf with
      | .frame f rest => (f :: (decodeAll fuel rest).1, (decodeAll fuel rest).2)
      | .needMore => ([], some buf)
      | .error => ([], none) := by
  simp only [decodeAll]
  cases decodeOne buf <;> rfl

/-- fuel beyond the buffer length changes nothing -/
theorem decodeAll_fuel (buf : Bytes) : ∀ fuel, buf.length < fuel → decodeAll fuel buf = decodeAll (buf.length + 1) buf := by
  induction hn : buf.length using Nat.strongRecOn generalizing buf with
  | _ n ih =>
    intro fuel hf
    cases fuel with
    | zero => omega
    | succ fuel =>
      rw [decodeAll_succ, decodeAll_succ]
      cases hd : decodeOne buf with
      | needMore => rfl
      | error => rfl
      | frame f rest =>
        have hlt := decodeOne_frame_shorter buf f rest hd
        simp only
        have h1 := ih rest.length (by omega) rest rfl fuel (by omega)
        have h2 := ih rest.length (by omega) rest rfl n (by omega)
        rw [h1, h2]

/-- decode everything the buffer holds -/
def decodeBuf (buf : Bytes) : List Frame × Option Bytes := decodeAll (buf.length + 1) buf

theorem decodeBuf_unfold (buf : Bytes) :
    decodeBuf buf =
      match decodeOne buf with
      | .frame f rest => ((f :: (decodeBuf rest).1), (decodeBuf rest).2)
      | .needMore => ([], some buf)
      | .error => ([], none) := by
  unfold decodeBuf
  rw [decodeAll_succ]
  cases hd : decodeOne buf with
  | needMore => rfl
  | error => rfl
  | frame f rest =>
    have hlt := decodeOne_frame_shorter buf f rest hd
    simp only
    rw [decodeAll_fuel rest buf.length (by omega)]

/-- **Decoding is incremental**: the frames of `buf ++ x` are the frames of `buf`, then the frames
of (what `buf` left over) `++ x`; an error in `buf` stays. Holds for arbitrary bytes. -/
theorem decodeBuf_append (buf x : Bytes) :
    decodeBuf (buf ++ x) =
      match (decodeBuf buf).2 with
      | some rest => ((decodeBuf buf).1 ++ (decodeBuf (rest ++ x)).1, (decodeBuf (rest ++ x)).2)
      | none => ((decodeBuf buf).1, none) := by
  induction hn : buf.length using Nat.strongRecOn generalizing buf with
  | _ n ih =>
    rw [decodeBuf_unfold buf]
    cases hd : decodeOne buf with
    | needMore => simp
    | error =>
      simp only
      rw [decodeBuf_unfold (buf ++ x), decodeOne_error_stable buf x hd]
    | frame f rest =>
      have hlt := decodeOne_frame_shorter buf f rest hd
      simp only
      rw [decodeBuf_unfold (buf ++ x), decodeOne_frame_stable buf x f rest hd]
      simp only
      rw [ih rest.length (by omega) rest rfl]
      cases (decodeBuf rest).2 with
      | none => rfl
      | some r => simp

/-- feeding chunks = decoding the concatenation -/
theorem feedChunks_eq (buf : Bytes) (chunks : List Bytes) :
    feedChunks buf chunks =
      if chunks = [] then ([], some buf) else decodeBuf (buf ++ chunks.flatten) := by
  induction chunks generalizing buf with
  | nil => simp [feedChunks]
  | cons c cs ih =>
    simp only [List.cons_ne_nil, if_false, List.flatten_cons]
    unfold feedChunks
    show (match decodeBuf (buf ++ c) with
      | (fs, some rest) => ((fs ++ (feedChunks rest cs).1), (feedChunks rest cs).2)
      | (fs, none) => (fs, none)) = _
    rw [← List.append_assoc, decodeBuf_append (buf ++ c) cs.flatten]
    rcases hb : decodeBuf (buf ++ c) with ⟨fs, r⟩
    cases r with
    | none => rfl
    | some rest =>
      simp only
      rw [ih rest]
      by_cases hcs : cs = []
      · subst hcs
        simp only [if_true, List.flatten_nil, List.append_nil]
        -- what was left over needs more bytes: decoding it again yields nothing new
        have hrest : decodeBuf rest = ([], some rest) := by
          have := decodeBuf_append (buf ++ c) []
          rw [List.append_nil, hb] at this
          simp only [List.append_nil] at this
          -- decodeBuf (buf ++ c) = (fs ++ (decodeBuf rest).1, (decodeBuf rest).2)
          have h1 : (decodeBuf rest).2 = some rest := by
            have := congrArg Prod.snd this
            simpa using this.symm
          have h2 : fs ++ (decodeBuf rest).1 = fs := by
            have := congrArg Prod.fst this
            simpa using this.symm
          have h3 : (decodeBuf rest).1 = [] := by
            have := congrArg List.length h2
            simp only [List.length_append] at this
            exact List.eq_nil_of_length_eq_zero (by omega)
          exact Prod.ext h3 h1
        rw [hrest]; simp
      · simp [hcs]

/-- the byte stream of a list of frames -/
def encStream : List Frame → Option Bytes
  | [] => some []
  | f :: fs => do
    let b ← encFrame f
    let bs ← encStream fs
    pure (b ++ bs)

theorem decodeBuf_encStream (fs : List Frame) (hwf : ∀ f ∈ fs, WfFrame f) (s : Bytes) (hs : encStream fs = some s) :
    decodeBuf s = (fs, some []) := by
  induction fs generalizing s with
  | nil =>
    simp only [encStream, Option.some.injEq] at hs
    subst hs
    rw [decodeBuf_unfold, short_needs_more [] (by simp)]
  | cons f rest ih =>
    unfold encStream at hs
    cases hb : encFrame f with
    | none => rw [hb] at hs; cases hs
    | some b =>
      cases hbs : encStream rest with
      | none => rw [hb, hbs] at hs; cases hs
      | some bs =>
        rw [hb, hbs] at hs
        simp only [Option.bind_eq_bind, Option.bind_some, Option.pure_def, Option.some.injEq] at hs
        subst hs
        rw [decodeBuf_unfold, decodeOne_encFrame f (hwf f List.mem_cons_self) b bs hb]
        simp only
        rw [ih (fun g hg => hwf g (List.mem_cons_of_mem _ hg)) bs hbs]

/-- **Any chunking.** However the byte stream of well-formed frames is cut into (possibly empty)
chunks, the framed reader yields exactly these frames, in order, and is left with an empty buffer. -/
theorem frames_any_chunking (fs : List Frame) (hwf : ∀ f ∈ fs, WfFrame f) (s : Bytes) (hs : encStream fs = some s)
    (chunks : List Bytes) (hc : chunks.flatten = s) (hne : chunks ≠ []) :
    feedChunks [] chunks = (fs, some []) := by
  rw [feedChunks_eq, if_neg hne, List.nil_append, hc]
  exact decodeBuf_encStream fs hwf s hs

end Codec
