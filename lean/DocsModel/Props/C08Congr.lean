import DocsModel.Lemmas.Process
import DocsModel.Lemmas.Ranges
import DocsModel.Props.C08
/-!
# C08 — `process_message` on the redb tables and on the ordered map produce the same messages

The store primitives refine the ordered-map definitions (`Props/C08.lean`). Here the refinement is
carried through `process_message` and through a whole session: for the same incoming message the
table-backed replica and the ordered map send the same reply, announce the same inserted entries,
and end in corresponding states.
-/

namespace Tables
open Bytes Spec Entry Ranger

/-! ### `put` commutes with restricting the records table to one document -/

theorem insertSorted_all_lt (e : Entry) (l : Store) (h : ∀ y ∈ l, idLt e y) : insertSorted e l = e :: l := by
  cases l with
  | nil => rfl
  | cons x xs => simp [insertSorted, h x List.mem_cons_self]

theorem insertSorted_cons (e x : Entry) (xs : Store) :
    insertSorted e (x :: xs) =
      if idLt e x then e :: x :: xs else if idLt x e then x :: insertSorted e xs else e :: xs := rfl

theorem filter_insertSorted (ns : Bytes) (e : Entry) (he : e.ns = ns) (l : Store) (hs : SortedById l) :
    (insertSorted e l).filter (fun c => c.ns == ns) = insertSorted e (l.filter (fun c => c.ns == ns)) := by
  induction l with
  | nil => simp [insertSorted, he]
  | cons x xs ih =>
    have hxs : SortedById xs := (List.pairwise_cons.mp hs).2
    have hx : ∀ y ∈ xs, idLt x y := (List.pairwise_cons.mp hs).1
    have hfe : (e.ns == ns) = true := by simp [he]
    rw [insertSorted_cons]
    by_cases h1 : idLt e x
    · simp only [h1, if_true]
      have hall : ∀ y ∈ (x :: xs).filter (fun c => c.ns == ns), idLt e y := by
        intro y hy
        rcases List.mem_cons.mp (List.mem_filter.mp hy).1 with h | h
        · exact h ▸ h1
        · exact idLt_trans h1 (hx y h)
      rw [insertSorted_all_lt e _ hall]
      rw [List.filter_cons]
      simp only [hfe, if_true]
    · simp only [h1, if_false]
      by_cases h2 : idLt x e
      · simp only [h2, if_true]
        by_cases hfx : x.ns = ns
        · have hfx' : (x.ns == ns) = true := by simp [hfx]
          rw [List.filter_cons, List.filter_cons]
          simp only [hfx', if_true]
          rw [ih hxs, insertSorted_cons]
          simp only [h1, if_false, h2, if_true]
        · have hfx' : (x.ns == ns) = false := by simp [hfx]
          rw [List.filter_cons, List.filter_cons]
          simp only [hfx', Bool.false_eq_true, if_false]
          exact ih hxs
      · simp only [h2, if_false]
        have hsame := sameId_of_not_idLt h1 h2
        have hfx' : (x.ns == ns) = true := by simp [← hsame.1, he]
        rw [List.filter_cons, List.filter_cons]
        simp only [hfx', hfe, if_true]
        rw [insertSorted_cons]
        simp only [h1, if_false, h2]

theorem dom_same_ns {p e : Entry} (h : dom p e) : p.ns = e.ns := h.1.1

/-- `Store::put` looks only at the document of the entry -/
theorem put_filter_ns (ns : Bytes) (s : Store) (hs : SortedById s) (e : Entry) (he : e.ns = ns) :
    (Spec.put s e).1.filter (fun c => c.ns == ns) = (Spec.put (s.filter (fun c => c.ns == ns)) e).1 ∧
    (Spec.put s e).2 = (Spec.put (s.filter (fun c => c.ns == ns)) e).2 := by
  have hblock : (∃ p ∈ s, dom p e) ↔ (∃ p ∈ s.filter (fun c => c.ns == ns), dom p e) := by
    constructor
    · rintro ⟨p, hp, hd⟩
      exact ⟨p, List.mem_filter.mpr ⟨hp, by simp [dom_same_ns hd, he]⟩, hd⟩
    · rintro ⟨p, hp, hd⟩
      exact ⟨p, (List.mem_filter.mp hp).1, hd⟩
  by_cases hb : ∃ p ∈ s, dom p e
  · rw [put_blocked hb, put_blocked (hblock.mp hb)]
    exact ⟨rfl, rfl⟩
  · rw [put_free hb, put_free (fun h => hb (hblock.mpr h))]
    simp only
    constructor
    · rw [filter_insertSorted ns e he _ (sorted_filter hs _)]
      congr 1
      rw [List.filter_filter, List.filter_filter]
      apply List.filter_congr
      intro c _
      exact Bool.and_comm _ _
    · congr 1
      rw [List.filter_filter]
      congr 1
      apply List.filter_congr
      intro c _
      by_cases hd : dom e c
      · have : c.ns = ns := by rw [← he]; exact (dom_same_ns hd).symm
        simp [hd, this]
      · simp [hd]

/-- the document's slice of the records after a table-level `put` -/
theorem nsRecords_put (t : T) (ns : Bytes) (e : Entry) (inv : TablesInv t) (he : Wf e) (hens : e.ns = ns) :
    nsRecords (Tables.put t e).1 ns = (Spec.put (nsRecords t ns) e).1 ∧
    (Tables.put t e).2 = (Spec.put (nsRecords t ns) e).2 := by
  obtain ⟨h1, h2⟩ := put_refines t e inv.sorted inv.wfRec he
  obtain ⟨h3, h4⟩ := put_filter_ns ns t.records inv.sorted e hens
  unfold nsRecords
  rw [h1, h2]
  exact ⟨h3, h4⟩


/-! ### the refinement relation and the primitives under it -/

/-- ranges whose bounds are identifiers of the document (or the full range `x = y`) -/
def RangeOk (ns : Bytes) (r : Range) : Prop := r.x = r.y ∨ (InNs ns r.x ∧ InNs ns r.y)

/-- the tables `t` hold, for document `ns`, exactly the ordered map `s` -/
structure Rel (ns : Bytes) (t : T) (s : Store) : Prop where
  inv : TablesInv t
  eq : s = nsRecords t ns

section
variable (ns : Bytes) (hns : ns.length = 32) (validate : Entry → Bool) (statusOf : Entry → Status)
variable (hv : ∀ e, validate e = true → e.ns = ns ∧ Wf e)
include hns

theorem tgetRange {t : T} {s : Store} (rel : Rel ns t s) (r : Range) (hr : RangeOk ns r) :
    (tableOps ns).getRange t r = mapOps.getRange s r := by
  rw [rel.eq]
  exact getRange_refines t ns r.x r.y rel.inv hns hr

theorem tgetFingerprint {t : T} {s : Store} (rel : Rel ns t s) (r : Range) (hr : RangeOk ns r) :
    (tableOps ns).getFingerprint t r = mapOps.getFingerprint s r := by
  rw [rel.eq]
  exact getFingerprint_refines t ns r.x r.y rel.inv hns hr

include hv in
theorem valStep_congr {t : T} {s : Store} (rel : Rel ns t s) (evs : Vals) (v : Entry × Status) :
    Rel ns (valStep (tableOps ns) validate (t, evs) v).1 (valStep mapOps validate (s, evs) v).1 ∧
    (valStep (tableOps ns) validate (t, evs) v).2 = (valStep mapOps validate (s, evs) v).2 := by
  unfold valStep
  simp only
  by_cases hval : validate v.1 = true
  · simp only [hval, if_true]
    obtain ⟨hens, hwf⟩ := hv v.1 hval
    obtain ⟨h1, h2⟩ := nsRecords_put t ns v.1 rel.inv hwf hens
    have hinv := put_tablesInv t v.1 hwf rel.inv
    rw [← rel.eq] at h1 h2
    have e1 : (tableOps ns).put t v.1 = Tables.put t v.1 := rfl
    have e2 : mapOps.put s v.1 = Spec.put s v.1 := rfl
    rw [e1, e2]
    rcases hp : Tables.put t v.1 with ⟨t', o⟩
    rcases hq : Spec.put s v.1 with ⟨s', o'⟩
    rw [hp] at h1 h2 hinv
    rw [hq] at h1 h2
    simp only at h1 h2 hinv
    subst h2
    cases o <;> exact ⟨⟨hinv, h1.symm⟩, rfl⟩
  · simp only [hval, Bool.false_eq_true, if_false]
    exact ⟨rel, trivial⟩

include hv in
theorem storeVals_congr {t : T} {s : Store} (rel : Rel ns t s) (evs : Vals) (values : Vals) :
    Rel ns (storeVals (tableOps ns) validate (t, evs) values).1 (storeVals mapOps validate (s, evs) values).1 ∧
    (storeVals (tableOps ns) validate (t, evs) values).2 = (storeVals mapOps validate (s, evs) values).2 := by
  induction values generalizing t s evs with
  | nil => exact ⟨rel, rfl⟩
  | cons v rest ih =>
    rw [storeVals_cons, storeVals_cons]
    obtain ⟨h1, h2⟩ := valStep_congr ns hns validate hv rel evs v
    have := ih h1 (valStep (tableOps ns) validate (t, evs) v).2
    rw [h2] at this
    have e1 : valStep (tableOps ns) validate (t, evs) v =
        ((valStep (tableOps ns) validate (t, evs) v).1, (valStep mapOps validate (s, evs) v).2) := by
      rw [← h2]
    have e2 : valStep mapOps validate (s, evs) v =
        ((valStep mapOps validate (s, evs) v).1, (valStep mapOps validate (s, evs) v).2) := rfl
    rw [e1, e2]
    exact this

theorem diffOf_congr {t : T} {s : Store} (rel : Rel ns t s) (r : Range) (hr : RangeOk ns r) (vs : Vals) :
    diffOf (tableOps ns) statusOf t r vs = diffOf mapOps statusOf s r vs := by
  unfold diffOf
  rw [tgetRange ns hns rel r hr]

include hv in
theorem itemStep_congr {t : T} {s : Store} (rel : Rel ns t s) (out : List Part) (evs : Vals)
    (it : Range × Vals × Bool) (hr : RangeOk ns it.1) :
    Rel ns (itemStep (tableOps ns) validate statusOf (t, out, evs) it).1
           (itemStep mapOps validate statusOf (s, out, evs) it).1 ∧
    (itemStep (tableOps ns) validate statusOf (t, out, evs) it).2 =
      (itemStep mapOps validate statusOf (s, out, evs) it).2 := by
  obtain ⟨r, vs, hl⟩ := it
  obtain ⟨h1, h2⟩ := storeVals_congr ns hns validate hv rel evs vs
  have hd := diffOf_congr ns hns statusOf rel r hr vs
  unfold itemStep
  simp only
  rw [hd]
  exact ⟨h1, by rw [h2]⟩


def partRange : Part → Range
  | .fingerprint r _ => r
  | .item r _ _ => r

/-- every range of the message is about this document -/
def MsgOk (ns : Bytes) (m : Message) : Prop := ∀ p ∈ m, RangeOk ns (partRange p)

theorem itemsOf_ok {m : Message} (h : MsgOk ns m) : ∀ it ∈ itemsOf m, RangeOk ns it.1 := by
  intro it hit
  unfold itemsOf at hit
  rw [List.mem_filterMap] at hit
  obtain ⟨p, hp, hpe⟩ := hit
  cases p with
  | fingerprint _ _ => simp at hpe
  | item r vs hl => simp at hpe; subst hpe; exact h _ hp

theorem fpsOf_ok {m : Message} (h : MsgOk ns m) : ∀ it ∈ fpsOf m, RangeOk ns it.1 := by
  intro it hit
  unfold fpsOf at hit
  rw [List.mem_filterMap] at hit
  obtain ⟨p, hp, hpe⟩ := hit
  cases p with
  | item _ _ _ => simp at hpe
  | fingerprint r fp => simp at hpe; subst hpe; exact h _ hp

include hv in
theorem foldI_congr (items : List (Range × Vals × Bool)) (hok : ∀ it ∈ items, RangeOk ns it.1)
    {t : T} {s : Store} (rel : Rel ns t s) (out : List Part) (evs : Vals) :
    Rel ns (items.foldl (itemStep (tableOps ns) validate statusOf) (t, out, evs)).1
           (items.foldl (itemStep mapOps validate statusOf) (s, out, evs)).1 ∧
    (items.foldl (itemStep (tableOps ns) validate statusOf) (t, out, evs)).2 =
      (items.foldl (itemStep mapOps validate statusOf) (s, out, evs)).2 := by
  induction items generalizing t s out evs with
  | nil => exact ⟨rel, rfl⟩
  | cons it rest ih =>
    simp only [List.foldl_cons]
    obtain ⟨h1, h2⟩ := itemStep_congr ns hns validate statusOf hv rel out evs it (hok it List.mem_cons_self)
    have e1 : itemStep (tableOps ns) validate statusOf (t, out, evs) it =
        ((itemStep (tableOps ns) validate statusOf (t, out, evs) it).1,
         (itemStep mapOps validate statusOf (s, out, evs) it).2.1,
         (itemStep mapOps validate statusOf (s, out, evs) it).2.2) := by
      rw [← h2]
    have e2 : itemStep mapOps validate statusOf (s, out, evs) it =
        ((itemStep mapOps validate statusOf (s, out, evs) it).1,
         (itemStep mapOps validate statusOf (s, out, evs) it).2.1,
         (itemStep mapOps validate statusOf (s, out, evs) it).2.2) := rfl
    rw [e1, e2]
    exact ih (fun x hx => hok x (List.mem_cons_of_mem _ hx)) h1 _ _

/-! ### the ranges of a split are about the same document -/

theorem pivotOf_mem (k : Nat) (x : Bytes) (els : List Entry) (hne : els ≠ []) (i : Nat) :
    ∃ e ∈ els, pivotOf k x els i = e.idBytes := by
  unfold pivotOf
  have hn : 0 < els.length := List.length_pos_iff.mpr hne
  have hidx := Nat.mod_lt ((els.takeWhile (fun el => decide (el.idBytes < x))).length +
    (els.length * (i % k + 1)) / k) hn
  rw [List.getElem?_eq_getElem hidx]
  exact ⟨_, List.getElem_mem hidx, rfl⟩

theorem splitRanges_ok (cfg : Config) (r : Range) (hr : RangeOk ns r) (els : List Entry) (hne : els ≠ [])
    (hels : ∀ e ∈ els, InNs ns e.idBytes) : ∀ c ∈ splitRanges cfg r els, RangeOk ns c := by
  have hp : ∀ i, InNs ns (pivotOf cfg.splitFactor r.x els i) := by
    intro i
    obtain ⟨e, he, heq⟩ := pivotOf_mem ns hns cfg.splitFactor r.x els hne i
    rw [heq]; exact hels e he
  intro c hc
  rw [splitRanges_eq] at hc
  by_cases hxy : r.x = r.y
  · simp only [hxy, if_true] at hc
    rw [List.mem_filterMap] at hc
    obtain ⟨i, _, hci⟩ := hc
    split at hci
    · simp only [Option.some.injEq] at hci
      subst hci
      rw [← hxy]
      exact Or.inr ⟨hp i, hp (i + 1)⟩
    · simp at hci
  · simp only [hxy, if_false] at hc
    have hxy' : InNs ns r.x ∧ InNs ns r.y := hr.resolve_left hxy
    rcases List.mem_append.mp hc with hc | hc
    · rcases List.mem_append.mp hc with hc | hc
      · simp only [List.mem_singleton] at hc
        subst hc
        exact Or.inr ⟨hxy'.1, hp 0⟩
      · rw [List.mem_filterMap] at hc
        obtain ⟨i, _, hci⟩ := hc
        split at hci
        · simp only [Option.some.injEq] at hci
          subst hci
          exact Or.inr ⟨hp i, hp (i + 1)⟩
        · simp at hci
    · simp only [List.mem_singleton] at hc
      subst hc
      exact Or.inr ⟨hp _, hxy'.2⟩

theorem inNs_of_mem {t : T} (inv : TablesInv t) (e : Entry) (he : e ∈ nsRecords t ns) : InNs ns e.idBytes := by
  unfold nsRecords at he
  obtain ⟨hmem, hens⟩ := List.mem_filter.mp he
  have hwf := inv.wfRec e hmem
  refine ⟨idWf_idBytes e hwf, ?_⟩
  rw [idTuple_idBytes e hwf]
  simpa [rk] using hens

theorem fpStep_congr (cfg : Config) {t : T} {s : Store} (rel : Rel ns t s) (out : List Part)
    (it : Range × Bytes) (hr : RangeOk ns it.1) :
    fpStep (tableOps ns) cfg statusOf t out it = fpStep mapOps cfg statusOf s out it := by
  obtain ⟨r, fp⟩ := it
  unfold fpStep
  simp only
  rw [tgetFingerprint ns hns rel r hr, tgetRange ns hns rel r hr]
  split
  · rfl
  · split
    · rfl
    · rename_i hbig
      congr 1
      apply List.map_congr_left
      intro c hc
      have hne : mapOps.getRange s r ≠ [] := by
        intro h
        apply hbig
        left
        rw [h]; simp
      have hels : ∀ e ∈ mapOps.getRange s r, InNs ns e.idBytes := by
        intro e he
        have : e ∈ s := by
          simp only [mapOps, List.mem_filter] at he
          exact he.1
        rw [rel.eq] at this
        exact inNs_of_mem ns hns rel.inv e this
      have hcok := splitRanges_ok ns hns cfg r hr _ hne hels c hc
      rw [tgetRange ns hns rel c hcok, tgetFingerprint ns hns rel c hcok]

theorem foldF_congr (cfg : Config) {t : T} {s : Store} (rel : Rel ns t s) (fps : List (Range × Bytes))
    (hok : ∀ it ∈ fps, RangeOk ns it.1) (out : List Part) :
    fps.foldl (fpStep (tableOps ns) cfg statusOf t) out = fps.foldl (fpStep mapOps cfg statusOf s) out := by
  induction fps generalizing out with
  | nil => rfl
  | cons it rest ih =>
    simp only [List.foldl_cons]
    rw [fpStep_congr ns hns statusOf cfg rel out it (hok it List.mem_cons_self)]
    exact ih (fun x hx => hok x (List.mem_cons_of_mem _ hx)) _

include hv in
/-- **`process_message` on the tables = `process_message` on the ordered map**: same reply, same
announced entries, corresponding stores. -/
theorem processMessage_congr (cfg : Config) {t : T} {s : Store} (rel : Rel ns t s) (m : Message) (hm : MsgOk ns m) :
    (processMessage (tableOps ns) cfg validate statusOf t m).reply =
      (processMessage mapOps cfg validate statusOf s m).reply ∧
    (processMessage (tableOps ns) cfg validate statusOf t m).inserted =
      (processMessage mapOps cfg validate statusOf s m).inserted ∧
    Rel ns (processMessage (tableOps ns) cfg validate statusOf t m).store
           (processMessage mapOps cfg validate statusOf s m).store := by
  rw [processMessage_eq, processMessage_eq]
  simp only
  obtain ⟨h1, h2⟩ := foldI_congr ns hns validate statusOf hv (itemsOf m) (itemsOf_ok ns hns hm) rel [] []
  have hout : ((itemsOf m).foldl (itemStep (tableOps ns) validate statusOf) (t, [], [])).2.1 =
      ((itemsOf m).foldl (itemStep mapOps validate statusOf) (s, [], [])).2.1 := by rw [h2]
  have hevs : ((itemsOf m).foldl (itemStep (tableOps ns) validate statusOf) (t, [], [])).2.2 =
      ((itemsOf m).foldl (itemStep mapOps validate statusOf) (s, [], [])).2.2 := by rw [h2]
  have hF := foldF_congr ns hns statusOf cfg h1 (fpsOf m) (fpsOf_ok ns hns hm)
    ((itemsOf m).foldl (itemStep mapOps validate statusOf) (s, [], [])).2.1
  rw [hout, hF]
  exact ⟨rfl, hevs, h1⟩


/-! ### the reply is again about this document, and whole sessions agree -/

theorem itemStep_out_ok {S : Type} (ops : Ops S) (acc : S × List Part × Vals) (it : Range × Vals × Bool)
    (hacc : ∀ p ∈ acc.2.1, RangeOk ns (partRange p)) (hit : RangeOk ns it.1) :
    ∀ p ∈ (itemStep ops validate statusOf acc it).2.1, RangeOk ns (partRange p) := by
  obtain ⟨s, out, evs⟩ := acc
  obtain ⟨r, vs, hl⟩ := it
  unfold itemStep
  simp only
  cases hl with
  | true => simpa using hacc
  | false =>
    simp only [Bool.false_eq_true, if_false]
    split
    · exact hacc
    · intro p hp
      rcases List.mem_append.mp hp with h | h
      · exact hacc p h
      · simp only [List.mem_singleton] at h
        subst h; exact hit

theorem foldI_out_ok' {S : Type} (ops : Ops S) (items : List (Range × Vals × Bool))
    (hok : ∀ it ∈ items, RangeOk ns it.1) (acc : S × List Part × Vals)
    (hacc : ∀ p ∈ acc.2.1, RangeOk ns (partRange p)) :
    ∀ p ∈ (items.foldl (itemStep ops validate statusOf) acc).2.1, RangeOk ns (partRange p) := by
  induction items generalizing acc with
  | nil => exact hacc
  | cons it rest ih =>
    simp only [List.foldl_cons]
    exact ih (fun x hx => hok x (List.mem_cons_of_mem _ hx)) _
      (itemStep_out_ok ns hns validate statusOf ops acc it hacc (hok it List.mem_cons_self))

theorem fpStep_out_ok (cfg : Config) {t : T} {s : Store} (rel : Rel ns t s) (out : List Part)
    (it : Range × Bytes) (hr : RangeOk ns it.1) (hout : ∀ p ∈ out, RangeOk ns (partRange p)) :
    ∀ p ∈ fpStep mapOps cfg statusOf s out it, RangeOk ns (partRange p) := by
  obtain ⟨r, fp⟩ := it
  unfold fpStep
  simp only
  split
  · exact hout
  · split
    · intro p hp
      rcases List.mem_append.mp hp with h | h
      · exact hout p h
      · simp only [List.mem_singleton] at h
        subst h; exact hr
    · rename_i hbig
      intro p hp
      rcases List.mem_append.mp hp with h | h
      · exact hout p h
      · obtain ⟨c, hc, hpc⟩ := List.mem_map.mp h
        have hne : mapOps.getRange s r ≠ [] := by
          intro h'
          apply hbig
          left
          rw [h']; simp
        have hels : ∀ e ∈ mapOps.getRange s r, InNs ns e.idBytes := by
          intro e he
          have : e ∈ s := by
            simp only [mapOps, List.mem_filter] at he
            exact he.1
          rw [rel.eq] at this
          exact inNs_of_mem ns hns rel.inv e this
        have hcok := splitRanges_ok ns hns cfg r hr _ hne hels c hc
        rw [← hpc]
        split <;> exact hcok

theorem foldF_out_ok' (cfg : Config) {t : T} {s : Store} (rel : Rel ns t s) (fps : List (Range × Bytes))
    (hok : ∀ it ∈ fps, RangeOk ns it.1) (out : List Part) (hout : ∀ p ∈ out, RangeOk ns (partRange p)) :
    ∀ p ∈ fps.foldl (fpStep mapOps cfg statusOf s) out, RangeOk ns (partRange p) := by
  induction fps generalizing out with
  | nil => exact hout
  | cons it rest ih =>
    simp only [List.foldl_cons]
    exact ih (fun x hx => hok x (List.mem_cons_of_mem _ hx)) _
      (fpStep_out_ok ns hns statusOf cfg rel out it (hok it List.mem_cons_self) hout)

include hv in
theorem reply_ok (cfg : Config) {t : T} {s : Store} (rel : Rel ns t s) (m : Message) (hm : MsgOk ns m)
    (m' : Message) (hrep : (processMessage mapOps cfg validate statusOf s m).reply = some m') : MsgOk ns m' := by
  rw [processMessage_eq] at hrep
  simp only at hrep
  obtain ⟨h1, _⟩ := foldI_congr ns hns validate statusOf hv (itemsOf m) (itemsOf_ok ns hns hm) rel [] []
  have hI := foldI_out_ok' ns hns validate statusOf mapOps (itemsOf m) (itemsOf_ok ns hns hm) (s, [], [])
    (by intro p hp; simp at hp)
  have hF := foldF_out_ok' ns hns statusOf cfg h1 (fpsOf m) (fpsOf_ok ns hns hm) _ hI
  split at hrep
  · simp at hrep
  · simp only [Option.some.injEq] at hrep
    rw [← hrep]
    exact hF

theorem session_succ' {S : Type} (ops : Ops S) (cfg : Config) (fuel : Nat) (a b : S) (msg : Message) :
    session ops cfg validate statusOf (fuel + 1) a b msg =
      match (processMessage ops cfg validate statusOf b msg).reply with
      | none => ([msg], a, (processMessage ops cfg validate statusOf b msg).store)
      | some reply =>
        (msg :: (session ops cfg validate statusOf fuel (processMessage ops cfg validate statusOf b msg).store a reply).1,
         (session ops cfg validate statusOf fuel (processMessage ops cfg validate statusOf b msg).store a reply).2.2,
         (session ops cfg validate statusOf fuel (processMessage ops cfg validate statusOf b msg).store a reply).2.1) := by
  simp only [session]
  cases (processMessage ops cfg validate statusOf b msg).reply with
  | none => rfl
  | some r => rfl

include hv in
/-- **A whole session over the tables = the session over the ordered maps**: the same transcript,
message for message, and corresponding final states on both sides. -/
theorem session_congr (cfg : Config) (fuel : Nat) {ta tb : T} {sa sb : Store}
    (rela : Rel ns ta sa) (relb : Rel ns tb sb) (m : Message) (hm : MsgOk ns m) :
    (session (tableOps ns) cfg validate statusOf fuel ta tb m).1 =
      (session mapOps cfg validate statusOf fuel sa sb m).1 ∧
    Rel ns (session (tableOps ns) cfg validate statusOf fuel ta tb m).2.1
           (session mapOps cfg validate statusOf fuel sa sb m).2.1 ∧
    Rel ns (session (tableOps ns) cfg validate statusOf fuel ta tb m).2.2
           (session mapOps cfg validate statusOf fuel sa sb m).2.2 := by
  induction fuel generalizing ta tb sa sb m with
  | zero => exact ⟨rfl, rela, relb⟩
  | succ fuel ih =>
    rw [session_succ' ns hns, session_succ' ns hns]
    obtain ⟨hrep, _, hrel⟩ := processMessage_congr ns hns validate statusOf hv cfg relb m hm
    rw [hrep]
    cases hr : (processMessage mapOps cfg validate statusOf sb m).reply with
    | none => exact ⟨rfl, rela, hrel⟩
    | some reply =>
      simp only
      have hok := reply_ok ns hns validate statusOf hv cfg relb m hm reply hr
      obtain ⟨h1, h2, h3⟩ := ih hrel rela reply hok
      exact ⟨by rw [h1], h3, h2⟩

end

end Tables
