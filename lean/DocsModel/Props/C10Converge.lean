import DocsModel.Props.C10Pair
import DocsModel.Props.C01Tables
/-!
# The network drivers converge to the join

The chain, end to end: `run_alice` and `BobState::run` against each other (`C10Pair`) realise the
exchange of `sync_process_message` calls on the two table stores; that exchange is the session of
the table backend (`Ranger.session (tableOps ns)`), which has the transcript of the ordered-map
session (C08 `session_congr`), which ends and leaves both sides with the join (C01
`session_total`, C02). Hence: for two table-backed replicas of a document whose entries are valid
for both sides, with the crate's reconciliation parameters, the two drivers both report success,
both stores then hold exactly `join (A ∪ B)` for the document, and the reported counters mirror.
-/

namespace Ranger
open Spec Entry

/-- did the session end within the fuel (any backend)? -/
def endedG {S : Type} (ops : Ops S) (cfg : Config) (validate : Entry → Bool) (statusOf : Entry → Status) :
    Nat → S → S → Message → Bool
  | 0, _, _, _ => false
  | fuel + 1, a, b, msg =>
    match (processMessage ops cfg validate statusOf b msg).reply with
    | none => true
    | some reply => endedG ops cfg validate statusOf fuel (processMessage ops cfg validate statusOf b msg).store a reply

/-- a session ended exactly when its transcript is not longer than the fuel -/
theorem endedG_iff_length {S : Type} (ops : Ops S) (cfg : Config) (validate : Entry → Bool)
    (statusOf : Entry → Status) (fuel : Nat) :
    ∀ (a b : S) (msg : Message),
      endedG ops cfg validate statusOf fuel a b msg = true ↔
        (session ops cfg validate statusOf fuel a b msg).1.length ≤ fuel := by
  induction fuel with
  | zero => intro a b msg; simp [endedG, session]
  | succ fuel ih =>
    intro a b msg
    simp only [endedG, session]
    cases hr : (processMessage ops cfg validate statusOf b msg).reply with
    | none => simp
    | some reply =>
      simp only
      rw [ih]
      simp only [List.length_cons]
      omega

theorem ended_eq_endedG (validate : Entry → Bool) (statusOf : Entry → Status) (cfg : Config) (fuel : Nat) :
    ∀ (a b : Store) (msg : Message),
      ended validate statusOf cfg fuel a b msg = endedG mapOps cfg validate statusOf fuel a b msg := by
  induction fuel with
  | zero => intro a b msg; rfl
  | succ fuel ih =>
    intro a b msg
    simp only [ended, endedG]
    cases (processMessage mapOps cfg validate statusOf b msg).reply with
    | none => rfl
    | some reply => exact ih _ _ _

end Ranger

namespace Session
open Ranger Replica Spec

/-- the exchange of the drivers is the session of the table backend with the validation callback of
`sync_process_message` -/
theorem exch_eq_session (ns : Bytes) (now fuel : Nat) :
    ∀ (x y : Side) (msg : Message),
      (exch ns now fuel x y msg).2.2.2.2 =
          endedG (tableOps ns) {} (syncValidate now ns) (fun _ => 2) fuel x.1 y.1 msg ∧
      (exch ns now fuel x y msg).2.2.1.1 =
          (session (tableOps ns) {} (syncValidate now ns) (fun _ => 2) fuel x.1 y.1 msg).2.1 ∧
      (exch ns now fuel x y msg).2.2.2.1.1 =
          (session (tableOps ns) {} (syncValidate now ns) (fun _ => 2) fuel x.1 y.1 msg).2.2 := by
  induction fuel with
  | zero => intro x y msg; simp [exch, endedG, session]
  | succ fuel ih =>
    intro x y msg
    rw [exch_succ]
    simp only [endedG, session]
    have hst : (syncProcessMessage {} y.1 ns now msg y.2).1 =
        processMessage (tableOps ns) {} (syncValidate now ns) (fun _ => 2) y.1 msg := by
      unfold syncProcessMessage; rfl
    rw [hst]
    cases hr : (processMessage (tableOps ns) {} (syncValidate now ns) (fun _ => 2) y.1 msg).reply with
    | none => simp
    | some reply =>
      simp only
      obtain ⟨h1, h2, h3⟩ := ih ((processMessage (tableOps ns) {} (syncValidate now ns) (fun _ => 2) y.1 msg).store,
        (syncProcessMessage {} y.1 ns now msg y.2).2) x reply
      exact ⟨h1, h3, h2⟩

end Session

namespace Session
open Ranger Replica Spec Tables

/-- **The drivers converge.** Two table-backed replicas `ta` (initiator) and `tb` (acceptor) of
document `ns`, whose entries for the document are valid for both sides at time `now`, with
injective fingerprints on those entries. With fuel `3 ^ (|A| + |B| + 1) + 1` the exchange driven by
`run_alice` and `BobState::run` completes: both drivers report success (each fed with exactly what
the other writes), both tables then hold `join (A ∪ B)` for the document, and the counters the two
sides report mirror each other. -/
theorem drivers_converge (ns : Bytes) (hns : ns.length = 32) (now : Nat)
    (hv : ∀ e, syncValidate now ns e = true → e.ns = ns ∧ Wf e)
    (ta tb : T) (inva : TablesInv ta) (invb : TablesInv tb)
    (ha : StoreOk (nsRecords ta ns)) (hb : StoreOk (nsRecords tb ns))
    (hpf : PayloadFunctional (nsRecords ta ns ++ nsRecords tb ns))
    (hval : ∀ e ∈ nsRecords ta ns ++ nsRecords tb ns, syncValidate now ns e = true)
    (hfp : FpInjective (nsRecords ta ns ++ nsRecords tb ns))
    (accept : Bytes → Accept) (hacc : accept ns = .allow) :
    let fuel := 3 ^ ((nsRecords ta ns ++ nsRecords tb ns).length + 1) + 1
    let m0 := initialMessage (tableOps ns) ta
    let R := exch ns now fuel (ta, {}) (tb, {}) m0
    let alice := aliceRun (okActor ns now) ns (syncItems R.2.1) .eof { t := ta }
    let bob := bobRun (okActor ns now) accept (.frame (.init ns m0) :: syncItems R.1.tail) .eof { t := tb }
    -- both ends succeed, each reading what the other writes
    (∃ oa, alice.result = .ok oa ∧ ∃ ob, bob.progress = some ob ∧ bob.result = .ok ns ∧
        oa.numSent = ob.numRecv ∧ ob.numSent = oa.numRecv) ∧
    alice.written = .init ns m0 :: syncFrames R.1.tail ∧ bob.written = syncFrames R.2.1 ∧
    -- both stores hold the join for the document
    nsRecords alice.store.t ns = Spec.run [] (nsRecords ta ns ++ nsRecords tb ns) ∧
    nsRecords bob.store.t ns = Spec.run [] (nsRecords ta ns ++ nsRecords tb ns) := by
  intro fuel m0 R alice bob
  have rela : Rel ns ta (nsRecords ta ns) := ⟨inva, rfl⟩
  have relb : Rel ns tb (nsRecords tb ns) := ⟨invb, rfl⟩
  obtain ⟨hinit, hmok⟩ := initialMessage_congr ns hns rela
  have hwf : ∀ e ∈ nsRecords ta ns ++ nsRecords tb ns, Wf e := fun e he => (hv e (hval e he)).2
  -- the ordered-map session ends within the fuel, hence so does the table session
  have hend := session_terminates (syncValidate now ns) (fun _ => 2) (nsRecords ta ns) (nsRecords tb ns) ha hb hwf {} rfl
  rw [ended_eq_endedG, endedG_iff_length] at hend
  have hcong := session_congr ns hns (syncValidate now ns) (fun _ => 2) hv {} fuel rela relb _ hmok
  have hendT : endedG (tableOps ns) {} (syncValidate now ns) (fun _ => 2) fuel ta tb m0 = true := by
    rw [endedG_iff_length]
    show (session (tableOps ns) {} (syncValidate now ns) (fun _ => 2) fuel ta tb (initialMessage (tableOps ns) ta)).1.length ≤ fuel
    rw [hinit, hcong.1]
    exact hend
  obtain ⟨hd, hfx, hfy⟩ := exch_eq_session ns now fuel (ta, {}) (tb, {}) m0
  have hdone : R.2.2.2.2 = true := by rw [hd]; exact hendT
  obtain ⟨a1, a2, a3, b1, b2, b3, b4⟩ := drivers_realise_exchange ns now fuel ta tb accept hacc hdone
  obtain ⟨m1, m2⟩ := drivers_counts_mirror ns now fuel ta tb hdone
  have htot := session_total_tables ns hns (syncValidate now ns) (fun _ => 2) hv ta tb inva invb ha hb hpf hval hfp {} rfl
  simp only at htot
  refine ⟨⟨_, a1, _, b2, b1, m1, m2⟩, a3, b4, ?_, ?_⟩
  · rw [a2, hfx]; exact htot.1
  · rw [b3, hfy]; exact htot.2.1

end Session

namespace Session
open Ranger Replica Spec Tables

/-- **The immediately following session transfers nothing.** When the two table stores hold the
same entries for the document (as after `drivers_converge`), the acceptor answers the initiator's
first frame with silence: it writes no frame, both ends succeed, nothing is stored anywhere, and all
four counters are zero. -/
theorem drivers_second_session_silent (ns : Bytes) (hns : ns.length = 32) (now : Nat)
    (hv : ∀ e, syncValidate now ns e = true → e.ns = ns ∧ Wf e)
    (ta tb : T) (inva : TablesInv ta) (invb : TablesInv tb) (heq : nsRecords ta ns = nsRecords tb ns)
    (accept : Bytes → Accept) (hacc : accept ns = .allow) :
    let m0 := initialMessage (tableOps ns) ta
    let bob := bobRun (okActor ns now) accept [.frame (.init ns m0)] .eof { t := tb }
    let alice := aliceRun (okActor ns now) ns (bob.written.map .frame) .eof { t := ta }
    bob.result = .ok ns ∧ bob.written = [] ∧ nsRecords bob.store.t ns = nsRecords tb ns ∧
    (∃ ob, bob.progress = some ob ∧ ob.numRecv = 0 ∧ ob.numSent = 0) ∧
    (∃ oa, alice.result = .ok oa ∧ oa.numRecv = 0 ∧ oa.numSent = 0) ∧ alice.store.t = ta := by
  intro m0 bob alice
  obtain ⟨hrep, _, hstore⟩ := second_session_silent_tables ns hns (syncValidate now ns) (fun _ => 2) hv ta tb inva invb heq {}
  have hst : (syncProcessMessage {} tb ns now m0 {}).1 =
      processMessage (tableOps ns) {} (syncValidate now ns) (fun _ => 2) tb m0 := by
    unfold syncProcessMessage; rfl
  have hcount : valueCount m0 = 0 := initialMessage_valueCount (tableOps ns) ta
  have hb : bob = { result := .ok ns, written := [], progress := some (syncProcessMessage {} tb ns now m0 {}).2,
                    store := { t := (syncProcessMessage {} tb ns now m0 {}).1.store, done := 0 + 1 }, calls := 0 + 1,
                    nsAtExit := some ns } := by
    show bobRun _ _ _ _ _ = _
    unfold bobRun
    rw [bobLoop_init _ _ _ _ _ _ _ _ _ _ hacc, okActor_call]
    have : (syncProcessMessage {} tb ns now m0 {}).1.reply = none := by rw [hst]; exact hrep
    simp only [this]
  have hcounts := syncProcessMessage_counts {} tb ns now m0 {}
  simp only at hcounts
  have hrn : (syncProcessMessage {} tb ns now m0 {}).1.reply = none := by rw [hst]; exact hrep
  rw [hrn] at hcounts
  have hinit : (okActor ns now).initial { t := ta } ns = some m0 := by simp [okActor, tableActor, m0]
  have ha : alice = { result := .ok {}, written := [.init ns m0], store := { t := ta }, calls := 0 } := by
    show aliceRun _ _ _ _ _ = _
    rw [hb]
    simp only [List.map_nil, aliceRun, hinit, aliceLoop]
  refine ⟨by rw [hb], by rw [hb], ?_, ⟨_, by rw [hb], ?_, ?_⟩, ⟨_, by rw [ha], rfl, rfl⟩, by rw [ha]⟩
  · rw [hb]
    show nsRecords (syncProcessMessage {} tb ns now m0 {}).1.store ns = _
    rw [hst]; exact hstore
  · rw [hcounts.1, hcount]
  · rw [hcounts.2]; rfl

end Session
