import DocsModel.Props.C01Terminate
import DocsModel.Props.C08Congr
/-!
# C01 on the redb tables

`session_total` (ordered map) carried over to the table model by `session_congr` (C08): two
table-backed replicas of a document run a session; it ends, and both then hold, for that document,
exactly `join` of the two starting sets.
-/

namespace Tables
open Spec Entry Ranger

theorem initialMessage_congr (ns : Bytes) (hns : ns.length = 32) {t : T} {s : Store} (rel : Rel ns t s) :
    initialMessage (tableOps ns) t = initialMessage mapOps s ∧ MsgOk ns (initialMessage mapOps s) := by
  have hfirst : (tableOps ns).getFirst t = mapOps.getFirst s := by
    rw [rel.eq]; exact getFirst_refines t ns rel.inv hns
  constructor
  · unfold initialMessage
    simp only
    rw [hfirst, tgetFingerprint ns hns rel ⟨mapOps.getFirst s, mapOps.getFirst s⟩ (Or.inl rfl)]
  · intro p hp
    simp only [initialMessage, List.mem_singleton] at hp
    subst hp
    exact Or.inl rfl

/-- **C01 for table-backed replicas (split factor 2).** Replica `ta` starts a session with `tb` for
document `ns`. With fuel `3 ^ (|a| + |b| + 1) + 1` the session has ended, the transcript is the one
of the ordered-map session, and both tables hold, for the document, `run [] (a ++ b)` =
`join (a ∪ b)`, where `a`, `b` are the document's entries at the start. -/
theorem session_total_tables (ns : Bytes) (hns : ns.length = 32) (validate : Entry → Bool)
    (statusOf : Entry → Status) (hv : ∀ e, validate e = true → e.ns = ns ∧ Wf e)
    (ta tb : T) (inva : TablesInv ta) (invb : TablesInv tb)
    (ha : StoreOk (nsRecords ta ns)) (hb : StoreOk (nsRecords tb ns))
    (hpf : PayloadFunctional (nsRecords ta ns ++ nsRecords tb ns))
    (hval : ∀ e ∈ nsRecords ta ns ++ nsRecords tb ns, validate e = true)
    (hfp : FpInjective (nsRecords ta ns ++ nsRecords tb ns))
    (cfg : Config) (hk : cfg.splitFactor = 2) :
    let fuel := 3 ^ ((nsRecords ta ns ++ nsRecords tb ns).length + 1) + 1
    let r := session (tableOps ns) cfg validate statusOf fuel ta tb (initialMessage (tableOps ns) ta)
    nsRecords r.2.1 ns = Spec.run [] (nsRecords ta ns ++ nsRecords tb ns) ∧
    nsRecords r.2.2 ns = Spec.run [] (nsRecords ta ns ++ nsRecords tb ns) ∧
    TablesInv r.2.1 ∧ TablesInv r.2.2 := by
  intro fuel r
  have rela : Rel ns ta (nsRecords ta ns) := ⟨inva, rfl⟩
  have relb : Rel ns tb (nsRecords tb ns) := ⟨invb, rfl⟩
  obtain ⟨hinit, hmok⟩ := initialMessage_congr ns hns rela
  have hwf : ∀ e ∈ nsRecords ta ns ++ nsRecords tb ns, Wf e := fun e he => (hv e (hval e he)).2
  have hcong := session_congr ns hns validate statusOf hv cfg fuel rela relb _ hmok
  have htot := session_total validate statusOf (nsRecords ta ns) (nsRecords tb ns) ha hb hpf hval hfp hwf cfg hk
  simp only at htot
  have hr : r = session (tableOps ns) cfg validate statusOf fuel ta tb (initialMessage mapOps (nsRecords ta ns)) := by
    show session (tableOps ns) cfg validate statusOf fuel ta tb (initialMessage (tableOps ns) ta) = _
    rw [hinit]
  obtain ⟨_, h1, h2⟩ := hcong
  rw [hr]
  refine ⟨?_, ?_, h1.inv, h2.inv⟩
  · rw [← h1.eq]; exact htot.1
  · rw [← h2.eq]; exact htot.2

/-- **The following session is silent (table-backed replicas).** Two table stores that hold the
same entries for the document — e.g. after the session of `session_total_tables` — : the initial
message of one is answered with silence by the other, nothing is inserted, and the answering
store still holds the same entries. -/
theorem second_session_silent_tables (ns : Bytes) (hns : ns.length = 32) (validate : Entry → Bool)
    (statusOf : Entry → Status) (hv : ∀ e, validate e = true → e.ns = ns ∧ Wf e)
    (ta tb : T) (inva : TablesInv ta) (invb : TablesInv tb) (heq : nsRecords ta ns = nsRecords tb ns)
    (cfg : Config) :
    let st := processMessage (tableOps ns) cfg validate statusOf tb (initialMessage (tableOps ns) ta)
    st.reply = none ∧ st.inserted = [] ∧ nsRecords st.store ns = nsRecords tb ns := by
  intro st
  have rela : Rel ns ta (nsRecords ta ns) := ⟨inva, rfl⟩
  have relb : Rel ns tb (nsRecords ta ns) := ⟨invb, heq⟩
  obtain ⟨hinit, hmok⟩ := initialMessage_congr ns hns rela
  obtain ⟨h1, h2, h3⟩ := processMessage_congr ns hns validate statusOf hv cfg relb _ hmok
  have hsil := equal_replicas_first_message_is_last mapOps cfg validate statusOf (nsRecords ta ns)
  simp only at hsil
  have hst : st = processMessage (tableOps ns) cfg validate statusOf tb (initialMessage mapOps (nsRecords ta ns)) := by
    show processMessage (tableOps ns) cfg validate statusOf tb (initialMessage (tableOps ns) ta) = _
    rw [hinit]
  rw [hst]
  refine ⟨by rw [h1]; exact hsil.1, by rw [h2]; exact hsil.2, ?_⟩
  -- the store: related to the ordered-map store after the same (silent) message, which is unchanged
  have hmap : (processMessage mapOps cfg validate statusOf (nsRecords ta ns) (initialMessage mapOps (nsRecords ta ns))).store = nsRecords ta ns := by
    simp [processMessage, initialMessage]
  rw [← h3.eq, hmap, heq]

end Tables
