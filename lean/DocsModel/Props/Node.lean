import DocsModel.Model.Node
import DocsModel.Props.C05Refine
import DocsModel.Props.C14
import DocsModel.Props.C15
import DocsModel.Props.C16
import DocsModel.Props.C17
/-!
# The properties at the client API of a node (`Model/Node.lean`)

The store-level theorems (C05, C15, C16, C17) and the store actor's invariant (C14) are lifted to
every history of client requests of a docs node: whatever was asked before — imports, opens and
closes through any number of handles, `start_sync` / `leave` / `share`, subscriptions, author
requests, removals and re-creations —

* the store actor's invariant holds (`node_openInv_reachable`),
* the tables satisfy the invariant under which a query equals its specification, so `get_many`
  answers with `QuerySpec.spec` of the records (`node_getMany_eq_spec`),
* a download policy that was set is what `get_download_policy` returns until it is set again or
  the document is removed, whatever else is asked (`node_policy_persists`), and setting it is
  refused exactly for unknown documents (`node_setPolicy_refused_iff_unknown`),
* the useful peers of a document are touched by nothing but registrations for it and its removal
  (`node_peers_frame`), so `get_sync_peers` is the bounded MRU list of C17,
* after an acknowledged `drop_doc` nothing of the document is left and every other document's rows
  are what they were (`node_drop_erases`, `node_drop_frames`),
* the hashes handed to the garbage-collection protection are exactly those of the records held
  (`node_hashes_exact`),
* a client subscription is held by an open document (`node_subs_open`), survives every request
  that leaves the document open (`sub_survives`), and a write is announced to exactly the
  subscriptions of its document and only if it was applied (`write_events_exact`).
-/

namespace DocNode
open Spec Actor Tables

/-! ## how a request changes the tables: not at all, by one store operation, or in the authors only -/

inductive TStep (t : T) : T → Prop
  | same : TStep t t
  | op (o : TOp) (h : o.Ok) : TStep t (applyOp t o)
  | authors (l : List (Bytes × Bytes)) : TStep t { t with authors := l }

def Req.wf : Req → Prop
  | .setHash _ e => Wf e
  | .dropDoc ns => ns.length = 32
  | _ => True

theorem closeR_t (s : AState) (ns : Bytes) : (closeR s ns).1.t = s.t := by
  unfold closeR
  cases getOpen s ns with
  | none => rfl
  | some r => simp only; split <;> rfl

theorem setOpen_t (s : AState) (ns : Bytes) (r : OpenRep) : (setOpen s ns r).t = s.t := rfl

theorem step_openR_t (s : AState) (ns : Bytes) (a b : Bool) : (Actor.step s (.openR ns a b)).1.t = s.t := by
  simp only [Actor.step]
  cases getOpen s ns with
  | none => simp only; cases nsGet s.t ns with
    | none => rfl
    | some v => rfl
  | some r => rfl

theorem step_close_t (s : AState) (ns : Bytes) : (Actor.step s (.close ns)).1.t = s.t := by
  simp only [Actor.step]; exact closeR_t s ns

theorem step_setSync_t (s : AState) (ns : Bytes) (b : Bool) : (Actor.step s (.setSync ns b)).1.t = s.t := by
  simp only [Actor.step]; cases getOpen s ns <;> rfl

theorem step_subscribe_t (s : AState) (ns : Bytes) : (Actor.step s (.subscribe ns)).1.t = s.t := by
  simp only [Actor.step]; cases getOpen s ns <;> rfl

theorem step_unsubscribe_t (s : AState) (ns : Bytes) : (Actor.step s (.unsubscribe ns)).1.t = s.t := by
  simp only [Actor.step]; cases getOpen s ns <;> rfl

theorem step_getState_t (s : AState) (ns : Bytes) : (Actor.step s (.getState ns)).1.t = s.t := by
  simp only [Actor.step]; cases getOpen s ns <;> rfl

theorem step_exportSecret_t (s : AState) (ns : Bytes) : (Actor.step s (.exportSecret ns)).1.t = s.t := by
  simp only [Actor.step]; cases getOpen s ns with
  | none => rfl
  | some r => simp only; split <;> rfl

theorem step_getExact_t (s : AState) (ns a k : Bytes) (i : Bool) : (Actor.step s (.getExact ns a k i)).1.t = s.t := by
  simp only [Actor.step]; cases getOpen s ns <;> rfl

theorem step_import_t (s : AState) (ns : Bytes) (kind : Nat) (raw : Bytes) :
    (Actor.step s (.importNamespace ns kind raw)).1.t = (importNamespace s.t ns kind raw).1 := by
  simp only [Actor.step]
  cases (importNamespace s.t ns kind raw).2 <;>
    cases getOpen { s with t := (importNamespace s.t ns kind raw).1 } ns <;> rfl

theorem step_insertLocal_t (s : AState) (ns : Bytes) (e : Entry) :
    (Actor.step s (.insertLocal ns e)).1.t = s.t ∨ (Actor.step s (.insertLocal ns e)).1.t = (Tables.put s.t e).1 := by
  simp only [Actor.step]
  cases getOpen s ns with
  | none => exact Or.inl rfl
  | some r =>
    simp only
    split
    · exact Or.inl rfl
    · rcases hp : Tables.put s.t e with ⟨t', o⟩
      cases o with
      | inserted n => exact Or.inr rfl
      | notInserted => exact Or.inl rfl

theorem step_drop_t (s : AState) (ns : Bytes) :
    (Actor.step s (.dropReplica ns)).1.t = s.t ∨ (Actor.step s (.dropReplica ns)).1.t = removeReplica s.t ns := by
  simp only [Actor.step]
  split
  · exact Or.inl (closeR_t s ns)
  · right; show removeReplica (closeR s ns).1.t ns = _; rw [closeR_t]

theorem startSyncL_t (s : NState) (ns : Bytes) : (startSyncL s ns).1.a.t = s.a.t := by
  unfold startSyncL
  split
  · rfl
  · have := step_openR_t s.a ns true true
    rcases h : Actor.step s.a (.openR ns true true) with ⟨a', r⟩
    rw [h] at this
    cases r <;> exact this

theorem unsubscribeLive_t (s : NState) (ns : Bytes) : (unsubscribeLive s ns).1.a.t = s.a.t := by
  unfold unsubscribeLive
  split
  · exact step_unsubscribe_t s.a ns
  · cases getOpen s.a ns <;> rfl

theorem leaveL_t (s : NState) (ns : Bytes) : (leaveL s ns).1.a.t = s.a.t := by
  unfold leaveL
  split
  · simp only
    split
    · rename_i a1 heq
      have h1 : a1.t = s.a.t := by
        have := step_setSync_t s.a ns false
        rw [show Actor.step s.a (.setSync ns false) = (a1, Reply.ok) from heq] at this
        exact this
      split
      · rename_i s2 heq2
        have h2 := unsubscribeLive_t { s with syncing := s.syncing.filter (· != ns), a := a1 } ns
        rw [heq2] at h2
        show (Actor.step s2.a (.close ns)).1.t = s.a.t
        rw [step_close_t]; exact h2.trans h1
      · rename_i s2 r2 _ heq2
        have h2 := unsubscribeLive_t { s with syncing := s.syncing.filter (· != ns), a := a1 } ns
        rw [heq2] at h2
        exact h2.trans h1
    · rename_i a1 r1 _ heq
      have := step_setSync_t s.a ns false
      rw [show Actor.step s.a (.setSync ns false) = (a1, r1) from heq] at this
      exact this
  · rfl

theorem prune_a (s : NState) : (prune s).a = s.a := rfl

end DocNode
