import DocsModel.Model.Node
import DocsModel.Props.C05Refine
import DocsModel.Props.C14
import DocsModel.Props.C15
import DocsModel.Props.C16
import DocsModel.Props.C17
/-!
# The properties at the client API of a node (`Model/Node.lean`)

The store-level theorems (C05, C15, C16, C17) and the store actor's invariant (C14) are lifted to
every history of client requests of a docs node: whatever was asked before — imports, opens and
closes through any number of handles, `start_sync` / `leave` / `share`, subscriptions, author
requests, removals and re-creations —

* the store actor's invariant holds (`node_openInv_reachable`),
* the tables satisfy the invariant under which a query equals its specification, so `get_many`
  answers with `QuerySpec.spec` of the records (`node_getMany_eq_spec`),
* a download policy that was set is what `get_download_policy` returns until it is set again or
  the document is removed, whatever else is asked (`node_policy_persists`), and setting it is
  refused exactly for unknown documents (`node_setPolicy_refused_iff_unknown`),
* the useful peers of a document are touched by nothing but registrations for it and its removal
  (`node_peers_frame`), so `get_sync_peers` is the bounded MRU list of C17,
* after an acknowledged `drop_doc` nothing of the document is left and every other document's rows
  are what they were (`node_drop_erases`, `node_drop_frames`),
* the hashes handed to the garbage-collection protection are exactly those of the records held
  (`node_hashes_exact`),
* a client subscription is held by an open document (`node_subs_open`), survives every request
  that leaves the document open (`sub_survives`), and a write is announced to exactly the
  subscriptions of its document and only if it was applied (`write_events_exact`).
-/

namespace DocNode
open Spec Actor Tables

/-! ## how a request changes the tables: not at all, by one store operation, or in the authors only -/

/-- the store operation a request may perform -/
def Req.tops : Req → List TOp
  | .create ns raw => [.importNs ns 1 raw]
  | .importNs ns kind raw => [.importNs ns kind raw]
  | .dropDoc ns => [.remove ns]
  | .setHash _ e => [.put e]
  | .insertDoc _ e => [.put e]
  | .setPolicy ns p => [.policy ns p]
  | .registerPeer ns nanos peer => [.peer ns nanos peer]
  | _ => []

inductive TStepIn (ops : List TOp) (t : T) : T → Prop
  | same : TStepIn ops t t
  | op (o : TOp) (h : o ∈ ops) : TStepIn ops t (applyOp t o)
  | authors (l : List (Bytes × Bytes)) : TStepIn ops t { t with authors := l }

def Req.wf : Req → Prop
  | .setHash _ e => Wf e
  | .insertDoc _ e => Wf e
  | .dropDoc ns => ns.length = 32
  | _ => True

theorem Req.tops_ok (r : Req) (hw : r.wf) : ∀ o ∈ r.tops, o.Ok := by
  cases r <;> simp only [Req.tops, List.mem_singleton, List.not_mem_nil, false_imp_iff, implies_true, forall_eq] <;>
    first | trivial | exact hw

theorem closeR_t (s : AState) (ns : Bytes) : (closeR s ns).1.t = s.t := by
  unfold closeR
  cases getOpen s ns with
  | none => rfl
  | some r => simp only; split <;> rfl

theorem setOpen_t (s : AState) (ns : Bytes) (r : OpenRep) : (setOpen s ns r).t = s.t := rfl

theorem step_openR_t (s : AState) (ns : Bytes) (a b : Bool) : (Actor.step s (.openR ns a b)).1.t = s.t := by
  simp only [Actor.step]
  cases getOpen s ns with
  | none => simp only; cases nsGet s.t ns with
    | none => rfl
    | some v => rfl
  | some r => rfl

theorem step_close_t (s : AState) (ns : Bytes) : (Actor.step s (.close ns)).1.t = s.t := by
  simp only [Actor.step]; exact closeR_t s ns

theorem step_setSync_t (s : AState) (ns : Bytes) (b : Bool) : (Actor.step s (.setSync ns b)).1.t = s.t := by
  simp only [Actor.step]; cases getOpen s ns <;> rfl

theorem step_subscribe_t (s : AState) (ns : Bytes) : (Actor.step s (.subscribe ns)).1.t = s.t := by
  simp only [Actor.step]; cases getOpen s ns <;> rfl

theorem step_unsubscribe_t (s : AState) (ns : Bytes) : (Actor.step s (.unsubscribe ns)).1.t = s.t := by
  simp only [Actor.step]; cases getOpen s ns <;> rfl

theorem step_getState_t (s : AState) (ns : Bytes) : (Actor.step s (.getState ns)).1.t = s.t := by
  simp only [Actor.step]; cases getOpen s ns <;> rfl

theorem step_exportSecret_t (s : AState) (ns : Bytes) : (Actor.step s (.exportSecret ns)).1.t = s.t := by
  simp only [Actor.step]; cases getOpen s ns with
  | none => rfl
  | some r => simp only; split <;> rfl

theorem step_getExact_t (s : AState) (ns a k : Bytes) (i : Bool) : (Actor.step s (.getExact ns a k i)).1.t = s.t := by
  simp only [Actor.step]; cases getOpen s ns <;> rfl

theorem step_import_t (s : AState) (ns : Bytes) (kind : Nat) (raw : Bytes) :
    (Actor.step s (.importNamespace ns kind raw)).1.t = (importNamespace s.t ns kind raw).1 := by
  simp only [Actor.step]
  cases (importNamespace s.t ns kind raw).2 <;>
    cases getOpen { s with t := (importNamespace s.t ns kind raw).1 } ns <;> rfl

theorem step_insertLocal_t (s : AState) (ns : Bytes) (e : Entry) :
    (Actor.step s (.insertLocal ns e)).1.t = s.t ∨ (Actor.step s (.insertLocal ns e)).1.t = (Tables.put s.t e).1 := by
  simp only [Actor.step]
  cases getOpen s ns with
  | none => exact Or.inl rfl
  | some r =>
    simp only
    split
    · exact Or.inl rfl
    · rcases hp : Tables.put s.t e with ⟨t', o⟩
      cases o with
      | inserted n => exact Or.inr rfl
      | notInserted => exact Or.inl rfl

theorem step_drop_t (s : AState) (ns : Bytes) :
    (Actor.step s (.dropReplica ns)).1.t = s.t ∨ (Actor.step s (.dropReplica ns)).1.t = removeReplica s.t ns := by
  simp only [Actor.step]
  split
  · exact Or.inl (closeR_t s ns)
  · right; show removeReplica (closeR s ns).1.t ns = _; rw [closeR_t]

theorem startSyncL_t (s : NState) (ns : Bytes) : (startSyncL s ns).1.a.t = s.a.t := by
  unfold startSyncL
  split
  · rfl
  · have := step_openR_t s.a ns true true
    rcases h : Actor.step s.a (.openR ns true true) with ⟨a', r⟩
    rw [h] at this
    cases r <;> exact this

theorem unsubscribeLive_t (s : NState) (ns : Bytes) : (unsubscribeLive s ns).1.a.t = s.a.t := by
  unfold unsubscribeLive
  split
  · exact step_unsubscribe_t s.a ns
  · cases getOpen s.a ns <;> rfl

theorem leaveL_t (s : NState) (ns : Bytes) : (leaveL s ns).1.a.t = s.a.t := by
  unfold leaveL
  split
  · simp only
    split
    · rename_i a1 heq
      have h1 : a1.t = s.a.t := by
        have := step_setSync_t s.a ns false
        rw [show Actor.step s.a (.setSync ns false) = (a1, Reply.ok) from heq] at this
        exact this
      split
      · rename_i s2 heq2
        have h2 := unsubscribeLive_t { s with syncing := s.syncing.filter (· != ns), a := a1 } ns
        rw [heq2] at h2
        show (Actor.step s2.a (.close ns)).1.t = s.a.t
        rw [step_close_t]; exact h2.trans h1
      · rename_i s2 r2 _ heq2
        have h2 := unsubscribeLive_t { s with syncing := s.syncing.filter (· != ns), a := a1 } ns
        rw [heq2] at h2
        exact h2.trans h1
    · rename_i a1 r1 _ heq
      have := step_setSync_t s.a ns false
      rw [show Actor.step s.a (.setSync ns false) = (a1, r1) from heq] at this
      exact this
  · rfl

theorem prune_a (s : NState) : (prune s).a = s.a := rfl


theorem withA_t (s : NState) (p : AState × Actor.Reply) : (withA s p).1.a.t = p.1.t := rfl

theorem foldl_unsubscribe_t (l : List (Nat × Bytes × Bool)) (a : AState) (ns : Bytes) :
    (l.foldl (fun a _ => (Actor.step a (.unsubscribe ns)).1) a).t = a.t := by
  induction l generalizing a with
  | nil => rfl
  | cons x xs ih => simp only [List.foldl_cons]; rw [ih, step_unsubscribe_t]

theorem importThenOpen_t (s : NState) (ns : Bytes) (kind : Nat) (raw : Bytes) :
    (importThenOpen s ns kind raw).1.a.t = (importNamespace s.a.t ns kind raw).1 := by
  have h := step_import_t s.a ns kind raw
  unfold importThenOpen
  split
  · rename_i a1 heq
    rw [heq] at h
    rw [withA_t, step_openR_t]; exact h
  · rename_i p _
    rw [withA_t]; exact h

theorem writeLocal_tstep (s : NState) (ns : Bytes) (e : Entry) (ops : List TOp) (hin : TOp.put e ∈ ops) :
    TStepIn ops s.a.t (writeLocal s ns e).1.a.t := by
  unfold writeLocal
  cases authorGet s.a.t e.author with
  | none => exact TStepIn.same
  | some _ =>
    simp only
    rcases step_insertLocal_t s.a ns e with h | h
    · split
      · rename_i a' n heq
        rw [heq] at h
        show TStepIn _ s.a.t (List.foldl _ a' _).t
        rw [foldl_unsubscribe_t]; simp only at h; rw [h]; exact TStepIn.same
      · rename_i a' r _ heq
        rw [heq] at h
        show TStepIn _ s.a.t a'.t
        simp only at h; rw [h]; exact TStepIn.same
    · split
      · rename_i a' n heq
        rw [heq] at h
        show TStepIn _ s.a.t (List.foldl _ a' _).t
        rw [foldl_unsubscribe_t]; simp only at h; rw [h]; exact TStepIn.op (.put e) hin
      · rename_i a' r _ heq
        rw [heq] at h
        show TStepIn _ s.a.t a'.t
        simp only at h; rw [h]; exact TStepIn.op (.put e) hin

theorem stepRaw_tstep (s : NState) (r : Req) : TStepIn r.tops s.a.t (stepRaw s r).1.a.t := by
  cases r with
  | create ns raw =>
    simp only [stepRaw]; rw [importThenOpen_t]; exact TStepIn.op (.importNs ns 1 raw) (by simp [Req.tops])
  | importNs ns kind raw =>
    simp only [stepRaw]; rw [importThenOpen_t]; exact TStepIn.op (.importNs ns kind raw) (by simp [Req.tops])
  | openDoc ns => simp only [stepRaw]; rw [withA_t, step_openR_t]; exact TStepIn.same
  | closeDoc ns => simp only [stepRaw]; rw [step_close_t]; exact TStepIn.same
  | status ns => simp only [stepRaw]; rw [withA_t, step_getState_t]; exact TStepIn.same
  | dropDoc ns =>
    simp only [stepRaw]
    have hl := leaveL_t s ns
    split
    · rename_i s1 heq
      rw [heq] at hl
      rw [withA_t]
      simp only at hl
      rcases step_drop_t s1.a ns with h | h
      · rw [h, hl]; exact TStepIn.same
      · rw [h, hl]; exact TStepIn.op (.remove ns) (by simp [Req.tops])
    · rename_i s1 r1 _ heq
      rw [heq] at hl
      show TStepIn _ s.a.t s1.a.t
      rw [hl]; exact TStepIn.same
  | setHash ns e => exact writeLocal_tstep s ns e _ (by simp [Req.tops])
  | insertDoc ns e =>
    simp only [stepRaw]
    cases authorGet s.a.t e.author with
    | none => exact TStepIn.same
    | some _ =>
      simp only
      cases getOpen s.a ns with
      | none => exact TStepIn.same
      | some _ =>
        simp only
        split
        · exact TStepIn.same
        · exact writeLocal_tstep s ns e _ (by simp [Req.tops])
  | getExact ns a k i => simp only [stepRaw]; rw [withA_t, step_getExact_t]; exact TStepIn.same
  | getMany ns q => simp only [stepRaw]; cases getOpen s.a ns <;> exact TStepIn.same
  | setPolicy ns p =>
    simp only [stepRaw]
    cases h : Tables.setDownloadPolicy s.a.t ns p with
    | none => exact TStepIn.same
    | some t' =>
      have : t' = applyOp s.a.t (.policy ns p) := by simp [applyOp, h]
      show TStepIn _ s.a.t t'
      rw [this]; exact TStepIn.op _ (by simp [Req.tops])
  | getPolicy ns => exact TStepIn.same
  | getSyncPeers ns => simp only [stepRaw]; cases getOpen s.a ns <;> exact TStepIn.same
  | registerPeer ns nanos peer =>
    simp only [stepRaw]
    cases h : Tables.registerUsefulPeer s.a.t ns nanos peer with
    | none => exact TStepIn.same
    | some t' =>
      have : t' = applyOp s.a.t (.peer ns nanos peer) := by simp [applyOp, h]
      show TStepIn _ s.a.t t'
      rw [this]; exact TStepIn.op _ (by simp [Req.tops])
  | startSync ns => simp only [stepRaw]; rw [startSyncL_t]; exact TStepIn.same
  | leave ns => simp only [stepRaw]; rw [leaveL_t]; exact TStepIn.same
  | share ns write =>
    simp only [stepRaw]
    split
    · split
      · have := startSyncL_t s ns
        split <;> (rename_i heq; rw [heq] at this; simp only at this ⊢; rw [this]; exact TStepIn.same)
      · exact TStepIn.same
    · have := startSyncL_t s ns
      split <;> (rename_i heq; rw [heq] at this; simp only at this ⊢; rw [this]; exact TStepIn.same)
  | subscribe ns =>
    simp only [stepRaw]
    have := step_subscribe_t s.a ns
    split <;> (rename_i heq; rw [heq] at this; simp only at this ⊢; rw [this]; exact TStepIn.same)
  | authorImport a raw => exact TStepIn.authors _
  | authorExport a => exact TStepIn.same
  | authorDelete a => simp only [stepRaw]; split; exact TStepIn.same; exact TStepIn.authors _
  | authorList => exact TStepIn.same
  | authorDefault => exact TStepIn.same
  | authorSetDefault a => simp only [stepRaw]; cases authorGet s.a.t a <;> exact TStepIn.same
  | contentHashes => exact TStepIn.same
  | listDocs => exact TStepIn.same

theorem step_tstep (s : NState) (r : Req) : TStepIn r.tops s.a.t (step s r).1.a.t := by
  have := stepRaw_tstep s r
  simp only [step]
  exact this

/-! ## C05 at the client API -/

theorem tstep_qinv {ops : List TOp} {t t' : T} (h : TStepIn ops t t') (hok : ∀ o ∈ ops, o.Ok) (inv : QInv t) : QInv t' := by
  cases h with
  | same => exact inv
  | op o ho => exact ⟨applyOp_tablesInv t o (hok o ho) inv.inv, applyOp_idxSorted t o inv.idxSorted⟩
  | authors l => exact ⟨side_tables_inv t _ rfl rfl rfl inv.inv, inv.idxSorted⟩

theorem step_qinv (s : NState) (r : Req) (hw : r.wf) (inv : QInv s.a.t) : QInv (step s r).1.a.t :=
  tstep_qinv (step_tstep s r) (r.tops_ok hw) inv

theorem qinv_init (a raw : Bytes) : QInv (init a raw).a.t :=
  ⟨side_tables_inv {} _ rfl rfl rfl tablesInv_empty, List.Pairwise.nil⟩

/-- an invariant of the node's state that every request preserves holds after every history -/
theorem run_invariant (P : NState → Prop) (hstep : ∀ s r, r.wf → P s → P (step s r).1)
    (s : NState) (rs : List Req) (hw : ∀ r ∈ rs, r.wf) (h0 : P s) : P (run s rs).1 := by
  unfold run
  suffices h : ∀ (acc : NState × List Reply), P acc.1 →
      P (rs.foldl (fun (acc : NState × List Reply) r => let (s', o) := step acc.1 r; (s', acc.2 ++ [o])) acc).1 from h _ h0
  induction rs with
  | nil => intro acc h; exact h
  | cons r rest ih =>
    intro acc h
    simp only [List.foldl_cons]
    exact ih (fun x hx => hw x (List.mem_cons_of_mem _ hx)) _ (hstep acc.1 r (hw r List.mem_cons_self) h)

theorem node_qinv_reachable (a raw : Bytes) (rs : List Req) (hw : ∀ r ∈ rs, r.wf) :
    QInv (run (init a raw) rs).1.a.t :=
  run_invariant (fun s => QInv s.a.t) step_qinv _ rs hw (qinv_init a raw)

/-- **C05 at the client API.** After any history of client requests, `get_many` on an open
document answers with the specification of the query over the records held; on a document that
is not open it fails. -/
theorem node_getMany_eq_spec (a raw : Bytes) (rs : List Req) (hw : ∀ r ∈ rs, r.wf)
    (ns : Bytes) (hns : ns.length = 32) (q : Query) (hq : ∀ x, q.author = .exact x → x.length = 32) :
    let s := (run (init a raw) rs).1
    (step s (.getMany ns q)).2 =
      match getOpen s.a ns with
      | none => .act .errNotOpen
      | some _ => .act (.entries (QuerySpec.spec s.a.t.records ns q)) := by
  intro s
  have inv : QInv s.a.t := node_qinv_reachable a raw rs hw
  simp only [step, stepRaw]
  cases getOpen s.a ns with
  | none => rfl
  | some r => simp only; rw [query_eq_spec inv ns hns q hq]

/-! ## C15 at the client API -/

theorem policies_put (t : T) (e : Entry) : (Tables.put t e).1.policies = t.policies := by
  unfold Tables.put
  split
  · rfl
  · simp [entryPut]

theorem policies_import (t : T) (ns : Bytes) (kind : Nat) (raw : Bytes) :
    (importNamespace t ns kind raw).1.policies = t.policies := by
  unfold importNamespace
  cases nsGet t ns with
  | none => rfl
  | some v => obtain ⟨k0, raw0⟩ := v; simp only; split <;> rfl

theorem policies_peer (t : T) (ns : Bytes) (nanos : Nat) (peer : Bytes) :
    ((registerUsefulPeer t ns nanos peer).getD t).policies = t.policies := by
  unfold registerUsefulPeer
  cases nsGet t ns <;> rfl

theorem getPolicy_remove_other (t : T) (rm ns : Bytes) (hne : ns ≠ rm) :
    getDownloadPolicy (removeReplica t rm) ns = getDownloadPolicy t ns := by
  simp only [getDownloadPolicy, removeReplica]
  rw [Tables.find_filter_ne _ _ _ hne]

/-- the requests that may change a document's download policy -/
def Req.setsPolicyOf (ns : Bytes) : Req → Prop
  | .setPolicy ns' _ => ns' = ns
  | .dropDoc ns' => ns' = ns
  | _ => False

theorem applyOp_policy_frame (t : T) (o : TOp) (ns : Bytes)
    (h1 : ∀ p, o ≠ .policy ns p) (h2 : o ≠ .remove ns) :
    getDownloadPolicy (applyOp t o) ns = getDownloadPolicy t ns := by
  cases o with
  | put e => simp only [applyOp, getDownloadPolicy, policies_put]
  | remove rm =>
    have : ns ≠ rm := fun h => h2 (by rw [h])
    exact getPolicy_remove_other t rm ns this
  | importNs ns' kind raw => simp only [applyOp, getDownloadPolicy, policies_import]
  | peer ns' nanos peer => simp only [applyOp, getDownloadPolicy, policies_peer]
  | policy ns' p =>
    have hne : ns ≠ ns' := fun h => h1 p (by rw [h])
    simp only [applyOp]
    cases h : setDownloadPolicy t ns' p with
    | none => rfl
    | some t' => exact Tables.policy_set_frames t t' ns' ns p hne h

theorem step_policy_frame (s : NState) (r : Req) (ns : Bytes) (hr : ¬ r.setsPolicyOf ns) :
    getDownloadPolicy (step s r).1.a.t ns = getDownloadPolicy s.a.t ns := by
  have h := step_tstep s r
  generalize (step s r).1.a.t = t' at h ⊢
  cases h with
  | same => rfl
  | authors l => rfl
  | op o ho =>
    apply applyOp_policy_frame
    · intro p heq
      subst heq
      cases r <;> simp [Req.tops] at ho
      next ns' p' => exact hr (by simp [Req.setsPolicyOf, ho.1])
    · intro heq
      subst heq
      cases r <;> simp [Req.tops] at ho
      next ns' => exact hr (by simp [Req.setsPolicyOf, ho])

/-- **C15 at the client API: a policy persists.** Whatever a client asks afterwards — imports,
opens and closes, writes, `start_sync`, `leave`, subscriptions, author requests, registrations,
policies and removals of *other* documents — the policy of `ns` is what it was, as long as none
of the requests sets the policy of `ns` or removes `ns`. -/
theorem node_policy_persists (s : NState) (rs : List Req) (ns : Bytes)
    (hrs : ∀ r ∈ rs, ¬ r.setsPolicyOf ns) :
    getDownloadPolicy (run s rs).1.a.t ns = getDownloadPolicy s.a.t ns := by
  unfold run
  suffices h : ∀ (acc : NState × List Reply),
      getDownloadPolicy (rs.foldl (fun (acc : NState × List Reply) r => let (s', o) := step acc.1 r; (s', acc.2 ++ [o])) acc).1.a.t ns
        = getDownloadPolicy acc.1.a.t ns from h _
  induction rs with
  | nil => intro acc; rfl
  | cons r rest ih =>
    intro acc
    simp only [List.foldl_cons]
    rw [ih (fun x hx => hrs x (List.mem_cons_of_mem _ hx))]
    exact step_policy_frame acc.1 r ns (hrs r List.mem_cons_self)

/-- setting a policy is refused exactly for a document the node does not have; when it is
accepted, `get_download_policy` returns it -/
theorem node_setPolicy (s : NState) (ns : Bytes) (p : Policy) :
    (nsGet s.a.t ns = none → (step s (.setPolicy ns p)).2 = .errNoDocument ∧ (step s (.setPolicy ns p)).1.a.t = s.a.t) ∧
    (nsGet s.a.t ns ≠ none → (step s (.setPolicy ns p)).2 = .act .ok ∧
      (step (step s (.setPolicy ns p)).1 (.getPolicy ns)).2 = .policy p) := by
  constructor
  · intro h
    simp only [step, stepRaw, Tables.set_policy_unknown_document s.a.t ns p h]
    exact ⟨trivial, rfl⟩
  · intro h
    cases hs : setDownloadPolicy s.a.t ns p with
    | none =>
      unfold setDownloadPolicy at hs
      cases hn : nsGet s.a.t ns with
      | none => exact absurd hn h
      | some v => rw [hn] at hs; cases hs
    | some t' =>
      simp only [step, stepRaw, hs]
      refine ⟨trivial, ?_⟩
      show Reply.policy (getDownloadPolicy t' ns) = .policy p
      rw [Tables.policy_set_get s.a.t t' ns p hs]

/-! ## C17 at the client API -/

theorem peers_put (t : T) (e : Entry) : (Tables.put t e).1.peers = t.peers := by
  unfold Tables.put
  split
  · rfl
  · simp [entryPut]

theorem peers_import (t : T) (ns : Bytes) (kind : Nat) (raw : Bytes) :
    (importNamespace t ns kind raw).1.peers = t.peers := by
  unfold importNamespace
  cases nsGet t ns with
  | none => rfl
  | some v => obtain ⟨k0, raw0⟩ := v; simp only; split <;> rfl

theorem peers_policy (t : T) (ns : Bytes) (p : Policy) :
    ((setDownloadPolicy t ns p).getD t).peers = t.peers := by
  unfold setDownloadPolicy
  cases nsGet t ns <;> rfl

theorem filter_filter_ne_eq (l : List (Bytes × Nat × Bytes)) (ns other : Bytes) (hne : other ≠ ns) :
    (l.filter (fun r => r.1 != ns)).filter (fun r => r.1 == other) = l.filter (fun r => r.1 == other) := by
  rw [List.filter_filter]
  apply List.filter_congr
  intro r _
  by_cases h : r.1 = other
  · have : (r.1 != ns) = true := by rw [h]; simp [hne]
    simp [h, hne]
  · simp [h]

theorem peersOf_remove_other (t : T) (rm ns : Bytes) (hne : ns ≠ rm) :
    peersOf (removeReplica t rm) ns = peersOf t ns := by
  simp only [peersOf, removeReplica]
  rw [filter_filter_ne_eq _ _ _ hne]

theorem peersOf_setPeersOf_same (t : T) (ns : Bytes) (vs : List (Nat × Bytes)) :
    peersOf (setPeersOf t ns vs) ns = vs := by
  simp only [peersOf, setPeersOf, List.filter_append, List.map_append]
  have h1 : (t.peers.filter (fun r => r.1 != ns)).filter (fun r => r.1 == ns) = [] := by
    rw [List.filter_filter]
    apply List.filter_eq_nil_iff.mpr
    intro r _
    by_cases h : r.1 = ns <;> simp [h]
  have h2 : (vs.map (fun v => (ns, v))).filter (fun r => r.1 == ns) = vs.map (fun v => (ns, v)) := by
    apply List.filter_eq_self.mpr
    intro r hr
    obtain ⟨v, _, rfl⟩ := List.mem_map.mp hr
    simp
  rw [h1, h2]
  simp [List.map_map, Function.comp_def]

theorem peersOf_setPeersOf_other (t : T) (ns other : Bytes) (vs : List (Nat × Bytes)) (hne : other ≠ ns) :
    peersOf (setPeersOf t ns vs) other = peersOf t other := by
  simp only [peersOf, setPeersOf, List.filter_append, List.map_append]
  rw [filter_filter_ne_eq _ _ _ hne]
  have h2 : (vs.map (fun v => (ns, v))).filter (fun r => r.1 == other) = [] := by
    apply List.filter_eq_nil_iff.mpr
    intro r hr
    obtain ⟨v, _, rfl⟩ := List.mem_map.mp hr
    simp only [beq_iff_eq]
    exact fun h => hne h.symm
  rw [h2]; simp

/-- the requests that may change a document's peer list -/
def Req.setsPeersOf (ns : Bytes) : Req → Prop
  | .registerPeer ns' _ _ => ns' = ns
  | .dropDoc ns' => ns' = ns
  | _ => False

theorem applyOp_peers_frame (t : T) (o : TOp) (ns : Bytes)
    (h1 : ∀ n p, o ≠ .peer ns n p) (h2 : o ≠ .remove ns) :
    peersOf (applyOp t o) ns = peersOf t ns := by
  cases o with
  | put e => simp only [applyOp, peersOf, peers_put]
  | remove rm =>
    have : ns ≠ rm := fun h => h2 (by rw [h])
    exact peersOf_remove_other t rm ns this
  | importNs ns' kind raw => simp only [applyOp, peersOf, peers_import]
  | policy ns' p => simp only [applyOp, peersOf, peers_policy]
  | peer ns' nanos peer =>
    have hne : ns ≠ ns' := fun h => h1 nanos peer (by rw [h])
    simp only [applyOp, registerUsefulPeer]
    cases nsGet t ns' with
    | none => rfl
    | some v => exact peersOf_setPeersOf_other t ns' ns _ hne

theorem step_peers_frame (s : NState) (r : Req) (ns : Bytes) (hr : ¬ r.setsPeersOf ns) :
    peersOf (step s r).1.a.t ns = peersOf s.a.t ns := by
  have h := step_tstep s r
  generalize (step s r).1.a.t = t' at h ⊢
  cases h with
  | same => rfl
  | authors l => rfl
  | op o ho =>
    apply applyOp_peers_frame
    · intro n p heq
      subst heq
      cases r <;> simp [Req.tops] at ho
      next ns' n' p' => exact hr (by simp [Req.setsPeersOf, ho.1])
    · intro heq
      subst heq
      cases r <;> simp [Req.tops] at ho
      next ns' => exact hr (by simp [Req.setsPeersOf, ho])

/-- a registration for a document the node has: one step of `register_useful_peer` on its list -/
theorem step_register_known (s : NState) (ns : Bytes) (nanos : Nat) (peer : Bytes) (h : nsGet s.a.t ns ≠ none) :
    (step s (.registerPeer ns nanos peer)).2 = .act .ok ∧
    peersOf (step s (.registerPeer ns nanos peer)).1.a.t ns = regStep (peersOf s.a.t ns) nanos peer := by
  cases hn : nsGet s.a.t ns with
  | none => exact absurd hn h
  | some v =>
    simp only [step, stepRaw, registerUsefulPeer, hn]
    exact ⟨trivial, peersOf_setPeersOf_same _ _ _⟩

/-- a registration for a document the node does not have fails and changes nothing -/
theorem step_register_unknown (s : NState) (ns : Bytes) (nanos : Nat) (peer : Bytes) (h : nsGet s.a.t ns = none) :
    (step s (.registerPeer ns nanos peer)).2 = .errNoDocument ∧ (step s (.registerPeer ns nanos peer)).1.a.t = s.a.t := by
  simp only [step, stepRaw, Tables.register_unknown_document s.a.t ns nanos peer h]
  exact ⟨trivial, rfl⟩

/-- the registrations for `ns` among the requests, oldest first -/
def regsOf (ns : Bytes) : List Req → List (Nat × Bytes)
  | [] => []
  | .registerPeer ns' nanos peer :: rest => if ns' = ns then (nanos, peer) :: regsOf ns rest else regsOf ns rest
  | _ :: rest => regsOf ns rest

/-- the document is not removed by any of the requests -/
def keeps (ns : Bytes) (rs : List Req) : Prop := ∀ r ∈ rs, r ≠ .dropDoc ns

theorem nsGet_step_known (s : NState) (r : Req) (ns : Bytes) (hk : r ≠ .dropDoc ns) (h : nsGet s.a.t ns ≠ none) :
    nsGet (step s r).1.a.t ns ≠ none := by
  have ht := step_tstep s r
  generalize (step s r).1.a.t = t' at ht ⊢
  cases ht with
  | same => exact h
  | authors l => exact h
  | op o ho =>
    cases o with
    | put e => simp only [applyOp]; rw [Actor.nsGet_put]; exact h
    | remove rm =>
      have : ns ≠ rm := by
        intro heq; subst heq
        cases r <;> simp [Req.tops] at ho
        next ns' => exact hk (by rw [ho])
      simp only [applyOp]; rw [Actor.nsGet_remove_other _ _ _ this]; exact h
    | importNs ns' kind raw =>
      simp only [applyOp]
      by_cases hne : ns = ns'
      · subst hne
        unfold importNamespace
        cases hn : nsGet s.a.t ns with
        | none => exact absurd hn h
        | some v =>
          obtain ⟨k0, raw0⟩ := v
          simp only
          split
          · have := Tables.find_nsInsert_same (ns, 1, raw) s.a.t.namespaces
            simp only [nsGet]; simp only at this; rw [this]; simp
          · have := Tables.find_nsInsert_same (ns, k0, raw0) s.a.t.namespaces
            simp only [nsGet]; simp only at this; rw [this]; simp
      · rw [Tables.import_frame _ _ _ _ _ hne]; exact h
    | peer ns' nanos peer =>
      simp only [applyOp, registerUsefulPeer]
      cases hn : nsGet s.a.t ns' with
      | none => exact h
      | some v => exact h
    | policy ns' p =>
      simp only [applyOp, setDownloadPolicy]
      cases hn : nsGet s.a.t ns' with
      | none => exact h
      | some v => exact h

/-- **C17 at the client API.** Whatever else a client asks in between (anything but removing the
document), the stored peer list of a document the node has is the result of the registrations for
it alone, applied in order … -/
theorem node_peers_run (s : NState) (rs : List Req) (ns : Bytes) (hk : keeps ns rs) (h : nsGet s.a.t ns ≠ none) :
    peersOf (run s rs).1.a.t ns = runRegs (peersOf s.a.t ns) (regsOf ns rs) := by
  unfold run
  suffices hh : ∀ (acc : NState × List Reply), nsGet acc.1.a.t ns ≠ none →
      peersOf (rs.foldl (fun (acc : NState × List Reply) r => let (s', o) := step acc.1 r; (s', acc.2 ++ [o])) acc).1.a.t ns
        = runRegs (peersOf acc.1.a.t ns) (regsOf ns rs) from hh _ h
  induction rs with
  | nil => intro acc _; rfl
  | cons r rest ih =>
    intro acc hacc
    simp only [List.foldl_cons]
    have hk' : keeps ns rest := fun x hx => hk x (List.mem_cons_of_mem _ hx)
    have hkr : r ≠ .dropDoc ns := hk r List.mem_cons_self
    rw [ih hk' _ (nsGet_step_known acc.1 r ns hkr hacc)]
    by_cases hreg : ∃ nanos peer, r = .registerPeer ns nanos peer
    · obtain ⟨nanos, peer, rfl⟩ := hreg
      simp only [regsOf, if_true, runRegs]
      rw [(step_register_known acc.1 ns nanos peer hacc).2]
    · have hfr : ¬ r.setsPeersOf ns := by
        intro hs
        cases r <;> simp [Req.setsPeersOf] at hs
        next ns' => exact hkr (by rw [hs])
        next ns' n p => exact hreg ⟨n, p, by rw [hs]⟩
      rw [step_peers_frame acc.1 r ns hfr]
      have : regsOf ns (r :: rest) = regsOf ns rest := by
        cases r <;> simp only [regsOf]
        next ns' n p =>
          have : ns' ≠ ns := fun heq => hreg ⟨n, p, by rw [heq]⟩
          simp [this]
      rw [this]

/-- … hence, for registration times that strictly increase, `get_sync_peers` returns the five most
recently registered distinct peers, most recent first (the list of C17), also through the node. -/
theorem node_peers_eq_mru5 (s : NState) (rs : List Req) (ns : Bytes) (hk : keeps ns rs) (h : nsGet s.a.t ns ≠ none)
    (now : Nat) (inv : PeerInv (peersOf s.a.t ns) now) (hinc : Increasing now (regsOf ns rs)) :
    mru (peersOf (run s rs).1.a.t ns) = mruSpec (mru (peersOf s.a.t ns)) ((regsOf ns rs).map (·.2)) ∧
    (peersOf (run s rs).1.a.t ns).length ≤ 5 := by
  rw [node_peers_run s rs ns hk h]
  exact peers_eq_mru5 _ _ now inv hinc

/-! ## the store actor's invariant (C14) through the node -/

theorem openInv_congr (a a' : AState) (h1 : a'.states = a.states) (h2 : a'.storeOpen = a.storeOpen)
    (h3 : a'.t.namespaces = a.t.namespaces) (inv : OpenInv a) : OpenInv a' := by
  refine ⟨fun ns r h => ?_, fun ns h => ?_⟩
  · have h' : getOpen a ns = some r := by simpa [getOpen, h1] using h
    obtain ⟨x, y, z⟩ := inv.open_ok ns r h'
    exact ⟨x, h2 ▸ y, by simpa [nsGet, h3] using z⟩
  · have := inv.store_ok ns (h2 ▸ h)
    simpa [getOpen, h1] using this

theorem importThenOpen_openInv (s : NState) (ns : Bytes) (kind : Nat) (raw : Bytes) (inv : OpenInv s.a) :
    OpenInv (importThenOpen s ns kind raw).1.a := by
  have h1 := Actor.step_openInv s.a (.importNamespace ns kind raw) inv
  unfold importThenOpen
  split
  · rename_i a1 heq
    rw [heq] at h1
    exact Actor.step_openInv a1 (.openR ns false false) h1
  · rename_i p _
    exact h1

theorem startSyncL_openInv (s : NState) (ns : Bytes) (inv : OpenInv s.a) : OpenInv (startSyncL s ns).1.a := by
  unfold startSyncL
  split
  · exact inv
  · have := Actor.step_openInv s.a (.openR ns true true) inv
    rcases h : Actor.step s.a (.openR ns true true) with ⟨a', r⟩
    rw [h] at this
    cases r <;> exact this

theorem unsubscribeLive_openInv (s : NState) (ns : Bytes) (inv : OpenInv s.a) : OpenInv (unsubscribeLive s ns).1.a := by
  unfold unsubscribeLive
  split
  · exact Actor.step_openInv s.a (.unsubscribe ns) inv
  · cases getOpen s.a ns <;> exact inv

theorem leaveL_openInv (s : NState) (ns : Bytes) (inv : OpenInv s.a) : OpenInv (leaveL s ns).1.a := by
  unfold leaveL
  split
  · simp only
    split
    · rename_i a1 heq
      have h1 : OpenInv a1 := by
        have := Actor.step_openInv s.a (.setSync ns false) inv
        rw [show Actor.step s.a (.setSync ns false) = (a1, Reply.ok) from heq] at this
        exact this
      have h2 := unsubscribeLive_openInv { s with syncing := s.syncing.filter (· != ns), a := a1 } ns h1
      split
      · rename_i s2 heq2
        rw [heq2] at h2
        exact Actor.step_openInv s2.a (.close ns) h2
      · rename_i s2 r2 _ heq2
        rw [heq2] at h2
        exact h2
    · rename_i a1 r1 _ heq
      have := Actor.step_openInv s.a (.setSync ns false) inv
      rw [show Actor.step s.a (.setSync ns false) = (a1, r1) from heq] at this
      exact this
  · exact inv

theorem foldl_unsubscribe_openInv (l : List (Nat × Bytes × Bool)) (a : AState) (ns : Bytes) (inv : OpenInv a) :
    OpenInv (l.foldl (fun a _ => (Actor.step a (.unsubscribe ns)).1) a) := by
  induction l generalizing a with
  | nil => exact inv
  | cons x xs ih => simp only [List.foldl_cons]; exact ih _ (Actor.step_openInv a (.unsubscribe ns) inv)

theorem writeLocal_openInv (s : NState) (ns : Bytes) (e : Entry) (inv : OpenInv s.a) : OpenInv (writeLocal s ns e).1.a := by
  unfold writeLocal
  cases authorGet s.a.t e.author with
  | none => exact inv
  | some _ =>
    simp only
    have h := Actor.step_openInv s.a (.insertLocal ns e) inv
    split
    · rename_i a' n heq
      rw [heq] at h
      exact foldl_unsubscribe_openInv _ a' ns h
    · rename_i a' r _ heq
      rw [heq] at h
      exact h

theorem stepRaw_openInv (s : NState) (r : Req) (inv : OpenInv s.a) : OpenInv (stepRaw s r).1.a := by
  cases r with
  | create ns raw => exact importThenOpen_openInv s ns 1 raw inv
  | importNs ns kind raw => exact importThenOpen_openInv s ns kind raw inv
  | openDoc ns => exact Actor.step_openInv s.a _ inv
  | closeDoc ns => exact Actor.step_openInv s.a (.close ns) inv
  | status ns => exact Actor.step_openInv s.a _ inv
  | dropDoc ns =>
    simp only [stepRaw]
    have hl := leaveL_openInv s ns inv
    split
    · rename_i s1 heq
      rw [heq] at hl
      exact Actor.step_openInv s1.a (.dropReplica ns) hl
    · rename_i s1 r1 _ heq
      rw [heq] at hl
      exact hl
  | setHash ns e => exact writeLocal_openInv s ns e inv
  | insertDoc ns e =>
    simp only [stepRaw]
    cases authorGet s.a.t e.author with
    | none => exact inv
    | some _ =>
      simp only
      cases getOpen s.a ns with
      | none => exact inv
      | some _ =>
        simp only
        split
        · exact inv
        · exact writeLocal_openInv s ns e inv
  | getExact ns a k i => exact Actor.step_openInv s.a _ inv
  | getMany ns q => simp only [stepRaw]; cases getOpen s.a ns <;> exact inv
  | setPolicy ns p =>
    simp only [stepRaw]
    cases h : Tables.setDownloadPolicy s.a.t ns p with
    | none => exact inv
    | some t' =>
      refine openInv_congr s.a _ rfl rfl ?_ inv
      unfold setDownloadPolicy at h
      cases hn : nsGet s.a.t ns with
      | none => rw [hn] at h; cases h
      | some v => rw [hn] at h; injection h with h; subst h; rfl
  | getPolicy ns => exact inv
  | getSyncPeers ns => simp only [stepRaw]; cases getOpen s.a ns <;> exact inv
  | registerPeer ns nanos peer =>
    simp only [stepRaw]
    cases h : Tables.registerUsefulPeer s.a.t ns nanos peer with
    | none => exact inv
    | some t' =>
      refine openInv_congr s.a _ rfl rfl ?_ inv
      unfold registerUsefulPeer at h
      cases hn : nsGet s.a.t ns with
      | none => rw [hn] at h; cases h
      | some v => rw [hn] at h; injection h with h; subst h; rfl
  | startSync ns => exact startSyncL_openInv s ns inv
  | leave ns => exact leaveL_openInv s ns inv
  | share ns write =>
    simp only [stepRaw]
    have := startSyncL_openInv s ns inv
    split
    · split
      · split <;> (rename_i heq; rw [heq] at this; exact this)
      · exact inv
    · split <;> (rename_i heq; rw [heq] at this; exact this)
  | subscribe ns =>
    simp only [stepRaw]
    have := Actor.step_openInv s.a (.subscribe ns) inv
    split <;> (rename_i heq; rw [heq] at this; exact this)
  | authorImport a raw => exact openInv_congr s.a _ rfl rfl rfl inv
  | authorExport a => exact inv
  | authorDelete a => simp only [stepRaw]; split; exact inv; exact openInv_congr s.a _ rfl rfl rfl inv
  | authorList => exact inv
  | authorDefault => exact inv
  | authorSetDefault a => simp only [stepRaw]; cases authorGet s.a.t a <;> exact inv
  | contentHashes => exact inv
  | listDocs => exact inv

theorem step_openInv (s : NState) (r : Req) (inv : OpenInv s.a) : OpenInv (step s r).1.a :=
  stepRaw_openInv s r inv

/-- **C14 through the node.** In every state a docs node can reach by client requests, an open
document holds at least one handle, is marked open in the store, and its in-memory capability is
the stored one; the store marks exactly the open documents. -/
theorem run_invariant' (P : NState → Prop) (hstep : ∀ s r, P s → P (step s r).1)
    (s : NState) (rs : List Req) (h0 : P s) : P (run s rs).1 := by
  unfold run
  suffices h : ∀ (acc : NState × List Reply), P acc.1 →
      P (rs.foldl (fun (acc : NState × List Reply) r => let (s', o) := step acc.1 r; (s', acc.2 ++ [o])) acc).1 from h _ h0
  induction rs with
  | nil => intro acc h; exact h
  | cons r rest ih =>
    intro acc h
    simp only [List.foldl_cons]
    exact ih _ (hstep acc.1 r h)

theorem node_openInv_reachable (a raw : Bytes) (rs : List Req) : OpenInv (run (init a raw) rs).1.a :=
  run_invariant' (fun s => OpenInv s.a) step_openInv (init a raw) rs (openInv_init _)

/-! ## C16 at the client API -/

theorem actor_drop_cases (a : AState) (ns : Bytes) :
    ((Actor.step a (.dropReplica ns)).2 = .ok ∧ (Actor.step a (.dropReplica ns)).1.t = removeReplica a.t ns) ∨
    ((Actor.step a (.dropReplica ns)).2 = .errNotClosed ∧ (Actor.step a (.dropReplica ns)).1.t = a.t) := by
  simp only [Actor.step]
  split
  · right; exact ⟨rfl, closeR_t a ns⟩
  · left; refine ⟨rfl, ?_⟩; show removeReplica (closeR a ns).1.t ns = _; rw [closeR_t]

/-- `doc_drop`: `leave`, then the actor's removal -/
theorem dropDoc_cases (s : NState) (ns : Bytes) :
    (∃ s1, leaveL s ns = (s1, .ok) ∧ s1.a.t = s.a.t ∧
      (step s (.dropDoc ns)).2 = .act (Actor.step s1.a (.dropReplica ns)).2 ∧
      (step s (.dropDoc ns)).1.a.t = (Actor.step s1.a (.dropReplica ns)).1.t) ∨
    (∃ r1, r1 ≠ .ok ∧ (step s (.dropDoc ns)).2 = .act r1 ∧ (step s (.dropDoc ns)).1.a.t = s.a.t) := by
  have hl := leaveL_t s ns
  rcases h : leaveL s ns with ⟨s1, r1⟩
  rw [h] at hl
  simp only at hl
  by_cases hr : r1 = .ok
  · subst hr
    left
    refine ⟨s1, rfl, hl, ?_, ?_⟩ <;> simp only [step, stepRaw, h] <;> rfl
  · right
    refine ⟨r1, hr, ?_, ?_⟩
    · simp only [step, stepRaw, h]
      try (cases r1 <;> first | rfl | exact absurd rfl hr)
    · simp only [step, stepRaw, h]
      try (cases r1 <;> first | exact hl | exact absurd rfl hr)

/-- an acknowledged `drop_doc` has removed the document's rows from every table -/
theorem node_drop_ok (s : NState) (ns : Bytes) (h : (step s (.dropDoc ns)).2 = .act .ok) :
    (step s (.dropDoc ns)).1.a.t = removeReplica s.a.t ns := by
  rcases dropDoc_cases s ns with ⟨s1, _, ht, hr, hs⟩ | ⟨r1, hne, hr, _⟩
  · rw [hr] at h
    injection h with h
    rcases actor_drop_cases s1.a ns with ⟨_, h2⟩ | ⟨h1, _⟩
    · rw [hs, h2, ht]
    · rw [h1] at h; cases h
  · rw [hr] at h
    injection h with h
    exact absurd h hne

/-- a refused `drop_doc` (the document is still held open) leaves every table as it was -/
theorem node_drop_refused (s : NState) (ns : Bytes) (h : (step s (.dropDoc ns)).2 ≠ .act .ok) :
    (step s (.dropDoc ns)).1.a.t = s.a.t := by
  rcases dropDoc_cases s ns with ⟨s1, _, ht, hr, hs⟩ | ⟨r1, _, _, hs⟩
  · rcases actor_drop_cases s1.a ns with ⟨h1, _⟩ | ⟨_, h2⟩
    · rw [hr, h1] at h; exact absurd rfl h
    · rw [hs, h2, ht]
  · exact hs

/-- **C16 at the client API: removal erases the document completely …** After `drop_doc` was
acknowledged, no table holds a row of the document: no entry, no index row, no head, no
capability, no peer, no policy — so that `get_download_policy` answers with the default, a
re-created document starts empty, and the document is no longer listed. -/
theorem node_drop_erases (s : NState) (ns : Bytes) (hns : ns.length = 32) (inv : QInv s.a.t)
    (h : (step s (.dropDoc ns)).2 = .act .ok) :
    let t' := (step s (.dropDoc ns)).1.a.t
    (∀ e ∈ t'.records, e.ns ≠ ns) ∧ (∀ k ∈ t'.byKey, k.1 ≠ ns) ∧ (∀ r ∈ t'.latest, r.1 ≠ ns) ∧
    (∀ r ∈ t'.namespaces, r.1 ≠ ns) ∧ (∀ r ∈ t'.peers, r.1 ≠ ns) ∧ (∀ r ∈ t'.policies, r.1 ≠ ns) ∧
    getDownloadPolicy t' ns = Policy.default ∧ peersOf t' ns = [] := by
  intro t'
  have ht : t' = removeReplica s.a.t ns := node_drop_ok s ns h
  obtain ⟨h1, h2, h3, h4, h5, h6⟩ := remove_erases s.a.t ns hns inv.inv.wf32
  rw [ht]
  refine ⟨h1, h2, h3, h4, h5, h6, policy_default_when_unset _ ns h6, ?_⟩
  simp only [peersOf]
  have : (removeReplica s.a.t ns).peers.filter (fun r => r.1 == ns) = [] := by
    apply List.filter_eq_nil_iff.mpr
    intro r hr
    simpa using h5 r hr
  rw [this]; rfl

/-- **… and only it.** Every other document's rows, in every table, are what they were. -/
theorem node_drop_frames (s : NState) (ns other : Bytes) (hns : ns.length = 32) (inv : QInv s.a.t) (hne : other ≠ ns)
    (h : (step s (.dropDoc ns)).2 = .act .ok) :
    let t' := (step s (.dropDoc ns)).1.a.t
    t'.records.filter (fun e => e.ns == other) = s.a.t.records.filter (fun e => e.ns == other) ∧
    t'.byKey.filter (fun k => k.1 == other) = s.a.t.byKey.filter (fun k => k.1 == other) ∧
    t'.latest.filter (fun r => r.1 == other) = s.a.t.latest.filter (fun r => r.1 == other) ∧
    t'.namespaces.filter (fun r => r.1 == other) = s.a.t.namespaces.filter (fun r => r.1 == other) ∧
    t'.peers.filter (fun r => r.1 == other) = s.a.t.peers.filter (fun r => r.1 == other) ∧
    t'.policies.filter (fun r => r.1 == other) = s.a.t.policies.filter (fun r => r.1 == other) ∧
    t'.authors = s.a.t.authors := by
  intro t'
  have ht : t' = removeReplica s.a.t ns := node_drop_ok s ns h
  rw [ht]
  exact remove_frames s.a.t ns other hns inv.inv.wf32 hne

/-- **The protected content hashes** (what `gc_protect_task` hands to the blob store) are exactly
the hashes of the entries held in any document of the node, after every history. -/
theorem node_hashes_exact (s : NState) (h : Bytes) :
    (step s .contentHashes).2 = .hashes (contentHashes s.a.t) ∧
    (h ∈ contentHashes s.a.t ↔ ∃ e ∈ s.a.t.records, e.hash = h) :=
  ⟨rfl, content_hashes_exact s.a.t h⟩

/-! ## C12 at the client API: client subscriptions -/

/-- every client subscription is held by a document that is open -/
def SubsInv (s : NState) : Prop := ∀ p ∈ s.apiSubs, (getOpen s.a p.2.1).isSome

theorem step_subsInv (s : NState) (r : Req) : SubsInv (step s r).1 := by
  intro p hp
  simp only [step, prune] at hp ⊢
  exact (List.mem_filter.mp hp).2

/-- **A write is announced to exactly the live subscriptions of its document, and only if it was
applied.** The reply of a write names the subscriptions that are sent the event: all
subscriptions of that document whose receiving end still exists when the entry was inserted, none
when it was refused (read-only, not open, superseded) or the author is unknown. -/
theorem write_events_exact (s : NState) (ns : Bytes) (e : Entry) :
    match (step s (.setHash ns e)).2 with
    | .wrote (.inserted _) subs => subs = (s.apiSubs.filter (fun p => p.2.1 == ns && !p.2.2)).map (·.1)
    | .wrote _ subs => subs = []
    | .errAuthorNotFound => True
    | _ => False := by
  simp only [step, stepRaw, writeLocal]
  cases authorGet s.a.t e.author with
  | none => trivial
  | some _ =>
    simp only
    rcases h : Actor.step s.a (.insertLocal ns e) with ⟨a', r⟩
    cases r <;> simp

theorem withA_apiSubs (s : NState) (p : AState × Actor.Reply) : (withA s p).1.apiSubs = s.apiSubs := rfl

theorem importThenOpen_apiSubs (s : NState) (ns : Bytes) (kind : Nat) (raw : Bytes) :
    (importThenOpen s ns kind raw).1.apiSubs = s.apiSubs := by
  unfold importThenOpen
  split <;> rfl

theorem startSyncL_apiSubs (s : NState) (ns : Bytes) : (startSyncL s ns).1.apiSubs = s.apiSubs := by
  unfold startSyncL
  split
  · rfl
  · rcases h : Actor.step s.a (.openR ns true true) with ⟨a', r⟩
    cases r <;> rfl

theorem unsubscribeLive_apiSubs (s : NState) (ns : Bytes) : (unsubscribeLive s ns).1.apiSubs = s.apiSubs := by
  unfold unsubscribeLive
  split
  · rfl
  · cases getOpen s.a ns <;> rfl

theorem leaveL_apiSubs (s : NState) (ns : Bytes) : (leaveL s ns).1.apiSubs = s.apiSubs := by
  unfold leaveL
  split
  · simp only
    split
    · rename_i a1 heq
      have h2 := unsubscribeLive_apiSubs { s with syncing := s.syncing.filter (· != ns), a := a1 } ns
      split
      · rename_i s2 heq2
        rw [heq2] at h2
        exact h2
      · rename_i s2 r2 _ heq2
        rw [heq2] at h2
        exact h2
    · rfl
  · rfl

theorem writeLocal_keeps_sub (s : NState) (ns' : Bytes) (e : Entry) (id : Nat) (ns : Bytes)
    (h : (id, ns, false) ∈ s.apiSubs) : (id, ns, false) ∈ (writeLocal s ns' e).1.apiSubs := by
  unfold writeLocal
  cases authorGet s.a.t e.author with
  | none => exact h
  | some _ =>
    simp only
    split
    · show (id, ns, false) ∈ s.apiSubs.filter _
      exact List.mem_filter.mpr ⟨h, by simp⟩
    · exact h

/-- a live subscription stays in the node's books over every request but `drop_doc` of its document … -/
theorem stepRaw_keeps_sub (s : NState) (r : Req) (id : Nat) (ns : Bytes) (hr : r ≠ .dropDoc ns)
    (h : (id, ns, false) ∈ s.apiSubs) : (id, ns, false) ∈ (stepRaw s r).1.apiSubs := by
  cases r with
  | create ns' raw => simp only [stepRaw]; rw [importThenOpen_apiSubs]; exact h
  | importNs ns' kind raw => simp only [stepRaw]; rw [importThenOpen_apiSubs]; exact h
  | openDoc ns' => exact h
  | closeDoc ns' => exact h
  | status ns' => exact h
  | dropDoc ns' =>
    have hne : ns' ≠ ns := fun heq => hr (by rw [heq])
    simp only [stepRaw]
    have hl := leaveL_apiSubs s ns'
    split
    · rename_i s1 heq
      rw [heq] at hl
      simp only at hl
      show (id, ns, false) ∈ (markGone s1 ns').apiSubs
      simp only [markGone, List.mem_map]
      refine ⟨(id, ns, false), hl ▸ h, ?_⟩
      have : (ns == ns') = false := beq_false_of_ne (fun hh => hne hh.symm)
      simp [this]
    · rename_i s1 r1 _ heq
      rw [heq] at hl
      exact hl ▸ h
  | setHash ns' e => exact writeLocal_keeps_sub s ns' e id ns h
  | insertDoc ns' e =>
    simp only [stepRaw]
    cases authorGet s.a.t e.author with
    | none => exact h
    | some _ =>
      simp only
      cases getOpen s.a ns' with
      | none => exact h
      | some _ =>
        simp only
        split
        · exact h
        · exact writeLocal_keeps_sub s ns' e id ns h
  | getExact ns' a k i => exact h
  | getMany ns' q => simp only [stepRaw]; cases getOpen s.a ns' <;> exact h
  | setPolicy ns' p => simp only [stepRaw]; cases Tables.setDownloadPolicy s.a.t ns' p <;> exact h
  | getPolicy ns' => exact h
  | getSyncPeers ns' => simp only [stepRaw]; cases getOpen s.a ns' <;> exact h
  | registerPeer ns' nanos peer => simp only [stepRaw]; cases Tables.registerUsefulPeer s.a.t ns' nanos peer <;> exact h
  | startSync ns' => simp only [stepRaw]; rw [startSyncL_apiSubs]; exact h
  | leave ns' => simp only [stepRaw]; rw [leaveL_apiSubs]; exact h
  | share ns' write =>
    simp only [stepRaw]
    have := startSyncL_apiSubs s ns'
    split
    · split
      · split <;> (rename_i heq; rw [heq] at this; simp only at this ⊢; rw [this]; exact h)
      · exact h
    · split <;> (rename_i heq; rw [heq] at this; simp only at this ⊢; rw [this]; exact h)
  | subscribe ns' =>
    simp only [stepRaw]
    split
    · exact List.mem_append_left _ h
    · exact h
  | authorImport a raw => exact h
  | authorExport a => exact h
  | authorDelete a => simp only [stepRaw]; split <;> exact h
  | authorList => exact h
  | authorDefault => exact h
  | authorSetDefault a => simp only [stepRaw]; cases authorGet s.a.t a <;> exact h
  | contentHashes => exact h
  | listDocs => exact h

/-- … as long as the document stays open: **a subscription survives every request that leaves its
document open** (and is then sent the event of every applied write, by `write_events_exact`);
other subscribers coming and going, other documents being closed or removed, do not affect it. -/
theorem sub_survives (s : NState) (r : Req) (id : Nat) (ns : Bytes) (hr : r ≠ .dropDoc ns)
    (h : (id, ns, false) ∈ s.apiSubs) (hopen : (getOpen (step s r).1.a ns).isSome) :
    (id, ns, false) ∈ (step s r).1.apiSubs := by
  simp only [step, prune] at hopen ⊢
  exact List.mem_filter.mpr ⟨stepRaw_keeps_sub s r id ns hr h, hopen⟩

/-- **A local write with a zero length or the empty hash is refused and changes nothing** — whatever
the node's state; what the other replicas would refuse (C03) is never authored here (C04). -/
theorem insertDoc_empty_refused (s : NState) (ns : Bytes) (e : Entry) (h : Replica.insertGuard e = true) :
    (step s (.insertDoc ns e)).1.a.t = s.a.t ∧
    (step s (.insertDoc ns e)).2 ∈ [Reply.errAuthorNotFound, .wrote .errNotOpen [], .errEntryIsEmpty] := by
  simp only [step, stepRaw]
  cases authorGet s.a.t e.author with
  | none => exact ⟨rfl, by simp⟩
  | some _ =>
    simp only
    cases getOpen s.a ns with
    | none => exact ⟨rfl, by simp⟩
    | some _ => simp only [h, if_true]; exact ⟨rfl, by simp⟩

/-! ## non-vacuity: a concrete history -/

section Example
open Tables

private def nsX : Bytes := List.replicate 32 7
private def auX : Bytes := List.replicate 32 9
private def eX : Entry := { ns := nsX, author := auX, key := [1], ts := 5, len := 3, hash := [4] }

/-- create, subscribe, write: the write is applied and announced to the one subscription; then the
policy is set and read back, a peer registered and listed, the document dropped and gone -/
example :
    (run (init auX [0]) [.create nsX [1], .subscribe nsX, .insertDoc nsX eX, .setPolicy nsX (.nothingExcept []),
        .getPolicy nsX, .registerPeer nsX 10 [8], .getSyncPeers nsX, .getMany nsX { includeEmpty := true },
        .closeDoc nsX, .dropDoc nsX, .listDocs, .contentHashes]).2
      = [.act .ok, .subscribed 0, .wrote (.inserted 0) [0], .act .ok, .policy (.nothingExcept []), .act .ok,
         .peers (some [[8]]), .act (.entries [eX]), .act .ok, .act .ok, .docs [], .hashes []] := by
  decide

end Example

end DocNode
