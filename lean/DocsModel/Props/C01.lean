import DocsModel.Lemmas.Put
import DocsModel.Props.C02
import DocsModel.Model.Replica
/-!
# C01 — pairwise reconciliation converges to the join of both replicas

Model: `Ranger.processMessage` (`Store::process_message`, every branch), `Ranger.session`,
`Replica.syncProcessMessage` / `sessionO` (`SyncOutcome` bookkeeping of `sync_process_message`,
`run_alice`, `BobState::run`). The correspondence harness compares every message of real sessions
(both initiators, memory and file stores, split factors 2..5, max set sizes 0..4) with this model
and the final sets with `Spec.join (A₀ ∪ B₀)`.

Proved here:
* `counts_mirror` — in every completed session each side's sent-count equals the other side's
  received-count (any messages, any stores, any configuration);
* `join_absorbs` — a replica state that was reached by offers from `A₀ ∪ B₀` and contains the join
  *is* the join (so "both sides hold every entry of the join" is all convergence has to show);
* `equal_replicas_first_message_is_last` — between equal replicas the initial message is answered
  by silence, nothing is transferred and nothing changes (the "immediately following session");
* `join_entry_always_accepted`, `join_entry_never_removed` — the two monotonicity facts the
  convergence argument rests on: an entry of the join is accepted whenever it is offered to a
  replica holding only entries of `A₀ ∪ B₀`, and is never removed by a later accepted offer.

`session_converges` (T4/T5 of DESIGN §5: every session terminates with both sides equal to the
join) is stated over the executable `session` and is checked on every run by the correspondence
harness (oracle lines `sjoin`, `within-budget`, `transferred=0`); its Lean proof is in progress in
`Props/C01Converge.lean` and is not claimed as proved here.
-/

namespace Replica
open Spec Ranger Entry

/-- the counters relation while `msg` (already counted by its sender `a`) is in flight to `b` -/
def InFlight (oa ob : Outcome) (msg : Message) : Prop :=
  oa.numSent = ob.numRecv + valueCount msg ∧ ob.numSent = oa.numRecv

theorem syncProcessMessage_counts (cfg : Config) (t : Tables.T) (ns : Bytes) (now : Nat) (msg : Message)
    (o : Outcome) :
    let r := syncProcessMessage cfg t ns now msg o
    r.2.numRecv = o.numRecv + valueCount msg ∧
    r.2.numSent = o.numSent + (match r.1.reply with | some m => valueCount m | none => 0) := by
  unfold syncProcessMessage
  simp only
  split <;> simp_all

/-- **Counts mirror.** For every session that completes — whatever the two replicas hold,
whatever the reconciliation parameters, however many messages it takes — each side's number of
sent entries equals the other side's number of received entries. -/
theorem counts_mirror (cfg : Config) (ns : Bytes) (now : Nat) (fuel : Nat) :
    ∀ (a b : Tables.T × Outcome) (msg : Message), InFlight a.2 b.2 msg →
      let r := sessionO cfg ns now fuel a b msg
      r.1 = true → r.2.2.1.2.numSent = r.2.2.2.2.numRecv ∧ r.2.2.2.2.numSent = r.2.2.1.2.numRecv := by
  induction fuel with
  | zero => intro a b msg _ r h; simp [r, sessionO] at h
  | succ fuel ih =>
    intro a b msg hfl
    have hc := syncProcessMessage_counts cfg b.1 ns now msg b.2
    simp only at hc
    obtain ⟨hrecv, hsent⟩ := hc
    simp only [sessionO]
    rcases hsp : syncProcessMessage cfg b.1 ns now msg b.2 with ⟨st, ob⟩
    rw [hsp] at hrecv hsent
    simp only at hrecv hsent
    cases hr : st.reply with
    | none =>
      rw [hr] at hsent
      simp only
      intro _
      exact ⟨by rw [hfl.1, hrecv], by rw [hsent]; simpa using hfl.2⟩
    | some reply =>
      rw [hr] at hsent
      simp only
      have hfl' : InFlight ob a.2 reply := ⟨by rw [hsent, hfl.2], by rw [hfl.1, hrecv]⟩
      have := ih (st.store, ob) a reply hfl'
      simp only at this
      intro hdone
      have h2 := this hdone
      exact ⟨h2.2, h2.1⟩

/-- the initial message carries no entries -/
theorem initialMessage_valueCount {S : Type} (ops : Ops S) (s : S) : valueCount (initialMessage ops s) = 0 := by
  simp [initialMessage, valueCount]

/-- a session started with the initial message and fresh counters: the counters mirror at the end -/
theorem session_counts_mirror (cfg : Config) (ns : Bytes) (now fuel : Nat) (ta tb : Tables.T) :
    let r := sessionO cfg ns now fuel (ta, {}) (tb, {}) (initialMessage (tableOps ns) ta)
    r.1 = true → r.2.2.1.2.numSent = r.2.2.2.2.numRecv ∧ r.2.2.2.2.numSent = r.2.2.1.2.numRecv :=
  counts_mirror cfg ns now fuel (ta, {}) (tb, {}) _ ⟨by simp [initialMessage_valueCount], rfl⟩

end Replica

namespace Ranger
open Spec Entry

/-- **Between equal replicas the first message is the last**: the initial message of a replica is
answered with silence by a replica holding the same state — no entries are transferred, nothing
changes (any backend, any parameters). -/
theorem equal_replicas_first_message_is_last {S : Type} (ops : Ops S) (cfg : Config)
    (validate : Entry → Bool) (statusOf : Entry → Status) (s : S) :
    let st := processMessage ops cfg validate statusOf s (initialMessage ops s)
    st.reply = none ∧ st.inserted = [] := by
  simp [processMessage, initialMessage]

end Ranger

namespace Spec
open Entry

/-- **The join absorbs.** If a replica state is the merge of some collection of offers drawn from
`U` and contains every entry of `join U`, then its entries are exactly `join U`. -/
theorem join_absorbs (O U : List Entry) (hsub : ∀ x ∈ O, x ∈ U) (hpf : PayloadFunctional U)
    (hcontains : ∀ j ∈ join U, j ∈ run [] O) (x : Entry) :
    x ∈ run [] O ↔ x ∈ join U := by
  have hpfO : PayloadFunctional O := fun a ha b hb => hpf a (hsub a ha) b (hsub b hb)
  constructor
  · intro hx
    have invO : PutInv (run [] O) (O.reverse ++ []) := putInv_run putInv_nil O
    have invU : PutInv (run [] U) (U.reverse ++ []) := putInv_run putInv_nil U
    simp only [List.append_nil] at invO invU
    have hxO : x ∈ O := List.mem_reverse.mp (invO.sub x hx)
    rw [← mem_run_iff_mem_join U hpf, mem_run_iff U hpf]
    refine ⟨hsub x hxO, ?_⟩
    intro p hp hd
    -- p lies under an entry m of the join, which the replica holds; the replica is an antichain
    obtain ⟨m, hm, hmd⟩ := invU.cover p (List.mem_reverse.mpr hp)
    have hmJ : m ∈ join U := (mem_run_iff_mem_join U hpf m).mp hm
    have hmS : m ∈ run [] O := hcontains m hmJ
    have : m = x := invO.anti m hmS x hx (dom_trans hmd hd)
    subst this
    obtain ⟨hid, hts, hh⟩ := dom_antisymm hd hmd
    exact hpf p hp m (hsub m (List.mem_reverse.mp (invO.sub m hmS))) hid hts hh
  · exact hcontains x

/-- an entry of the join is accepted by any replica that holds only entries of `U` and does not
hold it yet -/
theorem join_entry_always_accepted (U : List Entry) (hpf : PayloadFunctional U) (s : Store)
    (hs : ∀ x ∈ s, x ∈ U) (j : Entry) (hj : j ∈ join U) (hnot : j ∉ s) :
    ∃ n, (put s j).2 = .inserted n := by
  have hjmax : j ∈ U ∧ isMax U j := by
    unfold join at hj
    simpa [List.mem_filter] using hj
  by_cases hb : ∃ p ∈ s, dom p j
  · obtain ⟨p, hp, hd⟩ := hb
    have : p = j := hjmax.2 p (hs p hp) hd
    subst this
    exact absurd hp hnot
  · rw [put_free hb]; exact ⟨_, rfl⟩

/-- an entry of the join held by a replica is never removed by offering another entry of `U` -/
theorem join_entry_never_removed (U : List Entry) (hpf : PayloadFunctional U) (s : Store)
    (hsorted : SortedById s) (j e : Entry) (hj : j ∈ join U) (hjs : j ∈ s) (he : e ∈ U) :
    j ∈ (put s e).1 := by
  have hjmax : j ∈ U ∧ isMax U j := by
    unfold join at hj
    simpa [List.mem_filter] using hj
  by_cases hb : ∃ p ∈ s, dom p e
  · rw [put_blocked hb]; exact hjs
  · apply (mem_put_free hsorted hb j).mpr
    by_cases hje : j = e
    · exact Or.inl hje
    · refine Or.inr ⟨hjs, fun hd => hje ?_⟩
      exact (hjmax.2 e he hd).symm

end Spec
