//! C09 — wire and storage encodings round-trip and never crash on hostile bytes.
//!
//! Frames from real sessions are encoded with the real `SyncCodec` (hook H3), compared byte for
//! byte with the Lean encoder, fed back in arbitrary chunkings, truncated, corrupted byte by byte;
//! random byte strings go to every decoder under `catch_unwind`. Model and implementation must
//! agree on accept/reject and on the decoded value.

use iroh_docs::{
    net::verif_codec::{decode_chunks, encode_frame, Decoded, Frame},
    sync::{Capability, ContentStatus},
    AuthorHeads, DocTicket, SignedEntry,
};
use serde::{Deserialize, Serialize};

use crate::{c01::*, c02::gen_key, common::*, syncmsg::*, world::*};

#[derive(Clone, Debug, Serialize, Deserialize)]
pub enum Op {
    /// entries of the two replicas whose session provides the frames
    Put { side: u8, a: usize, key: Vec<u8>, c: Option<usize>, ts: u64 },
    /// run the session and collect its frames (Init, Sync…)
    Session,
    /// add an Abort frame
    Abort { reason: u8 },
    /// feed the concatenated frames in chunks cut at these (relative) positions
    Chunks { cuts: Vec<usize> },
    /// every split point of the concatenation (two chunks)
    AllSplits,
    /// truncate the concatenation at every length
    Truncations,
    /// flip byte `pos % len` of frame `frame % n` with `xor`
    Corrupt { frame: usize, pos: usize, xor: u8 },
    /// every single-byte corruption of the first frame (xor 0xFF and 0x01)
    CorruptAll,
    /// frame `frame % n` with its length prefix lowered by `cut`, followed by the rest of the stream:
    /// the decoder may read the declared bytes only
    ShortPrefix { frame: usize, cut: usize },
    /// random bytes to every decoder
    Random { bytes: Vec<u8> },
    /// an oversized length prefix
    Oversized { len: u32 },
    /// a document ticket (capability + nodes; node kinds: 0 id only, 1 with an IP address, 2 with a
    /// relay URL, 3 with both) through bytes and through its string form; also the capability's
    /// raw form
    Ticket { write: bool, ns: u8, nodes: Vec<u8> },
}

pub struct C09 {
    pub keys: Keys,
}

impl C09 {
    pub fn new() -> Self {
        C09 { keys: Keys::new(1, 3) }
    }
}

pub fn wire_value(e: &SignedEntry, st: ContentStatus) -> String {
    let (au, ns) = sig_bytes(e);
    format!(
        "{}.{}.{}.{}.{}.{}.{}",
        hex(&au),
        hex(&ns),
        hex(e.entry().id().as_ref()),
        e.content_len(),
        hex(e.content_hash().as_bytes()),
        e.timestamp(),
        status_num(st)
    )
}

pub fn wire_msg(m: &MMsg) -> String {
    if m.parts.is_empty() {
        return "-".into();
    }
    m.parts
        .iter()
        .map(|p| match p {
            MPart::RangeFingerprint(f) => format!("F,{},{},{}", hex(f.range.x.as_ref()), hex(f.range.y.as_ref()), hex(&f.fingerprint)),
            MPart::RangeItem(i) => format!(
                "I,{},{},{},{}",
                hex(i.range.x.as_ref()),
                hex(i.range.y.as_ref()),
                i.have_local as u8,
                if i.values.is_empty() { "-".to_string() } else { i.values.iter().map(|(e, s)| wire_value(e, *s)).collect::<Vec<_>>().join("+") }
            ),
        })
        .collect::<Vec<_>>()
        .join("|")
}

pub fn wire_frame(f: &Frame) -> String {
    match f {
        Frame::Init { namespace, message } => format!("init;{};{}", hex(namespace.as_bytes()), wire_msg(&MMsg::from_real(message))),
        Frame::Sync(m) => format!("sync;{}", wire_msg(&MMsg::from_real(m))),
        Frame::Abort { reason } => format!("abort;{}", match reason {
            iroh_docs::net::AbortReason::NotFound => 0,
            iroh_docs::net::AbortReason::AlreadySyncing => 1,
            iroh_docs::net::AbortReason::InternalServerError => 2,
            #[allow(unreachable_patterns)]
            _ => 9,
        }),
    }
}

fn feed_line(chunks: &[Vec<u8>]) -> String {
    let (out, left) = decode_chunks(chunks);
    let mut frames = vec![];
    let mut state = String::new();
    for d in out {
        match d {
            Decoded::Frame(f) => frames.push(wire_frame(&f)),
            Decoded::NeedMore => state = format!("needmore {left}"),
            Decoded::Error(_) => state = "error".to_string(),
        }
    }
    format!("frames {} {} {}", frames.len(), frames.join("#"), state)
}

fn chunks_tok(chunks: &[Vec<u8>]) -> String {
    chunks.iter().map(|c| hex(c)).collect::<Vec<_>>().join("/")
}

fn guarded<T>(f: impl FnOnce() -> T + std::panic::UnwindSafe) -> Option<T> {
    std::panic::catch_unwind(f).ok()
}

impl Property for C09 {
    type Op = Op;
    fn id(&self) -> &'static str {
        "C09"
    }
    fn rule(&self) -> String {
        "frames (Init, Sync, Abort) produced by real reconciliation sessions between two replicas of 0-8 entries each: encoded with the real codec and compared with the Lean encoder; their concatenation fed back in random chunkings, at every two-chunk split point and truncated at every length; single-byte corruptions (random, and for small frames every byte with two masks); oversized length prefixes; document tickets with 0-4 nodes (id only / IP address / relay URL / both) and capabilities through their byte, string and raw forms; random byte strings (biased towards valid prefixes) and texts glued from multi-byte characters, prefixes and white space to the textual decoders (tickets, filters, ids, keys); random byte strings to the frame decoder, the message decoder, the entry decoder, AuthorHeads, DocTicket, Capability and DownloadPolicy decoders under catch_unwind; non-trivial = at least one frame carrying entries took part".into()
    }
    fn corpus(&self) -> Vec<(String, Vec<Op>)> {
        let p = |side: u8, a: usize, k: &[u8], c: Option<usize>, ts: u64| Op::Put { side, a, key: k.to_vec(), c, ts };
        vec![
            ("every-split-and-truncation".into(), vec![p(0, 0, b"a", Some(0), 5), p(1, 1, b"b", None, 9), Op::Session, Op::Abort { reason: 1 }, Op::AllSplits, Op::Truncations]),
            ("every-corruption-of-init".into(), vec![p(0, 0, b"a", Some(0), 5), Op::Session, Op::CorruptAll]),
            // F8: a record identifier shorter than 64 bytes inside a fingerprint part / an entry
            ("f8-short-identifier".into(), vec![
                Op::Random { bytes: { let mut v = vec![0, 0, 0, 44, 1, 1, 0, 3, 1, 2, 3, 2, 4, 5]; v.extend([9u8; 32]); v } },
                Op::Random { bytes: { let mut v = vec![1u8; 128]; v.extend([10, 1, 2, 3, 4, 5, 6, 7, 8, 9, 10, 0]); v.extend([7u8; 32]); v.push(5); v } },
            ]),
            ("short-length-prefix-before-more-data".into(), vec![
                p(0, 0, b"a", Some(0), 5), p(1, 1, b"b", Some(1), 6), Op::Session, Op::Abort { reason: 0 },
                Op::ShortPrefix { frame: 0, cut: 16 }, Op::ShortPrefix { frame: 1, cut: 1 }, Op::ShortPrefix { frame: 2, cut: 40 }, Op::ShortPrefix { frame: 100, cut: 1 },
            ]),
            ("oversized".into(), vec![Op::Oversized { len: 1073741825 }, Op::Oversized { len: 1073741824 }, Op::Oversized { len: u32::MAX }]),
            ("tickets".into(), vec![
                Op::Ticket { write: false, ns: 7, nodes: vec![0] },
                Op::Ticket { write: true, ns: 7, nodes: vec![0, 0, 0] },
                Op::Ticket { write: true, ns: 9, nodes: vec![1, 2, 3, 0] },
                Op::Ticket { write: false, ns: 9, nodes: vec![] },
            ]),
        ]
    }
    fn generate(&self, rng: &mut Rng, _i: usize, thorough: bool) -> Vec<Op> {
        let mut ops = vec![];
        for side in 0..2u8 {
            for _ in 0..rng.range(0, 8) {
                ops.push(Op::Put { side, a: rng.below(3), key: gen_key(rng), c: if rng.chance(1, 4) { None } else { Some(rng.below(3)) }, ts: *rng.pick(&crate::c02::TIMES) });
            }
        }
        ops.push(Op::Session);
        if rng.chance(1, 3) {
            ops.push(Op::Abort { reason: rng.below(3) as u8 });
        }
        for _ in 0..rng.range(1, if thorough { 10 } else { 4 }) {
            match rng.below(10) {
                0..=3 => ops.push(Op::Chunks { cuts: (0..rng.range(1, 6)).map(|_| rng.below(4000)).collect() }),
                4 => ops.push(Op::ShortPrefix { frame: rng.below(8), cut: *rng.pick(&[1usize, 2, 3, 16, 40, 100, 1000]) }),
                5..=6 => ops.push(Op::Corrupt { frame: rng.below(8), pos: rng.below(100000), xor: *rng.pick(&[1u8, 0x80, 0xFF, 0x7F]) }),
                7 => ops.push(Op::Oversized { len: *rng.pick(&[1073741825u32, 0x7FFFFFFF, u32::MAX, 1073741824]) }),
                8 => {
                    let n = rng.below(4);
                    ops.push(Op::Ticket { write: rng.chance(1, 2), ns: rng.below(250) as u8 + 1, nodes: (0..n).map(|_| rng.below(4) as u8).collect() })
                }
                _ => {
                    let len = rng.below(300);
                    let mut bytes: Vec<u8> = (0..len).map(|_| *rng.pick(&[0u8, 1, 2, 3, 32, 64, 0x7f, 0x80, 0xff, 0xaf])).collect();
                    if rng.chance(1, 2) && bytes.len() > 6 {
                        // a plausible frame header
                        let l = (bytes.len() - 4) as u32;
                        bytes[..4].copy_from_slice(&l.to_be_bytes());
                        bytes[4] = rng.below(3) as u8;
                    }
                    ops.push(Op::Random { bytes });
                }
            }
        }
        ops
    }
    fn execute(&self, ops: &[Op]) -> anyhow::Result<Vec<Line>> {
        let rt = rt();
        set_clock(NOW);
        let ns = &self.keys.namespaces[0];
        let nsid = ns.id();
        let nshex = hex(nsid.as_bytes());
        let mut sa = RealStore::new(false)?;
        let mut sb = RealStore::new(false)?;
        for s in [&mut sa, &mut sb] {
            s.store.new_replica(ns.clone())?;
            s.store.close_replica(nsid);
        }
        let mut lines = vec![];
        let mut frames: Vec<Frame> = vec![];
        let mut encoded: Vec<Vec<u8>> = vec![];
        let push_frame = |f: Frame, frames: &mut Vec<Frame>, encoded: &mut Vec<Vec<u8>>, lines: &mut Vec<Line>| -> anyhow::Result<()> {
            let bytes = encode_frame(f.clone())?;
            lines.push(Line::model(format!("cencode {}", wire_frame(&f)), format!("ok {}", hex(&bytes))));
            // specification: decoding the encoding gives the frame back and consumes everything
            lines.push(Line::oracle("sconst roundtrip", {
                let (out, left) = decode_chunks(&[bytes.clone()]);
                match (out.first(), out.len(), left) {
                    (Some(Decoded::Frame(g)), 2, 0) if wire_frame(g) == wire_frame(&f) => "roundtrip".to_string(),
                    _ => "roundtrip-failed".to_string(),
                }
            }));
            frames.push(f);
            encoded.push(bytes);
            Ok(())
        };
        for op in ops {
            match op {
                Op::Put { side, a, key, c, ts } => {
                    let e = make_entry(ns, &self.keys.authors[*a], key, *c, *ts);
                    let s = if *side == 0 { &mut sa } else { &mut sb };
                    let mut r = s.store.open_replica(&nsid)?;
                    let _ = rt.block_on(r.insert_remote_entry(e, PEER, ContentStatus::Missing));
                    drop(r);
                    s.store.close_replica(nsid);
                }
                Op::Session => {
                    let mut side_a = Side::open(1, &mut sa.store, nsid, PEER_A)?;
                    let mut side_b = Side::open(2, &mut sb.store, nsid, PEER_B)?;
                    let m0 = side_a.replica.sync_initial_message()?;
                    push_frame(Frame::Init { namespace: nsid, message: m0.clone() }, &mut frames, &mut encoded, &mut lines)?;
                    let mut real = m0;
                    let mut to_b = true;
                    for _ in 0..64 {
                        let (side, from) = if to_b { (&mut side_b, PEER_A) } else { (&mut side_a, PEER_B) };
                        match rt.block_on(side.replica.sync_process_message(real, from, &mut side.outcome))? {
                            None => break,
                            Some(r) => {
                                push_frame(Frame::Sync(r.clone()), &mut frames, &mut encoded, &mut lines)?;
                                real = r;
                                to_b = !to_b;
                            }
                        }
                    }
                }
                Op::Abort { reason } => {
                    let reason = match reason % 3 {
                        0 => iroh_docs::net::AbortReason::NotFound,
                        1 => iroh_docs::net::AbortReason::AlreadySyncing,
                        _ => iroh_docs::net::AbortReason::InternalServerError,
                    };
                    push_frame(Frame::Abort { reason }, &mut frames, &mut encoded, &mut lines)?;
                }
                Op::Chunks { cuts } => {
                    let all: Vec<u8> = encoded.concat();
                    if all.is_empty() { continue; }
                    let mut pos: Vec<usize> = cuts.iter().map(|c| c % (all.len() + 1)).collect();
                    pos.sort();
                    pos.dedup();
                    let mut chunks = vec![];
                    let mut last = 0;
                    for p in pos {
                        chunks.push(all[last..p].to_vec());
                        last = p;
                    }
                    chunks.push(all[last..].to_vec());
                    let imp = feed_line(&chunks);
                    lines.push(Line::model(format!("cfeed {}", chunks_tok(&chunks)), imp.clone()));
                    // specification: any chunking yields exactly the frames that were encoded
                    let expect = format!("frames {} {} needmore 0", frames.len(), frames.iter().map(wire_frame).collect::<Vec<_>>().join("#"));
                    lines.push(Line::oracle("sconst any-chunking", if imp == expect { "any-chunking" } else { "chunking-changed-the-frames" }));
                }
                Op::AllSplits => {
                    let all: Vec<u8> = encoded.concat();
                    let expect = format!("frames {} {} needmore 0", frames.len(), frames.iter().map(wire_frame).collect::<Vec<_>>().join("#"));
                    let mut ok = true;
                    for p in 0..=all.len() {
                        let chunks = vec![all[..p].to_vec(), all[p..].to_vec()];
                        ok &= feed_line(&chunks) == expect;
                    }
                    lines.push(Line::oracle("sconst every-split-point", if ok { "every-split-point" } else { "some-split-point-changed-the-frames" }));
                }
                Op::Truncations => {
                    // a truncated stream never yields a bogus frame: only a prefix of the frames, then "need more"
                    let all: Vec<u8> = encoded.concat();
                    let mut ok = true;
                    let mut sample = None;
                    for p in 0..all.len() {
                        let line = feed_line(&[all[..p].to_vec()]);
                        // how many whole frames fit into p bytes
                        let mut k = 0;
                        let mut acc = 0;
                        for e in &encoded {
                            if acc + e.len() <= p { acc += e.len(); k += 1; } else { break; }
                        }
                        let expect = format!("frames {} {} needmore {}", k, frames[..k].iter().map(wire_frame).collect::<Vec<_>>().join("#"), p - acc);
                        ok &= line == expect;
                        if p == all.len() / 2 {
                            sample = Some((all[..p].to_vec(), line));
                        }
                    }
                    lines.push(Line::oracle("sconst truncation-needs-more", if ok { "truncation-needs-more" } else { "truncation-yielded-a-bogus-result" }));
                    if let Some((bytes, line)) = sample {
                        lines.push(Line::model(format!("cfeed {}", hex(&bytes)), line));
                    }
                }
                Op::Corrupt { frame, pos, xor } => {
                    if encoded.is_empty() { continue; }
                    let mut b = encoded[frame % encoded.len()].clone();
                    let p = pos % b.len();
                    b[p] ^= *xor;
                    match guarded(|| feed_line(&[b.clone()])) {
                        Some(line) => lines.push(Line::model(format!("cfeed {}", hex(&b)), line)),
                        None => lines.push(Line::oracle("sconst no-panic", "decoder-panicked")),
                    }
                }
                Op::ShortPrefix { frame, cut } => {
                    if encoded.is_empty() { continue; }
                    let i = frame % encoded.len();
                    let mut b = encoded[i].clone();
                    let len = u32::from_be_bytes([b[0], b[1], b[2], b[3]]) as usize;
                    let short = len - (*cut).clamp(1, len.max(1)).min(len);
                    b[..4].copy_from_slice(&(short as u32).to_be_bytes());
                    // … and whatever follows in the stream (at least one more frame: this one again)
                    let mut stream = b.clone();
                    for e in encoded.iter().skip(i + 1) {
                        stream.extend_from_slice(e);
                    }
                    stream.extend_from_slice(&encoded[i]);
                    let exact = b[..4 + short].to_vec();
                    match guarded(|| (feed_line(&[stream.clone()]), feed_line(&[exact.clone()]))) {
                        Some((whole, alone)) => {
                            lines.push(Line::model(format!("cfeed {}", hex(&stream)), whole.clone()));
                            // specification: a frame is decoded from the declared bytes alone: what the first frame
                            // decodes to does not depend on what is buffered behind it
                            let first = |l: &str| -> String {
                                let t: Vec<&str> = l.splitn(4, ' ').collect();
                                if t.get(1) == Some(&"0") { "none".to_string() } else { t.get(2).map(|f| f.split('#').next().unwrap_or("").to_string()).unwrap_or_default() }
                            };
                            let ok = first(&alone) == first(&whole);
                            lines.push(Line::oracle("sconst frame-decoded-from-declared-bytes-only", if ok { "frame-decoded-from-declared-bytes-only".to_string() } else { "bytes-behind-a-frame-changed-what-it-decodes-to".to_string() }));
                        }
                        None => lines.push(Line::oracle("sconst no-panic", "decoder-panicked")),
                    }
                }
                Op::CorruptAll => {
                    if let Some(first) = encoded.first() {
                        if first.len() <= 400 {
                            for p in 0..first.len() {
                                for x in [0xFFu8, 0x01] {
                                    let mut b = first.clone();
                                    b[p] ^= x;
                                    match guarded(|| feed_line(&[b.clone()])) {
                                        Some(line) => lines.push(Line::model(format!("cfeed {}", hex(&b)), line)),
                                        None => lines.push(Line::oracle("sconst no-panic", "decoder-panicked")),
                                    }
                                }
                            }
                        }
                    }
                }
                Op::Ticket { write, ns, nodes } => {
                    use iroh_tickets::Ticket as _;
                    let secret = iroh_docs::NamespaceSecret::from_bytes(&[*ns; 32]);
                    // a read capability is just 32 bytes of document id: every other one is taken as is (most
                    // byte strings are not curve points; an id need not be one to be stored or shared)
                    let cap = if *write {
                        Capability::Write(secret.clone())
                    } else if ns % 2 == 1 {
                        Capability::Read(iroh_docs::NamespaceId::from(&[*ns; 32]))
                    } else {
                        Capability::Read(secret.id())
                    };
                    // the capability's raw form
                    let (kind, raw) = cap.raw();
                    let cap_ok = Capability::from_raw(kind, &raw).map(|c| c.raw() == (kind, raw)).unwrap_or(false);
                    lines.push(Line::oracle("sconst capability-roundtrip=1", format!("capability-roundtrip={}", cap_ok as u8)));
                    let addrs: Vec<iroh::EndpointAddr> = nodes
                        .iter()
                        .enumerate()
                        .map(|(i, k)| {
                            let mut a = iroh::EndpointAddr::new(iroh::SecretKey::from_bytes(&[0x40 + i as u8; 32]).public());
                            if k & 1 == 1 {
                                a = a.with_ip_addr(std::net::SocketAddr::from(([127, 0, 0, 1 + i as u8], 4000 + i as u16)));
                            }
                            if k & 2 == 2 {
                                a = a.with_relay_url(format!("https://relay{i}.example.org").parse().expect("relay url"));
                            }
                            a
                        })
                        .collect();
                    let ticket = DocTicket::new(cap, addrs.clone());
                    let same = |t: &DocTicket| t.capability.raw() == (kind, raw) && t.nodes == addrs;
                    let res = guarded(|| {
                        let via_bytes = <DocTicket as iroh_tickets::Ticket>::decode_bytes(&ticket.encode_bytes());
                        let via_text = ticket.to_string().parse::<DocTicket>();
                        (via_bytes.map(|t| same(&t)).map_err(|e| e.to_string()), via_text.map(|t| same(&t)).map_err(|e| e.to_string()))
                    });
                    // specification: a ticket with at least one node comes back unchanged; one
                    // without nodes is refused
                    let want = if nodes.is_empty() { "ticket:refused/refused" } else { "ticket:same/same" };
                    let got = match res {
                        None => "ticket:panicked".to_string(),
                        Some((b, t)) => {
                            let f = |r: Result<bool, String>| match r {
                                Ok(true) => "same".to_string(),
                                Ok(false) => "changed".to_string(),
                                Err(_) => "refused".to_string(),
                            };
                            format!("ticket:{}/{}", f(b), f(t))
                        }
                    };
                    lines.push(Line::oracle(format!("sconst {want}"), got));
                }
                Op::Oversized { len } => {
                    let mut b = len.to_be_bytes().to_vec();
                    b.extend([1u8, 0]);
                    lines.push(Line::model(format!("cfeed {}", hex(&b)), feed_line(&[b.clone()])));
                }
                Op::Random { bytes } => {
                    let b = bytes.clone();
                    // the frame decoder
                    match guarded(|| feed_line(&[b.clone()])) {
                        Some(line) => lines.push(Line::model(format!("cfeed {}", hex(&b)), line)),
                        None => lines.push(Line::oracle("sconst no-panic", "frame-decoder-panicked")),
                    }
                    // the message decoder; a decoded message must also be usable (F8: accessors)
                    let bb = b.clone();
                    match guarded(move || postcard::from_bytes::<iroh_docs::sync::ProtocolMessage>(&bb).ok().map(|m| {
                        let mm = MMsg::from_real(&m);
                        for p in &mm.parts {
                            match p {
                                MPart::RangeFingerprint(f) => { let _ = (f.range.x.namespace(), f.range.x.author(), f.range.y.key().len()); }
                                MPart::RangeItem(i) => { for (e, _) in &i.values { let _ = (e.entry().namespace(), e.entry().author(), e.key().len()); } }
                            }
                        }
                        wire_msg(&mm)
                    })) {
                        Some(r) => lines.push(Line::model(format!("cdecmsg {}", hex(&b)), r.map(|m| format!("ok {m}")).unwrap_or("err".into()))),
                        None => lines.push(Line::oracle("sconst no-panic", "message-decoder-or-accessor-panicked")),
                    }
                    // the entry decoder
                    let bb = b.clone();
                    match guarded(move || postcard::from_bytes::<SignedEntry>(&bb).ok().map(|e| {
                        let _ = (e.entry().namespace(), e.entry().author(), e.key().len());
                        wire_value(&e, ContentStatus::Complete)
                    })) {
                        Some(r) => lines.push(Line::model(format!("cdecentry {}", hex(&b)), r.map(|m| format!("ok {m}")).unwrap_or("err".into()))),
                        None => lines.push(Line::oracle("sconst no-panic", "entry-decoder-or-accessor-panicked")),
                    }
                    // decoders without a Lean model: a value or an error, never a panic
                    let bb = b.clone();
                    let ok = guarded(move || {
                        let _ = AuthorHeads::decode(&bb);
                        let _ = <DocTicket as iroh_tickets::Ticket>::decode_bytes(&bb);
                        let _ = postcard::from_bytes::<Capability>(&bb);
                        let _ = postcard::from_bytes::<iroh_docs::store::DownloadPolicy>(&bb);
                        let _ = std::str::from_utf8(&bb).ok().map(|s| s.parse::<iroh_docs::store::FilterKind>());
                        let _ = std::str::from_utf8(&bb).ok().map(|s| s.parse::<DocTicket>());
                        // the textual decoders on *text*: pieces with multi-byte characters, prefixes in both
                        // cases and white space, glued together as the random bytes say (random bytes are
                        // rarely valid UTF-8, and never interesting UTF-8)
                        const PIECES: [&str; 24] = ["", " ", "d", "do", "doc", "DOC", "Doc", "docaa", "é", "€", "\u{fffd}", "𝄞", "a", "aa", "\t", "\n", "p:", "x:", ":", "61", "é:", "ß", "\u{0301}", "7"];
                        for start in 0..bb.len().min(4) {
                            let mut text = String::new();
                            for x in bb.iter().skip(start).take(7) {
                                text.push_str(PIECES[*x as usize % PIECES.len()]);
                            }
                            let _ = text.parse::<DocTicket>();
                            let _ = text.parse::<iroh_docs::store::FilterKind>();
                            let _ = text.parse::<iroh_docs::NamespaceId>();
                            let _ = text.parse::<iroh_docs::AuthorId>();
                            let _ = text.parse::<iroh_docs::Author>();
                            let _ = text.parse::<iroh_docs::NamespaceSecret>();
                        }
                    }).is_some();
                    lines.push(Line::oracle("sconst no-panic", if ok { "no-panic" } else { "a-decoder-panicked" }));
                }
            }
        }
        let _ = nshex;
        Ok(lines)
    }
    fn features(&self, ops: &[Op], lines: &[Line]) -> Vec<String> {
        let mut f = vec![];
        for o in ops {
            f.push(format!("op:{}", format!("{o:?}").split([' ', '{']).next().unwrap_or("")));
        }
        for l in lines {
            if l.op.starts_with("cfeed") {
                f.push(format!("feed:{}", if l.imp.ends_with("error") { "error" } else if l.imp.starts_with("frames 0") { "needmore-no-frame" } else { "frames" }));
            }
            if l.op.starts_with("cdecmsg") || l.op.starts_with("cdecentry") {
                f.push(format!("{}:{}", l.op.split(' ').next().unwrap(), if l.imp == "err" { "err" } else { "ok" }));
            }
        }
        f.sort();
        f.dedup();
        f
    }
    fn nontrivial(&self, _ops: &[Op], lines: &[Line]) -> bool {
        lines.iter().any(|l| l.op.starts_with("cencode") && l.op.contains("I,"))
    }
}
