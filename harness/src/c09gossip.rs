//! C09 for the gossip channel: `engine/gossip.rs::receive_loop` decodes every message it receives
//! over iroh-gossip with `postcard::from_bytes::<Op>` — bytes that come from other nodes.
//!
//! Well-formed messages of the three kinds (entry, content-ready, sync report), then truncated,
//! corrupted, extended and random bytes, through the crate's own decoder and encoder (hook H8,
//! `engine::verif_live::gossip_op_reencode`), under `catch_unwind`. Model: `Codec.decGOp` /
//! `encGOp`; specification: a well-formed message re-encodes to itself, bytes behind it are
//! ignored, nothing panics.

use iroh_docs::{engine::verif_live::gossip_op_reencode, AuthorHeads};
use serde::{Deserialize, Serialize};

use crate::{c02::gen_key, common::*, world::*};

#[derive(Clone, Debug, Serialize, Deserialize)]
pub enum Mutation {
    None,
    Truncate { at: usize },
    Flip { at: usize, xor: u8 },
    Append { bytes: Vec<u8> },
}

#[derive(Clone, Debug, Serialize, Deserialize)]
pub enum Op {
    Put { a: usize, key: Vec<u8>, c: Option<usize>, ts: u64, m: Mutation },
    ContentReady { c: usize, m: Mutation },
    /// a sync report: the heads are an encoded head map of `n` authors, or arbitrary bytes
    SyncReport { n: usize, garbage: Option<Vec<u8>>, m: Mutation },
    Random { bytes: Vec<u8> },
}

pub struct C09Gossip {
    pub keys: Keys,
}

impl C09Gossip {
    pub fn new() -> Self {
        C09Gossip { keys: Keys::new(1, 3) }
    }
}

fn varint(mut n: u64) -> Vec<u8> {
    let mut out = vec![];
    loop {
        let b = (n & 0x7f) as u8;
        n >>= 7;
        if n == 0 {
            out.push(b);
            return out;
        }
        out.push(b | 0x80);
    }
}

fn mutate(mut b: Vec<u8>, m: &Mutation) -> Vec<u8> {
    match m {
        Mutation::None => b,
        Mutation::Truncate { at } => {
            let n = at % (b.len() + 1);
            b.truncate(n);
            b
        }
        Mutation::Flip { at, xor } => {
            if !b.is_empty() {
                let p = at % b.len();
                b[p] ^= *xor;
            }
            b
        }
        Mutation::Append { bytes } => {
            b.extend_from_slice(bytes);
            b
        }
    }
}

fn gen_mutation(rng: &mut Rng) -> Mutation {
    match rng.below(8) {
        0..=2 => Mutation::None,
        3..=4 => Mutation::Truncate { at: rng.below(400) },
        5..=6 => Mutation::Flip { at: if rng.chance(1, 2) { rng.below(4) } else { rng.below(400) }, xor: *rng.pick(&[1u8, 0x80, 0xFF, 0x7F, 0x02]) },
        _ => Mutation::Append { bytes: (0..rng.range(1, 12)).map(|_| *rng.pick(&[0u8, 1, 2, 0x7f, 0x80, 0xff])).collect() },
    }
}

impl Property for C09Gossip {
    type Op = Op;
    fn id(&self) -> &'static str {
        "C09"
    }
    fn case_prefix(&self) -> &'static str {
        "gossip-"
    }
    fn rule(&self) -> String {
        "GOSSIP CHANNEL: 1-8 gossip messages per case — an entry (real signed entries, deletion markers, long keys), a content-ready hash, a sync report (encoded heads of 0-6 authors or arbitrary bytes) — unmodified, truncated at any length, with one byte flipped (also inside the enum tag, the length prefixes and the record identifier), with bytes appended, or entirely random, through the crate's own postcard decoder for gossip messages and back through its encoder under catch_unwind; non-trivial = at least one message decoded and at least one was refused".into()
    }
    fn corpus(&self) -> Vec<(String, Vec<Op>)> {
        vec![(
            "gossip-each-kind".into(),
            vec![
                Op::Put { a: 0, key: b"k".to_vec(), c: Some(0), ts: 5, m: Mutation::None },
                Op::Put { a: 1, key: vec![], c: None, ts: 9, m: Mutation::Append { bytes: vec![1, 2, 3] } },
                Op::ContentReady { c: 1, m: Mutation::None },
                Op::ContentReady { c: 1, m: Mutation::Truncate { at: 20 } },
                Op::SyncReport { n: 3, garbage: None, m: Mutation::None },
                Op::SyncReport { n: 0, garbage: Some(vec![0xff, 0xff, 0xff]), m: Mutation::None },
                // the length prefix of the record identifier lowered below 64
                Op::Put { a: 0, key: b"k".to_vec(), c: Some(0), ts: 5, m: Mutation::Flip { at: 129, xor: 0x40 } },
                Op::Random { bytes: vec![3] },
                Op::Random { bytes: vec![] },
                Op::Random { bytes: vec![0x80, 0x80, 0x80, 0x80, 0x80, 0x01] },
            ],
        )]
    }
    fn generate(&self, rng: &mut Rng, _i: usize, _thorough: bool) -> Vec<Op> {
        (0..rng.range(1, 8))
            .map(|_| match rng.below(8) {
                0..=2 => {
                    let mut key = gen_key(rng);
                    if rng.chance(1, 10) {
                        key = crate::c02::long_key(&key);
                    }
                    Op::Put { a: rng.below(3), key, c: if rng.chance(1, 4) { None } else { Some(rng.below(3)) }, ts: *rng.pick(&crate::c02::TIMES), m: gen_mutation(rng) }
                }
                3 => Op::ContentReady { c: rng.below(3), m: gen_mutation(rng) },
                4..=5 => Op::SyncReport {
                    n: rng.below(7),
                    garbage: if rng.chance(1, 3) { Some((0..rng.below(20)).map(|_| *rng.pick(&[0u8, 1, 0x28, 0x7f, 0x80, 0xff])).collect()) } else { None },
                    m: gen_mutation(rng),
                },
                _ => {
                    let len = rng.below(200);
                    let mut bytes: Vec<u8> = (0..len).map(|_| *rng.pick(&[0u8, 1, 2, 3, 32, 64, 0x7f, 0x80, 0xff])).collect();
                    if !bytes.is_empty() && rng.chance(2, 3) {
                        bytes[0] = rng.below(4) as u8;
                    }
                    Op::Random { bytes }
                }
            })
            .collect()
    }
    fn execute(&self, ops: &[Op]) -> anyhow::Result<Vec<Line>> {
        let ns = &self.keys.namespaces[0];
        let mut lines = vec![];
        for op in ops {
            let (bytes, pristine) = match op {
                Op::Put { a, key, c, ts, m } => {
                    let e = make_entry(ns, &self.keys.authors[*a], key, *c, *ts);
                    let mut b = vec![0u8];
                    b.extend(postcard::to_stdvec(&e)?);
                    (mutate(b, m), matches!(m, Mutation::None))
                }
                Op::ContentReady { c, m } => {
                    let (hash, _) = content(*c);
                    let mut b = vec![1u8];
                    b.extend_from_slice(hash.as_bytes());
                    (mutate(b, m), matches!(m, Mutation::None))
                }
                Op::SyncReport { n, garbage, m } => {
                    let heads = match garbage {
                        Some(g) => g.clone(),
                        None => {
                            let mut h = AuthorHeads::default();
                            for i in 0..*n {
                                let mut id = [i as u8 + 1; 32];
                                id[0] = 0xA0;
                                h.insert(iroh_docs::AuthorId::from(&id), 100 + i as u64);
                            }
                            h.encode(None)?
                        }
                    };
                    let mut b = vec![2u8];
                    b.extend_from_slice(ns.id().as_bytes());
                    b.extend(varint(heads.len() as u64));
                    b.extend(heads);
                    (mutate(b, m), matches!(m, Mutation::None))
                }
                Op::Random { bytes } => (bytes.clone(), false),
            };
            let b2 = bytes.clone();
            let out = match std::panic::catch_unwind(move || gossip_op_reencode(&b2)) {
                Ok(Some((tag, re))) => format!("ok {tag} {}", hex(&re)),
                Ok(None) => "err".to_string(),
                Err(_) => {
                    lines.push(Line::oracle("sconst no-panic", "gossip-decoder-panicked"));
                    continue;
                }
            };
            lines.push(Line::model(format!("gdecode {}", hex(&bytes)), out.clone()));
            if pristine {
                // specification: a well-formed message decodes, and re-encodes to the bytes it came from
                let tag = bytes[0];
                lines.push(Line::oracle(format!("sconst ok_{tag}_{}", hex(&bytes)), out.replace(' ', "_")));
            }
        }
        Ok(lines)
    }
    fn features(&self, ops: &[Op], lines: &[Line]) -> Vec<String> {
        let mut f = vec![];
        for o in ops {
            let (k, m) = match o {
                Op::Put { m, .. } => ("put", Some(m)),
                Op::ContentReady { m, .. } => ("content-ready", Some(m)),
                Op::SyncReport { m, .. } => ("sync-report", Some(m)),
                Op::Random { .. } => ("random", None),
            };
            f.push(format!("msg:{k}:{}", m.map(|m| format!("{m:?}").split([' ', '{']).next().unwrap_or("").to_string()).unwrap_or_default()));
        }
        for l in lines {
            if l.op.starts_with("gdecode") {
                f.push(format!("decoded:{}", l.imp.split(' ').take(2).collect::<Vec<_>>().join("-")));
            }
        }
        f.sort();
        f.dedup();
        f
    }
    fn nontrivial(&self, _ops: &[Op], lines: &[Line]) -> bool {
        lines.iter().any(|l| l.op.starts_with("gdecode") && l.imp.starts_with("ok")) && lines.iter().any(|l| l.op.starts_with("gdecode") && l.imp == "err")
    }
}
