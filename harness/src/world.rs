//! Helpers around the real crate: stores, replicas, dumps.

use iroh_blobs::Hash;
use iroh_docs::{
    store::{Query, Store},
    sync::{InsertError, Record},
    Author, NamespaceId, NamespaceSecret, SignedEntry,
};

use crate::common::*;

pub const NOW: u64 = 2_000_000_000_000_000; // micros; all "present" clocks
pub const SHIFT: u64 = iroh_docs::sync::MAX_TIMESTAMP_FUTURE_SHIFT;
pub const PEER: [u8; 32] = [7u8; 32];

pub fn set_clock(micros: u64) {
    iroh_docs::verif::set_thread_clock_micros(Some(micros));
}

pub struct RealStore {
    pub store: Store,
    pub file: Option<tempfile::NamedTempFile>,
}

impl RealStore {
    pub fn new(file: bool) -> anyhow::Result<Self> {
        if file {
            let f = tempfile::NamedTempFile::new()?;
            let store = Store::persistent(f.path())?;
            Ok(RealStore {
                store,
                file: Some(f),
            })
        } else {
            Ok(RealStore {
                store: Store::memory(),
                file: None,
            })
        }
    }
    /// close and reopen a file backed store (no-op for memory)
    pub fn reopen(&mut self) -> anyhow::Result<()> {
        if let Some(f) = &self.file {
            self.store.flush()?;
            // the old store has to be dropped before the file can be opened again
            let tmp = Store::memory();
            let old = std::mem::replace(&mut self.store, tmp);
            drop(old);
            self.store = Store::persistent(f.path())?;
        }
        Ok(())
    }
}

pub fn rt() -> tokio::runtime::Runtime {
    tokio::runtime::Builder::new_current_thread()
        .enable_time()
        .build()
        .unwrap()
}

pub fn content(i: usize) -> (Hash, u64) {
    let data = format!("content-{i}");
    (Hash::new(data.as_bytes()), data.len() as u64)
}

pub fn make_entry(
    ns: &NamespaceSecret,
    author: &Author,
    key: &[u8],
    content_idx: Option<usize>,
    ts: u64,
) -> SignedEntry {
    let rec = match content_idx {
        Some(i) => {
            let (h, l) = content(i);
            Record::new(h, l, ts)
        }
        None => Record::empty(ts),
    };
    SignedEntry::from_parts(ns, author, key, rec)
}

/// the two signatures of an entry, `(author, namespace)`, read from its postcard encoding
/// (`EntrySignature { author_signature, namespace_signature }` comes first, 64 raw bytes each)
pub fn sig_bytes(e: &SignedEntry) -> ([u8; 64], [u8; 64]) {
    let b = postcard::to_stdvec(e).expect("serialize entry");
    (b[..64].try_into().unwrap(), b[64..128].try_into().unwrap())
}

/// canonical token of a stored entry; signature validity is established with the crate's own
/// verify (ground truth by construction is used where forgeries matter, see c03)
pub fn stored_tok(e: &SignedEntry) -> String {
    if e.verify(&()).is_ok() {
        honest_tok(e)
    } else {
        let bytes = e.entry().to_vec();
        let (au_sig, ns_sig) = sig_bytes(e);
        let nsok = e
            .entry()
            .namespace()
            .into_public_key()
            .map(|k| k.verify(&bytes, &iroh::Signature::from_bytes(&ns_sig)).is_ok())
            .unwrap_or(false);
        let auok = e
            .entry()
            .author()
            .into_public_key()
            .map(|k| k.verify(&bytes, &iroh::Signature::from_bytes(&au_sig)).is_ok())
            .unwrap_or(false);
        entry_tok(e, sig_tag(e), nsok, auok)
    }
}

/// a small tag identifying a non-honest signature pair
pub fn sig_tag(e: &SignedEntry) -> u64 {
    let (a, n) = sig_bytes(e);
    let mut h = blake3::Hasher::new();
    h.update(&n);
    h.update(&a);
    let b = h.finalize();
    1 + (u32::from_be_bytes(b.as_bytes()[..4].try_into().unwrap()) as u64)
}

pub fn dump(store: &mut Store, ns: NamespaceId) -> anyhow::Result<String> {
    let mut toks = Vec::new();
    for e in store.get_many(ns, Query::all().include_empty())? {
        toks.push(stored_tok(&e?));
    }
    Ok(entries_line(&toks))
}

pub fn insert_result(r: Result<usize, InsertError>) -> String {
    match r {
        Ok(n) => format!("inserted {n}"),
        Err(InsertError::NewerEntryExists) => "notinserted".to_string(),
        Err(InsertError::EntryIsEmpty) => "err:entry-is-empty".to_string(),
        Err(InsertError::ReadOnly) => "err:read-only".to_string(),
        Err(InsertError::Closed) => "err:closed".to_string(),
        Err(InsertError::Validation(v)) => {
            use iroh_docs::sync::ValidationFailure::*;
            match v {
                InvalidNamespace => "err:invalid-namespace",
                BadSignature => "err:bad-signature",
                TooFarInTheFuture => "err:future",
                InvalidEmptyEntry => "err:invalid-empty",
                // a refusal this harness does not know (the crate's enum grew): still a refusal, named as is
                #[allow(unreachable_patterns)]
                other => return format!("err:validation:{other:?}"),
            }
            .to_string()
        }
        Err(InsertError::Store(e)) => format!("err:store:{e}"),
        #[allow(unreachable_patterns)]
        Err(other) => format!("err:other:{other:?}"),
    }
}
