//! Deterministic reproduction of F14: a request queued behind `Shutdown` is never answered.
use iroh_docs::actor::{OpenOpts, SyncHandle};

fn main() {
    let rt = tokio::runtime::Builder::new_current_thread().enable_time().build().unwrap();
    let mut store = iroh_docs::store::Store::memory();
    let ns = iroh_docs::NamespaceSecret::from_bytes(&[7u8; 32]);
    store.new_replica(ns.clone()).unwrap();
    store.close_replica(ns.id());
    let handle = SyncHandle::spawn(store, None, "probe".into());
    let out = rt.block_on(async {
        handle.open(ns.id(), OpenOpts::default().sync()).await.unwrap();
        let h2 = handle.clone();
        let id = ns.id();
        // both requests are enqueued in this order before the actor can run either
        let shutdown = handle.shutdown();
        let state = h2.get_state(id);
        let (s, st) = tokio::join!(shutdown, async {
            tokio::time::timeout(std::time::Duration::from_secs(3), state).await
        });
        (s.is_ok(), match st { Err(_) => "HUNG (no reply within 3 s)".to_string(), Ok(r) => format!("answered: {:?}", r.map(|_| ()).map_err(|e| e.to_string())) })
    });
    println!("shutdown ok = {}, request queued behind shutdown: {}", out.0, out.1);
    std::process::exit(0);
}
